(* C20 -- placeholder *)
From NV Require Import Model.Nucleo.
