(* C20 -- active_injectors counts the live injectors of the current stream.
   Statement in Spec/NucleoStatements.v, proof in Proofs/NucleoFacts.v (bookkeeping invariant InvA over
   the protocol model: which of the matcher / worker / snapshot handles point at the current stream as a
   function of the UI state).  Quantification: every history of injector(), clone, drop, restart(true|false),
   edits, ticks (completing or timing out, with the background run at any stage), injector activity - at
   every point where the UI thread is between API calls.  Arc::strong_count is modelled as the number of
   live handles (trusted Arc semantics); the theorem also shows the usize subtraction never underflows. *)
From Coq Require Import NArith List Bool.
From NV Require Import Model.Nucleo Spec.NucleoStatements Proofs.NucleoFacts.
Import Nucleo.
Import ListNotations.
Local Open Scope N_scope.

Theorem C20_count : forall sc ln, C20_count_stmt sc ln.
Proof. exact NucleoFacts.C20_count. Qed.

(* non-vacuity: the history of the crate's own unit test, extended by a restart in between *)
Example C20_nonvacuous :
  let sc := fun _ _ _ => @None N in let ln := fun _ _ => 0 in
  let s := run_events sc ln init_nstate
             [ENewInjector 1; ENewInjector 2; EDropInjector 2; ERestart false; ENewInjector 3;
              ETickBegin true; ETick; ETick; ETick; ETick; ETick; ETick] in
  active_injectors s = 1 /\ live_injectors s = 1 /\ cur s = 1.
Proof. vm_compute. repeat split; reflexivity. Qed.

Print Assumptions C20_count.
