(* C07 -- A quiescent matcher converges to the from-scratch result.
   Protocol half: statements in Spec/NucleoStatements.v, proofs in Proofs/SnapshotFacts.v.
     C07_converges  in every reachable state (truthful append flags) that is quiescent - UI idle, worker
                    lock free, the last tick reported `not running`, no edit / restart pending, every item
                    of the current stream published before that tick began - the snapshot is of the current
                    stream and pattern, counts every item of the stream, and contains exactly the items a
                    from-scratch scan of the whole stream matches (scores and order: C06_snapshot).
   Text half (what makes an append flag truthful): Spec/AppendSpec.v, Proofs/AppendFacts.v.
     C07_append_refines   whenever MultiPattern::reparse decides `Update` for old ++ suffix, every haystack
                          matched by the new atoms is matched by the old atoms (outside known finding K3);
     C07_append_K3_refuted, C07_append_old_condition_refuted  the machine-checked witnesses of the known
                          finding and of the defect repaired by the fix: commits. *)
From Coq Require Import NArith List Bool.
From NV Require Import Model.Nucleo Spec.NucleoStatements Proofs.SnapshotFacts.
From NV Require Import Spec.AppendSpec Proofs.AppendFacts Proofs.AppendRun.
Import Nucleo.
Import ListNotations.
Local Open Scope N_scope.

Theorem C07_converges : forall sc ln, C07_converges_weak_stmt sc ln.
Proof. exact SnapshotFacts.C07_converges_weak. Qed.
Theorem C07_unbounded_refuted : forall sc ln, sc 1 0 PLACEHOLDER <> None -> ~ C07_converges_stmt sc ln.
Proof. exact SnapshotFacts.C07_converges_false. Qed.

(* text half *)
Theorem C07_append_refines : C07_append_refines_stmt.
Proof. exact AppendFacts.C07_append_refines. Qed.
(* the same against the matcher model `run` (what Pattern::score computes), all atom kinds *)
Theorem C07_append_refines_run : C07_append_refines_run_stmt.
Proof. exact AppendRun.C07_append_refines_run. Qed.
Theorem C07_append_K3_refuted : ~ C07_append_known_K3_stmt.
Proof. exact AppendFacts.C07_append_K3_refuted. Qed.
Theorem C07_append_old_condition_refuted : ~ C07_append_prefix_dollar_old_stmt.
Proof. exact AppendFacts.C07_append_old_condition_refuted. Qed.

Print Assumptions C07_converges.
Print Assumptions C07_append_refines.
Print Assumptions C07_append_refines_run.
Print Assumptions C07_append_K3_refuted.
Print Assumptions C07_append_old_condition_refuted.
Print Assumptions C07_unbounded_refuted.

(* non-vacuity (Proofs/ExampleFacts.v, by computation): a 49-event history with an append edit (Update path), a non-append edit (Rescore), a cloned and a dropped injector ends in a quiescent state whose snapshot holds four matches with score ties broken by length and index; the premises of C07_converges hold and the conclusion is instantiated (from-scratch set [0;2;3;4]) *)
From NV Require Proofs.ExampleFacts.
Definition C07_nonvacuous := ExampleFacts.C07_nonvacuous.
Print Assumptions C07_nonvacuous.
