(* C07 -- placeholder *)
From NV Require Import Model.Nucleo.
