(* C03 -- The score is the fzf scoring scheme applied to the reported alignment.
   Statements in Spec/Statements.v, proofs in Proofs/ScoreFacts.v.  fzf_score (Spec/Matching.v) is the
   documented scheme with LITERAL constants (16, 3, 1, 10/9/8, 5, 4, doubled first bonus); the bonus
   rule of the code (translated constants from score.rs / config.rs) is proved equal to the literal
   table, so a changed constant or preset breaks C03_bonus_table / C03_presets at the next run.
   "The score-only and the indices variants return the same value": one model function returns both
   (the const-generic flag only guards writes to the index vector / back-pointer cells); the harness
   runs both variants of every entry point on every case.
   C03_linear_score covers every algorithm that scores through calculate_score and the single-character
   scorers; C03_dp_score covers the optimal entry point including the DP (invariant: every score cell's
   value is the fzf state of the partial alignment reconstruct returns from it). *)
From Coq Require Import NArith List Bool.
From NV Require Import Model.Matcher Spec.Matching Spec.Statements Proofs.ScoreFacts Proofs.DPScoreFacts.
Import ListNotations.
Local Open Scope N_scope.

Theorem C03_bonus_table : C03_bonus_table_stmt.
Proof. exact ScoreFacts.C03_bonus_table. Qed.

Theorem C03_presets : C03_presets_stmt.
Proof. exact ScoreFacts.C03_presets. Qed.

Theorem C03_linear_score : C03_linear_score_stmt.
Proof. exact ScoreFacts.C03_linear_score_weak. Qed.

Theorem C03_no_wrap : C03_no_wrap_stmt.
Proof. exact ScoreFacts.C03_no_wrap_weak. Qed.

(* the optimal (DP) entry point too: the score of the best cell is the fzf scheme on the reconstructed
   alignment *)
Theorem C03_dp_score : DP_score_stmt.
Proof. exact DPScoreFacts.DP_score. Qed.

(* the same alignment gets the same score from every (linear) algorithm: both equal fzf_score *)
Theorem C03_same_alignment :
  forall cfg a b hs ns ns' s s' idx, a <> Fuzzy -> b <> Fuzzy -> prefer_prefix cfg = false -> bonus_bounded cfg ->
    lenN (cs ns) <= 2500 -> lenN (cs ns') <= 2500 ->
    needle_ok cfg (rp ns) (cs ns) = true -> needle_ok cfg (rp ns') (cs ns') = true ->
    run cfg a hs ns = Match s idx -> run cfg b hs ns' = Match s' idx -> s = s'.
Proof.
  intros cfg a b hs ns ns' s s' idx Ha Hb Hp Hbb Hl Hl' Hok Hok' R R'.
  rewrite (ScoreFacts.C03_linear_score_weak cfg a hs ns s idx Ha Hp Hbb Hl Hok R).
  rewrite (ScoreFacts.C03_linear_score_weak cfg b hs ns' s' idx Hb Hp Hbb Hl' Hok' R'). reflexivity.
Qed.

(* the first formulations are refuted: needle_ok and the bonus bound are necessary *)
Theorem C03_naive_statements_refuted : ~ C03_linear_score_naive_stmt /\ ~ C03_no_wrap_naive_stmt.
Proof. split; [exact ScoreFacts.C03_linear_score_counterexample | exact ScoreFacts.C03_no_wrap_counterexample]. Qed.

Example C03_nonvacuous :
  let cfg := config_of preset_default true true false in
  let hs := {| rp := Ascii; cs := [102; 111; 111; 45; 98; 97; 114] |} in     (* "foo-bar" *)
  let ns := {| rp := Ascii; cs := [102; 98] |} in
  bonus_bounded cfg /\ needle_ok cfg (rp ns) (cs ns) = true /\
  run cfg FuzzyGreedy hs ns = Match (fzf_score cfg Ascii (cs hs) [0; 4]) [0; 4] /\
  fzf_score cfg Ascii (cs hs) [0; 4] = 16 + 2 * 10 - (3 + 2) + 16 + 8.
Proof. vm_compute. repeat split; try reflexivity; discriminate. Qed.

Print Assumptions C03_bonus_table.
Print Assumptions C03_presets.
Print Assumptions C03_linear_score.
Print Assumptions C03_no_wrap.
Print Assumptions C03_dp_score.
Print Assumptions C03_same_alignment.
Print Assumptions C03_naive_statements_refuted.
