(* C13 -- placeholder *)
From NV Require Import Model.Nucleo.
