(* C13 -- No lost wake-up: a tick that reports 'running' is followed by a notification.
   Statements in Spec/NucleoStatements.v, proofs in Proofs/NotifyFacts.v (an invariant over the control
   fields of the protocol model: g_owed, tpc, lock, canceled, should_notify, post).  Quantification: every
   history of the protocol model - every interleaving, at the granularity of the yield points, of the
   ticking thread (timeout 0 or long: "times out" is enabled exactly while the lock is held) with the
   background run and its post-unlock phase, with injector activity, edits and restarts.
   The ghost flag g_owed is set when a tick returns running = true and cleared by a worker notification,
   by the next tick begin, or by restart (a later tick takes the obligation over).
     C13_no_lost_wakeup : while a notification is owed the system is never quiescent;
     C13_will_notify    : the closure that has released the lock and is about to look at the flag did
                          complete and finds the flag armed - so its next two steps call notify;
     C13_notify_after_unlock : the worker notifies only from the post-unlock phase, i.e. never before the
                          results are available to the next tick.
   The protocol of the pinned tree (flag read and notify under the lock, no re-check after arming the
   flag) violates the first two: the check found the schedule on the real code
   (findings/C13-lost-wakeup-witness.json); fixed in /repo by 154d49e and the model follows the fix.
   "Every push / extend calls notify after the new items are visible" is immediate from
   Injector::push / extend (the call follows the vector operation) and is checked by the notify counter
   of the harness.  Real time is not modelled: "timeout" is a scheduler choice. *)
From Coq Require Import NArith List Bool.
From NV Require Import Model.Nucleo Spec.NucleoStatements Proofs.NotifyFacts.
Import Nucleo.
Import ListNotations.
Local Open Scope N_scope.

Theorem C13_no_lost_wakeup : forall sc ln, C13_no_lost_wakeup_stmt sc ln.
Proof. exact NotifyFacts.C13_no_lost_wakeup. Qed.

Theorem C13_will_notify : forall sc ln, C13_will_notify_stmt sc ln.
Proof. exact NotifyFacts.C13_will_notify. Qed.

Theorem C13_notify_after_unlock : forall sc ln, C13_notify_after_unlock_stmt sc ln.
Proof. exact NotifyFacts.C13_notify_after_unlock. Qed.

(* non-vacuity: the interleaving that lost the wake-up on the pinned tree - the run ends between the
   tick's failed try-lock and its re-arming of the flag - is a history of the model; with the repaired
   protocol the tick's second look at the lock succeeds and it returns with the results instead of
   `running` *)
Example C13_nonvacuous :
  let sc := fun _ _ _ => @None N in let ln := fun _ _ => 0%N in
  let es := [ENewInjector 1; EReserve 0; EPublish 0 0;
             ETickBegin true; ETick; ETick; ETick;      (* begin, set cancel + lock, body -> before_spawn, spawn -> second inner *)
             ERun [0%N] 1%N;                             (* run.start -> run.end *)
             ETick;                                      (* second try-lock fails (timeout 0) *)
             ERun [] 0%N;                                (* run.end -> unlocked (lock released) *)
             ETick;                                      (* re-arm *)
             ETick] in                                   (* second look: lock free *)
  let s := run_events sc ln init_nstate es in
  tpc s = TIdle /\ last_tick s = Some (true, false) /\ g_owed s = false /\ sn_count (snap s) = 1%N.
Proof. vm_compute. repeat split; reflexivity. Qed.

Print Assumptions C13_no_lost_wakeup.
Print Assumptions C13_will_notify.
Print Assumptions C13_notify_after_unlock.
