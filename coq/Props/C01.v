(* C01 -- Fuzzy matching decides exactly the normalized-subsequence relation.
   Statements live in Spec/Statements.v; proofs in Proofs/C01Facts.v.  Quantification: every
   configuration (any bonus values, delimiter set, ignore_case, normalize, prefer_prefix), every
   haystack and every already-normalised needle (any length: the u16 / matrix limits only select the
   branch), every representation pair except the known finding K1 (haystack bytes, needle code points).
   Both entry points DECIDE the relation (C01_greedy_decision, C01_fuzzy_decision: Match iff subsequence,
   never a panic - the latter uses the DP's panic-freedom, Proofs/DPFacts.v). *)
From Coq Require Import NArith List Bool.
From NV Require Import Model.Matcher Spec.Matching Spec.Statements Proofs.C01Facts Proofs.DPFacts.
From NV Require Proofs.K1Facts.
Import ListNotations.
Local Open Scope N_scope.

Theorem C01_subseq_spec : subseq_b_spec_stmt.
Proof. exact C01Facts.subseq_b_spec. Qed.

Theorem C01_greedy_decision : C01_greedy_decision_stmt.
Proof. exact C01Facts.C01_greedy_decision. Qed.

Theorem C01_fuzzy_reject : C01_fuzzy_reject_stmt.
Proof. exact C01Facts.C01_fuzzy_reject. Qed.

Theorem C01_repr_indep : C01_repr_indep_stmt.
Proof. exact C01Facts.C01_repr_indep. Qed.

(* with the DP proved panic-free (Proofs/DPFacts.v) the optimal entry point DECIDES the relation *)
Theorem C01_fuzzy_decision :
  forall cfg hs ns, wf_str hs -> wf_str ns -> needle_ok cfg (rp ns) (cs ns) = true -> ~ known_K1 hs ns ->
    match run cfg Fuzzy hs ns with
    | Match _ _ => normalised_subseq cfg hs ns = true
    | NoMatch => normalised_subseq cfg hs ns = false
    | Panicked _ => False
    end.
Proof.
  intros cfg hs ns Hh Hn Hok HK.
  pose proof (C01Facts.C01_fuzzy_reject cfg hs ns Hh Hn Hok HK) as F.
  pose proof (DPFacts.DP_no_panic cfg hs ns [] ) as P.
  destruct (run cfg Fuzzy hs ns) as [|sc idx|site] eqn:E.
  - apply (proj1 F). reflexivity.
  - destruct (normalised_subseq cfg hs ns) eqn:S; [reflexivity|].
    pose proof (proj2 F eq_refl) as C. discriminate C.
  - exact (P site Hok E).
Qed.

(* the optimal and the greedy entry points reject the same inputs *)
Theorem C01_entry_points_agree :
  forall cfg hs ns, wf_str hs -> wf_str ns -> needle_ok cfg (rp ns) (cs ns) = true -> ~ known_K1 hs ns ->
    (run cfg Fuzzy hs ns = NoMatch <-> run cfg FuzzyGreedy hs ns = NoMatch).
Proof.
  intros cfg hs ns Hh Hn Hok HK.
  pose proof (C01Facts.C01_greedy_decision cfg hs ns Hh Hn Hok HK) as G.
  pose proof (C01Facts.C01_fuzzy_reject cfg hs ns Hh Hn Hok HK) as F.
  rewrite F. destruct (run cfg FuzzyGreedy hs ns) eqn:E.
  - split; [reflexivity | intros _; exact G].
  - split; [intros H; rewrite G in H; discriminate | discriminate].
  - contradiction.
Qed.

(* the known finding is real in the model too: an all-ASCII needle held as code points is rejected
   against a byte haystack that contains it *)
Theorem C01_K1_refuted :
  exists cfg hs ns, known_K1 hs ns /\ normalised_subseq cfg hs ns = true /\ run cfg FuzzyGreedy hs ns = NoMatch.
Proof.
  exists (config_of preset_default true true false), {| rp := Ascii; cs := [97; 98; 99] |}, {| rp := Unicode; cs := [97; 99] |}.
  vm_compute. repeat split; reflexivity.
Qed.

(* non-vacuity: a non-trivial input meets the hypotheses and takes the matching branch *)
Example C01_nonvacuous :
  let cfg := config_of preset_default true true false in
  let hs := {| rp := Unicode; cs := [102; 246; 246; 47; 66; 228; 114] |} in     (* "föö/Bär" *)
  let ns := {| rp := Ascii; cs := [102; 98; 114] |} in                           (* "fbr" *)
  needle_ok cfg (rp ns) (cs ns) = true /\ ~ known_K1 hs ns /\ normalised_subseq cfg hs ns = true /\
  is_some_match (run cfg FuzzyGreedy hs ns) = true /\ is_some_match (run cfg Fuzzy hs ns) = true.
Proof. vm_compute. repeat split; try reflexivity. intros [H _]; discriminate. Qed.

Print Assumptions C01_subseq_spec.
Print Assumptions C01_greedy_decision.
Print Assumptions C01_fuzzy_reject.
Print Assumptions C01_fuzzy_decision.
Print Assumptions C01_repr_indep.
Print Assumptions C01_entry_points_agree.
Print Assumptions C01_K1_refuted.

(* Known finding K1 characterised exactly: inside the known class (byte haystack, code-point needle) EVERY algorithm
   answers NoMatch for every non-empty needle, whatever the configuration and the content - the hypothesis
   `~ known_K1` of the theorems above excludes one uniform behaviour, not an unexamined region (no panic, no wrong
   match, no wrong score can hide there); the empty needle matches with score 0 in every representation. *)
Theorem C01_K1_characterised : forall cfg a hs ns, known_K1 hs ns -> cs ns <> [] -> run cfg a hs ns = NoMatch.
Proof. exact K1Facts.K1_all_nomatch. Qed.
Theorem C01_empty_needle : forall cfg a hs ns, cs ns = [] -> run cfg a hs ns = Match 0 [].
Proof. exact K1Facts.K1_empty_needle. Qed.
Print Assumptions C01_K1_characterised.
Print Assumptions C01_empty_needle.
