(* C01 -- placeholder until the theorems are stated; see DESIGN.md *)
From NV Require Import Model.Matcher Spec.Matching.
