(* C06 -- A snapshot is an exact, ordered, duplicate-free answer.
   Statements in Spec/NucleoStatements.v, proofs in Proofs/SnapshotFacts.v.  Quantification: every state
   reachable by a well-formed history with truthful append flags (any interleaving of injector threads
   between reservation and publication, pattern edits, ticks that time out / cancel / complete, restarts,
   runs stopped at any stage, any scan result the parallel scan may have seen) - at EVERY moment, not only
   after a tick.
     C06_snapshot   the snapshot's matches are duplicate-free, each one is a real (never a placeholder)
                    initialised item of the snapshot's stream whose stored score is the score of the
                    snapshot's pattern on that item; there is a set of exactly item_count() processed
                    items, all initialised, that contains every match and of which every item matched by
                    the pattern is reported; and the matches are ordered by score descending, then total
                    column length ascending, then index ascending (by index for the empty pattern).
   The hypothesis within_capacity (no stream holds more than u32::MAX reservations) is what the item
   vector's capacity check guarantees (boxcar.rs MAX_ENTRIES; C11); without it the statement is false for
   the unbounded model (C06_unbounded_refuted). *)
From Coq Require Import NArith List Bool.
From NV Require Import Model.Nucleo Spec.NucleoStatements Proofs.SnapshotFacts.
Import Nucleo.
Import ListNotations.
Local Open Scope N_scope.

Theorem C06_snapshot : forall sc ln, C06_snapshot_weak_stmt sc ln.
Proof. exact SnapshotFacts.C06_snapshot_weak. Qed.
Theorem C06_unbounded_refuted : forall sc ln, ~ C06_snapshot_stmt sc ln.
Proof. exact SnapshotFacts.C06_snapshot_false. Qed.

Print Assumptions C06_snapshot.
Print Assumptions C06_unbounded_refuted.

(* non-vacuity (Proofs/ExampleFacts.v, by computation): a 23-event history (five reservations published out of order, one never published, an edit, a tick to pickup, a second run spawned because an item is still in flight) reaches a state whose snapshot counts 4 items and holds the matches (14,#4) (11,#1) (10,#0); the premises of C06_snapshot hold for it and the conclusion is instantiated *)
From NV Require Proofs.ExampleFacts.
Definition C06_nonvacuous := ExampleFacts.C06_nonvacuous.
Print Assumptions C06_nonvacuous.
