(* C06 -- placeholder *)
From NV Require Import Model.Nucleo.
