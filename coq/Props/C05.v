(* C05 -- Substring, prefix, postfix and exact matching decide the documented relations.
   Statements in Spec/Statements.v, proofs in Proofs/C05Facts.v.  Quantification: every configuration,
   haystack, already-normalised non-empty needle, representation pair outside the known finding K1.
   memchr / memmem are modelled by their specification (the model enumerates occurrence positions in
   ascending order); which of the four ASCII prefilters the Rust code picks is tied by the correspondence. *)
From Coq Require Import NArith List Bool.
From NV Require Import Model.Matcher Spec.Matching Spec.Statements Proofs.C05Facts.
From NV Require Proofs.K1Facts.
Import ListNotations.
Local Open Scope N_scope.

Theorem C05_exact_kinds : C05_exact_kinds_stmt.
Proof. exact C05Facts.C05_exact_kinds. Qed.

Theorem C05_substring : C05_substring_stmt.
Proof. exact C05Facts.C05_substring. Qed.

(* the candidate search used by substring and single-character matching returns the leftmost
   candidate with the maximal bonus (shared with C04) *)
Theorem C05_best_pos : C04_best_pos_stmt.
Proof. exact C05Facts.C04_best_pos. Qed.

Theorem C05_K1_refuted :
  exists cfg hs ns, known_K1 hs ns /\ spec_substring_pos cfg (rp hs) (cs hs) (cs ns) = Some 1 /\
                    run cfg Substring hs ns = NoMatch.
Proof.
  exists (config_of preset_default true true false), {| rp := Ascii; cs := [120; 97; 98; 120] |}, {| rp := Unicode; cs := [97; 98] |}.
  vm_compute. repeat split; reflexivity.
Qed.

Example C05_nonvacuous :
  let cfg := config_of preset_match_paths true true false in
  let hs := {| rp := Ascii; cs := [97; 49; 47; 49; 47; 49] |} in     (* "a1/1/1" *)
  let ns := {| rp := Ascii; cs := [49; 47; 49] |} in                 (* "1/1": overlapping occurrences at 1 and 3 *)
  needle_ok cfg (rp ns) (cs ns) = true /\ ~ known_K1 hs ns /\
  spec_substring_pos cfg (rp hs) (cs hs) (cs ns) = Some 3 /\
  match run cfg Substring hs ns with Match _ idx => idx = [3; 4; 5] | _ => False end.
Proof. vm_compute. repeat split; try reflexivity. intros [_ H]; discriminate. Qed.

Print Assumptions C05_exact_kinds.
Print Assumptions C05_substring.
Print Assumptions C05_best_pos.
Print Assumptions C05_K1_refuted.

(* Known finding K1 characterised exactly: inside the known class (byte haystack, code-point needle) EVERY algorithm
   answers NoMatch for every non-empty needle, whatever the configuration and the content - the hypothesis
   `~ known_K1` of the theorems above excludes one uniform behaviour, not an unexamined region (no panic, no wrong
   match, no wrong score can hide there); the empty needle matches with score 0 in every representation. *)
Theorem C05_K1_characterised : forall cfg a hs ns, known_K1 hs ns -> cs ns <> [] -> run cfg a hs ns = NoMatch.
Proof. exact K1Facts.K1_all_nomatch. Qed.
Theorem C05_empty_needle : forall cfg a hs ns, cs ns = [] -> run cfg a hs ns = Match 0 [].
Proof. exact K1Facts.K1_empty_needle. Qed.
Print Assumptions C05_K1_characterised.
Print Assumptions C05_empty_needle.
