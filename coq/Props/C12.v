(* C12 -- placeholder *)
From NV Require Import Model.Nucleo.
