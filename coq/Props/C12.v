(* C12 -- Restart isolates the new item stream from the old one.
   Statements in Spec/NucleoStatements.v, proofs in Proofs/NucleoFacts.v.  Quantification: every history
   of the protocol model (restarts interleaved with ticks that time out or complete, runs at any stage,
   repeated restarts, injectors of old streams that keep pushing).
     C12_restart          restart(true) empties the snapshot at once and re-targets it to the fresh stream;
                          restart(false) leaves it exactly as it was; the new stream id is fresh;
     C12_snapshot_stable  nothing but a tick (or restart(true)) ever changes the snapshot - in particular
                          no injector activity on any stream, old or new;
     C12_pickup_current   when a tick installs a new snapshot it is one of the CURRENT stream;
     C12_no_mix           every index in the snapshot is an initialised item of the snapshot's own stream
                          (never an index computed against another stream), so the two streams are never
                          mixed and the snapshot stays safe to read. *)
From Coq Require Import NArith List Bool.
From NV Require Import Model.Nucleo Spec.NucleoStatements Proofs.NucleoFacts.
Import Nucleo.
Import ListNotations.
Local Open Scope N_scope.

Theorem C12_restart : forall sc ln, C12_restart_stmt sc ln.
Proof. exact NucleoFacts.C12_restart. Qed.
Theorem C12_snapshot_stable : forall sc ln, C12_snapshot_stable_stmt sc ln.
Proof. exact NucleoFacts.C12_snapshot_stable. Qed.
Theorem C12_pickup_current : forall sc ln, C12_pickup_current_stmt sc ln.
Proof. exact NucleoFacts.C12_pickup_current. Qed.
Theorem C12_no_mix : forall sc ln, C12_no_mix_stmt sc ln.
Proof. exact NucleoFacts.C12_no_mix. Qed.

Print Assumptions C12_restart.
Print Assumptions C12_snapshot_stable.
Print Assumptions C12_pickup_current.
Print Assumptions C12_no_mix.

(* non-vacuity (Proofs/ExampleFacts.v, by computation): restart(true) and restart(false) applied to a reachable idle state with four matches (the concrete resulting snapshots are computed), and a reachable state in which a tick installs the first snapshot of the new stream *)
From NV Require Proofs.ExampleFacts.
Definition C12_nonvacuous := ExampleFacts.C12_nonvacuous.
Print Assumptions C12_nonvacuous.
