(* C08 -- placeholder *)
From NV Require Import Model.Boxcar.
