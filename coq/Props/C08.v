(* C08 -- The injector's item vector is a linearizable append-only sequence.
   Statements in Spec/BoxcarStatements.v, proofs in Proofs/BoxcarFacts.v (one inductive invariant over
   the yield-point-granular interleaving model Model/Boxcar.v).  Quantification: every well-formed
   history - any number of threads doing push / extend of any batch size (crossing buckets, iterators
   reporting a wrong length, panicking fills), get, count, snapshot, in every interleaving, for any
   initial capacity.  Linearization points: the fetch_add for a reservation (C08_reserve: the next free
   indices, distinct and gap-free), the store of `active` for publication (C08_push_visible), the load of
   `active` for a lookup (C08_no_phantom, C08_stable).  Sequential consistency is assumed here; the
   release/acquire argument is C09's. *)
From Coq Require Import NArith List Bool.
From NV Require Import Model.Boxcar Spec.BoxcarStatements Proofs.BoxcarFacts.
Import ListNotations.
Local Open Scope N_scope.

Theorem C08_location : C08_location_stmt.
Proof. exact BoxcarFacts.C08_location. Qed.
Theorem C08_location_inj : C08_location_inj_stmt.
Proof. exact BoxcarFacts.C08_location_inj. Qed.
Theorem C08_reserve : C08_reserve_stmt.
Proof. exact BoxcarFacts.C08_reserve. Qed.
Theorem C08_count_mono : C08_count_mono_stmt.
Proof. exact BoxcarFacts.C08_count_mono. Qed.
Theorem C08_no_phantom : C08_no_phantom_stmt.
Proof. exact BoxcarFacts.C08_no_phantom. Qed.
Theorem C08_push_visible : C08_push_visible_stmt.
Proof. exact BoxcarFacts.C08_push_visible. Qed.
Theorem C08_stable : C08_stable_stmt.
Proof. exact BoxcarFacts.C08_stable. Qed.
Theorem C08_exclusive : C08_exclusive_stmt.
Proof. exact BoxcarFacts.C08_exclusive. Qed.
Theorem C08_owned_invisible : C08_owned_invisible_stmt.
Proof. exact BoxcarFacts.C08_owned_invisible. Qed.

(* non-vacuity: two writers interleaved at yield-point granularity; both items become visible, a
   reserved but unpublished index is not *)
Example C08_nonvacuous :
  let es := [Spawn 2 (PushStart 7 false); Spawn 3 (PushStart 8 false); Spawn 4 (PushStart 9 false);
             Step 2; Step 3; Step 4; Step 3; Step 2; Step 2; Step 3] in
  let s := fst (run_events (init_state 0) es) in
  get s 0 = Some (7, cols_of 7) /\ get s 1 = Some (8, cols_of 8) /\ get s 2 = None /\ inflight s = 3.
Proof. vm_compute. repeat split; reflexivity. Qed.

Print Assumptions C08_location.
Print Assumptions C08_location_inj.
Print Assumptions C08_reserve.
Print Assumptions C08_count_mono.
Print Assumptions C08_no_phantom.
Print Assumptions C08_push_visible.
Print Assumptions C08_stable.
Print Assumptions C08_exclusive.
Print Assumptions C08_owned_invisible.

(* Tie of the models' allocation step to the source (translated structurally, Gen/GenBoxcar.v): a bucket is allocated
   and every `active` flag cleared BEFORE the compare_exchange that publishes it, and the winner does nothing more
   to it.  Model/Boxcar.v and Model/BoxcarRA.v treat "allocate + initialise + publish" as one step of the allocating
   thread; a source in which initialisation follows publication (a published entry can be reset to inactive by the
   winner's late initialisation loop: a completed push is lost) makes this obligation fail. *)
Theorem C08_bucket_init_before_publish : bucket_init_before_publish = true.
Proof. reflexivity. Qed.
Print Assumptions C08_bucket_init_before_publish.
