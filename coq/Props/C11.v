(* C11 -- placeholder *)
From NV Require Import Model.Boxcar.
