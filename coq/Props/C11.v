(* C11 -- Every injected item is dropped exactly once, and only after it is unreachable.
   Statements in Spec/BoxcarStatements.v, proofs in Proofs/DropFacts.v (inductive invariant with a
   conservation law: every value of a history is in exactly one place - pending inside a live
   operation, in exactly one written entry, or exactly once in the drop log).  Quantification: every
   well-formed history (any number of writer threads, pushes with panicking fills, extends whose
   ExactSizeIterator reports any length and yields any list, panicking at any item, every interleaving at
   yield-point granularity, any initial capacity).
   Scope: the vector and its single owner.  Which handle (matcher, snapshot, injectors) is the last
   owner of a stream is reference counting by Arc (trusted: drop runs once, after the last handle); the
   handle bookkeeping across restarts is C20's subject.  Matcher columns written by a fill that
   panics are leaked by design of the property's panic clause (only double drop / use after drop are
   excluded there).
   The theorem depends on the TRANSLATED constant drop_stops_at_null (Gen/GenBoxcar.v: what
   `Drop for Vec` does at a null bucket pointer): with the pinned tree's `break` C11_exactly_once's
   hypothesis is unprovable and C11_break_leaks is the witness; fixed in /repo by db8cd0c. *)
From Coq Require Import NArith List Bool.
From NV Require Import Model.Boxcar Spec.BoxcarStatements Proofs.DropFacts.
Import ListNotations.
Local Open Scope N_scope.

(* what the source says today *)
Theorem C11_drop_continues : drop_stops_at_null = false.
Proof. reflexivity. Qed.

Theorem C11_exactly_once : C11_exactly_once_stmt.
Proof. exact DropFacts.C11_exactly_once. Qed.

Theorem C11_never_twice : C11_never_twice_stmt.
Proof. exact DropFacts.C11_never_twice. Qed.

Theorem C11_not_early : C11_not_early_stmt.
Proof. exact DropFacts.C11_not_early. Qed.

Theorem C11_break_leaks : C11_break_leaks_stmt.
Proof. exact DropFacts.C11_break_leaks. Qed.

Print Assumptions C11_drop_continues.
Print Assumptions C11_exactly_once.
Print Assumptions C11_never_twice.
Print Assumptions C11_not_early.
Print Assumptions C11_break_leaks.

(* non-vacuity (Proofs/ExampleFacts.v, by computation): a history over two buckets with a push, an extend that over-reports its length, a panicking fill, an extend that under-reports (assert), an extend that panics midway: 11 values, the drop log before and after the last handle goes away, every value dropped exactly once *)
From NV Require Proofs.ExampleFacts.
Definition C11_nonvacuous := ExampleFacts.C11Example.C11_nonvacuous.
Print Assumptions C11_nonvacuous.

(* Tie of the models' allocation step to the source (translated structurally, Gen/GenBoxcar.v): a bucket is allocated
   and every `active` flag cleared BEFORE the compare_exchange that publishes it, and the winner does nothing more
   to it.  Model/Boxcar.v and Model/BoxcarRA.v treat "allocate + initialise + publish" as one step of the allocating
   thread; a source in which initialisation follows publication (a published entry can be reset to inactive by the
   winner's late initialisation loop: a completed push is lost) makes this obligation fail. *)
Theorem C11_bucket_init_before_publish : bucket_init_before_publish = true.
Proof. reflexivity. Qed.
Print Assumptions C11_bucket_init_before_publish.
