(* C19 -- placeholder *)
From NV Require Import Model.Nucleo.
