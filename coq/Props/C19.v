(* C19 -- tick's status tells the truth about the snapshot.
   Statements in Spec/NucleoStatements.v, proofs in Proofs/NucleoFacts.v (invariant InvC over ghost fields:
   the snapshot and the number of published items of the current stream recorded when the tick began).
   `tick_returns s s' st`: s' is the state right after the step in which the tick returned status st.
     C19_unchanged  changed = false  =>  the snapshot is identical to the one before the call;
     C19_idle       running = false  =>  every item of the current stream whose push had completed before
                    the call began is counted, the snapshot's pattern is the matcher's current pattern and
                    its stream is the current stream.
   For every history and interleaving of the protocol model. *)
From Coq Require Import NArith List Bool.
From NV Require Import Model.Nucleo Spec.NucleoStatements Proofs.NucleoFacts.
Import Nucleo.

Theorem C19_unchanged : forall sc ln, C19_unchanged_stmt sc ln.
Proof. exact NucleoFacts.C19_unchanged. Qed.
Theorem C19_idle : forall sc ln, C19_idle_stmt sc ln.
Proof. exact NucleoFacts.C19_idle. Qed.

Print Assumptions C19_unchanged.
Print Assumptions C19_idle.

(* non-vacuity (Proofs/ExampleFacts.v, by computation): three concrete instances of tick_returns: (changed,running) = (false,false) with four matches, (true,false) with g_pub_begin = 5, (false,true) while a second run holds the lock *)
From NV Require Proofs.ExampleFacts.
Definition C19_nonvacuous := ExampleFacts.C19_nonvacuous.
Print Assumptions C19_nonvacuous.
