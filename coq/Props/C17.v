(* C17 -- String conversion keeps the documented grapheme guarantees.
   Property theorems only; every proof is `exact <lemma>` (lemmas: Proofs/C17Facts.v).

   Quantification: every text s (list of code points), every segmentation cl handed to the model with
     seg_ok s cl               :=  concat cl = s  /\  no cluster is empty
   (the two facts of UAX #29 the conversion relies on; the segmentation itself - the crate
   unicode-segmentation - is an input of the model, see Model/Utf32.v), every prior buffer content, every
   overflow-check mode oc (debug / release arithmetic), every string value u (either variant, any content)
   for the accessors, every pair of range bounds (all nine RangeBounds shapes) that denotes a valid range.

   Hypotheses that are not facts about the code, all explicit below:
     seg_ok s cl                      segmentation partitions the text into non-empty clusters
     seg_ascii_singletons s cl        (C17_len only) an all-ASCII, CR-LF-free text has single-code-point
                                      clusters; C17_len_ascii_iff shows the Ascii-form length guarantee is
                                      EQUIVALENT to this fact, so it cannot be dropped
     lenN (cs u) < 2^64               a Rust slice is shorter than 2^64 (indeed <= isize::MAX)
     lenN (cs u) < 2^32               (Utf32String::slice_u32 only) its bound arithmetic is done in u32 and
                                      `self.len() as u32` truncates: C17_slice_u32_limit shows `..` of a
                                      string of 2^32 characters is empty, so this one cannot be dropped *)
From Coq Require Import NArith List Bool.
From NV Require Import Model.Matcher Model.Utf32 Proofs.C17Facts.
Import ListNotations.
Local Open Scope N_scope.

(* the Ascii form is produced exactly when the text is ASCII and contains no CR LF pair; the conversion
   does not panic *)
Theorem C17_variant : forall s cl buf, seg_ok s cl ->
  exists v buf', utf32str_new s cl buf = UOk (v, buf') /\
                 (utf32str_is_ascii v = true <-> all_ascii s /\ ~ crlf_pair s).
Proof. exact new_variant. Qed.

(* ... in which case its bytes are the original string *)
Theorem C17_ascii : forall s cl buf v buf',
  utf32str_new s cl buf = UOk (v, buf') -> utf32str_is_ascii v = true -> cs v = s.
Proof. exact new_ascii_content. Qed.

(* otherwise one character per cluster: its first code point, or a line feed for CR LF *)
Theorem C17_unicode : forall s cl buf v buf', seg_ok s cl ->
  utf32str_new s cl buf = UOk (v, buf') -> utf32str_is_ascii v = false ->
  cs v = map (fun g => if list_eq_dec N.eq_dec g [13; 10] then 10 else hd 0 g) cl.
Proof. exact new_unicode_content. Qed.

(* the length is the number of grapheme clusters *)
Theorem C17_len : forall s cl buf v buf', seg_ok s cl -> seg_ascii_singletons s cl ->
  utf32str_new s cl buf = UOk (v, buf') ->
  utf32str_len v = lenN cl /\ utf32str_is_empty v = (lenN cl =? 0).
Proof.
  intros s cl buf v buf' H1 H2 H3. rewrite is_empty_str, (new_len s cl buf v buf' H1 H2 H3). split; reflexivity.
Qed.

(* what holds without the singleton fact: Unicode form - number of clusters; Ascii form - number of code
   points *)
Theorem C17_len_unicode : forall s cl buf v buf', seg_ok s cl ->
  utf32str_new s cl buf = UOk (v, buf') -> utf32str_is_ascii v = false -> utf32str_len v = lenN cl.
Proof. exact new_len_unicode. Qed.
Theorem C17_len_ascii : forall s cl buf v buf',
  utf32str_new s cl buf = UOk (v, buf') -> utf32str_is_ascii v = true -> utf32str_len v = lenN s.
Proof. exact new_len_ascii. Qed.
(* ... and that equals the number of clusters if and only if every cluster is a single code point *)
Theorem C17_len_ascii_iff : forall cl : list (list N), (forall g, In g cl -> g <> []) ->
  (length (concat cl) = length cl <-> forall g, In g cl -> exists c, g = [c]).
Proof.
  intros cl H. split; [exact (ascii_len_needs_singletons cl H) | exact (concat_singletons cl)].
Qed.

(* every constructor produces the same variant and content, whatever the buffer held before; the buffer
   is left alone by the Ascii form and holds exactly the content otherwise *)
Theorem C17_ctors : forall s cl,
  utf32string_from_box s cl = utf32string_from_str s cl /\
  utf32string_from_string s cl = utf32string_from_str s cl /\
  (forall k, utf32string_from_cow k s cl = utf32string_from_str s cl) /\
  (forall buf, umap fst (utf32str_new s cl buf) = utf32string_from_str s cl).
Proof. exact ctors_agree. Qed.
Theorem C17_ctors_buffer : forall s cl buf v buf',
  utf32str_new s cl buf = UOk (v, buf') ->
  (rp v = Ascii /\ buf' = buf) \/ (rp v = Unicode /\ buf' = cs v).
Proof. exact new_buffer. Qed.

(* indexing agrees with the content (and is total on exactly the valid indices) *)
Theorem C17_views_get : forall u n,
  (n < lenN (cs u) -> utf32str_get u n = UOk (nth (N.to_nat n) (cs u) 0)) /\
  (lenN (cs u) <= n -> utf32str_get u n = UPanic 3).
Proof. intros u n. split; [exact (get_ok u n) | exact (get_panics u n)]. Qed.
Theorem C17_views_first_last : forall oc u, cs u <> [] ->
  utf32str_first u = UOk (hd 0 (cs u)) /\ utf32str_last oc u = UOk (last (cs u) 0).
Proof. intros oc u H. split; [exact (first_ok u H) | exact (last_ok oc u H)]. Qed.

(* slicing: all four methods return content[lo..hi], in the same variant, for every valid range of every
   RangeBounds shape *)
Theorem C17_views_slice : forall oc u sb eb,
  lenN (cs u) < 2 ^ 64 -> valid_range (lenN (cs u)) sb eb ->
  let r := UOk (mk_ustr (rp u) (firstn (N.to_nat (range_hi (lenN (cs u)) eb - range_lo sb))
                                       (skipn (N.to_nat (range_lo sb)) (cs u)))) in
  utf32str_slice oc u sb eb = r /\ utf32str_slice_u32 oc u sb eb = r /\ utf32string_slice oc u sb eb = r /\
  (lenN (cs u) < 2 ^ 32 -> utf32string_slice_u32 oc u sb eb = r).
Proof.
  intros oc u sb eb Hl Hv. cbv zeta. repeat apply conj.
  - exact (str_slice_ok oc u sb eb Hl Hv).
  - exact (str_slice_u32_ok oc u sb eb Hl Hv).
  - exact (string_slice_ok oc u sb eb Hl Hv).
  - intros Hl32. exact (string_slice_u32_ok oc u sb eb Hl32 Hv).
Qed.
(* the slice has hi - lo characters and its i-th character is the (lo+i)-th of the string *)
Theorem C17_views_slice_content : forall l lo hi, lo <= hi -> hi <= lenN l ->
  lenN (sub_list l lo hi) = hi - lo /\
  forall i d, i < hi - lo -> nth (N.to_nat i) (sub_list l lo hi) d = nth (N.to_nat (lo + i)) l d.
Proof.
  intros l lo hi H1 H2. split; [exact (sub_list_length l lo hi H1 H2) | intros i d; exact (sub_list_nth l lo hi i d)].
Qed.
(* the limit of Utf32String::slice_u32 is real: `..` of a string of 2^32 characters is empty *)
Theorem C17_slice_u32_limit : forall oc u,
  lenN (cs u) = 2 ^ 32 -> utf32string_slice_u32 oc u Unbounded Unbounded = UOk (mk_ustr (rp u) []).
Proof. exact string_slice_u32_truncates. Qed.

(* iteration: forwards the content, backwards its reverse, and under any interleaving of next() and
   next_back() the items handed out at the front, those still pending and those handed out at the back
   (reversed) are the content; None comes exactly from an exhausted iterator *)
Theorem C17_views_chars : forall u,
  chars_collect (utf32str_chars u) = cs u /\ chars_collect_back (utf32str_chars u) = rev (cs u).
Proof. intros u. split; [exact (collect_all u) | exact (collect_back_all u)]. Qed.
Theorem C17_views_chars_interleaved : forall sched u os it',
  chars_drive sched (utf32str_chars u) = (os, it') ->
  yielded true sched os ++ cs it' ++ rev (yielded false sched os) = cs u /\ rp it' = rp u /\
  length os = length sched.
Proof. intros sched u. exact (drive_invariant sched (utf32str_chars u)). Qed.
Theorem C17_views_chars_none : forall it,
  (fst (chars_next it) = None <-> cs it = []) /\ (fst (chars_next_back it) = None <-> cs it = []).
Proof. intros it. split; [exact (next_none_iff it) | exact (next_back_none_iff it)]. Qed.

(* Display writes the content; Debug writes the escaped content between quotes; the owned type agrees,
   and its len / is_empty agree with the borrowed type's *)
Theorem C17_views_display : forall oc esc u,
  utf32str_display u = cs u /\ utf32string_display oc u = UOk (cs u) /\
  utf32str_debug esc u = [34] ++ flat_map esc (cs u) ++ [34] /\
  utf32string_debug oc esc u = UOk ([34] ++ flat_map esc (cs u) ++ [34]) /\
  utf32string_len u = utf32str_len u /\ utf32string_is_empty u = utf32str_is_empty u.
Proof.
  intros oc esc u. repeat apply conj.
  - exact (display_str u).
  - exact (display_string oc u).
  - exact (debug_str esc u).
  - exact (debug_string oc esc u).
  - rewrite len_string, len_str. reflexivity.
  - rewrite is_empty_string, is_empty_str, len_string, len_str. reflexivity.
Qed.

(* non-vacuity: "u" + COMBINING DIAERESIS, CR LF -- the hypotheses hold and the result is the Unicode form
   "u\n" of length 2 = number of clusters; "a\nb" is kept as bytes; a valid slice *)
Example C17_nonvacuous :
  let s := [117; 776; 13; 10] in let cl := [[117; 776]; [13; 10]] in
  seg_ok s cl /\ seg_ascii_singletons s cl /\
  utf32str_new s cl [1; 2; 3] = UOk (mk_ustr Unicode [117; 10], [117; 10]) /\
  utf32str_new [97; 10; 98] [[97]; [10]; [98]] [1; 2; 3] = UOk (mk_ustr Ascii [97; 10; 98], [1; 2; 3]) /\
  seg_ok [97; 10; 98] [[97]; [10]; [98]] /\ seg_ascii_singletons [97; 10; 98] [[97]; [10]; [98]] /\
  valid_range 3 (Excluded 0) (Included 2) /\
  utf32string_slice_u32 true (mk_ustr Ascii [97; 10; 98]) (Excluded 0) (Included 2) = UOk (mk_ustr Ascii [10; 98]).
Proof.
  cbv zeta. repeat apply conj; try reflexivity.
  - intros g [<-|[<-|[]]]; discriminate.
  - intros H. exfalso. specialize (H 776 (or_intror (or_introl eq_refl))). discriminate H.
  - intros g [<-|[<-|[<-|[]]]]; discriminate.
  - intros _ _ g [<-|[<-|[<-|[]]]]; eexists; reflexivity.
  - discriminate.
Qed.

Print Assumptions C17_variant.
Print Assumptions C17_ascii.
Print Assumptions C17_unicode.
Print Assumptions C17_len.
Print Assumptions C17_len_unicode.
Print Assumptions C17_len_ascii.
Print Assumptions C17_len_ascii_iff.
Print Assumptions C17_ctors.
Print Assumptions C17_ctors_buffer.
Print Assumptions C17_views_get.
Print Assumptions C17_views_first_last.
Print Assumptions C17_views_slice.
Print Assumptions C17_views_slice_content.
Print Assumptions C17_slice_u32_limit.
Print Assumptions C17_views_chars.
Print Assumptions C17_views_chars_interleaved.
Print Assumptions C17_views_chars_none.
Print Assumptions C17_views_display.
