(* C16 -- Character normalization is a coherent, idempotent projection.
   Property theorems only; every proof is `exact <lemma>`.  Quantification: every code point c : N
   (in particular all 1,112,064 scalar values), every configuration, both representations. *)
From Coq Require Import NArith List Bool.
From NV Require Import Base.Util Model.Chars Gen.GenUnicodeRef Proofs.CharsFacts Proofs.C16Nfkd.
Local Open Scope N_scope.

(* case folding maps every character as Unicode simple case folding (reference table) does *)
Theorem C16_fold_ref : forall c,
  to_lower c = match assoc c ref_simple_fold with Some v => v | None => c end.
Proof. intros c. rewrite <- case_fold_is_reference. exact (to_lower_assoc c). Qed.

(* the crate's "upper case" is "has a simple case folding" *)
Theorem C16_upper_ref : forall c, is_upper c = true <-> exists v, In (c, v) ref_simple_fold.
Proof. intros c. rewrite <- case_fold_is_reference. exact (is_upper_iff c). Qed.

(* binary search over the table is a lookup: keys strictly ascending *)
Theorem C16_table_sorted : strictly_ascending (map fst case_fold_table) = true.
Proof. exact case_fold_sorted. Qed.

(* Latin normalization changes only characters inside its documented blocks *)
Theorem C16_norm_blocks : forall c, normalize c <> c -> in_norm_blocks c = true.
Proof.
  intros c H. destruct (in_norm_blocks c) eqn:E; [reflexivity|].
  exfalso. exact (H (normalize_outside c E)).
Qed.

(* table indexing never leaves the tables (no panic in normalize) *)
Theorem C16_tables_in_range :
  length latin_1ab = 512%nat /\ length latin_extended_additional = 256%nat /\
  length superscripts_and_subscripts = 48%nat.
Proof. exact norm_tables_in_range. Qed.

(* NFKD rule *)
Theorem C16_norm_nfkd : forall c a, In (c, a) ref_nfkd_ascii_base -> normalize c = a.
Proof. exact normalize_nfkd. Qed.

(* each of the two maps is idempotent *)
Theorem C16_fold_idem : forall c, to_lower (to_lower c) = to_lower c.
Proof. exact to_lower_idem. Qed.
Theorem C16_norm_idem : forall c, normalize (normalize c) = normalize c.
Proof. exact normalize_idem. Qed.

(* ... and leaves ASCII (other than A-Z under case folding) untouched *)
Theorem C16_ascii : forall c, c < 128 ->
  normalize c = c /\ to_lower c = if in_range 65 90 c then c + 32 else c.
Proof. intros c H. split; [exact (normalize_ascii c H) | exact (to_lower_ascii c H)]. Qed.

(* every place that normalizes a haystack character sees the same result: the filtering/comparing path
   (Char::normalize) and the scoring path (Char::char_class_and_normalize) agree, for both impls,
   and the class component is Char::char_class *)
Theorem C16_coherent : forall cfg r c,
  fst (class_norm cfg r c) = norm cfg r c /\ snd (class_norm cfg r c) = class cfg r c.
Proof. intros cfg r c. split; [exact (class_norm_fst cfg r c) | exact (class_norm_snd cfg r c)]. Qed.

(* non-vacuity: the reference tables are inhabited by the expected rows *)
Example C16_nonvacuous :
  In (228, 97) ref_nfkd_ascii_base /\ assoc 962 ref_simple_fold = Some 963 /\
  normalize 228 = 97 /\ to_lower 962 = 963.
Proof. vm_compute. repeat split; auto 50. Qed.

Print Assumptions C16_fold_ref.
Print Assumptions C16_upper_ref.
Print Assumptions C16_table_sorted.
Print Assumptions C16_norm_blocks.
Print Assumptions C16_tables_in_range.
Print Assumptions C16_norm_nfkd.
Print Assumptions C16_fold_idem.
Print Assumptions C16_norm_idem.
Print Assumptions C16_ascii.
Print Assumptions C16_coherent.
