(* C15 -- Pattern scores compose as a conjunction of atoms with negation.
   Property theorems only; every proof is `exact <lemma>` (lemmas in Proofs/C15Facts.v).
   Model of the code: Model/PatternScore.v (Atom::score / indices / match_list, Pattern::score / indices /
   match_list, MultiPattern::score; the mutated matcher configuration is threaded through every call).
   Specification vocabulary: Spec/PatternSpec.v (inner, atom_passes, atom_points, pattern_value, ...).

   Quantification: every list of atoms of every kind and polarity (any needle, any flags), every haystack
   (per column), every matcher configuration m, every input list given to match_list.
   Hypotheses that appear, and why:
   * `no_panic m a h`  - the inner Matcher call does not unwind.  That the matcher never panics is
     property C10's claim about `run`; here it is a hypothesis, not something C15 is about.  The
     independence theorems (C15_config_indep, C15_config_indep_composites) need no hypothesis at all.
   * `score_u16 m a h` - the inner score fits u16: the Rust return type Option<u16> of the entry points.
   * `lenN atoms <= 65537` - the u32 accumulation `score += .. as u32` cannot overflow:
     65537 * 65535 = 2^32 - 1.  (Beyond that a debug build panics and a release build wraps.) *)
From Coq Require Import NArith List Bool Sorting.Permutation.
From NV Require Import Model.PatternScore Spec.PatternSpec Proofs.C15Facts.
Import ListNotations.
Local Open Scope N_scope.

(* ---- one atom ------------------------------------------------------------------------------------ *)
(* Atom::score = the inner Matcher call made with the atom's own case / normalisation flags and the
   matcher's remaining settings; negation swaps None and Some(0); the matcher is left with the atom's flags *)
Theorem C15_atom : forall a h m,
  atom_score a h m =
  (match inner m a h with
   | Panicked k => Panic k
   | Match s _ => if negative a then RDone None else RDone (Some s)
   | NoMatch => if negative a then RDone (Some 0) else RDone None
   end, set_flags m a).
Proof. exact atom_score_unfold. Qed.

(* the same, as accept/contribution: a positive atom contributes the inner score, a negated one zero *)
Theorem C15_atom_value : forall a h m, no_panic m a h ->
  fst (atom_score a h m) = RDone (if atom_passes m a h then Some (atom_points m a h) else None).
Proof. intros a h m NP. exact (proj1 (atom_score_spec a h m m (same_base_refl m) NP)). Qed.

(* Atom::indices: same verdict and same resulting configuration as Atom::score; a positive matching atom
   appends the inner indices, anything else leaves `indices` as it was *)
Theorem C15_atom_indices : forall a h m idx,
  atom_indices a h m idx =
  (fst (atom_score a h m), snd (atom_score a h m),
   idx ++ (if matched (inner m a h) then atom_appends m a h else [])).
Proof. exact atom_indices_unfold. Qed.

(* ---- configuration independence ------------------------------------------------------------------- *)
(* the result of an atom does not depend on the ignore_case / normalize the matcher happens to carry
   (left there by whichever atom ran before): the atom overwrites both *)
Theorem C15_config_indep : forall a h m m', same_base m m' ->
  atom_score a h m = atom_score a h m' /\ forall idx, atom_indices a h m idx = atom_indices a h m' idx.
Proof.
  intros a h m m' H. split; [exact (atom_score_indep a h m m' H)|].
  intros idx. exact (atom_indices_indep a h m m' idx H).
Qed.

(* ... and neither does any composite: pattern score, pattern indices, multi-column score, match lists *)
Theorem C15_config_indep_composites : forall m m', same_base m m' ->
  (forall atoms h, fst (pattern_score atoms h m) = fst (pattern_score atoms h m')) /\
  (forall atoms h idx, fst (fst (pattern_indices atoms h m idx)) = fst (fst (pattern_indices atoms h m' idx)) /\
                       snd (pattern_indices atoms h m idx) = snd (pattern_indices atoms h m' idx)) /\
  (forall cols hs, fst (multi_score cols hs m) = fst (multi_score cols hs m')) /\
  (forall (a : atom) (conv : N -> ustr) items,
      fst (atom_match_list a conv items m) = fst (atom_match_list a conv items m')) /\
  (forall atoms (conv : N -> ustr) items,
      fst (pattern_match_list atoms conv items m) = fst (pattern_match_list atoms conv items m')).
Proof.
  intros m m' H. repeat split.
  - intros atoms h. exact (proj1 (pattern_score_indep atoms h m m' H)).
  - exact (proj1 (pattern_indices_indep atoms h m m' idx H)).
  - exact (proj2 (pattern_indices_indep atoms h m m' idx H)).
  - intros cols hs. exact (multi_score_loop_indep cols hs m m' 0 H).
  - intros a conv items. exact (atom_match_list_indep a conv items m m' H).
  - intros atoms conv items. exact (pattern_match_list_indep atoms conv items m m' H).
Qed.

(* an atom's flags replace the previous atom's completely: evaluating b first changes nothing for a *)
Theorem C15_no_carry_over : forall a b h m,
  atom_score a h (snd (atom_score b h m)) = atom_score a h m.
Proof. intros a b h m. exact (atom_score_indep a h _ m (same_base_sym _ _ (same_base_set m b))). Qed.

(* the state anchor: whatever a pattern evaluation does to the shared matcher's configuration, it touches
   only ignore_case / normalize (unconditionally: also when an atom fails or panics) *)
Theorem C15_state : forall atoms h m, same_base m (snd (pattern_score atoms h m)).
Proof. exact pattern_score_base. Qed.

(* ---- Pattern::score ------------------------------------------------------------------------------ *)
(* a pattern matches exactly when every atom accepts (positive: inner match succeeds; negated: inner match
   fails); its score is the sum of the positive atoms' inner scores; the matcher configuration m may be
   anything *)
Theorem C15_pattern : forall atoms h m,
  (forall a, In a atoms -> no_panic m a h) -> (forall a, In a atoms -> score_u16 m a h) ->
  lenN atoms <= 65537 ->
  fst (pattern_score atoms h m) =
  RDone (if forallb (fun a => atom_passes m a h) atoms
        then Some (sumN (map (fun a => atom_points m a h) atoms)) else None).
Proof.
  intros atoms h m NP U L. exact (proj1 (pattern_score_spec atoms h m m (same_base_refl m) NP U L)).
Qed.

(* the empty pattern matches everything with score zero *)
Theorem C15_pattern_empty : forall h m, pattern_score [] h m = (RDone (Some 0), m).
Proof. reflexivity. Qed.

(* ---- Pattern::indices ---------------------------------------------------------------------------- *)
(* same score and same resulting configuration as Pattern::score; `indices` grows by the concatenation, in
   atom order, of the positive atoms' indices over the longest accepting prefix of the atom list (negated
   atoms append nothing).  For a matching pattern that is all atoms (C15_indices_matched).  For a FAILED
   match the indices of the atoms in front of the first rejecting atom stay appended: the early return
   rolls nothing back (the property text makes no claim about a failed match; see REPORT.md). *)
Theorem C15_indices : forall atoms h m idx,
  (forall a, In a atoms -> no_panic m a h) -> (forall a, In a atoms -> score_u16 m a h) ->
  lenN atoms <= 65537 ->
  pattern_indices atoms h m idx =
  (fst (pattern_score atoms h m), snd (pattern_score atoms h m),
   idx ++ concat (map (fun a => atom_appends m a h) (take_while (fun a => atom_passes m a h) atoms))).
Proof.
  intros atoms h m idx NP U L. exact (pattern_indices_spec atoms h m m idx (same_base_refl m) NP U L).
Qed.

Theorem C15_indices_matched : forall atoms h m idx,
  (forall a, In a atoms -> no_panic m a h) -> (forall a, In a atoms -> score_u16 m a h) ->
  lenN atoms <= 65537 -> pattern_passes m atoms h = true ->
  snd (pattern_indices atoms h m idx) = idx ++ concat (map (fun a => atom_appends m a h) atoms).
Proof.
  intros atoms h m idx NP U L P.
  rewrite (pattern_indices_spec atoms h m m idx (same_base_refl m) NP U L). cbn [snd].
  unfold pattern_appends. rewrite (take_while_all _ atoms P). reflexivity.
Qed.

(* ---- MultiPattern::score ------------------------------------------------------------------------- *)
(* the same conjunction / sum across the zipped (column pattern, column haystack) pairs.  zip: columns
   without a haystack (or haystacks without a column) are ignored - what the code does. *)
Theorem C15_multi : forall cols hs m,
  (forall p h a, In (p, h) (combine cols hs) -> In a p -> no_panic m a h) ->
  (forall p h a, In (p, h) (combine cols hs) -> In a p -> score_u16 m a h) ->
  N.of_nat (length (concat (map fst (combine cols hs)))) <= 65537 ->
  fst (multi_score cols hs m) =
  RDone (if forallb (fun ph => pattern_passes m (fst ph) (snd ph)) (combine cols hs)
        then Some (sumN (map (fun ph => pattern_points m (fst ph) (snd ph)) (combine cols hs))) else None).
Proof. intros cols hs m NP U L. exact (multi_score_spec cols hs m m (same_base_refl m) NP U L). Qed.

(* ---- match_list ---------------------------------------------------------------------------------- *)
(* `matching value conv items` is the input list with the non-matching inputs removed (each matching input
   once, input order) and the score attached *)
Theorem C15_matching_inputs : forall (value : ustr -> option N) (conv : N -> ustr) items,
  map fst (matching value conv items)
    = filter (fun x => match value (conv x) with Some _ => true | None => false end) items /\
  (forall x s, In (x, s) (matching value conv items) -> value (conv x) = Some s).
Proof. intros value conv items. split; [apply matching_fst|intros x s; apply matching_snd]. Qed.

(* the sort used by the model meets the contract of slice::sort_by_key(Reverse(score)) - permutation,
   descending, equal scores keep their input order - and that contract has exactly one solution *)
Theorem C15_sort_contract : forall (l : list (N * N)), stable_sort_desc_of l (sort_desc l).
Proof. exact sort_desc_contract. Qed.
Theorem C15_sort_unique : forall (l out : list (N * N)), stable_sort_desc_of l out -> out = sort_desc l.
Proof. exact stable_sort_unique. Qed.

(* Pattern::match_list = the stable descending sort of the matching inputs *)
Theorem C15_match_list : forall atoms (conv : N -> ustr) items m,
  (forall x a, In x items -> In a atoms -> no_panic m a (conv x)) ->
  (forall x a, In x items -> In a atoms -> score_u16 m a (conv x)) ->
  lenN atoms <= 65537 ->
  fst (pattern_match_list atoms conv items m)
    = RDone (sort_desc (matching (pattern_value m atoms) conv items)).
Proof.
  intros atoms conv items m NP U L.
  exact (pattern_match_list_spec atoms conv items m m (same_base_refl m) NP U L).
Qed.

(* the empty pattern returns every item with score 0 in input order *)
Theorem C15_match_list_empty : forall (conv : N -> ustr) items m,
  pattern_match_list [] conv items m = (RDone (map (fun x => (x, 0)) items), m).
Proof. reflexivity. Qed.

(* Atom::match_list likewise (for the code as fixed by fix_1.diff, see the note in Model/PatternScore.v;
   the unfixed shortcut `if self.needle.is_empty()` violated this for a negative atom with an empty
   needle: C15_atom_match_list_unfixed_refuted) *)
Theorem C15_atom_match_list : forall a (conv : N -> ustr) items m,
  (forall x, In x items -> no_panic m a (conv x)) ->
  fst (atom_match_list a conv items m) = RDone (sort_desc (matching (atom_value m a) conv items)).
Proof. intros a conv items m NP. exact (atom_match_list_spec a conv items m m (same_base_refl m) NP). Qed.

(* the shortcut as it was written before the fix, and the input on which it breaks the statement above *)
Definition atom_match_list_unfixed (a : atom) (conv : N -> ustr) (items : list N) (m : config)
  : result (list (N * N)) * config :=
  if is_empty_str (needle a) then (RDone (all_zero items), m) else atom_match_list a conv items m.
Theorem C15_atom_match_list_unfixed_refuted : exists a conv items m,
  (forall x, In x items -> no_panic m a (conv x)) /\
  fst (atom_match_list_unfixed a conv items m) <> RDone (sort_desc (matching (atom_value m a) conv items)).
Proof.
  exists {| negative := true; kind := KSubstring; needle := {| rp := Ascii; cs := [] |};
            a_ignore_case := true; a_normalize := true |},
         (fun _ => {| rp := Ascii; cs := [102; 111; 111] |}), [0], (config_of preset_default true true false).
  split; [intros x _ k; vm_compute; discriminate|vm_compute; discriminate].
Qed.

(* ---- non-vacuity --------------------------------------------------------------------------------- *)
(* pattern `foo !bar Baz$` (fuzzy, negated substring, case-sensitive postfix) on "Foo-Baz" and "foobar":
   the hypotheses of the theorems hold and the results are the expected ones *)
Example C15_nonvacuous :
  let m := config_of preset_default false false false in
  let foo := {| negative := false; kind := KFuzzy; needle := {| rp := Ascii; cs := [102; 111; 111] |};
                a_ignore_case := true; a_normalize := true |} in
  let nbar := {| negative := true; kind := KSubstring; needle := {| rp := Ascii; cs := [98; 97; 114] |};
                 a_ignore_case := true; a_normalize := true |} in
  let baz := {| negative := false; kind := KPostfix; needle := {| rp := Ascii; cs := [66; 97; 122] |};
                a_ignore_case := false; a_normalize := true |} in
  let h1 := {| rp := Ascii; cs := [70; 111; 111; 45; 66; 97; 122] |} in
  let h2 := {| rp := Ascii; cs := [102; 111; 111; 98; 97; 114] |} in
  (forall a, In a [foo; nbar; baz] -> no_panic m a h1 /\ score_u16 m a h1 /\ no_panic m a h2 /\ score_u16 m a h2) /\
  lenN [foo; nbar; baz] <= 65537 /\
  fst (pattern_score [foo; nbar; baz] h1 m) = RDone (Some 168) /\
  fst (pattern_score [foo; nbar; baz] h2 m) = RDone None /\
  snd (pattern_indices [foo; nbar; baz] h1 m [7]) = [7; 0; 1; 2; 4; 5; 6] /\
  snd (pattern_indices [foo; baz] h2 m [7]) = [7; 0; 1; 2] /\
  fst (multi_score [[foo]; [nbar]] [h1; h2] m) = RDone None /\
  fst (multi_score [[foo]; [nbar]] [h1] m) = RDone (Some 88).
Proof.
  cbv zeta. split.
  - intros a [<-|[<-|[<-|[]]]]; (repeat split; try (intros k; vm_compute; discriminate); vm_compute; discriminate).
  - vm_compute. repeat split; discriminate.
Qed.

Print Assumptions C15_atom.
Print Assumptions C15_atom_value.
Print Assumptions C15_atom_indices.
Print Assumptions C15_config_indep.
Print Assumptions C15_config_indep_composites.
Print Assumptions C15_no_carry_over.
Print Assumptions C15_state.
Print Assumptions C15_pattern.
Print Assumptions C15_pattern_empty.
Print Assumptions C15_indices.
Print Assumptions C15_indices_matched.
Print Assumptions C15_multi.
Print Assumptions C15_matching_inputs.
Print Assumptions C15_sort_contract.
Print Assumptions C15_sort_unique.
Print Assumptions C15_match_list.
Print Assumptions C15_match_list_empty.
Print Assumptions C15_atom_match_list.
Print Assumptions C15_atom_match_list_unfixed_refuted.
Print Assumptions C15_nonvacuous.
