(* C18 -- The cancellable parallel sort returns a sorted permutation.
   Property theorems only; every proof is `exact <lemma>` (lemmas in Proofs/C18Facts.v).
   Model: Model/ParSort.v (par_quicksort / recurse and every sub-procedure of src/par_sort.rs over lists,
   the comparator of Worker::run); vocabulary: Spec/SortSpec.v.
   Quantification: every element type A, every boolean comparator `less` (a strict weak order where
   sortedness is claimed, arbitrary where only "permutation" is claimed), every input list (any length,
   any arrangement), every cancel oracle `nat -> bool` (= every moment at which the flag is raised, as
   seen by the loads of the flag), every `limit` / pivot choice / pattern-breaking outcome (they are
   computed by the model).  The number of worker threads does not occur in the model: rayon::join is
   sequentialised (disjoint halves), and C18_unique / C18_schedule_independent_partial say that under a
   total order the result cannot depend on anything but the input.

   The theorems named `_partial` take partition_in_blocks (250 lines of raw-pointer block partitioning)
   through its CONTRACT (pib_perm / pib_ok of Spec/SortSpec.v) as an explicit hypothesis; they are kept
   because they hold for ANY block partition that meets the contract.  The contract itself is a theorem
   for the executable model of the real block partition (C18_pib_contract, Proofs/PibFacts.v: the
   BlockQuicksort offsets / cyclic-swap loop for every comparator), so the full statements

     C18_perm, C18_sorted, C18_cancel, C18_no_panic, C18_schedule_independent

   at the end of this file are UNCONDITIONAL theorems about par_quicksort_model less =
   par_quicksort less (partition_in_blocks less), i.e. about the model of the whole of src/par_sort.rs:
   shift_tail/insertion_sort, sift_down/heapsort, partial_insertion_sort, partition (the scans and the
   two swaps around partition_in_blocks), partition_in_blocks, partition_equal, choose_pivot,
   break_patterns, the recursion with limit / pred / sequential-vs-join / the two cancel checks.
   Model.ParSort.partition_in_blocks is tied to the real code by the correspondence run of ./check C18
   (exact equality of the final array, also for weak orders with ties and for comparators that are not
   orders at all). *)
From Coq Require Import List Bool Arith NArith Permutation.
From NV Require Import Model.ParSort Spec.SortSpec Proofs.C18Facts Proofs.PibFacts.
Import ListNotations.

(* the slice is a permutation of its input, cancelled or not, for every comparator *)
Theorem C18_perm_partial : forall (A : Type) (less : A -> A -> bool) pib oracle (v : list A),
  pib_perm pib -> Permutation (r_list (par_quicksort less pib oracle v)) v.
Proof. intros A less pib oracle v H. exact (par_quicksort_perm less pib oracle v H). Qed.

(* flag never raised: returns false ("not cancelled") and the slice is sorted *)
Theorem C18_sorted_partial : forall (A : Type) (less : A -> A -> bool) pib oracle (v : list A),
  strict_weak_order less -> pib_ok less pib -> (forall k, oracle k = false) ->
  r_flag (par_quicksort less pib oracle v) = false /\ sorted less (r_list (par_quicksort less pib oracle v)).
Proof. intros A less pib oracle v Hs Hp Ho. exact (par_quicksort_sorted less pib oracle Hs Hp v Ho). Qed.

(* "cancelled" is reported only if some load of the flag saw it raised; "not cancelled" means sorted
   (even if the flag was raised too late to be seen) *)
Theorem C18_cancel_partial : forall (A : Type) (less : A -> A -> bool) pib oracle (v : list A),
  strict_weak_order less -> pib_ok less pib ->
  (r_flag (par_quicksort less pib oracle v) = true -> exists k, oracle k = true) /\
  (r_flag (par_quicksort less pib oracle v) = false -> sorted less (r_list (par_quicksort less pib oracle v))).
Proof. intros A less pib oracle v Hs Hp. exact (par_quicksort_cancel less pib oracle Hs Hp v). Qed.

(* the call returns: none of the panic paths of the Rust code (v[pivot], v.swap(0, pivot), v.swap(0, mid),
   split_at_mut(1) out of range) is reachable, and the model's fuel (len + 1) is never exhausted *)
Theorem C18_no_panic_partial : forall (A : Type) (less : A -> A -> bool) pib oracle (v : list A),
  pib_ok less pib -> forallb ev_ok (r_trace (par_quicksort less pib oracle v)) = true.
Proof. intros A less pib oracle v H. exact (par_quicksort_clean less pib oracle v H). Qed.

(* under a total order there is exactly one sorted arrangement *)
Theorem C18_unique : forall (A : Type) (less : A -> A -> bool) (v1 v2 : list A),
  total_on less v1 -> sorted less v1 -> sorted less v2 -> Permutation v1 v2 -> v1 = v2.
Proof. exact @sorted_perm_unique. Qed.

(* hence two completed sorts of the same input agree whatever the partitioning procedure did and whenever
   the flag was (not) seen: nothing a schedule or a thread count can influence shows in the result *)
Theorem C18_schedule_independent_partial :
  forall (A : Type) (less : A -> A -> bool) pib1 pib2 oracle1 oracle2 (v : list A),
  strict_weak_order less -> total_on less v -> pib_ok less pib1 -> pib_ok less pib2 ->
  r_flag (par_quicksort less pib1 oracle1 v) = false -> r_flag (par_quicksort less pib2 oracle2 v) = false ->
  r_list (par_quicksort less pib1 oracle1 v) = r_list (par_quicksort less pib2 oracle2 v).
Proof. exact @par_quicksort_schedule_independent. Qed.

(* the sub-procedures, concretely modelled, for an arbitrary strict weak order *)
Theorem C18_insertion_sort : forall (A : Type) (less : A -> A -> bool) (v : list A),
  Permutation (insertion_sort less v) v /\ (strict_weak_order less -> sorted less (insertion_sort less v)).
Proof. intros A less v. split; [exact (insertion_sort_perm less v) | intros H; exact (insertion_sort_sorted less H v)]. Qed.

Theorem C18_heapsort : forall (A : Type) (less : A -> A -> bool) (v : list A),
  Permutation (heapsort less v) v /\ (strict_weak_order less -> sorted less (heapsort less v)).
Proof. intros A less v. split; [exact (heapsort_perm less v) | intros H; exact (heapsort_sorted less H v)]. Qed.

Theorem C18_partial_insertion_sort : forall (A : Type) (less : A -> A -> bool) (v : list A),
  Permutation (snd (partial_insertion_sort less v)) v /\
  (strict_weak_order less -> fst (partial_insertion_sort less v) = true -> sorted less (snd (partial_insertion_sort less v))).
Proof.
  intros A less v. split; [exact (partial_insertion_sort_perm less v)|].
  intros H E. destruct (partial_insertion_sort less v) as [b v'] eqn:Ep. cbn [fst snd] in *. subst b.
  exact (partial_insertion_sort_sorted less H v v' Ep).
Qed.

Theorem C18_partition_equal : forall (A : Type) (less : A -> A -> bool) (v : list A) pivot p,
  less p p = false -> nth_error v pivot = Some p ->
  Permutation (fst (fst (partition_equal less v pivot))) v /\
  exists L R, fst (fst (partition_equal less v pivot)) = L ++ R /\
              length L = snd (fst (partition_equal less v pivot)) /\ 1 <= length L /\
              Forall (fun x => less p x = false) L /\ Forall (fun x => less p x = true) R.
Proof.
  intros A less v pivot p H1 H2. split; [exact (partition_equal_perm less v pivot) | exact (partition_equal_spec less v pivot p H1 H2)].
Qed.

Theorem C18_partition_partial : forall (A : Type) (less : A -> A -> bool) pib (v : list A) pivot,
  pib_ok less pib -> v <> [] ->
  Permutation (fst (fst (fst (partition less pib v pivot)))) v /\
  exists L pv R, fst (fst (fst (partition less pib v pivot))) = L ++ pv :: R /\
                 length L = snd (fst (fst (partition less pib v pivot))) /\
                 Forall (fun x => less x pv = true) L /\ Forall (fun x => less x pv = false) R.
Proof.
  intros A less pib v pivot H Hv.
  split; [exact (partition_perm less pib v pivot (pib_ok_perm less pib H)) | exact (partition_spec less pib v pivot H Hv)].
Qed.

Theorem C18_choose_pivot : forall (A : Type) (less : A -> A -> bool) (v : list A),
  Permutation (fst (fst (fst (choose_pivot less v)))) v /\
  (0 < length v -> snd (fst (fst (choose_pivot less v))) < length v).
Proof. intros A less v. split; [exact (choose_pivot_perm less v) | exact (choose_pivot_in_range less v)]. Qed.

Theorem C18_break_patterns : forall (A : Type) (v : list A), Permutation (break_patterns v) v.
Proof. exact @break_patterns_perm. Qed.

(* the worker's comparison is a strict weak order; it is total on matches that are not placeholders (so,
   with len a function of idx, on matches with distinct idx); placeholders come last within a score *)
Theorem C18_cmp_total :
  strict_weak_order worker_less /\
  (forall m1 m2, m_idx m1 <> PLACEHOLDER -> m_idx m2 <> PLACEHOLDER ->
                 worker_less m1 m2 = false -> worker_less m2 m1 = false -> m1 = m2) /\
  (forall (lenf : N -> N) s1 i1 s2 i2, i1 <> PLACEHOLDER -> i2 <> PLACEHOLDER -> i1 <> i2 ->
     worker_less (s1, i1, lenf i1) (s2, i2, lenf i2) = true \/
     worker_less (s2, i2, lenf i2) (s1, i1, lenf i1) = true) /\
  (forall s i l l', i <> PLACEHOLDER ->
     worker_less (s, i, l) (s, PLACEHOLDER, l') = true /\ worker_less (s, PLACEHOLDER, l') (s, i, l) = false).
Proof.
  split; [exact worker_less_swo|]. split; [exact worker_less_total|].
  split; [exact worker_less_distinct | exact worker_less_placeholder_last].
Qed.

(* non-vacuity: the contract assumed of partition_in_blocks is satisfiable (by the stable reference
   partition pib_spec), the worker's comparator satisfies the order hypothesis, and the faithful model
   (block partition included) sorts a 45-element input through the quicksort branch *)
Example C18_contract_satisfiable : forall (A : Type) (less : A -> A -> bool), pib_ok less (pib_spec less).
Proof. exact @pib_spec_ok. Qed.

Example C18_nonvacuous :
  let v := map N.of_nat [17;3;44;9;28;1;36;12;41;7;23;30;5;19;38;2;26;14;33;8;21;40;11;29;4;35;16;43;6;25;
                         39;10;31;0;22;37;13;27;42;15;32;18;24;34;20] in
  let r := par_quicksort_model N.ltb (fun _ => false) v in
  r_flag r = false /\ r_list r = map N.of_nat (seq 0 45) /\ In EvSeqLeft (r_trace r) /\
  r_flag (par_quicksort_model N.ltb (fun k => Nat.eqb k 0) v) = true.
Proof. vm_compute. repeat split; auto 20. Qed.

(* ---- UNCONDITIONAL versions: the block partition (partition_in_blocks, the BlockQuicksort cyclic-swap
   loop) satisfies its contract for every comparator (Proofs/PibFacts.v), so the `_partial` theorems
   above hold for the executable model of the whole of par_sort.rs with no hypothesis left ---------- *)
Theorem C18_pib_contract : forall (A : Type) (less : A -> A -> bool), pib_ok less (partition_in_blocks less).
Proof. exact PibFacts.pib_contract. Qed.

Theorem C18_perm : forall (A : Type) (less : A -> A -> bool) oracle (v : list A),
  Permutation (r_list (par_quicksort_model less oracle v)) v.
Proof. exact PibFacts.C18_perm. Qed.

Theorem C18_sorted : forall (A : Type) (less : A -> A -> bool) oracle (v : list A),
  strict_weak_order less -> (forall k, oracle k = false) ->
  r_flag (par_quicksort_model less oracle v) = false /\ sorted less (r_list (par_quicksort_model less oracle v)).
Proof. exact PibFacts.C18_sorted. Qed.

Theorem C18_cancel : forall (A : Type) (less : A -> A -> bool) oracle (v : list A),
  strict_weak_order less ->
  (r_flag (par_quicksort_model less oracle v) = true -> exists k, oracle k = true) /\
  (r_flag (par_quicksort_model less oracle v) = false -> sorted less (r_list (par_quicksort_model less oracle v))).
Proof. exact PibFacts.C18_cancel. Qed.

Theorem C18_no_panic : forall (A : Type) (less : A -> A -> bool) oracle (v : list A),
  forallb ev_ok (r_trace (par_quicksort_model less oracle v)) = true.
Proof. exact PibFacts.C18_no_panic. Qed.

Theorem C18_schedule_independent :
  forall (A : Type) (less : A -> A -> bool) oracle1 oracle2 (v : list A),
  strict_weak_order less -> total_on less v ->
  r_flag (par_quicksort_model less oracle1 v) = false -> r_flag (par_quicksort_model less oracle2 v) = false ->
  r_list (par_quicksort_model less oracle1 v) = r_list (par_quicksort_model less oracle2 v).
Proof. exact PibFacts.C18_schedule_independent. Qed.

Print Assumptions C18_perm_partial.
Print Assumptions C18_sorted_partial.
Print Assumptions C18_cancel_partial.
Print Assumptions C18_no_panic_partial.
Print Assumptions C18_unique.
Print Assumptions C18_schedule_independent_partial.
Print Assumptions C18_insertion_sort.
Print Assumptions C18_heapsort.
Print Assumptions C18_partial_insertion_sort.
Print Assumptions C18_partition_equal.
Print Assumptions C18_partition_partial.
Print Assumptions C18_choose_pivot.
Print Assumptions C18_break_patterns.
Print Assumptions C18_cmp_total.
Print Assumptions C18_pib_contract.
Print Assumptions C18_perm.
Print Assumptions C18_sorted.
Print Assumptions C18_cancel.
Print Assumptions C18_no_panic.
Print Assumptions C18_schedule_independent.
