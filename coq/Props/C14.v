(* C14 -- Pattern text is parsed by one grammar regardless of the characters involved.
   Property theorems only.  The model (Model/PatternParse.v) is the parser of matcher/src/pattern.rs;
   every theorem below is about the parser with the three-line repair of finding #15 (fx = true; see
   the header of the model and /tmp/vs/C14/fix_1.diff), except where it says `forall fx`, which covers the
   pinned code as well.  Quantification: every pattern / word / literal text (list of code points, any
   length), every CaseMatching x Normalization setting, every AtomKind, every grapheme segmentation
   function seg (constrained by seg_faithful only where the statement needs the segmentation of the
   text at hand), every history of reparse calls. *)
From Coq Require Import NArith List Bool.
From NV Require Import Model.PatternParse Spec.PatternParseSpec Proofs.C14Facts.
From NV Require Spec.Matching.
Import ListNotations.
Local Open Scope N_scope.

(* ---- escape round trip ----------------------------------------------------------------------------- *)
(* Parsing the escaped form of a literal text yields exactly one atom: fuzzy, not negated, whose needle
   is that text (case-folded when the setting is Ignore), held as bytes iff the text is ASCII, with the
   smart-case / smart-normalization flags of the documentation.  ASCII and non-ASCII texts alike.
   [escapable] excludes only texts that have no escaped form: the empty text, whitespace other than
   U+0020, and a leading backslash followed by ! ^ '.  [seg_simple] restricts to code points that are
   grapheme clusters of their own (grapheme handling itself is C17's subject). *)
Theorem C14_roundtrip : forall seg t cm nm,
  seg_faithful seg -> escapable t = true -> seg_simple t = true ->
  pattern_parse true seg (escape t) cm nm = [literal_atom t cm nm].
Proof. exact roundtrip. Qed.

(* in particular: the needle is exactly the text unless the caller asked for case folding *)
Corollary C14_roundtrip_needle : forall seg t cm nm,
  seg_faithful seg -> escapable t = true -> seg_simple t = true -> cm <> CaseIgnore ->
  map a_needle (pattern_parse true seg (escape t) cm nm) = [t] /\
  map a_kind (pattern_parse true seg (escape t) cm nm) = [AFuzzy] /\
  map a_negative (pattern_parse true seg (escape t) cm nm) = [false].
Proof.
  intros seg t cm nm H1 H2 H3 H4. rewrite (roundtrip seg t cm nm H1 H2 H3).
  destruct cm; [| contradiction |]; repeat split.
Qed.

(* The pinned code (fx = false) does NOT have the round-trip property on non-ASCII text: finding #15.
   "ä b" escapes to "ä\ b", which the pinned non-ASCII branch turns into the needle "ä\ b". *)
Lemma pinned_code_roundtrip_refuted :
  exists t, escapable t = true /\ seg_simple t = true /\
    pattern_parse false crlf (escape t) CaseRespect NormNever <> [literal_atom t CaseRespect NormNever] /\
    map a_needle (pattern_parse false crlf (escape t) CaseRespect NormNever) = [[228; 92; 32; 98]].
Proof. exists [228; 32; 98]. vm_compute. repeat split; discriminate. Qed.

(* ---- marker table ---------------------------------------------------------------------------------- *)
(* A word  [!|\!] [^|'|\^|\'] body [$|\$]  parses to the atom built from the literal source text
   [tbl_source] with the kind and negation of the documented table; escaped markers are text.  All
   3 x 5 x 3 combinations, every body that does not itself begin / end with marker syntax
   (lead_ok / tail_ok), every segmentation, pinned and fixed code. *)
Theorem C14_markers : forall fx seg n k e b cm nm,
  lead_ok n k b = true -> tail_ok e b = true ->
  atom_parse fx seg (marker_text n k e b) cm nm =
  set_negative (tbl_negative n)
    (new_inner fx seg (tbl_source n k b) cm nm (tbl_kind n k e) true (tbl_dollar e)).
Proof. exact atom_parse_markers. Qed.

(* the table, spelled out for the unescaped combinations (rows: "", "!" ; columns as listed) *)
Theorem C14_marker_table :
  (*            ""        "$"        "^"       "^" "$"   "'"          "'" "$" *)
  map (fun ke => tbl_kind NegNone (fst ke) (snd ke))
      [(KmNone, EmNone); (KmNone, EmDollar); (KmCaret, EmNone); (KmCaret, EmDollar); (KmQuote, EmNone); (KmQuote, EmDollar)]
    = [AFuzzy; APostfix; APrefix; AExact; ASubstring; AExact] /\
  map (fun ke => tbl_kind NegBang (fst ke) (snd ke))
      [(KmNone, EmNone); (KmNone, EmDollar); (KmCaret, EmNone); (KmCaret, EmDollar); (KmQuote, EmNone); (KmQuote, EmDollar)]
    = [ASubstring; APostfix; APrefix; AExact; ASubstring; AExact] /\
  (* escaped markers never select a kind *)
  (forall e, tbl_kind NegNone KmEscCaret e = tbl_kind NegNone KmNone e /\
             tbl_kind NegNone KmEscQuote e = tbl_kind NegNone KmNone e) /\
  (forall k, tbl_kind NegEsc k EmNone = AFuzzy /\ tbl_kind NegEsc k EmEscDollar = AFuzzy /\
             tbl_kind NegEsc k EmDollar = APostfix) /\
  (forall n k, tbl_kind n k EmEscDollar = tbl_kind n k EmNone).
Proof.
  split; [reflexivity|]. split; [reflexivity|]. split; [intros []; split; reflexivity|].
  split; [intros []; repeat split; reflexivity|]. intros [] []; reflexivity.
Qed.

(* ---- splitting -------------------------------------------------------------------------------------- *)
(* The words are the maximal runs between unescaped whitespace -- whitespace in char::is_whitespace's
   sense, "unescaped" = not immediately preceded by a backslash (positional definition spec_atoms) --,
   nothing but those separators is lost, and words with an empty needle are dropped. *)
Theorem C14_split : forall fx seg p cm nm,
  pattern_atoms p = spec_atoms p /\
  rejoin (spec_atoms p) (unescaped_ws_chars p) = p /\
  pattern_parse fx seg p cm nm
    = filter needle_nonempty (map (fun w => atom_parse fx seg w cm nm) (spec_atoms p)) /\
  (forall k, pattern_new fx seg p cm nm k
    = filter needle_nonempty (map (fun w => atom_new fx seg w cm nm k true) (spec_atoms p))) /\
  (forall a, In a (pattern_parse fx seg p cm nm) -> a_needle a <> []).
Proof.
  intros fx seg p cm nm. split; [exact (pattern_atoms_spec p)|]. split; [exact (spec_atoms_rejoin p)|].
  split; [unfold pattern_parse; now rewrite pattern_atoms_spec|].
  split; [intros k; unfold pattern_new; now rewrite pattern_atoms_spec|].
  intros a H. destruct (in_pattern_parse fx seg p cm nm a H) as (_ & _ & Hn). exact Hn.
Qed.

(* ---- smart case -------------------------------------------------------------------------------------- *)
(* ignore_case is: true for Ignore, false for Respect, and for Smart exactly "the needle holds no
   upper-case character" (upper case = has a simple case folding, the crate's notion; C16).  For
   Atom::new with either escape flag, Atom::parse, and every atom of Pattern::parse / new. *)
Theorem C14_smart_case : forall fx seg cm nm,
  (forall s k esc, let a := atom_new fx seg s cm nm k esc in a_ignore_case a = spec_ignore_case cm (a_needle a)) /\
  (forall w, let a := atom_parse fx seg w cm nm in a_ignore_case a = spec_ignore_case cm (a_needle a)) /\
  (forall p a, In a (pattern_parse fx seg p cm nm) -> a_ignore_case a = spec_ignore_case cm (a_needle a)) /\
  (forall p k a, In a (pattern_new fx seg p cm nm k) -> a_ignore_case a = spec_ignore_case cm (a_needle a)).
Proof.
  intros fx seg cm nm. split; [intros s k esc; exact (new_inner_ignore_case fx seg s cm nm k esc false)|].
  split; [intros w; exact (atom_parse_ignore_case fx seg w cm nm)|]. split.
  - intros p a H. destruct (in_pattern_parse fx seg p cm nm a H) as (w & -> & _). exact (atom_parse_ignore_case fx seg w cm nm).
  - intros p k a H. destruct (in_pattern_new fx seg p cm nm k a H) as (w & -> & _). exact (new_inner_ignore_case fx seg w cm nm k true false).
Qed.

(* ---- smart normalization ----------------------------------------------------------------------------- *)
(* normalize is: false for Never, and for Smart exactly "no character of the needle would itself be
   normalized". *)
Theorem C14_smart_norm : forall fx seg cm nm,
  (forall s k esc, let a := atom_new fx seg s cm nm k esc in a_normalize a = spec_normalize nm (a_needle a)) /\
  (forall w, let a := atom_parse fx seg w cm nm in a_normalize a = spec_normalize nm (a_needle a)) /\
  (forall p a, In a (pattern_parse fx seg p cm nm) -> a_normalize a = spec_normalize nm (a_needle a)) /\
  (forall p k a, In a (pattern_new fx seg p cm nm k) -> a_normalize a = spec_normalize nm (a_needle a)).
Proof.
  intros fx seg cm nm. split; [intros s k esc; exact (new_inner_normalize fx seg s cm nm k esc false)|].
  split; [intros w; exact (atom_parse_normalize fx seg w cm nm)|]. split.
  - intros p a H. destruct (in_pattern_parse fx seg p cm nm a H) as (w & -> & _). exact (atom_parse_normalize fx seg w cm nm).
  - intros p k a H. destruct (in_pattern_new fx seg p cm nm k a H) as (w & -> & _). exact (new_inner_normalize fx seg w cm nm k true false).
Qed.

(* ---- ignore-case needles are stored case-folded ------------------------------------------------------ *)
(* whenever an atom ignores case (setting Ignore, or Smart without upper case) its needle is a fixed
   point of case folding; and under Ignore the atoms are those of Respect with folded needles *)
Theorem C14_folded : forall fx seg cm nm,
  (forall s k esc, let a := atom_new fx seg s cm nm k esc in
     a_ignore_case a = true -> map to_lower (a_needle a) = a_needle a) /\
  (forall p a, In a (pattern_parse fx seg p cm nm) -> a_ignore_case a = true -> map to_lower (a_needle a) = a_needle a) /\
  (forall p k a, In a (pattern_new fx seg p cm nm k) -> a_ignore_case a = true -> map to_lower (a_needle a) = a_needle a) /\
  (forall w nm', let ai := atom_parse fx seg w CaseIgnore nm in let ar := atom_parse fx seg w CaseRespect nm' in
     a_needle ai = map to_lower (a_needle ar) /\ a_kind ai = a_kind ar /\ a_negative ai = a_negative ar /\
     a_repr ai = a_repr ar) /\
  (forall p nm', map a_needle (pattern_parse fx seg p CaseIgnore nm)
                 = map (fun a => map to_lower (a_needle a)) (pattern_parse fx seg p CaseRespect nm')).
Proof.
  intros fx seg cm nm. split; [intros s k esc; exact (new_inner_folded fx seg s cm nm k esc false)|]. split.
  - intros p a H. destruct (in_pattern_parse fx seg p cm nm a H) as (w & -> & _). exact (atom_parse_folded fx seg w cm nm).
  - split.
    + intros p k a H. destruct (in_pattern_new fx seg p cm nm k a H) as (w & -> & _). exact (new_inner_folded fx seg w cm nm k true false).
    + split; [intros w nm'; exact (atom_parse_fold_source fx seg w nm nm')|].
      intros p nm'. exact (pattern_parse_fold_source fx seg p nm nm').
Qed.

(* ---- the stored needle meets the matcher's precondition ------------------------------------------------ *)
(* Atom::score / Atom::indices install ignore_case := atom.ignore_case, normalize := atom.normalize in the
   matcher's configuration.  Under that configuration every character of the stored needle is a fixed
   point of Char::normalize -- the hypothesis `needle_ok` under which C01-C05 are stated holds for every
   needle that comes out of the parser. *)
Theorem C14_needle_normalised : forall fx seg cm nm cfg,
  (forall s k esc, let a := atom_new fx seg s cm nm k esc in
     ignore_case cfg = a_ignore_case a -> normalize_on cfg = a_normalize a ->
     Spec.Matching.needle_ok cfg (a_repr a) (a_needle a) = true) /\
  (forall w, let a := atom_parse fx seg w cm nm in
     ignore_case cfg = a_ignore_case a -> normalize_on cfg = a_normalize a ->
     Spec.Matching.needle_ok cfg (a_repr a) (a_needle a) = true).
Proof.
  intros fx seg cm nm cfg. split.
  - intros s k esc. exact (new_inner_needle_fixed fx seg s cm nm k esc false cfg).
  - intros w. exact (atom_parse_needle_fixed fx seg w cm nm cfg).
Qed.

(* ---- reparse ------------------------------------------------------------------------------------------ *)
(* reparse does not depend on what the pattern object held: after any history of reparse calls the
   atoms are those of a fresh parse of the last text with the last settings *)
Theorem C14_reparse : forall fx seg old p cm nm,
  pattern_reparse fx seg old p cm nm = pattern_parse fx seg p cm nm /\
  (forall calls, reparse_history fx seg old (calls ++ [(p, cm, nm)]) = pattern_parse fx seg p cm nm).
Proof.
  intros fx seg old p cm nm. split; [exact (reparse_is_parse fx seg old p cm nm)|].
  intros calls. exact (reparse_history_last fx seg old calls p cm nm).
Qed.

(* ---- non-vacuity --------------------------------------------------------------------------------------- *)
(* the hypotheses are satisfiable: crlf is a faithful segmentation; "!a b$" / "ä ^Ä\$" are escapable
   and simple; their escaped forms are  \!a\ b\$  and  ä\ ^Ä\\$ ; a body satisfying lead_ok / tail_ok *)
Example C14_nonvacuous :
  seg_faithful crlf /\
  escapable [33; 97; 32; 98; 36] = true /\ seg_simple [33; 97; 32; 98; 36] = true /\
  escape [33; 97; 32; 98; 36] = [92; 33; 97; 92; 32; 98; 92; 36] /\
  escapable [228; 32; 94; 196; 92; 36] = true /\ seg_simple [228; 32; 94; 196; 92; 36] = true /\
  escape [228; 32; 94; 196; 92; 36] = [228; 92; 32; 94; 196; 92; 92; 36] /\
  map a_needle (pattern_parse true crlf (escape [228; 32; 94; 196; 92; 36]) CaseSmart NormSmart) = [[228; 32; 94; 196; 92; 36]] /\
  lead_ok NegBang KmCaret [102; 111; 111] = true /\ tail_ok EmDollar [102; 111; 111] = true /\
  spec_atoms [97; 32; 98; 92; 32; 99; 9; 100] = [[97]; [98; 92; 32; 99]; [100]].
Proof. split; [intros s _; reflexivity|]. vm_compute. repeat split. Qed.

Print Assumptions C14_roundtrip.
Print Assumptions C14_roundtrip_needle.
Print Assumptions C14_markers.
Print Assumptions C14_marker_table.
Print Assumptions C14_split.
Print Assumptions C14_smart_case.
Print Assumptions C14_smart_norm.
Print Assumptions C14_folded.
Print Assumptions C14_needle_normalised.
Print Assumptions C14_reparse.
