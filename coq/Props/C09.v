(* Property C09: item data of the lock-free vector (src/boxcar.rs) is published race-free to every reader
   under the release/acquire memory model of Model/BoxcarRA.v - provided the orderings of its atomic
   accesses satisfy `orderings_ok`.  The orderings of the current tree are read from the generated table
   Gen/GenOrderings.v (`current_ords`); every statement about "the current tree" is computed from it.
   The obligation on the source is C09_current_ok. *)
From Coq Require Import String List Bool Arith NArith.
From NV Require Import Gen.GenOrderings Model.BoxcarRA Proofs.C09Facts.
From NV Require Model.Boxcar.
Import ListNotations.
From NV Require Import Gen.GenBoxcar.

(* ---- race freedom: any number of threads, any interleaving, any permitted stale read ---------------- *)
Theorem C09_race_free : forall o, orderings_ok o = true -> forall s, reachable o s -> race s = false.
Proof. exact race_free. Qed.

(* the invariant behind it, for reference: published pointers carry the bucket initialisation, published
   `active` flags carry the entry's writes, writers own what they write *)
Theorem C09_invariant : forall o, orderings_ok o = true -> forall s, reachable o s -> inv s.
Proof. intros o H s R. apply (reachable_inv o H s R). Qed.

(* what race freedom buys: a reader that reaches Entry::read reads an entry whose slot and columns have been
   written, from a published bucket (views are truthful: a thread or message claims to happen-after only
   events that took place - this part holds for any orderings) *)
Theorem C09_views_truthful : forall o s, reachable o s -> tinv s.
Proof. exact reachable_tinv. Qed.

Theorem C09_reads_initialised :
  forall o, orderings_ok o = true -> forall s t k i hi, reachable o s -> pcs s t = PcRdData k i hi ->
    written s i = true /\ ptr s (bucket_of i) <> None /\
    v_data (tv s t) i = true /\ v_init (tv s t) (bucket_of i) = true.
Proof. exact reads_initialised. Qed.

(* ---- the current tree ----------------------------------------------------------------------------- *)
(* THE OBLIGATION: every boxcar site is present in the generated table and the orderings found there satisfy
   orderings_ok.  This breaks whenever an ordering the proof needs is weakened in the source (or a site
   disappears / changes arity). *)
Theorem C09_current_ok : exists o, current_ords = Some o /\ orderings_ok o = true.
Proof. eexists. split; vm_compute; reflexivity. Qed.

Corollary C09_current_race_free :
  exists o, current_ords = Some o /\ forall s, reachable o s -> race s = false.
Proof.
  destruct C09_current_ok as [o [H1 H2]]. exists o. split; [exact H1 | apply C09_race_free; exact H2].
Qed.

(* what orderings_ok does not constrain may be Relaxed: the inflight counter, get_unchecked's loads (its
   contract provides the synchronisation), the loads of count / snapshot / par_snapshot *)
Definition relax_unconstrained (o : ords) : ords :=
  fold_right weaken o [SPushFaa; SExtFaa; SUncPtr; SUncAct; SNextInfl; SCountInfl; SSnapInfl; SPsnapInfl].
Theorem C09_unconstrained_sites :
  forall o, orderings_ok (relax_unconstrained o) = orderings_ok o.
Proof. intros o. reflexivity. Qed.

(* ---- the pinned tree (refutation, independent of the generated table) ------------------------------ *)
(* pinned_ords (Model/BoxcarRA.v) is the literal record of the orderings before the fix: get and Iter::next
   loaded the bucket pointer Relaxed.
   Execution: thread 0 extends an empty vector (capacity 1: only bucket 0 preallocated) by 29 items, which
   makes it allocate bucket 1 eagerly and publish it (Release CAS); thread 1 calls get(32): its Relaxed
   pointer load reads the new pointer, then it loads `active` of entry 32, whose initial value was written
   non-atomically by thread 0 and does not happen-before this load *)
Definition trace_get_new_bucket : list label :=
  [LExtend 0 29; LCas 0; LGet 1 32; LPtr 1 true; LAct 1 false].
Definition trace_iter_new_bucket : list label :=
  [LExtend 0 29; LCas 0; LIter 1 32 33; LPtr 1 true; LAct 1 false].

Theorem C09_pinned_not_ok :
  orderings_ok pinned_ords = false /\
  orderings_ok (set_site SGetPtr Acquire pinned_ords) = false /\
  orderings_ok (set_site SNextPtr Acquire pinned_ords) = false /\
  orderings_ok (set_site SGetPtr Acquire (set_site SNextPtr Acquire pinned_ords)) = true.
Proof. vm_compute. auto. Qed.

Theorem C09_pinned_races : exists s, reachable pinned_ords s /\ race s = true.
Proof. apply (races_sound pinned_ords 0 trace_get_new_bucket). vm_compute. reflexivity. Qed.

Theorem C09_pinned_races_iter : exists s, reachable pinned_ords s /\ race s = true.
Proof. apply (races_sound pinned_ords 0 trace_iter_new_bucket). vm_compute. reflexivity. Qed.

(* ---- necessity: each conjunct of orderings_ok, weakened alone to Relaxed in the current orderings, allows a
   race; the same trace is race-free with the current orderings ---------------------------------------- *)
(* need f ls: with the orderings of the current tree except site f, which is Relaxed, orderings_ok fails and the
   trace ls (from the initial state with only bucket 0 preallocated) is executable and ends in a race,
   whereas with the current orderings the same trace is executable and race-free *)
Definition need (f : site_id) (ls : list label) : Prop :=
  exists o, current_ords = Some o /\
    orderings_ok (weaken f o) = false /\
    (exists s, run (weaken f o) (init 0) ls = Some s /\ reachable (weaken f o) s /\ race s = true) /\
    (exists s, run o (init 0) ls = Some s /\ race s = false).
Lemma need_intro f ls :
  match current_ords with
  | Some o => races (weaken f o) 0 ls && runs_clean o 0 ls && negb (orderings_ok (weaken f o))
  | None => false
  end = true -> need f ls.
Proof.
  unfold need. destruct current_ords as [o|]; [ | discriminate].
  intros H. apply andb_true_iff in H. destruct H as [H H3]. apply andb_true_iff in H. destruct H as [H1 H2].
  exists o. split; [reflexivity | ]. split; [ | split].
  - destruct (orderings_ok (weaken f o)); [discriminate | reflexivity].
  - apply races_run. exact H1.
  - apply runs_clean_sound. exact H2.
Qed.

(* bucket 1 is published with a Relaxed CAS: the reader's Acquire load of the pointer acquires nothing *)
Lemma C09_need_cas_success : need SCasSucc trace_get_new_bucket.
Proof. apply need_intro. vm_compute. reflexivity. Qed.

(* threads 1 and 2 both find bucket 1 null and race to allocate it; thread 2 loses, reads the winner's
   pointer with a Relaxed failure ordering and writes its entry into the winner's bucket *)
Definition trace_cas_loser : list label :=
  [LExtend 0 32; LExtend 1 1; LPtr 1 false; LExtend 2 1; LPtr 2 false; LCas 1; LCas 2; LWrite 2].
Lemma C09_need_cas_failure : need SCasFail trace_cas_loser.
Proof. apply need_intro. vm_compute. reflexivity. Qed.

(* thread 1 allocates bucket 1; thread 2 pushes index 33, loads the pointer Relaxed, writes entry 33 *)
Definition trace_push_found : list label :=
  [LExtend 0 32; LExtend 1 1; LPtr 1 false; LCas 1; LPush 2; LPtr 2 true; LWrite 2].
Lemma C09_need_push_ptr : need SPushPtr trace_push_found.
Proof. apply need_intro. vm_compute. reflexivity. Qed.

Definition trace_extend_found : list label :=
  [LExtend 0 32; LExtend 1 1; LPtr 1 false; LCas 1; LExtend 2 1; LPtr 2 true; LWrite 2].
Lemma C09_need_extend_ptr_first : need SExtPtr1 trace_extend_found.
Proof. apply need_intro. vm_compute. reflexivity. Qed.

(* thread 0 allocates bucket 1 eagerly; thread 2's batch (31, 32) crosses into bucket 1: second load site *)
Definition trace_extend_crossing : list label :=
  [LExtend 0 31; LCas 0; LExtend 2 2; LPtr 2 true; LWrite 2; LStore 2; LPtr 2 true; LWrite 2].
Lemma C09_need_extend_ptr_next : need SExtPtr2 trace_extend_crossing.
Proof. apply need_intro. vm_compute. reflexivity. Qed.

Lemma C09_need_get_ptr : need SGetPtr trace_get_new_bucket.
Proof. apply need_intro. vm_compute. reflexivity. Qed.

Lemma C09_need_next_ptr : need SNextPtr trace_iter_new_bucket.
Proof. apply need_intro. vm_compute. reflexivity. Qed.

(* thread 0 pushes entry 0 (bucket 0 is preallocated) and publishes it; thread 1 gets it and reads it *)
Definition trace_push_get : list label :=
  [LPush 0; LPtr 0 true; LWrite 0; LStore 0; LGet 1 0; LPtr 1 true; LAct 1 true; LRead 1].
Definition trace_extend_get : list label :=
  [LExtend 0 1; LPtr 0 true; LWrite 0; LStore 0; LGet 1 0; LPtr 1 true; LAct 1 true; LRead 1].
Definition trace_push_iter : list label :=
  [LPush 0; LPtr 0 true; LWrite 0; LStore 0; LIter 1 0 1; LPtr 1 true; LAct 1 true; LRead 1].

Lemma C09_need_push_store : need SPushStore trace_push_get.
Proof. apply need_intro. vm_compute. reflexivity. Qed.
Lemma C09_need_extend_store : need SExtStore trace_extend_get.
Proof. apply need_intro. vm_compute. reflexivity. Qed.
Lemma C09_need_get_active : need SGetAct trace_push_get.
Proof. apply need_intro. vm_compute. reflexivity. Qed.
Lemma C09_need_next_active : need SNextAct trace_push_iter.
Proof. apply need_intro. vm_compute. reflexivity. Qed.

(* ---- sanity of the model -------------------------------------------------------------------------- *)
(* with the current orderings the machine does reach Entry::read (race freedom is not vacuous), a stale read of
   `active` is permitted after the store, get_unchecked becomes enabled for a thread that was handed the
   index by external synchronisation (and that thread can then no longer read active == false: coherence
   along happens-before), and a count() may read a stale counter *)
Example C09_nonvacuous :
  exists o, current_ords = Some o /\
    runs_clean o 0
      [LPush 0; LPtr 0 true; LWrite 0; LStore 0;
       LGet 1 0; LPtr 1 true; LAct 1 false;                      (* stale: returns None *)
       LGet 1 0; LPtr 1 true; LAct 1 true; LRead 1;              (* returns the item *)
       LSync 1 2; LGetUnchecked 2 0; LPtr 2 true; LAct 2 true; LRead 2;
       LInfl 3 ICount 1; LInfl 3 ISnapshot 0; LIter 3 0 1; LPtr 3 true; LAct 3 true; LRead 3] = true /\
    (* get_unchecked is not enabled for a thread that has no reason to see the entry *)
    run o (init 0) [LPush 0; LPtr 0 true; LWrite 0; LStore 0; LGetUnchecked 2 0] = None /\
    run o (init 0) [LPush 0; LPtr 0 true; LWrite 0; LStore 0; LGet 1 0; LPtr 1 true; LAct 1 true; LRead 1;
                               LSync 1 2; LGetUnchecked 2 0; LPtr 2 true; LAct 2 false] = None /\
    (* coherence: after reading active == true a thread cannot read false again *)
    run o (init 0) [LPush 0; LPtr 0 true; LWrite 0; LStore 0;
                               LGet 1 0; LPtr 1 true; LAct 1 true; LRead 1; LGet 1 0; LPtr 1 true; LAct 1 false] = None.
Proof. eexists. split; [vm_compute; reflexivity | ]. vm_compute. auto. Qed.

(* the location arithmetic on nat used here agrees with Model/Boxcar.v (Location::of) *)
Example C09_location_agrees :
  forallb (fun i =>
    let l := Boxcar.location_of (N.of_nat i) in
    (N.to_nat (Boxcar.l_bucket l) =? bucket_of i) && (N.to_nat (Boxcar.l_entry l) =? entry_of i) &&
    (N.to_nat (Boxcar.l_len l) =? bucket_len (bucket_of i)) &&
    (N.to_nat (Boxcar.alloc_next_entry l) =? alloc_entry (bucket_of i))) (seq 0 2100) = true.
Proof. vm_compute. reflexivity. Qed.

Print Assumptions C09_race_free.
Print Assumptions C09_invariant.
Print Assumptions C09_views_truthful.
Print Assumptions C09_reads_initialised.
Print Assumptions C09_current_ok.
Print Assumptions C09_current_race_free.
Print Assumptions C09_unconstrained_sites.
Print Assumptions C09_pinned_not_ok.
Print Assumptions C09_pinned_races.
Print Assumptions C09_pinned_races_iter.
Print Assumptions C09_need_cas_success.
Print Assumptions C09_need_cas_failure.
Print Assumptions C09_need_push_ptr.
Print Assumptions C09_need_extend_ptr_first.
Print Assumptions C09_need_extend_ptr_next.
Print Assumptions C09_need_get_ptr.
Print Assumptions C09_need_next_ptr.
Print Assumptions C09_need_push_store.
Print Assumptions C09_need_extend_store.
Print Assumptions C09_need_get_active.
Print Assumptions C09_need_next_active.
Print Assumptions C09_nonvacuous.
Print Assumptions C09_location_agrees.

(* Tie of the models' allocation step to the source (translated structurally, Gen/GenBoxcar.v): a bucket is allocated
   and every `active` flag cleared BEFORE the compare_exchange that publishes it, and the winner does nothing more
   to it.  Model/Boxcar.v and Model/BoxcarRA.v treat "allocate + initialise + publish" as one step of the allocating
   thread; a source in which initialisation follows publication (a published entry can be reset to inactive by the
   winner's late initialisation loop: a completed push is lost) makes this obligation fail. *)
Theorem C09_bucket_init_before_publish : bucket_init_before_publish = true.
Proof. reflexivity. Qed.
Print Assumptions C09_bucket_init_before_publish.
