(* C10 -- The matcher is total, memory-safe and independent of its call history.
   Proved so far: the layout part (the views MatrixSlab::alloc hands out lie inside the slab allocation,
   are pairwise disjoint and aligned), over the element-count expressions TRANSLATED from matrix.rs on
   every run (allocation side: MatrixLayout::new; reference side: fieds_from_ptr); totality of the
   greedy entry point (C01_greedy_decision: never Panicked) and saturation of the linear scorers
   (C03_no_wrap); the optimal entry point including the DP never panics (C10_dp_no_panic) and its result
   is independent of the scratch row's prior content (C10_history).  Not modelled: pointer provenance of
   the slab views, the back-pointer cells' flat layout (the model keeps them per row).  C10_total covers all six
   algorithms (model-level Panicked outcomes: the prefilter assertion, unwrap/expect on empty ranges,
   slice / u16 index arithmetic). *)
From Coq Require Import NArith List Bool.
From NV Require Import Model.Matcher Spec.Matching Spec.Statements Proofs.LayoutFacts Proofs.C01Facts Proofs.ScoreFacts Proofs.DPFacts Proofs.TotalFacts.
Local Open Scope N_scope.

Theorem C10_layout : C10_layout_stmt.
Proof. exact LayoutFacts.layout_views_ok. Qed.

(* under nl <= hl, which MatrixLayout::new asserts (`assert!(haystack_len >= needle_len)`) before any layout exists:
   the counts are translated from matrix.rs, N subtraction truncates like usize subtraction would underflow, so
   equivalent spellings (`hl + 1 - nl`, `hl - nl + 1`) coincide exactly on that domain.  C10_layout has the same
   hypothesis. *)
Theorem C10_view_counts :
  forall hl nl, nl <= hl ->
                view_count_haystack hl nl = layout_count_haystack hl nl /\
                view_count_bonus hl nl = layout_count_bonus hl nl /\
                view_count_rows hl nl = layout_count_rows hl nl /\
                view_count_score hl nl = layout_count_score hl nl /\
                view_count_matrix hl nl = layout_count_matrix hl nl.
Proof. exact LayoutFacts.view_counts_match. Qed.

(* the greedy entry point is total *)
Theorem C10_greedy_total :
  forall cfg hs ns k, wf_str hs -> wf_str ns -> needle_ok cfg (rp ns) (cs ns) = true -> ~ known_K1 hs ns ->
    run cfg FuzzyGreedy hs ns <> Panicked k.
Proof.
  intros cfg hs ns k Hh Hn Hok HK E. pose proof (C01Facts.C01_greedy_decision cfg hs ns Hh Hn Hok HK) as G.
  rewrite E in G. exact G.
Qed.

Theorem C10_no_wrap : C03_no_wrap_stmt.
Proof. exact ScoreFacts.C03_no_wrap_weak. Qed.

(* the optimal entry point, DP included, never panics: no u16 underflow in the row-offset arithmetic, no
   out-of-range index in score_row / reconstruct, the "caught by prefilter" assertion never fires *)
Theorem C10_dp_no_panic : DP_no_panic_stmt.
Proof. exact DPFacts.DP_no_panic. Qed.

(* every one of the six algorithms is total: no entry point ever panics on a normalised needle *)
Theorem C10_total : C10_total_stmt.
Proof. exact TotalFacts.C10_total. Qed.

(* history independence: the result does not depend on what earlier calls left in the scratch row
   (no slot is read before it is written in the same call) *)
Theorem C10_history : C10_history_stmt.
Proof. exact DPFacts.C10_history. Qed.

(* non-vacuity: alloc accepts non-trivial sizes *)
Example C10_nonvacuous : slab_alloc_ok Ascii 3000 33 = true /\ slab_alloc_ok Unicode 2048 50 = true /\
                          slab_alloc_ok Unicode 3000 33 = false.
Proof. vm_compute. auto. Qed.

Print Assumptions C10_layout.
Print Assumptions C10_view_counts.
Print Assumptions C10_greedy_total.
Print Assumptions C10_no_wrap.
Print Assumptions C10_dp_no_panic.
Print Assumptions C10_history.
Print Assumptions C10_total.
