(* C02 -- Reported match indices are a valid witness of the match.
   Statements in Spec/Statements.v, proofs in Proofs/WitnessFacts.v.  "Appends exactly ... leaving earlier
   content untouched" is by construction of the wrapper below: the model functions return the appended
   indices, the caller's vector is prior ++ appended (the Rust code only ever pushes / resizes past the
   old length; the harness calls the indices variants with a non-empty prior vector and checks it).
   The DP's reconstruct_optimal_path is covered by C02_dp_witness (Proofs/DPCore.v: every score cell is
   UNMATCHED or carries a valid partial embedding that reconstruct returns; Proofs/DPInv.v, DPWalk.v:
   the back-pointer walk terminates at strictly increasing matching columns), for every configuration.
   Together with C02_linear_witness all six algorithms are covered. *)
From Coq Require Import Arith NArith List Bool.
From NV Require Import Model.Matcher Spec.Matching Spec.Statements Proofs.WitnessFacts Proofs.DPScoreFacts Proofs.DPFacts.
Import ListNotations.
Local Open Scope N_scope.

(* the caller-visible effect of an indices variant on the caller's vector *)
Definition indices_after (prior : list N) (o : outcome) : list N :=
  match o with Match _ idx => prior ++ idx | _ => prior end.

Theorem C02_linear_witness : C02_linear_witness_stmt.
Proof. exact WitnessFacts.C02_linear_witness. Qed.

Theorem C02_shape : C02_shape_stmt.
Proof. exact WitnessFacts.C02_shape. Qed.

(* a failed match appends nothing; a successful one keeps the prior content as a prefix *)
Theorem C02_prior_untouched : forall prior o,
  (forall s idx, o <> Match s idx) -> indices_after prior o = prior.
Proof. intros prior o H. destruct o; try reflexivity. exfalso. exact (H _ _ eq_refl). Qed.
Theorem C02_prior_prefix : forall prior s idx, firstn (length prior) (indices_after prior (Match s idx)) = prior.
Proof. intros. cbn [indices_after]. rewrite firstn_app, Nat.sub_diag, firstn_all. cbn. apply app_nil_r. Qed.

(* the DP (reconstruct_optimal_path) reports a valid embedding, for every configuration *)
Theorem C02_dp_witness : DP_witness_stmt.
Proof. exact DPFacts.DP_witness. Qed.

Example C02_nonvacuous :
  let cfg := config_of preset_default true true false in
  let hs := {| rp := Unicode; cs := [102; 246; 246; 47; 66; 228; 114] |} in
  let ns := {| rp := Ascii; cs := [102; 98; 114] |} in
  needle_ok cfg (rp ns) (cs ns) = true /\
  match run cfg FuzzyGreedy hs ns with Match _ idx => idx = [0; 4; 6] | _ => False end.
Proof. vm_compute. split; reflexivity. Qed.

Print Assumptions C02_linear_witness.
Print Assumptions C02_shape.
Print Assumptions C02_dp_witness.
Print Assumptions C02_prior_untouched.
Print Assumptions C02_prior_prefix.
