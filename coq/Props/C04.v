(* C04 -- Fuzzy ranking quality.
   Proved so far: the candidate search behind one-character needles and substring matching returns the
   leftmost candidate with the maximal bonus (C04_best_pos) and its early exit is sound because no bonus
   exceeds Config::max_bonus (C04_max_bonus) - the clause that was false under the path configuration
   before the fix; the prefix bonus of the linear scorers lies in [0, 8] (C04_prefix_linear).
   PARTIAL: "never above the true optimum" (C04_upper_stmt), the one-character optimum in its final
   form (C04_single_stmt) and "never below the naive recurrence" need the DP invariant and are validated
   by the brute-force oracle (all alignments, haystack <= 9) and the prefer_prefix on/off pairing. *)
From Coq Require Import NArith List Bool.
From NV Require Import Model.Matcher Spec.Matching Spec.Statements Proofs.C05Facts Proofs.ScoreFacts.
Import ListNotations.
Local Open Scope N_scope.

Theorem C04_best_pos : C04_best_pos_stmt.
Proof. exact C05Facts.C04_best_pos. Qed.

Theorem C04_max_bonus : C04_max_bonus_stmt.
Proof. exact C05Facts.C04_max_bonus. Qed.

Theorem C04_prefix_linear : C04_prefix_linear_stmt.
Proof. exact ScoreFacts.C04_prefix_linear. Qed.

(* the matrix path is taken within the documented limits (100 KiB cells, needle 2048, haystack 65535):
   the translated guard of MatrixSlab::alloc is the documented one *)
Theorem C04_slab_guard : forall hl nl, alloc_refuses hl nl = spec_matrix_refuses hl nl.
Proof. reflexivity. Qed.

Example C04_nonvacuous :
  let cfg := config_of preset_match_paths true true false in
  run cfg Fuzzy {| rp := Ascii; cs := [32; 97; 47; 97] |} {| rp := Ascii; cs := [97] |} = Match 34 [3].
Proof. vm_compute. reflexivity. Qed.

Print Assumptions C04_best_pos.
Print Assumptions C04_max_bonus.
Print Assumptions C04_prefix_linear.
Print Assumptions C04_slab_guard.
