(* C04 -- Fuzzy ranking quality.
   Proved: the candidate search behind one-character needles and substring matching returns the
   leftmost candidate with the maximal bonus (C04_best_pos) and its early exit is sound because no bonus
   exceeds Config::max_bonus (C04_max_bonus) - the clause that was false under the path configuration
   before the fix; the prefix bonus of the linear scorers lies in [0, 8] (C04_prefix_linear).
   C04_upper: the optimal matcher's score never exceeds the maximum of the scheme over all alignments
   (the DP is NOT always optimal: "aaaAba"/"aba" scores 67 while [3;4;5] scores 68 - consistent with the
   property); C04_single: for a one-character needle it equals that maximum.
   C04_recurrence: on the matrix path the score is never below the documented two-matrix recurrence evaluated
   naively over the whole haystack (Proofs/RecurrenceFacts.v).  The prefix-preference bounds are proved
   outside known finding K2 (C04_prefix_outside_K2) and refuted inside it (C04_prefix_refuted).  Nothing in
   this file is validated only by the oracle. *)
From Coq Require Import NArith List Bool.
From NV Require Import Model.Matcher Spec.Matching Spec.Statements Proofs.C05Facts Proofs.ScoreFacts Proofs.DPSingle Proofs.DPScoreFacts Proofs.PrefixFacts Proofs.RecurrenceFacts.
Import ListNotations.
Local Open Scope N_scope.

Theorem C04_best_pos : C04_best_pos_stmt.
Proof. exact C05Facts.C04_best_pos. Qed.

Theorem C04_max_bonus : C04_max_bonus_stmt.
Proof. exact C05Facts.C04_max_bonus. Qed.

Theorem C04_prefix_linear : C04_prefix_linear_stmt.
Proof. exact ScoreFacts.C04_prefix_linear. Qed.

(* never above the maximum over ALL alignments (brute-force enumeration, proved complete) *)
Theorem C04_upper : C04_upper_stmt.
Proof. exact DPScoreFacts.C04_upper. Qed.

(* one-character needle: the best-placed occurrence wins, for every configuration (incl. paths) *)
Theorem C04_single : C04_single_stmt.
Proof. exact DPSingle.C04_single. Qed.

(* prefix preference.  KNOWN FINDING K2: the clause "turning prefix preference on never lowers a score
   and raises it by at most the prefix bonus" is FALSE for the optimal matcher on the matrix path with
   needles of three or more characters (C04_prefix_refuted, machine-checked witnesses that the real code
   reproduces: "xxxxxxxxxxx/axAbc"/"abc" scores 68 without and 67 with the preference;
   "a" + 18 x + "aBcd"/"abcd" scores 77 and 86).  It holds everywhere else: all five linear algorithms,
   every fuzzy call answered by the exact / single-character / tight-window / greedy-fallback paths, and
   the matrix path for two-character needles (C04_prefix_outside_K2); `dp_taken` is the executable
   Known predicate. *)
Definition known_K2 (cfg : config) (a : algo) (hs ns : ustr) : Prop :=
  a = Fuzzy /\ (3 <= length (cs ns))%nat /\ dp_taken cfg hs ns = true.
Theorem C04_prefix_outside_K2 :
  forall cfg a hs ns s0 i0 s1 i1, bonus_bounded cfg -> ~ known_K2 cfg a hs ns ->
    run (with_prefix cfg false) a hs ns = Match s0 i0 -> run (with_prefix cfg true) a hs ns = Match s1 i1 ->
    s0 <= s1 /\ s1 <= s0 + 8.
Proof.
  intros cfg a hs ns s0 i0 s1 i1 Hb HK H0 H1.
  apply (PrefixFacts.C04_prefix_weak cfg a hs ns s0 i0 s1 i1 Hb); [|exact H0|exact H1].
  intros ->. destruct (dp_taken cfg hs ns) eqn:D; [|right; reflexivity].
  left. destruct (Compare_dec.le_lt_dec (length (cs ns)) 2) as [L|L]; [exact L|].
  exfalso. apply HK. repeat split; [exact L|exact D].
Qed.
Theorem C04_prefix_refuted : ~ C04_prefix_stmt.
Proof. exact PrefixFacts.C04_prefix_counterexample. Qed.

(* on the matrix path the optimal matcher's score is never below the documented two-matrix recurrence
   evaluated naively over the whole haystack (Spec/Matching.naive_score) *)
Theorem C04_recurrence : C04_recurrence_stmt.
Proof. exact RecurrenceFacts.C04_recurrence. Qed.

(* the matrix path is taken within the documented limits (100 KiB cells, needle 2048, haystack 65535):
   the translated guard of MatrixSlab::alloc is the documented one *)
Theorem C04_slab_guard : forall hl nl, alloc_refuses hl nl = spec_matrix_refuses hl nl.
Proof. reflexivity. Qed.

Example C04_nonvacuous :
  let cfg := config_of preset_match_paths true true false in
  run cfg Fuzzy {| rp := Ascii; cs := [32; 97; 47; 97] |} {| rp := Ascii; cs := [97] |} = Match 34 [3].
Proof. vm_compute. reflexivity. Qed.

Print Assumptions C04_best_pos.
Print Assumptions C04_max_bonus.
Print Assumptions C04_prefix_linear.
Print Assumptions C04_upper.
Print Assumptions C04_single.
Print Assumptions C04_prefix_outside_K2.
Print Assumptions C04_prefix_refuted.
Print Assumptions C04_slab_guard.
Print Assumptions C04_recurrence.
