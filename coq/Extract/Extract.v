(* Extraction of the executable models to OCaml for the correspondence checks.
   Directives in use: those of ExtrOcamlBasic only (bool, option, unit, list, prod, sumbool mapped to
   OCaml's types).  No Extract Constant, no Extract Inductive of our own; N / positive / nat stay Coq's
   inductives. *)
Require Extraction.
Require ExtrOcamlBasic.
From NV Require Import Model.Chars Model.Matcher Spec.Matching Spec.Statements Model.Boxcar.
From NV Require Import Model.Utf32.
From NV Require Import Model.PatternScore.
From NV Require Import Model.PatternParse Spec.PatternParseSpec.
From NV Require Import Spec.AppendSpec.
From NV Require Import Model.Nucleo.
From NV Require Import Model.ParSort.

Extraction Language OCaml.
Extraction "nv.ml" config_of preset_default preset_match_paths preset_set_match_paths
  to_lower is_upper normalize norm class class_norm cls_rank wf_char
  run bonus_for layout_size slab_alloc_ok
  nh subseq_b embedding_b contiguous_from fzf_score occurs spec_substring_pos spec_lead spec_trail best_score
  naive_score spec_bonus_at spec_bonus_cfg needle_ok spec_prefix spec_postfix spec_exact
  has_ascii_graphemes graphemes utf32str_new utf32string_from_str utf32string_from_box utf32string_from_string utf32string_from_cow utf32str_len utf32str_is_empty utf32str_is_ascii utf32string_len utf32string_is_empty utf32str_slice utf32str_slice_u32 utf32string_slice utf32string_slice_u32 utf32str_get utf32str_first utf32str_last utf32str_chars chars_drive chars_collect chars_collect_back utf32str_display utf32str_debug utf32string_display utf32string_debug
  atom_score atom_indices pattern_score pattern_indices multi_score atom_match_list pattern_match_list set_flags algo_of_kind
  pattern_parse pattern_new pattern_reparse atom_new atom_parse crlf seg_table seg_simple
  escape escapable literal_atom marker_text lead_ok tail_ok tbl_negative tbl_kind tbl_source tbl_dollar
  spec_atoms fold_if spec_ignore_case spec_normalize is_ascii
  par_quicksort_model par_quicksort partition_in_blocks pib_spec worker_less r_flag r_list r_loads r_trace
  insertion_sort heapsort partial_insertion_sort partition_equal choose_pivot break_patterns
  dp_taken
  update_allowed last_fold_norm_ok pattern_matches
  layout_offsets view_lengths
  init_state count do_event step_thread lookup location_of
  Nucleo.init_nstate Nucleo.do_event Nucleo.enabled_tick Nucleo.enabled_config Nucleo.active_injectors Nucleo.count_of Nucleo.published.
