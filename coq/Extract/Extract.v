(* Extraction of the executable models to OCaml for the correspondence checks.
   Directives in use: those of ExtrOcamlBasic only (bool, option, unit, list, prod, sumbool mapped to
   OCaml's types).  No Extract Constant, no Extract Inductive of our own; N / positive / nat stay Coq's
   inductives. *)
Require Extraction.
Require ExtrOcamlBasic.
From NV Require Import Model.Chars.
Extraction Language OCaml.
Extraction "nv.ml" config_of preset_default preset_match_paths preset_set_match_paths
  to_lower is_upper normalize norm class class_norm cls_rank wf_char.
