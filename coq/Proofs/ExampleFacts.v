(* Non-vacuity examples for C06, C07, C11, C12, C19: for each theorem a CONCRETE, non-trivial history /
   state that meets its hypotheses, with the concrete values it talks about computed, and the theorem
   instantiated at that state.  An implication whose premises no reachable state satisfies means nothing;
   these examples show that the premises are satisfiable by states with several items, an item that is
   reserved but not yet published, non-empty patterns, append and non-append edits, installed snapshots,
   a restart, and (boxcar) lying ExactSizeIterators, panicking fills and a crossed bucket boundary.
   Everything is proved by computation on closed terms; no axioms. *)
From Coq Require Import NArith List Bool Lia Sorting.Sorted.
From NV Require Import Model.Nucleo Spec.NucleoStatements Proofs.SnapshotFacts Proofs.NucleoFacts.
From NV Require Model.Boxcar Spec.BoxcarStatements Proofs.DropFacts.
Import ListNotations.
Import Nucleo.
Local Open Scope N_scope.

(* ==== the concrete score / length functions ============================================================
   pattern 1 ("a")   matches every item but #2, score 10 + i
   pattern 2 ("ab")  refines pattern 1: additionally rejects #0, score 40 - i (so the order is reversed)
   pattern 3 ("x")   unrelated: rejects #1 only; scores 5 / 6 by parity, so there are score ties that the
                     length (3 / 4 by parity) and then the index have to break
   any other non-empty pattern matches nothing. *)
Definition sc (p sid i : N) : option N :=
  match p with
  | 1 => if i =? 2 then None else Some (10 + i)
  | 2 => if (i =? 2) || (i =? 0) then None else Some (40 - i)
  | 3 => if i =? 1 then None else Some (5 + i mod 2)
  | _ => None
  end.
Definition ln (sid i : N) : N := 3 + i mod 2.

Lemma refines_any_empty p : refines sc p 0.
Proof. intros sid i _. unfold score_of. cbn. discriminate. Qed.
Lemma refines_2_1 : refines sc 2 1.
Proof.
  intros sid i. unfold score_of. cbn.
  destruct (i =? 2); cbn; [congruence|]. destruct (i =? 0); cbn; congruence.
Qed.
(* ... and the hint would be a lie the other way round: pattern 1 matches #0, pattern 2 does not *)
Lemma not_refines_1_2 : ~ refines sc 1 2.
Proof. intros H. apply (H 0 0); [discriminate | reflexivity]. Qed.

(* ---- checking `truthful` on a concrete history: collect the (new, old) pairs of the append edits ---- *)
Fixpoint append_edits (s : nstate) (es : list event) : list (N * N) :=
  match es with
  | [] => []
  | e :: es' =>
    (match e with EEdit p true _ => [(p, ui_pat s)] | _ => [] end) ++ append_edits (do_event sc ln s e) es'
  end.
Lemma truthful_of_edits : forall es s,
  Forall (fun pq => refines sc (fst pq) (snd pq)) (append_edits s es) -> truthful sc ln s es.
Proof.
  induction es as [|e es IH]; intros s H; cbn [truthful]; [exact I|].
  cbn [append_edits] in H. apply Forall_app in H. destruct H as [H1 H2]. split; [|apply IH; exact H2].
  destruct e; try exact I. destruct append; [|exact I]. inversion H1; subst. assumption.
Qed.

Ltac wf_tac :=
  vm_compute; repeat split;
  first [ exact I | reflexivity | left; reflexivity | right; left; reflexivity
        | let H := fresh in intros H; intuition discriminate ].
Ltac truthful_tac :=
  apply truthful_of_edits;
  match goal with |- Forall ?P ?l => let v := eval vm_compute in l in change (Forall P v) end;
  repeat (constructor; [first [exact (refines_any_empty _) | exact refines_2_1]|]); constructor.
Ltac cap_tac s :=
  let sid := fresh "sid" in
  intro sid; unfold count_of;
  let v := eval vm_compute in (streams s) in change (streams s) with v;
  cbn [stream_of];
  repeat (match goal with |- context [?a =? sid] => destruct (a =? sid) end);
  vm_compute; discriminate.

(* ---- the phases of a tick with a long timeout, as event lists ------------------------------------------
   tick begins; the cancel flag is stored; the lock is taken and the body decides to run; the run is
   spawned; the run scans (seeing the indices `seen` as initialised, `e` = the count it read), sorts,
   ends and releases the lock.  The NEXT UI step picks the result up. *)
Definition tick_to_pickup (seen : list N) (e : N) : list event :=
  [ETickBegin false; ETick; ETick; ETick; ERun seen e; ERun [] 0; ERun [] 0].
(* the pool closure after the unlock: read the notify flag, (notify,) done *)
Definition post_steps : list event := [ERun [] 0; ERun [] 0; ERun [] 0].
Definition full_tick (seen : list N) (e : N) : list event := tick_to_pickup seen e ++ [ETick] ++ post_steps.

(* ==== C06 ================================================================================================
   One injector; five reservations published out of order, #3 left reserved-but-unpublished; an edit to
   the non-empty pattern 1; a tick whose run is picked up (snapshot installed) and which, because #3 is
   still in flight, spawns a second run and returns (changed, running) = (true, true).  Final state: UI
   idle, the second run parked at run.start holding the lock. *)
Definition es06 : list event :=
  [ENewInjector 7; EReserve 0; EReserve 0; EPublish 0 1; EReserve 0; EPublish 0 0; EReserve 0; EReserve 0;
   EPublish 0 2; EPublish 0 4; EEdit 1 true false] ++ full_tick [0; 1; 2; 3; 4] 5 ++ [ETick].
Definition s06 : nstate := run_events sc ln init_nstate es06.

Lemma wf06 : wf_events sc ln init_nstate es06.
Proof. wf_tac. Qed.
Lemma truthful06 : truthful sc ln init_nstate es06.
Proof. truthful_tac. Qed.
Lemma rt06 : reachable_truthful sc ln s06.
Proof. exists es06. split; [exact wf06 | split; [exact truthful06 | reflexivity]]. Qed.
Lemma cap06 : within_capacity s06.
Proof. cap_tac s06. Qed.

Example C06_nonvacuous :
  (* the hypotheses *)
  wf_events sc ln init_nstate es06 /\ truthful sc ln init_nstate es06 /\ within_capacity s06 /\
  (* the state is not trivial *)
  snap s06 = {| sn_count := 4;
                sn_matches := [ {| m_score := 14; m_idx := 4 |}; {| m_score := 11; m_idx := 1 |};
                                {| m_score := 10; m_idx := 0 |} ];
                sn_pat := 1; sn_sid := 0 |} /\
  3 <= sn_count (snap s06) /\
  stream_of 0 (streams s06) = [true; true; true; false; true] /\      (* #3 reserved, never published *)
  published s06 0 3 = false /\
  w_in_flight (wk s06) = [3] /\ lock s06 = HeldRun RStart Unchanged false /\   (* a run is in progress *)
  tpc s06 = TIdle /\ last_tick s06 = Some (true, true) /\
  (* the theorem at this state: the four conjuncts of C06_snapshot_weak_stmt *)
  (let sn := snap s06 in
    NoDup (map m_idx (sn_matches sn)) /\
    (forall m, In m (sn_matches sn) ->
       m_idx m <> PLACEHOLDER /\ published s06 (sn_sid sn) (m_idx m) = true /\
       score_of sc (sn_pat sn) (sn_sid sn) (m_idx m) = Some (m_score m)) /\
    (exists proc : list N,
       NoDup proc /\ lenN proc = sn_count sn /\
       (forall i, In i proc -> published s06 (sn_sid sn) i = true) /\
       (forall m, In m (sn_matches sn) -> In (m_idx m) proc) /\
       (forall i, In i proc -> score_of sc (sn_pat sn) (sn_sid sn) i <> None -> In i (map m_idx (sn_matches sn)))) /\
    (if pat_is_empty (sn_pat sn) then StronglySorted (fun a b => m_idx a <= m_idx b) (sn_matches sn)
     else StronglySorted (key_le ln (sn_sid sn)) (sn_matches sn))).
Proof.
  split; [exact wf06|]. split; [exact truthful06|]. split; [exact cap06|].
  split; [vm_compute; reflexivity|]. split; [vm_compute; discriminate|].
  split; [vm_compute; reflexivity|]. split; [vm_compute; reflexivity|].
  split; [vm_compute; reflexivity|]. split; [vm_compute; reflexivity|].
  split; [vm_compute; reflexivity|]. split; [vm_compute; reflexivity|].
  exact (SnapshotFacts.C06_snapshot_weak sc ln s06 rt06 cap06).
Qed.

(* ==== C07 ================================================================================================
   Four items published, edit to pattern 1 (append = true, from the empty pattern), a full tick; edit to
   pattern 2 (append = true, truthful: refines_2_1), a full tick (the Update path: the current matches
   are rescored); the injector is cloned, a fifth item is pushed through it, the original handle is
   dropped; edit to the unrelated pattern 3 (append = false: Rescore), a full tick.  Final state:
   quiescent. *)
Definition es07a : list event :=
  [ENewInjector 7; EReserve 0; EReserve 0; EPublish 0 1; EReserve 0; EPublish 0 0; EReserve 0;
   EPublish 0 2; EPublish 0 3; EEdit 1 true false] ++ full_tick [0; 1; 2; 3] 4 ++
  [EEdit 2 true false] ++ full_tick [0; 1; 2; 3] 4 ++
  [ECloneInjector 7 8; EReserve 0; EPublish 0 4; EDropInjector 7; EEdit 3 false false] ++
  tick_to_pickup [0; 1; 2; 3; 4] 5.
Definition es07 : list event := es07a ++ [ETick] ++ post_steps.
Definition s07 : nstate := run_events sc ln init_nstate es07.
(* the snapshots after the first and the second tick *)
Definition s07_tick1 : nstate := run_events sc ln init_nstate (firstn 21 es07).
Definition s07_tick2 : nstate := run_events sc ln init_nstate (firstn 33 es07).

Lemma wf07 : wf_events sc ln init_nstate es07.
Proof. wf_tac. Qed.
Lemma truthful07 : truthful sc ln init_nstate es07.
Proof. truthful_tac. Qed.
Lemma rt07 : reachable_truthful sc ln s07.
Proof. exists es07. split; [exact wf07 | split; [exact truthful07 | reflexivity]]. Qed.
Lemma reach07 : reachable sc ln s07.
Proof. exists es07. split; [exact wf07 | reflexivity]. Qed.
Lemma cap07 : within_capacity s07.
Proof. cap_tac s07. Qed.
Lemma quiescent07 : quiescent s07.
Proof.
  unfold quiescent, ui_idle. repeat split; try (vm_compute; reflexivity).
  exists true. vm_compute. reflexivity.
Qed.

Example C07_nonvacuous :
  (* the hypotheses *)
  wf_events sc ln init_nstate es07 /\ truthful sc ln init_nstate es07 /\ within_capacity s07 /\ quiescent s07 /\
  (* the history has an append = true edit of a non-empty pattern and an append = false edit *)
  In (EEdit 2 true false) es07 /\ In (EEdit 3 false false) es07 /\
  append_edits init_nstate es07 = [(1, 0); (2, 1)] /\
  (* the intermediate snapshots (after the 1st / 2nd tick) and the final one *)
  sn_matches (snap s07_tick1) = [ {| m_score := 13; m_idx := 3 |}; {| m_score := 11; m_idx := 1 |};
                                  {| m_score := 10; m_idx := 0 |} ] /\
  sn_matches (snap s07_tick2) = [ {| m_score := 39; m_idx := 1 |}; {| m_score := 37; m_idx := 3 |} ] /\
  snap s07 = {| sn_count := 5;
                sn_matches := [ {| m_score := 6; m_idx := 3 |}; {| m_score := 5; m_idx := 0 |};
                                {| m_score := 5; m_idx := 2 |}; {| m_score := 5; m_idx := 4 |} ];
                sn_pat := 3; sn_sid := 0 |} /\
  stream_of 0 (streams s07) = [true; true; true; true; true] /\ last_tick s07 = Some (true, false) /\
  from_scratch_idx sc s07 (ui_pat s07) (cur s07) = [0; 2; 3; 4] /\
  (* the theorem at this state *)
  (let sn := snap s07 in
    sn_sid sn = cur s07 /\ sn_pat sn = ui_pat s07 /\ sn_count sn = count_of s07 (cur s07) /\
    (forall i, In i (map m_idx (sn_matches sn)) <-> In i (from_scratch_idx sc s07 (ui_pat s07) (cur s07)))).
Proof.
  split; [exact wf07|]. split; [exact truthful07|]. split; [exact cap07|]. split; [exact quiescent07|].
  split; [vm_compute; tauto|]. split; [vm_compute; tauto|].
  split; [vm_compute; reflexivity|]. split; [vm_compute; reflexivity|].
  split; [vm_compute; reflexivity|]. split; [vm_compute; reflexivity|].
  split; [vm_compute; reflexivity|]. split; [vm_compute; reflexivity|].
  split; [vm_compute; reflexivity|].
  exact (SnapshotFacts.C07_converges_weak sc ln s07 rt07 cap07 quiescent07).
Qed.

(* ==== C12 ================================================================================================
   The quiescent state s07 (non-empty snapshot, UI idle) is restarted both ways.  Then, after a
   restart(false): a new injector of stream 1 pushes three items (a fourth stays in flight) while the
   OLD injector (handle 8, stream 0) keeps pushing; a tick runs up to the step that installs the new
   stream's snapshot. *)
Definition es12 : list event :=
  es07 ++ [ERestart false; ENewInjector 9; EReserve 1; EReserve 1; EReserve 0; EPublish 1 1; EPublish 1 0;
           EReserve 1; EPublish 0 5; EReserve 1; EPublish 1 2] ++ tick_to_pickup [0; 1; 2] 4.
Definition s12 : nstate := run_events sc ln init_nstate es12.

Lemma reach12 : reachable sc ln s12.
Proof. exists es12. split; [wf_tac | reflexivity]. Qed.

Example C12_nonvacuous :
  (* premises of C12_restart_stmt at a state with a non-empty snapshot *)
  reachable sc ln s07 /\ ui_idle s07 /\ length (sn_matches (snap s07)) = 4%nat /\ next_sid s07 = 1 /\
  (* restart(true): emptied and re-targeted; restart(false): untouched *)
  snap (do_event sc ln s07 (ERestart true)) = {| sn_count := 0; sn_matches := []; sn_pat := 3; sn_sid := 1 |} /\
  cur (do_event sc ln s07 (ERestart true)) = 1 /\
  snap (do_event sc ln s07 (ERestart false)) = snap s07 /\
  sn_sid (snap (do_event sc ln s07 (ERestart false))) = 0 /\ cur (do_event sc ln s07 (ERestart false)) = 1 /\
  (* the theorem at this state, both ways *)
  (forall clear,
    let s' := do_event sc ln s07 (ERestart clear) in
    cur s' = next_sid s07 /\ (forall sid, sid < next_sid s07 -> cur s' <> sid) /\
    (if clear then snap s' = {| sn_count := 0; sn_matches := []; sn_pat := sn_pat (snap s07); sn_sid := cur s' |}
     else snap s' = snap s07)) /\
  (* premises of C12_pickup_current_stmt: a reachable state, after a restart, where the tick step
     installs a new snapshot *)
  reachable sc ln s12 /\ snap (do_event sc ln s12 ETick) <> snap s12 /\
  snap s12 = snap s07 /\ cur s12 = 1 /\
  streams s12 = [(0, [true; true; true; true; true; true]); (1, [true; true; true; false])] /\
  snap (do_event sc ln s12 ETick) =
    {| sn_count := 3; sn_matches := [ {| m_score := 5; m_idx := 0 |}; {| m_score := 5; m_idx := 2 |} ];
       sn_pat := 3; sn_sid := 1 |} /\
  (* the theorem at this state *)
  sn_sid (snap (do_event sc ln s12 ETick)) = cur s12.
Proof.
  assert (Hne : snap (do_event sc ln s12 ETick) <> snap s12).
  { intros H. apply (f_equal sn_sid) in H. vm_compute in H. discriminate H. }
  split; [exact reach07|]. split; [vm_compute; reflexivity|].
  split; [vm_compute; reflexivity|]. split; [vm_compute; reflexivity|].
  split; [vm_compute; reflexivity|]. split; [vm_compute; reflexivity|].
  split; [vm_compute; reflexivity|]. split; [vm_compute; reflexivity|].
  split; [vm_compute; reflexivity|].
  split; [intros clear; apply (NucleoFacts.C12_restart sc ln s07 clear reach07); vm_compute; reflexivity|].
  split; [exact reach12|]. split; [exact Hne|].
  split; [vm_compute; reflexivity|]. split; [vm_compute; reflexivity|].
  split; [vm_compute; reflexivity|]. split; [vm_compute; reflexivity|].
  exact (NucleoFacts.C12_pickup_current sc ln s12 reach12 Hne).
Qed.

(* ==== C19 ================================================================================================
   (a) changed = false, running = false: a tick(0) on the quiescent state s07 - nothing to do, the
       snapshot (4 matches) is the one from before the call;
   (b) changed = true, running = false: the last tick of es07 at the step where it picks the finished run
       up and returns; five items of the current stream had been published when it began;
   (c) changed = false, running = true: a tick(0) on s06 while the second run holds the lock - try_lock
       fails, the flag is re-armed, the lock is still held: the tick times out. *)
Definition s19a : nstate := run_events sc ln init_nstate (es07 ++ [ETickBegin true; ETick]).
Definition s19b : nstate := run_events sc ln init_nstate es07a.
Definition s19c : nstate := run_events sc ln init_nstate (es06 ++ [ETickBegin true; ETick; ETick; ETick]).

Lemma reach19a : reachable sc ln s19a.
Proof. eexists. split; [|reflexivity]. wf_tac. Qed.
Lemma reach19b : reachable sc ln s19b.
Proof. eexists. split; [|reflexivity]. wf_tac. Qed.
Lemma reach19c : reachable sc ln s19c.
Proof. eexists. split; [|reflexivity]. wf_tac. Qed.

Ltac tick_returns_tac :=
  split; [vm_compute; discriminate | split; [reflexivity | split; vm_compute; reflexivity]].

Lemma tr19a : tick_returns sc ln s19a (do_event sc ln s19a ETick) (false, false).
Proof. tick_returns_tac. Qed.
Lemma tr19b : tick_returns sc ln s19b (do_event sc ln s19b ETick) (true, false).
Proof. tick_returns_tac. Qed.
Lemma tr19c : tick_returns sc ln s19c (do_event sc ln s19c ETick) (false, true).
Proof. tick_returns_tac. Qed.

Example C19_nonvacuous :
  (* (a) *)
  (let s' := do_event sc ln s19a ETick in
   reachable sc ln s19a /\ tick_returns sc ln s19a s' (false, false) /\
   tpc s19a = TBeforeTry false false true /\
   sn_matches (snap s') = [ {| m_score := 6; m_idx := 3 |}; {| m_score := 5; m_idx := 0 |};
                            {| m_score := 5; m_idx := 2 |}; {| m_score := 5; m_idx := 4 |} ] /\
   (* the theorems at this state *)
   snap s' = g_snap_begin s' /\
   (g_pub_begin s' <= sn_count (snap s') /\ sn_pat (snap s') = ui_pat s' /\ sn_sid (snap s') = cur s')) /\
  (* (b) *)
  (let s' := do_event sc ln s19b ETick in
   reachable sc ln s19b /\ tick_returns sc ln s19b s' (true, false) /\
   g_pub_begin s' = 5 /\ 0 < g_pub_begin s' /\
   sn_matches (snap s19b) = [ {| m_score := 39; m_idx := 1 |}; {| m_score := 37; m_idx := 3 |} ] /\
   sn_matches (snap s') = [ {| m_score := 6; m_idx := 3 |}; {| m_score := 5; m_idx := 0 |};
                            {| m_score := 5; m_idx := 2 |}; {| m_score := 5; m_idx := 4 |} ] /\
   snap s' <> g_snap_begin s' /\                    (* changed = true tells the truth here, too *)
   (* the theorem at this state *)
   (g_pub_begin s' <= sn_count (snap s') /\ sn_pat (snap s') = ui_pat s' /\ sn_sid (snap s') = cur s')) /\
  (* (c) *)
  (let s' := do_event sc ln s19c ETick in
   reachable sc ln s19c /\ tick_returns sc ln s19c s' (false, true) /\
   tpc s19c = TAfterRearm false false /\ lock s19c = HeldRun RStart Unchanged false /\
   length (sn_matches (snap s')) = 3%nat /\ should_notify s' = true /\ g_owed s' = true /\
   (* the theorem at this state *)
   snap s' = g_snap_begin s').
Proof.
  split; [|split]; cbv zeta.
  - split; [exact reach19a|]. split; [exact tr19a|].
    split; [vm_compute; reflexivity|]. split; [vm_compute; reflexivity|].
    split; [exact (NucleoFacts.C19_unchanged sc ln _ _ _ reach19a tr19a)|].
    exact (NucleoFacts.C19_idle sc ln _ _ _ reach19a tr19a).
  - split; [exact reach19b|]. split; [exact tr19b|].
    split; [vm_compute; reflexivity|]. split; [vm_compute; reflexivity|].
    split; [vm_compute; reflexivity|]. split; [vm_compute; reflexivity|].
    split; [intros H; apply (f_equal sn_count) in H; vm_compute in H; discriminate H|].
    exact (NucleoFacts.C19_idle sc ln _ _ _ reach19b tr19b).
  - split; [exact reach19c|]. split; [exact tr19c|].
    split; [vm_compute; reflexivity|]. split; [vm_compute; reflexivity|].
    split; [vm_compute; reflexivity|]. split; [vm_compute; reflexivity|].
    split; [vm_compute; reflexivity|].
    exact (NucleoFacts.C19_unchanged sc ln _ _ _ reach19c tr19c).
Qed.

(* ==== C11 ================================================================================================
   Boxcar history (initial capacity 0: only bucket 0, indices 0..31, is allocated):
     t1  push 100                                    -> index 0, interleaved with
     t2  extend, the iterator CLAIMS 31 items but yields 101, 102, 103
                                                     -> indices 1..3; 4..31 reserved and never written
     t3  push 104                                    -> index 32: the first index of bucket 1, which the
                                                        push has to allocate itself (bucket boundary crossed)
     t4  push 105 whose fill panics                  -> index 33 reserved, 105 dropped by unwinding
     t5  extend, the iterator claims 1 item but yields 106, 107
                                                     -> 106 at index 34, then assert!(i < count): 107 dropped
     t6  extend of 108, 109, 110 (honest length 3) whose fill panics at the second item
                                                     -> 108 at index 35, 109 and 110 dropped by unwinding
   then every thread has finished and the owner drops the vector. *)
Module C11Example.
Import Boxcar BoxcarStatements.

Definition steps (t : N) (n : nat) : list event := repeat (Step t) n.
Definition es11 : list event :=
  [Spawn 1 (PushStart 100 false); Step 1; Spawn 2 (ExtStart 31 [101; 102; 103] None); Step 2; Step 1; Step 2; Step 1]
  ++ steps 2 3 ++
  [Spawn 3 (PushStart 104 false)] ++ steps 3 4 ++
  [Spawn 4 (PushStart 105 true)] ++ steps 4 2 ++
  [Spawn 5 (ExtStart 1 [106; 107] None)] ++ steps 5 3 ++
  [Spawn 6 (ExtStart 3 [108; 109; 110] (Some 1))] ++ steps 6 3.
Definition s11 : vstate := fst (run_events (init_state 0) es11).

Fixpoint nodupb (l : list N) : bool :=
  match l with [] => true | x :: l' => negb (existsb (N.eqb x) l') && nodupb l' end.
Lemma nodupb_sound l : nodupb l = true -> NoDup l.
Proof.
  induction l as [|x l IH]; cbn [nodupb]; intros H; constructor.
  - apply andb_true_iff in H. destruct H as [H _]. apply negb_true_iff in H.
    intros Hin. assert (E : existsb (N.eqb x) l = true) by (apply existsb_exists; exists x; split; [exact Hin | apply N.eqb_refl]).
    congruence.
  - apply IH. apply andb_true_iff in H. tauto.
Qed.

Lemma wf11 : wf_history es11.
Proof.
  unfold wf_history. split; [|split; [|split]].
  - assert (H : Forall (fun e => match e with Spawn _ p => is_start p = true | _ => True end) es11)
      by (vm_compute; repeat constructor).
    intros t p Hin. rewrite Forall_forall in H. exact (H _ Hin).
  - apply nodupb_sound. vm_compute. reflexivity.
  - apply nodupb_sound. vm_compute. reflexivity.
  - assert (H : Forall (fun e => e <> DropVec) es11) by (vm_compute; repeat constructor; discriminate).
    intros e Hin. rewrite Forall_forall in H. exact (H _ Hin).
Qed.
Lemma finished11 : all_finished s11.
Proof.
  intros t p Hin.
  assert (H : Forall (fun tp => thread_finished (snd tp) = true) (threads s11)) by (vm_compute; repeat constructor).
  rewrite Forall_forall in H. exact (H _ Hin).
Qed.
Lemma small11 : small s11.
Proof. vm_compute. reflexivity. Qed.
Lemma reach11 : BoxcarStatements.reachable s11.
Proof. exists 0, es11. split; [exact wf11 | reflexivity]. Qed.

Example C11_nonvacuous :
  (* the hypotheses of C11_exactly_once_stmt *)
  wf_history es11 /\ all_finished s11 /\ small s11 /\ drop_stops_at_null = false /\
  (* the history is not trivial: eleven values; three operations panicked; a bucket boundary crossed *)
  all_values es11 = [100; 101; 102; 103; 104; 105; 106; 107; 108; 109; 110] /\
  threads s11 = [(1, Done (Some 0)); (2, Done None); (3, Done (Some 32)); (4, TPanicked); (5, TPanicked); (6, TPanicked)] /\
  inflight s11 = 38 /\ allocated s11 = [1; 0] /\
  l_bucket (location_of 3) = 0 /\ l_bucket (location_of 32) = 1 /\
  map fst (ents s11) = [0; 1; 2; 3; 32; 34; 35] /\
  (* before the vector is dropped: only the values lost to panics have been dropped *)
  drops s11 = [110; 109; 107; 105] /\
  get s11 32 = Some (104, 209) /\ ~ In 104 (drops s11) /\          (* premise + conclusion of C11_not_early *)
  (* after the drop of the last handle: the concrete drop log - every value exactly once *)
  drops (fst (drop_vec s11)) = [100; 101; 102; 103; 104; 106; 108; 110; 109; 107; 105] /\
  (* the theorems at this history *)
  (forall v, In v (all_values es11) -> count_occ N.eq_dec (drops (fst (drop_vec s11))) v = 1%nat) /\
  (forall v, (count_occ N.eq_dec (drops s11) v <= 1)%nat).
Proof.
  split; [exact wf11|]. split; [exact finished11|]. split; [exact small11|]. split; [reflexivity|].
  split; [vm_compute; reflexivity|]. split; [vm_compute; reflexivity|].
  split; [vm_compute; reflexivity|]. split; [vm_compute; reflexivity|].
  split; [vm_compute; reflexivity|]. split; [vm_compute; reflexivity|].
  split; [vm_compute; reflexivity|]. split; [vm_compute; reflexivity|].
  split; [vm_compute; reflexivity|].
  split; [exact (DropFacts.C11_not_early s11 32 104 209 reach11 eq_refl)|].
  split; [vm_compute; reflexivity|].
  assert (E1 : s11 = fst (run_events (init_state 0) es11)) by (unfold s11; reflexivity).
  assert (E2 : drop_stops_at_null = false) by reflexivity.
  split; [exact (DropFacts.C11_exactly_once 0 es11 s11 wf11 E1 finished11 small11 E2)|].
  intros v. exact (DropFacts.C11_never_twice s11 v reach11).
Qed.
End C11Example.

Print Assumptions C06_nonvacuous.
Print Assumptions C07_nonvacuous.
Print Assumptions C12_nonvacuous.
Print Assumptions C19_nonvacuous.
Print Assumptions C11Example.C11_nonvacuous.
