(* Facts about Model/Utf32.v used by Props/C17.v.  The specification-side vocabulary (crlf_pair,
   all_ascii, seg_ok, cluster_char, range_lo/range_hi/valid_range, yielded) is defined here, in terms of
   plain list operations only (In, ++, concat, map, hd, last, nth, firstn, skipn, rev). *)
From Coq Require Import NArith List Bool Lia ZifyBool ZifyNat ZifyN.
From NV Require Import Model.Matcher Model.Utf32.
Import ListNotations.
Local Open Scope N_scope.

(* ---- specification vocabulary ------------------------------------------------------------------- *)
(* the text contains a carriage return immediately followed by a line feed *)
Definition crlf_pair (s : list N) : Prop := exists a b, s = a ++ 13 :: 10 :: b.
Definition all_ascii (s : list N) : Prop := forall c, In c s -> c < 128.

(* what the theorems assume of the segmentation (UAX #29 facts; validated against the crate by the
   correspondence run): the clusters partition the text and none is empty *)
Definition seg_ok (s : list N) (cl : list (list N)) : Prop :=
  concat cl = s /\ (forall g, In g cl -> g <> []).
(* ... and, needed for the length guarantee of the Ascii form only: an all-ASCII text without a CR LF
   pair has single-code-point clusters (validated exhaustively for all 128^2 ASCII pairs) *)
Definition seg_ascii_singletons (s : list N) (cl : list (list N)) : Prop :=
  all_ascii s -> ~ crlf_pair s -> forall g, In g cl -> exists c, g = [c].

(* the character standing for a cluster: line feed for CR LF, else its first code point *)
Definition cluster_char (g : list N) : N :=
  if list_eq_dec N.eq_dec g [13; 10] then 10 else hd 0 g.

(* the mathematical meaning of a pair of range bounds on a string of length len *)
Definition range_lo (sb : bound) : N :=
  match sb with Included s => s | Excluded s => s + 1 | Unbounded => 0 end.
Definition range_hi (len : N) (eb : bound) : N :=
  match eb with Included e => e + 1 | Excluded e => e | Unbounded => len end.
Definition valid_range (len : N) (sb eb : bound) : Prop :=
  range_lo sb <= range_hi len eb /\ range_hi len eb <= len.
(* content[lo..hi] *)
Definition sub_list (l : list N) (lo hi : N) : list N :=
  firstn (N.to_nat (hi - lo)) (skipn (N.to_nat lo) l).

(* the items a caller of next()/next_back() received from the calls at one end (want = true: front) *)
Fixpoint yielded (want : bool) (sched : list bool) (os : list (option N)) : list N :=
  match sched, os with
  | f :: sr, o :: orest =>
    (if Bool.eqb f want then match o with Some c => [c] | None => [] end else []) ++ yielded want sr orest
  | _, _ => []
  end.

(* ---- has_ascii_graphemes ------------------------------------------------------------------------ *)
Lemma str_is_ascii_spec s : str_is_ascii s = true <-> all_ascii s.
Proof.
  unfold str_is_ascii, all_ascii. rewrite forallb_forall. split; intros H c Hc; specialize (H c Hc); lia.
Qed.

Lemma has_crlf_spec s : has_crlf s = true <-> crlf_pair s.
Proof.
  unfold crlf_pair. induction s as [|a s IH].
  - split; [discriminate|]. intros (x & y & H). destruct x; discriminate.
  - destruct s as [|b t].
    + split; [discriminate|]. intros (x & y & H). destruct x as [|? [|? ?]]; discriminate.
    + change (has_crlf (a :: b :: t)) with (((a =? 13) && (b =? 10)) || has_crlf (b :: t)).
      rewrite orb_true_iff, IH, andb_true_iff, !N.eqb_eq. split.
      * intros [[-> ->]|(x & y & H)].
        -- exists [], t. reflexivity.
        -- exists (a :: x), y. cbn [app]. now rewrite H.
      * intros (x & y & H). destruct x as [|a' x].
        -- cbn [app] in H. injection H as -> -> _. left. split; reflexivity.
        -- cbn [app] in H. injection H as _ H. right. exists x, y. exact H.
Qed.

Lemma has_ascii_graphemes_spec s :
  has_ascii_graphemes s = true <-> all_ascii s /\ ~ crlf_pair s.
Proof.
  unfold has_ascii_graphemes. rewrite andb_true_iff, negb_true_iff, str_is_ascii_spec, <- has_crlf_spec.
  destruct (has_crlf s); intuition congruence.
Qed.

(* ---- graphemes ---------------------------------------------------------------------------------- *)
Lemma is_crlf_spec g : is_crlf g = true <-> g = [13; 10].
Proof.
  destruct g as [|a [|b [|c r]]]; cbn [is_crlf]; try (split; discriminate).
  rewrite andb_true_iff, !N.eqb_eq. split; [intros [-> ->]; reflexivity | intros H; injection H; auto].
Qed.

Lemma grapheme_char_ok g : g <> [] -> grapheme_char g = UOk (cluster_char g).
Proof.
  intros Hne. unfold grapheme_char, cluster_char.
  destruct (list_eq_dec N.eq_dec g [13; 10]) as [->|Hn].
  - reflexivity.
  - destruct (is_crlf g) eqn:E; [apply is_crlf_spec in E; contradiction|].
    destruct g; [contradiction|reflexivity].
Qed.

Lemma graphemes_ok cl : (forall g, In g cl -> g <> []) -> graphemes cl = UOk (map cluster_char cl).
Proof.
  induction cl as [|g r IH]; intros H; [reflexivity|].
  cbn [graphemes map]. rewrite grapheme_char_ok by (apply H; now left).
  cbn [ubind]. rewrite IH by (intros x Hx; apply H; now right). reflexivity.
Qed.

(* an empty cluster is exactly what makes the conversion panic *)
Lemma graphemes_panic_iff cl : (exists k, graphemes cl = UPanic k) <-> In [] cl.
Proof.
  induction cl as [|g r IH].
  - split; [intros [k H]; discriminate | intros []].
  - cbn [graphemes]. destruct g as [|c g'].
    + split; [intros _; now left | intros _; exists 4; reflexivity].
    + rewrite grapheme_char_ok by discriminate. cbn [ubind]. split.
      * intros [k H]. right. apply IH. destruct (graphemes r); [discriminate|]. eexists; reflexivity.
      * intros [H|H]; [discriminate|]. apply IH in H as [k H]. rewrite H. exists k. reflexivity.
Qed.

(* ---- constructors ------------------------------------------------------------------------------- *)
Lemma new_ascii s cl buf :
  has_ascii_graphemes s = true -> utf32str_new s cl buf = UOk (mk_ustr Ascii s, buf).
Proof. intros H. unfold utf32str_new. rewrite H. reflexivity. Qed.

Lemma new_unicode s cl buf :
  has_ascii_graphemes s = false -> (forall g, In g cl -> g <> []) ->
  utf32str_new s cl buf = UOk (mk_ustr Unicode (map cluster_char cl), map cluster_char cl).
Proof. intros H Hne. unfold utf32str_new. rewrite H, graphemes_ok by exact Hne. reflexivity. Qed.

Lemma ctors_agree s cl :
  utf32string_from_box s cl = utf32string_from_str s cl /\
  utf32string_from_string s cl = utf32string_from_str s cl /\
  (forall k, utf32string_from_cow k s cl = utf32string_from_str s cl) /\
  (forall buf, umap fst (utf32str_new s cl buf) = utf32string_from_str s cl).
Proof.
  repeat split.
  - intros []; reflexivity.
  - intros buf. unfold utf32str_new, utf32string_from_str.
    destruct (has_ascii_graphemes s); [reflexivity|]. destruct (graphemes cl); reflexivity.
Qed.

(* the buffer afterwards: untouched for the Ascii form, equal to the content otherwise (so nothing of
   the prior content survives) *)
Lemma new_buffer s cl buf v buf' :
  utf32str_new s cl buf = UOk (v, buf') ->
  (rp v = Ascii /\ buf' = buf) \/ (rp v = Unicode /\ buf' = cs v).
Proof.
  unfold utf32str_new. destruct (has_ascii_graphemes s).
  - intros H. injection H as <- <-. left. split; reflexivity.
  - destruct (graphemes cl); [|discriminate]. cbn [ubind app]. intros H. injection H as <- <-.
    right. split; reflexivity.
Qed.

Lemma new_prior_independent s cl buf1 buf2 :
  umap fst (utf32str_new s cl buf1) = umap fst (utf32str_new s cl buf2).
Proof. destruct (ctors_agree s cl) as (_ & _ & _ & H). now rewrite !H. Qed.

(* ---- length ------------------------------------------------------------------------------------- *)
Lemma len_str u : utf32str_len u = lenN (cs u).
Proof. unfold utf32str_len. destruct (rp u); reflexivity. Qed.
Lemma len_string u : utf32string_len u = lenN (cs u).
Proof. unfold utf32string_len. destruct (rp u); reflexivity. Qed.
Lemma is_empty_str u : utf32str_is_empty u = (utf32str_len u =? 0).
Proof. rewrite len_str. unfold utf32str_is_empty, lenN. destruct (rp u), (cs u); reflexivity. Qed.
Lemma is_empty_string u : utf32string_is_empty u = (utf32string_len u =? 0).
Proof. rewrite len_string. unfold utf32string_is_empty, lenN. destruct (rp u), (cs u); reflexivity. Qed.

Lemma concat_singletons (cl : list (list N)) :
  (forall g, In g cl -> exists c, g = [c]) -> length (concat cl) = length cl.
Proof.
  induction cl as [|g r IH]; intros H; [reflexivity|].
  destruct (H g (or_introl eq_refl)) as [c ->]. cbn [concat app length].
  rewrite IH by (intros x Hx; apply H; now right). reflexivity.
Qed.

(* without the singleton fact only "at least as many code points as clusters" holds *)
Lemma concat_nonempty_length (cl : list (list N)) :
  (forall g, In g cl -> g <> []) -> (length cl <= length (concat cl))%nat.
Proof.
  induction cl as [|g r IH]; intros H; [apply le_n|].
  cbn [concat length]. rewrite app_length.
  assert (g <> []) by (apply H; now left). destruct g; [contradiction|].
  specialize (IH (fun x Hx => H x (or_intror Hx))). cbn [length]. lia.
Qed.

(* ---- slicing ------------------------------------------------------------------------------------ *)
Lemma sliceN_sub_list l lo hi : sliceN lo hi l = sub_list l lo hi.
Proof. reflexivity. Qed.

Lemma add1_fits oc bits x : x + 1 < 2 ^ bits -> add1 oc bits x = UOk (x + 1).
Proof. intros H. unfold add1. apply N.ltb_lt in H. rewrite H. reflexivity. Qed.

Lemma slice_variant_ok u lo hi :
  lo <= hi -> hi <= lenN (cs u) -> slice_variant u lo hi = UOk (mk_ustr (rp u) (sub_list (cs u) lo hi)).
Proof.
  intros H1 H2. unfold slice_variant, index_range.
  apply N.leb_le in H1. apply N.leb_le in H2. rewrite H1, H2. destruct (rp u); reflexivity.
Qed.

Lemma slice_variant_panics u lo hi :
  ~ (lo <= hi /\ hi <= lenN (cs u)) -> slice_variant u lo hi = UPanic 2.
Proof.
  intros H. unfold slice_variant, index_range.
  destruct (lo <=? hi) eqn:E1; destruct (hi <=? lenN (cs u)) eqn:E2; destruct (rp u); try reflexivity.
  all: exfalso; apply H; split; [apply N.leb_le, E1 | apply N.leb_le, E2].
Qed.

(* resolution of the bounds never overflows for a valid range of a string shorter than 2^bits *)
Lemma resolve_start_ok oc bits len sb eb :
  len < 2 ^ bits -> valid_range len sb eb ->
  match sb with Included s => UOk s | Excluded s => add1 oc bits s | Unbounded => UOk 0 end
  = UOk (range_lo sb).
Proof.
  intros Hl [H1 H2]. destruct sb as [s|s|]; try reflexivity.
  apply add1_fits. cbn [range_lo] in H1. lia.
Qed.

Lemma resolve_end_ok oc bits len sb eb :
  len < 2 ^ bits -> valid_range len sb eb ->
  match eb with Included e => add1 oc bits e | Excluded e => UOk e | Unbounded => UOk len end
  = UOk (range_hi len eb).
Proof.
  intros Hl [H1 H2]. destruct eb as [e|e|]; try reflexivity.
  apply add1_fits. cbn [range_hi] in H2. lia.
Qed.

Definition slice_result (u : ustr) (sb eb : bound) : ures ustr :=
  UOk (mk_ustr (rp u) (sub_list (cs u) (range_lo sb) (range_hi (lenN (cs u)) eb))).

Lemma str_slice_ok oc u sb eb :
  lenN (cs u) < 2 ^ 64 -> valid_range (lenN (cs u)) sb eb -> utf32str_slice oc u sb eb = slice_result u sb eb.
Proof.
  intros Hl Hv. unfold utf32str_slice, USIZE_BITS.
  rewrite (resolve_start_ok oc 64 _ sb eb Hl Hv). cbn [ubind]. rewrite len_str.
  rewrite (resolve_end_ok oc 64 _ sb eb Hl Hv). cbn [ubind].
  destruct Hv. apply slice_variant_ok; assumption.
Qed.

Lemma str_slice_u32_ok oc u sb eb :
  lenN (cs u) < 2 ^ 64 -> valid_range (lenN (cs u)) sb eb -> utf32str_slice_u32 oc u sb eb = slice_result u sb eb.
Proof.
  intros Hl Hv. unfold utf32str_slice_u32, USIZE_BITS.
  rewrite (resolve_start_ok oc 64 _ sb eb Hl Hv). cbn [ubind]. rewrite len_str.
  rewrite (resolve_end_ok oc 64 _ sb eb Hl Hv). cbn [ubind].
  destruct Hv. apply slice_variant_ok; assumption.
Qed.

Lemma string_slice_ok oc u sb eb :
  lenN (cs u) < 2 ^ 64 -> valid_range (lenN (cs u)) sb eb -> utf32string_slice oc u sb eb = slice_result u sb eb.
Proof.
  intros Hl Hv. unfold utf32string_slice, USIZE_BITS.
  rewrite (resolve_start_ok oc 64 _ sb eb Hl Hv). cbn [ubind]. rewrite len_string.
  rewrite (resolve_end_ok oc 64 _ sb eb Hl Hv). cbn [ubind].
  destruct Hv. apply slice_variant_ok; assumption.
Qed.

(* the u32 arithmetic of Utf32String::slice_u32 needs the string to be shorter than 2^32 *)
Lemma string_slice_u32_ok oc u sb eb :
  lenN (cs u) < 2 ^ 32 -> valid_range (lenN (cs u)) sb eb -> utf32string_slice_u32 oc u sb eb = slice_result u sb eb.
Proof.
  intros Hl Hv. unfold utf32string_slice_u32, U32_BITS.
  rewrite (resolve_start_ok oc 32 _ sb eb Hl Hv). cbn [ubind]. rewrite len_string.
  rewrite N.mod_small by exact Hl.
  rewrite (resolve_end_ok oc 32 _ sb eb Hl Hv). cbn [ubind].
  destruct Hv. apply slice_variant_ok; assumption.
Qed.

(* why the hypothesis is needed: `self.len() as u32` truncates, so `..` of a string of exactly 2^32
   characters is the empty string (stated on the length only; no such list is ever built) *)
Lemma string_slice_u32_truncates oc u :
  lenN (cs u) = 2 ^ 32 -> utf32string_slice_u32 oc u Unbounded Unbounded = UOk (mk_ustr (rp u) []).
Proof.
  intros Hl. unfold utf32string_slice_u32, U32_BITS. cbn [ubind]. rewrite len_string, Hl.
  rewrite N.mod_same by (apply N.pow_nonzero; discriminate).
  rewrite slice_variant_ok by lia. unfold sub_list. reflexivity.
Qed.

Lemma sub_list_length l lo hi : lo <= hi -> hi <= lenN l -> lenN (sub_list l lo hi) = hi - lo.
Proof.
  intros H1 H2. unfold sub_list, lenN in *. rewrite firstn_length, skipn_length. lia.
Qed.

Lemma nth_firstn_lt {A} (l : list A) d : forall n i, (i < n)%nat -> nth i (firstn n l) d = nth i l d.
Proof.
  induction l as [|a l IH]; intros n i H; [now rewrite firstn_nil|].
  destruct n; [lia|]. destruct i; [reflexivity|]. cbn [firstn nth]. apply IH. lia.
Qed.

Lemma nth_skipn_add {A} (l : list A) d : forall n i, nth i (skipn n l) d = nth (n + i) l d.
Proof.
  induction l as [|a l IH]; intros n i.
  - rewrite skipn_nil. destruct (n + i)%nat; destruct i; reflexivity.
  - destruct n; [reflexivity|]. cbn [skipn Nat.add nth]. apply IH.
Qed.

Lemma sub_list_nth l lo hi i d : i < hi - lo -> nth (N.to_nat i) (sub_list l lo hi) d = nth (N.to_nat (lo + i)) l d.
Proof.
  intros H. unfold sub_list. rewrite nth_firstn_lt by lia.
  rewrite nth_skipn_add. f_equal. lia.
Qed.

Lemma sub_list_full l : sub_list l 0 (lenN l) = l.
Proof.
  unfold sub_list, lenN. cbn [N.to_nat skipn]. rewrite N.sub_0_r, Nat2N.id. apply firstn_all.
Qed.

(* ---- indexing ----------------------------------------------------------------------------------- *)
Lemma get_ok u n : n < lenN (cs u) -> utf32str_get u n = UOk (nth (N.to_nat n) (cs u) 0).
Proof.
  intros H. unfold utf32str_get, nthN. apply N.ltb_lt in H. rewrite H. destruct (rp u); reflexivity.
Qed.
Lemma get_panics u n : lenN (cs u) <= n -> utf32str_get u n = UPanic 3.
Proof.
  intros H. unfold utf32str_get. apply N.ltb_ge in H. rewrite H. destruct (rp u); reflexivity.
Qed.

Lemma first_ok u : cs u <> [] -> utf32str_first u = UOk (hd 0 (cs u)).
Proof. unfold utf32str_first. destruct (cs u); [contradiction|reflexivity]. Qed.

Lemma nth_last_len (l : list N) d : l <> [] -> nth (length l - 1) l d = last l d.
Proof.
  intros H. destruct (exists_last H) as (l' & a & ->).
  rewrite last_last, app_length, app_nth2 by (cbn [length]; lia).
  cbn [length]. replace (length l' + 1 - 1 - length l')%nat with 0%nat by lia. reflexivity.
Qed.

Lemma last_ok oc u : cs u <> [] -> utf32str_last oc u = UOk (last (cs u) 0).
Proof.
  intros H. unfold utf32str_last, nthN, lenN.
  destruct (N.eqb_spec (N.of_nat (length (cs u))) 0) as [E|_].
  - destruct (cs u); [contradiction|discriminate].
  - f_equal. rewrite <- (nth_last_len _ 0 H). f_equal. lia.
Qed.

Lemma first_last_empty_panic oc u :
  cs u = [] -> (exists k, utf32str_first u = UPanic k) /\ (exists k, utf32str_last oc u = UPanic k).
Proof.
  intros H. unfold utf32str_first, utf32str_last. rewrite H. cbn. split; [eexists; reflexivity|].
  destruct oc; eexists; reflexivity.
Qed.

(* ---- iteration ---------------------------------------------------------------------------------- *)
Lemma frev_rev {A} (l : list A) : frev l = rev l.
Proof. unfold frev. symmetry. apply rev_alt. Qed.

Lemma next_back_snoc it l c :
  cs it = l ++ [c] -> chars_next_back it = (Some c, mk_ustr (rp it) l).
Proof.
  intros H. unfold chars_next_back. rewrite frev_rev, H, rev_unit, frev_rev, rev_involutive. reflexivity.
Qed.

Lemma next_back_nil it : cs it = [] -> chars_next_back it = (None, it).
Proof. intros H. unfold chars_next_back. rewrite H. reflexivity. Qed.

Lemma collect_fuel r fuel l : (length l < fuel)%nat -> chars_collect_fuel fuel (mk_ustr r l) = l.
Proof.
  revert l. induction fuel as [|f IH]; intros l H; [lia|].
  destruct l as [|c l]; [reflexivity|].
  cbn [chars_collect_fuel chars_next cs mk_ustr rp]. f_equal. apply IH. cbn [length] in H. lia.
Qed.

Lemma collect_back_fuel r fuel l : (length l < fuel)%nat -> chars_collect_back_fuel fuel (mk_ustr r l) = rev l.
Proof.
  revert l. induction fuel as [|f IH]; intros l H; [lia|].
  destruct l as [|a l0] eqn:El using rev_ind.
  - reflexivity.
  - clear IHl0. cbn [chars_collect_back_fuel].
    rewrite (next_back_snoc (mk_ustr r (l0 ++ [a])) l0 a eq_refl). cbn [rp mk_ustr].
    rewrite rev_unit. f_equal. apply IH. rewrite app_length in H. cbn [length] in H. lia.
Qed.

Lemma ustr_eta u : mk_ustr (rp u) (cs u) = u.
Proof. destruct u; reflexivity. Qed.

Lemma collect_all u : chars_collect (utf32str_chars u) = cs u.
Proof.
  unfold chars_collect, utf32str_chars. rewrite <- (ustr_eta u) at 2. apply collect_fuel. lia.
Qed.

Lemma collect_back_all u : chars_collect_back (utf32str_chars u) = rev (cs u).
Proof.
  unfold chars_collect_back, utf32str_chars. rewrite <- (ustr_eta u) at 2. apply collect_back_fuel. lia.
Qed.

(* whatever the interleaving of next() and next_back(): the items handed out at the front, the items
   still in the iterator, and the items handed out at the back (reversed) are the content, in order *)
Lemma drive_invariant sched : forall it os it',
  chars_drive sched it = (os, it') ->
  yielded true sched os ++ cs it' ++ rev (yielded false sched os) = cs it /\ rp it' = rp it /\
  length os = length sched.
Proof.
  induction sched as [|f sr IH]; intros it os it' H.
  - cbn [chars_drive] in H. injection H as <- <-. cbn [yielded rev]. rewrite app_nil_r. auto.
  - cbn [chars_drive] in H.
    destruct (if f then chars_next it else chars_next_back it) as [o it1] eqn:E1.
    destruct (chars_drive sr it1) as [os1 it2] eqn:E2. injection H as <- <-.
    destruct (IH _ _ _ E2) as (Hc & Hr & Hl). cbn [yielded length]. rewrite Hl. split; [|split; [|reflexivity]].
    + destruct f.
      * unfold chars_next in E1. destruct (cs it) as [|c r] eqn:Ec.
        -- injection E1 as <- <-. cbn [Bool.eqb app]. rewrite Hc. exact Ec.
        -- injection E1 as <- <-. cbn [Bool.eqb app]. cbn [cs mk_ustr] in Hc. rewrite Hc. reflexivity.
      * destruct (cs it) as [|a l0] eqn:Ec using rev_ind.
        -- rewrite (next_back_nil it Ec) in E1. injection E1 as <- <-. cbn [Bool.eqb app]. rewrite Hc. exact Ec.
        -- clear IHl0. rewrite (next_back_snoc it l0 a Ec) in E1. injection E1 as <- <-.
           cbn [Bool.eqb app rev]. cbn [cs mk_ustr] in Hc. rewrite <- Hc, !app_assoc. reflexivity.
    + rewrite Hr. destruct f.
      * unfold chars_next in E1. destruct (cs it); injection E1 as <- <-; reflexivity.
      * unfold chars_next_back in E1. destruct (frev (cs it)); injection E1 as <- <-; reflexivity.
Qed.

(* None is returned exactly by an exhausted iterator, at either end *)
Lemma next_none_iff it : fst (chars_next it) = None <-> cs it = [].
Proof. unfold chars_next. destruct (cs it); cbn [fst]; split; congruence. Qed.
Lemma next_back_none_iff it : fst (chars_next_back it) = None <-> cs it = [].
Proof.
  unfold chars_next_back. rewrite frev_rev. destruct (cs it) as [|a l] eqn:E using rev_ind.
  - cbn. split; reflexivity.
  - rewrite rev_unit. cbn [fst]. split; [discriminate|]. intros H. destruct l; discriminate.
Qed.

(* ---- Display / Debug ---------------------------------------------------------------------------- *)
Lemma display_str u : utf32str_display u = cs u.
Proof. apply collect_all. Qed.
Lemma debug_str esc u : utf32str_debug esc u = [34] ++ flat_map esc (cs u) ++ [34].
Proof. unfold utf32str_debug. rewrite collect_all. reflexivity. Qed.

Lemma string_slice_full oc u : utf32string_slice oc u Unbounded Unbounded = UOk u.
Proof.
  unfold utf32string_slice. cbn [ubind]. rewrite len_string, slice_variant_ok by lia.
  rewrite sub_list_full, ustr_eta. reflexivity.
Qed.
Lemma display_string oc u : utf32string_display oc u = UOk (cs u).
Proof. unfold utf32string_display. rewrite string_slice_full. cbn [umap]. now rewrite display_str. Qed.
Lemma debug_string oc esc u : utf32string_debug oc esc u = UOk ([34] ++ flat_map esc (cs u) ++ [34]).
Proof. unfold utf32string_debug. rewrite string_slice_full. cbn [umap]. now rewrite debug_str. Qed.

(* ---- the conversion as a whole (statements used verbatim by Props/C17.v) -------------------------- *)
Lemma is_ascii_rp u : utf32str_is_ascii u = true <-> rp u = Ascii.
Proof. unfold utf32str_is_ascii. destruct (rp u); split; congruence. Qed.

Lemma new_variant s cl buf : seg_ok s cl ->
  exists v buf', utf32str_new s cl buf = UOk (v, buf') /\
                 (utf32str_is_ascii v = true <-> all_ascii s /\ ~ crlf_pair s).
Proof.
  intros [_ Hne]. destruct (has_ascii_graphemes s) eqn:E.
  - eexists _, _. split; [apply new_ascii, E|]. apply has_ascii_graphemes_spec in E.
    split; [intros _; exact E | reflexivity].
  - eexists _, _. split; [apply new_unicode; [exact E | exact Hne]|].
    cbn. split; [discriminate|]. intros H. apply has_ascii_graphemes_spec in H. congruence.
Qed.

Lemma new_ascii_content s cl buf v buf' :
  utf32str_new s cl buf = UOk (v, buf') -> utf32str_is_ascii v = true -> cs v = s.
Proof.
  unfold utf32str_new. destruct (has_ascii_graphemes s).
  - intros H _. injection H as <- _. reflexivity.
  - destruct (graphemes cl); [|discriminate]. cbn [ubind]. intros H. injection H as <- _. discriminate.
Qed.

Lemma new_unicode_content s cl buf v buf' : seg_ok s cl ->
  utf32str_new s cl buf = UOk (v, buf') -> utf32str_is_ascii v = false -> cs v = map cluster_char cl.
Proof.
  intros [_ Hne]. destruct (has_ascii_graphemes s) eqn:E.
  - rewrite new_ascii by exact E. intros H. injection H as <- _. discriminate.
  - rewrite new_unicode by assumption. intros H _. injection H as <- _. reflexivity.
Qed.

Lemma new_len_unicode s cl buf v buf' : seg_ok s cl ->
  utf32str_new s cl buf = UOk (v, buf') -> utf32str_is_ascii v = false -> utf32str_len v = lenN cl.
Proof.
  intros Hs Hn Hv. rewrite len_str, (new_unicode_content _ _ _ _ _ Hs Hn Hv). unfold lenN.
  now rewrite map_length.
Qed.

Lemma new_len_ascii s cl buf v buf' :
  utf32str_new s cl buf = UOk (v, buf') -> utf32str_is_ascii v = true -> utf32str_len v = lenN s.
Proof. intros Hn Hv. now rewrite len_str, (new_ascii_content _ _ _ _ _ Hn Hv). Qed.

Lemma new_len s cl buf v buf' : seg_ok s cl -> seg_ascii_singletons s cl ->
  utf32str_new s cl buf = UOk (v, buf') -> utf32str_len v = lenN cl.
Proof.
  intros Hs Hsing Hn. destruct (utf32str_is_ascii v) eqn:Ev.
  - rewrite (new_len_ascii _ _ _ _ _ Hn Ev). unfold lenN. f_equal.
    destruct (new_variant s cl buf Hs) as (v' & b' & Hn' & Hiff). rewrite Hn in Hn'. injection Hn' as <- <-.
    destruct (proj1 Hiff Ev) as [Ha Hc]. destruct Hs as [<- _].
    apply concat_singletons. exact (Hsing Ha Hc).
  - exact (new_len_unicode _ _ _ _ _ Hs Hn Ev).
Qed.

(* the singleton hypothesis is exactly what the Ascii-form length guarantee amounts to *)
Lemma ascii_len_needs_singletons (cl : list (list N)) :
  (forall g, In g cl -> g <> []) -> length (concat cl) = length cl -> forall g, In g cl -> exists c, g = [c].
Proof.
  induction cl as [|g r IH]; intros Hne Hl x Hx; [destruct Hx|].
  cbn [concat length] in Hl. rewrite app_length in Hl.
  assert (Hr := concat_nonempty_length r (fun y Hy => Hne y (or_intror Hy))).
  assert (Hg : g <> []) by (apply Hne; now left).
  destruct g as [|c [|c' g']]; [contradiction| |cbn [length] in Hl; lia].
  destruct Hx as [<-|Hx]; [eexists; reflexivity|].
  apply IH; [intros y Hy; apply Hne; now right | cbn [length] in Hl; lia | exact Hx].
Qed.
