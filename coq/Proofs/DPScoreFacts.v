(* C04_single, DP_score, (DP_witness), C04_upper for the optimal entry point. *)
From Coq Require Import ZArith NArith List Bool Lia ZifyBool ZifyN ZifyNat.
From NV Require Import Base.Util Model.Chars Model.Matcher Spec.Matching Spec.Statements Proofs.CharsFacts.
From NV Require Import Proofs.DPCore Proofs.DPSetup.
From NV Require Proofs.C05Facts Proofs.ScoreFacts Proofs.WitnessFacts Proofs.DPSingle.
Import ListNotations.
Local Open Scope N_scope.

(* ---- 1. C04_single ---------------------------------------------------------------------------------- *)
Lemma C04_single : C04_single_stmt.
Proof. exact DPSingle.C04_single. Qed.

(* ---- 2. the DP branch ------------------------------------------------------------------------------- *)
(* what the DP reports: the fzf value of a valid embedding *)
Definition outcome_good (cfg : config) (hr : repr) (h n : list N) (o : outcome) : Prop :=
  match o with
  | Match s idx => s = fzf_score cfg hr h idx /\ embedding_b idx n (nh cfg hr h) 0 = true
  | _ => True
  end.

Lemma prev_class_before cfg hr h start : prev_class cfg hr h start = class_before cfg hr h start.
Proof. reflexivity. Qed.

Lemma dp_branch cfg hr nr h n0 n1 nr' start ge e init_row c0 rest :
  prefer_prefix cfg = false ->
  slab_alloc_ok hr (lenN (sliceN start e h)) (lenN (n0 :: n1 :: nr')) = true ->
  dropN start h = c0 :: rest -> norm cfg hr c0 = n0 -> start < e ->
  outcome_good cfg hr h (n0 :: n1 :: nr') (fuzzy_optimal cfg hr nr h (n0 :: n1 :: nr') start ge e init_row).
Proof.
  intros Hpp Hslab Hdrop Hn0 Hse.
  rewrite fuzzy_optimal_eq. cbv zeta. rewrite Hslab. cbn [negb].
  set (n := n0 :: n1 :: nr'). set (w := sliceN start e h).
  destruct (setup_loop cfg hr w 0 (prev_class cfg hr h start) n0 (n1 :: nr') false) as [[[hw bs] ro] matched] eqn:Es.
  destruct matched; [|destruct hr, nr; exact I]. cbn [negb].
  destruct (setup_spec _ _ _ _ _ _ _ _ _ _ _ _ Es) as (Hhw & Hbs & HROK & _).
  specialize (HROK eq_refl eq_refl hw [] eq_refl eq_refl).
  assert (Hlw : lenN hw = lenN w) by (rewrite Hhw; unfold lenN; rewrite map_length; reflexivity).
  assert (Hlb : lenN bs = lenN hw) by (rewrite Hbs, blist_len, Hlw; reflexivity).
  (* the window starts with the matched first character *)
  assert (Hw : exists w', w = c0 :: w').
  { unfold w, sliceN. rewrite Hdrop. unfold takeN. destruct (N.to_nat (e - start)) as [|k] eqn:Ek; [lia|].
    cbn [firstn]. eexists. reflexivity. }
  destruct Hw as [w' Hw]. rewrite Hw in Es.
  pose proof (setup_hd _ _ _ _ _ _ _ _ _ _ _ _ Es Hn0) as Hro0.
  (* window contents *)
  assert (Hwn : forall j, j < lenN w -> nthN w j 0 = nthN h (start + j) 0).
  { intros j Hj. unfold w in *. rewrite lenN_sliceN in Hj. apply nthN_sliceN. lia. }
  assert (Hwle : start + lenN w <= lenN h).
  { unfold w. rewrite lenN_sliceN.
    assert (start < lenN h).
    { pose proof (lenN_dropN h start) as Hd. rewrite Hdrop, lenN_cons in Hd. lia. }
    lia. }
  unfold prefix_bonus_dp. rewrite Hpp.
  rewrite <- Hlw.
  destruct (dp_final start hw bs n n0 n1 nr' ro
              (takeN (lenN hw + 1 - lenN n) (init_row ++ repeat ZERO_CELL (N.to_nat (lenN hw + 1 - lenN n)))))
    as (p & Hv & Hlp & Htail); [reflexivity | exact HROK | exact Hro0 | exact Hlb | |].
  { rewrite lenN_takeN, lenN_app.
    assert (Hr : forall k, lenN (repeat ZERO_CELL k) = N.of_nat k) by (intros k; unfold lenN; rewrite repeat_length; reflexivity).
    rewrite Hr. lia. }
  rewrite Htail. cbn [outcome_good]. split.
  - symmetry. apply fzf_score_window. intros c Hc.
    pose proof (vpath_lt _ _ _ Hv c Hc) as Hcl. rewrite Hbs.
    apply blist_nth; [apply prev_class_before | exact Hwn | lia].
  - assert (Hcond : forall c, c < lenN hw -> start + c < N.of_nat (length (nh cfg hr h)) /\
                                 nth (N.to_nat (start + c)) (nh cfg hr h) 0 = nthN hw c 0).
    { intros c Hc. unfold nh. rewrite map_length. split; [unfold lenN in *; lia|].
      rewrite Hhw. unfold nthN.
      rewrite (nth_indep (map (norm cfg hr) h) 0 (norm cfg hr 0)) by (rewrite map_length; unfold lenN in *; lia).
      rewrite (nth_indep (map (norm cfg hr) w) 0 (norm cfg hr 0)) by (rewrite map_length; unfold lenN in *; lia).
      rewrite !map_nth. f_equal. symmetry. apply (Hwn c). lia. }
    pose proof (vpath_embedding hw n (nh cfg hr h) start Hcond p Hv ltac:(lia)) as HE.
    rewrite firstn_all2 in HE by (unfold lenN in Hlp; lia). exact HE.
Qed.

Lemma outcome_good_ok cfg hr h n o : outcome_good cfg hr h n o -> ScoreFacts.outcome_ok cfg hr h o.
Proof. destruct o; cbn; tauto. Qed.

Definition greedy_pre (cfg : config) (hr nr : repr) (h n : list N) (start ge : N) : Prop :=
  match hr, nr with
  | Ascii, Ascii => exists k, scan_fwd (byte_matches (ignore_case cfg)) (tl n) (dropN (start + 1) h) = Some k /\
                              ge = start + 1 + k
  | _, _ => ge = start + 1
  end.

Lemma fuzzy_optimal_ok cfg hr nr h n start ge e init_row c0 rest :
  bonus_bounded cfg -> prefer_prefix cfg = false -> lenN n <= 2500 ->
  (forall x, In x n -> norm cfg nr x = x) -> greedy_pre cfg hr nr h n start ge ->
  dropN start h = c0 :: rest -> norm cfg hr c0 = hd 0 n -> start < e ->
  ScoreFacts.outcome_ok cfg hr h (fuzzy_optimal cfg hr nr h n start ge e init_row).
Proof.
  intros Hb Hpp Hlen Hn Hpre Hdrop Hn0 Hse.
  destruct (slab_alloc_ok hr (lenN (sliceN start e h)) (lenN n)) eqn:Eslab.
  - destruct n as [|n0 [|n1 nr']].
    + unfold fuzzy_optimal. cbv zeta. rewrite Eslab. exact I.
    + unfold fuzzy_optimal. cbv zeta. rewrite Eslab. exact I.
    + eapply outcome_good_ok. eapply dp_branch; eauto.
  - unfold fuzzy_optimal. cbv zeta. rewrite Eslab. cbn [negb].
    apply ScoreFacts.fuzzy_greedy__ok; assumption.
Qed.

Lemma prefilter_ascii_parts cfg h n0 nrest og start ge e :
  prefilter_ascii cfg h (n0 :: nrest) og = Some (start, ge, e) ->
  (exists k, scan_fwd (byte_matches (ignore_case cfg)) nrest (dropN (start + 1) h) = Some k /\ ge = start + 1 + k) /\
  (exists c0 rest, dropN start h = c0 :: rest /\ byte_matches (ignore_case cfg) n0 c0 = true) /\ ge <= e.
Proof.
  unfold prefilter_ascii. destruct (position _ _) as [st|] eqn:Ep; [|discriminate].
  destruct (scan_fwd _ _ _) as [k|] eqn:Ek; [|discriminate].
  intros H.
  assert (Hst : st = start /\ ge = st + 1 + k /\ ge <= e).
  { destruct og; injection H as <- <- <-; (split; [reflexivity|]); (split; [reflexivity|]); lia. }
  destruct Hst as (-> & -> & Hle).
  split; [exists k; split; [exact Ek|reflexivity]|]. split; [|exact Hle].
  unfold takeN in Ep. apply ScoreFacts.position_firstn in Ep. exact Ep.
Qed.

Lemma fuzzy_impl_ok cfg hs ns init_row :
  bonus_bounded cfg -> prefer_prefix cfg = false -> lenN (cs ns) <= 2500 ->
  needle_ok cfg (rp ns) (cs ns) = true ->
  ScoreFacts.outcome_ok cfg (rp hs) (cs hs) (fuzzy_impl cfg hs ns init_row).
Proof.
  intros Hb Hpp Hlen Hok. unfold fuzzy_impl. cbv zeta. destruct (_ <? _); [exact I|].
  pose proof (ScoreFacts.exact_impl_ok cfg hs ns) as Hex.
  assert (Hn : forall x, In x (cs ns) -> norm cfg (rp ns) x = x) by (intros x; apply ScoreFacts.needle_ok_in, Hok).
  destruct (cs ns) as [|n0 nrest] eqn:En; [reflexivity|].
  destruct (_ =? _); [apply Hex; assumption|].
  destruct (rp hs) eqn:Ehr, (rp ns) eqn:Enr; try exact I.
  - (* Ascii / Ascii *)
    destruct nrest as [|n1 nr']; [apply ScoreFacts.substring_1_ascii_ok|].
    destruct (prefilter_ascii _ _ _ _) as [[[st ge] e]|] eqn:Ep; [|exact I].
    destruct (prefilter_ascii_parts _ _ _ _ _ _ _ _ Ep) as ((k & Hk & Hge) & (c0 & rest & Hdrop & Hbm) & Hgee).
    assert (Hc0 : norm cfg Ascii c0 = n0).
    { rewrite ScoreFacts.byte_matches_norm in Hbm by (apply Hn; left; reflexivity).
      unfold ScoreFacts.mn in Hbm. apply N.eqb_eq in Hbm. exact Hbm. }
    destruct (_ =? _).
    + apply ScoreFacts.calculate_score_ok; try assumption.
      assert (Hk' : scan_fwd (ScoreFacts.mn cfg Ascii) (n1 :: nr') (dropN (st + 1) (cs hs)) = Some k).
      { rewrite <- Hk. symmetry. apply ScoreFacts.scan_fwd_ext. intros x Hx c. apply ScoreFacts.byte_matches_norm.
        apply Hn. right. exact Hx. }
      assert (Hw : sliceN (st + 1) ge (cs hs) = firstn (N.to_nat k) (dropN (st + 1) (cs hs))).
      { unfold sliceN, takeN. f_equal. lia. }
      rewrite Hw, (ScoreFacts.scan_fwd_firstn _ _ _ _ Hk'). f_equal.
      pose proof (ScoreFacts.scan_fwd_le _ _ _ _ Hk') as Hle. unfold lenN in *. rewrite firstn_length. lia.
    + eapply fuzzy_optimal_ok; try eassumption.
      * exists k. split; [exact Hk|exact Hge].
      * lia.
  - (* Unicode / Ascii *)
    destruct nrest as [|n1 nr'].
    + destruct (prefilter_non_ascii _ _ _ _) as [[st e]|] eqn:Ep; [|exact I].
      apply ScoreFacts.substring_1_non_ascii_ok. eapply ScoreFacts.prefilter_non_ascii_start; eauto.
    + destruct (prefilter_non_ascii _ _ _ _) as [[st e]|] eqn:Ep; [|exact I].
      destruct (ScoreFacts.prefilter_non_ascii_start _ _ _ _ _ _ _ Ep) as (c0 & rest & Hdrop & Hc0).
      destruct (_ =? _); [apply Hex; assumption|].
      eapply fuzzy_optimal_ok; try eassumption; [reflexivity|].
      unfold prefilter_non_ascii in Ep. destruct (position _ _); [|discriminate].
      destruct (position _ _); [|discriminate]. destruct (_ <? _) eqn:El; [discriminate|].
      injection Ep as <- <-. rewrite !lenN_cons in El. lia.
  - (* Unicode / Unicode *)
    destruct nrest as [|n1 nr'].
    + destruct (prefilter_non_ascii _ _ _ _) as [[st e]|] eqn:Ep; [|exact I].
      apply ScoreFacts.substring_1_non_ascii_ok. eapply ScoreFacts.prefilter_non_ascii_start; eauto.
    + destruct (prefilter_non_ascii _ _ _ _) as [[st e]|] eqn:Ep; [|exact I].
      destruct (ScoreFacts.prefilter_non_ascii_start _ _ _ _ _ _ _ Ep) as (c0 & rest & Hdrop & Hc0).
      destruct (_ =? _); [apply Hex; assumption|].
      eapply fuzzy_optimal_ok; try eassumption; [reflexivity|].
      unfold prefilter_non_ascii in Ep. destruct (position _ _); [|discriminate].
      destruct (position _ _); [|discriminate]. destruct (_ <? _) eqn:El; [discriminate|].
      injection Ep as <- <-. rewrite !lenN_cons in El. lia.
Qed.

Lemma DP_score : DP_score_stmt.
Proof.
  intros cfg hs ns s idx Hpp Hb Hlen Hok H. cbn [run] in H.
  pose proof (fuzzy_impl_ok cfg hs ns [] Hb Hpp Hlen Hok) as G. rewrite H in G. exact G.
Qed.


(* ---- 3. the optimal entry point reports a valid embedding (C02 for the DP) --------------------------- *)
Definition outcome_emb (cfg : config) (hr : repr) (h n : list N) (o : outcome) : Prop :=
  match o with Match _ idx => embedding_b idx n (nh cfg hr h) 0 = true | _ => True end.

Lemma outcome_good_emb cfg hr h n o : outcome_good cfg hr h n o -> outcome_emb cfg hr h n o.
Proof. destruct o; cbn; tauto. Qed.

Lemma fuzzy_optimal_emb cfg hr nr h n start ge e init_row c0 rest :
  prefer_prefix cfg = false ->
  (forall x, In x n -> norm cfg nr x = x) -> greedy_pre cfg hr nr h n start ge ->
  ~ (hr = Ascii /\ nr = Unicode) ->
  dropN start h = c0 :: rest -> norm cfg hr c0 = hd 0 n -> start < e ->
  outcome_emb cfg hr h n (fuzzy_optimal cfg hr nr h n start ge e init_row).
Proof.
  intros Hpp Hn Hpre HK Hdrop Hn0 Hse.
  destruct (slab_alloc_ok hr (lenN (sliceN start e h)) (lenN n)) eqn:Eslab.
  - destruct n as [|n0 [|n1 nr']].
    + unfold fuzzy_optimal. cbv zeta. rewrite Eslab. exact I.
    + unfold fuzzy_optimal. cbv zeta. rewrite Eslab. exact I.
    + eapply outcome_good_emb. eapply dp_branch; eauto.
  - unfold fuzzy_optimal. cbv zeta. rewrite Eslab. cbn [negb].
    destruct n as [|n0 nrest].
    { unfold fuzzy_greedy_. destruct hr, nr; try exact I;
        repeat match goal with |- outcome_emb _ _ _ _ (match ?x with _ => _ end) => destruct x end; exact I. }
    cbn [hd] in Hn0.
    destruct (fuzzy_greedy_ cfg hr nr h (n0 :: nrest) start ge) as [|s idx|] eqn:Eg; try exact I.
    cbn [outcome_emb]. unfold dropN in Hdrop.
    destruct hr, nr; unfold greedy_pre in Hpre.
    + destruct Hpre as (k & Hk & ->). cbn [tl] in Hk.
      eapply WitnessFacts.fuzzy_greedy_ascii; [exact Hdrop | exact Hn0 | | exact Eg].
      destruct (WitnessFacts.skipn_cons_inv _ _ _ _ Hdrop) as (_ & _ & Hrest).
      unfold dropN in Hk. replace (N.to_nat (start + 1)) with (S (N.to_nat start)) in Hk by lia.
      rewrite Hrest in Hk. rewrite <- Hk. apply WitnessFacts.scan_fwd_ext.
      intros x c Hx. unfold WitnessFacts.mt. symmetry. apply WitnessFacts.byte_matches_norm. apply Hn. right. exact Hx.
    + exfalso. apply HK. auto.
    + subst ge. eapply WitnessFacts.fuzzy_greedy_unicode; eauto.
    + subst ge. eapply WitnessFacts.fuzzy_greedy_unicode; eauto.
Qed.

Lemma single_emb cfg hr h c i : occurs cfg hr h [c] i = true -> embedding_b [i] [c] (nh cfg hr h) 0 = true.
Proof. intros H. apply (WitnessFacts.shape_embedding cfg hr h [c] i H). Qed.

Lemma fuzzy_impl_emb cfg hs ns init_row :
  prefer_prefix cfg = false -> needle_ok cfg (rp ns) (cs ns) = true ->
  outcome_emb cfg (rp hs) (cs hs) (cs ns) (fuzzy_impl cfg hs ns init_row).
Proof.
  intros Hpp Hok. unfold fuzzy_impl. cbv zeta. destruct (_ <? _); [exact I|].
  assert (Hex : forall st e, cs ns <> [] -> outcome_emb cfg (rp hs) (cs hs) (cs ns) (exact_impl cfg hs ns st e)).
  { intros st e Hne. destruct (exact_impl cfg hs ns st e) as [|s idx|] eqn:E; try exact I.
    destruct (WitnessFacts.exact_impl_spec cfg hs ns st e s idx Hok Hne E) as (Ho & -> & _).
    apply WitnessFacts.shape_embedding. exact Ho. }
  assert (Hn : forall x, In x (cs ns) -> norm cfg (rp ns) x = x) by (intros x; apply ScoreFacts.needle_ok_in, Hok).
  destruct (cs ns) as [|n0 nrest] eqn:En; [reflexivity|].
  destruct (_ =? _); [apply Hex; discriminate|].
  destruct (rp hs) eqn:Ehr, (rp ns) eqn:Enr; try exact I.
  - (* Ascii / Ascii *)
    destruct nrest as [|n1 nr'].
    { unfold substring_1_ascii. destruct (best_pos _ _ _) as [[i s]|] eqn:Ebp; [|exact I].
      cbn [outcome_emb]. apply single_emb.
      eapply (WitnessFacts.cands_head cfg Ascii (cs hs) _ n0 0); [|exact Ebp].
      intros x Hx. rewrite WitnessFacts.byte_matches_norm in Hx by (apply Hn; left; reflexivity).
      apply N.eqb_eq. exact Hx. }
    destruct (prefilter_ascii _ _ _ _) as [[[st ge] e]|] eqn:Ep; [|exact I].
    destruct (prefilter_ascii_parts _ _ _ _ _ _ _ _ Ep) as ((k & Hk & Hge) & (c0 & rest & Hdrop & Hbm) & Hgee).
    assert (Hc0 : norm cfg Ascii c0 = n0).
    { rewrite WitnessFacts.byte_matches_norm in Hbm by (apply Hn; left; reflexivity).
      apply N.eqb_eq in Hbm. exact Hbm. }
    destruct (_ =? _).
    + destruct (calculate_score cfg Ascii (cs hs) (n0 :: n1 :: nr') st ge) as [|s idx|] eqn:Ec; try exact I.
      cbn [outcome_emb]. eapply WitnessFacts.calc_greedy; [exact Hdrop | exact Hc0 | | exact Ec].
      assert (Hk' : scan_fwd (WitnessFacts.mt cfg Ascii) (n1 :: nr') (dropN (st + 1) (cs hs)) = Some k).
      { rewrite <- Hk. apply WitnessFacts.scan_fwd_ext. intros x c Hx. unfold WitnessFacts.mt. symmetry.
        apply WitnessFacts.byte_matches_norm. apply Hn. right. exact Hx. }
      assert (Hw : sliceN (st + 1) ge (cs hs) = firstn (N.to_nat k) (dropN (st + 1) (cs hs))).
      { unfold sliceN, takeN. f_equal. lia. }
      rewrite Hw, (WitnessFacts.scan_fwd_firstn _ _ _ _ Hk'). f_equal.
      pose proof (WitnessFacts.scan_fwd_le_len _ _ _ _ Hk') as Hle. unfold lenN in *. rewrite firstn_length. lia.
    + eapply fuzzy_optimal_emb; try eassumption.
      * exists k. split; [exact Hk|exact Hge].
      * intros [_ E]. discriminate.
      * lia.
  - (* Unicode / Ascii *)
    destruct nrest as [|n1 nr'].
    + destruct (prefilter_non_ascii _ _ _ _) as [[st e]|] eqn:Ep; [|exact I].
      destruct (WitnessFacts.prefilter_non_ascii_start _ _ _ _ _ _ _ Ep) as (c0 & rest & Hdrop & Hc0).
      unfold substring_1_non_ascii. destruct (best_pos _ _ _) as [[i s]|] eqn:Ebp; cbn [outcome_emb]; apply single_emb.
      * eapply (WitnessFacts.cands_head cfg Unicode (cs hs) (fun x => fst (class_norm cfg Unicode x) =? n0) n0 st); [|exact Ebp].
        intros x Hx. cbv beta in Hx. rewrite class_norm_fst in Hx. apply N.eqb_eq. exact Hx.
      * eapply WitnessFacts.occurs_single; eauto.
    + destruct (prefilter_non_ascii _ _ _ _) as [[st e]|] eqn:Ep; [|exact I].
      destruct (ScoreFacts.prefilter_non_ascii_start _ _ _ _ _ _ _ Ep) as (c0 & rest & Hdrop & Hc0).
      destruct (_ =? _); [apply Hex; discriminate|].
      eapply fuzzy_optimal_emb; try eassumption; [reflexivity | intros [E _]; discriminate |].
      unfold prefilter_non_ascii in Ep. destruct (position _ _); [|discriminate].
      destruct (position _ _); [|discriminate]. destruct (_ <? _) eqn:El; [discriminate|].
      injection Ep as <- <-. rewrite !lenN_cons in El. lia.
  - (* Unicode / Unicode *)
    destruct nrest as [|n1 nr'].
    + destruct (prefilter_non_ascii _ _ _ _) as [[st e]|] eqn:Ep; [|exact I].
      destruct (WitnessFacts.prefilter_non_ascii_start _ _ _ _ _ _ _ Ep) as (c0 & rest & Hdrop & Hc0).
      unfold substring_1_non_ascii. destruct (best_pos _ _ _) as [[i s]|] eqn:Ebp; cbn [outcome_emb]; apply single_emb.
      * eapply (WitnessFacts.cands_head cfg Unicode (cs hs) (fun x => fst (class_norm cfg Unicode x) =? n0) n0 st); [|exact Ebp].
        intros x Hx. cbv beta in Hx. rewrite class_norm_fst in Hx. apply N.eqb_eq. exact Hx.
      * eapply WitnessFacts.occurs_single; eauto.
    + destruct (prefilter_non_ascii _ _ _ _) as [[st e]|] eqn:Ep; [|exact I].
      destruct (ScoreFacts.prefilter_non_ascii_start _ _ _ _ _ _ _ Ep) as (c0 & rest & Hdrop & Hc0).
      destruct (_ =? _); [apply Hex; discriminate|].
      eapply fuzzy_optimal_emb; try eassumption; [reflexivity | intros [E _]; discriminate |].
      unfold prefilter_non_ascii in Ep. destruct (position _ _); [|discriminate].
      destruct (position _ _); [|discriminate]. destruct (_ <? _) eqn:El; [discriminate|].
      injection Ep as <- <-. rewrite !lenN_cons in El. lia.
Qed.

(* DP_witness_stmt with the additional hypothesis prefer_prefix cfg = false (the DP invariant of DPCore is
   stated for a zero prefix bonus) *)
Definition DP_witness_weak_stmt : Prop :=
  forall cfg hs ns s idx, prefer_prefix cfg = false -> needle_ok cfg (rp ns) (cs ns) = true ->
    run cfg Fuzzy hs ns = Match s idx ->
    embedding_b idx (cs ns) (nh cfg (rp hs) (cs hs)) 0 = true.

Lemma DP_witness_weak : DP_witness_weak_stmt.
Proof.
  intros cfg hs ns s idx Hpp Hok H. cbn [run] in H.
  pose proof (fuzzy_impl_emb cfg hs ns [] Hpp Hok) as G. rewrite H in G. exact G.
Qed.

(* ---- 4. C04_upper ------------------------------------------------------------------------------------ *)
(* the brute-force enumeration contains every valid embedding *)
Lemma embeddings_complete h' : forall n idxs lo fuel, (length n <= fuel)%nat ->
  embedding_b idxs n h' lo = true -> In idxs (embeddings fuel n h' lo).
Proof.
  induction n as [|x n IH]; intros idxs lo fuel Hf He.
  - destruct idxs; [|discriminate]. destruct fuel; left; reflexivity.
  - destruct idxs as [|i idxs]; [discriminate|]. destruct fuel as [|fuel]; [cbn in Hf; lia|].
    cbn [embedding_b] in He. apply andb_prop in He. destruct He as [He He4].
    apply andb_prop in He. destruct He as [He He3]. apply andb_prop in He. destruct He as [He1 He2].
    cbn [embeddings]. apply in_flat_map. exists i. split.
    + unfold all_positions. apply in_map_iff. exists (N.to_nat i). split; [lia|]. apply in_seq. lia.
    + rewrite He1, He3. cbn [andb]. apply in_map. apply IH; [cbn in Hf; lia|exact He4].
Qed.

Lemma fold_max_ge {A} (f : A -> N) : forall l init b,
  fold_left (fun best x => let s := f x in match best with Some b0 => Some (N.max b0 s) | None => Some s end) l init
  = Some b ->
  (forall x, In x l -> f x <= b) /\ (forall b0, init = Some b0 -> b0 <= b).
Proof.
  induction l as [|a l IH]; intros init b H; cbn [fold_left] in H.
  - split; [intros x []|]. intros b0 E. rewrite E in H. injection H as <-. lia.
  - apply IH in H. destruct H as [H1 H2]. split.
    + intros x [<-|Hx]; [|exact (H1 x Hx)]. destruct init as [b0|].
      * specialize (H2 _ eq_refl). lia.
      * exact (H2 _ eq_refl).
    + intros b0 ->. specialize (H2 _ eq_refl). lia.
Qed.

Lemma C04_upper : C04_upper_stmt.
Proof.
  intros cfg hs ns s idx b Hpp Hb Hlen Hok Hne Hrun Hbest.
  pose proof (DP_score cfg hs ns s idx Hpp Hb Hlen Hok Hrun) as Hs.
  pose proof (DP_witness_weak cfg hs ns s idx Hpp Hok Hrun) as He.
  unfold best_score in Hbest. apply fold_max_ge in Hbest. destruct Hbest as [Hall _].
  rewrite Hs. apply Hall. apply embeddings_complete; [lia|exact He].
Qed.

Print Assumptions C04_single.
Print Assumptions DP_score.
Print Assumptions DP_witness_weak.
Print Assumptions C04_upper.
