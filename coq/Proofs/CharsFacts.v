(* Facts about Model/Chars.v used by Props/C16.v (and as lemmas by C01..C05). *)
From Coq Require Import NArith List Bool Lia ZifyBool ZifyNat ZifyN FMapPositive.
From NV Require Import Base.Util Model.Chars Gen.GenUnicodeRef.
Import ListNotations.
Local Open Scope N_scope.

(* ---- the trie lookup is the association-list lookup ---------------------------------------------- *)
Lemma ckey_inj a b : ckey a = ckey b -> a = b.
Proof. unfold ckey. intros H. rewrite <- (N.pos_pred_succ a), <- (N.pos_pred_succ b), H. reflexivity. Qed.

Lemma trie_assoc c l :
  PositiveMap.find (ckey c)
    (fold_right (fun kv m => PositiveMap.add (ckey (fst kv)) (snd kv) m) (PositiveMap.empty N) l)
  = assoc c l.
Proof.
  induction l as [|[k v] l IH]; cbn [fold_right assoc fst snd].
  - apply PositiveMap.gempty.
  - destruct (N.eqb_spec k c) as [->|Hne].
    + apply PositiveMap.gss.
    + rewrite PositiveMap.gso; [exact IH|]. intros H. apply Hne. symmetry. exact (ckey_inj _ _ H).
Qed.

Lemma fold_lookup_spec c : fold_lookup c = assoc c case_fold_table.
Proof. apply trie_assoc. Qed.

(* ---- finite facts about the generated tables (each a computation over table rows) ---------------- *)
Lemma case_fold_sorted : strictly_ascending (map fst case_fold_table) = true.
Proof. vm_compute. reflexivity. Qed.

Lemma case_fold_is_reference : case_fold_table = ref_simple_fold.
Proof. vm_compute. reflexivity. Qed.

(* no folded value is itself a key: folding twice is folding once *)
Lemma case_fold_values_fixed :
  forallb (fun kv => match assoc (snd kv) case_fold_table with None => true | Some _ => false end)
          case_fold_table = true.
Proof. vm_compute. reflexivity. Qed.

Lemma to_lower_assoc c : to_lower c = match assoc c case_fold_table with Some v => v | None => c end.
Proof. unfold to_lower. rewrite fold_lookup_spec. reflexivity. Qed.

Lemma to_lower_idem c : to_lower (to_lower c) = to_lower c.
Proof.
  rewrite (to_lower_assoc c). destruct (assoc c case_fold_table) as [v|] eqn:E.
  - pose proof case_fold_values_fixed as H. rewrite forallb_forall in H.
    specialize (H (c, v) (assoc_in _ _ _ E)). cbn [snd] in H.
    rewrite to_lower_assoc. destruct (assoc v case_fold_table); [discriminate|reflexivity].
  - rewrite to_lower_assoc, E. reflexivity.
Qed.

Lemma is_upper_iff c : is_upper c = true <-> exists v, In (c, v) case_fold_table.
Proof.
  unfold is_upper. rewrite fold_lookup_spec. destruct (assoc c case_fold_table) as [v|] eqn:E.
  - split; [intros _; exists v; eapply assoc_in; eauto | reflexivity].
  - split; [discriminate | intros [v Hv]; exfalso; exact (assoc_none _ _ E v Hv)].
Qed.

(* ASCII behaviour of folding: exactly A-Z move, by +32 *)
Lemma to_lower_ascii_tbl :
  forallb (fun c => to_lower c =? (if in_range 65 90 c then c + 32 else c)) (Nrange 0 128) = true.
Proof. vm_compute. reflexivity. Qed.

Lemma to_lower_ascii c : c < 128 -> to_lower c = if in_range 65 90 c then c + 32 else c.
Proof.
  intros H. pose proof (forallb_Nrange _ _ _ to_lower_ascii_tbl c) as F.
  apply N.eqb_eq, F; lia.
Qed.

(* ---- normalize ----------------------------------------------------------------------------------- *)
Definition in_norm_blocks (c : N) : bool := existsb (fun b => in_range (fst b) (snd b) c) ref_norm_blocks.

(* outside the three blocks normalize is the identity: structural, from the translated if-chain *)
Lemma normalize_outside c : in_norm_blocks c = false -> normalize c = c.
Proof.
  unfold in_norm_blocks, ref_norm_blocks, in_range, normalize. cbn [existsb fst snd]. intros H.
  repeat match goal with
         | |- context [if ?b then _ else _] => destruct b eqn:?; [try reflexivity; exfalso; lia|]
         end.
  exfalso; lia.
Qed.

Definition block_chars : list N := Nrange 160 512 ++ Nrange 7680 256 ++ Nrange 8304 48.

Lemma in_block_chars c : in_norm_blocks c = true -> In c block_chars.
Proof.
  unfold in_norm_blocks, ref_norm_blocks, in_range. cbn [existsb fst snd]. intros H.
  unfold block_chars. rewrite !in_app_iff.
  destruct (N.leb_spec 160 c), (N.leb_spec c 671); [left; apply in_Nrange; lia | |  | ];
  (destruct (N.leb_spec 7680 c), (N.leb_spec c 7935); [right; left; apply in_Nrange; lia | | | ];
   right; right; apply in_Nrange; lia).
Qed.

Lemma norm_tables_in_range :
  length latin_1ab = 512%nat /\ length latin_extended_additional = 256%nat /\
  length superscripts_and_subscripts = 48%nat.
Proof. vm_compute. auto. Qed.

Lemma normalize_idem_tbl : forallb (fun c => normalize (normalize c) =? normalize c) block_chars = true.
Proof. vm_compute. reflexivity. Qed.

Lemma normalize_idem c : normalize (normalize c) = normalize c.
Proof.
  destruct (in_norm_blocks c) eqn:E.
  - pose proof normalize_idem_tbl as H. rewrite forallb_forall in H.
    apply N.eqb_eq, H, in_block_chars, E.
  - rewrite (normalize_outside c E). apply normalize_outside, E.
Qed.

Lemma normalize_ascii c : c < 128 -> normalize c = c.
Proof.
  intros H. apply normalize_outside. unfold in_norm_blocks, ref_norm_blocks, in_range.
  cbn [existsb fst snd]. lia.
Qed.

(* the reference rows all lie inside the documented blocks (sanity of the reference data) *)
Lemma nfkd_rows_in_blocks : forallb (fun ca => in_norm_blocks (fst ca)) ref_nfkd_ascii_base = true.
Proof. vm_compute. reflexivity. Qed.

(* ---- the two normalisation paths agree ------------------------------------------------------------ *)
Lemma class_ascii_upper cfg c : cls_eqb (class_ascii cfg c) CUpper = in_range 65 90 c.
Proof.
  unfold class_ascii, in_range.
  destruct ((97 <=? c) && (c <=? 122)) eqn:E1; [cbn; lia|].
  destruct ((65 <=? c) && (c <=? 90)) eqn:E2; [reflexivity|].
  destruct ((48 <=? c) && (c <=? 57)); [reflexivity|].
  destruct (std_is_ascii_whitespace c); [reflexivity|].
  destruct (existsb _ _); reflexivity.
Qed.

Lemma class_norm_fst cfg r c : fst (class_norm cfg r c) = norm cfg r c.
Proof.
  destruct r; cbn [class_norm norm].
  - unfold class_norm_ascii, norm_ascii. cbn [fst]. rewrite class_ascii_upper. reflexivity.
  - unfold class_norm_char, norm_char. destruct (N.ltb_spec c 128) as [Hlt|Hge].
    + unfold class_norm_ascii. cbn [fst]. rewrite class_ascii_upper.
      rewrite (normalize_ascii c Hlt).
      destruct (normalize_on cfg), (ignore_case cfg); cbn [andb]; rewrite ?(to_lower_ascii c Hlt);
        try reflexivity.
    + reflexivity.
Qed.

Lemma class_norm_snd cfg r c : snd (class_norm cfg r c) = class cfg r c.
Proof.
  destruct r; cbn [class_norm class]; [reflexivity|].
  unfold class_norm_char. destruct (c <? 128); reflexivity.
Qed.

(* NOTE: the composition  to_lower . normalize  is NOT idempotent: U+0194, U+0198, U+01F6, U+1E9E are
   left alone by normalize, fold to U+0263, U+0199, U+0195, U+00DF, and those normalise to g, k, h, s.
   The property asks idempotence of each map separately (to_lower_idem, normalize_idem). *)
Lemma norm_not_idem_witness :
  let cfg := config_of preset_default true true false in
  norm cfg Unicode (norm cfg Unicode 404) <> norm cfg Unicode 404.
Proof. vm_compute. discriminate. Qed.
