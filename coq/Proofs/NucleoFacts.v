(* Proofs of the protocol statements C20 / C12 / C19 over Model/Nucleo.v (statements in Spec/NucleoStatements.v).

   Structure: four internal modules (so that the local `Arguments ... : simpl never` declarations of one part do
   not leak into the next), then the theorems under their official names.
     NF_A  lifting lemma, frame lemmas for the run phases, control / bookkeeping invariant InvA
     NF_B  C20_count, C12_restart, C12_snapshot_stable, C12_pickup_current
     NF_C  stream monotonicity, ghost / snapshot-view invariant InvC, C19_unchanged, C19_idle
     NF_D  placeholders sort last, worker validity (WI / AL / nbad), state invariant InvW, C12_no_mix *)
From Coq Require Import ZArith NArith List Bool Lia ZifyBool ZifyN ZifyNat.
From NV Require Import Model.Nucleo Spec.NucleoStatements.
Import ListNotations.
Import Nucleo.
Local Open Scope N_scope.

Module NF_A.

#[local] Arguments N.ltb : simpl never.
#[local] Arguments N.eqb : simpl never.
#[local] Arguments N.leb : simpl never.
#[local] Arguments N.sub : simpl never.
#[local] Arguments N.add : simpl never.
#[local] Arguments N.min : simpl never.
#[local] Arguments N.max : simpl never.
#[local] Arguments N.of_nat : simpl never.
#[local] Arguments N.to_nat : simpl never.
#[local] Arguments lenN : simpl never.
#[local] Arguments stream_of : simpl never.
#[local] Arguments set_stream : simpl never.
#[local] Arguments set_nth : simpl never.
#[local] Arguments count_of : simpl never.
#[local] Arguments published : simpl never.
#[local] Arguments item_count : simpl never.
#[local] Arguments run_work : simpl never.
#[local] Arguments run_sort : simpl never.
#[local] Arguments sort_matches : simpl never.
#[local] Arguments filter : simpl never.
#[local] Arguments existsb : simpl never.
#[local] Arguments find : simpl never.
#[local] Arguments PLACEHOLDER : simpl never.

(* ---- the one-event well-formedness condition and the lifting lemma --------------------------------- *)
Definition wf1 (s : nstate) (e : event) : Prop :=
  match e with
  | ENewInjector h => ~ In h (map fst (injectors s))
  | ECloneInjector h h' => In h (map fst (injectors s)) /\ ~ In h' (map fst (injectors s))
  | EReserve sid => sid < next_sid s
  | EPublish sid i => sid < next_sid s /\ i < count_of s sid
  | _ => True
  end.

Section Lift.
Variable sc : N -> N -> N -> option N.
Variable ln : N -> N -> N.
Variable P : nstate -> Prop.
Hypothesis P_init : P init_nstate.
Hypothesis P_step : forall s e, P s -> wf1 s e -> P (do_event sc ln s e).

Lemma lift_run : forall es s, P s -> wf_events sc ln s es -> P (run_events sc ln s es).
Proof.
  induction es as [|e es IH]; intros s HP Hwf; [exact HP|].
  cbn [run_events]. destruct Hwf as [H1 H2]. apply IH; [apply P_step; [exact HP|exact H1]|exact H2].
Qed.

Lemma lift_reachable : forall s, reachable sc ln s -> P s.
Proof. intros s [es [Hwf ->]]. apply lift_run; [exact P_init|exact Hwf]. Qed.
End Lift.

(* ---- the worker fields that the run phases never touch ---------------------------------------------- *)
Section Frame.
Variable sc : N -> N -> N -> option N.

Lemma run_work_frame seen e canc st cl w :
  let w' := fst (run_work sc seen e canc st cl w) in
  w_running w' = w_running w /\ w_was_canceled w' = w_was_canceled w /\ w_pat w' = w_pat w /\ w_sid w' = w_sid w /\
  (snd (run_work sc seen e canc st cl w) = REnd true \/ exists u, snd (run_work sc seen e canc st cl w) = RSort u).
Proof.
  unfold run_work.
  destruct cl; cbn [w_pat w_upd];
  (destruct (pat_is_empty (w_pat w)); [cbn; auto 10|]);
  destruct st; cbn [reset_matches w_matches w_upd];
  repeat match goal with
  | |- context [match ?l with [] => _ | _ :: _ => _ end] => destruct l
  end;
  unfold scan_score, rescore, scan_trivial, reset_matches; destruct canc; cbn; eauto 10.
Qed.

Lemma run_sort_frame ln canc unm w :
  let w' := fst (run_sort ln canc unm w) in
  w_running w' = w_running w /\ w_pat w' = w_pat w /\ w_sid w' = w_sid w /\
  w_last w' = w_last w /\ w_in_flight w' = w_in_flight w /\
  w_was_canceled w' = (if canc then true else w_was_canceled w) /\
  snd (run_sort ln canc unm w) = REnd (negb canc).
Proof. unfold run_sort. destruct canc; cbn; auto 10. Qed.
End Frame.

(* ---- Part A: control / bookkeeping invariant --------------------------------------------------------- *)
Definition sid_rel (s : nstate) : Prop :=
  match ui_state s with SCleared => w_sid (wk s) <> cur s | _ => w_sid (wk s) = cur s end.

(* the contexts in which the cancel flag may be set: the next thing the UI thread does with the worker is
   the first (cancelling) inner call of a tick *)
Definition canc_ctx (s : nstate) : Prop :=
  match tpc s with
  | TBeforeLock _ _ => True
  | TIdle | TBegun _ => ui_state s <> SFresh
  | _ => False
  end.
Definition wc_ctx (s : nstate) : Prop :=
  match tpc s with
  | TBeforeSpawn cf _ _ _ _ _ _ => cf = true
  | _ => canc_ctx s
  end.

Definition inv_tpc (s : nstate) : Prop :=
  match tpc s with
  | TIdle | TBegun _ => sid_rel s /\ (ui_status s = Unchanged -> w_pat (wk s) = ui_pat s)
  | TBeforeLock st _ => sid_rel s /\ (st <> Unchanged \/ ui_state s <> SFresh)
  | TBeforeTry sec ch1 _ | TTryFailed sec ch1 | TAfterRearm sec ch1 =>
    ui_state s = SFresh /\ w_sid (wk s) = cur s /\ w_pat (wk s) = ui_pat s /\ (sec = false -> ch1 = false)
  | TBeforeSpawn cf st cl ch sec ch1 _ =>
    w_sid (wk s) = cur s /\ w_pat (wk s) = ui_pat s /\ (sec = false -> ch1 = false) /\
    (cf = true -> sec = false /\ (st <> Unchanged \/ cl = true)) /\
    (cf = false -> ui_state s = SFresh /\ w_was_canceled (wk s) = false /\ cl = false /\ st = Unchanged) /\
    w_running (wk s) = false
  end.

Definition inv_lock (s : nstate) : Prop :=
  (match tpc s with TBeforeSpawn _ _ _ _ _ _ _ => lock s = HeldTick | _ => lock s <> HeldTick end) /\
  (match lock s with
   | HeldRun pc _ _ => w_running (wk s) = true /\
                       w_was_canceled (wk s) = match pc with REnd false => true | _ => false end
   | _ => True end).

Record InvA (s : nstate) : Prop := {
  a_cur : cur s < next_sid s;
  a_wsid : w_sid (wk s) < next_sid s;
  a_snsid : sn_sid (snap s) < next_sid s;
  a_tpc : inv_tpc s;
  a_lock : inv_lock s;
  a_canc : canceled s = true -> canc_ctx s;
  a_wc : w_was_canceled (wk s) = true -> wc_ctx s
}.

Lemma InvA_init : InvA init_nstate.
Proof.
  split; cbn; try lia; try discriminate;
  unfold inv_tpc, inv_lock, sid_rel; cbn; auto; split; [discriminate|exact I].
Qed.

Ltac dstate s :=
  let w := fresh "w" in
  destruct s as [str cu nx us up ust sn w lk cn ntf tp lt nts inj po gs gp go];
  destruct w as [wr wc wl wi wm wp ws].

Section StepA.
Variable sc : N -> N -> N -> option N.
Variable ln : N -> N -> N.

Ltac breakA :=
  unfold inv_tpc, inv_lock, canc_ctx, wc_ctx, sid_rel in *; cbn in *.

Ltac fin0 := subst; try discriminate; try congruence; try lia; auto.
Ltac fin := repeat split; intros; fin0; intuition fin0.

Lemma InvA_tick s : InvA s -> InvA (do_event sc ln s ETick).
Proof.
  intros [H1 H2 H3 H4 H5 H6 H7].
  unfold do_event, enabled_tick, step_tick.
  dstate s. cbn in H1, H2, H3.
  destruct tp as [|t0|st t0|sec ch1 t0|sec ch1|sec ch1|cf st cl ch sec ch1 t0]; cbn [tpc].
  - split; assumption.
  - (* TBegun *)
    cbn [ui_status ui_state]. destruct ust, us; cbn; split; breakA; fin.
  - (* TBeforeLock *)
    cbn [lock]. destruct lk; try (split; assumption).
    unfold tick_body. cbn.
    destruct wr, wc, us; cbn; split; breakA; fin.
  - (* TBeforeTry *)
    cbn [lock]. destruct lk.
    + unfold tick_body. cbn.
      destruct t0; cbn;
      destruct (item_count _ <? count_of _ _); destruct wr, wc, us, sec; cbn; split; breakA; fin.
    + destruct t0; cbn; split; breakA; fin.
    + destruct t0; cbn; split; breakA; fin.
  - (* TTryFailed *) cbn. split; breakA; fin.
  - (* TAfterRearm *)
    cbn. destruct lk.
    + unfold tick_body. cbn.
      destruct (item_count _ <? count_of _ _); destruct wr, wc, us, sec; cbn; split; breakA; fin.
    + cbn. split; breakA; fin.
    + cbn. split; breakA; fin.
  - (* TBeforeSpawn *)
    cbn. destruct sec, cf; cbn; split; breakA; fin.
Qed.

Lemma InvA_run s seen e : InvA s -> InvA (do_event sc ln s (ERun seen e)).
Proof.
  intros [H1 H2 H3 H4 H5 H6 H7].
  unfold do_event, step_run.
  dstate s. cbn in H1, H2, H3. cbn [post].
  destruct po as [|c| |].
  - cbn [lock]. destruct lk as [| |pc st cl]; try (split; assumption).
    destruct pc as [|unm|c]; cbn [wk canceled].
    + match goal with |- context [run_work ?a ?b ?c ?d ?e ?f ?g] =>
        pose proof (run_work_frame a b c d e f g) as HF; destruct (run_work a b c d e f g) as [w' pc'] end.
      cbn in HF. destruct HF as (F1 & F2 & F3 & F4 & F5). destruct w' as [wr' wc' wl' wi' wm' wp' ws']. cbn in F1, F2, F3, F4.
      destruct F5 as [->|[u ->]]; destruct tp; split; breakA; fin.
    + match goal with |- context [run_sort ?a ?b ?c ?d] =>
        pose proof (run_sort_frame a b c d) as HF; destruct (run_sort a b c d) as [w' pc'] end.
      cbn in HF. destruct HF as (F1 & F2 & F3 & F4 & F5 & F6 & F7). destruct w' as [wr' wc' wl' wi' wm' wp' ws']. cbn in F1, F2, F3, F4, F5, F6, F7.
      destruct cn; subst; destruct tp; split; breakA; fin.
    + destruct tp; split; breakA; fin.
  - destruct (c && should_notify _); split; assumption.
  - split; assumption.
  - split; assumption.
Qed.

Lemma InvA_other s e : InvA s ->
  match e with ETick | ERun _ _ => False | _ => True end -> InvA (do_event sc ln s e).
Proof.
  intros [H1 H2 H3 H4 H5 H6 H7] He.
  destruct e as [sid|sid i|h|h h'|h|p ap lneg|clear|t0| |seen e|]; try contradiction; unfold do_event.
  - split; assumption.
  - split; assumption.
  - destruct (tpc s); split; assumption.
  - destruct (find _ _) as [[? ?]|]; split; assumption.
  - split; assumption.
  - dstate s. cbn in H1, H2, H3. cbn [tpc]. destruct tp; try (split; assumption).
    destruct (ap && _ && _); split; breakA; fin.
  - dstate s. cbn in H1, H2, H3. cbn [tpc]. destruct tp; try (split; assumption).
    destruct clear; split; breakA; fin.
  - dstate s. cbn in H1, H2, H3. cbn [tpc]. destruct tp; try (split; assumption).
  - split; assumption.
Qed.

Lemma InvA_step s e : InvA s -> InvA (do_event sc ln s e).
Proof.
  intros H. destruct e; try (apply InvA_other; [exact H|exact I]).
  - apply InvA_tick; exact H.
  - apply InvA_run; exact H.
Qed.

Lemma InvA_reachable s : reachable sc ln s -> InvA s.
Proof. apply lift_reachable; [exact InvA_init|intros; apply InvA_step; assumption]. Qed.
End StepA.
End NF_A.
Import NF_A.

Module NF_B.
(* ---- C20 --------------------------------------------------------------------------------------------- *)
Lemma C20_count_i : forall sc ln, C20_count_stmt sc ln.
Proof.
  intros sc ln s Hr Hidle. apply InvA_reachable in Hr. destruct Hr as [_ _ _ Ht _ _ _].
  unfold ui_idle in Hidle. unfold inv_tpc in Ht. rewrite Hidle in Ht. destruct Ht as [Hsid _].
  unfold sid_rel in Hsid.
  unfold active_injectors, strong_count_cur, live_injectors.
  set (live := lenN _). set (b := if sn_sid (snap s) =? cur s then 1 else 0).
  destruct (ui_state s).
  - rewrite Hsid, N.eqb_refl. lia.
  - apply N.eqb_neq in Hsid. rewrite Hsid. lia.
  - rewrite Hsid, N.eqb_refl. lia.
Qed.

(* ---- C12 (the parts that need no worker invariant) --------------------------------------------------- *)
Lemma C12_restart_i : forall sc ln, C12_restart_stmt sc ln.
Proof.
  intros sc ln s clear Hr Hidle. unfold ui_idle in Hidle.
  cbn zeta. unfold do_event. rewrite Hidle.
  destruct clear; cbn; (split; [reflexivity|split; [intros; lia|reflexivity]]).
Qed.

Lemma snap_run sc ln s seen e : snap (do_event sc ln s (ERun seen e)) = snap s.
Proof.
  unfold do_event, step_run.
  destruct (post s); try reflexivity.
  destruct (lock s) as [| |pc st cl]; try reflexivity.
  destruct pc; try reflexivity.
  + destruct (run_work _ _ _ _ _ _ _); reflexivity.
  + destruct (run_sort _ _ _ _); reflexivity.
Qed.

Lemma C12_snapshot_stable_i : forall sc ln, C12_snapshot_stable_stmt sc ln.
Proof.
  intros sc ln s e _ He.
  destruct e; try contradiction; try reflexivity.
  - unfold do_event. destruct (tpc s); reflexivity.
  - unfold do_event. destruct (find _ _) as [[? ?]|]; reflexivity.
  - unfold do_event. destruct (tpc s); reflexivity.
  - unfold do_event. destruct (tpc s); reflexivity.
  - apply snap_run.
Qed.

(* the snapshot after tick_body: either the old one or the view of the worker *)
Definition view (w : worker) : snapshot :=
  {| sn_count := item_count w; sn_matches := w_matches w; sn_pat := w_pat w; sn_sid := w_sid w |}.

Lemma snap_tick_body s cf st sec ch1 t0 :
  snap (tick_body s cf st sec ch1 t0) =
  if w_running (wk s) && negb (w_was_canceled (wk s)) && (match ui_state s with SFresh => true | _ => false end)
  then view (wk s) else snap s.
Proof.
  dstate s. unfold tick_body, view. cbn.
  destruct wr, wc, us; cbn;
  destruct (cf || _); cbn; try reflexivity; destruct sec, cf; reflexivity.
Qed.

Lemma C12_pickup_current_i : forall sc ln, C12_pickup_current_stmt sc ln.
Proof.
  intros sc ln s Hr. apply InvA_reachable in Hr. destruct Hr as [_ _ _ Ht _ _ _].
  unfold do_event, enabled_tick, step_tick. unfold inv_tpc in Ht.
  destruct (tpc s) as [|t0|st t0|sec ch1 t0|sec ch1|sec ch1|cf st cl ch sec ch1 t0] eqn:Et; try congruence.
  - destruct (negb _ || _); cbn; congruence.
  - destruct (lock s) eqn:El; try congruence.
    rewrite snap_tick_body. cbn [wk ui_state upd_lock snap]. unfold sid_rel in Ht.
    destruct (_ && _ && _) eqn:E; [|congruence]. intros _. cbn.
    destruct (ui_state s); try (rewrite !andb_false_r in E; discriminate). apply Ht.
  - assert (Hb : snap (tick_body (upd_lock s HeldTick) false Unchanged sec ch1 t0) <>
                 snap s -> sn_sid (snap (tick_body (upd_lock s HeldTick) false Unchanged sec ch1 t0)) = cur s).
    { rewrite snap_tick_body. cbn [wk ui_state upd_lock snap].
      destruct (_ && _ && _); [|congruence]. intros _. cbn. apply Ht. }
    destruct t0; destruct (lock s); cbn; first [exact Hb|congruence].
  - cbn; congruence.
  - assert (Hb : snap (tick_body (upd_lock s HeldTick) false Unchanged sec ch1 true) <>
                 snap s -> sn_sid (snap (tick_body (upd_lock s HeldTick) false Unchanged sec ch1 true)) = cur s).
    { rewrite snap_tick_body. cbn [wk ui_state upd_lock snap].
      destruct (_ && _ && _); [|congruence]. intros _. cbn. apply Ht. }
    destruct (lock s); cbn; first [exact Hb|congruence].
  - destruct sec, cf; cbn; congruence.
Qed.
End NF_B.
Import NF_B.

Module NF_C.
(* ---- streams: publication is monotone ---------------------------------------------------------------- *)
Lemma stream_of_set_stream a b v l :
  stream_of a (set_stream b v l) = if a =? b then v else stream_of a l.
Proof.
  induction l as [|[k x] l IH]; cbn [set_stream stream_of].
  - rewrite (N.eqb_sym b a). reflexivity.
  - destruct (N.eqb_spec k b) as [->|Hkb]; cbn [stream_of].
    + destruct (N.eqb_spec b a) as [->|Hba].
      * rewrite N.eqb_refl. reflexivity.
      * destruct (N.eqb_spec a b); [congruence|reflexivity].
    + destruct (N.eqb_spec k a) as [->|Hka].
      * destruct (N.eqb_spec a b); [congruence|reflexivity].
      * exact IH.
Qed.

Definition npub (str : list (N * list bool)) (sid : N) : N := lenN (filter (fun b : bool => b) (stream_of sid str)).

Lemma filter_app_false (l : list bool) : filter (fun b : bool => b) (l ++ [false]) = filter (fun b : bool => b) l.
Proof. rewrite filter_app. cbn. apply app_nil_r. Qed.

Lemma filter_set_nth_true n (l : list bool) :
  (length (filter (fun b : bool => b) l) <= length (filter (fun b : bool => b) (set_nth n true l)))%nat.
Proof.
  revert n. induction l as [|x l IH]; intros n; [destruct n; cbn; lia|].
  destruct n; cbn [set_nth].
  - destruct x; cbn [filter length]; lia.
  - specialize (IH n). destruct x; cbn [filter length]; lia.
Qed.

Lemma length_set_nth {A} n (v : A) l : length (set_nth n v l) = length l.
Proof. revert n. induction l as [|x l IH]; intros [|n]; cbn [set_nth length]; auto. Qed.

Lemma nth_set_nth_true n k (l : list bool) : nth k l false = true -> nth k (set_nth n true l) false = true.
Proof.
  revert n k. induction l as [|x l IH]; intros [|n] [|k]; cbn [set_nth nth]; auto.
Qed.

Lemma filter_length_le {A} (f : A -> bool) l : (length (filter f l) <= length l)%nat.
Proof. induction l as [|x l IH]; cbn [filter length]; [lia|]. destruct (f x); cbn [length]; lia. Qed.

Lemma npub_le_count str sid : npub str sid <= lenN (stream_of sid str).
Proof. unfold npub, lenN. pose proof (filter_length_le (fun b : bool => b) (stream_of sid str)). lia. Qed.

Lemma npub_reserve str sid a : npub str a <= npub (set_stream sid (stream_of sid str ++ [false]) str) a.
Proof.
  unfold npub. rewrite stream_of_set_stream. destruct (N.eqb_spec a sid) as [->|]; [|lia].
  rewrite filter_app_false. lia.
Qed.

Lemma npub_publish str sid i a : npub str a <= npub (set_stream sid (set_nth i true (stream_of sid str)) str) a.
Proof.
  unfold npub. rewrite stream_of_set_stream. destruct (N.eqb_spec a sid) as [->|]; [|lia].
  pose proof (filter_set_nth_true i (stream_of sid str)). unfold lenN. lia.
Qed.

#[local] Arguments N.ltb : simpl never.
#[local] Arguments N.leb : simpl never.
#[local] Arguments N.sub : simpl never.
#[local] Arguments N.add : simpl never.
#[local] Arguments N.min : simpl never.
#[local] Arguments N.max : simpl never.
#[local] Arguments N.of_nat : simpl never.
#[local] Arguments N.to_nat : simpl never.
#[local] Arguments lenN : simpl never.
#[local] Arguments stream_of : simpl never.
#[local] Arguments set_stream : simpl never.
#[local] Arguments set_nth : simpl never.
#[local] Arguments count_of : simpl never.
#[local] Arguments published : simpl never.
#[local] Arguments item_count : simpl never.
#[local] Arguments run_work : simpl never.
#[local] Arguments run_sort : simpl never.
#[local] Arguments sort_matches : simpl never.
#[local] Arguments filter : simpl never.
#[local] Arguments existsb : simpl never.
#[local] Arguments find : simpl never.
#[local] Arguments PLACEHOLDER : simpl never.

(* ---- Part C: ghost bookkeeping of the tick in progress, and snapshot = view of the idle worker ------- *)
Definition inv_gsnap (s : nstate) : Prop :=
  match tpc s with
  | TIdle => True
  | TBegun _ | TBeforeLock _ _ => snap s = g_snap_begin s
  | TBeforeTry _ ch1 _ | TTryFailed _ ch1 | TAfterRearm _ ch1 => ch1 = false -> snap s = g_snap_begin s
  | TBeforeSpawn _ _ _ ch _ ch1 _ => ch1 || ch = false -> snap s = g_snap_begin s
  end.

Record InvC (s : nstate) : Prop := {
  c_gsnap : inv_gsnap s;
  c_gpub : tpc s <> TIdle -> g_pub_begin s <= npub (streams s) (cur s);
  c_view : w_running (wk s) = false -> ui_state s = SFresh ->
           (match tpc s with TBeforeSpawn _ _ _ _ _ _ _ => False | _ => True end) -> snap s = view (wk s)
}.

Lemma InvC_init : InvC init_nstate.
Proof. split; cbn; try exact I; try congruence; discriminate. Qed.

Section StepC.
Variable sc : N -> N -> N -> option N.
Variable ln : N -> N -> N.

Ltac breakC :=
  unfold inv_gsnap, inv_tpc, inv_lock, canc_ctx, wc_ctx, sid_rel, view, count_of, item_count in *; cbn in *.
Ltac fin0 := repeat match goal with H : orb _ _ = false |- _ => apply orb_false_elim in H; destruct H end;
  subst; try discriminate; try congruence; try lia; auto.
Ltac fin := repeat split; intros; fin0; intuition fin0.

Lemma InvC_tick s : InvA s -> InvC s -> InvC (do_event sc ln s ETick).
Proof.
  intros [_ _ _ A4 A5 A6 A7] [C1 C2 C3].
  unfold do_event, enabled_tick, step_tick.
  dstate s.
  destruct tp as [|t0|st t0|sec ch1 t0|sec ch1|sec ch1|cf st cl ch sec ch1 t0]; cbn [tpc].
  - split; assumption.
  - cbn [ui_status ui_state]. destruct ust, us; cbn; split; breakC; fin.
  - cbn [lock]. destruct lk; try (split; assumption).
    unfold tick_body. cbn.
    destruct wr, wc, us; cbn; split; breakC; fin.
  - cbn [lock]. destruct lk.
    + unfold tick_body. cbn.
      destruct t0; cbn;
      destruct (item_count _ <? count_of _ _); destruct wr, wc, us, sec; cbn; split; breakC; fin.
    + destruct t0; cbn; split; breakC; fin.
    + destruct t0; cbn; split; breakC; fin.
  - cbn. split; breakC; fin.
  - cbn. destruct lk.
    + unfold tick_body. cbn.
      destruct (item_count _ <? count_of _ _); destruct wr, wc, us, sec; cbn; split; breakC; fin.
    + cbn. split; breakC; fin.
    + cbn. split; breakC; fin.
  - cbn. destruct sec, cf; cbn; split; breakC; fin.
Qed.

Lemma InvC_run s seen e : InvA s -> InvC s -> InvC (do_event sc ln s (ERun seen e)).
Proof.
  intros [_ _ _ A4 A5 A6 A7] [C1 C2 C3].
  unfold do_event, step_run.
  dstate s. cbn [post].
  destruct po as [|c| |].
  - cbn [lock]. destruct lk as [| |pc st cl]; try (split; assumption).
    destruct pc as [|unm|c]; cbn [wk canceled].
    + match goal with |- context [run_work ?a ?b ?c ?d ?e ?f ?g] =>
        pose proof (run_work_frame a b c d e f g) as HF; destruct (run_work a b c d e f g) as [w' pc'] end.
      cbn in HF. destruct HF as (F1 & F2 & F3 & F4 & F5). destruct w' as [wr' wc' wl' wi' wm' wp' ws']. cbn in F1, F2, F3, F4.
      destruct tp; split; breakC; fin.
    + match goal with |- context [run_sort ?a ?b ?c ?d] =>
        pose proof (run_sort_frame a b c d) as HF; destruct (run_sort a b c d) as [w' pc'] end.
      cbn in HF. destruct HF as (F1 & F2 & F3 & F4 & F5 & F6 & F7). destruct w' as [wr' wc' wl' wi' wm' wp' ws']. cbn in F1, F2, F3, F4, F5, F6, F7.
      destruct tp; split; breakC; fin.
    + split; assumption.
  - destruct (c && should_notify _); split; assumption.
  - split; assumption.
  - split; assumption.
Qed.

Lemma InvC_other s e : InvC s ->
  match e with ETick | ERun _ _ => False | _ => True end -> InvC (do_event sc ln s e).
Proof.
  intros [C1 C2 C3] He.
  destruct e as [sid|sid i|h|h h'|h|p ap lneg|clear|t0| |seen e|]; try contradiction; unfold do_event.
  - split; try assumption. cbn. intros H. etransitivity; [exact (C2 H)|apply npub_reserve].
  - split; try assumption. cbn. intros H. etransitivity; [exact (C2 H)|apply npub_publish].
  - pose proof (Build_InvC s C1 C2 C3) as HC. clear C1 C2 C3. destruct (tpc s); try exact HC. destruct HC; split; assumption.
  - destruct (find _ _) as [[? ?]|]; split; assumption.
  - split; assumption.
  - pose proof (Build_InvC s C1 C2 C3) as HC. clear C1 C2 C3.
    destruct (tpc s) eqn:Et; try exact HC. destruct HC as [C1 C2 C3].
    split; unfold inv_gsnap in *; cbn; rewrite ?Et; try assumption; try congruence. intros; apply C3; auto. rewrite Et; exact I.
  - pose proof (Build_InvC s C1 C2 C3) as HC. clear C1 C2 C3.
    destruct (tpc s) eqn:Et; try exact HC. destruct HC as [C1 C2 C3].
    destruct clear; split; unfold inv_gsnap; cbn; rewrite ?Et; try exact I; try congruence; discriminate.
  - pose proof (Build_InvC s C1 C2 C3) as HC. clear C1 C2 C3.
    destruct (tpc s) eqn:Et; try exact HC. destruct HC as [C1 C2 C3].
    split; unfold inv_gsnap; cbn; try reflexivity.
    + intros H1 H2 _. apply C3; auto. rewrite Et; exact I.
  - split; assumption.
Qed.

Lemma InvAC_step s e : InvA s /\ InvC s -> InvA (do_event sc ln s e) /\ InvC (do_event sc ln s e).
Proof.
  intros [HA HC]. split; [apply InvA_step; exact HA|].
  destruct e; try (apply InvC_other; [exact HC|exact I]).
  - apply InvC_tick; assumption.
  - apply InvC_run; assumption.
Qed.

Lemma InvAC_reachable s : reachable sc ln s -> InvA s /\ InvC s.
Proof.
  apply (lift_reachable sc ln (fun s => InvA s /\ InvC s)).
  - split; [exact InvA_init|exact InvC_init].
  - intros; apply InvAC_step; assumption.
Qed.
End StepC.

(* ---- C19 --------------------------------------------------------------------------------------------- *)
Ltac breakC :=
  unfold inv_gsnap, inv_tpc, inv_lock, canc_ctx, wc_ctx, sid_rel, view, count_of, item_count in *; cbn in *.
Ltac fin0 := repeat match goal with H : orb _ _ = false |- _ => apply orb_false_elim in H; destruct H end;
  subst; cbn [sn_count sn_pat sn_sid sn_matches] in *; try discriminate; try congruence; try lia; auto.
Ltac fin := repeat split; intros; fin0; intuition fin0.

Lemma C19_both sc ln s s' c r : reachable sc ln s -> tick_returns sc ln s s' (c, r) ->
  (c = false -> snap s' = g_snap_begin s') /\
  (r = false -> g_pub_begin s' <= sn_count (snap s') /\ sn_pat (snap s') = ui_pat s' /\ sn_sid (snap s') = cur s').
Proof.
  intros Hr (Hne & -> & Hidle & Hlt). apply InvAC_reachable in Hr.
  destruct Hr as [[_ _ _ A4 A5 A6 A7] [C1 C2 C3]].
  specialize (C2 Hne). pose proof (npub_le_count (streams s) (cur s)) as Hle.
  revert Hidle Hlt. unfold do_event, enabled_tick, step_tick.
  dstate s. cbn in Hne.
  destruct tp as [|t0|st t0|sec ch1 t0|sec ch1|sec ch1|cf st cl ch sec ch1 t0]; cbn [tpc]; try congruence.
  - cbn [ui_status ui_state]. destruct ust, us; cbn; discriminate.
  - cbn [lock]. destruct lk; cbn; try discriminate.
  - cbn [lock]. destruct lk.
    + unfold tick_body. cbn.
      destruct t0; cbn;
      destruct (item_count _ <? count_of _ _) eqn:Elt; destruct wr, wc, us, sec; cbn; try discriminate;
      intros _ Hlt; injection Hlt as <- <-; breakC; fin.
    + destruct t0; cbn; discriminate.
    + destruct t0; cbn; discriminate.
  - cbn. discriminate.
  - cbn. destruct lk.
    + unfold tick_body. cbn.
      destruct (item_count _ <? count_of _ _) eqn:Elt; destruct wr, wc, us, sec; cbn; try discriminate;
      intros _ Hlt; injection Hlt as <- <-; breakC; fin.
    + cbn. intros _ Hlt; injection Hlt as <- <-; breakC; fin.
    + cbn. intros _ Hlt; injection Hlt as <- <-; breakC; fin.
  - cbn. destruct sec, cf; cbn; try discriminate; intros _ Hlt; injection Hlt as <- <-; breakC; fin.
Qed.

Lemma C19_unchanged_i : forall sc ln, C19_unchanged_stmt sc ln.
Proof. intros sc ln s s' r Hr Ht. exact (proj1 (C19_both sc ln s s' false r Hr Ht) eq_refl). Qed.

Lemma C19_idle_i : forall sc ln, C19_idle_stmt sc ln.
Proof. intros sc ln s s' c Hr Ht. exact (proj2 (C19_both sc ln s s' c false Hr Ht) eq_refl). Qed.
End NF_C.
Import NF_C.

Module NF_D.
(* ---- placeholders sort last ------------------------------------------------------------------------- *)
Definition PHM : mtch := {| m_score := 0; m_idx := PLACEHOLDER |}.
Definition is_phm (m : mtch) : bool := (m_score m =? 0) && (m_idx m =? PLACEHOLDER).

Lemma is_phm_spec m : reflect (m = PHM) (is_phm m).
Proof.
  unfold is_phm, PHM. destruct m as [s i]; cbn [m_score m_idx].
  destruct (N.eqb_spec s 0) as [->|Hs]; destruct (N.eqb_spec i PLACEHOLDER) as [->|Hi]; cbn; constructor; congruence.
Qed.

Lemma firstn_In {A} (m : A) n l : In m (firstn n l) -> In m l.
Proof.
  revert l. induction n as [|n IH]; intros [|x l]; cbn [firstn]; intros H; try contradiction.
  destruct H as [->|H]; [left; reflexivity|right; apply IH; exact H].
Qed.

Section Sort.
Variable ln : N -> N -> N.
Variable sid : N.
Notation less := (match_less ln sid).

Lemma less_phm_l x : less PHM x = false.
Proof.
  unfold match_less, PHM; cbn [m_score m_idx].
  destruct (N.eqb_spec 0 (m_score x)) as [E|E]; cbn [negb].
  - rewrite N.eqb_refl. reflexivity.
  - apply N.ltb_ge. lia.
Qed.

Lemma less_phm_r y : y <> PHM -> less y PHM = true.
Proof.
  intros Hy. unfold match_less, PHM; cbn [m_score m_idx].
  destruct (N.eqb_spec (m_score y) 0) as [E|E]; cbn [negb].
  - destruct (N.eqb_spec (m_idx y) PLACEHOLDER) as [E2|E2].
    + exfalso. apply Hy. destruct y; cbn in *; subst; reflexivity.
    + rewrite N.eqb_refl. reflexivity.
  - apply N.ltb_lt. lia.
Qed.

Lemma insert_in x l m : In m (insert_by less x l) -> m = x \/ In m l.
Proof.
  induction l as [|y l IH]; cbn [insert_by].
  - intros [<-|[]]; auto.
  - destruct (less y x).
    + intros [<-|H]; [right; left; reflexivity|]. destruct (IH H); auto. right; right; assumption.
    + intros [<-|H]; auto.
Qed.

Lemma sort_in l m : In m (sort_matches ln sid l) -> In m l.
Proof.
  induction l as [|x l IH]; cbn [sort_matches fold_right]; [auto|].
  intros H. apply insert_in in H. destruct H as [->|H]; [left; reflexivity|right; apply IH; exact H].
Qed.

Lemma insert_length x l : length (insert_by less x l) = S (length l).
Proof. induction l as [|y l IH]; cbn [insert_by]; [reflexivity|]. destruct (less y x); cbn [length]; lia. Qed.

Lemma sort_length l : length (sort_matches ln sid l) = length l.
Proof.
  induction l as [|x l IH]; [reflexivity|].
  change (sort_matches ln sid (x :: l)) with (insert_by less x (sort_matches ln sid l)).
  rewrite insert_length, IH. reflexivity.
Qed.

Lemma insert_split x g k : ~ In PHM g ->
  insert_by less x (g ++ repeat PHM k) =
  if is_phm x then g ++ repeat PHM (S k) else insert_by less x g ++ repeat PHM k.
Proof.
  induction g as [|y g IH]; intros Hg.
  - cbn [app]. destruct k as [|k]; cbn [repeat insert_by].
    + destruct (is_phm_spec x) as [->|]; reflexivity.
    + rewrite less_phm_l. destruct (is_phm_spec x) as [->|]; reflexivity.
  - cbn [app insert_by].
    assert (Hy : y <> PHM) by (intros ->; apply Hg; left; reflexivity).
    assert (Hg' : ~ In PHM g) by (intros H; apply Hg; right; exact H).
    destruct (less y x) eqn:E.
    + rewrite (IH Hg'). destruct (is_phm x); reflexivity.
    + destruct (is_phm_spec x) as [->|]; [|reflexivity].
      rewrite (less_phm_r y Hy) in E. discriminate.
Qed.

Definition nonphm (l : list mtch) := filter (fun m => negb (is_phm m)) l.
Definition nphm (l : list mtch) : nat := length (filter is_phm l).

Lemma sort_split l :
  sort_matches ln sid l = sort_matches ln sid (nonphm l) ++ repeat PHM (nphm l).
Proof.
  induction l as [|x l IH]; [reflexivity|].
  change (sort_matches ln sid (x :: l)) with (insert_by less x (sort_matches ln sid l)).
  rewrite IH, insert_split.
  - unfold nonphm, nphm. cbn [filter]. destruct (is_phm x); cbn [negb length]; reflexivity.
  - intros H. apply sort_in in H. unfold nonphm in H. apply filter_In in H. destruct H as [_ H].
    destruct (is_phm_spec PHM); [discriminate|congruence].
Qed.

Lemma nonphm_nphm_length l : (length (nonphm l) + nphm l = length l)%nat.
Proof.
  unfold nonphm, nphm. induction l as [|x l IH]; [reflexivity|]. cbn [filter].
  destruct (is_phm x); cbn [negb length]; lia.
Qed.

(* the truncation after the sort removes every entry that is not `good`, provided the entries that are
   not good are placeholders and there are at most `n` of them *)
Lemma sort_truncate_good (p : mtch -> bool) l n :
  (forall m, In m l -> m = PHM \/ p m = true) ->
  (length (filter (fun m => negb (p m)) l) <= n)%nat ->
  forall m, In m (firstn (length (sort_matches ln sid l) - n) (sort_matches ln sid l)) -> p m = true.
Proof.
  intros Hok Hn m Hm.
  destruct (p PHM) eqn:Ep.
  - apply firstn_In in Hm. apply sort_in in Hm. destruct (Hok m Hm) as [->|]; assumption.
  - assert (Hk : (nphm l <= n)%nat).
    { etransitivity; [|exact Hn]. unfold nphm. clear -Ep.
      induction l as [|x l IH]; [cbn; lia|]. cbn [filter].
      destruct (is_phm_spec x) as [->|]; [rewrite Ep|]; cbn [negb length]; [lia|].
      destruct (p x); cbn [negb length]; lia. }
    rewrite sort_length in Hm. rewrite sort_split in Hm.
    rewrite firstn_app in Hm.
    assert (Hz : (length l - n - length (sort_matches ln sid (nonphm l)) = 0)%nat).
    { rewrite sort_length. pose proof (nonphm_nphm_length l). lia. }
    rewrite Hz in Hm. cbn [firstn] in Hm. rewrite app_nil_r in Hm.
    apply firstn_In in Hm. apply sort_in in Hm. unfold nonphm in Hm. apply filter_In in Hm.
    destruct Hm as [Hm1 Hm2]. destruct (Hok m Hm1) as [->|]; [|assumption].
    destruct (is_phm_spec PHM); [discriminate|congruence].
Qed.
End Sort.

(* ---- worker-level validity --------------------------------------------------------------------------- *)
Lemma fold_sum_shift (es : list (mtch * N)) a :
  fold_left (fun a e => a + snd e) es a = a + fold_left (fun a e => a + snd e) es 0.
Proof.
  revert a. induction es as [|x es IH]; intros a; cbn [fold_left]; [lia|].
  rewrite (IH (a + snd x)), (IH (0 + snd x)). lia.
Qed.

Lemma existsb_eqb_false i l : existsb (N.eqb i) l = false -> ~ In i l.
Proof.
  intros H Hin. assert (existsb (N.eqb i) l = true); [|congruence].
  apply existsb_exists. exists i. split; [exact Hin|apply N.eqb_refl].
Qed.

Section Worker.
Variable sc : N -> N -> N -> option N.
Variable pub : N -> bool.
Variable cnt : N.

Definition legitb (last : N) (m : mtch) : bool := (m_idx m <? last) && pub (m_idx m).
Definition okm (last : N) (m : mtch) : Prop := m = PHM \/ legitb last m = true.
Definition nbad (last : N) (l : list mtch) : nat := length (filter (fun m => negb (legitb last m)) l).

Definition WI (w : worker) : Prop :=
  w_last w <= cnt /\
  (forall i, In i (w_in_flight w) -> i < w_last w) /\
  (forall i, i < w_last w -> ~ In i (w_in_flight w) -> pub i = true) /\
  (forall m, In m (w_matches w) -> okm (w_last w) m).
Definition AL (w : worker) : Prop := forall m, In m (w_matches w) -> legitb (w_last w) m = true.

Lemma legitb_intro last m : m_idx m < last -> pub (m_idx m) = true -> legitb last m = true.
Proof. intros H1 H2. unfold legitb. rewrite H2. apply andb_true_iff. split; [apply N.ltb_lt; exact H1|reflexivity]. Qed.

Lemma legitb_elim last m : legitb last m = true -> m_idx m < last /\ pub (m_idx m) = true.
Proof. unfold legitb. intros H. apply andb_true_iff in H. destruct H as [H1 H2]. apply N.ltb_lt in H1. auto. Qed.

Lemma legitb_mono last last' m : last <= last' -> legitb last m = true -> legitb last' m = true.
Proof. intros Hl H. apply legitb_elim in H. destruct H. apply legitb_intro; [lia|assumption]. Qed.

Lemma okm_mono last last' m : last <= last' -> okm last m -> okm last' m.
Proof. intros Hl [->|H]; [left; reflexivity|right; eapply legitb_mono; eassumption]. Qed.

Lemma nbad_app last l1 l2 : nbad last (l1 ++ l2) = (nbad last l1 + nbad last l2)%nat.
Proof. unfold nbad. rewrite filter_app, app_length. reflexivity. Qed.

Lemma nbad_mono last last' l : last <= last' -> (nbad last' l <= nbad last l)%nat.
Proof.
  intros Hl. unfold nbad. induction l as [|x l IH]; [cbn; lia|]. cbn [filter].
  destruct (legitb last x) eqn:E.
  - rewrite (legitb_mono _ _ _ Hl E). cbn [negb]. exact IH.
  - destruct (legitb last' x); cbn [negb length]; lia.
Qed.

Lemma nbad_zero last l : (forall m, In m l -> legitb last m = true) -> nbad last l = 0%nat.
Proof.
  intros H. unfold nbad. induction l as [|x l IH]; [reflexivity|]. cbn [filter].
  rewrite (H x (or_introl eq_refl)). cbn [negb]. apply IH. intros m Hm. apply H. right; exact Hm.
Qed.

Lemma nbad_map_fst last (es : list (mtch * N)) :
  (forall x, In x es -> legitb last (fst x) = false -> snd x = 1) ->
  (nbad last (map fst es) <= N.to_nat (fold_left (fun a e => (a + snd e)%N) es 0%N))%nat.
Proof.
  unfold nbad. induction es as [|x es IH]; intros H; [cbn; lia|].
  cbn [map filter fold_left]. rewrite fold_sum_shift.
  assert (IH' := IH (fun y Hy => H y (or_intror Hy))).
  destruct (legitb last (fst x)) eqn:E; cbn [negb length]; [lia|].
  rewrite (H x (or_introl eq_refl) E). lia.
Qed.

Lemma AL_nbad w : AL w -> nbad (w_last w) (w_matches w) = 0%nat.
Proof. intros H. apply nbad_zero. exact H. Qed.

Lemma AL_okm w m : AL w -> In m (w_matches w) -> okm (w_last w) m.
Proof. intros H Hm. right. apply H. exact Hm. Qed.

(* the new index range [last, end) *)
Lemma in_new last e i :
  In i (map (fun k => last + N.of_nat k) (seq 0 (N.to_nat (e - last)))) <-> last <= i /\ i < e.
Proof.
  rewrite in_map_iff. split.
  - intros [k [<- Hk]]. apply in_seq in Hk. lia.
  - intros [H1 H2]. exists (N.to_nat (i - last)). split; [lia|]. apply in_seq. lia.
Qed.

Section Seen.
Variable seen : N -> bool.
Hypothesis seen_pub : forall i, seen i = true -> pub i = true.

Lemma reset_matches_WI w : WI w -> WI (reset_matches seen w) /\ AL (reset_matches seen w).
Proof.
  intros (H1 & H2 & H3 & H4).
  assert (Hpub : forall i, i < w_last w -> ~ In i (filter (fun i => negb (seen i)) (w_in_flight w)) -> pub i = true).
  { intros i Hi Hn. destruct (in_dec N.eq_dec i (w_in_flight w)) as [Hin|Hin]; [|apply H3; assumption].
    destruct (seen i) eqn:Es; [apply seen_pub; exact Es|].
    exfalso. apply Hn. apply filter_In. split; [exact Hin|]. rewrite Es. reflexivity. }
  assert (Hal : AL (reset_matches seen w)).
  { unfold AL, reset_matches; cbn [w_matches w_last w_upd]. intros m Hm.
    apply filter_In in Hm. destruct Hm as [Hm Hx]. apply in_map_iff in Hm. destruct Hm as [k [<- Hk]].
    apply in_seq in Hk. cbn [m_idx] in *. apply negb_true_iff in Hx. apply existsb_eqb_false in Hx.
    apply legitb_intro; cbn [m_idx]; [lia|]. apply Hpub; [lia|exact Hx]. }
  split; [|exact Hal].
  unfold WI. repeat split.
  - exact H1.
  - unfold reset_matches; cbn [w_in_flight w_last w_upd]. intros i Hi. apply filter_In in Hi. apply H2, Hi.
  - unfold reset_matches; cbn [w_in_flight w_last w_upd]. exact Hpub.
  - intros m Hm. right. apply Hal. exact Hm.
Qed.

Lemma scan_trivial_WI e w : WI w -> e <= cnt ->
  WI (scan_trivial seen e w) /\ (AL w -> AL (scan_trivial seen e w)).
Proof.
  intros (H1 & H2 & H3 & H4) He.
  assert (Hnew : forall m, In m (map (fun i => {| m_score := 0; m_idx := i |})
                    (filter seen (map (fun k => w_last w + N.of_nat k) (seq 0 (N.to_nat (e - w_last w)))))) ->
                 legitb (N.max e (w_last w)) m = true).
  { intros m Hm. apply in_map_iff in Hm. destruct Hm as [i [<- Hi]]. apply filter_In in Hi.
    destruct Hi as [Hi Hs]. apply in_new in Hi. apply legitb_intro; cbn [m_idx]; [lia|apply seen_pub; exact Hs]. }
  split.
  - unfold WI, scan_trivial; cbn [w_last w_in_flight w_matches w_upd]. repeat split.
    + lia.
    + intros i Hi. apply in_app_iff in Hi. destruct Hi as [Hi|Hi]; [apply H2 in Hi; lia|].
      apply filter_In in Hi. destruct Hi as [Hi _]. apply in_new in Hi. lia.
    + intros i Hi Hn. destruct (N.lt_ge_cases i (w_last w)) as [Hlt|Hge].
      * apply H3; [exact Hlt|]. intros Hin. apply Hn. apply in_app_iff. left; exact Hin.
      * destruct (seen i) eqn:Es; [apply seen_pub; exact Es|].
        exfalso. apply Hn. apply in_app_iff. right. apply filter_In. split; [apply in_new; lia|].
        rewrite Es. reflexivity.
    + intros m Hm. apply in_app_iff in Hm. destruct Hm as [Hm|Hm].
      * eapply okm_mono; [|apply H4; exact Hm]. lia.
      * right. apply Hnew. exact Hm.
  - intros Hal. unfold AL, scan_trivial; cbn [w_last w_matches w_upd]. intros m Hm.
    apply in_app_iff in Hm. destruct Hm as [Hm|Hm]; [|apply Hnew; exact Hm].
    eapply legitb_mono; [|apply Hal; exact Hm]. lia.
Qed.

Lemma scan_score_WI e canc w : WI w -> e <= cnt ->
  WI (fst (scan_score sc seen e canc w)) /\
  (nbad (w_last (fst (scan_score sc seen e canc w))) (w_matches (fst (scan_score sc seen e canc w)))
   <= nbad (w_last w) (w_matches w) + N.to_nat (snd (scan_score sc seen e canc w)))%nat.
Proof.
  intros (H1 & H2 & H3 & H4) He.
  unfold scan_score; cbn [fst snd w_last w_in_flight w_matches w_upd].
  set (new := map (fun k => w_last w + N.of_nat k) (seq 0 (N.to_nat (e - w_last w)))).
  set (entry := fun i : N => if negb (seen i) then ({| m_score := 0; m_idx := PLACEHOLDER |}, 1)
         else if canc then ({| m_score := 0; m_idx := i |}, 0)
         else match sc (w_pat w) (w_sid w) i with
              | Some s => ({| m_score := s; m_idx := i |}, 0)
              | None => ({| m_score := 0; m_idx := PLACEHOLDER |}, 1) end).
  set (last' := N.max e (w_last w)).
  assert (Hold : forall m, In m (flat_map (fun i => match sc (w_pat w) (w_sid w) i with
                      | Some s => [{| m_score := s; m_idx := i |}] | None => [] end) (filter seen (w_in_flight w))) ->
                 legitb last' m = true).
  { intros m Hm. apply in_flat_map in Hm. destruct Hm as [i [Hi Hm]]. apply filter_In in Hi. destruct Hi as [Hi Hs].
    destruct (sc (w_pat w) (w_sid w) i); [|contradiction]. destruct Hm as [<-|[]].
    apply legitb_intro; cbn [m_idx]; [apply H2 in Hi; lia|apply seen_pub; exact Hs]. }
  assert (Hent : forall i, In i new ->
                 (fst (entry i) = PHM /\ snd (entry i) = 1) \/ (legitb last' (fst (entry i)) = true)).
  { intros i Hi. apply in_new in Hi. unfold entry. destruct (seen i) eqn:Es; cbn [negb].
    - assert (Hl : forall s, legitb last' {| m_score := s; m_idx := i |} = true).
      { intros s. apply legitb_intro; cbn [m_idx]; [lia|apply seen_pub; exact Es]. }
      destruct canc; [right; apply Hl|]. destruct (sc (w_pat w) (w_sid w) i); [right; apply Hl|left; split; reflexivity].
    - left; split; reflexivity. }
  split.
  - unfold WI; cbn [w_last w_in_flight w_matches w_upd]. repeat split.
    + lia.
    + intros i Hi. apply in_app_iff in Hi. destruct Hi as [Hi|Hi]; apply filter_In in Hi; destruct Hi as [Hi _].
      * apply H2 in Hi. lia.
      * apply in_new in Hi. lia.
    + intros i Hi Hn. destruct (seen i) eqn:Es; [apply seen_pub; exact Es|].
      destruct (N.lt_ge_cases i (w_last w)) as [Hlt|Hge].
      * apply H3; [exact Hlt|]. intros Hin. apply Hn. apply in_app_iff. left. apply filter_In.
        split; [exact Hin|rewrite Es; reflexivity].
      * exfalso. apply Hn. apply in_app_iff. right. apply filter_In. split; [apply in_new; lia|].
        rewrite Es. reflexivity.
    + intros m Hm. apply in_app_iff in Hm. destruct Hm as [Hm|Hm].
      * eapply okm_mono; [|apply H4; exact Hm]. lia.
      * apply in_app_iff in Hm. destruct Hm as [Hm|Hm]; [right; apply Hold; exact Hm|].
        apply in_map_iff in Hm. destruct Hm as [x [<- Hx]]. apply in_map_iff in Hx. destruct Hx as [i [<- Hi]].
        destruct (Hent i Hi) as [[-> _]|Hl]; [left; reflexivity|right; exact Hl].
  - rewrite !nbad_app. rewrite (nbad_zero last' _ Hold).
    assert (Hm1 : (nbad last' (w_matches w) <= nbad (w_last w) (w_matches w))%nat) by (apply nbad_mono; lia).
    assert (Hm2 : (nbad last' (map fst (map entry new)) <=
                   N.to_nat (fold_left (fun a e => (a + snd e)%N) (map entry new) 0%N))%nat).
    { apply nbad_map_fst. intros x Hx Hb. apply in_map_iff in Hx. destruct Hx as [i [<- Hi]].
      destruct (Hent i Hi) as [[_ Hs]|Hl]; [exact Hs|congruence]. }
    lia.
Qed.
End Seen.

Lemma rescore_WI canc w : WI w ->
  WI (fst (rescore sc canc w)) /\
  (canc = false ->
   (nbad (w_last (fst (rescore sc canc w))) (w_matches (fst (rescore sc canc w))) <= N.to_nat (snd (rescore sc canc w)))%nat).
Proof.
  intros (H1 & H2 & H3 & H4). unfold rescore. destruct canc; cbn [fst snd].
  - split; [repeat split; assumption|discriminate].
  - cbn [w_last w_in_flight w_matches w_upd].
    set (f := fun m : mtch => if m_idx m =? PLACEHOLDER then (m, 1)
               else match sc (w_pat w) (w_sid w) (m_idx m) with
                    | Some s => ({| m_score := s; m_idx := m_idx m |}, 0)
                    | None => ({| m_score := 0; m_idx := PLACEHOLDER |}, 1) end).
    assert (Hf : forall m, In m (w_matches w) ->
                 okm (w_last w) (fst (f m)) /\ (legitb (w_last w) (fst (f m)) = false -> snd (f m) = 1)).
    { intros m Hm. unfold f. destruct (N.eqb_spec (m_idx m) PLACEHOLDER) as [E|E]; cbn [fst snd].
      - split; [apply H4; exact Hm|reflexivity].
      - destruct (H4 m Hm) as [->|Hl]; [exfalso; apply E; reflexivity|].
        destruct (sc (w_pat w) (w_sid w) (m_idx m)); cbn [fst snd].
        + assert (Hl' : legitb (w_last w) {| m_score := n; m_idx := m_idx m |} = true) by exact Hl.
          split; [right; exact Hl'|congruence].
        + split; [left; reflexivity|reflexivity]. }
    split.
    + unfold WI; cbn [w_last w_in_flight w_matches w_upd]. repeat split; try assumption.
      intros m Hm. apply in_map_iff in Hm. destruct Hm as [x [<- Hx]]. apply in_map_iff in Hx.
      destruct Hx as [m [<- Hm]]. apply Hf. exact Hm.
    + intros _. apply nbad_map_fst. intros x Hx Hb. apply in_map_iff in Hx. destruct Hx as [m [<- Hm]].
      apply Hf; assumption.
Qed.
End Worker.

Section WorkerRun.
Variable sc : N -> N -> N -> option N.
Variable ln : N -> N -> N.
Variable pub : N -> bool.
Variable cnt : N.

Lemma scan_score_U seen e canc w :
  (forall i, seen i = true -> pub i = true) -> e <= cnt -> WI pub cnt w ->
  nbad pub (w_last w) (w_matches w) = 0%nat ->
  WI pub cnt (fst (let '(w2, unm) := scan_score sc seen e canc w in (w2, RSort unm))) /\
  match snd (let '(w2, unm) := scan_score sc seen e canc w in (w2, RSort unm)) with
  | REnd true => AL pub (fst (let '(w2, unm) := scan_score sc seen e canc w in (w2, RSort unm)))
  | RSort unm => canc = false ->
      (nbad pub (w_last (fst (let '(w2, unm) := scan_score sc seen e canc w in (w2, RSort unm))))
            (w_matches (fst (let '(w2, unm) := scan_score sc seen e canc w in (w2, RSort unm)))) <= N.to_nat unm)%nat
  | _ => True
  end.
Proof.
  intros Hs He Hw H0. destruct (scan_score_WI sc pub cnt seen Hs e canc w Hw He) as [Ha Hb].
  destruct (scan_score sc seen e canc w) as [w2 unm]. cbn [fst snd] in *. split; [exact Ha|]. intros _. lia.
Qed.

Lemma rescore_U seen e canc w :
  (forall i, seen i = true -> pub i = true) -> e <= cnt -> WI pub cnt w ->
  WI pub cnt (fst (let '(w2, unm) := rescore sc canc (scan_trivial seen e w) in (w2, RSort unm))) /\
  match snd (let '(w2, unm) := rescore sc canc (scan_trivial seen e w) in (w2, RSort unm)) with
  | REnd true => AL pub (fst (let '(w2, unm) := rescore sc canc (scan_trivial seen e w) in (w2, RSort unm)))
  | RSort unm => canc = false ->
      (nbad pub (w_last (fst (let '(w2, unm) := rescore sc canc (scan_trivial seen e w) in (w2, RSort unm))))
            (w_matches (fst (let '(w2, unm) := rescore sc canc (scan_trivial seen e w) in (w2, RSort unm)))) <= N.to_nat unm)%nat
  | _ => True
  end.
Proof.
  intros Hs He Hw. destruct (scan_trivial_WI sc pub cnt seen Hs e w Hw He) as [Ht _].
  destruct (rescore_WI sc pub cnt canc _ Ht) as [Ha Hb].
  destruct (rescore sc canc (scan_trivial seen e w)) as [w2 unm]. cbn [fst snd] in *. split; [exact Ha|exact Hb].
Qed.

Lemma run_work_WI seen e canc st cl w :
  (forall i, seen i = true -> pub i = true) -> e <= cnt ->
  (cl = false -> WI pub cnt w) ->
  (cl = false -> st = Unchanged -> AL pub w) ->
  WI pub cnt (fst (run_work sc seen e canc st cl w)) /\
  match snd (run_work sc seen e canc st cl w) with
  | REnd true => AL pub (fst (run_work sc seen e canc st cl w))
  | RSort unm => canc = false ->
      (nbad pub (w_last (fst (run_work sc seen e canc st cl w))) (w_matches (fst (run_work sc seen e canc st cl w)))
       <= N.to_nat unm)%nat
  | _ => True
  end.
Proof.
  intros Hs He Hw Hal. unfold run_work.
  set (w0 := if cl then w_upd w (w_running w) (w_was_canceled w) 0 [] [] (w_pat w) (w_sid w) else w).
  assert (Hw0 : WI pub cnt w0 /\ (st = Unchanged -> AL pub w0)).
  { unfold w0. destruct cl.
    - split.
      + unfold WI; cbn [w_last w_in_flight w_matches w_upd].
        split; [lia|]. split; [intros i []|]. split; [intros i Hi; lia|intros m []].
      + intros _ m []. 
    - split; auto. }
  destruct Hw0 as [Hw0 Hal0].
  destruct (pat_is_empty (w_pat w0)).
  - cbn [fst snd]. destruct (reset_matches_WI sc pub cnt seen Hs w0 Hw0) as [Hr1 Hr2].
    destruct (scan_trivial_WI sc pub cnt seen Hs e _ Hr1 He) as [Ht1 Ht2]. split; [exact Ht1|apply Ht2; exact Hr2].
  - destruct st.
    + apply scan_score_U; auto. apply AL_nbad. auto.
    + destruct (w_matches w0) eqn:Em.
      * apply scan_score_U; auto. rewrite Em. reflexivity.
      * apply rescore_U; auto.
    + destruct (reset_matches_WI sc pub cnt seen Hs w0 Hw0) as [Hr1 Hr2].
      destruct (w_matches (reset_matches seen w0)) eqn:Em.
      * apply scan_score_U; auto. rewrite Em. reflexivity.
      * apply rescore_U; auto.
Qed.

Lemma run_sort_WI canc unm w :
  WI pub cnt w ->
  (canc = false -> (nbad pub (w_last w) (w_matches w) <= N.to_nat unm)%nat) ->
  WI pub cnt (fst (run_sort ln canc unm w)) /\
  (canc = false -> AL pub (fst (run_sort ln canc unm w))).
Proof.
  intros (H1 & H2 & H3 & H4) Hu. unfold run_sort. destruct canc; cbn [fst].
  - split; [|discriminate]. unfold WI; cbn [w_last w_in_flight w_matches w_upd]. auto.
  - specialize (Hu eq_refl).
    assert (Hal : forall m, In m (firstn (length (sort_matches ln (w_sid w) (w_matches w)) - N.to_nat unm)
                                         (sort_matches ln (w_sid w) (w_matches w))) ->
                            legitb pub (w_last w) m = true).
    { apply sort_truncate_good; [exact H4|exact Hu]. }
    split.
    + unfold WI; cbn [w_last w_in_flight w_matches w_upd]. repeat split; try assumption.
      intros m Hm. right. apply Hal. exact Hm.
    + intros _. unfold AL; cbn [w_last w_matches w_upd]. exact Hal.
Qed.

End WorkerRun.

(* monotonicity in the publication predicate and the count *)
Lemma WI_mono pub pub' cnt cnt' w :
  (forall i, pub i = true -> pub' i = true) -> cnt <= cnt' -> WI pub cnt w -> WI pub' cnt' w.
Proof.
  intros Hp Hc (H1 & H2 & H3 & H4). unfold WI. repeat split; try assumption; try lia.
  - intros i Hi Hn. apply Hp. apply H3; assumption.
  - intros m Hm. destruct (H4 m Hm) as [->|Hl]; [left; reflexivity|right].
    apply legitb_elim in Hl. destruct Hl. apply legitb_intro; auto.
Qed.

Lemma AL_mono pub pub' w : (forall i, pub i = true -> pub' i = true) -> AL pub w -> AL pub' w.
Proof.
  intros Hp H m Hm. specialize (H m Hm). apply legitb_elim in H. destruct H. apply legitb_intro; auto.
Qed.

Lemma nbad_mono_pub pub pub' last l :
  (forall i, pub i = true -> pub' i = true) -> (nbad pub' last l <= nbad pub last l)%nat.
Proof.
  intros Hp. unfold nbad. induction l as [|x l IH]; [cbn; lia|]. cbn [filter].
  destruct (legitb pub last x) eqn:E.
  - apply legitb_elim in E. destruct E as [E1 E2]. rewrite (legitb_intro pub' last x E1 (Hp _ E2)). cbn [negb]. exact IH.
  - destruct (legitb pub' last x); cbn [negb length]; lia.
Qed.

(* ---- Part W: the state-level invariant ---------------------------------------------------------------- *)
Definition pubS (l : list bool) (i : N) : bool := nth (N.to_nat i) l false.

Lemma published_pubS s sid i : published s sid i = pubS (stream_of sid (streams s)) i.
Proof. reflexivity. Qed.

Lemma pubS_app l l' i : pubS l i = true -> pubS (l ++ l') i = true.
Proof.
  unfold pubS. intros H. destruct (Nat.lt_ge_cases (N.to_nat i) (length l)) as [Hlt|Hge].
  - rewrite app_nth1; assumption.
  - rewrite nth_overflow in H; [discriminate|exact Hge].
Qed.

Lemma pubS_set_nth n l i : pubS l i = true -> pubS (set_nth n true l) i = true.
Proof. unfold pubS. apply nth_set_nth_true. Qed.

Lemma pubS_lt l i : pubS l i = true -> i < lenN l.
Proof.
  unfold pubS, lenN. intros H. destruct (Nat.lt_ge_cases (N.to_nat i) (length l)) as [Hlt|Hge]; [lia|].
  rewrite nth_overflow in H; [discriminate|exact Hge].
Qed.

(* component-wise versions (so that states that differ in other worker fields give the same proposition) *)
Definition mkw (last : N) (inf : list N) (ms : list mtch) : worker :=
  {| w_running := false; w_was_canceled := false; w_last := last; w_in_flight := inf; w_matches := ms;
     w_pat := 0; w_sid := 0 |}.
Definition WIc (l : list bool) (last : N) (inf : list N) (ms : list mtch) : Prop :=
  WI (pubS l) (lenN l) (mkw last inf ms).
Definition ALc (l : list bool) (last : N) (ms : list mtch) : Prop := AL (pubS l) (mkw last [] ms).
Definition nbadc (l : list bool) (last : N) (ms : list mtch) : nat := nbad (pubS l) last ms.

Lemma WIc_of l w : WI (pubS l) (lenN l) w -> WIc l (w_last w) (w_in_flight w) (w_matches w).
Proof. intros H. exact H. Qed.
Lemma WIc_to l w : WIc l (w_last w) (w_in_flight w) (w_matches w) -> WI (pubS l) (lenN l) w.
Proof. intros H. exact H. Qed.
Lemma ALc_of l w : AL (pubS l) w -> ALc l (w_last w) (w_matches w).
Proof. intros H. exact H. Qed.
Lemma ALc_to l w : ALc l (w_last w) (w_matches w) -> AL (pubS l) w.
Proof. intros H. exact H. Qed.

Lemma ALc_snap l last inf ms : WIc l last inf ms -> ALc l last ms ->
  forall m, In m ms -> m_idx m < lenN l /\ pubS l (m_idx m) = true.
Proof.
  intros (H1 & _) Ha m Hm. specialize (Ha m Hm). apply legitb_elim in Ha. cbn in *. destruct Ha. split; [lia|assumption].
Qed.

Definition staleb (s : nstate) : bool :=
  match lock s with
  | HeldRun RStart _ cl => cl
  | HeldTick => match tpc s with TBeforeSpawn _ _ cl _ _ _ _ => cl | _ => false end
  | _ => false
  end.
Definition al_cond (s : nstate) : Prop :=
  match lock s with
  | HeldRun RStart st _ => st = Unchanged
  | HeldRun (RSort _) _ _ => False
  | HeldRun (REnd c) _ _ => c = true
  | _ => w_was_canceled (wk s) = false
  end.
Definition wstream (s : nstate) : list bool := stream_of (w_sid (wk s)) (streams s).

Record InvW (s : nstate) : Prop := {
  w_wi : staleb s = false -> WIc (wstream s) (w_last (wk s)) (w_in_flight (wk s)) (w_matches (wk s));
  w_al : staleb s = false -> al_cond s -> ALc (wstream s) (w_last (wk s)) (w_matches (wk s));
  w_u : match lock s with
        | HeldRun (RSort unm) _ _ =>
          canceled s = false -> (nbadc (wstream s) (w_last (wk s)) (w_matches (wk s)) <= N.to_nat unm)%nat
        | _ => True end;
  w_snap : forall m, In m (sn_matches (snap s)) ->
           m_idx m < lenN (stream_of (sn_sid (snap s)) (streams s)) /\
           pubS (stream_of (sn_sid (snap s)) (streams s)) (m_idx m) = true
}.

Lemma InvW_init : InvW init_nstate.
Proof.
  split; cbn.
  - intros _. unfold WIc, WI; cbn. split; [lia|]. split; [intros i []|]. split; [intros i Hi; lia|intros m []].
  - intros _ _ m [].
  - exact I.
  - intros m [].
Qed.

#[local] Arguments N.ltb : simpl never.
#[local] Arguments N.leb : simpl never.
#[local] Arguments N.sub : simpl never.
#[local] Arguments N.add : simpl never.
#[local] Arguments N.min : simpl never.
#[local] Arguments N.max : simpl never.
#[local] Arguments N.of_nat : simpl never.
#[local] Arguments N.to_nat : simpl never.
#[local] Arguments lenN : simpl never.
#[local] Arguments stream_of : simpl never.
#[local] Arguments set_stream : simpl never.
#[local] Arguments set_nth : simpl never.
#[local] Arguments count_of : simpl never.
#[local] Arguments published : simpl never.
#[local] Arguments item_count : simpl never.
#[local] Arguments run_work : simpl never.
#[local] Arguments run_sort : simpl never.
#[local] Arguments sort_matches : simpl never.
#[local] Arguments filter : simpl never.
#[local] Arguments existsb : simpl never.
#[local] Arguments find : simpl never.
#[local] Arguments PLACEHOLDER : simpl never.
#[local] Arguments WIc : simpl never.
#[local] Arguments ALc : simpl never.
#[local] Arguments nbadc : simpl never.
#[local] Arguments pubS : simpl never.

(* a stream only grows / gets more published entries *)
Definition ext (l l' : list bool) : Prop := (forall i, pubS l i = true -> pubS l' i = true) /\ lenN l <= lenN l'.

Lemma ext_refl l : ext l l.
Proof. split; [auto|lia]. Qed.
Lemma ext_reserve l : ext l (l ++ [false]).
Proof. split; [intros i; apply pubS_app|]. unfold lenN. rewrite app_length. lia. Qed.
Lemma ext_publish n l : ext l (set_nth n true l).
Proof. split; [intros i; apply pubS_set_nth|]. unfold lenN. rewrite length_set_nth. lia. Qed.

Lemma WIc_ext l l' last inf ms : ext l l' -> WIc l last inf ms -> WIc l' last inf ms.
Proof. intros [H1 H2]. apply WI_mono; assumption. Qed.
Lemma ALc_ext l l' last ms : ext l l' -> ALc l last ms -> ALc l' last ms.
Proof. intros [H1 H2]. apply AL_mono; assumption. Qed.
Lemma nbadc_ext l l' last ms : ext l l' -> (nbadc l' last ms <= nbadc l last ms)%nat.
Proof. intros [H1 H2]. apply nbad_mono_pub; assumption. Qed.

Lemma InvW_ext s str' :
  (forall a, ext (stream_of a (streams s)) (stream_of a str')) -> InvW s -> InvW (upd_streams s str').
Proof.
  intros He [W1 W2 W3 W4].
  split; unfold staleb, al_cond, wstream in *; cbn [lock tpc wk canceled snap streams upd_streams].
  - intros H. eapply WIc_ext; [apply He|apply W1; exact H].
  - intros H H'. eapply ALc_ext; [apply He|apply W2; assumption].
  - destruct (lock s) as [| |[|unm|c] st cl]; try exact I.
    intros H. etransitivity; [apply nbadc_ext, He|apply W3; exact H].
  - intros m Hm. destruct (W4 m Hm) as [H1 H2]. destruct (He (sn_sid (snap s))) as [He1 He2].
    split; [lia|apply He1; exact H2].
Qed.

Lemma nbadc_eq l last ms : nbadc l last ms = nbad (pubS l) last ms.
Proof. reflexivity. Qed.

Opaque WIc ALc nbadc.

Section StepW.
Variable sc : N -> N -> N -> option N.
Variable ln : N -> N -> N.

Ltac breakW :=
  unfold inv_tpc, inv_lock, canc_ctx, wc_ctx, sid_rel, view, staleb, al_cond, wstream in *; cbn in *.
Ltac fin0 := subst; cbn [sn_count sn_pat sn_sid sn_matches] in *; try discriminate; try congruence; try lia; auto.
Ltac fin := intros; fin0; intuition fin0.

Lemma InvW_tick s : InvA s -> InvW s -> InvW (do_event sc ln s ETick).
Proof.
  intros [_ _ _ A4 A5 A6 A7] [W1 W2 W3 W4].
  unfold do_event, enabled_tick, step_tick.
  dstate s.
  destruct tp as [|t0|st t0|sec ch1 t0|sec ch1|sec ch1|cf st cl ch sec ch1 t0]; cbn [tpc].
  - split; assumption.
  - cbn [ui_status ui_state]. destruct ust, us; cbn; destruct lk as [| |[| |] ? ?]; split; breakW; fin.
  - cbn [lock]. destruct lk; try (split; assumption).
    assert (Hsn : wc = false -> forall m, In m wm -> m_idx m < lenN (stream_of ws str) /\ pubS (stream_of ws str) (m_idx m) = true).
    { intros Hwc. eapply ALc_snap; [apply W1; reflexivity|apply W2; [reflexivity|exact Hwc]]. }
    unfold tick_body. cbn.
    destruct wr, wc, us; cbn; split; breakW; fin.
  - cbn [lock]. destruct lk.
    + assert (Hsn : wc = false -> forall m, In m wm -> m_idx m < lenN (stream_of ws str) /\ pubS (stream_of ws str) (m_idx m) = true).
      { intros Hwc. eapply ALc_snap; [apply W1; reflexivity|apply W2; [reflexivity|exact Hwc]]. }
      unfold tick_body. cbn.
      destruct t0; cbn;
      destruct (item_count _ <? count_of _ _); destruct wr, wc, us, sec; cbn; split; breakW; fin.
    + destruct t0; cbn; split; breakW; fin.
    + destruct t0; cbn; split; breakW; fin.
  - cbn. split; breakW; fin.
  - cbn. destruct lk.
    + assert (Hsn : wc = false -> forall m, In m wm -> m_idx m < lenN (stream_of ws str) /\ pubS (stream_of ws str) (m_idx m) = true).
      { intros Hwc. eapply ALc_snap; [apply W1; reflexivity|apply W2; [reflexivity|exact Hwc]]. }
      unfold tick_body. cbn.
      destruct (item_count _ <? count_of _ _); destruct wr, wc, us, sec; cbn; split; breakW; fin.
    + cbn. split; breakW; fin.
    + cbn. split; breakW; fin.
  - cbn. destruct sec, cf; cbn; split; breakW; fin.
Qed.

Lemma InvW_run s seen e : InvA s -> InvW s -> InvW (do_event sc ln s (ERun seen e)).
Proof.
  intros [_ _ _ _ A5 _ _] [W1 W2 W3 W4].
  unfold do_event, step_run.
  destruct (post s) eqn:Ep; try (split; assumption).
  unfold inv_lock in A5. destruct A5 as [_ A5].
  unfold staleb in W1, W2. unfold al_cond in W2.
  destruct (lock s) as [| |pc st cl] eqn:El; try (split; unfold staleb, al_cond; rewrite ?El; assumption).
  destruct A5 as [A5 A5'].
  destruct pc as [|unm|c].
  - (* run.start: the scan *)
    set (sid := w_sid (wk s)) in *.
    set (seenf := fun i => existsb (N.eqb i) seen && published s sid i).
    pose proof (run_work_WI sc ln (pubS (wstream s)) (lenN (wstream s)) seenf (N.min e (count_of s sid))
                  (canceled s) st cl (wk s)) as HR.
    pose proof (run_work_frame sc seenf (N.min e (count_of s sid)) (canceled s) st cl (wk s)) as HF.
    cbn zeta in HF.
    destruct (run_work sc seenf (N.min e (count_of s sid)) (canceled s) st cl (wk s)) as [w' pc'] eqn:E.
    cbn [fst snd] in HR, HF. destruct HF as (F1 & F2 & F3 & F4 & F5).
    assert (HR' := HR).
    destruct HR as [HR1 HR2].
    + intros i Hi. unfold seenf in Hi. apply andb_true_iff in Hi. destruct Hi as [_ Hi]. exact Hi.
    + change (count_of s sid) with (lenN (wstream s)). lia.
    + intros Hcl. apply WIc_to. apply W1. exact Hcl.
    + intros Hcl Hst. apply ALc_to. apply W2; assumption.
    + assert (Hws : wstream (upd_lock (upd_wk s w') (HeldRun pc' st cl)) = wstream s).
      { unfold wstream; cbn [wk streams upd_lock upd_wk]. rewrite F4. reflexivity. }
      split; unfold staleb, al_cond; rewrite ?Hws; cbn [lock wk canceled snap streams upd_lock upd_wk].
      * intros _. apply WIc_of. exact HR1.
      * destruct F5 as [->|[u ->]]; [|intros _ []]. intros _ _. apply ALc_of. exact HR2.
      * destruct F5 as [->|[u ->]]; [exact I|]. rewrite nbadc_eq. exact HR2.
      * exact W4.
  - (* run.before_sort *)
    pose proof (run_sort_WI ln (pubS (wstream s)) (lenN (wstream s)) (canceled s) unm (wk s)) as HR.
    pose proof (run_sort_frame ln (canceled s) unm (wk s)) as HF. cbn zeta in HF.
    destruct (run_sort ln (canceled s) unm (wk s)) as [w' pc'] eqn:E.
    cbn [fst snd] in HR, HF. destruct HF as (F1 & F2 & F3 & F4 & F5 & F6 & F7).
    destruct HR as [HR1 HR2].
    + apply WIc_to. apply W1. reflexivity.
    + rewrite <- nbadc_eq. exact W3.
    + assert (Hws : wstream (upd_lock (upd_wk s w') (HeldRun pc' st cl)) = wstream s).
      { unfold wstream; cbn [wk streams upd_lock upd_wk]. rewrite F3. reflexivity. }
      split; unfold staleb, al_cond; rewrite ?Hws; cbn [lock wk canceled snap streams upd_lock upd_wk]; subst pc'.
      * intros _. apply WIc_of. exact HR1.
      * intros _ Hc. apply ALc_of. apply HR2. destruct (canceled s); [discriminate|reflexivity].
      * exact I.
      * exact W4.
  - (* run.end: the guard is dropped *)
    split; unfold staleb, al_cond; cbn [lock wk canceled snap streams upd_lock upd_post].
    + intros _. apply W1. reflexivity.
    + intros _ Hwc. apply W2; [reflexivity|]. rewrite A5' in Hwc. destruct c; [reflexivity|discriminate].
    + exact I.
    + exact W4.
Qed.

Lemma InvW_other s e : InvA s -> InvW s ->
  match e with ETick | ERun _ _ => False | _ => True end -> InvW (do_event sc ln s e).
Proof.
  intros [_ A2 A3 _ _ _ _] HW He.
  destruct e as [sid|sid i|h|h h'|h|p ap lneg|clear|t0| |seen e|]; try contradiction; unfold do_event.
  - apply InvW_ext; [|exact HW]. intros a. rewrite stream_of_set_stream.
    destruct (N.eqb_spec a sid) as [->|]; [apply ext_reserve|apply ext_refl].
  - apply InvW_ext; [|exact HW]. intros a. rewrite stream_of_set_stream.
    destruct (N.eqb_spec a sid) as [->|]; [apply ext_publish|apply ext_refl].
  - destruct (tpc s); try exact HW. destruct HW; split; assumption.
  - destruct (find _ _) as [[? ?]|]; [|exact HW]. destruct HW; split; assumption.
  - destruct HW; split; assumption.
  - destruct (tpc s) eqn:Et; try exact HW. destruct HW as [W1 W2 W3 W4].
    split; unfold staleb, al_cond in *; cbn [lock tpc wk canceled snap streams upd_pat]; rewrite ?Et in *; assumption.
  - destruct (tpc s) eqn:Et; try exact HW. destruct HW as [W1 W2 W3 W4].
    assert (Hs : forall a, a < next_sid s -> stream_of a (set_stream (next_sid s) [] (streams s)) = stream_of a (streams s)).
    { intros a Ha. rewrite stream_of_set_stream. destruct (N.eqb_spec a (next_sid s)); [lia|reflexivity]. }
    destruct clear; split; unfold staleb, al_cond, wstream in *;
      cbn [lock tpc wk canceled snap streams next_sid upd_canceled upd_streams upd_cur upd_ui_state upd_ghost upd_snap
           sn_matches sn_sid] in *;
      rewrite ?Et in *; rewrite ?(Hs _ A2); try assumption; try (intros m []).
    + destruct (lock s) as [| |[|unm|c] st cl]; try exact I. discriminate.
    + destruct (lock s) as [| |[|unm|c] st cl]; try exact I. discriminate.
    + rewrite (Hs _ A3). assumption.
  - destruct (tpc s) eqn:Et; try exact HW. destruct HW as [W1 W2 W3 W4].
    split; unfold staleb, al_cond in *; cbn [lock tpc wk canceled snap streams upd_tpc upd_notify upd_ghost]; rewrite ?Et in *; try assumption.
  - exact HW.
Qed.

Lemma InvAW_step s e : InvA s /\ InvW s -> InvA (do_event sc ln s e) /\ InvW (do_event sc ln s e).
Proof.
  intros [HA HW]. split; [apply InvA_step; exact HA|].
  destruct e; try (apply InvW_other; [exact HA|exact HW|exact I]).
  - apply InvW_tick; assumption.
  - apply InvW_run; assumption.
Qed.

Lemma InvAW_reachable s : reachable sc ln s -> InvA s /\ InvW s.
Proof.
  apply (lift_reachable sc ln (fun s => InvA s /\ InvW s)).
  - split; [exact InvA_init|exact InvW_init].
  - intros; apply InvAW_step; assumption.
Qed.
End StepW.

Lemma C12_no_mix_i : forall sc ln, C12_no_mix_stmt sc ln.
Proof.
  intros sc ln s m Hr Hm. apply InvAW_reachable in Hr. destruct Hr as [[_ _ A3 _ _ _ _] [_ _ _ W4]].
  destruct (W4 m Hm) as [H1 H2]. split; [exact A3|]. split; [exact H1|exact H2].
Qed.
End NF_D.
Import NF_D.

(* ---- the theorems ------------------------------------------------------------------------------------ *)
Lemma C20_count : forall sc ln, C20_count_stmt sc ln.
Proof. exact C20_count_i. Qed.
Lemma C12_restart : forall sc ln, C12_restart_stmt sc ln.
Proof. exact C12_restart_i. Qed.
Lemma C12_snapshot_stable : forall sc ln, C12_snapshot_stable_stmt sc ln.
Proof. exact C12_snapshot_stable_i. Qed.
Lemma C12_pickup_current : forall sc ln, C12_pickup_current_stmt sc ln.
Proof. exact C12_pickup_current_i. Qed.
Lemma C19_unchanged : forall sc ln, C19_unchanged_stmt sc ln.
Proof. exact C19_unchanged_i. Qed.
Lemma C19_idle : forall sc ln, C19_idle_stmt sc ln.
Proof. exact C19_idle_i. Qed.
Lemma C12_no_mix : forall sc ln, C12_no_mix_stmt sc ln.
Proof. exact C12_no_mix_i. Qed.

Print Assumptions C20_count.
Print Assumptions C12_restart.
Print Assumptions C12_snapshot_stable.
Print Assumptions C12_pickup_current.
Print Assumptions C19_unchanged.
Print Assumptions C19_idle.
Print Assumptions C12_no_mix.
