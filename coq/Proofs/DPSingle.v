(* C04_single: one-character needles (substring_1_ascii / substring_1_non_ascii via best_pos). *)
From Coq Require Import ZArith NArith List Bool Lia ZifyBool ZifyN ZifyNat.
From NV Require Import Base.Util Model.Chars Model.Matcher Spec.Matching Spec.Statements Proofs.CharsFacts.
From NV Require Proofs.C05Facts Proofs.ScoreFacts Proofs.WitnessFacts.
Import ListNotations.
Local Open Scope N_scope.

Lemma scan_cands_ext cfg hr (p q : list N -> bool) : (forall l, p l = q l) ->
  forall hs i prev, scan_cands cfg hr p hs i prev = scan_cands cfg hr q hs i prev.
Proof.
  intros Hpq. induction hs as [|c hs IH]; intros i prev; cbn [scan_cands]; [reflexivity|].
  rewrite Hpq, IH. reflexivity.
Qed.

Lemma prefix_match_single cfg hr c l : prefix_match cfg hr [c] l = head_is (fun x => norm cfg hr x =? c) l.
Proof. destruct l as [|x l]; cbn [prefix_match head_is]; [reflexivity|]. apply andb_true_r. Qed.

Lemma occurs_single_iff cfg hr h c j :
  occurs cfg hr h [c] j = true <-> (N.to_nat j < length h)%nat /\ nth (N.to_nat j) (nh cfg hr h) 0 = c.
Proof.
  split.
  - intros H. destruct (C05Facts.occurs_nth _ _ _ _ _ H) as [Hle Hn]. specialize (Hn 0%nat ltac:(cbn; lia)).
    cbn [nth] in Hn. rewrite Nat.add_0_r in Hn. unfold lenN in Hle. cbn [length] in Hle. split; [lia|].
    unfold nh. rewrite (nth_indep _ 0 (norm cfg hr 0)) by (rewrite map_length; lia). rewrite map_nth. exact Hn.
  - intros [Hl Hn]. destruct (WitnessFacts.skipn_split h (N.to_nat j) Hl) as (x & r & Hs).
    eapply WitnessFacts.occurs_single; [exact Hs|].
    destruct (WitnessFacts.skipn_cons_inv _ _ _ _ Hs) as (_ & Hx & _).
    rewrite <- Hn. unfold nh. rewrite (nth_indep _ 0 (norm cfg hr 0)) by (rewrite map_length; lia).
    rewrite map_nth, (Hx 0). reflexivity.
Qed.

(* the common core: candidates from `st` on, no occurrence before st *)
Lemma single_core cfg hr h c st (q : N -> bool) i s :
  (forall x, q x = (norm cfg hr x =? c)) -> st <= lenN h ->
  (forall j, j < st -> occurs cfg hr h [c] j = false) ->
  best_pos cfg (scan_cands cfg hr (head_is q) (dropN st h) st (prev_class cfg hr h st)) None = Some (i, s) ->
  (nth (N.to_nat i) (nh cfg hr h) 0 = c /\ (N.to_nat i < length h)%nat /\ s = 16 + 2 * spec_bonus_at cfg hr h i) /\
  (forall j, (N.to_nat j < length h)%nat -> nth (N.to_nat j) (nh cfg hr h) 0 = c ->
             16 + 2 * spec_bonus_at cfg hr h j <= s).
Proof.
  intros Hq Hst Hbefore Hbp.
  remember (firstn (N.to_nat st) h) as pre eqn:Epre. remember (skipn (N.to_nat st) h) as suf eqn:Esuf.
  assert (Hh : h = pre ++ suf) by (subst pre suf; symmetry; apply firstn_skipn).
  assert (Hlp : length pre = N.to_nat st) by (subst pre; rewrite firstn_length; unfold lenN in Hst; lia).
  assert (Hs' : st = lenN pre) by (unfold lenN; lia).
  unfold dropN in Hbp. rewrite <- Esuf in Hbp.
  rewrite (scan_cands_ext cfg hr (head_is q) (prefix_match cfg hr [c])) in Hbp.
  2:{ intros l. rewrite prefix_match_single. destruct l; cbn [head_is]; [reflexivity|apply Hq]. }
  rewrite Hs' in Hbp. rewrite (C05Facts.scan_cands_spec cfg hr [c] h suf pre Hh) in Hbp.
  remember (filter (occurs cfg hr h [c]) (map N.of_nat (seq (length pre) (length suf)))) as occl eqn:Eoccl.
  apply C05Facts.C04_best_pos in Hbp.
  2:{ intros p b Hin. apply in_map_iff in Hin. destruct Hin as (x & Hx & _). unfold C05Facts.with_bonus in Hx.
      inversion Hx; subst p b. unfold spec_bonus_at, spec_bonus_cfg. rewrite <- C05Facts.bonus_table.
      apply C05Facts.C04_max_bonus. }
  destruct Hbp as (pre' & post' & b & Hc & Hs & Hpre & Hpost).
  assert (Hall : forall p' b', In (p', b') (map (C05Facts.with_bonus cfg hr h) occl) -> b' <= b).
  { intros p' b' Hin. rewrite Hc in Hin. apply in_app_or in Hin. destruct Hin as [Hin|[Hin|Hin]].
    - specialize (Hpre _ _ Hin). lia.
    - inversion Hin; subst. lia.
    - exact (Hpost _ _ Hin). }
  assert (Hi : In (i, b) (map (C05Facts.with_bonus cfg hr h) occl)).
  { rewrite Hc. apply in_or_app. right. left. reflexivity. }
  apply in_map_iff in Hi. destruct Hi as (x & Hx & Hxin). unfold C05Facts.with_bonus in Hx.
  inversion Hx; subst x. clear Hx. rewrite Eoccl in Hxin. apply filter_In in Hxin. destruct Hxin as [_ Hoi].
  apply occurs_single_iff in Hoi. destruct Hoi as [Hil Hin].
  split.
  - split; [exact Hin|]. split; [exact Hil|]. lia.
  - intros j Hj Hnj.
    assert (Hoj : occurs cfg hr h [c] j = true) by (apply occurs_single_iff; split; assumption).
    assert (Hjst : st <= j).
    { destruct (N.ltb_spec j st) as [Hlt|Hge]; [|exact Hge]. rewrite (Hbefore j Hlt) in Hoj. discriminate. }
    assert (Hjin : In j occl).
    { rewrite Eoccl. apply filter_In. split; [|exact Hoj]. apply in_map_iff. exists (N.to_nat j).
      split; [lia|]. apply in_seq. rewrite Esuf, skipn_length. lia. }
    specialize (Hall j (spec_bonus_at cfg hr h j)
                  (in_map (C05Facts.with_bonus cfg hr h) _ _ Hjin)). lia.
Qed.

Lemma C04_single : C04_single_stmt.
Proof.
  intros cfg hs c nr s idx Hpp HK Hok Hlen Hrun.
  cbn [run] in Hrun. unfold fuzzy_impl in Hrun. cbn [cs rp] in Hrun.
  replace (lenN (cs hs) <? lenN [c]) with false in Hrun by (unfold lenN; cbn [length]; lia).
  replace (lenN [c] =? lenN (cs hs)) with false in Hrun by (unfold lenN; cbn [length]; lia).
  assert (Hnc : norm cfg nr c = c) by (eapply WitnessFacts.needle_ok_in; [exact Hok|left; reflexivity]).
  destruct (rp hs) eqn:Ehr.
  - destruct nr.
    + unfold substring_1_ascii in Hrun.
      destruct (best_pos _ _ _) as [[i sc]|] eqn:Ebp; [|discriminate]. injection Hrun as <- <-.
      pose proof (single_core cfg Ascii (cs hs) c 0 (byte_matches (ignore_case cfg) c) i sc) as H.
      change (dropN 0 (cs hs)) with (cs hs) in H.
      change (prev_class cfg Ascii (cs hs) 0) with (init_class cfg) in H.
      destruct H as [(H1 & H2 & H3) H4].
      * intros x. apply WitnessFacts.byte_matches_norm. exact Hnc.
      * lia.
      * intros j Hj. lia.
      * exact Ebp.
      * split; [exists i; auto|exact H4].
    + exfalso. apply HK. split; [exact Ehr|reflexivity].
  - destruct (prefilter_non_ascii cfg (cs hs) [c] true) as [[st e]|] eqn:Epf; [|discriminate].
    unfold prefilter_non_ascii in Epf.
    destruct (position _ _) as [st'|] eqn:Epos; [|discriminate].
    destruct (lenN (cs hs) - st' <? lenN [c]) eqn:El; [discriminate|]. injection Epf as <- <-.
    replace (takeN (lenN (cs hs) - lenN [c] + 1) (cs hs)) with (cs hs) in Epos.
    2:{ unfold takeN, lenN. cbn [length]. replace (N.to_nat (N.of_nat (length (cs hs)) - N.of_nat 1 + 1)) with (length (cs hs)) by lia.
        symmetry. apply firstn_all. }
    destruct (C05Facts.position_some _ 0 _ _ Epos) as [Hst1 Hst2].
    unfold substring_1_non_ascii in Hrun.
    destruct (best_pos _ _ _) as [[i sc]|] eqn:Ebp.
    + injection Hrun as <- <-.
      destruct (single_core cfg Unicode (cs hs) c st' (fun x => fst (class_norm cfg Unicode x) =? c) i sc)
        as [(H1 & H2 & H3) H4].
      * intros x. rewrite class_norm_fst. reflexivity.
      * unfold lenN. lia.
      * intros j Hj. destruct (occurs cfg Unicode (cs hs) [c] j) eqn:Eo; [|reflexivity]. exfalso.
        apply occurs_single_iff in Eo. destruct Eo as [Hjl Hjn].
        destruct (C05Facts.position_le (fun c0 => norm cfg Unicode c0 =? c) 0 (cs hs) (N.to_nat j) Hjl) as (k & Hk & Hkj).
        { unfold nh in Hjn. rewrite (nth_indep _ 0 (norm cfg Unicode 0)) in Hjn by (rewrite map_length; lia).
          rewrite map_nth in Hjn. rewrite Hjn. apply N.eqb_refl. }
        rewrite Epos in Hk. injection Hk as <-. lia.
      * exact Ebp.
      * split; [exists i; auto|exact H4].
    + exfalso. apply ScoreFacts.best_pos_none in Ebp.
      destruct (WitnessFacts.skipn_split (cs hs) (N.to_nat st') Hst1) as (x & r & Hs).
      destruct (WitnessFacts.skipn_cons_inv _ _ _ _ Hs) as (_ & Hx & _).
      unfold dropN in Ebp. rewrite Hs in Ebp. cbn [scan_cands head_is] in Ebp.
      rewrite class_norm_fst, <- (Hx 0), Hst2 in Ebp. discriminate.
Qed.

Print Assumptions C04_single.
