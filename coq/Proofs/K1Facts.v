(* Known finding K1, characterised exactly: inside the known class (byte haystack, code-point needle) every one of
   the six algorithms answers NoMatch for every non-empty needle (and Match 0 [] for the empty one) - the class
   hides no other behaviour (no panic, no wrong match, no dependence on the configuration or the content). *)
From Coq Require Import NArith List Bool.
From NV Require Import Model.Matcher Spec.Matching Spec.Statements Proofs.TotalFacts.
Import ListNotations.
Local Open Scope N_scope.

Lemma exact_impl_K1 cfg ch cn s e :
  exact_impl cfg {| rp := Ascii; cs := ch |} {| rp := Unicode; cs := cn |} s e = NoMatch.
Proof. unfold exact_impl; cbn [rp cs]. destruct (negb _); reflexivity. Qed.

Lemma K1_all_nomatch : forall cfg a hs ns, known_K1 hs ns -> cs ns <> [] -> run cfg a hs ns = NoMatch.
Proof.
  intros cfg a [rh ch] [rn cn] [Hh Hn] Hne. cbn [rp cs] in *. subst rh rn.
  destruct cn as [|n0 nrest]; [contradiction|].
  destruct a; cbn [run].
  - unfold fuzzy_impl; cbn [rp cs]. destruct (_ <? _); [reflexivity|].
    destruct (_ =? _); [apply exact_impl_K1|reflexivity].
  - unfold fuzzy_greedy_impl; cbn [rp cs]. destruct (_ <? _); [reflexivity|].
    destruct (_ =? _); [apply exact_impl_K1|reflexivity].
  - unfold substring_impl; cbn [rp cs]. destruct (_ <? _); [reflexivity|].
    destruct (_ =? _); [apply exact_impl_K1|reflexivity].
  - unfold prefix_entry; cbn [rp cs]. cbv zeta. destruct (_ <? _); [reflexivity|apply exact_impl_K1].
  - unfold postfix_entry; cbn [rp cs]. cbv zeta. destruct (_ <? _); [reflexivity|apply exact_impl_K1].
  - pose proof (exact_entry_np cfg {| rp := Ascii; cs := ch |} {| rp := Unicode; cs := n0 :: nrest |}) as NP.
    revert NP. unfold exact_entry; cbn [rp cs]. cbv zeta. intros NP.
    destruct (_ =? _); [reflexivity|]. destruct (_ <? _); [exfalso; apply (NP 3); reflexivity|apply exact_impl_K1].
Qed.

Lemma K1_empty_needle : forall cfg a hs ns, cs ns = [] -> run cfg a hs ns = Match 0 [].
Proof.
  intros cfg a [rh ch] [rn cn] E. cbn [cs] in E. subst cn.
  destruct a; cbn [run]; unfold fuzzy_impl, fuzzy_greedy_impl, substring_impl, prefix_entry, postfix_entry, exact_entry; cbn [rp cs];
    try reflexivity; destruct (lenN ch <? lenN []) eqn:L; try reflexivity;
    unfold lenN in L; cbn in L; apply N.ltb_lt in L; exfalso; revert L; apply N.nlt_0_r.
Qed.
