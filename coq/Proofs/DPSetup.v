(* Facts about setup_loop (normalised window, bonus list, greedy row offsets) and the translation of
   the window-level path facts of DPCore to fzf_score / embedding_b on the whole haystack. *)
From Coq Require Import ZArith NArith List Bool Lia ZifyBool ZifyN ZifyNat.
From NV Require Import Base.Util Model.Chars Model.Matcher Spec.Matching Spec.Statements Proofs.CharsFacts.
From NV Require Import Proofs.DPCore.
From NV Require Proofs.ScoreFacts.
Import ListNotations.
Local Open Scope N_scope.

(* ---- setup_loop ------------------------------------------------------------------------------------ *)
Fixpoint blist (cfg : config) (hr : repr) (prev : cls) (hs : list N) : list N :=
  match hs with
  | [] => []
  | c0 :: hs' => bonus_for cfg prev (class cfg hr c0) :: blist cfg hr (class cfg hr c0) hs'
  end.

Lemma blist_len cfg hr : forall hs prev, lenN (blist cfg hr prev hs) = lenN hs.
Proof. induction hs as [|c hs IH]; intros prev; cbn [blist]; [reflexivity|]. rewrite !lenN_cons, IH. reflexivity. Qed.

Lemma ROK_weaken hw : forall n' ro' lb lb', lb' <= lb -> ROK hw lb n' ro' -> ROK hw lb' n' ro'.
Proof.
  intros [|x n'] [|off ro'] lb lb' Hle H; cbn [ROK] in *; try assumption.
  destruct H as (H1 & H2 & H3 & H4). repeat split; try assumption. lia.
Qed.

Lemma nthN_app_r {A} (pre l : list A) k d : nthN (pre ++ l) (lenN pre + k) d = nthN l k d.
Proof.
  unfold nthN, lenN. rewrite app_nth2 by lia. f_equal. lia.
Qed.

Lemma setup_spec cfg hr : forall hs i prev nc nrest matched hw bs ro mt',
  setup_loop cfg hr hs i prev nc nrest matched = (hw, bs, ro, mt') ->
  hw = map (norm cfg hr) hs /\ bs = blist cfg hr prev hs /\
  (matched = false -> mt' = true ->
   forall G pre, G = pre ++ hw -> lenN pre = i -> ROK G i (nc :: nrest) ro) /\
  (matched = true -> nrest = [] -> ro = []).
Proof.
  induction hs as [|c0 hs IH]; intros i prev nc nrest matched hw bs ro mt' H.
  - cbn [setup_loop] in H. injection H as <- <- <- <-. split; [reflexivity|]. split; [reflexivity|].
    split; [intros -> E; discriminate|reflexivity].
  - cbn [setup_loop] in H.
    pose proof (class_norm_fst cfg hr c0) as Hf. pose proof (class_norm_snd cfg hr c0) as Hs.
    destruct (class_norm cfg hr c0) as [c k]. cbn [fst snd] in Hf, Hs. subst c k.
    cbn [map blist].
    destruct (norm cfg hr c0 =? nc) eqn:Ec.
    + apply N.eqb_eq in Ec. destruct nrest as [|x r].
      * destruct (setup_loop cfg hr hs (i + 1) (class cfg hr c0) nc [] true) as [[[cs' bs'] ro'] m] eqn:E.
        injection H as <- <- <- <-.
        destruct (IH _ _ _ _ _ _ _ _ _ E) as (-> & -> & _ & Hro). specialize (Hro eq_refl eq_refl). subst ro'.
        split; [reflexivity|]. split; [reflexivity|]. split.
        -- intros -> _ G pre HG Hpre. cbn [ROK]. split; [lia|]. split; [|split; [|exact I]].
           ++ rewrite HG, <- Hpre. replace (lenN pre) with (lenN pre + 0) by lia. rewrite nthN_app_r. exact Ec.
           ++ rewrite HG, lenN_app, lenN_cons, lenN_nil. lia.
        -- intros -> _. reflexivity.
      * destruct (setup_loop cfg hr hs (i + 1) (class cfg hr c0) x r matched) as [[[cs' bs'] ro'] m] eqn:E.
        injection H as <- <- <- <-.
        destruct (IH _ _ _ _ _ _ _ _ _ E) as (-> & -> & HROK & _).
        split; [reflexivity|]. split; [reflexivity|]. split; [|intros _ E'; discriminate].
        intros Hm Hmt G pre HG Hpre.
        assert (HR : ROK G (i + 1) (x :: r) ro').
        { apply (HROK Hm Hmt G (pre ++ [norm cfg hr c0])); [rewrite <- app_assoc; exact HG|].
          rewrite lenN_app, lenN_cons, lenN_nil. lia. }
        cbn [ROK]. split; [lia|]. split; [|split; [|exact HR]].
        -- rewrite HG, <- Hpre. replace (lenN pre) with (lenN pre + 0) by lia. rewrite nthN_app_r. exact Ec.
        -- destruct ro' as [|off' ro'']; [destruct HR|]. cbn [ROK] in HR. destruct HR as (H1 & _ & H3 & _).
           rewrite lenN_cons. lia.
    + destruct (setup_loop cfg hr hs (i + 1) (class cfg hr c0) nc nrest matched) as [[[cs' bs'] ro'] m] eqn:E.
      injection H as <- <- <- <-.
      destruct (IH _ _ _ _ _ _ _ _ _ E) as (-> & -> & HROK & Hro).
      split; [reflexivity|]. split; [reflexivity|]. split; [|exact Hro].
      intros Hm Hmt G pre HG Hpre. apply (ROK_weaken G _ _ (i + 1)); [lia|].
      apply (HROK Hm Hmt G (pre ++ [norm cfg hr c0])); [rewrite <- app_assoc; exact HG|].
      rewrite lenN_app, lenN_cons, lenN_nil. lia.
Qed.

Lemma setup_hd cfg hr c0 hs i prev nc nrest hw bs ro mt' :
  setup_loop cfg hr (c0 :: hs) i prev nc nrest false = (hw, bs, ro, mt') ->
  norm cfg hr c0 = nc -> hd 0 ro = i.
Proof.
  intros H Hn. cbn [setup_loop] in H.
  pose proof (class_norm_fst cfg hr c0) as Hf. destruct (class_norm cfg hr c0) as [c k]. cbn [fst] in Hf. subst c.
  rewrite Hn, N.eqb_refl in H. destruct nrest as [|x r].
  - destruct (setup_loop _ _ _ _ _ _ _ _) as [[[cs' bs'] ro'] m]. injection H as _ _ <- _. reflexivity.
  - destruct (setup_loop _ _ _ _ _ _ _ _) as [[[cs' bs'] ro'] m]. injection H as _ _ <- _. reflexivity.
Qed.

(* the bonus list is the spec's bonus at the absolute positions *)
Lemma blist_nth cfg hr h : forall hs st prev,
  prev = class_before cfg hr h st ->
  (forall j, j < lenN hs -> nthN hs j 0 = nthN h (st + j) 0) ->
  forall j, j < lenN hs -> nthN (blist cfg hr prev hs) j 0 = spec_bonus_at cfg hr h (st + j).
Proof.
  induction hs as [|c0 hs IH]; intros st prev Hprev Hh j Hj; [rewrite lenN_nil in Hj; lia|].
  rewrite lenN_cons in Hj. cbn [blist].
  assert (Hc0 : c0 = nthN h st 0).
  { specialize (Hh 0). rewrite nthN_cons_0, N.add_0_r in Hh. apply Hh. rewrite lenN_cons. lia. }
  destruct (N.eqb_spec j 0) as [->|Hne].
  - rewrite nthN_cons_0, N.add_0_r. rewrite ScoreFacts.C03_bonus_table, Hprev, Hc0. reflexivity.
  - replace j with (j - 1 + 1) at 1 by lia. rewrite nthN_cons_succ.
    rewrite (IH (st + 1)).
    + f_equal. lia.
    + rewrite ScoreFacts.class_before_succ, Hc0. reflexivity.
    + intros j' Hj'. specialize (Hh (j' + 1)). rewrite nthN_cons_succ in Hh. rewrite Hh by (rewrite lenN_cons; lia).
      f_equal. lia.
    + lia.
Qed.

(* ---- window paths versus the specification --------------------------------------------------------- *)
Lemma fzf_rest_window cfg hr h start bs : forall l prev rf score,
  (forall c, In c l -> nthN bs c 0 = spec_bonus_at cfg hr h (start + c)) ->
  fzf_rest cfg hr h (map (N.add start) l) (start + prev) rf score
  = snd (fold_left (fstep bs) l (prev, rf, score)).
Proof.
  induction l as [|c l IH]; intros prev rf score Hb; [reflexivity|].
  cbn [map fzf_rest fold_left]. unfold fstep at 2. unfold bon.
  rewrite (Hb c (or_introl eq_refl)).
  assert (Hb' : forall c', In c' l -> nthN bs c' 0 = spec_bonus_at cfg hr h (start + c'))
    by (intros c' Hc'; apply Hb; right; exact Hc').
  replace (start + c =? start + prev + 1) with (c =? prev + 1) by lia.
  destruct (c =? prev + 1).
  - apply IH. exact Hb'.
  - replace (start + c - (start + prev) - 1) with (c - prev - 1) by lia. apply IH. exact Hb'.
Qed.

Lemma fzf_score_window cfg hr h start bs p :
  (forall c, In c p -> nthN bs c 0 = spec_bonus_at cfg hr h (start + c)) ->
  fzf_score cfg hr h (map (N.add start) p) = snd (pstate bs p).
Proof.
  destruct p as [|c0 r]; intros Hb; [reflexivity|]. cbn [map fzf_score pstate]. unfold bon.
  rewrite (Hb c0 (or_introl eq_refl)). apply fzf_rest_window. intros c Hc. apply Hb. right. exact Hc.
Qed.

Lemma vpath_lt hw n p : vpath hw n p -> forall c, In c p -> c < lenN hw.
Proof.
  induction 1 as [c0 H1 H2 | p c Hv IH Hl Hc Hn]; intros x Hx.
  - destruct Hx as [<-|[]]. exact H1.
  - apply in_app_or in Hx. destruct Hx as [Hx|[<-|[]]]; [apply IH; exact Hx|exact Hc].
Qed.

Lemma emb_snoc H c x : forall l n1 lo, length l = length n1 ->
  embedding_b l n1 H lo = true ->
  (match l with [] => lo | _ => last l 0 + 1 end) <= c -> c < N.of_nat (length H) -> nth (N.to_nat c) H 0 = x ->
  embedding_b (l ++ [c]) (n1 ++ [x]) H lo = true.
Proof.
  induction l as [|i l IH]; intros [|y n1] lo Hlen He Hlo Hc Hx; try discriminate.
  - cbn [app embedding_b]. rewrite Hx, N.eqb_refl. replace (lo <=? c) with true by lia.
    replace (c <? N.of_nat (length H)) with true by lia. reflexivity.
  - cbn [app embedding_b] in *. apply andb_prop in He. destruct He as [He1 He2]. rewrite He1. cbn [andb].
    apply IH; [cbn in Hlen; lia|exact He2| |exact Hc|exact Hx].
    destruct l as [|i' l']; [cbn [last] in Hlo; exact Hlo|exact Hlo].
Qed.

Lemma last_map (f : N -> N) : forall l, l <> [] -> last (map f l) 0 = f (last l 0).
Proof.
  induction l as [|x l IH]; intros H; [congruence|]. destruct l as [|y l]; [reflexivity|].
  change (last (map f (x :: y :: l)) 0) with (last (map f (y :: l)) 0). rewrite IH by discriminate. reflexivity.
Qed.

Lemma firstn_snoc (l : list N) k : (k < length l)%nat -> firstn (S k) l = firstn k l ++ [nth k l 0].
Proof.
  revert l. induction k as [|k IH]; intros [|x l] Hk; cbn [length] in Hk; try lia; [reflexivity|].
  cbn [firstn nth app]. rewrite <- IH by lia. reflexivity.
Qed.

Lemma vpath_embedding hw n H start :
  (forall c, c < lenN hw -> start + c < N.of_nat (length H) /\ nth (N.to_nat (start + c)) H 0 = nthN hw c 0) ->
  forall p, vpath hw n p -> lenN p <= lenN n ->
  embedding_b (map (N.add start) p) (firstn (length p) n) H 0 = true.
Proof.
  intros HH. induction 1 as [c0 H1 H2 | p c Hv IH Hl Hc Hn]; intros Hlen.
  - destruct n as [|x n']; [unfold lenN in Hlen; cbn in Hlen; lia|].
    cbn [map length firstn embedding_b]. destruct (HH c0 H1) as [Hb Hnth].
    rewrite Hnth, H2. cbn [nthN N.to_nat nth]. rewrite N.eqb_refl.
    replace (start + c0 <? N.of_nat (length H)) with true by lia.
    replace (0 <=? start + c0) with true by lia. reflexivity.
  - rewrite lenN_app, lenN_cons, lenN_nil in Hlen.
    rewrite map_app, app_length. cbn [map length]. rewrite Nat.add_1_r.
    rewrite firstn_snoc by (unfold lenN in Hlen; lia).
    pose proof (vpath_ne _ _ _ Hv) as Hne.
    destruct (HH c Hc) as [Hb Hnth].
    apply emb_snoc.
    + rewrite map_length, firstn_length. unfold lenN in Hlen. lia.
    + apply IH. lia.
    + destruct (map (N.add start) p) eqn:E; [destruct p; [congruence|discriminate]|].
      rewrite <- E, last_map by exact Hne. lia.
    + exact Hb.
    + rewrite Hnth, Hn. unfold nthN, lenN. rewrite Nat2N.id. reflexivity.
Qed.
