From Coq Require Import NArith PeanoNat List Bool Lia ZifyBool ZifyNat ZifyN.
From NV Require Import Base.Util Model.Chars Model.PatternParse Spec.PatternParseSpec Proofs.CharsFacts.
Import ListNotations.
Local Open Scope N_scope.

(* induction with a two-element look-ahead (unescape_ascii, crlf) *)
Lemma list_ind2 {A} (P : list A -> Prop) :
  P [] -> (forall a, P [a]) -> (forall a b r, P r -> P (b :: r) -> P (a :: b :: r)) -> forall l, P l.
Proof.
  intros H0 H1 H2 l. enough (P l /\ forall a, P (a :: l)) by tauto.
  induction l as [|b r [IH1 IH2]]; split; auto.
Qed.

(* ---- ASCII facts (finite checks lifted) ------------------------------------------------------------ *)
Lemma is_upper_ascii_tbl : forallb (fun c => Bool.eqb (is_upper c) (in_range 65 90 c)) (Nrange 0 128) = true.
Proof. vm_compute. reflexivity. Qed.
Lemma is_upper_ascii c : c < 128 -> is_upper c = is_ascii_uppercase c.
Proof.
  intros H. pose proof (forallb_Nrange _ _ _ is_upper_ascii_tbl c) as F.
  apply eqb_prop, F; lia.
Qed.
Lemma ascii_lower_to_lower c : c < 128 -> ascii_lower c = to_lower c.
Proof. intros H. rewrite (to_lower_ascii c H). reflexivity. Qed.
Lemma is_upper_false_fix c : is_upper c = false -> to_lower c = c.
Proof. unfold is_upper, to_lower. destruct (fold_lookup c); [discriminate|reflexivity]. Qed.

Lemma is_ascii_forall s : is_ascii s = true -> forall c, In c s -> c < 128.
Proof. unfold is_ascii. rewrite forallb_forall. intros H c Hc. specialize (H c Hc). lia. Qed.

(* ---- unescape_ascii --------------------------------------------------------------------------------- *)
Lemma unescape_cons2 a b r :
  unescape_ascii (a :: b :: r) =
  if (a =? BSLASH) && (b =? SPACE) then SPACE :: unescape_ascii r else a :: unescape_ascii (b :: r).
Proof. reflexivity. Qed.

Lemma unescape_in s : forall c, In c (unescape_ascii s) -> In c s \/ c = SPACE.
Proof.
  induction s as [|a|a b r IH1 IH2] using list_ind2; intros c.
  - intros [].
  - cbn. tauto.
  - rewrite unescape_cons2. destruct ((a =? BSLASH) && (b =? SPACE)).
    + intros [<-|H]; [now right|]. destruct (IH1 c H); [left; right; now right | now right].
    + intros [<-|H]; [left; now left|]. destruct (IH2 c H); [left; now right | now right].
Qed.

Lemma unescape_is_ascii s : is_ascii s = true -> is_ascii (unescape_ascii s) = true.
Proof.
  intros H. unfold is_ascii. apply forallb_forall. intros c Hc.
  destruct (unescape_in s c Hc) as [Hin| ->]; [|reflexivity].
  pose proof (is_ascii_forall s H c Hin). lia.
Qed.

(* ---- the flags computed by the loops ---------------------------------------------------------------- *)
Definition norm_fixed (c : N) : bool := normalize c =? c.

Definition ic_after (cm : case_matching) (ic : bool) (o : list N) : bool :=
  match cm with CaseSmart => ic && negb (existsb is_upper o) | _ => ic end.
Definition nz_after (nm : normalization) (nz : bool) (o : list N) : bool :=
  match nm with NormSmart => nz && forallb norm_fixed o | NormNever => nz end.

Lemma ic_after_app cm ic a b : ic_after cm ic (a ++ b) = ic_after cm (ic_after cm ic a) b.
Proof. destruct cm; cbn; try reflexivity. rewrite existsb_app. destruct ic, (existsb is_upper a), (existsb is_upper b); reflexivity. Qed.
Lemma nz_after_app nm nz a b : nz_after nm nz (a ++ b) = nz_after nm (nz_after nm nz a) b.
Proof. destruct nm; cbn; try reflexivity. rewrite forallb_app. destruct nz, (forallb norm_fixed a), (forallb norm_fixed b); reflexivity. Qed.

Lemma ic_after_plain cm ic c : is_upper c = false -> ic_after cm ic [c] = ic.
Proof. intros H. destruct cm; cbn; rewrite ?H; destruct ic; reflexivity. Qed.
Lemma nz_after_plain nm nz c : norm_fixed c = true -> nz_after nm nz [c] = nz.
Proof. intros H. destruct nm; cbn; rewrite ?H; destruct nz; reflexivity. Qed.

Lemma plain_bslash : is_upper BSLASH = false /\ norm_fixed BSLASH = true /\ to_lower BSLASH = BSLASH.
Proof. vm_compute. auto. Qed.
Lemma plain_space : is_upper SPACE = false /\ norm_fixed SPACE = true /\ to_lower SPACE = SPACE.
Proof. vm_compute. auto. Qed.
Lemma plain_dollar : is_upper DOLLAR = false /\ norm_fixed DOLLAR = true /\ to_lower DOLLAR = DOLLAR.
Proof. vm_compute. auto. Qed.

(* step_char: the pushed character and the two flags *)
Lemma step_char_flags cm nm c ic nz :
  let '(c', ic1, nz1) := step_char cm nm c ic nz in
  c' = (match cm with CaseIgnore => to_lower c | _ => c end) /\
  ic1 = ic_after cm ic [c'] /\ nz1 = nz_after nm nz [c'].
Proof.
  unfold step_char. split; [reflexivity|]. split.
  - destruct cm; cbn; try reflexivity. rewrite orb_false_r. reflexivity.
  - destruct nm; cbn; try reflexivity. unfold norm_fixed. rewrite andb_true_r. reflexivity.
Qed.

Lemma plain_loop_flags cm nm g : forall ic nz,
  let '(o, ic', nz') := plain_loop cm nm g ic nz in
  ic' = ic_after cm ic o /\ nz' = nz_after nm nz o.
Proof.
  induction g as [|c r IH]; intros ic nz; cbn [plain_loop].
  - destruct cm, nm; cbn; rewrite ?andb_true_r; auto.
  - pose proof (step_char_flags cm nm c ic nz) as S.
    destruct (step_char cm nm c ic nz) as [[c' ic1] nz1]. destruct S as (_ & -> & ->).
    specialize (IH (ic_after cm ic [c']) (nz_after nm nz [c'])).
    destruct (plain_loop cm nm r _ _) as [[o ic2] nz2]. destruct IH as [-> ->].
    change (c' :: o) with ([c'] ++ o). rewrite ic_after_app, nz_after_app. auto.
Qed.

Lemma esc_loop_flags fx cm nm g : forall saw ic nz,
  let '(o, ic', nz') := esc_loop fx cm nm g saw ic nz in
  ic' = ic_after cm ic o /\ nz' = nz_after nm nz o.
Proof.
  destruct plain_bslash as (Bu & Bn & _). destruct plain_space as (Su & Sn & _).
  induction g as [|c r IH]; intros saw ic nz; cbn [esc_loop].
  - destruct (fx && saw).
    + rewrite (ic_after_plain _ _ _ Bu), (nz_after_plain _ _ _ Bn). auto.
    + destruct cm, nm; cbn; rewrite ?andb_true_r; auto.
  - destruct (saw && (c =? SPACE)).
    + specialize (IH false ic nz). destruct (esc_loop fx cm nm r false ic nz) as [[o ic2] nz2].
      destruct IH as [-> ->]. change (SPACE :: o) with ([SPACE] ++ o).
      rewrite ic_after_app, nz_after_app, (ic_after_plain _ _ _ Su), (nz_after_plain _ _ _ Sn). auto.
    + assert (Hpre : forall o, ic_after cm ic ((if saw then [BSLASH] else []) ++ o) = ic_after cm ic o /\
                               nz_after nm nz ((if saw then [BSLASH] else []) ++ o) = nz_after nm nz o).
      { intros o. destruct saw; [|auto]. rewrite ic_after_app, nz_after_app,
          (ic_after_plain _ _ _ Bu), (nz_after_plain _ _ _ Bn). auto. }
      destruct (fx && (c =? BSLASH)).
      * specialize (IH true ic nz). destruct (esc_loop fx cm nm r true ic nz) as [[o ic2] nz2].
        destruct IH as [-> ->]. destruct (Hpre o) as [-> ->]. auto.
      * pose proof (step_char_flags cm nm c ic nz) as S.
        destruct (step_char cm nm c ic nz) as [[c' ic1] nz1]. destruct S as (_ & -> & ->).
        specialize (IH (c =? BSLASH) (ic_after cm ic [c']) (nz_after nm nz [c'])).
        destruct (esc_loop fx cm nm r _ _ _) as [[o ic2] nz2]. destruct IH as [-> ->].
        destruct (Hpre (c' :: o)) as [-> ->].
        change (c' :: o) with ([c'] ++ o). rewrite ic_after_app, nz_after_app. auto.
Qed.

(* ---- smart case / smart normalization at the level of new_inner ------------------------------------ *)
Lemma existsb_ext_in {A} (f g : A -> bool) l : (forall x, In x l -> f x = g x) -> existsb f l = existsb g l.
Proof. induction l as [|a l IH]; intros H; cbn; [reflexivity|]. rewrite H by now left. rewrite IH; auto. intros x Hx. apply H. now right. Qed.
Lemma forallb_ext_in {A} (f g : A -> bool) l : (forall x, In x l -> f x = g x) -> forallb f l = forallb g l.
Proof. induction l as [|a l IH]; intros H; cbn; [reflexivity|]. rewrite H by now left. rewrite IH; auto. intros x Hx. apply H. now right. Qed.

Definition dollar_txt (d : bool) : list N := if d then [DOLLAR] else [].
Lemma dollar_upper d : existsb is_upper (dollar_txt d) = false.
Proof. destruct d; [vm_compute|]; reflexivity. Qed.
Lemma dollar_norm d : forallb norm_fixed (dollar_txt d) = true.
Proof. destruct d; [vm_compute|]; reflexivity. Qed.

Lemma esc_or_not_ascii (esc : bool) s :
  is_ascii s = true -> is_ascii (if esc then unescape_ascii s else s) = true.
Proof. destruct esc; [apply unescape_is_ascii | auto]. Qed.

Lemma new_inner_ignore_case fx seg s cm nm k esc d :
  let a := new_inner fx seg s cm nm k esc d in
  a_ignore_case a = spec_ignore_case cm (a_needle a).
Proof.
  cbv zeta. unfold new_inner. fold (dollar_txt d). destruct (is_ascii s) eqn:E.
  - pose proof (esc_or_not_ascii esc s E) as E0. set (s0 := if esc then unescape_ascii s else s) in *.
    destruct cm; cbn [a_ignore_case a_needle spec_ignore_case]; try reflexivity.
    rewrite existsb_app, dollar_upper, orb_false_r. f_equal.
    apply existsb_ext_in. intros c Hc. symmetry. apply is_upper_ascii. exact (is_ascii_forall s0 E0 c Hc).
  - set (ic0 := match cm with CaseRespect => false | _ => true end).
    set (nz0 := match nm with NormSmart => true | NormNever => false end).
    assert (H : forall o ic nz, ic = ic_after cm ic0 o ->
              a_ignore_case {| a_negative := false; a_kind := k; a_needle := o ++ dollar_txt d; a_repr := Unicode;
                               a_ignore_case := ic; a_normalize := nz |} = spec_ignore_case cm (o ++ dollar_txt d)).
    { intros o ic nz ->. cbn [a_ignore_case]. subst ic0. destruct cm; cbn; try reflexivity.
      rewrite existsb_app, dollar_upper, orb_false_r. reflexivity. }
    destruct esc.
    + pose proof (esc_loop_flags fx cm nm (seg s) false ic0 nz0) as F.
      destruct (esc_loop fx cm nm (seg s) false ic0 nz0) as [[o ic] nz]. apply H, F.
    + pose proof (plain_loop_flags cm nm (seg s) ic0 nz0) as F.
      destruct (plain_loop cm nm (seg s) ic0 nz0) as [[o ic] nz]. apply H, F.
Qed.

Lemma new_inner_normalize fx seg s cm nm k esc d :
  let a := new_inner fx seg s cm nm k esc d in
  a_normalize a = spec_normalize nm (a_needle a).
Proof.
  cbv zeta. unfold new_inner. fold (dollar_txt d). destruct (is_ascii s) eqn:E.
  - pose proof (esc_or_not_ascii esc s E) as E0. set (s0 := if esc then unescape_ascii s else s) in *.
    assert (Hs : forall s1, (forall c, In c s1 -> c < 128) ->
                 forallb (fun c => normalize c =? c) (s1 ++ dollar_txt d) = true).
    { intros s1 H1. rewrite forallb_app. fold norm_fixed. rewrite dollar_norm, andb_true_r.
      apply forallb_forall. intros c Hc. unfold norm_fixed. rewrite (normalize_ascii c (H1 c Hc)). apply N.eqb_refl. }
    destruct cm; cbn [a_normalize a_needle]; destruct nm; cbn [spec_normalize]; try reflexivity; symmetry; apply Hs.
    all: try exact (is_ascii_forall s0 E0).
    intros c Hc. apply in_map_iff in Hc. destruct Hc as (x & <- & Hx).
    pose proof (is_ascii_forall s0 E0 x Hx). unfold ascii_lower, in_range. destruct ((65 <=? x) && (x <=? 90)) eqn:R; lia.
  - set (ic0 := match cm with CaseRespect => false | _ => true end).
    set (nz0 := match nm with NormSmart => true | NormNever => false end).
    assert (H : forall o ic nz, nz = nz_after nm nz0 o ->
              a_normalize {| a_negative := false; a_kind := k; a_needle := o ++ dollar_txt d; a_repr := Unicode;
                             a_ignore_case := ic; a_normalize := nz |} = spec_normalize nm (o ++ dollar_txt d)).
    { intros o ic nz ->. cbn [a_normalize]. subst nz0. destruct nm; cbn; try reflexivity.
      rewrite forallb_app. fold norm_fixed. rewrite dollar_norm, andb_true_r. reflexivity. }
    destruct esc.
    + pose proof (esc_loop_flags fx cm nm (seg s) false ic0 nz0) as F.
      destruct (esc_loop fx cm nm (seg s) false ic0 nz0) as [[o ic] nz]. apply H, F.
    + pose proof (plain_loop_flags cm nm (seg s) ic0 nz0) as F.
      destruct (plain_loop cm nm (seg s) ic0 nz0) as [[o ic] nz]. apply H, F.
Qed.

(* ---- the needle as a function of the text alone (flags projected away) ------------------------------ *)
Definition cmap (cm : case_matching) (c : N) : N := match cm with CaseIgnore => to_lower c | _ => c end.

Fixpoint esc_out (fx : bool) (f : N -> N) (g : list N) (saw : bool) : list N :=
  match g with
  | [] => if fx && saw then [BSLASH] else []
  | c :: r =>
    if saw && (c =? SPACE) then SPACE :: esc_out fx f r false
    else (if saw then [BSLASH] else []) ++
         (if fx && (c =? BSLASH) then esc_out fx f r true else f c :: esc_out fx f r (c =? BSLASH))
  end.

Lemma esc_loop_out fx cm nm g : forall saw ic nz,
  fst (fst (esc_loop fx cm nm g saw ic nz)) = esc_out fx (cmap cm) g saw.
Proof.
  induction g as [|c r IH]; intros saw ic nz; cbn [esc_loop esc_out]; [reflexivity|].
  destruct (saw && (c =? SPACE)).
  - specialize (IH false ic nz). destruct (esc_loop fx cm nm r false ic nz) as [[o i] n]. cbn in *. now rewrite IH.
  - destruct (fx && (c =? BSLASH)).
    + specialize (IH true ic nz). destruct (esc_loop fx cm nm r true ic nz) as [[o i] n]. cbn in *. now rewrite IH.
    + unfold step_char.
      match goal with |- context [esc_loop fx cm nm r ?s ?i ?n] => specialize (IH s i n); destruct (esc_loop fx cm nm r s i n) as [[o i2] n2] end.
      cbn in *. rewrite IH. destruct cm; reflexivity.
Qed.

Lemma plain_loop_out cm nm g : forall ic nz, fst (fst (plain_loop cm nm g ic nz)) = map (cmap cm) g.
Proof.
  induction g as [|c r IH]; intros ic nz; cbn [plain_loop map]; [reflexivity|]. unfold step_char.
  match goal with |- context [plain_loop cm nm r ?i ?n] => specialize (IH i n); destruct (plain_loop cm nm r i n) as [[o i2] n2] end.
  cbn in *. rewrite IH. destruct cm; reflexivity.
Qed.

Definition needle_of (fx : bool) (seg : list N -> list N) (s : list N) (cm : case_matching) (esc d : bool) : list N :=
  (if is_ascii s then
     let s0 := if esc then unescape_ascii s else s in
     match cm with CaseIgnore => map ascii_lower s0 | _ => s0 end
   else if esc then esc_out fx (cmap cm) (seg s) false else map (cmap cm) (seg s))
  ++ dollar_txt d.

Lemma new_inner_fields fx seg s cm nm k esc d :
  let a := new_inner fx seg s cm nm k esc d in
  a_negative a = false /\ a_kind a = k /\ a_repr a = (if is_ascii s then Ascii else Unicode) /\
  a_needle a = needle_of fx seg s cm esc d.
Proof.
  cbv zeta. unfold new_inner, needle_of. fold (dollar_txt d). destruct (is_ascii s).
  - destruct cm; cbn; auto.
  - destruct esc.
    + match goal with |- context [esc_loop fx cm nm ?g ?s ?i ?n] =>
        pose proof (esc_loop_out fx cm nm g s i n) as O; destruct (esc_loop fx cm nm g s i n) as [[o i2] n2] end.
      cbn in *. subst o. auto.
    + match goal with |- context [plain_loop cm nm ?g ?i ?n] =>
        pose proof (plain_loop_out cm nm g i n) as O; destruct (plain_loop cm nm g i n) as [[o i2] n2] end.
      cbn in *. subst o. auto.
Qed.

(* ---- ignore-case needles are stored case-folded ----------------------------------------------------- *)
Lemma esc_out_fold fx g : forall saw, esc_out fx to_lower g saw = map to_lower (esc_out fx (fun c => c) g saw).
Proof.
  destruct plain_bslash as (_ & _ & Bl). destruct plain_space as (_ & _ & Sl).
  induction g as [|c r IH]; intros saw; cbn [esc_out].
  - destruct (fx && saw); cbn [map]; rewrite ?Bl; reflexivity.
  - destruct (saw && (c =? SPACE)); [cbn [map]; rewrite Sl, IH; reflexivity|].
    rewrite map_app. f_equal; [destruct saw; cbn [map]; rewrite ?Bl; reflexivity|].
    destruct (fx && (c =? BSLASH)); [apply IH|]. cbn [map]. now rewrite IH.
Qed.

Lemma needle_of_fold fx seg s esc d :
  needle_of fx seg s CaseIgnore esc d = map to_lower (needle_of fx seg s CaseRespect esc d).
Proof.
  unfold needle_of. rewrite map_app. f_equal.
  - destruct (is_ascii s) eqn:E.
    + cbv zeta. apply map_ext_in. intros c Hc. apply ascii_lower_to_lower.
      exact (is_ascii_forall _ (esc_or_not_ascii esc s E) c Hc).
    + destruct esc.
      * change (cmap CaseIgnore) with to_lower. change (cmap CaseRespect) with (fun c : N => c). apply esc_out_fold.
      * change (cmap CaseIgnore) with to_lower. rewrite map_map. reflexivity.
  - destruct d; [|reflexivity]. cbn [dollar_txt map]. now rewrite (proj2 (proj2 plain_dollar)).
Qed.

Lemma new_inner_folded fx seg s cm nm k esc d :
  let a := new_inner fx seg s cm nm k esc d in
  a_ignore_case a = true -> map to_lower (a_needle a) = a_needle a.
Proof.
  cbv zeta. rewrite new_inner_ignore_case. destruct cm; cbn [spec_ignore_case].
  - discriminate.
  - intros _. destruct (new_inner_fields fx seg s CaseIgnore nm k esc d) as (_ & _ & _ & ->).
    rewrite needle_of_fold, map_map. apply map_ext. intros c. apply to_lower_idem.
  - intros H. apply negb_true_iff in H. rewrite <- (map_id (a_needle _)) at 2.
    apply map_ext_in. intros c Hc. apply is_upper_false_fix.
    destruct (is_upper c) eqn:U; [|reflexivity].
    assert (existsb is_upper (a_needle (new_inner fx seg s CaseSmart nm k esc d)) = true)
      by (apply existsb_exists; eauto). congruence.
Qed.

(* ---- lifting to Atom::parse -------------------------------------------------------------------------- *)
Lemma atom_parse_shape fx seg raw cm nm :
  exists inv s k d, atom_parse fx seg raw cm nm = set_negative inv (new_inner fx seg s cm nm k true d).
Proof.
  unfold atom_parse. destruct (strip_invert raw) as [inv a1]. destruct (strip_kind a1) as [k0 a2].
  destruct (strip_dollar k0 a2) as [[k1 d] a3]. eauto.
Qed.

Lemma atom_parse_ignore_case fx seg raw cm nm :
  let a := atom_parse fx seg raw cm nm in a_ignore_case a = spec_ignore_case cm (a_needle a).
Proof. cbv zeta. destruct (atom_parse_shape fx seg raw cm nm) as (inv & s & k & d & ->). apply new_inner_ignore_case. Qed.
Lemma atom_parse_normalize fx seg raw cm nm :
  let a := atom_parse fx seg raw cm nm in a_normalize a = spec_normalize nm (a_needle a).
Proof. cbv zeta. destruct (atom_parse_shape fx seg raw cm nm) as (inv & s & k & d & ->). apply new_inner_normalize. Qed.
Lemma atom_parse_folded fx seg raw cm nm :
  let a := atom_parse fx seg raw cm nm in a_ignore_case a = true -> map to_lower (a_needle a) = a_needle a.
Proof. cbv zeta. destruct (atom_parse_shape fx seg raw cm nm) as (inv & s & k & d & ->). apply new_inner_folded. Qed.

(* Ignore = fold of Respect, field by field *)
Lemma atom_parse_fold_source fx seg raw nm nm' :
  let ai := atom_parse fx seg raw CaseIgnore nm in
  let ar := atom_parse fx seg raw CaseRespect nm' in
  a_needle ai = map to_lower (a_needle ar) /\ a_kind ai = a_kind ar /\ a_negative ai = a_negative ar /\
  a_repr ai = a_repr ar.
Proof.
  cbv zeta. unfold atom_parse. destruct (strip_invert raw) as [inv a1]. destruct (strip_kind a1) as [k0 a2].
  destruct (strip_dollar k0 a2) as [[k1 d] a3]. cbn [set_negative a_needle a_kind a_negative a_repr].
  match goal with |- context [new_inner fx seg a3 CaseIgnore nm ?k true d] =>
    destruct (new_inner_fields fx seg a3 CaseIgnore nm k true d) as (_ & -> & -> & ->);
    destruct (new_inner_fields fx seg a3 CaseRespect nm' k true d) as (_ & -> & -> & ->) end.
  rewrite needle_of_fold. auto.
Qed.

(* ---- the marker table --------------------------------------------------------------------------------- *)
Ltac consts := unfold is_marker, is_kind_marker, BANG, CARET, QUOTE, BSLASH, DOLLAR, SPACE in *.
Ltac eqbs :=
  repeat (consts; match goal with
         | |- context [?a =? ?b] => destruct (N.eqb_spec a b); subst; cbn in *
         | H : context [?a =? ?b] |- _ => destruct (N.eqb_spec a b); subst; cbn in *
         end); consts; cbn in *; try discriminate; try congruence; auto.

Definition tbl_k0 (n : neg_m) (k : kind_m) : atom_kind :=
  match n, k with
  | NegEsc, _ => AFuzzy
  | _, KmCaret => APrefix
  | _, KmQuote => ASubstring
  | _, _ => AFuzzy
  end.

Lemma strip_prefix_markers n k x : lead_ok n k x = true ->
  strip_invert (neg_txt n ++ kind_txt k ++ x) =
    (tbl_negative n, match n with NegEsc => BANG :: kind_txt k ++ x | _ => kind_txt k ++ x end) /\
  strip_kind (match n with NegEsc => BANG :: kind_txt k ++ x | _ => kind_txt k ++ x end) =
    (tbl_k0 n k, tbl_source n k x).
Proof.
  intros H. destruct n, k; cbn [neg_txt kind_txt app tbl_negative tbl_k0 tbl_source lead_ok] in *;
    try (split; reflexivity);
    destruct x as [|c [|d r]]; consts; cbn in *; eqbs.
Qed.

Lemma starts_with_marker_end m b e : m DOLLAR = false -> m BSLASH = false ->
  starts_with_marker m (b ++ end_txt e) = starts_with_marker m b.
Proof.
  intros Hd Hb. destruct b as [|c [|d r]]; destruct e; cbn; rewrite ?Hd, ?Hb, ?andb_false_r, ?orb_false_r; reflexivity.
Qed.

Lemma lead_ok_end n k b e : lead_ok n k (b ++ end_txt e) = lead_ok n k b.
Proof. destruct n, k; cbn [lead_ok]; try reflexivity; rewrite starts_with_marker_end; reflexivity. Qed.

Lemma tbl_source_end n k b e : tbl_source n k (b ++ end_txt e) = tbl_source n k b ++ end_txt e.
Proof. destruct n, k; cbn [tbl_source kind_txt app]; rewrite ?app_assoc; reflexivity. Qed.

Lemma strip_dollar_end kind src e : tail_ok e src = true ->
  strip_dollar kind (src ++ end_txt e) =
  (match e with EmDollar => if kind_eqb kind AFuzzy then APostfix else AExact | _ => kind end, tbl_dollar e, src).
Proof.
  unfold tail_ok, strip_dollar. destruct e; cbn [end_txt tbl_dollar].
  - rewrite app_nil_r. destruct (rev src) as [|c r] eqn:E; [reflexivity|]. intros H.
    destruct (c =? DOLLAR); [discriminate|reflexivity].
  - rewrite rev_app_distr. cbn [rev app]. change (DOLLAR =? DOLLAR) with true. cbv iota.
    destruct (rev src) as [|c r] eqn:E; intros H.
    + apply (f_equal (@rev N)) in E. rewrite rev_involutive in E. subst src. reflexivity.
    + destruct (c =? BSLASH); [discriminate|]. apply (f_equal (@rev N)) in E. rewrite rev_involutive in E.
      subst src. reflexivity.
  - intros _. rewrite rev_app_distr. cbn [rev app]. change (DOLLAR =? DOLLAR) with true.
    change (BSLASH =? BSLASH) with true. cbv iota. now rewrite rev_involutive.
Qed.

Lemma tail_ok_cons e c b : (b = [] -> c <> DOLLAR /\ c <> BSLASH) -> tail_ok e b = true -> tail_ok e (c :: b) = true.
Proof.
  unfold tail_ok. cbn [rev]. intros Hc. destruct b as [|y b'].
  - destruct (Hc eq_refl) as [Hd Hb]. cbn. intros _. destruct e; auto; apply negb_true_iff, N.eqb_neq; assumption.
  - destruct (rev (y :: b')) as [|x r] eqn:E; [|auto].
    apply (f_equal (@length N)) in E. rewrite rev_length in E. discriminate.
Qed.

Lemma tail_ok_source n k e b : tail_ok e b = true -> tail_ok e (tbl_source n k b) = true.
Proof.
  intros H. destruct n, k; cbn [tbl_source kind_txt app]; auto;
    repeat (apply tail_ok_cons; [intros E; try discriminate E; split; consts; discriminate |]); exact H.
Qed.

Lemma atom_parse_markers fx seg n k e b cm nm :
  lead_ok n k b = true -> tail_ok e b = true ->
  atom_parse fx seg (marker_text n k e b) cm nm =
  set_negative (tbl_negative n)
    (new_inner fx seg (tbl_source n k b) cm nm (tbl_kind n k e) true (tbl_dollar e)).
Proof.
  intros Hl Ht. unfold atom_parse, marker_text.
  rewrite <- (lead_ok_end n k b e) in Hl. destruct (strip_prefix_markers n k _ Hl) as [-> ->].
  rewrite tbl_source_end, (strip_dollar_end _ _ _ (tail_ok_source n k e b Ht)).
  unfold tbl_kind. fold (tbl_k0 n k). reflexivity.
Qed.

(* ---- splitting: the closure's state machine is the positional definition ------------------------------- *)
Definition saw_of (pre : list N) : bool :=
  match length pre with O => false | S j => nth j pre 0 =? BSLASH end.

Lemma saw_of_snoc pre c : saw_of (pre ++ [c]) = (c =? BSLASH).
Proof.
  unfold saw_of. rewrite app_length. cbn [length]. rewrite Nat.add_1_r.
  rewrite app_nth2 by lia. rewrite Nat.sub_diag. reflexivity.
Qed.

Lemma unescaped_ws_at_mid pre c r :
  unescaped_ws_at (pre ++ c :: r) (length pre) = std_is_whitespace c && negb (saw_of pre).
Proof.
  unfold unescaped_ws_at, saw_of. rewrite app_nth2 by lia. rewrite Nat.sub_diag. cbn [nth].
  destruct (length pre) as [|j] eqn:E; [reflexivity|]. rewrite app_nth1 by lia. reflexivity.
Qed.

Lemma ws_not_bslash c : std_is_whitespace c = true -> (c =? BSLASH) = false.
Proof. intros H. destruct (N.eqb_spec c BSLASH) as [->|]; [vm_compute in H; discriminate | reflexivity]. Qed.

Lemma split_atoms_positional r : forall pre,
  split_atoms r (saw_of pre) = split_where (unescaped_ws_at (pre ++ r)) (length pre) r.
Proof.
  induction r as [|c r IH]; intros pre; cbn [split_atoms split_where]; [reflexivity|].
  rewrite unescaped_ws_at_mid. specialize (IH (pre ++ [c])).
  rewrite <- app_assoc, app_length, saw_of_snoc in IH. cbn [app length] in IH. rewrite Nat.add_1_r in IH.
  destruct (std_is_whitespace c && negb (saw_of pre)) eqn:E.
  - apply andb_true_iff in E. destruct E as [Hw Hs]. apply negb_true_iff in Hs. rewrite Hs.
    rewrite (ws_not_bslash c Hw) in IH. now rewrite IH.
  - now rewrite IH.
Qed.

Lemma pattern_atoms_spec p : pattern_atoms p = spec_atoms p.
Proof. exact (split_atoms_positional p []). Qed.

(* the pieces, joined with the cut characters, give the pattern back: nothing but the separators is lost *)
Lemma split_where_nonempty f i p : split_where f i p <> [].
Proof. revert i. induction p as [|c r IH]; intros i; cbn; [discriminate|]. destruct (f i); [discriminate|]. specialize (IH (S i)). destruct (split_where f (S i) r); [contradiction|discriminate]. Qed.

Lemma rejoin_split f p : forall i,
  rejoin (split_where f i p) (map (fun j => nth (j - i)%nat p 0) (filter f (seq i (length p)))) = p.
Proof.
  induction p as [|c r IH]; intros i; cbn [split_where length seq filter map]; [reflexivity|].
  assert (E : map (fun j => nth (j - i)%nat (c :: r) 0) (filter f (seq (S i) (length r)))
              = map (fun j => nth (j - S i)%nat r 0) (filter f (seq (S i) (length r)))).
  { apply map_ext_in. intros j Hj. apply filter_In in Hj. destruct Hj as [Hj _]. apply in_seq in Hj.
    replace (j - i)%nat with (S (j - S i)) by lia. reflexivity. }
  destruct (f i) eqn:F.
  - cbn [map]. rewrite E, Nat.sub_diag. cbn [nth rejoin app]. rewrite IH. reflexivity.
  - rewrite E. specialize (IH (S i)). pose proof (split_where_nonempty f (S i) r) as NE.
    destruct (split_where f (S i) r) as [|h t]; [contradiction|].
    destruct (map _ _) as [|s seps]; cbn [rejoin] in *; rewrite <- IH; reflexivity.
Qed.

Lemma spec_atoms_rejoin p : rejoin (spec_atoms p) (unescaped_ws_chars p) = p.
Proof.
  unfold spec_atoms, unescaped_ws_chars.
  pose proof (rejoin_split (unescaped_ws_at p) p 0) as H.
  replace (map (fun i => nth i p 0) (filter (unescaped_ws_at p) (seq 0 (length p))))
    with (map (fun j => nth (j - 0)%nat p 0) (filter (unescaped_ws_at p) (seq 0 (length p)))); [exact H|].
  apply map_ext. intros j. now rewrite Nat.sub_0_r.
Qed.

(* ---- round trip: parse (escape t) ---------------------------------------------------------------------- *)
Lemma esc_spaces_app a b : esc_spaces (a ++ b) = esc_spaces a ++ esc_spaces b.
Proof. induction a as [|c a IH]; cbn [esc_spaces app]; [reflexivity|]. destruct (c =? SPACE); cbn [app]; now rewrite IH. Qed.

(* the head of an escaped text is never a space *)
Lemma esc_spaces_head b : match esc_spaces b with c :: _ => (c =? SPACE) = false | [] => True end.
Proof. destruct b as [|c r]; cbn [esc_spaces]; [exact I|]. destruct (c =? SPACE) eqn:E; [reflexivity|exact E]. Qed.

Lemma unescape_escape b : unescape_ascii (esc_spaces b) = b.
Proof.
  induction b as [|c r IH]; [reflexivity|]. cbn [esc_spaces]. destruct (N.eqb_spec c SPACE) as [->|Hne].
  - rewrite unescape_cons2. cbn. now rewrite IH.
  - pose proof (esc_spaces_head r) as Hh. destruct (esc_spaces r) as [|d r'] eqn:E.
    + cbn. destruct r; [reflexivity|]. cbn in E. destruct (n =? SPACE); discriminate.
    + rewrite unescape_cons2. rewrite Hh, andb_false_r. now rewrite IH.
Qed.

Lemma esc_out_escape f b : f BSLASH = BSLASH -> f SPACE = SPACE -> forall saw,
  esc_out true f (esc_spaces b) saw = (if saw then [BSLASH] else []) ++ map f b.
Proof.
  intros Fb Fs. induction b as [|c r IH]; intros saw.
  - cbn. destruct saw; reflexivity.
  - cbn [esc_spaces]. destruct (N.eqb_spec c SPACE) as [->|Hne].
    + cbn [esc_out]. change (BSLASH =? SPACE) with false. rewrite andb_false_r.
      change (BSLASH =? BSLASH) with true. cbn [andb]. change (SPACE =? SPACE) with true. cbn [andb].
      rewrite IH. cbn [app map]. now rewrite Fs.
    + cbn [esc_out]. apply N.eqb_neq in Hne. rewrite Hne, andb_false_r. cbn [andb map]. f_equal.
      destruct (N.eqb_spec c BSLASH) as [->|Hb].
      * rewrite IH, Fb. reflexivity.
      * rewrite IH. reflexivity.
Qed.

(* splitting off the trailing '$' *)
Lemma split_trailing_dollar_spec t :
  let '(body, d) := split_trailing_dollar t in
  t = body ++ dollar_txt d /\ tail_ok (if d then EmEscDollar else EmNone) body = true.
Proof.
  unfold split_trailing_dollar. destruct (rev t) as [|c r] eqn:E.
  - split; [now rewrite app_nil_r|]. unfold tail_ok. now rewrite E.
  - destruct (N.eqb_spec c DOLLAR) as [->|Hne].
    + split; [|reflexivity]. rewrite <- (rev_involutive t), E. reflexivity.
    + split; [now rewrite app_nil_r|]. unfold tail_ok. rewrite E. now apply negb_true_iff, N.eqb_neq.
Qed.

Lemma tail_ok_esc_spaces e b : tail_ok e b = true -> e <> EmDollar -> tail_ok e (esc_spaces b) = true.
Proof.
  intros H He. destruct e; [|contradiction|reflexivity]. unfold tail_ok in *.
  destruct (rev b) as [|c r] eqn:E.
  - apply (f_equal (@rev N)) in E. rewrite rev_involutive in E. subst b. reflexivity.
  - apply (f_equal (@rev N)) in E. rewrite rev_involutive in E. subst b. cbn [rev].
    rewrite esc_spaces_app, rev_app_distr. cbn [esc_spaces]. destruct (c =? SPACE) eqn:S; cbn [rev app]; [|exact H].
    apply N.eqb_eq in S. subst c. reflexivity.
Qed.

(* no unescaped whitespace => one piece *)
Fixpoint ws_escaped (saw : bool) (s : list N) : bool :=
  match s with
  | [] => true
  | c :: r => negb (std_is_whitespace c && negb saw) && ws_escaped (c =? BSLASH) r
  end.

Lemma split_atoms_one s : forall saw, ws_escaped saw s = true -> split_atoms s saw = [s].
Proof.
  induction s as [|c r IH]; intros saw H; cbn [split_atoms]; [reflexivity|].
  cbn [ws_escaped] in H. apply andb_true_iff in H. destruct H as [H1 H2]. apply negb_true_iff in H1.
  rewrite H1, (IH _ H2). reflexivity.
Qed.

Definition only_space_ws (t : list N) : bool := forallb (fun c => negb (std_is_whitespace c) || (c =? SPACE)) t.

Lemma ws_escaped_escape body tail : only_space_ws body = true -> (tail = [] \/ tail = [BSLASH; DOLLAR]) ->
  forall saw, ws_escaped saw (esc_spaces body ++ tail) = true.
Proof.
  intros Hb Ht. induction body as [|c r IH]; intros saw.
  - destruct Ht as [-> | ->]; reflexivity.
  - cbn [only_space_ws forallb] in Hb. apply andb_true_iff in Hb. destruct Hb as [Hc Hr].
    cbn [esc_spaces]. destruct (N.eqb_spec c SPACE) as [->|Hne].
    + cbn [app ws_escaped]. change (std_is_whitespace BSLASH) with false. change (BSLASH =? BSLASH) with true.
      cbn [andb negb]. rewrite andb_false_r. cbn [negb andb]. apply IH, Hr.
    + cbn [app ws_escaped]. apply N.eqb_neq in Hne. rewrite ?Hne, orb_false_r in Hc. apply negb_true_iff in Hc.
      rewrite Hc. cbn [andb negb]. apply IH, Hr.
Qed.

Lemma only_space_ws_app a b : only_space_ws (a ++ b) = only_space_ws a && only_space_ws b.
Proof. apply forallb_app. Qed.

Lemma escapable_parts t : escapable t = true ->
  t <> [] /\ only_space_ws t = true /\
  (match t with c :: d :: _ => (c =? BSLASH) && is_marker d | _ => false end) = false.
Proof.
  unfold escapable. intros H. apply andb_true_iff in H. destruct H as [H H3].
  apply andb_true_iff in H. destruct H as [H1 H2]. split; [|split].
  - destruct t; [discriminate|discriminate].
  - exact H2.
  - now apply negb_true_iff.
Qed.

Lemma pattern_atoms_escape t : escapable t = true -> pattern_atoms (escape t) = [escape t].
Proof.
  intros H. destruct (escapable_parts t H) as (_ & Hw & _). unfold pattern_atoms. apply split_atoms_one.
  unfold escape. pose proof (split_trailing_dollar_spec t) as S.
  destruct (split_trailing_dollar t) as [body d]. destruct S as [St _].
  assert (Hb : only_space_ws body = true).
  { rewrite St, only_space_ws_app in Hw. now apply andb_true_iff in Hw. }
  assert (Ht : (if d then [BSLASH; DOLLAR] else []) = [] \/ (if d then [BSLASH; DOLLAR] else []) = [BSLASH; DOLLAR])
    by (destruct d; auto).
  destruct t as [|c r]; [apply (ws_escaped_escape body _ Hb Ht)|].
  destruct (is_marker c); [|apply (ws_escaped_escape body _ Hb Ht)].
  cbn [app ws_escaped]. change (std_is_whitespace BSLASH) with false. cbn [andb negb].
  apply (ws_escaped_escape body _ Hb Ht).
Qed.

Lemma is_marker_not_special c : is_marker c = true -> (c =? SPACE) = false /\ c <> DOLLAR.
Proof. consts. intros H. split; [|intros ->; discriminate]. destruct (N.eqb_spec c 32) as [->|]; [discriminate|reflexivity]. Qed.

(* the text between the (escaped) markers of escape t, after the first two matches of Atom::parse *)
Lemma atom_parse_escape_strip t body d : escapable t = true -> split_trailing_dollar t = (body, d) ->
  exists a1, strip_invert (escape t) = (false, a1) /\
             strip_kind a1 = (AFuzzy, esc_spaces body ++ end_txt (if d then EmEscDollar else EmNone)).
Proof.
  intros H S. destruct (escapable_parts t H) as (Hne & _ & Hlead).
  pose proof (split_trailing_dollar_spec t) as Sp. unfold escape. rewrite S in *. destruct Sp as [St _].
  set (e := if d then EmEscDollar else EmNone).
  replace (if d then [BSLASH; DOLLAR] else []) with (end_txt e) by (subst e; destruct d; reflexivity).
  destruct t as [|c r]; [contradiction|].
  destruct (is_marker c) eqn:M.
  - (* leading marker: body = c :: body' *)
    destruct (is_marker_not_special c M) as [Hs Hd].
    destruct body as [|c' body'].
    { exfalso. destruct d; cbn in St; [injection St as -> _; now apply Hd | discriminate]. }
    cbn [app] in St. injection St as <- _. cbn [esc_spaces]. rewrite Hs. cbn [app].
    set (X := esc_spaces body' ++ end_txt e).
    consts. destruct (N.eqb_spec c 33) as [->|N33].
    + destruct (strip_prefix_markers NegEsc KmNone X eq_refl) as [E1 E2]. eexists. split; [exact E1|exact E2].
    + destruct (N.eqb_spec c 94) as [->|N94].
      * destruct (strip_prefix_markers NegNone KmEscCaret X eq_refl) as [E1 E2]. eexists. split; [exact E1|exact E2].
      * destruct (N.eqb_spec c 39) as [->|N39]; [|discriminate].
        destruct (strip_prefix_markers NegNone KmEscQuote X eq_refl) as [E1 E2]. eexists. split; [exact E1|exact E2].
  - (* no leading marker *)
    cbn [app]. set (Y := esc_spaces body ++ end_txt e).
    assert (L : lead_ok NegNone KmNone Y = true).
    { cbn [lead_ok]. apply negb_true_iff. subst Y. destruct body as [|c' b2].
      - subst e. destruct d; reflexivity.
      - cbn [app] in St. injection St as <- St. cbn [esc_spaces]. destruct (N.eqb_spec c SPACE) as [->|Hs]; [reflexivity|].
        cbn [app starts_with_marker]. rewrite M. cbn [orb]. destruct (N.eqb_spec c BSLASH) as [->|Hb]; [|reflexivity].
        cbn [andb]. destruct b2 as [|d2 b3].
        + subst e. destruct d; reflexivity.
        + cbn [esc_spaces]. destruct (N.eqb_spec d2 SPACE) as [->|Hs2]; [reflexivity|]. cbn [app].
          subst r. cbn [app] in Hlead. change (BSLASH =? BSLASH) with true in Hlead. exact Hlead. }
    destruct (strip_prefix_markers NegNone KmNone Y L) as [E1 E2]. eexists. split; [exact E1|exact E2].
Qed.

Lemma atom_parse_escape fx seg t cm nm body d : escapable t = true -> split_trailing_dollar t = (body, d) ->
  atom_parse fx seg (escape t) cm nm = set_negative false (new_inner fx seg (esc_spaces body) cm nm AFuzzy true d).
Proof.
  intros H S. destruct (atom_parse_escape_strip t body d H S) as (a1 & E1 & E2).
  unfold atom_parse. rewrite E1, E2.
  pose proof (split_trailing_dollar_spec t) as Sp. rewrite S in Sp. destruct Sp as [_ Tk].
  rewrite strip_dollar_end by (apply tail_ok_esc_spaces; [exact Tk | destruct d; discriminate]).
  destruct d; reflexivity.
Qed.

Lemma is_ascii_esc_spaces b : is_ascii (esc_spaces b) = is_ascii b.
Proof.
  induction b as [|c r IH]; [reflexivity|]. cbn [esc_spaces]. destruct (N.eqb_spec c SPACE) as [->|Hne].
  - unfold is_ascii in *. cbn [forallb]. exact IH.
  - unfold is_ascii in *. cbn [forallb]. now rewrite IH.
Qed.

Lemma seg_simple_esc_spaces b : seg_simple b = true -> seg_simple (esc_spaces b) = true.
Proof.
  induction b as [|c r IH]; [reflexivity|]. cbn [seg_simple forallb esc_spaces]. intros H.
  apply andb_true_iff in H. destruct H as [Hc Hr]. destruct (c =? SPACE).
  - cbn [forallb]. change (seg_simple_char BSLASH) with true. change (seg_simple_char SPACE) with true. exact (IH Hr).
  - cbn [forallb]. rewrite Hc. exact (IH Hr).
Qed.

Lemma crlf_cons2 a b r : crlf (a :: b :: r) = if (a =? 13) && (b =? 10) then 10 :: crlf r else a :: crlf (b :: r).
Proof. reflexivity. Qed.

Lemma crlf_id s : forallb (fun c => negb (c =? 13)) s = true -> crlf s = s.
Proof.
  induction s as [|a|a b r IH1 IH2] using list_ind2; intros H; try reflexivity.
  rewrite crlf_cons2. cbn [forallb] in H. apply andb_true_iff in H. destruct H as [Ha Hr].
  apply negb_true_iff in Ha. rewrite Ha. cbn [andb]. now rewrite (IH2 Hr).
Qed.

Lemma no_cr_esc_spaces b : only_space_ws b = true -> forallb (fun c => negb (c =? 13)) (esc_spaces b) = true.
Proof.
  induction b as [|c r IH]; [reflexivity|]. cbn [only_space_ws forallb esc_spaces]. intros H.
  apply andb_true_iff in H. destruct H as [Hc Hr]. destruct (N.eqb_spec c SPACE) as [->|Hne].
  - cbn [forallb]. change (negb (BSLASH =? 13)) with true. change (negb (SPACE =? 13)) with true. exact (IH Hr).
  - cbn [forallb]. rewrite (IH Hr), andb_true_r. apply N.eqb_neq in Hne. rewrite ?Hne, orb_false_r in Hc.
    destruct (N.eqb_spec c 13) as [->|]; [vm_compute in Hc; discriminate | reflexivity].
Qed.

Lemma fold_if_app cm a d : fold_if cm (a ++ dollar_txt d) = fold_if cm a ++ dollar_txt d.
Proof.
  destruct cm; cbn [fold_if]; try reflexivity. rewrite map_app. f_equal.
  destruct d; [|reflexivity]. cbn [dollar_txt map]. now rewrite (proj2 (proj2 plain_dollar)).
Qed.

Lemma is_ascii_app a b : is_ascii (a ++ b) = is_ascii a && is_ascii b.
Proof. apply forallb_app. Qed.

Lemma needle_of_escape seg body cm d :
  seg_faithful seg -> only_space_ws body = true -> seg_simple body = true ->
  needle_of true seg (esc_spaces body) cm true d = fold_if cm (body ++ dollar_txt d).
Proof.
  intros Hseg Hw Hs. unfold needle_of. rewrite fold_if_app, is_ascii_esc_spaces. f_equal.
  destruct (is_ascii body) eqn:A.
  - cbv zeta. rewrite unescape_escape. destruct cm; cbn [fold_if]; try reflexivity.
    apply map_ext_in. intros c Hc. apply ascii_lower_to_lower. exact (is_ascii_forall body A c Hc).
  - rewrite (Hseg _ (seg_simple_esc_spaces body Hs)), (crlf_id _ (no_cr_esc_spaces body Hw)).
    rewrite esc_out_escape.
    + cbn [app]. destruct cm; cbn [fold_if]; try reflexivity; unfold cmap; apply map_id.
    + destruct cm; [reflexivity | exact (proj2 (proj2 plain_bslash)) | reflexivity].
    + destruct cm; [reflexivity | exact (proj2 (proj2 plain_space)) | reflexivity].
Qed.

Lemma fold_if_nonempty cm t : t <> [] -> fold_if cm t <> [].
Proof. destruct t; [contradiction|]. destruct cm; discriminate. Qed.

Lemma roundtrip seg t cm nm :
  seg_faithful seg -> escapable t = true -> seg_simple t = true ->
  pattern_parse true seg (escape t) cm nm = [literal_atom t cm nm].
Proof.
  intros Hseg He Hs. unfold pattern_parse. rewrite (pattern_atoms_escape t He). cbn [map].
  destruct (split_trailing_dollar t) as [body d] eqn:S.
  rewrite (atom_parse_escape true seg t cm nm body d He S).
  pose proof (split_trailing_dollar_spec t) as Sp. rewrite S in Sp. destruct Sp as [St _].
  destruct (escapable_parts t He) as (Hne & Hw & _).
  assert (Hwb : only_space_ws body = true) by (rewrite St, only_space_ws_app in Hw; now apply andb_true_iff in Hw).
  assert (Hsb : seg_simple body = true).
  { unfold seg_simple in *. rewrite St, forallb_app in Hs. now apply andb_true_iff in Hs. }
  pose proof (new_inner_fields true seg (esc_spaces body) cm nm AFuzzy true d) as F.
  pose proof (new_inner_ignore_case true seg (esc_spaces body) cm nm AFuzzy true d) as Fi.
  pose proof (new_inner_normalize true seg (esc_spaces body) cm nm AFuzzy true d) as Fn.
  cbv zeta in F, Fi, Fn. destruct F as (_ & Fk & Fr & Fd).
  rewrite (needle_of_escape seg body cm d Hseg Hwb Hsb), <- St in Fd. rewrite Fd in Fi, Fn.
  rewrite is_ascii_esc_spaces in Fr.
  assert (Ar : is_ascii t = is_ascii body).
  { rewrite St, is_ascii_app. destruct d; cbn; now rewrite ?andb_true_r. }
  destruct (new_inner true seg (esc_spaces body) cm nm AFuzzy true d) as [ng kd nd rp ic nz].
  cbn [a_kind a_repr a_needle a_ignore_case a_normalize set_negative] in *. subst.
  unfold literal_atom. rewrite Ar. cbn [filter needle_nonempty a_needle].
  pose proof (fold_if_nonempty cm _ Hne) as NE. destruct (fold_if cm (body ++ dollar_txt d)); [contradiction|reflexivity].
Qed.

(* ---- reparse -------------------------------------------------------------------------------------------- *)
Lemma reparse_is_parse fx seg old p cm nm : pattern_reparse fx seg old p cm nm = pattern_parse fx seg p cm nm.
Proof. reflexivity. Qed.

Lemma reparse_history_last fx seg old calls p cm nm :
  reparse_history fx seg old (calls ++ [(p, cm, nm)]) = pattern_parse fx seg p cm nm.
Proof. unfold reparse_history. rewrite fold_left_app. reflexivity. Qed.

(* ---- every atom a pattern holds ------------------------------------------------------------------------ *)
Lemma in_pattern_parse fx seg p cm nm a :
  In a (pattern_parse fx seg p cm nm) -> exists raw, a = atom_parse fx seg raw cm nm /\ a_needle a <> [].
Proof.
  unfold pattern_parse. intros H. apply filter_In in H. destruct H as [H Hn]. apply in_map_iff in H.
  destruct H as (raw & <- & _). exists raw. split; [reflexivity|]. unfold needle_nonempty in Hn.
  destruct (a_needle _); [discriminate|discriminate].
Qed.

Lemma in_pattern_new fx seg p cm nm k a :
  In a (pattern_new fx seg p cm nm k) -> exists raw, a = atom_new fx seg raw cm nm k true /\ a_needle a <> [].
Proof.
  unfold pattern_new. intros H. apply filter_In in H. destruct H as [H Hn]. apply in_map_iff in H.
  destruct H as (raw & <- & _). exists raw. split; [reflexivity|]. unfold needle_nonempty in Hn.
  destruct (a_needle _); [discriminate|discriminate].
Qed.

(* Pattern::parse with Ignore is the fold of Pattern::parse with Respect, atom by atom *)
Lemma filter_map_fold {A} (f g : A -> atom) (l : list A) :
  (forall x, a_needle (f x) = map to_lower (a_needle (g x))) ->
  map a_needle (filter needle_nonempty (map f l)) =
  map (fun a => map to_lower (a_needle a)) (filter needle_nonempty (map g l)).
Proof.
  intros H. induction l as [|x l IH]; [reflexivity|]. cbn [map filter].
  assert (E : needle_nonempty (f x) = needle_nonempty (g x)).
  { unfold needle_nonempty. rewrite (H x). destruct (a_needle (g x)); reflexivity. }
  rewrite E. destruct (needle_nonempty (g x)); cbn [map]; [|exact IH]. rewrite (H x), IH. reflexivity.
Qed.

Lemma pattern_parse_fold_source fx seg p nm nm' :
  map a_needle (pattern_parse fx seg p CaseIgnore nm) =
  map (fun a => map to_lower (a_needle a)) (pattern_parse fx seg p CaseRespect nm').
Proof.
  unfold pattern_parse. apply filter_map_fold. intros raw.
  exact (proj1 (atom_parse_fold_source fx seg raw nm nm')).
Qed.

(* ---- the stored needle is already normalised for the configuration Atom::score installs ---------------- *)
(* Atom::score / Atom::indices set matcher.config.ignore_case := atom.ignore_case and
   matcher.config.normalize := atom.normalize; the matcher theorems (C01-C05) assume that every needle
   character is a fixed point of Char::normalize under that configuration *)
Definition needle_fixed (cfg : config) (r : repr) (n : list N) : bool := forallb (fun c => norm cfg r c =? c) n.

Lemma map_fixed_pointwise (f : N -> N) l : map f l = l -> forall c, In c l -> f c = c.
Proof.
  induction l as [|a l IH]; intros H c Hc; [destruct Hc|]. cbn [map] in H. injection H as Ha Hl.
  destruct Hc as [<-|Hc]; [exact Ha | exact (IH Hl c Hc)].
Qed.

Lemma needle_of_ascii fx seg s cm esc d : is_ascii s = true -> is_ascii (needle_of fx seg s cm esc d) = true.
Proof.
  intros E. unfold needle_of. rewrite E, is_ascii_app. apply andb_true_iff. split; [|destruct d; reflexivity].
  cbv zeta. pose proof (esc_or_not_ascii esc s E) as E0. destruct cm; try exact E0.
  unfold is_ascii. apply forallb_forall. intros c Hc. apply in_map_iff in Hc. destruct Hc as (x & <- & Hx).
  pose proof (is_ascii_forall _ E0 x Hx). unfold ascii_lower, in_range. destruct ((65 <=? x) && (x <=? 90)) eqn:R; lia.
Qed.

Lemma new_inner_needle_fixed fx seg s cm nm k esc d cfg :
  let a := new_inner fx seg s cm nm k esc d in
  ignore_case cfg = a_ignore_case a -> normalize_on cfg = a_normalize a ->
  needle_fixed cfg (a_repr a) (a_needle a) = true.
Proof.
  cbv zeta. intros Hic Hnz.
  pose proof (new_inner_folded fx seg s cm nm k esc d) as Ff. cbv zeta in Ff.
  pose proof (new_inner_normalize fx seg s cm nm k esc d) as Fn. cbv zeta in Fn.
  destruct (new_inner_fields fx seg s cm nm k esc d) as (_ & _ & Fr & Fd).
  unfold needle_fixed. apply forallb_forall. intros c Hc. apply N.eqb_eq.
  assert (Hlow : ignore_case cfg = true -> to_lower c = c).
  { intros T. rewrite Hic in T. exact (map_fixed_pointwise _ _ (Ff T) c Hc). }
  rewrite Fr. destruct (is_ascii s) eqn:E.
  - cbn [norm]. unfold norm_ascii. destruct (ignore_case cfg) eqn:I; [|reflexivity]. cbn [andb].
    rewrite Fd in Hc. pose proof (is_ascii_forall _ (needle_of_ascii fx seg s cm esc d E) c Hc) as Hlt.
    specialize (Hlow eq_refl). rewrite (to_lower_ascii c Hlt) in Hlow.
    destruct (in_range 65 90 c); [lia|reflexivity].
  - cbn [norm]. unfold norm_char.
    assert (Hn : (if normalize_on cfg then normalize c else c) = c).
    { rewrite Hnz. destruct (a_normalize (new_inner fx seg s cm nm k esc d)) eqn:Z; [|reflexivity].
      destruct nm; cbn [spec_normalize] in Fn; [discriminate|]. symmetry in Fn.
      rewrite forallb_forall in Fn. apply N.eqb_eq, Fn, Hc. }
    rewrite Hn. destruct (ignore_case cfg) eqn:I; [exact (Hlow eq_refl)|reflexivity].
Qed.

Lemma atom_parse_needle_fixed fx seg raw cm nm cfg :
  let a := atom_parse fx seg raw cm nm in
  ignore_case cfg = a_ignore_case a -> normalize_on cfg = a_normalize a ->
  needle_fixed cfg (a_repr a) (a_needle a) = true.
Proof.
  cbv zeta. destruct (atom_parse_shape fx seg raw cm nm) as (inv & s & k & d & ->).
  exact (new_inner_needle_fixed fx seg s cm nm k true d cfg).
Qed.
