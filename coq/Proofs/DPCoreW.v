(* The DP (fuzzy_optimal), core: the DP branch yields a match with a valid witness. *)
From Coq Require Import ZArith NArith List Bool Lia ZifyBool ZifyN ZifyNat.
From NV Require Import Base.Util Model.Chars Model.Matcher Spec.Matching Spec.Statements Proofs.CharsFacts
  Proofs.DPBase Proofs.DPRow Proofs.DPInv Proofs.DPWalk.
Import ListNotations.
Local Open Scope N_scope.

(* ---- geometry delivered by setup_loop ---------------------------------------------------------------- *)
Definition geom (hw n ro : list N) : Prop :=
  forall k, (k < length n)%nat ->
    (k <= R ro k)%nat /\ (R ro k + (length n - k) <= length hw)%nat /\ nth (R ro k) hw 0 = nth k n 0 /\
    ((S k < length n)%nat -> (R ro k < R ro (S k))%nat).

Lemma setup_geometry cfg hr w pc n0 nrest hw bs ro c0 rest :
  setup_loop cfg hr w 0 pc n0 nrest false = (hw, bs, ro, true) ->
  w = c0 :: rest -> norm cfg hr c0 = n0 ->
  hw = map (norm cfg hr) w /\ length bs = length hw /\ length ro = length (n0 :: nrest) /\ R ro 0 = 0%nat /\
  geom hw (n0 :: nrest) ro.
Proof.
  intros E Ew Ec. destruct (setup_loop_spec _ _ _ _ _ _ _ _ _ _ _ _ E) as (S1 & S2 & _ & S4 & S5).
  specialize (S4 eq_refl eq_refl). specialize (S5 eq_refl c0 rest Ew Ec).
  destruct (embP_facts hw _ _ _ S4) as [L F].
  split; [exact S1|]. split; [rewrite S1, map_length; exact S2|]. split; [exact L|]. split.
  - unfold R. destruct ro; cbn [hd nth] in *; lia.
  - intros k Hk. destruct (F k Hk) as (F1 & F2 & F3 & F4). unfold R, lenN in *.
    split; [lia|]. split; [lia|]. split; [exact F3|]. intros Hk'. specialize (F4 Hk'). lia.
Qed.

(* ---- assemble ------------------------------------------------------------------------------------------ *)
Lemma assemble_length m last set : length (assemble m last set) = N.to_nat m.
Proof. unfold assemble. rewrite !map_length, seq_length. reflexivity. Qed.

Lemma assemble_nth m last set k : (k < N.to_nat m)%nat ->
  nth k (assemble m last set) 0 =
  if N.of_nat k =? m - 1 then last
  else match find (fun p => fst p =? N.of_nat k) set with Some p => snd p | None => 0 end.
Proof.
  intros H. unfold assemble.
  set (f := fun r => if r =? m - 1 then last else match find (fun p => fst p =? r) set with Some p => snd p | None => 0 end).
  rewrite (nth_indep _ 0 (f (N.of_nat 0))) by (rewrite !map_length, seq_length; exact H).
  rewrite map_nth. rewrite map_nth. rewrite seq_nth by exact H. reflexivity.
Qed.

Lemma map_nth0 (f : N -> N) l p : (p < length l)%nat -> nth p (map f l) 0 = f (nth p l 0).
Proof. intros H. rewrite (nth_indep _ 0 (f 0)) by (rewrite map_length; exact H). apply map_nth. Qed.

Lemma find_indexed0 {B} (d : N * B) (l : list (N * B)) :
  (forall t, (t < length l)%nat -> fst (nth t l d) = N.of_nat t) ->
  forall r, (r < length l)%nat -> find (fun p => fst p =? N.of_nat r) l = Some (nth r l d).
Proof. intros H r Hr. exact (find_indexed d l 0%nat H r Hr). Qed.

(* ---- the indices assembled from the walk are an embedding -------------------------------------------- *)
Lemma assemble_embedding cfg hr h start end_ n pre q j i :
  let hw := map (norm cfg hr) (sliceN start end_ h) in
  length n = S (S i) ->
  Pre hw n start i q pre -> (q < j)%nat -> (j < length hw)%nat -> nth j hw 0 = nth (S i) n 0 ->
  embedding_b (assemble (lenN n) (start + N.of_nat j) (pre ++ [])) n (nh cfg hr h) 0 = true.
Proof.
  intros hw Ln HP Hqj Hj Hc. rewrite app_nil_r.
  destruct (Pre_facts hw n start i q pre HP) as (Lp & ps & Eq & F).
  set (pos := fun k => if Nat.eqb k (S i) then j else ps k).
  assert (Hidx : forall k, (k < length n)%nat ->
            nth k (assemble (lenN n) (start + N.of_nat j) pre) 0 = start + N.of_nat (pos k)).
  { intros k Hk. rewrite assemble_nth by (unfold lenN; lia). unfold pos, lenN. rewrite Ln.
    destruct (Nat.eqb_spec k (S i)) as [->|Hne].
    - replace (N.of_nat (S i) =? N.of_nat (S (S i)) - 1) with true by lia. reflexivity.
    - replace (N.of_nat k =? N.of_nat (S (S i)) - 1) with false by lia.
      rewrite (find_indexed0 (0, 0) pre).
      + destruct (F k ltac:(lia)) as (F1 & _). rewrite F1. reflexivity.
      + intros t Ht. destruct (F t ltac:(lia)) as (F1 & _). rewrite F1. reflexivity.
      + lia. }
  assert (Hpos : forall k, (k < length n)%nat ->
            (pos k < length hw)%nat /\ nth (pos k) hw 0 = nth k n 0 /\ ((S k < length n)%nat -> (pos k < pos (S k))%nat)).
  { intros k Hk. unfold pos. destruct (Nat.eqb_spec k (S i)) as [->|Hne].
    - split; [exact Hj|]. split; [exact Hc|]. intros; lia.
    - destruct (F k ltac:(lia)) as (_ & F2 & F3 & F4). split; [exact F2|]. split; [exact F3|].
      intros Hk'. destruct (Nat.eqb_spec (S k) (S i)) as [E|E].
      + assert (k = i) by lia. subst k. lia.
      + apply F4. lia. }
  apply embedding_b_intro.
  - rewrite assemble_length. unfold lenN. lia.
  - intros k Hk. rewrite (Hidx k Hk). destruct (Hpos k Hk) as (P1 & P2 & P3).
    unfold hw in P1, P2. rewrite map_length in P1.
    destruct (nth_sliceN 0 start end_ h (pos k) P1) as [N1 N2].
    split; [unfold nh; rewrite map_length; lia|]. split.
    + unfold nh. rewrite map_nth0 by lia. rewrite <- P2. rewrite map_nth0 by exact P1. rewrite N1.
      do 2 f_equal. lia.
    + intros Hk'. rewrite (Hidx (S k) Hk'). specialize (P3 Hk'). lia.
  - intros x Hx. lia.
Qed.

(* ---- the row list handed to reconstruct ---------------------------------------------------------------- *)
Lemma dp_rows hw n ro k (cellss : list (list mcell)) :
  (k <= length ro)%nat -> length cellss = k ->
  (forall t, (t < k)%nat -> CellsP hw n ro t (nth t cellss [])) ->
  desc hw n ro k (frev (zip3 (map N.of_nat (seq 0 k)) (takeN (N.of_nat k) ro) cellss)).
Proof.
  intros Hk L HC. rewrite frev_rev'. apply desc_rev.
  - rewrite zip3_length, map_length, seq_length, length_takeN. lia.
  - intros t Ht. exists (nth t cellss []). split; [|apply HC; exact Ht].
    rewrite (zip3_nth 0 0 []) by (rewrite zip3_length, map_length, seq_length, length_takeN; lia).
    f_equal. f_equal.
    + change 0 with (N.of_nat 0) at 1. rewrite map_nth, seq_nth by lia. reflexivity.
    + unfold takeN. apply nth_firstn_low. lia.
Qed.

(* ---- the DP branch: a match with a valid witness -------------------------------------------------------- *)
Lemma fuzzy_optimal_dp cfg hr nr h n0 n1 n' start ge end_ init_row c0 rest :
  sliceN start end_ h = c0 :: rest -> norm cfg hr c0 = n0 ->
  slab_alloc_ok hr (lenN (sliceN start end_ h)) (lenN (n0 :: n1 :: n')) = true ->
  snd (setup_loop cfg hr (sliceN start end_ h) 0 (prev_class cfg hr h start) n0 (n1 :: n') false) = true ->
  exists s idx, fuzzy_optimal cfg hr nr h (n0 :: n1 :: n') start ge end_ init_row = Match s idx /\
    embedding_b idx (n0 :: n1 :: n') (nh cfg hr h) 0 = true.
Proof.
  intros Ew Ec Hslab Hm. unfold fuzzy_optimal. cbv zeta. rewrite Hslab. cbn [negb].
  destruct (setup_loop cfg hr (sliceN start end_ h) 0 (prev_class cfg hr h start) n0 (n1 :: n') false)
    as [[[hw bs] ro] matched] eqn:Es. cbn [snd] in Hm. subst matched. cbn [negb].
  destruct (setup_geometry _ _ _ _ _ _ _ _ _ _ _ Es Ew Ec) as (Ehw & Gbs & Gro & G0 & G).
  set (n := n0 :: n1 :: n') in *. set (w := sliceN start end_ h) in *.
  assert (Ln : length n = S (S (length n'))) by reflexivity.
  assert (Lw : length hw = length w) by (rewrite Ehw; apply map_length).
  assert (Gm : (2 <= length n)%nat) by lia.
  (* row 0 *)
  set (row0 := takeN (lenN w + 1 - lenN n) (init_row ++ repeat ZERO_CELL (N.to_nat (lenN w + 1 - lenN n)))).
  assert (L0 : length row0 = width hw n).
  { unfold row0, width. rewrite length_takeN, app_length, repeat_length. unfold lenN. lia. }
  destruct (score_row_inv hw bs n ro Gbs Gm G G0 true 0%nat row0 (prefix_bonus_dp cfg start) ltac:(lia) (conj eq_refl L0))
    as (row1 & cells0 & E0 & HR1 & HC0).
  assert (E00 : nth 0 ro 0 = 0) by (unfold R in G0; destruct (G 0%nat ltac:(lia)); lia).
  rewrite E00 in E0. cbn [nth N.of_nat n] in E0. change (nthN ro 1 0) with (nth 1 ro 0). rewrite E0.
  (* rows 1 .. m-2 *)
  destruct (populate_inv hw bs n ro Gbs Gm G G0 Gro (length n - 1 - 1)%nat 1%nat row1 eq_refl HR1)
    as (rowf & rest' & E1 & HRf & Lr & HCr).
  change (skipn 1 n) with (n1 :: n') in E1. change (N.of_nat 1) with 1 in E1.
  change (tl ro) with (skipn 1 ro). rewrite E1.
  (* the last row *)
  set (ml := S (length n')) in *.
  assert (Eml : (length n - 1 = ml)%nat) by (unfold ml; lia). rewrite Eml in HRf.
  destruct (G ml ltac:(lia)) as (A1 & A2 & A3 & _).
  destruct (G (length n') ltac:(lia)) as (B1 & B2 & B3 & B4). specialize (B4 ltac:(lia)). fold ml in B4.
  assert (Elast : nthN ro (lenN n - 1) 0 = N.of_nat (R ro ml)).
  { unfold nthN, lenN, R. replace (N.to_nat (N.of_nat (length n) - 1)) with ml by lia. lia. }
  rewrite Elast.
  replace (N.of_nat (R ro ml) + 1 <? lenN n) with false by (unfold lenN; lia).
  destruct HRf as (_ & _ & Lf & HRf).
  set (rl := (R ro ml - ml)%nat).
  replace (N.of_nat (R ro ml) + 1 - lenN n) with (N.of_nat rl) by (unfold lenN, rl; lia).
  destruct (argmax_spec (dropN (N.of_nat rl) rowf)) as (me & best & Ea & Hme & Hbest & Hmax).
  { intros E. apply (f_equal (@length cell)) in E. rewrite length_dropN in E. cbn [length] in E.
    unfold width in Lf. lia. }
  rewrite Ea. rewrite length_dropN in Hme. rewrite nth_dropN in Hbest.
  set (k := N.to_nat me) in *. set (j := (R ro ml + k)%nat).
  assert (Hj : (j < length hw)%nat) by (unfold j, width in *; lia).
  (* the best cell is a real match *)
  destruct (HRf rl ltac:(lia) ltac:(unfold width in *; lia)) as (C1 & _ & C3).
  replace (rl + ml)%nat with (R ro ml) in C1 by (unfold rl; lia).
  destruct (C1 A3) as (C1a & _).
  assert (Hb16 : 16 <= sc best).
  { specialize (Hmax 0%nat ltac:(rewrite length_dropN; unfold width in *; lia)). rewrite nth_dropN in Hmax.
    replace (N.to_nat (N.of_nat rl) + 0)%nat with rl in Hmax by lia. lia. }
  destruct (HRf (rl + k)%nat ltac:(lia) ltac:(unfold width in *; lia)) as (D1 & D2 & D3).
  replace (N.to_nat (N.of_nat rl) + k)%nat with (rl + k)%nat in Hbest by lia. rewrite Hbest in D1, D2, D3.
  replace (rl + k + ml)%nat with j in D1, D2 by (unfold j, rl; lia).
  assert (Hjc : nth j hw 0 = nth ml n 0).
  { destruct (N.eq_dec (nth j hw 0) (nth ml n 0)) as [|Hne]; [assumption|].
    rewrite (D2 Hne) in Hb16. cbn [sc UNMATCHED] in Hb16. lia. }
  destruct (D1 Hjc) as (_ & D1b).
  (* the rows for reconstruct *)
  replace (N.to_nat (lenN n - 1)) with ml by (unfold lenN; lia).
  replace (lenN n - 1) with (N.of_nat ml) by (unfold lenN; lia).
  pose proof (dp_rows hw n ro ml (cells0 :: rest')) as HD.
  specialize (HD ltac:(lia) ltac:(cbn [length]; lia)).
  assert (HCall : forall t, (t < ml)%nat -> CellsP hw n ro t (nth t (cells0 :: rest') [])).
  { intros t Ht. destruct t as [|t]; [exact HC0|]. cbn [nth]. apply (HCr t). lia. }
  specialize (HD HCall).
  destruct (frev (zip3 (map N.of_nat (seq 0 ml)) (takeN (N.of_nat ml) ro) (cells0 :: rest')))
    as [|[[ridx roff] rowc] rows'] eqn:Erows; [unfold ml in HD; cbn [desc] in HD; contradiction|].
  unfold ml in HD. cbn [desc] in HD. fold ml in HD. destruct HD as (-> & -> & HCi & HDi).
  set (i := length n') in *.
  assert (Eroff : nth i ro 0 = N.of_nat (R ro i)) by (unfold R; lia).
  rewrite Eroff.
  replace (N.of_nat (R ro ml) <=? N.of_nat (R ro i)) with false by lia.
  set (col := (j - 1 - R ro i)%nat).
  replace (me + (N.of_nat (R ro ml) - N.of_nat (R ro i) - 1)) with (N.of_nat col) by (unfold col, j, k; lia).
  pose proof HCi as (CLi & _).
  replace (lenN rowc <=? N.of_nat col) with false by (unfold lenN, col, j in *; lia).
  rewrite <- Eroff.
  destruct (reconstruct_ok hw n ro start G (S (N.to_nat (lenN w + lenN n))) i rowc rows' col (mt best) [])
    as (set & pre & q & Er & Eset & HP & Hq).
  - lia.
  - exact HCi.
  - exact HDi.
  - unfold col, j in *. lia.
  - intros Hmt. destruct (Nat.eq_dec col 0) as [Z|]; [|lia]. exfalso.
    rewrite D3 in Hmt; [discriminate|unfold col, j in *; lia|].
    replace (ml - 1)%nat with i by (unfold ml, i; lia). unfold col, j in *. lia.
  - intros Hmt. specialize (D1b Hmt). replace (ml - 1)%nat with i in D1b by (unfold ml, i; lia).
    replace (R ro i + col)%nat with (j - 1)%nat by (unfold col, j in *; lia). exact D1b.
  - unfold lenN, col, j in *. lia.
  - rewrite Er. eexists. eexists. split; [reflexivity|]. rewrite Eset.
    replace (start + me + N.of_nat (R ro ml)) with (start + N.of_nat j) by (unfold j, k; lia).
    subst hw. apply (assemble_embedding cfg hr h start end_ n pre q j i).
    + reflexivity.
    + exact HP.
    + unfold col, j in *. lia.
    + exact Hj.
    + exact Hjc.
Qed.
