(* C04 (best_pos) and C05 (prefix / postfix / exact / substring) facts about Model/Matcher.v. *)
From Coq Require Import ZArith NArith List Bool Lia ZifyBool ZifyN ZifyNat.
From NV Require Import Base.Util Model.Chars Model.Matcher Spec.Matching Spec.Statements Proofs.CharsFacts.
Import ListNotations.
Local Open Scope N_scope.

(* ---- 1. C04_best_pos ----------------------------------------------------------------------------- *)
Definition bscore (best : option (N * N)) : N := match best with Some (_, s) => s | None => 0 end.

Lemma best_pos_gen cfg cands : forall best i s,
  (forall p b, In (p, b) cands -> b <= max_bonus cfg) ->
  best_pos cfg cands best = Some (i, s) ->
  (best = Some (i, s) /\ forall p b, In (p, b) cands -> b * 2 + 16 <= s) \/
  (exists pre post b, cands = pre ++ (i, b) :: post /\ s = b * 2 + 16 /\ bscore best < s /\
     (forall p' b', In (p', b') pre -> b' < b) /\ (forall p' b', In (p', b') post -> b' <= b)).
Proof.
  induction cands as [|[i0 b0] cs' IH]; intros best i s Hb H; cbn [best_pos] in H.
  - left. split; [exact H|]. intros p b [].
  - unfold BONUS_FIRST_CHAR_MULTIPLIER, SCORE_MATCH in H. cbv zeta in H.
    assert (Hbetter : (match best with Some (_, s0) => s0 <? b0 * 2 + 16 | None => 0 <? b0 * 2 + 16 end)
                      = (bscore best <? b0 * 2 + 16)) by (destruct best as [[? ?]|]; reflexivity).
    rewrite Hbetter in H. clear Hbetter.
    assert (Hb' : forall p b, In (p, b) cs' -> b <= max_bonus cfg) by (intros p b Hin; apply (Hb p b); right; exact Hin).
    assert (Hb0 : b0 <= max_bonus cfg) by (apply (Hb i0 b0); left; reflexivity).
    destruct (N.ltb_spec (bscore best) (b0 * 2 + 16)) as [Hlt|Hge].
    + destruct (N.leb_spec (max_bonus cfg) b0) as [Hmax|Hmax].
      * inversion H; subst i s. right. exists [], cs', b0.
        split; [reflexivity|]. split; [reflexivity|]. split; [exact Hlt|].
        split; [intros p' b' []|]. intros p' b' Hin. specialize (Hb' p' b' Hin). lia.
      * apply IH in H; [|exact Hb'].
        destruct H as [[Heq Hall] | (pre & post & b & Hc & Hs & Hlt' & Hpre & Hpost)].
        -- inversion Heq; subst i s. right. exists [], cs', b0.
           split; [reflexivity|]. split; [reflexivity|]. split; [exact Hlt|].
           split; [intros p' b' []|]. intros p' b' Hin. specialize (Hall p' b' Hin). lia.
        -- right. exists ((i0, b0) :: pre), post, b. cbn [bscore] in Hlt'.
           split; [rewrite Hc; reflexivity|]. split; [exact Hs|]. split; [lia|].
           split; [|exact Hpost]. intros p' b' [Heq|Hin]; [inversion Heq; subst; lia|exact (Hpre p' b' Hin)].
    + apply IH in H; [|exact Hb'].
      destruct H as [[Heq Hall] | (pre & post & b & Hc & Hs & Hlt' & Hpre & Hpost)].
      * left. split; [exact Heq|]. intros p b [E|Hin]; [|exact (Hall p b Hin)].
        inversion E; subst p b. rewrite Heq in Hge. cbn [bscore] in Hge. exact Hge.
      * right. exists ((i0, b0) :: pre), post, b.
        split; [rewrite Hc; reflexivity|]. split; [exact Hs|]. split; [exact Hlt'|].
        split; [|exact Hpost]. intros p' b' [Heq|Hin]; [inversion Heq; subst; lia|exact (Hpre p' b' Hin)].
Qed.

Lemma C04_best_pos : C04_best_pos_stmt.
Proof.
  intros cfg cands i s Hb H.
  destruct (best_pos_gen cfg cands None i s Hb H) as [[Heq _] | (pre & post & b & Hc & Hs & _ & Hpre & Hpost)].
  - discriminate.
  - exists pre, post, b. auto.
Qed.

Lemma best_pos_none cfg cands : best_pos cfg cands None = None -> cands = [].
Proof.
  destruct cands as [|[i0 b0] cs']; [reflexivity|]. cbn [best_pos]. intros H. exfalso.
  unfold BONUS_FIRST_CHAR_MULTIPLIER, SCORE_MATCH in H. cbv zeta in H.
  replace (0 <? b0 * 2 + 16) with true in H by lia.
  destruct (max_bonus cfg <=? b0); [discriminate|].
  assert (G : forall l b, best_pos cfg l (Some b) <> None).
  { clear. induction l as [|[i b] l IH]; intros [j s]; cbn [best_pos]; [discriminate|].
    cbv zeta. destruct (s <? _); [destruct (_ <=? _); [discriminate|apply IH]|apply IH]. }
  exact (G _ _ H).
Qed.

(* ---- small list / N conversion lemmas ------------------------------------------------------------- *)
Lemma frev_rev {A} (l : list A) : frev l = rev l.
Proof. unfold frev. rewrite rev_append_rev, app_nil_r. reflexivity. Qed.

Lemma lenN_frev {A} (l : list A) : lenN (frev l) = lenN l.
Proof. unfold lenN. rewrite frev_rev, rev_length. reflexivity. Qed.

Lemma position_count (p : N -> bool) l :
  match position (fun c => negb (p c)) l with
  | Some k => count_leading p l = k /\ k < lenN l
  | None => count_leading p l = lenN l
  end.
Proof.
  induction l as [|x l IH]; cbn [position count_leading]; [reflexivity|].
  unfold lenN in *. cbn [length]. destruct (p x); cbn [negb].
  - destruct (position _ l) as [k|]; [destruct IH; split; lia|lia].
  - split; lia.
Qed.

Lemma position_or0 (p : N -> bool) l :
  match position (fun c => negb (p c)) l with Some k => k | None => 0 end
  = (let k := count_leading p l in if k =? N.of_nat (length l) then 0 else k).
Proof.
  pose proof (position_count p l) as H. cbv zeta. fold (lenN l).
  destruct (position _ l) as [k|].
  - destruct H as [H1 H2]. rewrite H1. destruct (N.eqb_spec k (lenN l)); [lia|reflexivity].
  - rewrite H, N.eqb_refl. reflexivity.
Qed.

Lemma leading_ws_spec s : leading_ws s = spec_lead (rp s) (cs s).
Proof. unfold leading_ws, spec_lead. apply (position_or0 (is_ws (rp s))). Qed.

Lemma trailing_ws_spec s : trailing_ws s = spec_trail (rp s) (cs s).
Proof. unfold trailing_ws, spec_trail, spec_lead. apply (position_or0 (is_ws (rp s))). Qed.

(* ---- calculate_score always answers Match with the start as first index --------------------------- *)
Lemma cs_loop_head cfg hr hs : forall i nrest nc prev ig ir fb score acc,
  exists l', snd (cs_loop cfg hr hs i nrest nc prev ig ir fb score acc) = rev acc ++ l'.
Proof.
  induction hs as [|c0 hs IH]; intros; cbn [cs_loop].
  - exists []. cbn [snd]. rewrite frev_rev, app_nil_r. reflexivity.
  - destruct (class_norm cfg hr c0) as [c k]. destruct (c =? nc).
    + destruct ir; destruct nrest as [|x r];
        (match goal with |- exists l', snd (cs_loop _ _ _ ?i' ?nr ?nc' ?p ?g ?r' ?f ?s (?a :: ?acc')) = _ =>
           destruct (IH i' nr nc' p g r' f s (a :: acc')) as [l' Hl]; exists (a :: l'); rewrite Hl;
           cbn [rev]; rewrite <- app_assoc; reflexivity end).
    + apply IH.
Qed.

Lemma calculate_score_match cfg hr h n start e :
  n <> [] -> start < lenN h ->
  exists s idx, calculate_score cfg hr h n start e = Match s idx /\ hd_error idx = Some start.
Proof.
  intros Hn Hs. unfold calculate_score. destruct n as [|n0 nrest]; [congruence|].
  replace (lenN h <=? start) with false by lia.
  destruct nrest as [|x r].
  - match goal with |- context [cs_loop ?a ?b ?c ?d ?e ?f ?g ?h ?i ?j ?k ?l] =>
      destruct (cs_loop_head a b c d e f g h i j k l) as [l' Hl]; destruct (cs_loop a b c d e f g h i j k l) as [sc idx] end.
    cbn [snd] in Hl. eexists _, _. split; [reflexivity|]. rewrite Hl. reflexivity.
  - match goal with |- context [cs_loop ?a ?b ?c ?d ?e ?f ?g ?h ?i ?j ?k ?l] =>
      destruct (cs_loop_head a b c d e f g h i j k l) as [l' Hl]; destruct (cs_loop a b c d e f g h i j k l) as [sc idx] end.
    cbn [snd] in Hl. eexists _, _. split; [reflexivity|]. rewrite Hl. reflexivity.
Qed.

(* ---- exact_impl decides `occurs` at its start ------------------------------------------------------ *)
Lemma combine_map_eq (f : N -> N) w n :
  forallb (fun q => fst q =? snd q) (combine (map f w) n)
  = forallb (fun p => f (fst p) =? snd p) (combine w n).
Proof.
  revert n; induction w as [|c w IH]; intros [|x n]; cbn [map combine forallb fst snd]; try reflexivity.
  rewrite IH. reflexivity.
Qed.

Lemma forallb_combine_ext (f g : N * N -> bool) w n :
  (forall a x, In x n -> f (a, x) = g (a, x)) -> forallb f (combine w n) = forallb g (combine w n).
Proof.
  revert n; induction w as [|c w IH]; intros [|x n] H; cbn [combine forallb]; try reflexivity.
  rewrite (H c x (or_introl eq_refl)), IH; [reflexivity|]. intros a y Hy. apply H. right. exact Hy.
Qed.

Lemma needle_ok_In cfg nr n : needle_ok cfg nr n = true -> forall x, In x n -> norm cfg nr x = x.
Proof. unfold needle_ok. rewrite forallb_forall. intros H x Hx. apply N.eqb_eq, H, Hx. Qed.

Lemma occurs_slice cfg hr h n start :
  occurs cfg hr h n start =
  (start + lenN n <=? lenN h) &&
  forallb (fun p => norm cfg hr (fst p) =? snd p) (combine (sliceN start (start + lenN n) h) n).
Proof.
  unfold occurs, nh, sliceN, takeN, dropN, lenN. f_equal.
  rewrite skipn_map, firstn_map, combine_map_eq.
  replace (N.to_nat (start + N.of_nat (length n) - start)) with (length n) by lia. reflexivity.
Qed.

Lemma lenN_slice {A} (h : list A) start k : 0 < k ->
  (lenN (sliceN start (start + k) h) =? k) = (start + k <=? lenN h).
Proof.
  intros Hk. unfold sliceN, takeN, dropN, lenN. rewrite firstn_length, skipn_length.
  destruct (N.eqb_spec (N.of_nat (Nat.min (N.to_nat (start + k - start)) (length h - N.to_nat start))) k);
    destruct (N.leb_spec (start + k) (N.of_nat (length h))); try reflexivity; exfalso; lia.
Qed.

Lemma exact_impl_spec cfg hs ns start e :
  needle_ok cfg (rp ns) (cs ns) = true -> ~ known_K1 hs ns -> cs ns <> [] ->
  e = start + lenN (cs ns) ->
  is_some_match (exact_impl cfg hs ns start e) = occurs cfg (rp hs) (cs hs) (cs ns) start.
Proof.
  intros Hok HK Hne ->. pose proof (needle_ok_In _ _ _ Hok) as Hn.
  rewrite occurs_slice. unfold exact_impl. cbv zeta.
  replace (lenN (cs ns) =? start + lenN (cs ns) - start) with true by lia. cbn [negb].
  set (w := sliceN start (start + lenN (cs ns)) (cs hs)).
  set (R := forallb (fun p => norm cfg (rp hs) (fst p) =? snd p) (combine w (cs ns))).
  assert (Hpos : 0 < lenN (cs ns)) by (unfold lenN; destruct (cs ns); [congruence|cbn [length]; lia]).
  assert (Hlen : (lenN w =? lenN (cs ns)) = (start + lenN (cs ns) <=? lenN (cs hs))) by (apply lenN_slice; exact Hpos).
  assert (Hcore : is_some_match (if R && (lenN w =? lenN (cs ns))
                                 then calculate_score cfg (rp hs) (cs hs) (cs ns) start (start + lenN (cs ns))
                                 else NoMatch)
                  = (start + lenN (cs ns) <=? lenN (cs hs)) && R).
  { rewrite Hlen. destruct R; cbn [andb].
    - destruct (N.leb_spec (start + lenN (cs ns)) (lenN (cs hs))) as [Hle|Hgt]; [|reflexivity].
      destruct (calculate_score_match cfg (rp hs) (cs hs) (cs ns) start (start + lenN (cs ns)) Hne ltac:(lia))
        as (s & idx & -> & _). reflexivity.
    - rewrite andb_false_r. reflexivity. }
  destruct (rp hs) eqn:Eh, (rp ns) eqn:En.
  - (* Ascii, Ascii *)
    match goal with |- is_some_match (if ?M && _ then _ else _) = _ => replace M with R end; [exact Hcore|].
    unfold R. destruct (ignore_case cfg) eqn:Eic; apply forallb_combine_ext; intros a x Hx; cbn [fst snd].
    + rewrite (Hn x Hx). reflexivity.
    + unfold norm, norm_ascii. rewrite Eic. reflexivity.
  - exfalso. apply HK. split; assumption.
  - match goal with |- is_some_match (if ?M && _ then _ else _) = _ => replace M with R end; [exact Hcore|].
    unfold R. apply forallb_combine_ext; intros a x Hx; cbn [fst snd]. rewrite (Hn x Hx). reflexivity.
  - match goal with |- is_some_match (if ?M && _ then _ else _) = _ => replace M with R end; [exact Hcore|].
    unfold R. apply forallb_combine_ext; intros a x Hx; cbn [fst snd]. rewrite (Hn x Hx). reflexivity.
Qed.

Lemma exact_impl_len cfg hs ns start e :
  lenN (cs ns) <> e - start -> exact_impl cfg hs ns start e = NoMatch.
Proof.
  intros H. unfold exact_impl. cbv zeta. replace (lenN (cs ns) =? e - start) with false by lia. reflexivity.
Qed.

(* ---- 2. C05_exact_kinds --------------------------------------------------------------------------- *)
Lemma C05_exact_kinds : C05_exact_kinds_stmt.
Proof.
  intros cfg hs ns _ _ Hok HK Hne.
  pose proof (fun s e => exact_impl_spec cfg hs ns s e Hok HK Hne) as HE.
  pose proof (exact_impl_len cfg hs ns) as HL.
  assert (Hpos : 0 < lenN (cs ns)) by (unfold lenN; destruct (cs ns); [congruence|cbn [length]; lia]).
  unfold run, prefix_entry, postfix_entry, exact_entry, spec_prefix, spec_postfix, spec_exact, lead_for, trail_for,
    char_is_ws, lastN. cbv zeta.
  rewrite <- leading_ws_spec, <- trailing_ws_spec.
  fold (lenN (cs ns)) (lenN (cs hs)).
  destruct (cs ns) as [|n0 nr] eqn:En; [congruence|].
  set (n := n0 :: nr) in *.
  set (lead := if std_is_whitespace n0 then 0 else leading_ws hs).
  set (trail := if std_is_whitespace (last n 0) then 0 else trailing_ws hs).
  assert (Hocc : forall p, lenN (cs hs) < p + lenN n -> occurs cfg (rp hs) (cs hs) n p = false).
  { intros p Hp. unfold occurs. fold (lenN n) (lenN (cs hs)).
    replace (p + lenN n <=? lenN (cs hs)) with false by lia. reflexivity. }
  split; [|split].
  - destruct (N.ltb_spec (lenN (cs hs) - lead) (lenN n)) as [Hlt|Hge].
    + rewrite Hocc by lia. reflexivity.
    + rewrite HE by lia. destruct (occurs _ _ _ _ _); reflexivity.
  - destruct (N.ltb_spec (lenN (cs hs) - trail) (lenN n)) as [Hlt|Hge].
    + replace (lenN n + trail <=? lenN (cs hs)) with false by lia. reflexivity.
    + replace (lenN n + trail <=? lenN (cs hs)) with true by lia. cbn [andb].
      rewrite HE by lia. destruct (occurs _ _ _ _ _); reflexivity.
  - destruct (N.eqb_spec trail (lenN (cs hs))) as [Heq|Hneq].
    + replace (lead + lenN n + trail =? lenN (cs hs)) with false by lia. reflexivity.
    + destruct (N.ltb_spec (lenN (cs hs) - trail) lead) as [Hlt|Hge].
      * replace (lead + lenN n + trail =? lenN (cs hs)) with false by lia. reflexivity.
      * destruct (N.eqb_spec (lead + lenN n + trail) (lenN (cs hs))) as [Hs|Hs]; cbn [andb].
        -- rewrite HE by lia. destruct (occurs _ _ _ _ _); reflexivity.
        -- rewrite HL by lia. reflexivity.
Qed.

(* ---- 3. substring --------------------------------------------------------------------------------- *)
Lemma bonus_table cfg prev cur : bonus_for cfg prev cur = spec_bonus (bonus_white cfg) (bonus_delim cfg) prev cur.
Proof. destruct prev, cur; reflexivity. Qed.

Lemma max_bonus_ge8 cfg : 8 <= max_bonus cfg.
Proof. unfold max_bonus, BONUS_BOUNDARY. lia. Qed.

Lemma C04_max_bonus : C04_max_bonus_stmt.
Proof.
  intros cfg prev cur. rewrite bonus_table. unfold max_bonus, BONUS_BOUNDARY.
  destruct prev, cur; cbn [spec_bonus]; lia.
Qed.

Lemma prefix_match_spec cfg hr n : forall hs,
  prefix_match cfg hr n hs =
  (length n <=? length hs)%nat &&
  forallb (fun q => fst q =? snd q) (combine (firstn (length n) (map (norm cfg hr) hs)) n).
Proof.
  induction n as [|x n IH]; intros [|c hs]; cbn [prefix_match length firstn map combine forallb fst snd Nat.leb];
    try reflexivity.
  rewrite IH. destruct (norm cfg hr c =? x), (length n <=? length hs)%nat; reflexivity.
Qed.

Lemma occurs_at cfg hr n pre suf :
  occurs cfg hr (pre ++ suf) n (lenN pre) = prefix_match cfg hr n suf.
Proof.
  rewrite prefix_match_spec. unfold occurs, nh, lenN. rewrite Nat2N.id, map_app, skipn_app, map_length.
  rewrite skipn_all2 by (rewrite map_length; lia). rewrite Nat.sub_diag. cbn [skipn app].
  f_equal. rewrite app_length.
  destruct (N.leb_spec (N.of_nat (length pre) + N.of_nat (length n)) (N.of_nat (length pre + length suf)));
    destruct (Nat.leb_spec (length n) (length suf)); try reflexivity; exfalso; lia.
Qed.

Definition with_bonus cfg hr h (q : N) : N * N := (q, spec_bonus_at cfg hr h q).

Lemma scan_cands_spec cfg hr n h : forall suf pre, h = pre ++ suf ->
  scan_cands cfg hr (prefix_match cfg hr n) suf (lenN pre) (prev_class cfg hr h (lenN pre)) =
  map (with_bonus cfg hr h) (filter (occurs cfg hr h n) (map N.of_nat (seq (length pre) (length suf)))).
Proof.
  induction suf as [|c suf IH]; intros pre Hh; [reflexivity|].
  cbn [scan_cands length seq map filter].
  assert (Hh' : h = (pre ++ [c]) ++ suf) by (rewrite <- app_assoc; exact Hh).
  specialize (IH (pre ++ [c]) Hh').
  assert (Hlen : lenN (pre ++ [c]) = lenN pre + 1) by (unfold lenN; rewrite app_length; cbn [length]; lia).
  assert (Hnth : nth (length pre) h 0 = c) by (rewrite Hh; apply nth_middle).
  rewrite Hlen in IH.
  assert (Hpc : prev_class cfg hr h (lenN pre + 1) = class cfg hr c).
  { unfold prev_class, nthN. replace (lenN pre + 1 =? 0) with false by lia.
    replace (N.to_nat (lenN pre + 1 - 1)) with (length pre) by (unfold lenN; lia). rewrite Hnth. reflexivity. }
  rewrite Hpc in IH. rewrite IH.
  replace (length (pre ++ [c])) with (S (length pre)) by (rewrite app_length; cbn [length]; lia).
  fold (lenN pre). rewrite <- (occurs_at cfg hr n pre (c :: suf)), <- Hh.
  destruct (occurs cfg hr h n (lenN pre)); [|reflexivity].
  cbn [map]. f_equal. unfold with_bonus, spec_bonus_at, spec_bonus_cfg. f_equal.
  rewrite bonus_table. unfold lenN at 3. rewrite Nat2N.id, Hnth. reflexivity.
Qed.

(* the spec's fold picks the leftmost element with the maximal bonus *)
Lemma fold_pick_post (B : N -> N) post st : (forall q, In q post -> B q <= B st) ->
  fold_left (fun best p => match best with
                           | None => Some p
                           | Some q => if B q <? B p then Some p else best
                           end) post (Some st) = Some st.
Proof.
  induction post as [|a post IH]; intros H; cbn [fold_left]; [reflexivity|].
  replace (B st <? B a) with false by (specialize (H a (or_introl eq_refl)); lia).
  apply IH. intros q Hq. apply H. right. exact Hq.
Qed.

Lemma fold_pick (B : N -> N) st post : (forall q, In q post -> B q <= B st) ->
  forall pre best, (forall q, In q pre -> B q < B st) ->
  match best with None => True | Some q => B q < B st end ->
  fold_left (fun best p => match best with
                           | None => Some p
                           | Some q => if B q <? B p then Some p else best
                           end) (pre ++ st :: post) best = Some st.
Proof.
  intros Hpost. induction pre as [|a pre IH]; intros best Hpre Hbest; cbn [app fold_left].
  - destruct best as [q|].
    + replace (B q <? B st) with true by lia. apply fold_pick_post, Hpost.
    + apply fold_pick_post, Hpost.
  - apply IH; [intros q Hq; apply Hpre; right; exact Hq|].
    pose proof (Hpre a (or_introl eq_refl)) as Ha.
    destruct best as [q|]; [|exact Ha]. destruct (B q <? B a); [exact Ha|exact Hbest].
Qed.

(* position: first index satisfying p *)
Lemma position_some {A} (p : A -> bool) d l : forall k, position p l = Some k ->
  (N.to_nat k < length l)%nat /\ p (nth (N.to_nat k) l d) = true.
Proof.
  induction l as [|x l IH]; intros k H; cbn [position] in H; [discriminate|].
  destruct (p x) eqn:Ex.
  - inversion H; subst k. cbn [length N.to_nat nth]. split; [lia|exact Ex].
  - destruct (position p l) as [k'|]; [|discriminate]. inversion H; subst k.
    destruct (IH k' eq_refl) as [H1 H2]. replace (N.to_nat (k' + 1)) with (S (N.to_nat k')) by lia.
    cbn [length nth]. split; [lia|exact H2].
Qed.

Lemma position_le {A} (p : A -> bool) d l : forall j, (j < length l)%nat -> p (nth j l d) = true ->
  exists k, position p l = Some k /\ (N.to_nat k <= j)%nat.
Proof.
  induction l as [|x l IH]; intros j Hj Hp; cbn [length] in Hj; [lia|]. cbn [position].
  destruct (p x) eqn:Ex.
  - exists 0. split; [reflexivity|lia].
  - destruct j as [|j]; [cbn [nth] in Hp; congruence|]. cbn [nth] in Hp.
    destruct (IH j ltac:(lia) Hp) as (k & -> & Hk). exists (k + 1). split; [reflexivity|lia].
Qed.

Lemma nth_firstn' {A} (d : A) : forall k l j, (j < k)%nat -> nth j (firstn k l) d = nth j l d.
Proof.
  induction k as [|k IH]; intros l j Hj; [lia|]. destruct l as [|x l]; [reflexivity|].
  destruct j as [|j]; [reflexivity|]. cbn [firstn nth]. apply IH. lia.
Qed.

Lemma nth_skipn' {A} (d : A) : forall k l j, nth j (skipn k l) d = nth (k + j) l d.
Proof.
  induction k as [|k IH]; intros l j; [reflexivity|]. destruct l as [|x l].
  - cbn [skipn]. destruct j; reflexivity.
  - cbn [skipn Nat.add nth]. apply IH.
Qed.

Lemma last_nth' (d : N) : forall n, n <> [] -> last n d = nth (length n - 1) n d.
Proof.
  induction n as [|x n IH]; intros H; [congruence|]. destruct n as [|y n]; [reflexivity|].
  change (last (x :: y :: n) d) with (last (y :: n) d). rewrite IH by discriminate.
  cbn [length]. replace (S (S (length n)) - 1)%nat with (S (S (length n) - 1)) by lia. reflexivity.
Qed.

Lemma forallb_eq_firstn : forall (n l : list N), (length n <= length l)%nat ->
  forallb (fun q => fst q =? snd q) (combine (firstn (length n) l) n) = true -> firstn (length n) l = n.
Proof.
  induction n as [|x n IH]; intros l Hl H; [reflexivity|]. destruct l as [|y l]; cbn [length] in Hl; [lia|].
  cbn [length firstn combine forallb fst snd] in *. apply andb_prop in H. destruct H as [H1 H2].
  apply N.eqb_eq in H1. subst y. f_equal. apply IH; [lia|exact H2].
Qed.

Lemma occurs_nth cfg hr h n q : occurs cfg hr h n q = true ->
  q + lenN n <= lenN h /\
  forall j, (j < length n)%nat -> norm cfg hr (nth (N.to_nat q + j) h 0) = nth j n 0.
Proof.
  unfold occurs, nh. intros H. apply andb_prop in H. destruct H as [H1 H2].
  assert (Hle : q + lenN n <= lenN h) by (unfold lenN; lia). split; [exact Hle|].
  unfold lenN in Hle.
  apply forallb_eq_firstn in H2; [|rewrite skipn_length, map_length; lia].
  intros j Hj. rewrite <- H2 at 1. rewrite nth_firstn' by exact Hj. rewrite nth_skipn'.
  rewrite (nth_indep (map (norm cfg hr) h) 0 (norm cfg hr 0)) by (rewrite map_length; lia). symmetry. apply map_nth.
Qed.

(* the Unicode prefilter never cuts off an occurrence *)
Lemma prefilter_sound cfg h n0 n1 nr :
  match prefilter_non_ascii cfg h (n0 :: n1 :: nr) false with
  | None => forall q, occurs cfg Unicode h (n0 :: n1 :: nr) q = false
  | Some (start, _) => start <= lenN h /\ forall q, q < start -> occurs cfg Unicode h (n0 :: n1 :: nr) q = false
  end.
Proof.
  unfold prefilter_non_ascii. set (n := n0 :: n1 :: nr).
  set (p1 := fun c => norm cfg Unicode c =? n0).
  set (T := takeN (lenN h - lenN n + 1) h).
  assert (HlenT : length T = Nat.min (N.to_nat (lenN h - lenN n + 1)) (length h)) by apply firstn_length.
  assert (Hn2 : (2 <= length n)%nat) by (unfold n; cbn [length]; lia).
  assert (F1 : forall q, occurs cfg Unicode h n q = true -> exists k, position p1 T = Some k /\ k <= q).
  { intros q Eo. destruct (occurs_nth _ _ _ _ _ Eo) as [Hle Hnth]. specialize (Hnth 0%nat ltac:(lia)).
    rewrite Nat.add_0_r in Hnth. cbn [n nth] in Hnth.
    destruct (position_le p1 0 T (N.to_nat q)) as (k & Hk & Hkq).
    - rewrite HlenT. unfold lenN in *. lia.
    - unfold T, takeN. rewrite nth_firstn' by (unfold lenN in *; lia). unfold p1. rewrite Hnth. apply N.eqb_refl.
    - exists k. split; [exact Hk|lia]. }
  destruct (position p1 T) as [start|] eqn:E1.
  2:{ intros q. destruct (occurs cfg Unicode h n q) eqn:Eo; [|reflexivity].
      destruct (F1 q Eo) as (k & Hk & _). discriminate. }
  assert (Hst : start <= lenN h).
  { destruct (position_some p1 0 T start E1) as [H1 _]. rewrite HlenT in H1. unfold lenN. lia. }
  assert (Hlt : forall q, q < start -> occurs cfg Unicode h n q = false).
  { intros q Hq. destruct (occurs cfg Unicode h n q) eqn:Eo; [|reflexivity].
    destruct (F1 q Eo) as (k & Hk & Hkq). inversion Hk; subst k. lia. }
  set (p2 := fun c => norm cfg Unicode c =? lastN n).
  set (D := dropN (start + 1) h).
  assert (F2 : forall q, occurs cfg Unicode h n q = true ->
                 exists k, position p2 (frev D) = Some k /\ k + q + lenN n <= lenN h /\ start <= q).
  { intros q Eo.
    assert (Hsq : start <= q).
    { destruct (N.ltb_spec q start) as [Hq|Hq]; [|exact Hq]. rewrite (Hlt q Hq) in Eo. discriminate. }
    destruct (occurs_nth _ _ _ _ _ Eo) as [Hle Hnth]. specialize (Hnth (length n - 1)%nat ltac:(lia)).
    rewrite <- last_nth' in Hnth by discriminate.
    assert (HlenD : length D = (length h - N.to_nat (start + 1))%nat) by apply skipn_length.
    unfold lenN in Hle.
    destruct (position_le p2 0 (frev D) (length h - 1 - (N.to_nat q + (length n - 1)))%nat) as (k & Hk & Hkj).
    - rewrite frev_rev, rev_length, HlenD. lia.
    - rewrite frev_rev, rev_nth by (rewrite HlenD; lia). unfold D, dropN. rewrite nth_skipn'.
      replace (N.to_nat (start + 1) + (length (skipn (N.to_nat (start + 1)) h) - S (length h - 1 - (N.to_nat q + (length n - 1)))))%nat
        with (N.to_nat q + (length n - 1))%nat by (rewrite skipn_length; lia).
      unfold p2, lastN. rewrite Hnth. apply N.eqb_refl.
    - exists k. split; [exact Hk|]. unfold lenN. split; lia. }
  destruct (position p2 (frev D)) as [k|] eqn:E2.
  - destruct (N.ltb_spec (lenN h - k - start) (lenN n)) as [Hc|Hc].
    + intros q. destruct (occurs cfg Unicode h n q) eqn:Eo; [|reflexivity].
      destruct (F2 q Eo) as (k' & Hk & Hle & Hsq). inversion Hk; subst k'. exfalso. lia.
    + split; assumption.
  - intros q. destruct (occurs cfg Unicode h n q) eqn:Eo; [|reflexivity].
    destruct (F2 q Eo) as (k' & Hk & _). discriminate.
Qed.

Lemma filter_none {A} (f : A -> bool) l : (forall x, In x l -> f x = false) -> filter f l = [].
Proof.
  induction l as [|x l IH]; intros H; [reflexivity|]. cbn [filter].
  rewrite (H x (or_introl eq_refl)). apply IH. intros y Hy. apply H. right. exact Hy.
Qed.

Lemma substring_core cfg hr h n s :
  n <> [] -> s <= lenN h -> (forall q, q < s -> occurs cfg hr h n q = false) ->
  match best_pos cfg (scan_cands cfg hr (prefix_match cfg hr n) (dropN s h) s (prev_class cfg hr h s)) None with
  | None => spec_substring_pos cfg hr h n = None
  | Some (i, _) => exists sc idx, calculate_score cfg hr h n i (i + lenN n) = Match sc idx /\
                                  hd_error idx = Some i /\ spec_substring_pos cfg hr h n = Some i
  end.
Proof.
  intros Hne Hs Hbefore.
  set (pre := firstn (N.to_nat s) h). set (suf := skipn (N.to_nat s) h).
  assert (Hh : h = pre ++ suf) by (symmetry; apply firstn_skipn).
  assert (Hlp : length pre = N.to_nat s) by (unfold pre; rewrite firstn_length; unfold lenN in Hs; lia).
  assert (Hs' : s = lenN pre) by (unfold lenN; lia).
  change (dropN s h) with suf.
  replace (scan_cands cfg hr (prefix_match cfg hr n) suf s (prev_class cfg hr h s))
    with (scan_cands cfg hr (prefix_match cfg hr n) suf (lenN pre) (prev_class cfg hr h (lenN pre)))
    by (rewrite <- Hs'; reflexivity).
  rewrite (scan_cands_spec cfg hr n h suf pre Hh).
  set (occl := filter (occurs cfg hr h n) (map N.of_nat (seq (length pre) (length suf)))).
  assert (Hocc : filter (occurs cfg hr h n) (all_positions h) = occl).
  { unfold all_positions. rewrite Hh at 2. rewrite app_length, seq_app, map_app, filter_app.
    rewrite filter_none; [reflexivity|]. intros x Hx. apply in_map_iff in Hx. destruct Hx as (y & <- & Hy).
    apply in_seq in Hy. apply Hbefore. lia. }
  unfold spec_substring_pos. rewrite Hocc.
  set (B := spec_bonus_at cfg hr h).
  destruct (best_pos cfg (map (with_bonus cfg hr h) occl) None) as [[i sc]|] eqn:Ebp.
  - apply C04_best_pos in Ebp.
    2:{ intros p b Hin. apply in_map_iff in Hin. destruct Hin as (q & Hq & _). unfold with_bonus in Hq.
        inversion Hq; subst p b. unfold spec_bonus_at, spec_bonus_cfg. rewrite <- bonus_table.
        apply C04_max_bonus. }
    destruct Ebp as (pre' & post' & b & Hc & _ & Hpre & Hpost).
    apply map_eq_app in Hc. destruct Hc as (l1 & l2 & Hl & Hm1 & Hm2).
    apply map_eq_cons in Hm2. destruct Hm2 as (a & tl & Hl2 & Ha & Hm3).
    unfold with_bonus in Ha. inversion Ha; subst a. subst b. subst l2.
    assert (Hin : In i occl) by (rewrite Hl; apply in_or_app; right; left; reflexivity).
    unfold occl in Hin. apply filter_In in Hin. destruct Hin as [_ Hoi].
    destruct (occurs_nth _ _ _ _ _ Hoi) as [Hle _].
    assert (Hpos : 0 < lenN n) by (unfold lenN; destruct n; [congruence|cbn [length]; lia]).
    destruct (calculate_score_match cfg hr h n i (i + lenN n) Hne ltac:(lia)) as (sc' & idx & Hcs & Hhd).
    exists sc', idx. split; [exact Hcs|]. split; [exact Hhd|].
    rewrite Hl. apply (fold_pick B).
    + intros q Hq. apply (Hpost q (B q)). rewrite <- Hm3. apply (in_map (with_bonus cfg hr h) _ _ Hq).
    + intros q Hq. apply (Hpre q (B q)). rewrite <- Hm1. apply (in_map (with_bonus cfg hr h) _ _ Hq).
    + exact I.
  - apply best_pos_none in Ebp. apply map_eq_nil in Ebp. rewrite Ebp. reflexivity.
Qed.

Lemma C05_substring : C05_substring_stmt.
Proof.
  intros cfg hs ns _ _ _ HK Hn2 Hnh.
  unfold run, substring_impl. cbv zeta.
  destruct (cs ns) as [|n0 [|n1 nr]] eqn:En; cbn [length] in Hn2; try lia.
  cbv beta iota.
  set (n := n0 :: n1 :: nr) in *.
  replace (lenN (cs hs) <? lenN n) with false by (unfold lenN; lia).
  replace (lenN n =? lenN (cs hs)) with false by (unfold lenN; lia).
  assert (Hne : n <> []) by discriminate.
  destruct (rp hs) eqn:Eh.
  - destruct (rp ns) eqn:Ens.
    + unfold substring_ascii.
      pose proof (substring_core cfg Ascii (cs hs) n 0 Hne ltac:(lia) ltac:(intros q Hq; lia)) as Hcore.
      change (dropN 0 (cs hs)) with (cs hs) in Hcore.
      change (prev_class cfg Ascii (cs hs) 0) with (init_class cfg) in Hcore.
      destruct (best_pos cfg _ None) as [[i sc]|]; [|exact Hcore].
      destruct Hcore as (sc' & idx & -> & Hhd & Hsp). exists i. split; assumption.
    + exfalso. apply HK. split; assumption.
  - pose proof (prefilter_sound cfg (cs hs) n0 n1 nr) as Hpf. fold n in Hpf.
    destruct (prefilter_non_ascii cfg (cs hs) n false) as [[start e]|].
    + destruct Hpf as [Hst Hbefore]. unfold substring_non_ascii.
      pose proof (substring_core cfg Unicode (cs hs) n start Hne Hst Hbefore) as Hcore.
      destruct (best_pos cfg _ None) as [[i sc]|]; [|exact Hcore].
      destruct Hcore as (sc' & idx & -> & Hhd & Hsp). exists i. split; assumption.
    + unfold spec_substring_pos. rewrite filter_none; [reflexivity|]. intros x _. apply Hpf.
Qed.

Print Assumptions C04_best_pos.
Print Assumptions C04_max_bonus.
Print Assumptions C05_exact_kinds.
Print Assumptions C05_substring.
