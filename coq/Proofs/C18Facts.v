(* Lemmas behind Props/C18.v: the list-level sub-procedures of Model/ParSort.v are sorted-permutation
   procedures, and the recursion of recurse / par_quicksort composes them. *)
From Coq Require Import List Bool Arith Lia Permutation Sorted NArith ZArith Zify ZifyNat.
From NV Require Import Model.ParSort Spec.SortSpec.
Import ListNotations.
Ltac Zify.zify_post_hook ::= Z.div_mod_to_equations.

(* ---- generic list facts --------------------------------------------------------------------------------- *)
Lemma lrev_rev {A} (l : list A) : lrev l = rev l.
Proof. unfold lrev. symmetry. apply rev_alt. Qed.

Lemma span_spec {A} (f : A -> bool) l a b :
  span f l = (a, b) ->
  l = a ++ b /\ Forall (fun x => f x = true) a /\ match b with [] => True | x :: _ => f x = false end.
Proof.
  revert a b. induction l as [|x t IH]; cbn [span]; intros a b H.
  - injection H as <- <-. auto.
  - destruct (f x) eqn:E.
    + destruct (span f t) as [a' b'] eqn:S. injection H as <- <-.
      destruct (IH _ _ eq_refl) as (-> & Hf & Hb). repeat split; auto.
    + injection H as <- <-. repeat split; auto.
Qed.

Lemma upd_length {A} i (x : A) l : length (upd i x l) = length l.
Proof. revert i. induction l; intros [|i]; cbn; auto. Qed.

Lemma nth_error_upd {A} i (x : A) l k :
  nth_error (upd i x l) k = if k =? i then (if i <? length l then Some x else None) else nth_error l k.
Proof.
  revert i k. induction l as [|y t IH]; intros i k.
  - assert (E : upd i x (@nil A) = []) by (destruct i; reflexivity). rewrite E. cbn [length].
    replace (i <? 0) with false by (symmetry; apply Nat.ltb_ge; lia).
    destruct (k =? i); destruct k; reflexivity.
  - destruct i, k; cbn [upd nth_error length]; auto.
    rewrite IH. cbn [Nat.eqb]. destruct (k =? i); auto.
Qed.

Lemma upd_perm {A} i (x y : A) l : nth_error l i = Some x -> Permutation (y :: l) (x :: upd i y l).
Proof.
  revert i. induction l as [|z t IH]; intros [|i] H; cbn in *; try discriminate.
  - injection H as ->. apply perm_swap.
  - rewrite perm_swap. rewrite (IH _ H). apply perm_swap.
Qed.

Lemma swap_perm {A} i j (l : list A) : Permutation (swap i j l) l.
Proof.
  unfold swap. destruct (nth_error l i) as [x|] eqn:Hi; auto. destruct (nth_error l j) as [y|] eqn:Hj; auto.
  apply Permutation_cons_inv with (a := y). symmetry.
  rewrite (upd_perm i x y l Hi).
  assert (Hj' : nth_error (upd i y l) j = Some y).
  { rewrite nth_error_upd. destruct (j =? i) eqn:E; auto.
    apply Nat.eqb_eq in E. subst j. assert (i < length l) by (apply nth_error_Some; congruence).
    apply Nat.ltb_lt in H. now rewrite H. }
  apply (upd_perm j y x) in Hj'. exact Hj'.
Qed.

Lemma swap_length {A} i j (l : list A) : length (swap i j l) = length l.
Proof. apply Permutation_length, swap_perm. Qed.

Lemma nth_error_swap {A} i j (l : list A) k : i < length l -> j < length l ->
  nth_error (swap i j l) k = if k =? j then nth_error l i else if k =? i then nth_error l j else nth_error l k.
Proof.
  intros Hi Hj. unfold swap.
  destruct (nth_error l i) as [x|] eqn:Ei; [|apply nth_error_None in Ei; lia].
  destruct (nth_error l j) as [y|] eqn:Ej; [|apply nth_error_None in Ej; lia].
  rewrite !nth_error_upd, upd_length.
  apply Nat.ltb_lt in Hi, Hj. rewrite Hi, Hj. reflexivity.
Qed.

Lemma nth_error_firstn {A} n (l : list A) k :
  nth_error (firstn n l) k = if k <? n then nth_error l k else None.
Proof.
  revert l k. induction n; intros l k; cbn [firstn].
  - destruct k; reflexivity.
  - destruct l as [|y t].
    + destruct (k <? S n); destruct k; reflexivity.
    + destruct k; cbn [nth_error]; [reflexivity|]. rewrite IHn. reflexivity.
Qed.

Lemma firstn_skipn_perm {A} n (l : list A) : Permutation (firstn n l ++ skipn n l) l.
Proof. now rewrite firstn_skipn. Qed.

(* ---- sortedness ------------------------------------------------------------------------------------------ *)
Lemma SS_app {A} (R : A -> A -> Prop) l1 l2 :
  StronglySorted R (l1 ++ l2) <->
  StronglySorted R l1 /\ StronglySorted R l2 /\ (forall a b, In a l1 -> In b l2 -> R a b).
Proof.
  induction l1 as [|x t IH]; cbn.
  - split; [intros H; repeat split; auto; [constructor | intros ? ? []] | tauto].
  - split.
    + intros H. apply StronglySorted_inv in H as [Ht Hx]. apply IH in Ht as (H1 & H2 & H3).
      rewrite Forall_app in Hx. destruct Hx as [Hx1 Hx2]. repeat split; auto.
      * constructor; auto.
      * intros a b [<-|Ha] Hb; auto. rewrite Forall_forall in Hx2. auto.
    + intros (H1 & H2 & H3). apply StronglySorted_inv in H1 as [Ht Hx]. constructor.
      * apply IH. repeat split; auto.
      * rewrite Forall_app. split; auto. apply Forall_forall. auto.
Qed.

Lemma SS_rev {A} (R : A -> A -> Prop) l :
  StronglySorted R (rev l) <-> StronglySorted (fun a b => R b a) l.
Proof.
  induction l as [|x t IH]; cbn.
  - split; constructor.
  - rewrite SS_app, IH. split.
    + intros (H1 & _ & H3). constructor; auto. apply Forall_forall. intros y Hy.
      apply H3; [now apply -> in_rev | now left].
    + intros H. apply StronglySorted_inv in H as [Ht Hx]. rewrite Forall_forall in Hx. repeat split; auto.
      * repeat constructor.
      * intros a b Ha [<-|[]]. apply Hx. now apply in_rev.
Qed.

Lemma SS_perm_Forall {A} (P : A -> Prop) l l' : Permutation l l' -> Forall P l -> Forall P l'.
Proof. intros Hp H. rewrite Forall_forall in *. intros x Hx. apply H. eapply Permutation_in; [symmetry|]; eauto. Qed.

Section Facts.
Context {A : Type}.
Variable less : A -> A -> bool.
Notation sorted := (sorted less).

Section SWO.
Hypothesis swo : strict_weak_order less.

Lemma less_irrefl a : less a a = false. Proof. apply swo. Qed.
Lemma less_trans a b c : less a b = true -> less b c = true -> less a c = true. Proof. apply swo. Qed.
Lemma ge_trans a b c : less a b = false -> less b c = false -> less a c = false. Proof. apply swo. Qed.
Lemma less_asym a b : less a b = true -> less b a = false.
Proof.
  intros H. destruct (less b a) eqn:E; auto.
  pose proof (less_trans _ _ _ H E) as T. rewrite less_irrefl in T. discriminate.
Qed.
(* x < p and not (y < p) give x < y *)
Lemma less_lt_ge x p y : less x p = true -> less y p = false -> less x y = true.
Proof.
  intros H1 H2. destruct (less x y) eqn:E; auto. now rewrite (ge_trans _ _ _ E H2) in H1.
Qed.

Lemma sorted_adjacent_sorted v : sorted_adjacent less v -> sorted v.
Proof.
  intros H. apply Sorted_StronglySorted; auto.
  intros a b c Hab Hbc. eapply ge_trans; eauto.
Qed.
End SWO.

Lemma sorted_sorted_adjacent v : sorted v -> sorted_adjacent less v.
Proof. apply StronglySorted_Sorted. Qed.

(* ---- shift_tail / shift_head / insertion_sort ---------------------------------------------------------------- *)
Lemma ins_tail_perm x r : Permutation (ins_tail less x r) (x :: r).
Proof.
  induction r as [|z r IH]; cbn; auto. destruct (less x z); auto.
  rewrite IH. apply perm_swap.
Qed.

Lemma ins_head_perm x r : Permutation (ins_head less x r) (x :: r).
Proof.
  induction r as [|z r IH]; cbn; auto. destruct (less z x); auto.
  rewrite IH. apply perm_swap.
Qed.

Lemma shift_tail_perm v : Permutation (shift_tail less v) v.
Proof.
  unfold shift_tail. rewrite lrev_rev. destruct (rev v) as [|x [|y r]] eqn:E; auto.
  destruct (less x y); auto. rewrite lrev_rev.
  rewrite <- (rev_involutive v), E. rewrite <- !Permutation_rev.
  rewrite perm_swap. apply perm_skip. apply ins_tail_perm.
Qed.

Lemma shift_head_perm v : Permutation (shift_head less v) v.
Proof.
  unfold shift_head. destruct v as [|x [|y r]]; auto. destruct (less y x); auto.
  rewrite perm_swap. apply perm_skip. apply ins_head_perm.
Qed.

Lemma insertion_sort_loop_perm done todo : Permutation (insertion_sort_loop less done todo) (done ++ todo).
Proof.
  revert done. induction todo as [|x t IH]; intros done; cbn.
  - now rewrite app_nil_r.
  - rewrite IH, shift_tail_perm. now rewrite <- app_assoc.
Qed.

Lemma insertion_sort_perm v : Permutation (insertion_sort less v) v.
Proof. destruct v; cbn; auto. apply (insertion_sort_loop_perm [a] v). Qed.

Section SWO2.
Hypothesis swo : strict_weak_order less.
Notation desc := (StronglySorted (fun a b => less a b = false)).

Lemma sorted_rev_desc v : sorted (rev v) <-> desc v.
Proof. unfold SortSpec.sorted. apply SS_rev. Qed.

Lemma sorted_desc_rev v : sorted v <-> desc (rev v).
Proof. rewrite <- sorted_rev_desc, rev_involutive. tauto. Qed.

Lemma ins_tail_desc x r : desc r -> desc (ins_tail less x r).
Proof.
  induction r as [|z r IH]; cbn; intros H.
  - repeat constructor.
  - apply StronglySorted_inv in H as [Hr Hz]. destruct (less x z) eqn:E.
    + constructor; auto. eapply SS_perm_Forall; [symmetry; apply ins_tail_perm|].
      constructor; auto. now apply less_asym.
    + constructor; [constructor; auto|]. constructor; auto.
      eapply Forall_impl; [|exact Hz]. cbn. intros w Hw. eapply ge_trans; eauto.
Qed.

(* shift_tail inserts the last element into a sorted prefix *)
Lemma shift_tail_sorted done x : sorted done -> sorted (shift_tail less (done ++ [x])).
Proof.
  intros H. unfold shift_tail. rewrite lrev_rev, rev_app_distr. cbn [rev app].
  apply sorted_desc_rev in H.
  destruct (rev done) as [|y r] eqn:E.
  - assert (done = []) by (rewrite <- (rev_involutive done), E; reflexivity). subst. repeat constructor.
  - apply StronglySorted_inv in H as [Hr Hy]. destruct (less x y) eqn:L.
    + rewrite lrev_rev. apply sorted_rev_desc. constructor; [now apply ins_tail_desc|].
      eapply SS_perm_Forall; [symmetry; apply ins_tail_perm|]. constructor; auto. now apply less_asym.
    + apply sorted_desc_rev. rewrite rev_app_distr, E. cbn. constructor; [constructor; auto|].
      constructor; auto. eapply Forall_impl; [|exact Hy]. cbn. intros w Hw. eapply ge_trans; eauto.
Qed.

Lemma insertion_sort_loop_sorted done todo : sorted done -> sorted (insertion_sort_loop less done todo).
Proof.
  revert done. induction todo as [|x t IH]; intros done H; cbn; auto.
  apply IH. now apply shift_tail_sorted.
Qed.

Lemma insertion_sort_sorted v : sorted (insertion_sort less v).
Proof.
  destruct v; cbn; [constructor|]. apply insertion_sort_loop_sorted. repeat constructor.
Qed.
End SWO2.

(* ---- swap on decomposed lists ----------------------------------------------------------------------------- *)
Lemma swap_nth_l i j (l : list A) : i < length l -> j < length l -> nth_error (swap i j l) i = nth_error l j.
Proof.
  intros Hi Hj. rewrite nth_error_swap by assumption. rewrite Nat.eqb_refl.
  destruct (i =? j) eqn:E; auto. apply Nat.eqb_eq in E. now subst.
Qed.
Lemma swap_nth_r i j (l : list A) : i < length l -> j < length l -> nth_error (swap i j l) j = nth_error l i.
Proof. intros Hi Hj. rewrite nth_error_swap by assumption. now rewrite Nat.eqb_refl. Qed.
Lemma swap_nth_other i j k (l : list A) : i < length l -> j < length l -> k <> i -> k <> j ->
  nth_error (swap i j l) k = nth_error l k.
Proof.
  intros Hi Hj H1 H2. rewrite nth_error_swap by assumption.
  apply Nat.eqb_neq in H1, H2. now rewrite H1, H2.
Qed.

Lemma upd_app_k k (x : A) l1 l2 : upd (length l1 + k) x (l1 ++ l2) = l1 ++ upd k x l2.
Proof. induction l1; cbn [length app Nat.add upd]; [reflexivity | now f_equal]. Qed.
Lemma upd_app_r (x : A) l1 l2 : upd (length l1) x (l1 ++ l2) = l1 ++ upd 0 x l2.
Proof. rewrite <- (upd_app_k 0). now rewrite Nat.add_0_r. Qed.

Lemma swap_adjacent pre (a b : A) post :
  swap (length pre) (S (length pre)) (pre ++ a :: b :: post) = pre ++ b :: a :: post.
Proof.
  assert (H1 : nth_error (pre ++ a :: b :: post) (length pre) = Some a)
    by (rewrite nth_error_app2, Nat.sub_diag by lia; reflexivity).
  assert (H2 : nth_error (pre ++ a :: b :: post) (S (length pre)) = Some b)
    by (rewrite nth_error_app2 by lia; replace (S (length pre) - length pre) with 1 by lia; reflexivity).
  unfold swap. rewrite H1, H2.
  rewrite upd_app_r. replace (S (length pre)) with (length pre + 1) by lia.
  rewrite upd_app_k. reflexivity.
Qed.

(* v.swap(0, mid) when index mid holds the last element of the block L0 ++ [z] that follows v[0] *)
Lemma swap_0_mid (p : A) L0 z R :
  swap 0 (S (length L0)) (p :: L0 ++ z :: R) = z :: L0 ++ p :: R.
Proof.
  assert (H2 : nth_error (p :: L0 ++ z :: R) (S (length L0)) = Some z)
    by (cbn [nth_error]; rewrite nth_error_app2, Nat.sub_diag by lia; reflexivity).
  unfold swap. rewrite H2. cbn [nth_error upd].
  f_equal. now rewrite upd_app_r.
Qed.

Lemma firstn_app_exact (l1 l2 : list A) : firstn (length l1) (l1 ++ l2) = l1.
Proof. now rewrite firstn_app, Nat.sub_diag, firstn_all, firstn_O, app_nil_r. Qed.
Lemma skipn_app_exact (l1 l2 : list A) : skipn (length l1) (l1 ++ l2) = l2.
Proof. now rewrite skipn_app, Nat.sub_diag, skipn_all. Qed.

(* ---- partial_insertion_sort ------------------------------------------------------------------------------ *)
Lemma pis_loop_perm steps : forall i v, Permutation (snd (pis_loop less steps i v)) v.
Proof.
  induction steps as [|s IH]; intros i v; cbn [pis_loop]; auto.
  destruct (_ =? _); cbn [snd]; auto. destruct (_ <? _); cbn [snd]; auto.
  rewrite IH, shift_tail_perm, shift_head_perm, firstn_skipn. apply swap_perm.
Qed.

Lemma partial_insertion_sort_perm v : Permutation (snd (partial_insertion_sort less v)) v.
Proof. apply pis_loop_perm. Qed.

Section SWO3.
Hypothesis swo : strict_weak_order less.

Lemma sorted_snoc l a b : sorted (l ++ [a]) -> less b a = false -> sorted ((l ++ [a]) ++ [b]).
Proof.
  intros H Hb. apply SS_app. split; auto. split; [repeat constructor|].
  intros x y Hx [<-|[]]. apply in_app_or in Hx as [Hx|[<-|[]]]; auto.
  apply SS_app in H as (_ & _ & H). eapply ge_trans; eauto. apply H; [auto | now left].
Qed.

Lemma sorted_app_l l1 l2 : sorted (l1 ++ l2) -> sorted l1.
Proof. intros H. now apply SS_app in H. Qed.

Lemma find_descent_spec rest : forall prev pre i, i = S (length pre) -> sorted (pre ++ [prev]) ->
  (i <= find_descent less prev rest i <= i + length rest) /\
  sorted (firstn (find_descent less prev rest i) (pre ++ prev :: rest)).
Proof.
  induction rest as [|b t IH]; intros prev pre i Hi Hs; cbn [find_descent length].
  - split; [lia|]. rewrite firstn_all2; auto. rewrite app_length. cbn. lia.
  - destruct (less b prev) eqn:E.
    + split; [lia|]. replace (pre ++ prev :: b :: t) with ((pre ++ [prev]) ++ b :: t) by (now rewrite <- app_assoc).
      replace i with (length (pre ++ [prev])) by (rewrite app_length; cbn; lia).
      now rewrite firstn_app_exact.
    + destruct (IH b (pre ++ [prev]) (S i)) as [H1 H2].
      * rewrite app_length. cbn. lia.
      * now apply sorted_snoc.
      * split; [lia|]. now rewrite <- app_assoc in H2.
Qed.

Lemma pis_loop_sorted steps : forall i v v', 1 <= i <= length v -> sorted (firstn i v) ->
  pis_loop less steps i v = (true, v') -> sorted v'.
Proof.
  induction steps as [|s IH]; intros i v v' Hi Hs; cbn [pis_loop]; [discriminate|].
  (* decompose v around i-1 *)
  assert (Hd : exists pre prev rest, v = pre ++ prev :: rest /\ length pre = i - 1).
  { exists (firstn (i - 1) v). destruct (skipn (i - 1) v) as [|prev rest] eqn:E.
    - apply (f_equal (@length A)) in E. rewrite skipn_length in E. cbn in E. lia.
    - exists prev, rest. split; [now rewrite <- E, firstn_skipn | rewrite firstn_length; lia]. }
  destruct Hd as (pre & prev & rest & -> & Hpre).
  assert (Hfi : firstn i (pre ++ prev :: rest) = pre ++ [prev]).
  { replace (pre ++ prev :: rest) with ((pre ++ [prev]) ++ rest) by (now rewrite <- app_assoc).
    replace i with (length (pre ++ [prev])) by (rewrite app_length; cbn; lia). apply firstn_app_exact. }
  rewrite Hfi in Hs.
  unfold scan_from. replace (skipn (i - 1) (pre ++ prev :: rest)) with (prev :: rest)
    by (rewrite <- Hpre; now rewrite skipn_app_exact).
  destruct (find_descent_spec rest prev pre i ltac:(lia) Hs) as [Hb Hs'].
  set (i' := find_descent less prev rest i) in *.
  destruct (i' =? _) eqn:E1.
  { apply Nat.eqb_eq in E1. intros H. injection H as <-. rewrite E1 in Hs'. now rewrite firstn_all in Hs'. }
  destruct (_ <? SHORTEST_SHIFTING); [discriminate|].
  apply Nat.eqb_neq in E1. rewrite app_length in *. cbn [length] in *.
  (* decompose around i' *)
  set (v := pre ++ prev :: rest) in *.
  assert (Hlen : length v = length pre + S (length rest)) by (unfold v; rewrite app_length; reflexivity).
  assert (Hd : exists p2 a b post, v = p2 ++ a :: b :: post /\ length p2 = i' - 1).
  { exists (firstn (i' - 1) v). destruct (skipn (i' - 1) v) as [|a [|b post]] eqn:E.
    - apply (f_equal (@length A)) in E. rewrite skipn_length in E. cbn in E. lia.
    - apply (f_equal (@length A)) in E. rewrite skipn_length in E. cbn in E. lia.
    - exists a, b, post. split; [now rewrite <- E, firstn_skipn | rewrite firstn_length; lia]. }
  destruct Hd as (p2 & a & b & post & Ev & Hp2). rewrite Ev in *.
  assert (Ei : i' = S (length p2)) by lia. clearbody i'. subst i'.
  replace (S (length p2) - 1) with (length p2) by lia.
  rewrite swap_adjacent.
  replace (p2 ++ b :: a :: post) with ((p2 ++ [b]) ++ a :: post) by (now rewrite <- app_assoc).
  replace (S (length p2)) with (length (p2 ++ [b])) by (rewrite app_length; cbn; lia).
  rewrite firstn_app_exact, skipn_app_exact.
  apply IH.
  - rewrite !app_length, (Permutation_length (shift_tail_perm _)), (Permutation_length (shift_head_perm _)), app_length.
    cbn. lia.
  - replace (length (p2 ++ [b])) with (length (shift_tail less (p2 ++ [b])))
      by (first [apply Permutation_length, shift_tail_perm | symmetry; apply Permutation_length, shift_tail_perm]).
    rewrite firstn_app_exact. apply shift_tail_sorted; auto.
    replace (p2 ++ a :: b :: post) with ((p2 ++ [a]) ++ b :: post) in Hs' by (now rewrite <- app_assoc).
    replace (S (length p2)) with (length (p2 ++ [a])) in Hs' by (rewrite app_length; cbn; lia).
    rewrite firstn_app_exact in Hs'. now apply sorted_app_l in Hs'.
Qed.

Lemma partial_insertion_sort_sorted v v' : partial_insertion_sort less v = (true, v') -> sorted v'.
Proof.
  unfold partial_insertion_sort. destruct v as [|x t].
  - cbn. discriminate.
  - apply pis_loop_sorted; [cbn; lia|]. cbn. repeat constructor.
Qed.
End SWO3.

(* ---- heapsort ------------------------------------------------------------------------------------------------ *)
Lemma sift_down_perm fuel : forall v n, Permutation (sift_down less fuel v n) v.
Proof.
  induction fuel as [|f IH]; intros v n; cbn [sift_down]; auto.
  destruct (_ <=? _); auto. destruct (negb _); auto. rewrite IH. apply swap_perm.
Qed.

Lemma heap_build_perm n : forall v, Permutation (heap_build less n v) v.
Proof. induction n; intros v; cbn [heap_build]; auto. rewrite IHn. apply sift_down_perm. Qed.

Lemma heap_pop_perm n : forall v, Permutation (heap_pop less n v) v.
Proof.
  induction n; intros v; cbn [heap_pop]; auto.
  rewrite IHn, sift_down_perm, firstn_skipn. apply swap_perm.
Qed.

Lemma heapsort_perm v : Permutation (heapsort less v) v.
Proof. unfold heapsort. rewrite heap_pop_perm. apply heap_build_perm. Qed.

Lemma lessi_some v i j x y : nth_error v i = Some x -> nth_error v j = Some y -> lessi less v i j = less x y.
Proof. intros H1 H2. unfold lessi. now rewrite H1, H2. Qed.

(* the binary max-heap invariant `parent >= child` *)
Definition heap_at (v : list A) (i : nat) : Prop :=
  forall c x y, c = 2 * i + 1 \/ c = 2 * i + 2 -> nth_error v i = Some x -> nth_error v c = Some y -> less x y = false.
Definition heap_from (v : list A) (s : nat) : Prop := forall i, s <= i -> heap_at v i.
Definition heap_except (v : list A) (s n : nat) : Prop := forall i, s <= i -> i <> n -> heap_at v i.
(* the parent of n dominates the children of n *)
Definition heap_gp (v : list A) (s n : nat) : Prop :=
  forall i c x y, s <= i -> n = 2 * i + 1 \/ n = 2 * i + 2 -> c = 2 * n + 1 \/ c = 2 * n + 2 ->
                  nth_error v i = Some x -> nth_error v c = Some y -> less x y = false.

Section SWO4.
Hypothesis swo : strict_weak_order less.

Lemma sift_down_heap fuel : forall v n s, s <= n -> length v - n <= fuel ->
  heap_except v s n -> heap_gp v s n -> heap_from (sift_down less fuel v n) s.
Proof.
  induction fuel as [|f IH]; intros v n s Hs Hf He Hg.
  - cbn. intros i Hi. destruct (Nat.eq_dec i n) as [->|Hne]; [|now apply He].
    intros c x y _ Hx _. assert (n < length v) by (apply nth_error_Some; congruence). lia.
  - cbn [sift_down]. destruct (length v <=? 2 * n + 1) eqn:E1.
    { apply Nat.leb_le in E1. intros i Hi. destruct (Nat.eq_dec i n) as [->|Hne]; [|now apply He].
      intros c x y Hc _ Hy. assert (c < length v) by (apply nth_error_Some; congruence). lia. }
    apply Nat.leb_gt in E1.
    set (ch := if (2 * n + 1 + 1 <? length v) && lessi less v (2 * n + 1) (2 * n + 1 + 1)
               then 2 * n + 1 + 1 else 2 * n + 1).
    assert (Hch : (ch = 2 * n + 1 \/ ch = 2 * n + 2) /\ ch < length v /\
                  forall c y z, c = 2 * n + 1 \/ c = 2 * n + 2 ->
                                nth_error v ch = Some y -> nth_error v c = Some z -> less y z = false).
    { subst ch. replace (2 * n + 1 + 1) with (2 * n + 2) by lia.
      destruct (2 * n + 2 <? length v) eqn:E2; cbn [andb].
      - apply Nat.ltb_lt in E2. destruct (lessi less v (2 * n + 1) (2 * n + 2)) eqn:E3.
        + split; [right; lia|]. split; [lia|]. intros c y z [->| ->] Hy Hz.
          * unfold lessi in E3. rewrite Hz, Hy in E3. now apply less_asym.
          * rewrite Hy in Hz. injection Hz as <-. now apply less_irrefl.
        + split; [left; lia|]. split; [lia|]. intros c y z [->| ->] Hy Hz.
          * rewrite Hy in Hz. injection Hz as <-. now apply less_irrefl.
          * unfold lessi in E3. now rewrite Hy, Hz in E3.
      - apply Nat.ltb_ge in E2. split; [left; lia|]. split; [lia|]. intros c y z [->| ->] Hy Hz.
        + rewrite Hy in Hz. injection Hz as <-. now apply less_irrefl.
        + assert (2 * n + 2 < length v) by (apply nth_error_Some; congruence). lia. }
    destruct Hch as (Hch1 & Hch2 & Hbig). clearbody ch.
    destruct (nth_error v n) as [xn|] eqn:En; [|apply nth_error_None in En; lia].
    destruct (nth_error v ch) as [xc|] eqn:Ec; [|apply nth_error_None in Ec; lia].
    rewrite (lessi_some _ _ _ _ _ En Ec).
    destruct (less xn xc) eqn:E4; cbn [negb].
    + apply IH; [lia | rewrite swap_length; lia | | ].
      * intros i Hi Hne c x y Hc.
        destruct (Nat.eq_dec i n) as [->|Hin].
        -- rewrite swap_nth_l by lia. rewrite Ec. intros Hx. injection Hx as <-.
           destruct (Nat.eq_dec c ch) as [->|Hcc].
           ++ rewrite swap_nth_r by lia. rewrite En. intros Hy. injection Hy as <-. now apply less_asym.
           ++ rewrite swap_nth_other by lia. intros Hy. eapply Hbig; eauto.
        -- rewrite (swap_nth_other n ch i) by lia. intros Hx.
           destruct (Nat.eq_dec c n) as [->|Hcn].
           ++ rewrite swap_nth_l by lia. rewrite Ec. intros Hy. injection Hy as <-.
              eapply (Hg i ch); eauto; lia.
           ++ rewrite swap_nth_other by lia. intros Hy. eapply (He i); eauto.
      * intros i c x y Hi Hpar Hc.
        assert (i = n) by lia. subst i.
        rewrite swap_nth_l by lia. rewrite Ec. intros Hx. injection Hx as <-.
        rewrite swap_nth_other by lia. intros Hy. eapply (He ch); eauto; lia.
    + intros i Hi. destruct (Nat.eq_dec i n) as [->|Hne]; [|now apply He].
      intros c x y Hc Hx Hy. rewrite En in Hx. injection Hx as <-.
      eapply ge_trans; eauto.
Qed.

Lemma heap_build_heap n : forall v, heap_from v n -> heap_from (heap_build less n v) 0.
Proof.
  induction n as [|i IH]; intros v H; cbn [heap_build]; auto.
  apply IH. apply sift_down_heap; [lia | lia | |].
  - intros j Hj Hne. apply H. lia.
  - intros j c x y Hj Hpar. lia.
Qed.

Lemma heap_from_half v : heap_from v (length v / 2).
Proof.
  intros i Hi c x y Hc _ Hy. assert (c < length v) by (apply nth_error_Some; congruence).
  exfalso. destruct Hc; lia.
Qed.

Lemma heap_root_max h r : heap_from h 0 -> nth_error h 0 = Some r ->
  forall j x, nth_error h j = Some x -> less r x = false.
Proof.
  intros Hh Hr j. induction j as [j IH] using lt_wf_ind. intros x Hx.
  destruct j as [|j].
  - rewrite Hr in Hx. injection Hx as <-. now apply less_irrefl.
  - set (p := j / 2).
    assert (Hp : S j = 2 * p + 1 \/ S j = 2 * p + 2).
    { unfold p. assert (j = 2 * (j / 2) \/ j = 2 * (j / 2) + 1) by lia. lia. }
    destruct (nth_error h p) as [z|] eqn:Ez.
    + apply (ge_trans swo r z x).
      * apply (IH p); [unfold p; lia | assumption].
      * eapply (Hh p); eauto; lia.
    + apply nth_error_None in Ez. assert (S j < length h) by (apply nth_error_Some; congruence). lia.
Qed.

Lemma nth_error_cons_snoc (r z : A) mid j x : 1 <= j ->
  nth_error (z :: mid) j = Some x -> nth_error (r :: mid ++ [z]) j = Some x.
Proof.
  intros Hj H. destruct j; [lia|]. cbn [nth_error] in *.
  rewrite nth_error_app1; auto. apply nth_error_Some. congruence.
Qed.

Lemma heap_pop_sorted n : forall h t, length h = S n -> heap_from h 0 -> sorted t ->
  (forall x y, In x h -> In y t -> less y x = false) -> sorted (heap_pop less n (h ++ t)).
Proof.
  induction n as [|i' IH]; intros h t Hl Hh Ht Hc.
  - cbn [heap_pop]. apply SS_app. repeat split; auto.
    destruct h as [|x [|? ?]]; try discriminate. repeat constructor.
  - destruct h as [|r w]; [discriminate|]. cbn [length] in Hl.
    assert (w <> []) by (intros ->; discriminate).
    destruct (exists_last H) as (mid & z & ->). clear H.
    rewrite app_length in Hl. cbn [length] in Hl.
    assert (Hm : length mid = i') by lia.
    cbn [heap_pop]. replace ((r :: mid ++ [z]) ++ t) with (r :: mid ++ z :: t) by (cbn; now rewrite <- app_assoc).
    subst i'. rewrite swap_0_mid.
    replace (z :: mid ++ r :: t) with ((z :: mid) ++ r :: t) by reflexivity.
    replace (S (length mid)) with (length (z :: mid)) by reflexivity.
    rewrite firstn_app_exact, skipn_app_exact.
    pose proof (sift_down_perm (length (z :: mid)) (z :: mid) 0) as Hp.
    apply IH.
    + rewrite (Permutation_length Hp). reflexivity.
    + apply sift_down_heap; [lia | lia | |].
      * intros j _ Hj c x y Hcj Hx Hy.
        apply (Hh j ltac:(lia) c x y Hcj); apply nth_error_cons_snoc; auto; lia.
      * intros j c x y _ Hpar. lia.
    + constructor; auto. apply Forall_forall. intros y Hy. apply Hc; auto. now left.
    + intros x y Hx [<-|Hy].
      * assert (Hin : In x (r :: mid ++ [z])).
        { eapply Permutation_in in Hx; [|exact Hp]. destruct Hx as [<-|Hx]; cbn; rewrite in_app_iff; cbn; auto. }
        apply In_nth_error in Hin as [j Hj]. eapply heap_root_max; eauto; reflexivity.
      * apply Hc; auto. eapply Permutation_in in Hx; [|exact Hp].
        destruct Hx as [<-|Hx]; cbn; rewrite in_app_iff; cbn; auto.
Qed.

Lemma heapsort_sorted v : sorted (heapsort less v).
Proof.
  unfold heapsort. destruct v as [|x t] eqn:E; [cbn; constructor|]. rewrite <- E.
  set (hb := heap_build less (length v / 2) v).
  assert (Hl : length hb = length v) by (apply Permutation_length, heap_build_perm).
  rewrite <- Hl. rewrite <- (app_nil_r hb) at 2.
  apply heap_pop_sorted.
  - rewrite Hl, E. cbn. lia.
  - apply heap_build_heap. apply heap_from_half.
  - constructor.
  - intros ? ? _ [].
Qed.
End SWO4.

(* ---- partition_equal ----------------------------------------------------------------------------------------- *)
Lemma span_perm (f : A -> bool) l a b : span f l = (a, b) -> l = a ++ b.
Proof. intros H. now apply span_spec in H. Qed.

Lemma pe_loop_perm fuel : forall p m, Permutation (fst (pe_loop less fuel p m)) m.
Proof.
  induction fuel as [|f IH]; intros p m; cbn [pe_loop]; auto.
  destruct (span _ m) as [a m1] eqn:S1. destruct (span _ (lrev m1)) as [rb rm2] eqn:S2.
  apply span_perm in S1, S2. subst m. rewrite lrev_rev in S2.
  assert (E1 : m1 = rev rm2 ++ rev rb) by (rewrite <- (rev_involutive m1), S2; apply rev_app_distr).
  subst m1. destruct rm2 as [|y rmid].
  - cbn [fst rev app]. now rewrite lrev_rev.
  - rewrite lrev_rev. destruct (rev rmid) as [|x mid] eqn:E2.
    + cbn [fst rev]. rewrite E2, lrev_rev. reflexivity.
    + specialize (IH p mid). destruct (pe_loop less f p mid) as [r c]. cbn [fst] in *.
      cbn [rev]. rewrite E2, lrev_rev. apply Permutation_app_head.
      cbn [app]. rewrite <- app_assoc. cbn [app]. rewrite IH.
      rewrite <- !Permutation_middle. apply perm_swap.
Qed.

Lemma partition_equal_perm v pivot : Permutation (fst (fst (partition_equal less v pivot))) v.
Proof.
  unfold partition_equal. pose proof (swap_perm 0 pivot v) as Hs.
  destruct (swap 0 pivot v) as [|p rest]; cbn [fst]; auto.
  pose proof (pe_loop_perm (S (length rest)) p rest) as Hp.
  destruct (pe_loop _ _ _ _) as [r c]. cbn [fst] in *. now rewrite Hp.
Qed.

Lemma swap_0_head v pivot (p : A) : nth_error v pivot = Some p -> exists rest, swap 0 pivot v = p :: rest.
Proof.
  intros H. destruct v as [|y t]; [destruct pivot; discriminate|].
  unfold swap. cbn [nth_error]. rewrite H. cbn [upd].
  destruct pivot as [|k]; cbn [upd]; eauto. cbn in H. injection H as ->. eauto.
Qed.

Lemma pe_loop_spec fuel : forall p m, length m < fuel ->
  exists L R, fst (pe_loop less fuel p m) = L ++ R /\ length L = snd (pe_loop less fuel p m) /\
              Forall (fun x => less p x = false) L /\ Forall (fun x => less p x = true) R.
Proof.
  induction fuel as [|f IH]; intros p m Hf; [lia|]. cbn [pe_loop].
  destruct (span _ m) as [a m1] eqn:S1. destruct (span _ (lrev m1)) as [rb rm2] eqn:S2.
  apply span_spec in S1 as (-> & Fa & Hm1). apply span_spec in S2 as (S2 & Frb & Hrm2).
  rewrite lrev_rev in S2.
  assert (E1 : m1 = rev rm2 ++ rev rb) by (rewrite <- (rev_involutive m1), S2; apply rev_app_distr).
  subst m1.
  assert (Fa' : Forall (fun x => less p x = false) a).
  { eapply Forall_impl; [|exact Fa]. cbn. intros x. now destruct (less p x). }
  assert (Frb' : Forall (fun x => less p x = true) (rev rb)).
  { apply Forall_forall. intros x Hx. apply in_rev in Hx. rewrite Forall_forall in Frb. auto. }
  destruct rm2 as [|y rmid].
  - exists a, (lrev rb). cbn [fst snd]. rewrite lrev_rev. auto.
  - rewrite lrev_rev. destruct (rev rmid) as [|x mid] eqn:E2.
    + exists (a ++ [y]), (lrev rb). cbn [fst snd]. rewrite lrev_rev, app_length, <- app_assoc. cbn.
      repeat split; auto. apply Forall_app. split; auto.
    + cbn [rev] in Hm1, Hf. rewrite E2 in Hm1, Hf. cbn in Hm1.
      destruct (IH p mid) as (L & R & E & El & FL & FR).
      { rewrite !app_length in Hf. cbn [length] in Hf. lia. }
      destruct (pe_loop less f p mid) as [r c]. cbn [fst snd] in *. subst r c.
      exists (a ++ y :: L), (R ++ x :: lrev rb). rewrite lrev_rev. repeat split.
      * rewrite <- !app_assoc. reflexivity.
      * rewrite app_length. cbn. lia.
      * apply Forall_app. split; auto.
      * apply Forall_app. split; auto. constructor; auto. now destruct (less p x).
Qed.

Lemma partition_equal_spec v pivot p : less p p = false -> nth_error v pivot = Some p ->
  exists L R, fst (fst (partition_equal less v pivot)) = L ++ R /\
              length L = snd (fst (partition_equal less v pivot)) /\ 1 <= length L /\
              Forall (fun x => less p x = false) L /\ Forall (fun x => less p x = true) R.
Proof.
  intros Hirr H. unfold partition_equal. destruct (swap_0_head _ _ _ H) as [rest ->].
  destruct (pe_loop_spec (S (length rest)) p rest ltac:(lia)) as (L & R & E & El & FL & FR).
  destruct (pe_loop _ _ _ _) as [r c]. cbn [fst snd] in *. subst r c.
  exists (p :: L), R. cbn. repeat split; auto; lia.
Qed.

(* ---- partition ------------------------------------------------------------------------------------------------ *)
Section Pib.
Variable pib : list A -> A -> list A * nat.

Lemma partition_perm v pivot : pib_perm pib -> Permutation (fst (fst (fst (partition less pib v pivot)))) v.
Proof.
  intros Hpib. unfold partition. pose proof (swap_perm 0 pivot v) as Hs.
  destruct (swap 0 pivot v) as [|p rest]; cbn [fst]; auto.
  destruct (span _ rest) as [a m1] eqn:S1. destruct (span _ (lrev m1)) as [rb rm2] eqn:S2.
  apply span_perm in S1, S2. rewrite lrev_rev in S2.
  assert (E1 : m1 = rev rm2 ++ rev rb) by (rewrite <- (rev_involutive m1), S2; apply rev_app_distr).
  specialize (Hpib (lrev rm2) p). destruct (pib (lrev rm2) p) as [m2' c]. cbn [fst] in *.
  rewrite swap_perm, <- Hs. apply perm_skip. subst rest m1. apply Permutation_app_head.
  now rewrite Hpib, !lrev_rev.
Qed.

Lemma partition_spec v pivot : pib_ok less pib -> v <> [] ->
  exists L pv R, fst (fst (fst (partition less pib v pivot))) = L ++ pv :: R /\
                 length L = snd (fst (fst (partition less pib v pivot))) /\
                 Forall (fun x => less x pv = true) L /\ Forall (fun x => less x pv = false) R.
Proof.
  intros Hpib Hv. unfold partition.
  destruct (swap 0 pivot v) as [|p rest] eqn:Es.
  { apply (f_equal (@length A)) in Es. rewrite swap_length in Es. destruct v; [congruence|discriminate]. }
  destruct (span _ rest) as [a m1] eqn:S1. destruct (span _ (lrev m1)) as [rb rm2] eqn:S2.
  apply span_spec in S1 as (-> & Fa & _). apply span_spec in S2 as (S2 & Frb & _).
  destruct (Hpib (lrev rm2) p) as (Hp & Hc & F1 & F2). destruct (pib (lrev rm2) p) as [m2' c].
  cbn [fst snd] in *.
  assert (Frb' : Forall (fun x => less x p = false) (lrev rb)).
  { rewrite lrev_rev. apply Forall_forall. intros x Hx. apply in_rev in Hx. rewrite Forall_forall in Frb.
    specialize (Frb x Hx). now destruct (less x p). }
  rewrite <- (Permutation_length Hp) in Hc.
  set (L := a ++ firstn c m2'). set (R := skipn c m2' ++ lrev rb).
  assert (EL : length L = length a + c) by (unfold L; rewrite app_length, firstn_length; lia).
  assert (Ev : p :: a ++ m2' ++ lrev rb = p :: L ++ R).
  { unfold L, R. rewrite <- (firstn_skipn c m2') at 1. now rewrite <- !app_assoc. }
  assert (FL : Forall (fun x => less x p = true) L) by (apply Forall_app; split; auto).
  assert (FR : Forall (fun x => less x p = false) R) by (apply Forall_app; split; auto).
  rewrite Ev, <- EL. clearbody L R.
  destruct L as [|z0 L0] using rev_ind.
  - exists [], p, R. cbn. repeat split; auto.
  - clear IHL0. rename z0 into z. rewrite app_length. cbn [length]. replace (length L0 + 1) with (S (length L0)) by lia.
    rewrite <- app_assoc. cbn [app]. rewrite swap_0_mid.
    apply Forall_app in FL as [FL0 Fz]. inversion Fz; subst.
    exists (z :: L0), p, R. cbn. repeat split; auto.
Qed.
Lemma partition_ok v pivot : pib_ok less pib -> pivot < length v ->
  snd (partition less pib v pivot) = true.
Proof.
  intros Hpib Hpv. unfold partition. unfold idx_ok at 1.
  destruct (swap 0 pivot v) as [|p rest] eqn:Es.
  { apply (f_equal (@length A)) in Es. rewrite swap_length in Es. cbn in Es. lia. }
  destruct (span _ rest) as [a m1] eqn:S1. destruct (span _ (lrev m1)) as [rb rm2] eqn:S2.
  destruct (Hpib (lrev rm2) p) as (Hp & Hc & _). destruct (pib (lrev rm2) p) as [m2' c].
  cbn [fst snd] in *. apply andb_true_iff. split; [now apply Nat.ltb_lt|].
  unfold idx_ok. apply Nat.ltb_lt. cbn [length]. rewrite !app_length, (Permutation_length Hp). lia.
Qed.

End Pib.

Lemma partition_equal_mid v pivot : v <> [] -> 1 <= snd (fst (partition_equal less v pivot)).
Proof.
  intros Hv. unfold partition_equal. destruct (swap 0 pivot v) as [|p rest] eqn:Es.
  { apply (f_equal (@length A)) in Es. rewrite swap_length in Es. destruct v; [congruence|discriminate]. }
  destruct (pe_loop _ _ _ _) as [r c]. cbn. lia.
Qed.

Lemma partition_equal_ok v pivot : pivot < length v -> snd (partition_equal less v pivot) = true.
Proof.
  intros Hpv. unfold partition_equal. destruct (swap 0 pivot v) as [|p rest] eqn:Es.
  { apply (f_equal (@length A)) in Es. rewrite swap_length in Es. cbn in Es. lia. }
  destruct (pe_loop _ _ _ _) as [r c]. cbn [snd]. now apply Nat.ltb_lt.
Qed.


(* ---- break_patterns / choose_pivot ---------------------------------------------------------------------------- *)
Lemma break_loop_perm n : forall i random len modulus pos (v : list A),
  Permutation (break_loop n i random len modulus pos v) v.
Proof. induction n; intros; cbn [break_loop]; auto. rewrite IHn. apply swap_perm. Qed.

Lemma break_patterns_perm (v : list A) : Permutation (break_patterns v) v.
Proof. unfold break_patterns. destruct (_ <=? _); auto. apply break_loop_perm. Qed.

Lemma choose_pivot_perm v : Permutation (fst (fst (fst (choose_pivot less v)))) v.
Proof.
  unfold choose_pivot.
  destruct (if 8 <=? length v then _ else _) as [[[a b] c] sw].
  destruct (_ <? _); cbn [fst]; auto. rewrite lrev_rev. symmetry. apply Permutation_rev.
Qed.

(* choose_pivot returns an index inside the slice (so `v[pivot]` and `v.swap(0, pivot)` do not panic) *)
Lemma sort2_bound v n a b sw : a < n -> b < n ->
  fst (fst (sort2 less v (a, b, sw))) < n /\ snd (fst (sort2 less v (a, b, sw))) < n.
Proof. intros. unfold sort2. destruct (lessi less v b a); cbn; auto. Qed.

Lemma sort3_bound v n a b c sw : a < n -> b < n -> c < n ->
  snd (fst (fst (sort3 less v (a, b, c, sw)))) < n.
Proof.
  intros Ha Hb Hc. unfold sort3.
  destruct (sort2_bound v n a b sw Ha Hb) as [H1 H2].
  destruct (sort2 less v (a, b, sw)) as [[a1 b1] s1]. cbn [fst snd] in *.
  destruct (sort2_bound v n b1 c s1 H2 Hc) as [H3 H4].
  destruct (sort2 less v (b1, c, s1)) as [[b2 c2] s2]. cbn [fst snd] in *.
  destruct (sort2_bound v n a1 b2 s2 H1 H3) as [H5 H6].
  destruct (sort2 less v (a1, b2, s2)) as [[a3 b3] s3]. cbn [fst snd] in *. exact H6.
Qed.

Lemma sort_adjacent_bound v n a sw : a + 1 < n -> fst (sort_adjacent less v a sw) < n.
Proof.
  intros H. unfold sort_adjacent.
  pose proof (sort3_bound v n (a - 1) a (a + 1) sw ltac:(lia) ltac:(lia) H) as B.
  destruct (sort3 less v (a - 1, a, a + 1, sw)) as [[[x y] z] s']. cbn [fst snd] in *. exact B.
Qed.

Lemma choose_pivot_in_range v : 0 < length v ->
  snd (fst (fst (choose_pivot less v))) < length v.
Proof.
  intros Hv. unfold choose_pivot.
  assert (B : snd (fst (fst (if 8 <=? length v
      then let '(a, b, c, swaps) :=
             if SHORTEST_MEDIAN_OF_MEDIANS <=? length v
             then let '(a, swaps) := sort_adjacent less v (length v / 4 * 1) 0 in
                  let '(b, swaps0) := sort_adjacent less v (length v / 4 * 2) swaps in
                  let '(c, swaps1) := sort_adjacent less v (length v / 4 * 3) swaps0 in
                  (a, b, c, swaps1)
             else (length v / 4 * 1, length v / 4 * 2, length v / 4 * 3, 0) in
           sort3 less v (a, b, c, swaps)
      else (length v / 4 * 1, length v / 4 * 2, length v / 4 * 3, 0)))) < length v).
  { destruct (8 <=? length v) eqn:E8.
    - apply Nat.leb_le in E8. destruct (SHORTEST_MEDIAN_OF_MEDIANS <=? length v) eqn:E50.
      + apply Nat.leb_le in E50. unfold SHORTEST_MEDIAN_OF_MEDIANS in E50.
        pose proof (sort_adjacent_bound v (length v) (length v / 4 * 1) 0 ltac:(lia)) as B1.
        destruct (sort_adjacent less v (length v / 4 * 1) 0) as [a s1]. cbn [fst] in B1.
        pose proof (sort_adjacent_bound v (length v) (length v / 4 * 2) s1 ltac:(lia)) as B2.
        destruct (sort_adjacent less v (length v / 4 * 2) s1) as [b s2]. cbn [fst] in B2.
        pose proof (sort_adjacent_bound v (length v) (length v / 4 * 3) s2 ltac:(lia)) as B3.
        destruct (sort_adjacent less v (length v / 4 * 3) s2) as [c s3]. cbn [fst] in B3.
        now apply sort3_bound.
      + apply sort3_bound; lia.
    - cbn [fst snd]. lia. }
  destruct (if 8 <=? length v then _ else _) as [[[a b] c] sw]. cbn [fst snd] in B.
  destruct (sw <? MAX_SWAPS); cbn [fst snd]; lia.
Qed.

Lemma choose_pivot_length v : length (fst (fst (fst (choose_pivot less v)))) = length v.
Proof. apply Permutation_length, choose_pivot_perm. Qed.

(* ---- recurse / par_quicksort ------------------------------------------------------------------------------------ *)
Section Rec.
Variable pib : list A -> A -> list A * nat.
Variable oracle : nat -> bool.
Notation rec := (recurse less pib oracle).

Lemma recurse_perm fuel : pib_perm pib -> forall v pred limit wb wp k,
  Permutation (r_list (rec fuel v pred limit wb wp k)) v.
Proof.
  intros Hpib. induction fuel as [|f IH]; intros v pred limit wb wp k; cbn [recurse]; [reflexivity|].
  destruct (length v <=? MAX_INSERTION). { apply insertion_sort_perm. }
  destruct (limit =? 0). { apply heapsort_perm. }
  destruct (if wb then _ else _) as [[v0 limit0] tr0] eqn:E3.
  assert (P0 : Permutation v0 v)
    by (destruct wb; inversion E3; subst; [reflexivity | apply break_patterns_perm]).
  pose proof (choose_pivot_perm v0) as P1.
  destruct (choose_pivot less v0) as [[[v1 pivot] ls] rvd]. cbn [fst] in P1.
  destruct (if wb && wp && ls then _ else _) as [[sn v2] tr2] eqn:E4.
  assert (P2 : Permutation v2 v1).
  { destruct (wb && wp && ls).
    - pose proof (partial_insertion_sort_perm v1) as Q.
      destruct (partial_insertion_sort less v1) as [b v']. inversion E4; subst. exact Q.
    - inversion E4; subst. reflexivity. }
  assert (PV : Permutation v2 v) by (now rewrite P2, P1, P0).
  destruct sn. { exact PV. }
  destruct (match pred with Some p => _ | None => _ end) as [[|]|] eqn:E5.
  - pose proof (partition_equal_perm v2 pivot) as P3.
    destruct (partition_equal less v2 pivot) as [[v3 mid] ok]. cbn [fst] in P3.
    specialize (IH (skipn mid v3) pred limit0 wb wp k).
    destruct (rec f (skipn mid v3) pred limit0 wb wp k) as [[[c r] k'] tr].
    unfold r_list in *. cbn [fst snd] in *. now rewrite IH, firstn_skipn, P3.
  - pose proof (partition_perm pib v2 pivot Hpib) as P3.
    destruct (partition less pib v2 pivot) as [[[v3 mid] wasp] ok]. cbn [fst] in P3.
    destruct (skipn mid v3) as [|pv rgt] eqn:E6. { unfold r_list. cbn [fst snd]. now rewrite P3. }
    assert (E7 : Permutation (firstn mid v3 ++ pv :: rgt) v) by (now rewrite <- E6, firstn_skipn, P3).
    destruct (Nat.max _ _ <=? MAX_SEQUENTIAL).
    + destruct (_ <? _).
      * pose proof (IH (firstn mid v3) pred limit0 true true k) as I1.
        destruct (rec f (firstn mid v3) pred limit0 true true k) as [[[c1 l'] k1] tr1].
        pose proof (IH rgt (Some pv) limit0 (length v / 8 <=? Nat.min mid (length v - mid)) wasp k1) as I2.
        destruct (rec f rgt (Some pv) limit0 _ wasp k1) as [[[c2 r'] k2] tr2'].
        unfold r_list in *. cbn [fst snd] in *. now rewrite I1, I2.
      * pose proof (IH rgt (Some pv) limit0 true true k) as I1.
        destruct (rec f rgt (Some pv) limit0 true true k) as [[[c1 r'] k1] tr1].
        pose proof (IH (firstn mid v3) pred limit0 (length v / 8 <=? Nat.min mid (length v - mid)) wasp k1) as I2.
        destruct (rec f (firstn mid v3) pred limit0 _ wasp k1) as [[[c2 l'] k2] tr2'].
        unfold r_list in *. cbn [fst snd] in *. now rewrite I1, I2.
    + destruct (oracle k). { unfold r_list. cbn [fst snd]. now rewrite P3. }
      (* `lim`: the limit handed to the two parallel calls (whatever expression the model uses) *)
      match goal with |- context [rec f (firstn mid v3) pred ?lim true true (S k)] =>
        pose proof (IH (firstn mid v3) pred lim true true (S k)) as I1;
        destruct (rec f (firstn mid v3) pred lim true true (S k)) as [[[c1 l'] k1] tr1];
        pose proof (IH rgt (Some pv) lim true true k1) as I2;
        destruct (rec f rgt (Some pv) lim true true k1) as [[[c2 r'] k2] tr2']
      end.
      unfold r_list in *. cbn [fst snd] in *. now rewrite I1, I2.
  - exact PV.
Qed.

(* no panic path and no fuel exhaustion: every index the Rust code uses is in range *)
Lemma recurse_clean fuel : pib_ok less pib -> forall v pred limit wb wp k, length v < fuel ->
  forallb ev_ok (r_trace (rec fuel v pred limit wb wp k)) = true.
Proof.
  intros Hpib. assert (Hpp : pib_perm pib) by (intros v p; apply Hpib).
  induction fuel as [|f IH]; intros v pred limit wb wp k Hf; [lia|]. cbn [recurse].
  destruct (length v <=? MAX_INSERTION) eqn:E1; [reflexivity|].
  destruct (limit =? 0); [reflexivity|].
  apply Nat.leb_gt in E1. unfold MAX_INSERTION in E1.
  destruct (if wb then _ else _) as [[v0 limit0] tr0] eqn:E3.
  assert (P0 : Permutation v0 v /\ forallb ev_ok tr0 = true)
    by (destruct wb; inversion E3; subst; split; auto; apply break_patterns_perm).
  destruct P0 as [P0 C0].
  pose proof (choose_pivot_perm v0) as P1.
  pose proof (choose_pivot_in_range v0) as Hpiv. rewrite (Permutation_length P0) in Hpiv. specialize (Hpiv ltac:(lia)).
  destruct (choose_pivot less v0) as [[[v1 pivot] ls] rvd]. cbn [fst snd] in P1, Hpiv.
  destruct (if wb && wp && ls then _ else _) as [[sn v2] tr2] eqn:E4.
  assert (P2 : Permutation v2 v1 /\ forallb ev_ok tr2 = true).
  { destruct (wb && wp && ls).
    - pose proof (partial_insertion_sort_perm v1) as Q.
      destruct (partial_insertion_sort less v1) as [b v']. inversion E4; subst. split; [exact Q|].
      destruct rvd; rewrite ?forallb_app, C0; reflexivity.
    - inversion E4; subst. split; [reflexivity|]. destruct rvd; rewrite ?forallb_app, C0; reflexivity. }
  destruct P2 as [P2 C2].
  assert (PV : Permutation v2 v) by (now rewrite P2, P1, P0).
  assert (LV : length v2 = length v) by (now apply Permutation_length).
  destruct sn. { unfold r_trace. cbn [snd]. now rewrite forallb_app, C2. }
  destruct (match pred with Some p => _ | None => _ end) as [[|]|] eqn:E5.
  - assert (Hne : v2 <> []) by (intros ->; cbn in LV; lia).
    pose proof (partition_equal_perm v2 pivot) as P3.
    pose proof (partition_equal_mid v2 pivot Hne) as Hmid.
    pose proof (partition_equal_ok v2 pivot ltac:(lia)) as Hok.
    destruct (partition_equal less v2 pivot) as [[v3 mid] ok]. cbn [fst snd] in *. subst ok.
    assert (Hl : length (skipn mid v3) < f) by (rewrite skipn_length, (Permutation_length P3); lia).
    specialize (IH (skipn mid v3) pred limit0 wb wp k Hl).
    destruct (rec f (skipn mid v3) pred limit0 wb wp k) as [[[c r] k'] tr].
    unfold r_trace in *. cbn [snd] in *. rewrite forallb_app, C2. cbn. exact IH.
  - assert (Hne : v2 <> []) by (intros ->; cbn in LV; lia).
    destruct (partition_spec pib v2 pivot Hpib Hne) as (L & pv & R & EL & Emid & _ & _).
    pose proof (partition_perm pib v2 pivot Hpp) as P3.
    pose proof (partition_ok pib v2 pivot Hpib ltac:(lia)) as Hok.
    destruct (partition less pib v2 pivot) as [[[v3 mid] wasp] ok]. cbn [fst snd] in *. subst v3 mid ok.
    rewrite firstn_app_exact, skipn_app_exact.
    assert (LL : length L + S (length R) = length v)
      by (rewrite <- LV, <- (Permutation_length P3), app_length; reflexivity).
    destruct (Nat.max _ _ <=? MAX_SEQUENTIAL).
    + destruct (_ <? _).
      * pose proof (IH L pred limit0 true true k ltac:(lia)) as I1.
        destruct (rec f L pred limit0 true true k) as [[[c1 l'] k1] tr1].
        pose proof (IH R (Some pv) limit0 (length v / 8 <=? Nat.min (length L) (length v - length L)) wasp k1 ltac:(lia)) as I2.
        destruct (rec f R (Some pv) limit0 _ wasp k1) as [[[c2 r'] k2] tr2'].
        unfold r_trace in *. cbn [snd] in *. rewrite forallb_app, C2. cbn. now rewrite forallb_app, I1, I2.
      * pose proof (IH R (Some pv) limit0 true true k ltac:(lia)) as I1.
        destruct (rec f R (Some pv) limit0 true true k) as [[[c1 r'] k1] tr1].
        pose proof (IH L pred limit0 (length v / 8 <=? Nat.min (length L) (length v - length L)) wasp k1 ltac:(lia)) as I2.
        destruct (rec f L pred limit0 _ wasp k1) as [[[c2 l'] k2] tr2'].
        unfold r_trace in *. cbn [snd] in *. rewrite forallb_app, C2. cbn. now rewrite forallb_app, I1, I2.
    + destruct (oracle k). { unfold r_trace. cbn [snd]. now rewrite forallb_app, C2. }
      match goal with |- context [rec f L pred ?lim true true (S k)] =>
        pose proof (IH L pred lim true true (S k) ltac:(lia)) as I1;
        destruct (rec f L pred lim true true (S k)) as [[[c1 l'] k1] tr1];
        pose proof (IH R (Some pv) lim true true k1 ltac:(lia)) as I2;
        destruct (rec f R (Some pv) lim true true k1) as [[[c2 r'] k2] tr2']
      end.
      unfold r_trace in *. cbn [snd] in *. rewrite forallb_app, C2. cbn. now rewrite forallb_app, I1, I2.
  - exfalso. destruct pred as [q|]; [|discriminate]. destruct (nth_error v2 pivot) eqn:En; [discriminate|].
    apply nth_error_None in En. lia.
Qed.

Lemma par_quicksort_clean v : pib_ok less pib ->
  forallb ev_ok (r_trace (par_quicksort less pib oracle v)) = true.
Proof.
  intros H. unfold par_quicksort. destruct (oracle 0); [reflexivity|]. apply recurse_clean; auto.
Qed.

Section RecSorted.
Hypothesis swo : strict_weak_order less.
Hypothesis Hpib : pib_ok less pib.

Lemma pib_ok_perm : pib_perm pib.
Proof. intros v p. apply Hpib. Qed.

Lemma sorted_join l' pv r' : sorted l' -> sorted r' ->
  Forall (fun x => less x pv = true) l' -> Forall (fun x => less x pv = false) r' -> sorted (l' ++ pv :: r').
Proof.
  intros Hl Hr Fl Fr. rewrite Forall_forall in Fl, Fr. apply SS_app. repeat split; auto.
  - constructor; auto. apply Forall_forall. auto.
  - intros a b Ha [<-|Hb].
    + apply less_asym; auto.
    + apply less_asym; auto. eapply less_lt_ge; eauto.
Qed.

Lemma sorted_all_ge L : (forall a b, In a L -> In b L -> less b a = false) -> sorted L.
Proof.
  induction L as [|x t IH]; intros H; constructor.
  - apply IH. intros a b Ha Hb. apply H; now right.
  - apply Forall_forall. intros b Hb. apply H; [now left | now right].
Qed.

Lemma recurse_spec fuel : forall v pred limit wb wp k,
  length v < fuel ->
  (forall q, pred = Some q -> Forall (fun x => less x q = false) v) ->
  k <= r_loads (rec fuel v pred limit wb wp k) /\
  (r_flag (rec fuel v pred limit wb wp k) = true ->
     exists j, k <= j /\ j < r_loads (rec fuel v pred limit wb wp k) /\ oracle j = true) /\
  (r_flag (rec fuel v pred limit wb wp k) = false -> sorted (r_list (rec fuel v pred limit wb wp k))) /\
  (length v <= MAX_SEQUENTIAL -> r_flag (rec fuel v pred limit wb wp k) = false).
Proof.
  induction fuel as [|f IH]; intros v pred limit wb wp k Hf Hinv; [lia|]. cbn [recurse].
  destruct (length v <=? MAX_INSERTION) eqn:E1.
  { unfold r_loads, r_flag, r_list. cbn [fst snd]. repeat split; auto; try discriminate.
    intros _. now apply insertion_sort_sorted. }
  destruct (limit =? 0).
  { unfold r_loads, r_flag, r_list. cbn [fst snd]. repeat split; auto; try discriminate.
    intros _. now apply heapsort_sorted. }
  apply Nat.leb_gt in E1. unfold MAX_INSERTION in E1.
  destruct (if wb then _ else _) as [[v0 limit0] tr0] eqn:E3.
  assert (P0 : Permutation v0 v)
    by (destruct wb; inversion E3; subst; [reflexivity | apply break_patterns_perm]).
  pose proof (choose_pivot_perm v0) as P1.
  pose proof (choose_pivot_in_range v0) as Hpiv. rewrite (Permutation_length P0) in Hpiv. specialize (Hpiv ltac:(lia)).
  destruct (choose_pivot less v0) as [[[v1 pivot] ls] rvd]. cbn [fst snd] in P1, Hpiv.
  destruct (if wb && wp && ls then _ else _) as [[sn v2] tr2] eqn:E4.
  assert (P2 : Permutation v2 v1 /\ (sn = true -> sorted v2)).
  { destruct (wb && wp && ls).
    - pose proof (partial_insertion_sort_perm v1) as Q.
      destruct (partial_insertion_sort less v1) as [b v'] eqn:Ep. inversion E4; subst. split; [exact Q|].
      intros ->. eapply partial_insertion_sort_sorted; eauto.
    - inversion E4; subst. split; [reflexivity | discriminate]. }
  destruct P2 as [P2 Hsn].
  assert (PV : Permutation v2 v) by (now rewrite P2, P1, P0).
  assert (LV : length v2 = length v) by (now apply Permutation_length).
  assert (Hinv2 : forall q, pred = Some q -> Forall (fun x => less x q = false) v2).
  { intros q Hq. eapply SS_perm_Forall; [symmetry; exact PV | auto]. }
  destruct sn.
  { unfold r_loads, r_flag, r_list. cbn [fst snd]. repeat split; auto; discriminate. }
  destruct (match pred with Some p => _ | None => _ end) as [[|]|] eqn:E5.
  - (* partition_equal *)
    destruct pred as [q|]; [|discriminate].
    destruct (nth_error v2 pivot) as [x|] eqn:En; [|discriminate].
    injection E5 as E5. apply negb_true_iff in E5.
    destruct (partition_equal_spec v2 pivot x (less_irrefl swo x) En) as (L & R & EL & Emid & HL1 & FL & FR).
    pose proof (partition_equal_perm v2 pivot) as P3.
    destruct (partition_equal less v2 pivot) as [[v3 mid] ok]. cbn [fst snd] in *. subst v3 mid.
    rewrite firstn_app_exact, skipn_app_exact.
    assert (LL : length L + length R = length v) by (rewrite <- LV, <- (Permutation_length P3), app_length; reflexivity).
    assert (F3 : Forall (fun y => less y q = false) (L ++ R)).
    { eapply SS_perm_Forall; [symmetry; exact P3 | auto]. }
    apply Forall_app in F3 as [F3L F3R].
    destruct (IH R (Some q) limit0 wb wp k) as (I1 & I2 & I3 & I4); [lia | intros ? [= <-]; exact F3R |].
    pose proof (recurse_perm f pib_ok_perm R (Some q) limit0 wb wp k) as IP.
    destruct (rec f R (Some q) limit0 wb wp k) as [[[c r] k'] tr].
    unfold r_loads, r_flag, r_list in *. cbn [fst snd] in *. repeat split; auto.
    + intros Hc. apply SS_app. rewrite Forall_forall in FL, FR, F3L. split; [|split].
      * apply sorted_all_ge. intros a b Ha Hb.
        apply (ge_trans swo b x a); auto. apply (ge_trans swo b q x); auto.
      * apply I3, Hc.
      * intros a b Ha Hb. eapply Permutation_in in Hb; [|exact IP].
        apply (ge_trans swo b x a); auto. apply less_asym; auto.
    + intros Hl. apply I4. lia.
  - (* partition *)
    assert (Hne : v2 <> []) by (intros ->; cbn in LV; lia).
    destruct (partition_spec pib v2 pivot Hpib Hne) as (L & pv & R & EL & Emid & FL & FR).
    pose proof (partition_perm pib v2 pivot pib_ok_perm) as P3.
    destruct (partition less pib v2 pivot) as [[[v3 mid] wasp] ok]. cbn [fst snd] in *. subst v3 mid.
    rewrite firstn_app_exact, skipn_app_exact.
    assert (LL : length L + S (length R) = length v)
      by (rewrite <- LV, <- (Permutation_length P3), app_length; reflexivity).
    assert (F3 : forall q, pred = Some q -> Forall (fun y => less y q = false) L).
    { intros q Hq. specialize (Hinv2 q Hq). eapply SS_perm_Forall in Hinv2; [|symmetry; exact P3].
      now apply Forall_app in Hinv2. }
    assert (F4 : forall q, Some pv = Some q -> Forall (fun y => less y q = false) R) by (intros ? [= <-]; exact FR).
    destruct (Nat.max _ _ <=? MAX_SEQUENTIAL) eqn:E7.
    + apply Nat.leb_le in E7.
      destruct (_ <? _).
      * destruct (IH L pred limit0 true true k) as (I1 & I2 & I3 & I4); [lia | exact F3 |].
        pose proof (recurse_perm f pib_ok_perm L pred limit0 true true k) as IP1.
        destruct (rec f L pred limit0 true true k) as [[[c1 l'] k1] tr1].
        destruct (IH R (Some pv) limit0 (length v / 8 <=? Nat.min (length L) (length v - length L)) wasp k1)
          as (J1 & J2 & J3 & J4); [lia | exact F4 |].
        pose proof (recurse_perm f pib_ok_perm R (Some pv) limit0
                      (length v / 8 <=? Nat.min (length L) (length v - length L)) wasp k1) as IP2.
        destruct (rec f R (Some pv) limit0 _ wasp k1) as [[[c2 r'] k2] tr2'].
        unfold r_loads, r_flag, r_list in *. cbn [fst snd] in *. repeat split.
        -- lia.
        -- intros Hc. destruct (J2 Hc) as (j & ? & ? & ?). exists j. repeat split; auto; lia.
        -- intros Hc. apply sorted_join; auto.
           ++ apply I3, I4. lia.
           ++ eapply SS_perm_Forall; [symmetry; exact IP1 | exact FL].
           ++ eapply SS_perm_Forall; [symmetry; exact IP2 | exact FR].
        -- intros _. apply J4. lia.
      * destruct (IH R (Some pv) limit0 true true k) as (I1 & I2 & I3 & I4); [lia | exact F4 |].
        pose proof (recurse_perm f pib_ok_perm R (Some pv) limit0 true true k) as IP1.
        destruct (rec f R (Some pv) limit0 true true k) as [[[c1 r'] k1] tr1].
        destruct (IH L pred limit0 (length v / 8 <=? Nat.min (length L) (length v - length L)) wasp k1)
          as (J1 & J2 & J3 & J4); [lia | exact F3 |].
        pose proof (recurse_perm f pib_ok_perm L pred limit0
                      (length v / 8 <=? Nat.min (length L) (length v - length L)) wasp k1) as IP2.
        destruct (rec f L pred limit0 _ wasp k1) as [[[c2 l'] k2] tr2'].
        unfold r_loads, r_flag, r_list in *. cbn [fst snd] in *. repeat split.
        -- lia.
        -- intros Hc. destruct (J2 Hc) as (j & ? & ? & ?). exists j. repeat split; auto; lia.
        -- intros Hc. apply sorted_join; auto.
           ++ apply I3, I4. lia.
           ++ eapply SS_perm_Forall; [symmetry; exact IP2 | exact FL].
           ++ eapply SS_perm_Forall; [symmetry; exact IP1 | exact FR].
        -- intros _. apply J4. lia.
    + apply Nat.leb_gt in E7. unfold MAX_SEQUENTIAL in *.
      destruct (oracle k) eqn:Eo.
      { unfold r_loads, r_flag, r_list. cbn [fst snd]. repeat split; auto; try discriminate; try lia.
        intros _. exists k. auto. }
      match goal with |- context [rec f L pred ?lim true true (S k)] => set (lim' := lim) end.
      destruct (IH L pred lim' true true (S k)) as (I1 & I2 & I3 & I4); [lia | exact F3 |].
      pose proof (recurse_perm f pib_ok_perm L pred lim' true true (S k)) as IP1.
      destruct (rec f L pred lim' true true (S k)) as [[[c1 l'] k1] tr1].
      destruct (IH R (Some pv) lim' true true k1) as (J1 & J2 & J3 & J4); [lia | exact F4 |].
      pose proof (recurse_perm f pib_ok_perm R (Some pv) lim' true true k1) as IP2.
      destruct (rec f R (Some pv) lim' true true k1) as [[[c2 r'] k2] tr2'].
      unfold r_loads, r_flag, r_list in *. cbn [fst snd] in *. repeat split.
      * lia.
      * intros Hc. apply orb_true_iff in Hc as [Hc|Hc].
        -- destruct (I2 Hc) as (j & ? & ? & ?). exists j. repeat split; auto; lia.
        -- destruct (J2 Hc) as (j & ? & ? & ?). exists j. repeat split; auto; lia.
      * intros Hc. apply orb_false_iff in Hc as [Hc1 Hc2]. apply sorted_join; auto.
        -- eapply SS_perm_Forall; [symmetry; exact IP1 | exact FL].
        -- eapply SS_perm_Forall; [symmetry; exact IP2 | exact FR].
      * intros. lia.
  - unfold r_loads, r_flag, r_list. cbn [fst snd]. repeat split; auto; try discriminate.
    (* v[pivot] out of range: ruled out below (choose_pivot_in_range); here the result is unsorted *)
    intros _. exfalso.
    destruct pred as [q|]; [|discriminate]. destruct (nth_error v2 pivot) eqn:En; [discriminate|].
    apply nth_error_None in En. lia.
Qed.
End RecSorted.

Section ParSorted.
Hypothesis swo : strict_weak_order less.
Hypothesis Hpib : pib_ok less pib.

Lemma par_quicksort_cancel v :
  (r_flag (par_quicksort less pib oracle v) = true -> exists k, oracle k = true) /\
  (r_flag (par_quicksort less pib oracle v) = false -> sorted (r_list (par_quicksort less pib oracle v))).
Proof.
  unfold par_quicksort. destruct (oracle 0) eqn:E0.
  - split; [intros _; eauto | discriminate].
  - destruct (recurse_spec swo Hpib (S (length v)) v None (bit_length (length v)) true true 1)
      as (_ & H2 & H3 & _); [lia | discriminate |].
    split; auto. intros H. destruct (H2 H) as (j & _ & _ & Hj). eauto.
Qed.

Lemma par_quicksort_sorted v : (forall k, oracle k = false) ->
  r_flag (par_quicksort less pib oracle v) = false /\ sorted (r_list (par_quicksort less pib oracle v)).
Proof.
  intros Ho. destruct (par_quicksort_cancel v) as [H1 H2].
  destruct (r_flag (par_quicksort less pib oracle v)) eqn:E.
  - destruct (H1 eq_refl) as [k Hk]. rewrite Ho in Hk. discriminate.
  - auto.
Qed.
End ParSorted.

Lemma par_quicksort_perm v : pib_perm pib ->
  Permutation (r_list (par_quicksort less pib oracle v)) v.
Proof.
  intros H. unfold par_quicksort. destruct (oracle 0); [reflexivity|]. now apply recurse_perm.
Qed.
End Rec.
End Facts.

(* ---- uniqueness of the sorted arrangement under a total order ----------------------------------------------------- *)
Lemma sorted_perm_unique {A} (less : A -> A -> bool) (v1 v2 : list A) :
  total_on less v1 -> sorted less v1 -> sorted less v2 -> Permutation v1 v2 -> v1 = v2.
Proof.
  revert v2. induction v1 as [|a t1 IH]; intros v2 Ht S1 S2 P.
  - apply Permutation_nil in P. now subst.
  - destruct v2 as [|b t2]; [apply Permutation_sym, Permutation_nil in P; discriminate|].
    apply StronglySorted_inv in S1 as [S1 F1]. apply StronglySorted_inv in S2 as [S2 F2].
    rewrite Forall_forall in F1, F2.
    assert (Hab : a = b).
    { assert (Ha : In a (b :: t2)) by (eapply Permutation_in; [exact P | now left]).
      assert (Hb : In b (a :: t1)) by (eapply Permutation_in; [symmetry; exact P | now left]).
      destruct Ha as [->|Ha]; auto. destruct Hb as [->|Hb]; auto.
      apply Ht; [now left | now right | |]; auto. }
    subst b. f_equal. apply IH; auto.
    + intros x y Hx Hy. apply Ht; now right.
    + eapply Permutation_cons_inv; eauto.
Qed.

Lemma par_quicksort_schedule_independent {A} (less : A -> A -> bool) pib1 pib2 oracle1 oracle2 (v : list A) :
  strict_weak_order less -> total_on less v -> pib_ok less pib1 -> pib_ok less pib2 ->
  r_flag (par_quicksort less pib1 oracle1 v) = false -> r_flag (par_quicksort less pib2 oracle2 v) = false ->
  r_list (par_quicksort less pib1 oracle1 v) = r_list (par_quicksort less pib2 oracle2 v).
Proof.
  intros Hs Ht H1 H2 F1 F2.
  pose proof (par_quicksort_perm less pib1 oracle1 v (pib_ok_perm less pib1 H1)) as P1.
  pose proof (par_quicksort_perm less pib2 oracle2 v (pib_ok_perm less pib2 H2)) as P2.
  apply (sorted_perm_unique less).
  - intros a b Ha Hb. apply Ht.
    + eapply Permutation_in; [exact P1 | exact Ha].
    + eapply Permutation_in; [exact P1 | exact Hb].
  - exact (proj2 (par_quicksort_cancel less pib1 oracle1 Hs H1 v) F1).
  - exact (proj2 (par_quicksort_cancel less pib2 oracle2 Hs H2 v) F2).
  - now rewrite P1, P2.
Qed.

(* ---- the reference partition satisfies the contract assumed of partition_in_blocks -------------------------------- *)
Lemma filter_partition_perm {A} (f : A -> bool) (l : list A) :
  Permutation (filter f l ++ filter (fun x => negb (f x)) l) l.
Proof.
  induction l as [|x t IH]; cbn; auto. destruct (f x); cbn.
  - now apply perm_skip.
  - rewrite <- Permutation_middle. now apply perm_skip.
Qed.

Lemma filter_len_le {A} (f : A -> bool) (l : list A) : length (filter f l) <= length l.
Proof. induction l as [|x t IH]; cbn; auto. destruct (f x); cbn; lia. Qed.

Lemma pib_spec_ok {A} (less : A -> A -> bool) : pib_ok less (pib_spec less).
Proof.
  intros v p. unfold pib_spec. cbn [fst snd]. repeat split.
  - apply filter_partition_perm.
  - apply filter_len_le.
  - rewrite firstn_app_exact. apply Forall_forall. intros x Hx. now apply filter_In in Hx.
  - rewrite skipn_app_exact. apply Forall_forall. intros x Hx. apply filter_In in Hx as [_ Hx].
    now apply negb_true_iff in Hx.
Qed.

(* ---- the comparator of Worker::run -------------------------------------------------------------------------------- *)
Local Open Scope N_scope.

Lemma worker_less_swo : strict_weak_order worker_less.
Proof.
  unfold strict_weak_order, worker_less, m_score, m_idx, m_len. repeat split.
  - intros [[s i] l]. cbn [fst snd]. rewrite N.eqb_refl. cbn [negb].
    destruct (i =? PLACEHOLDER); auto. rewrite N.eqb_refl. apply N.ltb_irrefl.
  - intros [[s1 i1] l1] [[s2 i2] l2] [[s3 i3] l3]. cbn [fst snd].
    destruct (N.eqb_spec s1 s2), (N.eqb_spec s2 s3), (N.eqb_spec s1 s3); cbn [negb];
      destruct (N.eqb_spec i1 PLACEHOLDER), (N.eqb_spec i2 PLACEHOLDER), (N.eqb_spec i3 PLACEHOLDER);
      destruct (N.eqb_spec l1 l2), (N.eqb_spec l2 l3), (N.eqb_spec l1 l3);
      rewrite ?N.ltb_lt; try discriminate; try lia; auto.
  - intros [[s1 i1] l1] [[s2 i2] l2] [[s3 i3] l3]. cbn [fst snd].
    destruct (N.eqb_spec s1 s2), (N.eqb_spec s2 s3), (N.eqb_spec s1 s3); cbn [negb];
      destruct (N.eqb_spec i1 PLACEHOLDER), (N.eqb_spec i2 PLACEHOLDER), (N.eqb_spec i3 PLACEHOLDER);
      destruct (N.eqb_spec l1 l2), (N.eqb_spec l2 l3), (N.eqb_spec l1 l3);
      rewrite ?N.ltb_ge; try discriminate; try lia; auto.
Qed.

(* two matches that are not placeholders and are incomparable are the same triple *)
Lemma worker_less_total m1 m2 : m_idx m1 <> PLACEHOLDER -> m_idx m2 <> PLACEHOLDER ->
  worker_less m1 m2 = false -> worker_less m2 m1 = false -> m1 = m2.
Proof.
  destruct m1 as [[s1 i1] l1], m2 as [[s2 i2] l2]. unfold worker_less, m_score, m_idx, m_len. cbn [fst snd].
  intros H1 H2. rewrite (N.eqb_sym s2 s1), (N.eqb_sym l2 l1).
  destruct (N.eqb_spec s1 s2); cbn [negb].
  - destruct (N.eqb_spec i1 PLACEHOLDER); [contradiction|]. destruct (N.eqb_spec i2 PLACEHOLDER); [contradiction|].
    destruct (N.eqb_spec l1 l2); rewrite !N.ltb_ge; intros; repeat f_equal; lia.
  - rewrite !N.ltb_ge. intros. lia.
Qed.

(* with len a function of idx, matches with distinct idx are strictly ordered one way or the other *)
Lemma worker_less_distinct (lenf : N -> N) s1 i1 s2 i2 :
  i1 <> PLACEHOLDER -> i2 <> PLACEHOLDER -> i1 <> i2 ->
  worker_less (s1, i1, lenf i1) (s2, i2, lenf i2) = true \/ worker_less (s2, i2, lenf i2) (s1, i1, lenf i1) = true.
Proof.
  intros H1 H2 Hne.
  destruct (worker_less (s1, i1, lenf i1) (s2, i2, lenf i2)) eqn:E1; auto.
  destruct (worker_less (s2, i2, lenf i2) (s1, i1, lenf i1)) eqn:E2; auto.
  pose proof (worker_less_total (s1, i1, lenf i1) (s2, i2, lenf i2) H1 H2 E1 E2) as E. congruence.
Qed.

(* placeholders (idx = u32::MAX) sort after every real match with the same score *)
Lemma worker_less_placeholder_last s i l l' : i <> PLACEHOLDER ->
  worker_less (s, i, l) (s, PLACEHOLDER, l') = true /\ worker_less (s, PLACEHOLDER, l') (s, i, l) = false.
Proof.
  intros H. unfold worker_less, m_score, m_idx, m_len. cbn [fst snd]. rewrite N.eqb_refl. cbn [negb].
  destruct (N.eqb_spec i PLACEHOLDER); [contradiction|]. now rewrite N.eqb_refl.
Qed.

