(* Proofs for property C09 over Model/BoxcarRA.v: the invariant behind race freedom, and the soundness
   of the boolean path checker used for the witness executions. *)
From Coq Require Import String List Bool Arith PeanoNat Lia.
From NV Require Import Gen.GenOrderings Model.BoxcarRA.
Import ListNotations.

Local Opaque bucket_of.

(* ---- functional update ---------------------------------------------------------------------------- *)
Lemma upd_same {A} (f : nat -> A) k x : upd f k x k = x.
Proof. unfold upd. rewrite Nat.eqb_refl. reflexivity. Qed.
Lemma upd_other {A} (f : nat -> A) k x y : y <> k -> upd f k x y = f y.
Proof. intros H. unfold upd. destruct (Nat.eqb_spec y k); [contradiction | reflexivity]. Qed.

(* ---- the part of the view order the proof needs --------------------------------------------------- *)
Definition vle (a b : view) : Prop :=
  (forall x, v_init a x = true -> v_init b x = true) /\ (forall x, v_data a x = true -> v_data b x = true).

Lemma vle_refl v : vle v v.
Proof. split; auto. Qed.
Lemma vle_trans a b c : vle a b -> vle b c -> vle a c.
Proof. intros [H1 H2] [H3 H4]. split; auto. Qed.
Lemma vle_join_l a b : vle a (vjoin a b).
Proof. split; intros x H; simpl; rewrite H; reflexivity. Qed.
Lemma vle_join_r a b : vle b (vjoin a b).
Proof. split; intros x H; simpl; rewrite H; apply orb_true_r. Qed.
Lemma vle_acq_join x v m : vle v (acq_join x v m).
Proof. unfold acq_join. destruct (is_acq x); [apply vle_join_l | apply vle_refl]. Qed.
Lemma vle_acq_join_msg x v m : is_acq x = true -> vle m (acq_join x v m).
Proof. intros H. unfold acq_join. rewrite H. apply vle_join_r. Qed.
Lemma vle_set_init v b : vle v (set_init v b).
Proof. split; intros x H; simpl; auto. unfold upd. destruct (x =? b); auto. Qed.
Lemma vle_set_data v e : vle v (set_data v e).
Proof. split; intros x H; simpl; auto. unfold upd. destruct (x =? e); auto. Qed.
Lemma vle_set_ptr v b : vle v (set_ptr v b).
Proof. split; intros x H; simpl; auto. Qed.
Lemma vle_set_act v e : vle v (set_act v e).
Proof. split; intros x H; simpl; auto. Qed.
Lemma vle_set_infl v ts : vle v (set_infl v ts).
Proof. split; intros x H; simpl; auto. Qed.
Lemma vle_init a b x : vle a b -> v_init a x = true -> v_init b x = true.
Proof. intros [H _]; auto. Qed.
Lemma vle_data a b x : vle a b -> v_data a x = true -> v_data b x = true.
Proof. intros [_ H]; auto. Qed.

(* ---- the invariant -------------------------------------------------------------------------------- *)
(* thread t owns every entry its writer context still has to publish, and none of them is published *)
Definition owns (ow : nat -> option nat) (ac : nat -> option view) (t : nat) (c : wctx) : Prop :=
  forall e, w_cur c <= e <= w_cur c + w_rem c -> ow e = Some t /\ ac e = None.

(* what thread t, whose view is v, knows at program point p *)
Definition pc_ok (ow : nat -> option nat) (ac : nat -> option view) (v : view) (t : nat) (p : pc) : Prop :=
  match p with
  | Idle => True
  | PcCas b (KEager c) => owns ow ac t c
  | PcCas b (KOwn c) => b = bucket_of (w_cur c) /\ owns ow ac t c
  | PcLoad c => owns ow ac t c
  | PcWrite c => owns ow ac t c /\ v_init v (bucket_of (w_cur c)) = true
  | PcStore c => owns ow ac t c /\ v_init v (bucket_of (w_cur c)) = true /\ v_data v (w_cur c) = true
  | PcRdPtr k i hi => k = RUnchecked -> v_init v (bucket_of i) = true /\ v_data v i = true
  | PcRdAct k i hi => v_init v (bucket_of i) = true /\ (k = RUnchecked -> v_data v i = true)
  | PcRdData k i hi => v_init v (bucket_of i) = true /\ v_data v i = true
  end.

Record inv (s : state) : Prop := mkInv {
  (* the non-null pointer message of bucket b carries b's initialisation *)
  inv_ptr : forall b m, ptr s b = Some m -> v_init (pm_view m) b = true;
  (* the active == true message of entry e carries e's non-atomic writes *)
  inv_act : forall e m, act s e = Some m -> v_data m e = true;
  (* indices not yet handed out by fetch_add are unowned and unpublished *)
  inv_fresh : forall e, nxt s <= e -> owner s e = None /\ act s e = None;
  inv_pc : forall t, pc_ok (owner s) (act s) (tv s t) t (pcs s t)
}.

Lemma owns_frame ow ac ow' ac' t c :
  (forall e, ow e = Some t -> ow' e = Some t /\ ac' e = ac e) -> owns ow ac t c -> owns ow' ac' t c.
Proof.
  intros F H e He. destruct (H e He) as [H1 H2]. destruct (F e H1) as [H3 H4]. split; [exact H3 | congruence].
Qed.

Lemma pc_ok_frame ow ac v ow' ac' v' t p :
  (forall e, ow e = Some t -> ow' e = Some t /\ ac' e = ac e) -> vle v v' ->
  pc_ok ow ac v t p -> pc_ok ow' ac' v' t p.
Proof.
  intros F L H. destruct p as [ | b [c|c] | c | c | c | k i hi | k i hi | k i hi]; simpl in *.
  - exact I.
  - eapply owns_frame; eauto.
  - destruct H as [H1 H2]. split; [exact H1 | eapply owns_frame; eauto].
  - eapply owns_frame; eauto.
  - destruct H as [H1 H2]. split; [eapply owns_frame; eauto | eapply vle_init; eauto].
  - destruct H as [H1 [H2 H3]]. split; [eapply owns_frame; eauto | split; [eapply vle_init | eapply vle_data]; eauto].
  - intros E. destruct (H E) as [H1 H2]. split; [eapply vle_init | eapply vle_data]; eauto.
  - destruct H as [H1 H2]. split; [eapply vle_init; eauto | intros E; eapply vle_data; eauto].
  - destruct H as [H1 H2]. split; [eapply vle_init | eapply vle_data]; eauto.
Qed.

Lemma pc_ok_view ow ac v v' t p : vle v v' -> pc_ok ow ac v t p -> pc_ok ow ac v' t p.
Proof. apply pc_ok_frame. intros e H; split; [exact H | reflexivity]. Qed.

(* a step of thread t that changes only t's pc and view (and possibly `written` and the race flag) *)
Lemma thr_inv s t p v wr r :
  inv s -> vle (tv s t) v -> pc_ok (owner s) (act s) v t p ->
  inv (mkS (upd (pcs s) t p) (upd (tv s) t v) (ptr s) (act s) (owner s) wr (infl_last s) (infl_old s) r).
Proof.
  intros I L P. destruct I as [I1 I2 I3 I4]. constructor; simpl; auto.
  intros t0. unfold upd. destruct (Nat.eqb_spec t0 t) as [->|N]; [exact P | apply I4].
Qed.

Lemma set_thr_inv s t p v :
  inv s -> race s = false -> vle (tv s t) v -> pc_ok (owner s) (act s) v t p ->
  inv (set_thr s t p v false) /\ race (set_thr s t p v false) = false.
Proof.
  intros I R L P. split; [apply thr_inv; auto | simpl; rewrite R; reflexivity].
Qed.

Lemma set_thr_inv_r s t p v r :
  inv s -> race s = false -> r = false -> vle (tv s t) v -> pc_ok (owner s) (act s) v t p ->
  inv (set_thr s t p v r) /\ race (set_thr s t p v r) = false.
Proof. intros I R -> L P. apply set_thr_inv; auto. Qed.

(* ---- orderings_ok, unpacked ----------------------------------------------------------------------- *)
Record oks (o : ords) : Prop := mkOks {
  ok_cas_succ : is_rel (o_cas_succ o) = true;
  ok_cas_fail : is_acq (o_cas_fail o) = true;
  ok_push_ptr : is_acq (o_push_ptr o) = true;
  ok_ext_ptr1 : is_acq (o_ext_ptr1 o) = true;
  ok_ext_ptr2 : is_acq (o_ext_ptr2 o) = true;
  ok_get_ptr : is_acq (o_get_ptr o) = true;
  ok_next_ptr : is_acq (o_next_ptr o) = true;
  ok_push_store : is_rel (o_push_store o) = true;
  ok_ext_store : is_rel (o_ext_store o) = true;
  ok_get_act : is_acq (o_get_act o) = true;
  ok_next_act : is_acq (o_next_act o) = true
}.
Lemma orderings_ok_oks o : orderings_ok o = true -> oks o.
Proof.
  unfold orderings_ok. intros H.
  repeat (apply andb_prop in H; destruct H as [H ?]). constructor; assumption.
Qed.
Lemma wload_ord_acq o c : oks o -> is_acq (wload_ord o c) = true.
Proof. intros K. unfold wload_ord. destruct (w_kind c); [apply K | destruct (w_first c); apply K]. Qed.
Lemma wstore_ord_rel o c : oks o -> is_rel (wstore_ord o c) = true.
Proof. intros K. unfold wstore_ord. destruct (w_kind c); apply K. Qed.
Lemma rptr_ord_acq o k : oks o -> k <> RUnchecked -> is_acq (rptr_ord o k) = true.
Proof. intros K N. destruct k; simpl; [apply K | contradiction | apply K]. Qed.
Lemma ract_ord_acq o k : oks o -> k <> RUnchecked -> is_acq (ract_ord o k) = true.
Proof. intros K N. destruct k; simpl; [apply K | contradiction | apply K]. Qed.

(* ---- race conditions are false under the invariant ------------------------------------------------ *)
Lemma race_a_false s t b : v_init (tv s t) b = true -> race_a s t b = false.
Proof. intros H. unfold race_a. rewrite H. reflexivity. Qed.
Lemma race_b_false s t e : v_data (tv s t) e = true -> race_b s t e = false.
Proof. intros H. unfold race_b. rewrite H. reflexivity. Qed.
Lemma race_c_false s t e : owner s e = Some t -> act s e = None -> race_c s t e = false.
Proof. intros H1 H2. unfold race_c, owner_is. rewrite H1, H2, Nat.eqb_refl. reflexivity. Qed.

Lemma idle_pc s t : idle s t = true -> pcs s t = Idle.
Proof. unfold idle. destruct (pcs s t); congruence. Qed.

Lemma next_rd_ok ow ac v t k i hi : pc_ok ow ac v t (next_rd k i hi).
Proof.
  unfold next_rd. destruct k; simpl; auto. destruct (S i <? hi); simpl; auto. intros E; discriminate.
Qed.

(* ---- preservation, label by label ----------------------------------------------------------------- *)
Lemma reserve_inv x kind eager s t n :
  inv s -> race s = false -> 1 <= n ->
  inv (reserve x kind eager s t n) /\ race (reserve x kind eager s t n) = false.
Proof.
  intros I R N. split; [ | exact R].
  destruct I as [I1 I2 I3 I4]. unfold reserve. constructor; simpl.
  - exact I1.
  - exact I2.
  - intros e He. unfold nxt in He; simpl in He. fold (nxt s) in He.
    assert (E : (nxt s <=? e) && (e <? nxt s + n) = false).
    { apply andb_false_iff. right. apply Nat.ltb_ge. exact He. }
    rewrite E. apply I3. lia.
  - intros t0. unfold upd. destruct (Nat.eqb_spec t0 t) as [->|Nt].
    + assert (O : owns (fun e => if (nxt s <=? e) && (e <? nxt s + n) then Some t else owner s e) (act s) t
                       (mkW kind true (nxt s) (n - 1))).
      { intros e He. simpl in He.
        assert (E : (nxt s <=? e) && (e <? nxt s + n) = true).
        { apply andb_true_iff. split; [apply Nat.leb_le | apply Nat.ltb_lt]; lia. }
        rewrite E. split; [reflexivity | apply I3; lia]. }
      destruct eager; simpl; exact O.
    + eapply pc_ok_frame; [ | apply vle_refl | apply I4].
      intros e He. split; [ | reflexivity].
      destruct ((nxt s <=? e) && (e <? nxt s + n)) eqn:E; [ | exact He].
      apply andb_true_iff in E. destruct E as [E _]. apply Nat.leb_le in E.
      destruct (I3 e E) as [E1 _]. congruence.
Qed.

Lemma step_cas_inv o s t s' :
  oks o -> inv s -> race s = false -> step_cas o s t = Some s' -> inv s' /\ race s' = false.
Proof.
  intros K I R H. unfold step_cas in H.
  destruct (pcs s t) as [ | b k | | | | | | ] eqn:Ep; try discriminate.
  pose proof (inv_pc s I t) as P. rewrite Ep in P.
  destruct (ptr s b) as [m|] eqn:Eb.
  - (* failure *)
    inversion H; subst s'; clear H. apply set_thr_inv; auto.
    + eapply vle_trans; [apply vle_acq_join | apply vle_set_ptr].
    + destruct k as [c|c]; cbn [pc_ok] in *.
      * exact P.
      * destruct P as [-> P]. split; [exact P | ].
        eapply vle_init with (a := pm_view m).
        { eapply vle_trans; [apply vle_acq_join_msg; apply K | apply vle_set_ptr]. }
        eapply inv_ptr; eauto.
  - (* success *)
    inversion H; subst s'; clear H. split; [ | exact R].
    destruct I as [I1 I2 I3 I4]. constructor; simpl.
    + intros b0 m. unfold upd. destruct (Nat.eqb_spec b0 b) as [->|Nb].
      * intros E. inversion E; subst m; clear E. simpl. unfold rel_view.
        rewrite (ok_cas_succ o K). simpl. apply upd_same.
      * apply I1.
    + exact I2.
    + exact I3.
    + intros t0. unfold upd. destruct (Nat.eqb_spec t0 t) as [->|Nt]; [ | apply I4].
      destruct k as [c|c]; cbn [pc_ok] in *.
      * exact P.
      * destruct P as [-> P]. split; [exact P | apply upd_same].
Qed.

Lemma step_ptr_inv o s t nn s' :
  oks o -> inv s -> race s = false -> step_ptr o s t nn = Some s' -> inv s' /\ race s' = false.
Proof.
  intros K I R H. unfold step_ptr in H.
  pose proof (inv_pc s I t) as P.
  destruct (pcs s t) as [ | | c | | | k i hi | | ] eqn:Ep; try discriminate; cbn [pc_ok] in P.
  - (* writer *)
    destruct nn.
    + destruct (ptr s (bucket_of (w_cur c))) as [m|] eqn:Eb; [ | discriminate].
      inversion H; subst s'; clear H. apply set_thr_inv; auto.
      * eapply vle_trans; [apply vle_acq_join | apply vle_set_ptr].
      * cbn [pc_ok]. split; [exact P | ].
        eapply vle_init with (a := pm_view m).
        { eapply vle_trans; [ | apply vle_set_ptr]. apply vle_acq_join_msg; apply wload_ord_acq; exact K. }
        eapply inv_ptr; eauto.
    + destruct (v_ptr (tv s t) (bucket_of (w_cur c))); [discriminate | ].
      inversion H; subst s'; clear H. apply set_thr_inv; auto using vle_refl.
      cbn [pc_ok]. split; [reflexivity | exact P].
  - (* reader *)
    destruct nn.
    + destruct (ptr s (bucket_of i)) as [m|] eqn:Eb; [ | discriminate].
      inversion H; subst s'; clear H.
      assert (L : vle (tv s t) (set_ptr (acq_join (rptr_ord o k) (tv s t) (pm_view m)) (bucket_of i))).
      { eapply vle_trans; [apply vle_acq_join | apply vle_set_ptr]. }
      apply set_thr_inv; auto.
      cbn [pc_ok].
      assert (D : k = RUnchecked \/ k <> RUnchecked) by (destruct k; auto; right; discriminate).
      destruct D as [D|D].
      * destruct (P D) as [P1 P2]. split; [eapply vle_init; eauto | intros _; eapply vle_data; eauto].
      * split; [ | intros E; contradiction].
        eapply vle_init with (a := pm_view m).
        { eapply vle_trans; [ | apply vle_set_ptr]. apply vle_acq_join_msg; apply rptr_ord_acq; assumption. }
        eapply inv_ptr; eauto.
    + destruct (v_ptr (tv s t) (bucket_of i)); [discriminate | ].
      destruct k; try discriminate; inversion H; subst s'; clear H.
      all: apply set_thr_inv; auto using vle_refl. all: first [exact Logic.I | apply (next_rd_ok _ _ _ _ RNext)].
Qed.

Lemma step_write_inv s t s' :
  inv s -> race s = false -> step_write s t = Some s' -> inv s' /\ race s' = false.
Proof.
  intros I R H. unfold step_write in H.
  pose proof (inv_pc s I t) as P.
  destruct (pcs s t) as [ | | | c | | | | ] eqn:Ep; try discriminate; cbn [pc_ok] in P.
  destruct P as [P1 P2]. inversion H; subst s'; clear H.
  destruct (P1 (w_cur c)) as [O1 O2]; [lia | ].
  split.
  - apply thr_inv; auto using vle_set_data.
    cbn [pc_ok]. split; [exact P1 | split; [exact P2 | apply upd_same]].
  - simpl. rewrite R, (race_a_false _ _ _ P2), (race_c_false _ _ _ O1 O2). reflexivity.
Qed.

Lemma step_store_inv o s t s' :
  oks o -> inv s -> race s = false -> step_store o s t = Some s' -> inv s' /\ race s' = false.
Proof.
  intros K I R H. unfold step_store in H.
  pose proof (inv_pc s I t) as P.
  destruct (pcs s t) as [ | | | | c | | | ] eqn:Ep; try discriminate; cbn [pc_ok] in P.
  destruct P as [P1 [P2 P3]]. inversion H; subst s'; clear H.
  destruct (P1 (w_cur c)) as [O1 O2]; [lia | ].
  split; [ | simpl; rewrite R, (race_a_false _ _ _ P2); reflexivity].
  destruct I as [I1 I2 I3 I4]. constructor; simpl.
  - exact I1.
  - intros e m. unfold upd. destruct (Nat.eqb_spec e (w_cur c)) as [->|Ne]; [ | apply I2].
    intros E. inversion E; subst m; clear E. unfold rel_view. rewrite (wstore_ord_rel o c K). exact P3.
  - intros e He. destruct (I3 e He) as [F1 F2]. split; [exact F1 | ].
    unfold upd. destruct (Nat.eqb_spec e (w_cur c)) as [->|Ne]; [congruence | exact F2].
  - intros t0. destruct (Nat.eq_dec t0 t) as [->|Nt];
      [rewrite !upd_same | rewrite !(upd_other _ t _ t0) by exact Nt].
    + unfold next_w. destruct (w_rem c) as [|r] eqn:Er; [exact Logic.I | ].
      assert (O : owns (owner s) (upd (act s) (w_cur c) (Some (rel_view (wstore_ord o c) (set_act (tv s t) (w_cur c))))) t
                       (mkW (w_kind c) false (S (w_cur c)) r)).
      { intros e He. simpl in He. destruct (P1 e) as [Q1 Q2]; [lia | ]. split; [exact Q1 | ].
        rewrite upd_other; [exact Q2 | lia]. }
      destruct (Nat.eqb_spec (bucket_of (S (w_cur c))) (bucket_of (w_cur c))) as [Eb|Eb]; cbn [pc_ok].
      * split; [exact O | ]. simpl. rewrite Eb. exact P2.
      * exact O.
    + eapply pc_ok_frame; [ | apply vle_refl | apply I4].
      intros e He. split; [exact He | ]. apply upd_other. intros ->. congruence.
Qed.

Lemma step_stop_inv s t s' :
  inv s -> race s = false -> step_stop s t = Some s' -> inv s' /\ race s' = false.
Proof.
  intros I R H. unfold step_stop in H.
  destruct (pcs s t) as [ | | c | c | | | | ]; try discriminate;
    destruct (w_kind c); try discriminate; try (destruct (w_first c); try discriminate);
    inversion H; subst s'; (apply set_thr_inv; auto using vle_refl; exact Logic.I).
Qed.

Lemma step_act_inv o s t b s' :
  oks o -> inv s -> race s = false -> step_act o s t b = Some s' -> inv s' /\ race s' = false.
Proof.
  intros K I R H. unfold step_act in H.
  pose proof (inv_pc s I t) as P.
  destruct (pcs s t) as [ | | | | | | k i hi | ] eqn:Ep; try discriminate; cbn [pc_ok] in P.
  destruct P as [P1 P2].
  assert (D : k = RUnchecked \/ k <> RUnchecked) by (destruct k; auto; right; discriminate).
  destruct b.
  - destruct (act s i) as [m|] eqn:Ea; [ | discriminate].
    inversion H; subst s'; clear H.
    assert (L : vle (tv s t) (set_act (acq_join (ract_ord o k) (tv s t) m) i)).
    { eapply vle_trans; [apply vle_acq_join | apply vle_set_act]. }
    apply set_thr_inv_r; auto using race_a_false.
    cbn [pc_ok]. split; [eapply vle_init; eauto | ].
    destruct D as [D|D].
    + eapply vle_data; eauto.
    + eapply vle_data with (a := m).
      { eapply vle_trans; [ | apply vle_set_act]. apply vle_acq_join_msg; apply ract_ord_acq; assumption. }
      eapply inv_act; eauto.
  - destruct (v_act (tv s t) i); [discriminate | ].
    inversion H; subst s'; clear H.
    apply set_thr_inv_r; auto using race_a_false, vle_refl.
    destruct k; first [exact Logic.I | apply (next_rd_ok _ _ _ _ RNext) | idtac].
    cbn [pc_ok]. split; [exact P1 | apply P2; reflexivity].
Qed.

Lemma step_read_inv s t s' :
  inv s -> race s = false -> step_read s t = Some s' -> inv s' /\ race s' = false.
Proof.
  intros I R H. unfold step_read in H.
  pose proof (inv_pc s I t) as P.
  destruct (pcs s t) as [ | | | | | | | k i hi] eqn:Ep; try discriminate; cbn [pc_ok] in P.
  destruct P as [P1 P2]. inversion H; subst s'; clear H.
  apply set_thr_inv_r; auto using vle_refl.
  - rewrite (race_a_false _ _ _ P1), (race_b_false _ _ _ P2). reflexivity.
  - apply next_rd_ok.
Qed.

Lemma step_infl_inv o s t w k s' :
  inv s -> race s = false -> step_infl o s t w k = Some s' -> inv s' /\ race s' = false.
Proof.
  intros I R H. unfold step_infl in H.
  destruct (pcs s t); try discriminate.
  destruct (infl_msg s k) as [m|]; [ | discriminate].
  destruct (v_infl (tv s t) <=? length (infl_old s) - k); [ | discriminate].
  inversion H; subst s'; clear H. apply set_thr_inv; auto.
  - eapply vle_trans; [apply vle_acq_join | apply vle_set_infl].
  - exact Logic.I.
Qed.

Lemma step_inv o s l s' :
  oks o -> inv s -> race s = false -> step o s l = Some s' -> inv s' /\ race s' = false.
Proof.
  intros K I R H. destruct l as [t | t n | t | t nn | t | t | t | t i | t i | t lo hi | t b | t | t w k | t1 t2];
    cbn [step] in H.
  - destruct (idle s t); [ | discriminate]. inversion H; subst s'. apply reserve_inv; auto.
  - destruct (idle s t && (1 <=? n)) eqn:E; [ | discriminate]. apply andb_true_iff in E. destruct E as [_ E].
    apply Nat.leb_le in E. inversion H; subst s'. apply reserve_inv; auto.
  - eapply step_cas_inv; eauto.
  - eapply step_ptr_inv; eauto.
  - eapply step_write_inv; eauto.
  - eapply step_store_inv; eauto.
  - eapply step_stop_inv; eauto.
  - destruct (idle s t); [ | discriminate]. inversion H; subst s'.
    apply set_thr_inv; auto using vle_refl. cbn [pc_ok]. intros E; discriminate.
  - destruct (idle s t && v_ptr (tv s t) (bucket_of i) && v_init (tv s t) (bucket_of i) && v_data (tv s t) i) eqn:E;
      [ | discriminate].
    apply andb_true_iff in E. destruct E as [E E3]. apply andb_true_iff in E. destruct E as [E E2].
    inversion H; subst s'. apply set_thr_inv; auto using vle_refl. cbn [pc_ok]. intros _. split; assumption.
  - destruct (idle s t && (lo <? hi)); [ | discriminate]. inversion H; subst s'.
    apply set_thr_inv; auto using vle_refl. cbn [pc_ok]. intros E; discriminate.
  - eapply step_act_inv; eauto.
  - eapply step_read_inv; eauto.
  - eapply step_infl_inv; eauto.
  - destruct (idle s t1 && idle s t2); [ | discriminate]. inversion H; subst s'.
    apply set_thr_inv; auto using vle_join_l. exact Logic.I.
Qed.

Lemma init_inv n : inv (init n).
Proof.
  constructor; simpl.
  - intros b m. destruct (b <=? n) eqn:E; [ | discriminate]. intros H. inversion H; subst m. simpl. exact E.
  - intros e m H. discriminate.
  - intros e _. split; reflexivity.
  - intros t. exact Logic.I.
Qed.

Theorem reachable_inv o : orderings_ok o = true -> forall s, reachable o s -> inv s /\ race s = false.
Proof.
  intros Hok s H. apply orderings_ok_oks in Hok. induction H as [n | s l s' H IH Hs].
  - split; [apply init_inv | reflexivity].
  - destruct IH as [I R]. eapply step_inv; eauto.
Qed.

Theorem race_free o : orderings_ok o = true -> forall s, reachable o s -> race s = false.
Proof. intros Hok s H. apply (reachable_inv o Hok s H). Qed.

(* ---- the path checker is sound -------------------------------------------------------------------- *)
Lemma run_reachable o ls : forall s s', reachable o s -> run o s ls = Some s' -> reachable o s'.
Proof.
  induction ls as [|l ls IH]; intros s s' Hr H; simpl in H.
  - inversion H; subst; exact Hr.
  - destruct (step o s l) as [s1|] eqn:E; [ | discriminate].
    apply (IH s1 s'); [eapply reach_step; eauto | exact H].
Qed.

Lemma races_sound o n ls : races o n ls = true -> exists s, reachable o s /\ race s = true.
Proof.
  unfold races. destruct (run o (init n) ls) as [s|] eqn:E; [ | discriminate].
  intros H. exists s. split; [ | exact H]. eapply run_reachable; [apply reach_init | exact E].
Qed.

Lemma runs_clean_sound o n ls : runs_clean o n ls = true -> exists s, run o (init n) ls = Some s /\ race s = false.
Proof.
  unfold runs_clean. destruct (run o (init n) ls) as [s|]; [ | discriminate].
  intros H. exists s. split; [reflexivity | ]. destruct (race s); [discriminate | reflexivity].
Qed.

Lemma races_run o n ls :
  races o n ls = true -> exists s, run o (init n) ls = Some s /\ reachable o s /\ race s = true.
Proof.
  unfold races. destruct (run o (init n) ls) as [s|] eqn:E; [ | discriminate].
  intros H. exists s. split; [reflexivity | ]. split; [ | exact H].
  eapply run_reachable; [apply reach_init | exact E].
Qed.

(* ---- views are truthful (independent of the orderings) -------------------------------------------- *)
(* a view claims to happen-after only events that took place: this is what makes "no race" mean "the reader
   reads initialised data", and guards the model against views that would be too generous *)
Definition truthful (s : state) (v : view) : Prop :=
  (forall b, v_init v b = true -> ptr s b <> None) /\
  (forall e, v_data v e = true -> written s e = true) /\
  (forall b, v_ptr v b = true -> ptr s b <> None) /\
  (forall e, v_act v e = true -> act s e <> None) /\
  v_infl v <= length (infl_old s).

Record tinv (s : state) : Prop := mkTinv {
  t_thr : forall t, truthful s (tv s t);
  t_ptr : forall b m, ptr s b = Some m -> truthful s (pm_view m);
  t_act : forall e m, act s e = Some m -> truthful s m;
  t_last : truthful s (snd (infl_last s));
  t_old : forall m, In m (infl_old s) -> truthful s (snd m)
}.

(* the state only grows *)
Definition ext (s s' : state) : Prop :=
  (forall b, ptr s b <> None -> ptr s' b <> None) /\
  (forall e, written s e = true -> written s' e = true) /\
  (forall e, act s e <> None -> act s' e <> None) /\
  length (infl_old s) <= length (infl_old s').

Lemma truthful_ext s s' v : ext s s' -> truthful s v -> truthful s' v.
Proof.
  intros [E1 [E2 [E3 E4]]] [T1 [T2 [T3 [T4 T5]]]]. repeat split; intros; auto. lia.
Qed.
Lemma truthful_bot s : truthful s vbot.
Proof. repeat split; simpl; intros; try discriminate. lia. Qed.
Lemma truthful_join s a b : truthful s a -> truthful s b -> truthful s (vjoin a b).
Proof.
  intros [A1 [A2 [A3 [A4 A5]]]] [B1 [B2 [B3 [B4 B5]]]]. repeat split; simpl;
    try (intros x H; apply orb_true_iff in H; destruct H; auto; fail).
  apply Nat.max_lub; assumption.
Qed.
Lemma truthful_acq_join s x v m : truthful s v -> truthful s m -> truthful s (acq_join x v m).
Proof. intros. unfold acq_join. destruct (is_acq x); auto using truthful_join. Qed.
Lemma truthful_rel_view s x v : truthful s v -> truthful s (rel_view x v).
Proof. intros. unfold rel_view. destruct (is_rel x); auto using truthful_bot. Qed.
Lemma truthful_set_init s v b : ptr s b <> None -> truthful s v -> truthful s (set_init v b).
Proof.
  intros P [A1 [A2 [A3 [A4 A5]]]]. repeat split; simpl; auto.
  intros x. unfold upd. destruct (Nat.eqb_spec x b) as [->|]; auto.
Qed.
Lemma truthful_set_ptr s v b : ptr s b <> None -> truthful s v -> truthful s (set_ptr v b).
Proof.
  intros P [A1 [A2 [A3 [A4 A5]]]]. repeat split; simpl; auto.
  intros x. unfold upd. destruct (Nat.eqb_spec x b) as [->|]; auto.
Qed.
Lemma truthful_set_data s v e : written s e = true -> truthful s v -> truthful s (set_data v e).
Proof.
  intros P [A1 [A2 [A3 [A4 A5]]]]. repeat split; simpl; auto.
  intros x. unfold upd. destruct (Nat.eqb_spec x e) as [->|]; auto.
Qed.
Lemma truthful_set_act s v e : act s e <> None -> truthful s v -> truthful s (set_act v e).
Proof.
  intros P [A1 [A2 [A3 [A4 A5]]]]. repeat split; simpl; auto.
  intros x. unfold upd. destruct (Nat.eqb_spec x e) as [->|]; auto.
Qed.
Lemma truthful_set_infl s v ts : ts <= length (infl_old s) -> truthful s v -> truthful s (set_infl v ts).
Proof.
  intros P [A1 [A2 [A3 [A4 A5]]]]. repeat split; simpl; auto. apply Nat.max_lub; assumption.
Qed.

Lemma tinv_gen s s' t v :
  tinv s -> ext s s' ->
  (forall t0, tv s' t0 = upd (tv s) t v t0) -> truthful s' v ->
  (forall b m, ptr s' b = Some m -> ptr s b = Some m \/ truthful s' (pm_view m)) ->
  (forall e m, act s' e = Some m -> act s e = Some m \/ truthful s' m) ->
  (infl_last s' = infl_last s /\ infl_old s' = infl_old s \/
   infl_old s' = infl_last s :: infl_old s /\ truthful s' (snd (infl_last s'))) ->
  tinv s'.
Proof.
  intros [T1 T2 T3 T4 T5] E Hv Tv Hp Ha Hi. constructor.
  - intros t0. rewrite Hv. unfold upd. destruct (t0 =? t); [exact Tv | eapply truthful_ext; eauto].
  - intros b m H. destruct (Hp b m H) as [H1|H1]; [eapply truthful_ext; eauto | exact H1].
  - intros e m H. destruct (Ha e m H) as [H1|H1]; [eapply truthful_ext; eauto | exact H1].
  - destruct Hi as [[H1 H2]|[H1 H2]]; [rewrite H1; eapply truthful_ext; eauto | exact H2].
  - intros m Hm. destruct Hi as [[H1 H2]|[H1 H2]].
    + rewrite H2 in Hm. eapply truthful_ext; eauto.
    + rewrite H1 in Hm. destruct Hm as [<-|Hm]; eapply truthful_ext; eauto.
Qed.

(* steps that change only the acting thread's pc, view, `written` (growing) and the race flag *)
Lemma tinv_thr s t p v wr r :
  tinv s -> (forall e, written s e = true -> wr e = true) ->
  truthful (mkS (upd (pcs s) t p) (upd (tv s) t v) (ptr s) (act s) (owner s) wr (infl_last s) (infl_old s) r) v ->
  tinv (mkS (upd (pcs s) t p) (upd (tv s) t v) (ptr s) (act s) (owner s) wr (infl_last s) (infl_old s) r).
Proof.
  intros T W Tv. eapply tinv_gen with (t := t) (v := v); eauto.
  repeat split; simpl; auto.
Qed.

Lemma tinv_set_thr s t p v r : tinv s -> truthful s v -> tinv (set_thr s t p v r).
Proof.
  intros T Tv. unfold set_thr. apply tinv_thr; auto.
Qed.

Lemma some_neq_none {A} (x : option A) a : x = Some a -> x <> None.
Proof. congruence. Qed.

Lemma step_tinv o s l s' : tinv s -> step o s l = Some s' -> tinv s'.
Proof.
  intros T H. pose proof T as [T1 T2 T3 T4 T5].
  assert (RS : forall x kind eager t n, tinv (reserve x kind eager s t n)).
  { intros x kind eager t n. unfold reserve.
    match goal with |- tinv ?S' => set (s1 := S') end.
    assert (E : ext s s1) by (repeat split; simpl; auto).
    assert (Tv : truthful s1 (set_infl (acq_join x (tv s t) (snd (infl_last s))) (S (length (infl_old s))))).
    { apply truthful_set_infl; [simpl; lia | ].
      apply truthful_acq_join; eapply truthful_ext; eauto. }
    apply (tinv_gen s s1 t _ T E (fun t0 => eq_refl) Tv).
    - intros b m Hm. left. exact Hm.
    - intros e m Hm. left. exact Hm.
    - right. split; [reflexivity | ]. simpl.
      apply truthful_join; [eapply truthful_ext; eauto | apply truthful_rel_view; exact Tv]. }
  destruct l as [t | t n | t | t nn | t | t | t | t i | t i | t lo hi | t b | t | t w k | t1 t2]; cbn [step] in H.
  - destruct (idle s t); [ | discriminate]. inversion H; subst s'. apply RS.
  - destruct (idle s t && (1 <=? n)); [ | discriminate]. inversion H; subst s'. apply RS.
  - (* cas *)
    unfold step_cas in H. destruct (pcs s t) as [ | b k | | | | | | ]; try discriminate.
    destruct (ptr s b) as [m|] eqn:Eb; inversion H; subst s'; clear H.
    + apply tinv_set_thr; auto.
      apply truthful_set_ptr; [congruence | ]. apply truthful_acq_join; eauto.
    + match goal with |- tinv ?S' => set (s1 := S') end.
      assert (E : ext s s1).
      { repeat split; simpl; auto. intros b0 Hb. unfold upd. destruct (b0 =? b); [discriminate | exact Hb]. }
      assert (Pb : ptr s1 b <> None) by (simpl; rewrite upd_same; discriminate).
      assert (Tv : truthful s1 (set_ptr (set_init (tv s t) b) b)).
      { apply truthful_set_ptr; auto. apply truthful_set_init; auto. eapply truthful_ext; eauto. }
      apply (tinv_gen s s1 t _ T E (fun t0 => eq_refl) Tv).
      * intros b0 m. simpl. unfold upd. destruct (b0 =? b); [ | auto].
        intros Hm. inversion Hm; subst m. right. simpl. apply truthful_rel_view. exact Tv.
      * intros e m Hm. left. exact Hm.
      * left. split; reflexivity.
  - (* ptr *)
    unfold step_ptr in H. destruct (pcs s t) as [ | | c | | | k i hi | | ]; try discriminate.
    + destruct nn.
      * destruct (ptr s (bucket_of (w_cur c))) as [m|] eqn:Eb; [ | discriminate]. inversion H; subst s'.
        apply tinv_set_thr; auto. apply truthful_set_ptr; [congruence | ]. apply truthful_acq_join; eauto.
      * destruct (v_ptr (tv s t) (bucket_of (w_cur c))); [discriminate | ]. inversion H; subst s'.
        apply tinv_set_thr; auto.
    + destruct nn.
      * destruct (ptr s (bucket_of i)) as [m|] eqn:Eb; [ | discriminate]. inversion H; subst s'.
        apply tinv_set_thr; auto. apply truthful_set_ptr; [congruence | ]. apply truthful_acq_join; eauto.
      * destruct (v_ptr (tv s t) (bucket_of i)); [discriminate | ].
        destruct k; try discriminate; inversion H; subst s'; apply tinv_set_thr; auto.
  - (* write *)
    unfold step_write in H. destruct (pcs s t) as [ | | | c | | | | ]; try discriminate.
    inversion H; subst s'; clear H. apply tinv_thr; auto.
    + intros e He. unfold upd. destruct (e =? w_cur c); auto.
    + apply truthful_set_data; [simpl; apply upd_same | ].
      eapply truthful_ext; [ | apply T1]. repeat split; simpl; auto.
      intros e He. unfold upd. destruct (e =? w_cur c); auto.
  - (* store *)
    unfold step_store in H. destruct (pcs s t) as [ | | | | c | | | ]; try discriminate.
    inversion H; subst s'; clear H.
    match goal with |- tinv ?S' => set (s1 := S') end.
    assert (E : ext s s1).
    { repeat split; simpl; auto. intros e He. unfold upd. destruct (e =? w_cur c); [discriminate | exact He]. }
    assert (Tv : truthful s1 (set_act (tv s t) (w_cur c))).
    { apply truthful_set_act; [simpl; rewrite upd_same; discriminate | eapply truthful_ext; eauto]. }
    apply (tinv_gen s s1 t _ T E (fun t0 => eq_refl) Tv).
    + intros b m Hm. left. exact Hm.
    + intros e m. simpl. unfold upd. destruct (e =? w_cur c); [ | auto].
      intros Hm. inversion Hm; subst m. right. apply truthful_rel_view. exact Tv.
    + left. split; reflexivity.
  - (* stop *)
    unfold step_stop in H.
    destruct (pcs s t) as [ | | c | c | | | | ]; try discriminate;
      destruct (w_kind c); try discriminate; try (destruct (w_first c); try discriminate);
      inversion H; subst s'; apply tinv_set_thr; auto.
  - destruct (idle s t); [ | discriminate]. inversion H; subst s'. apply tinv_set_thr; auto.
  - destruct (idle s t && v_ptr (tv s t) (bucket_of i) && v_init (tv s t) (bucket_of i) && v_data (tv s t) i);
      [ | discriminate]. inversion H; subst s'. apply tinv_set_thr; auto.
  - destruct (idle s t && (lo <? hi)); [ | discriminate]. inversion H; subst s'. apply tinv_set_thr; auto.
  - (* act *)
    unfold step_act in H. destruct (pcs s t) as [ | | | | | | k i hi | ]; try discriminate.
    destruct b.
    + destruct (act s i) as [m|] eqn:Ea; [ | discriminate]. inversion H; subst s'.
      apply tinv_set_thr; auto. apply truthful_set_act; [congruence | ]. apply truthful_acq_join; eauto.
    + destruct (v_act (tv s t) i); [discriminate | ]. inversion H; subst s'. apply tinv_set_thr; auto.
  - unfold step_read in H. destruct (pcs s t); try discriminate. inversion H; subst s'. apply tinv_set_thr; auto.
  - (* inflight load *)
    unfold step_infl in H. destruct (pcs s t); try discriminate.
    destruct (infl_msg s k) as [m|] eqn:Em; [ | discriminate].
    destruct (v_infl (tv s t) <=? length (infl_old s) - k); [ | discriminate].
    inversion H; subst s'. apply tinv_set_thr; auto.
    apply truthful_set_infl; [lia | ]. apply truthful_acq_join; auto.
    destruct k as [|j]; simpl in Em.
    + inversion Em; subst m. exact T4.
    + apply T5. eapply nth_error_In; eauto.
  - destruct (idle s t1 && idle s t2); [ | discriminate]. inversion H; subst s'.
    apply tinv_set_thr; auto. apply truthful_join; auto.
Qed.

Lemma init_tinv n : tinv (init n).
Proof.
  assert (V : truthful (init n) (init_view n)).
  { repeat split; simpl; try (intros x H; try discriminate; rewrite H; discriminate). lia. }
  constructor; simpl; auto using truthful_bot.
  - intros b m. destruct (b <=? n); [ | discriminate]. intros H. inversion H; subst m. exact V.
  - intros e m H. discriminate.
  - intros m [].
Qed.

Theorem reachable_tinv o s : reachable o s -> tinv s.
Proof.
  induction 1 as [n | s l s' H IH Hs]; [apply init_tinv | eapply step_tinv; eauto].
Qed.

(* under orderings_ok, a reader about to execute Entry::read reads an entry whose writes have been performed,
   from a bucket that has been published *)
Theorem reads_initialised o :
  orderings_ok o = true -> forall s t k i hi, reachable o s -> pcs s t = PcRdData k i hi ->
  written s i = true /\ ptr s (bucket_of i) <> None /\ v_data (tv s t) i = true /\ v_init (tv s t) (bucket_of i) = true.
Proof.
  intros Hok s t k i hi R E.
  destruct (reachable_inv o Hok s R) as [I _]. pose proof (reachable_tinv o s R) as T.
  pose proof (inv_pc s I t) as P. rewrite E in P. cbn [pc_ok] in P. destruct P as [P1 P2].
  destruct (t_thr s T t) as [A1 [A2 _]]. auto.
Qed.
