(* Proofs of the C08 statements of Spec/BoxcarStatements.v over Model/Boxcar.v. *)
From Coq Require Import ZArith NArith List Bool Lia ZifyBool ZifyN ZifyNat.
From NV Require Import Model.Boxcar Spec.BoxcarStatements.
Import ListNotations.
Local Open Scope N_scope.

(* ================================================================================================== *)
(* 1. Location::of                                                                                      *)
(* ================================================================================================== *)

Lemma lxor_top_bit x k : 2 ^ k <= x -> x < 2 ^ (k + 1) -> N.lxor x (2 ^ k) = x - 2 ^ k.
Proof.
  intros Hlo Hhi.
  assert (Hr : x - 2 ^ k < 2 ^ k) by (rewrite N.add_1_r, N.pow_succ_r' in Hhi; lia).
  set (r := x - 2 ^ k) in *.
  assert (Hx : x = r + 2 ^ k) by (unfold r; lia).
  assert (Hland : N.land r (2 ^ k) = 0).
  { apply N.bits_inj. intros n. rewrite N.land_spec, N.bits_0, N.pow2_bits_eqb.
    destruct (N.eqb_spec k n) as [<-|Hne]; [|apply andb_false_r].
    rewrite andb_true_r. rewrite <- (N.mod_small r (2 ^ k)) by exact Hr.
    apply N.mod_pow2_bits_high. lia. }
  rewrite Hx at 1. rewrite (N.add_nocarry_lxor _ _ Hland).
  rewrite N.lxor_assoc, N.lxor_nilpotent, N.lxor_0_r. reflexivity.
Qed.

Lemma l_len_of i : l_len (location_of i) = bucket_len (l_bucket (location_of i)).
Proof. reflexivity. Qed.
Lemma l_entry_of i : l_entry (location_of i) = N.lxor (i + SKIP) (l_len (location_of i)).
Proof. reflexivity. Qed.
Lemma l_bucket_of i : l_bucket (location_of i) = N.log2 (i + SKIP) + 1 - (SKIP_BUCKET + 1).
Proof. reflexivity. Qed.
Lemma pow2_32 : 2 ^ 32 = 4294967296.
Proof. reflexivity. Qed.
Lemma log2_32 : N.log2 32 = 5.
Proof. reflexivity. Qed.

Lemma index_ok_le i : index_ok i = true -> i <= 4294967263.
Proof. unfold index_ok, MAX_ENTRIES. intros H. lia. Qed.

Lemma location_facts i : index_ok i = true ->
  exists k, 5 <= k /\ k <= 31 /\ 2 ^ k <= i + SKIP /\ i + SKIP < 2 ^ (k + 1) /\
  l_bucket (location_of i) = k - 5 /\ l_len (location_of i) = 2 ^ k /\
  l_entry (location_of i) = i + SKIP - 2 ^ k.
Proof.
  intros Hok. apply index_ok_le in Hok.
  assert (Hx1 : 32 <= i + SKIP) by (unfold SKIP; lia).
  assert (Hx2 : i + SKIP < 2 ^ 32) by (rewrite pow2_32; unfold SKIP; lia).
  remember (N.log2 (i + SKIP)) as k eqn:Ek.
  assert (Hk5 : 5 <= k).
  { rewrite <- log2_32, Ek. apply N.log2_le_mono. exact Hx1. }
  assert (Hk31 : k < 32) by (rewrite Ek; apply N.log2_lt_pow2; lia).
  destruct (N.log2_spec (i + SKIP)) as [Hlo Hhi]; [lia|]. rewrite <- Ek in Hlo, Hhi.
  rewrite <- N.add_1_r in Hhi.
  assert (Hb : l_bucket (location_of i) = k - 5).
  { rewrite l_bucket_of, <- Ek. unfold SKIP_BUCKET. lia. }
  assert (Hl : l_len (location_of i) = 2 ^ k).
  { rewrite l_len_of, Hb. unfold bucket_len, SKIP_BUCKET. rewrite N.shiftl_1_l. f_equal. lia. }
  exists k. split; [exact Hk5|]. split; [lia|]. split; [exact Hlo|]. split; [exact Hhi|].
  split; [exact Hb|]. split; [exact Hl|].
  rewrite l_entry_of, Hl. apply lxor_top_bit; assumption.
Qed.

Lemma C08_location : C08_location_stmt.
Proof.
  intros i Hok l. destruct (location_facts i Hok) as (k & H5 & H31 & Hlo & Hhi & Hb & Hl & He).
  subst l. rewrite He, Hl. split; [rewrite Hb; unfold BUCKETS; lia|].
  split; [rewrite <- Hl; reflexivity|].
  rewrite N.add_1_r, N.pow_succ_r' in Hhi. split; lia.
Qed.

Lemma C08_location_inj : C08_location_inj_stmt.
Proof.
  intros i j Hi Hj Hb He.
  destruct (C08_location i Hi) as (_ & Hli & _ & Hsi).
  destruct (C08_location j Hj) as (_ & Hlj & _ & Hsj).
  rewrite Hli, He, Hb, <- Hlj, <- Hsj in Hsi. lia.
Qed.

(* ================================================================================================== *)
(* 2. association lists                                                                                 *)
(* ================================================================================================== *)

Lemma lookup_update {A} k k' (v : A) l :
  lookup k (update k' v l) = if k' =? k then Some v else lookup k l.
Proof.
  induction l as [|[k0 v0] l IH]; cbn [update lookup].
  - reflexivity.
  - destruct (N.eqb_spec k0 k') as [->|Hne]; cbn [lookup].
    + destruct (N.eqb_spec k' k); reflexivity.
    + rewrite IH. destruct (N.eqb_spec k0 k) as [->|]; [|reflexivity].
      destruct (N.eqb_spec k' k); [congruence|reflexivity].
Qed.

Lemma In_update {A} k (v : A) l x : In x (update k v l) -> x = (k, v) \/ In x l.
Proof.
  induction l as [|[k0 v0] l IH]; cbn [update].
  - intros [H|[]]; left; congruence.
  - destruct (N.eqb_spec k0 k) as [->|Hne]; intros [H|H].
    + left; congruence.
    + right; right; exact H.
    + right; left; exact H.
    + destruct (IH H) as [H1|H1]; [left; exact H1|right; right; exact H1].
Qed.

Lemma update_keys {A} k (v : A) l x : In x (map fst (update k v l)) -> x = k \/ In x (map fst l).
Proof.
  intros H. apply in_map_iff in H. destruct H as ([k1 v1] & <- & Hin).
  apply In_update in Hin. destruct Hin as [Heq|Hin].
  - left. injection Heq as -> _. reflexivity.
  - right. apply in_map_iff. exists (k1, v1). split; [reflexivity|exact Hin].
Qed.

Lemma NoDup_update {A} k (v : A) l : NoDup (map fst l) -> NoDup (map fst (update k v l)).
Proof.
  induction l as [|[k0 v0] l IH]; cbn [update map fst]; intros H.
  - constructor; [intros []|constructor].
  - inversion H as [|x xs Hnin Hnd]; subst.
    destruct (N.eqb_spec k0 k) as [->|Hne]; cbn [map fst].
    + constructor; assumption.
    + constructor; [|apply IH; exact Hnd].
      intros Hin. apply update_keys in Hin. destruct Hin as [->|Hin]; [congruence|contradiction].
Qed.

Lemma lookup_In {A} k (v : A) l : lookup k l = Some v -> In (k, v) l.
Proof.
  induction l as [|[k0 v0] l IH]; cbn [lookup]; [discriminate|].
  destruct (N.eqb_spec k0 k) as [->|Hne]; intros H.
  - injection H as ->. left; reflexivity.
  - right; apply IH; exact H.
Qed.

Lemma In_lookup {A} k (v : A) l : NoDup (map fst l) -> In (k, v) l -> lookup k l = Some v.
Proof.
  induction l as [|[k0 v0] l IH]; cbn [lookup map fst]; intros Hnd Hin; [destruct Hin|].
  inversion Hnd as [|x xs Hnin Hnd']; subst.
  destruct Hin as [Heq|Hin].
  - injection Heq as -> ->. rewrite N.eqb_refl. reflexivity.
  - destruct (N.eqb_spec k0 k) as [->|Hne]; [|apply IH; assumption].
    exfalso. apply Hnin. apply in_map_iff. exists (k, v). split; [reflexivity|exact Hin].
Qed.

Lemma update_same {A} k (v : A) l : lookup k l = Some v -> update k v l = l.
Proof.
  induction l as [|[k0 v0] l IH]; cbn [lookup update]; [discriminate|].
  destruct (N.eqb_spec k0 k) as [->|Hne]; intros H.
  - injection H as ->. reflexivity.
  - rewrite IH by exact H. reflexivity.
Qed.

Definition upd_opt (w : option (N * entry)) (l : list (N * entry)) : list (N * entry) :=
  match w with None => l | Some (i, e) => update i e l end.

Lemma lookup_upd_opt w l i :
  lookup i (upd_opt w l) =
  match w with Some (j, e) => if j =? i then Some e else lookup i l | None => lookup i l end.
Proof. destruct w as [[j e]|]; cbn [upd_opt]; [apply lookup_update|reflexivity]. Qed.

Lemma In_upd_opt w l x : In x (upd_opt w l) -> w = Some x \/ In x l.
Proof.
  destruct w as [[j e]|]; cbn [upd_opt]; intros H; [|right; exact H].
  apply In_update in H. destruct H as [->|H]; [left; reflexivity|right; exact H].
Qed.

(* ================================================================================================== *)
(* 3. state components                                                                                  *)
(* ================================================================================================== *)

Lemma is_alloc_eq s s' b : allocated s' = allocated s -> is_alloc s' b = is_alloc s b.
Proof. unfold is_alloc. intros ->. reflexivity. Qed.

Lemma set_alloc_inflight s b : inflight (set_alloc s b) = inflight s.
Proof. unfold set_alloc. destruct (is_alloc s b); reflexivity. Qed.
Lemma set_alloc_ents s b : ents (set_alloc s b) = ents s.
Proof. unfold set_alloc. destruct (is_alloc s b); reflexivity. Qed.
Lemma set_alloc_threads s b : threads (set_alloc s b) = threads s.
Proof. unfold set_alloc. destruct (is_alloc s b); reflexivity. Qed.
Lemma set_alloc_mono s b b' : is_alloc s b' = true -> is_alloc (set_alloc s b) b' = true.
Proof.
  unfold set_alloc. destruct (is_alloc s b) eqn:E; [auto|].
  unfold is_alloc. cbn [allocated existsb]. intros ->. apply orb_true_r.
Qed.
Lemma set_alloc_same s b : is_alloc (set_alloc s b) b = true.
Proof.
  unfold set_alloc. destruct (is_alloc s b) eqn:E; [exact E|].
  unfold is_alloc. cbn [allocated existsb]. rewrite N.eqb_refl. reflexivity.
Qed.

Lemma add_drops_inflight vs : forall s, inflight (add_drops s vs) = inflight s.
Proof. unfold add_drops. induction vs as [|v vs IH]; intros s; cbn [fold_left]; [reflexivity|]. rewrite IH. reflexivity. Qed.
Lemma add_drops_allocated vs : forall s, allocated (add_drops s vs) = allocated s.
Proof. unfold add_drops. induction vs as [|v vs IH]; intros s; cbn [fold_left]; [reflexivity|]. rewrite IH. reflexivity. Qed.
Lemma add_drops_ents vs : forall s, ents (add_drops s vs) = ents s.
Proof. unfold add_drops. induction vs as [|v vs IH]; intros s; cbn [fold_left]; [reflexivity|]. rewrite IH. reflexivity. Qed.
Lemma add_drops_threads vs : forall s, threads (add_drops s vs) = threads s.
Proof. unfold add_drops. induction vs as [|v vs IH]; intros s; cbn [fold_left]; [reflexivity|]. rewrite IH. reflexivity. Qed.

(* the entry written by push / extend for value v *)
Definition E (v : N) (a : bool) : entry := {| e_val := v; e_cols := cols_of v; e_active := a |}.

(* s' results from s0 by at most one entry write and setting the pc of t *)
Definition shape (s0 s' : vstate) (t : N) (w : option (N * entry)) (p' : pc) : Prop :=
  inflight s' = inflight s0 /\ allocated s' = allocated s0 /\
  ents s' = upd_opt w (ents s0) /\ threads s' = update t p' (threads s0).

Definition obs_quiet (o : obs) : Prop :=
  match o with
  | OReturn (Some _) => False
  | OYield site _ => site <> 1 /\ site <> 4
  | _ => True
  end.

Ltac shape_tac :=
  unfold shape; cbn [inflight allocated ents threads set_thread set_entry add_inflight add_drop upd_opt];
  rewrite ?add_drops_inflight, ?add_drops_allocated, ?add_drops_ents, ?add_drops_threads;
  cbn [inflight allocated ents threads set_thread set_entry add_inflight add_drop upd_opt];
  repeat split; try reflexivity; try lia.

Lemma push_fill_norm s0 t v fp idx s' o : push_fill s0 t v fp idx = (s', o) ->
  obs_quiet o /\
  (shape s0 s' t None TPanicked \/ shape s0 s' t (Some (idx, E v false)) (PushPublish v idx)).
Proof.
  unfold push_fill. destruct fp; intros H; injection H as <- <-.
  - split; [exact I|]. left. shape_tac.
  - split; [cbn; lia|]. right. shape_tac.
Qed.

Lemma push_after_eager_norm s0 t v fp idx s' o : push_after_eager s0 t v fp idx = (s', o) ->
  obs_quiet o /\
  (shape s0 s' t None TPanicked \/
   (is_alloc s0 (l_bucket (location_of idx)) = true /\ shape s0 s' t (Some (idx, E v false)) (PushPublish v idx)) \/
   shape s0 s' t None (PushOwnCas v fp idx)).
Proof.
  unfold push_after_eager. destruct (is_alloc s0 (l_bucket (location_of idx))) eqn:Ea; intros H.
  - apply push_fill_norm in H. destruct H as [Hq [H|H]]; (split; [exact Hq|]); [left|right; left]; auto.
  - injection H as <- <-. split; [cbn; lia|]. right; right. shape_tac.
Qed.

Lemma ext_item_norm s0 t st c i vals pa sk s' o : ext_item s0 t st c i vals pa sk = (s', o) ->
  obs_quiet o /\
  exists w p', shape s0 s' t w p' /\
    ((w = None /\ (p' = Done None \/ p' = TPanicked \/ p' = ExtBucketCas st c i vals pa)) \/
     (exists v vals', i < c /\ w = Some (st + i, E v false) /\ p' = ExtPublish st c i v vals' pa)).
Proof.
  unfold ext_item. destruct vals as [|v vals'].
  { intros H; injection H as <- <-. split; [exact I|]. exists None, (Done None). split; [shape_tac|]. left; auto. }
  destruct (N.leb_spec c i) as [Hci|Hci].
  { intros H; injection H as <- <-. split; [exact I|]. exists None, TPanicked. split; [shape_tac|]. left; auto. }
  match goal with |- (if ?b then _ else _) = _ -> _ => destruct b end.
  { intros H; injection H as <- <-. split; [cbn; lia|].
    exists None, (ExtBucketCas st c i (v :: vals') pa). split; [shape_tac|]. left; auto. }
  assert (Hw : forall s'' o'',
     (set_thread (set_entry s0 (st + i) {| e_val := v; e_cols := cols_of v; e_active := false |}) t
        (ExtPublish st c i v vals' pa), OYield 5 (st + i)) = (s'', o'') ->
     obs_quiet o'' /\ exists w p', shape s0 s'' t w p' /\
       ((w = None /\ (p' = Done None \/ p' = TPanicked \/ p' = ExtBucketCas st c i (v :: vals') pa)) \/
        (exists v0 vals0, i < c /\ w = Some (st + i, E v0 false) /\ p' = ExtPublish st c i v0 vals0 pa))).
  { intros s'' o'' H; injection H as <- <-. split; [cbn; lia|].
    exists (Some (st + i, E v false)), (ExtPublish st c i v vals' pa). split; [shape_tac|].
    right. exists v, vals'. auto. }
  destruct pa as [k|]; [|apply Hw].
  destruct (k =? i); [|apply Hw].
  intros H; injection H as <- <-. split; [exact I|]. exists None, TPanicked. split; [shape_tac|]. left; auto.
Qed.

(* ================================================================================================== *)
(* 4. normal form of one scheduler step                                                                 *)
(* ================================================================================================== *)

Definition pc_wf (p : pc) : Prop :=
  match p with ExtPublish _ c k _ _ _ => k < c | _ => True end.
Definition ownso (po : option pc) (i : N) : bool :=
  match po with Some p => owns p i | None => false end.
Definition wr_ok (own : N -> bool) (p' : pc) (w : option (N * entry)) : Prop :=
  match w with
  | None => True
  | Some (i, e) => own i = true /\ e_cols e = cols_of (e_val e) /\ (e_active e = true -> owns p' i = false)
  end.
Definition trans (s s' : vstate) (t k : N) (w1 w2 : option (N * entry)) (p' : pc) : Prop :=
  inflight s' = inflight s + k /\
  (forall b, is_alloc s b = true -> is_alloc s' b = true) /\
  ents s' = upd_opt w2 (upd_opt w1 (ents s)) /\
  threads s' = update t p' (threads s).

Lemma shape_trans s s0 s' t w1 w p' :
  shape s0 s' t w p' -> inflight s0 = inflight s -> threads s0 = threads s ->
  ents s0 = upd_opt w1 (ents s) -> (forall b, is_alloc s b = true -> is_alloc s0 b = true) ->
  trans s s' t 0 w1 w p' /\ (forall b, is_alloc s' b = is_alloc s0 b).
Proof.
  intros (Hi & Ha & He & Ht) Hi0 Ht0 He0 Ha0.
  assert (Hal : forall b, is_alloc s' b = is_alloc s0 b) by (intros b; apply is_alloc_eq; exact Ha).
  split; [|exact Hal]. unfold trans. rewrite Hi, Hi0, He, He0, Ht, Ht0, N.add_0_r.
  repeat split; try reflexivity. intros b Hb. rewrite Hal. apply Ha0. exact Hb.
Qed.

Lemma shape_trans_plain s s' t w p' :
  shape s s' t w p' -> trans s s' t 0 None w p' /\ (forall b, is_alloc s' b = is_alloc s b).
Proof. intros H. apply (shape_trans s s s' t None w p' H); auto. Qed.

Lemma shape_trans_alloc s b0 s' t w p' :
  shape (set_alloc s b0) s' t w p' ->
  trans s s' t 0 None w p' /\ (forall b, is_alloc s' b = is_alloc (set_alloc s b0) b).
Proof.
  intros H. apply (shape_trans s (set_alloc s b0) s' t None w p' H).
  - apply set_alloc_inflight.
  - apply set_alloc_threads.
  - apply set_alloc_ents.
  - intros b. apply set_alloc_mono.
Qed.

Lemma shape_trans_entry s j e s' t w p' :
  shape (set_entry s j e) s' t w p' ->
  trans s s' t 0 (Some (j, e)) w p' /\ (forall b, is_alloc s' b = is_alloc s b).
Proof. intros H. apply (shape_trans s (set_entry s j e) s' t (Some (j, e)) w p' H); auto. Qed.

Definition step_post (s s' : vstate) (t : N) (p : pc) (k : N) (w1 w2 : option (N * entry)) (p' : pc) : Prop :=
  trans s s' t k w1 w2 p' /\
  (pc_wf p -> wr_ok (owns p) p' w1 /\ wr_ok (owns p) p' w2 /\ pc_wf p') /\
  (forall i, owns p' i = true -> owns p i = true \/ (inflight s <= i /\ i < inflight s + k)) /\
  (forall v idx, p' = PushPublish v idx -> is_alloc s' (l_bucket (location_of idx)) = true).

Ltac own_tac := intros ?i; cbn [owns]; try discriminate; lia.
Ltac wr_tac := cbn [wr_ok pc_wf owns E e_val e_cols e_active]; repeat split; try reflexivity; try discriminate; try lia.

Lemma pae_post s s0 t p v fp idx s' o :
  (forall i, owns p i = (i =? idx)) ->
  (s0 = s \/ exists b0, s0 = set_alloc s b0) ->
  push_after_eager s0 t v fp idx = (s', o) ->
  obs_quiet o /\ exists w2 p', step_post s s' t p 0 None w2 p'.
Proof.
  intros Hown Hs0 H.
  assert (Htr : forall w p', shape s0 s' t w p' ->
            trans s s' t 0 None w p' /\ (forall b, is_alloc s' b = is_alloc s0 b)).
  { intros w p' Hsh. destruct Hs0 as [->|[b0 ->]]; [apply shape_trans_plain|apply shape_trans_alloc]; exact Hsh. }
  apply push_after_eager_norm in H. destruct H as [Hq H]. split; [exact Hq|].
  destruct H as [Hsh|[[Hal Hsh]|Hsh]]; apply Htr in Hsh; destruct Hsh as [Htrans Hal'].
  - exists None, TPanicked. split; [exact Htrans|]. split; [intros _; wr_tac|]. split; [own_tac|discriminate].
  - exists (Some (idx, E v false)), (PushPublish v idx). split; [exact Htrans|].
    split; [intros _; wr_tac; rewrite Hown; apply N.eqb_refl|].
    split; [intros i; rewrite Hown; cbn [owns]; auto|].
    intros v0 idx0 Heq. injection Heq as <- <-. rewrite Hal'. exact Hal.
  - exists None, (PushOwnCas v fp idx). split; [exact Htrans|]. split; [intros _; wr_tac|].
    split; [intros i; rewrite Hown; cbn [owns]; auto|discriminate].
Qed.

Lemma ext_post s s0 t p st c i vals pa sk s' o :
  (forall j, owns p j = true <-> (st + i <= j /\ j < st + c)) ->
  (s0 = s \/ exists b0, s0 = set_alloc s b0) ->
  ext_item s0 t st c i vals pa sk = (s', o) ->
  obs_quiet o /\ exists w2 p', step_post s s' t p 0 None w2 p'.
Proof.
  intros Hown Hs0 H.
  assert (Htr : forall w p', shape s0 s' t w p' ->
            trans s s' t 0 None w p' /\ (forall b, is_alloc s' b = is_alloc s0 b)).
  { intros w p' Hsh. destruct Hs0 as [->|[b0 ->]]; [apply shape_trans_plain|apply shape_trans_alloc]; exact Hsh. }
  apply ext_item_norm in H. destruct H as [Hq (w & p' & Hsh & Hc)]. split; [exact Hq|].
  apply Htr in Hsh. destruct Hsh as [Htrans _]. exists w, p'. split; [exact Htrans|].
  destruct Hc as [[Hw Hp]|(v & vals' & Hic & Hw & Hp)]; subst w.
  - destruct Hp as [-> | [-> | ->]].
    + split; [intros _; wr_tac|]. split; [own_tac|discriminate].
    + split; [intros _; wr_tac|]. split; [own_tac|discriminate].
    + split; [intros _; wr_tac|]. split; [|discriminate].
      intros j Hj. left. apply Hown. cbn [owns] in Hj. lia.
  - subst p'. split; [intros _; wr_tac; apply Hown; lia|]. split; [|discriminate].
    intros j Hj. left. apply Hown. cbn [owns] in Hj. lia.
Qed.

Definition obs_spec (s : vstate) (p : pc) (o : obs) (k : N) : Prop :=
  match o with
  | OReturn (Some idx) => exists v, p = PushPublish v idx
  | OYield site a => site = 1 \/ site = 4 -> a = inflight s /\ 0 < k
  | _ => True
  end.

Lemma obs_quiet_spec s p o k : obs_quiet o -> obs_spec s p o k.
Proof.
  destruct o as [site a|[r|]| | | | | |]; cbn [obs_quiet obs_spec]; try tauto.
Qed.

Lemma trans_id s t p : lookup t (threads s) = Some p -> trans s s t 0 None None p.
Proof.
  intros Hl. unfold trans. cbn [upd_opt]. rewrite (update_same _ _ _ Hl), N.add_0_r. auto.
Qed.

Ltac trans_tac :=
  unfold trans, is_alloc; cbn [inflight allocated ents threads set_thread set_entry add_inflight add_drop upd_opt];
  rewrite ?add_drops_inflight, ?add_drops_allocated, ?add_drops_ents, ?add_drops_threads;
  cbn [inflight allocated ents threads set_thread set_entry add_inflight add_drop upd_opt];
  repeat split; try reflexivity; try lia; auto.

Lemma step_norm s t p s' o : lookup t (threads s) = Some p -> step_thread s t = (s', o) ->
  exists k w1 w2 p', step_post s s' t p k w1 w2 p' /\ obs_spec s p o k.
Proof.
  intros Hl Hs. unfold step_thread in Hs. rewrite Hl in Hs.
  destruct p as [v fp|v fp idx|v fp idx|v fp idx|v idx|c vals pa|st c vals pa|st c vals pa|st c i vals pa|st c i v vals pa|r|].
  - (* PushStart *)
    destruct (negb (index_ok (inflight s))); injection Hs as <- <-.
    + exists 1, None, None, TPanicked. split; [|exact I].
      split; [trans_tac|]. split; [intros _; wr_tac|]. split; [own_tac|discriminate].
    + exists 1, None, None, (PushReserved v fp (inflight s)). split; [|cbn; lia].
      split; [trans_tac|]. split; [intros _; wr_tac|]. split; [own_tac|discriminate].
  - (* PushReserved *)
    match type of Hs with (if ?b then _ else _) = _ => destruct b end.
    + injection Hs as <- <-. exists 0, None, None, (PushEagerCas v fp idx). split; [|cbn; lia].
      split; [trans_tac|]. split; [intros _; wr_tac|]. split; [own_tac|discriminate].
    + apply (pae_post s s t (PushReserved v fp idx)) in Hs; [|reflexivity|left; reflexivity].
      destruct Hs as [Hq (w2 & p' & Hp)]. exists 0, None, w2, p'. split; [exact Hp|apply obs_quiet_spec; exact Hq].
  - (* PushEagerCas *)
    apply (pae_post s _ t (PushEagerCas v fp idx)) in Hs; [|reflexivity|right; eexists; reflexivity].
    destruct Hs as [Hq (w2 & p' & Hp)]. exists 0, None, w2, p'. split; [exact Hp|apply obs_quiet_spec; exact Hq].
  - (* PushOwnCas *)
    apply push_fill_norm in Hs. destruct Hs as [Hq Hs].
    destruct Hs as [Hsh|Hsh]; apply shape_trans_alloc in Hsh; destruct Hsh as [Htrans Hal].
    + exists 0, None, None, TPanicked. split; [|apply obs_quiet_spec; exact Hq].
      split; [exact Htrans|]. split; [intros _; wr_tac|]. split; [own_tac|discriminate].
    + exists 0, None, (Some (idx, E v false)), (PushPublish v idx). split; [|apply obs_quiet_spec; exact Hq].
      split; [exact Htrans|]. split; [intros _; wr_tac; apply N.eqb_refl|]. split; [own_tac|].
      intros v0 idx0 Heq. injection Heq as <- <-. rewrite Hal. apply set_alloc_same.
  - (* PushPublish *)
    injection Hs as <- <-. exists 0, (Some (idx, E v true)), None, (Done (Some idx)).
    split; [|cbn; eexists; reflexivity].
    split; [trans_tac|]. split; [intros _; wr_tac; apply N.eqb_refl|]. split; [own_tac|discriminate].
  - (* ExtStart *)
    destruct (N.eqb_spec c 0) as [Hc|Hc].
    + destruct vals as [|v vals]; injection Hs as <- <-.
      * exists 0, None, None, (Done None). split; [|exact I].
        split; [trans_tac|]. split; [intros _; wr_tac|]. split; [own_tac|discriminate].
      * exists 0, None, None, TPanicked. split; [|exact I].
        split; [trans_tac|]. split; [intros _; wr_tac|]. split; [own_tac|discriminate].
    + injection Hs as <- <-. exists c, None, None, (ExtReserved (inflight s) c vals pa). split; [|cbn; lia].
      split; [trans_tac|]. split; [intros _; wr_tac|]. split; [own_tac|discriminate].
  - (* ExtReserved *)
    match type of Hs with (if ?b then _ else _) = _ => destruct b end.
    + injection Hs as <- <-. exists 0, None, None, (ExtEagerCas st c vals pa). split; [|cbn; lia].
      split; [trans_tac|]. split; [intros _; wr_tac|]. split; [own_tac|discriminate].
    + apply (ext_post s s t (ExtReserved st c vals pa)) in Hs; [|intros j; cbn [owns]; lia|left; reflexivity].
      destruct Hs as [Hq (w2 & p' & Hp)]. exists 0, None, w2, p'. split; [exact Hp|apply obs_quiet_spec; exact Hq].
  - (* ExtEagerCas *)
    apply (ext_post s _ t (ExtEagerCas st c vals pa)) in Hs; [|intros j; cbn [owns]; lia|right; eexists; reflexivity].
    destruct Hs as [Hq (w2 & p' & Hp)]. exists 0, None, w2, p'. split; [exact Hp|apply obs_quiet_spec; exact Hq].
  - (* ExtBucketCas *)
    apply (ext_post s _ t (ExtBucketCas st c i vals pa)) in Hs; [|intros j; cbn [owns]; lia|right; eexists; reflexivity].
    destruct Hs as [Hq (w2 & p' & Hp)]. exists 0, None, w2, p'. split; [exact Hp|apply obs_quiet_spec; exact Hq].
  - (* ExtPublish *)
    apply ext_item_norm in Hs. destruct Hs as [Hq (w & p' & Hsh & Hc)].
    apply shape_trans_entry in Hsh. destruct Hsh as [Htrans _].
    exists 0, (Some (st + i, E v true)), w, p'. split; [|apply obs_quiet_spec; exact Hq].
    split; [exact Htrans|].
    destruct Hc as [[Hw Hp]|(v' & vals' & Hic & Hw & Hp)]; subst w.
    + destruct Hp as [-> | [-> | ->]].
      * split; [cbn [pc_wf]; intros Hwf; wr_tac|]. split; [own_tac|discriminate].
      * split; [cbn [pc_wf]; intros Hwf; wr_tac|]. split; [own_tac|discriminate].
      * split; [cbn [pc_wf]; intros Hwf; wr_tac|]. split; [own_tac|discriminate].
    + subst p'. split; [cbn [pc_wf]; intros Hwf; wr_tac|]. split; [own_tac|discriminate].
  - (* Done *)
    injection Hs as <- <-. exists 0, None, None, (Done r). split; [|exact I].
    split; [apply trans_id; exact Hl|]. split; [intros _; wr_tac|]. split; [own_tac|discriminate].
  - (* TPanicked *)
    injection Hs as <- <-. exists 0, None, None, TPanicked. split; [|exact I].
    split; [apply trans_id; exact Hl|]. split; [intros _; wr_tac|]. split; [own_tac|discriminate].
Qed.

(* ================================================================================================== *)
(* 5. the invariant                                                                                     *)
(* ================================================================================================== *)

Record Inv (s : vstate) : Prop := {
  inv_keys : NoDup (map fst (threads s));
  inv_ents : forall i e, In (i, e) (ents s) -> i < inflight s /\ e_cols e = cols_of (e_val e);
  inv_own_lt : forall t p i, lookup t (threads s) = Some p -> owns p i = true -> i < inflight s;
  inv_disj : forall t1 t2 p1 p2 i, t1 <> t2 ->
      lookup t1 (threads s) = Some p1 -> lookup t2 (threads s) = Some p2 ->
      owns p1 i = true -> owns p2 i = true -> False;
  inv_hidden : forall t p i e, lookup t (threads s) = Some p -> owns p i = true ->
      lookup i (ents s) = Some e -> e_active e = false;
  inv_wf : forall t p, lookup t (threads s) = Some p -> pc_wf p;
  inv_pub : forall t v idx, lookup t (threads s) = Some (PushPublish v idx) ->
      is_alloc s (l_bucket (location_of idx)) = true
}.

Lemma Inv_init cap : Inv (init_state cap).
Proof.
  constructor; cbn [init_state threads ents lookup map]; try discriminate.
  - constructor.
  - intros i e [].
Qed.

(* general transition: thread t (old pc po, if any) gets pc p'; counter grows by k; up to two
   writes to entries the thread owned *)
Lemma inv_trans s s' t po k w1 w2 p' :
  Inv s -> lookup t (threads s) = po -> trans s s' t k w1 w2 p' ->
  wr_ok (ownso po) p' w1 -> wr_ok (ownso po) p' w2 -> pc_wf p' ->
  (forall i, owns p' i = true -> ownso po i = true \/ (inflight s <= i /\ i < inflight s + k)) ->
  (forall v idx, p' = PushPublish v idx -> is_alloc s' (l_bucket (location_of idx)) = true) ->
  Inv s'.
Proof.
  intros HI Hl (Hinf & Hal & Hents & Hthr) Hw1 Hw2 Hwf Hown Hpub.
  assert (Holt : forall i, ownso po i = true -> i < inflight s).
  { intros i Hi. destruct po as [p|]; [|discriminate]. exact (inv_own_lt s HI t p i Hl Hi). }
  assert (Hlk : forall t0, lookup t0 (threads s') = if t =? t0 then Some p' else lookup t0 (threads s)).
  { intros t0. rewrite Hthr. apply lookup_update. }
  (* a write goes to an index owned by the old pc *)
  assert (Hwr : forall w, wr_ok (ownso po) p' w -> forall j e, w = Some (j, e) ->
            ownso po j = true /\ e_cols e = cols_of (e_val e) /\ (e_active e = true -> owns p' j = false)).
  { intros w Hw j e ->. exact Hw. }
  (* other threads do not own what the old pc owns *)
  assert (Hoth : forall t0 p0 i, t <> t0 -> lookup t0 (threads s) = Some p0 -> owns p0 i = true ->
            ownso po i = true -> False).
  { intros t0 p0 i Hne Hl0 Ho0 Hoi. destruct po as [p|]; [|discriminate].
    exact (inv_disj s HI t t0 p p0 i Hne Hl Hl0 Hoi Ho0). }
  constructor.
  - rewrite Hthr. apply NoDup_update. exact (inv_keys s HI).
  - intros i e Hin. rewrite Hents in Hin.
    apply In_upd_opt in Hin. destruct Hin as [Hin|Hin].
    { destruct (Hwr w2 Hw2 i e Hin) as (Ho & Hc & _). apply Holt in Ho. split; [lia|exact Hc]. }
    apply In_upd_opt in Hin. destruct Hin as [Hin|Hin].
    { destruct (Hwr w1 Hw1 i e Hin) as (Ho & Hc & _). apply Holt in Ho. split; [lia|exact Hc]. }
    destruct (inv_ents s HI i e Hin) as [Hlt Hc]. split; [lia|exact Hc].
  - intros t0 p0 i Hl0 Ho. rewrite Hlk in Hl0. destruct (N.eqb_spec t t0) as [<-|Hne].
    + injection Hl0 as <-. destruct (Hown i Ho) as [Hoi|Hfr]; [apply Holt in Hoi|]; lia.
    + pose proof (inv_own_lt s HI t0 p0 i Hl0 Ho). lia.
  - intros t1 t2 p1 p2 i Hne Hl1 Hl2 Ho1 Ho2. rewrite Hlk in Hl1, Hl2.
    destruct (N.eqb_spec t t1) as [<-|Hne1]; destruct (N.eqb_spec t t2) as [<-|Hne2].
    + congruence.
    + injection Hl1 as <-. destruct (Hown i Ho1) as [Hoi|Hfr].
      * exact (Hoth t2 p2 i Hne2 Hl2 Ho2 Hoi).
      * pose proof (inv_own_lt s HI t2 p2 i Hl2 Ho2). lia.
    + injection Hl2 as <-. destruct (Hown i Ho2) as [Hoi|Hfr].
      * exact (Hoth t1 p1 i Hne1 Hl1 Ho1 Hoi).
      * pose proof (inv_own_lt s HI t1 p1 i Hl1 Ho1). lia.
    + exact (inv_disj s HI t1 t2 p1 p2 i Hne Hl1 Hl2 Ho1 Ho2).
  - intros t0 p0 i e Hl0 Ho Hle. rewrite Hlk in Hl0. rewrite Hents, !lookup_upd_opt in Hle.
    destruct (N.eqb_spec t t0) as [<-|Hne].
    + injection Hl0 as <-.
      assert (Hold : lookup i (ents s) = Some e -> e_active e = false).
      { intros Hle0. destruct (Hown i Ho) as [Hoi|Hfr].
        - destruct po as [p|]; [|discriminate]. exact (inv_hidden s HI t p i e Hl Hoi Hle0).
        - apply lookup_In in Hle0. apply (inv_ents s HI) in Hle0. lia. }
      destruct w2 as [[j2 e2]|].
      { destruct (N.eqb_spec j2 i) as [->|Hn2].
        - injection Hle as <-. destruct (Hwr _ Hw2 i e2 eq_refl) as (_ & _ & Ha).
          destruct (e_active e2); [|reflexivity]. rewrite Ha in Ho by reflexivity. discriminate.
        - destruct w1 as [[j1 e1]|]; [|exact (Hold Hle)].
          destruct (N.eqb_spec j1 i) as [->|Hn1]; [|exact (Hold Hle)].
          injection Hle as <-. destruct (Hwr _ Hw1 i e1 eq_refl) as (_ & _ & Ha).
          destruct (e_active e1); [|reflexivity]. rewrite Ha in Ho by reflexivity. discriminate. }
      destruct w1 as [[j1 e1]|]; [|exact (Hold Hle)].
      destruct (N.eqb_spec j1 i) as [->|Hn1]; [|exact (Hold Hle)].
      injection Hle as <-. destruct (Hwr _ Hw1 i e1 eq_refl) as (_ & _ & Ha).
      destruct (e_active e1); [|reflexivity]. rewrite Ha in Ho by reflexivity. discriminate.
    + assert (Hnw : forall w, wr_ok (ownso po) p' w -> forall j e', w = Some (j, e') -> j <> i).
      { intros w Hw j e' Hwe ->. destruct (Hwr w Hw i e' Hwe) as (Hoi & _).
        exact (Hoth t0 p0 i Hne Hl0 Ho Hoi). }
      assert (Hle0 : lookup i (ents s) = Some e).
      { destruct w2 as [[j2 e2]|].
        - destruct (N.eqb_spec j2 i) as [->|Hn2]; [exfalso; exact (Hnw _ Hw2 i e2 eq_refl eq_refl)|].
          destruct w1 as [[j1 e1]|]; [|exact Hle].
          destruct (N.eqb_spec j1 i) as [->|Hn1]; [exfalso; exact (Hnw _ Hw1 i e1 eq_refl eq_refl)|exact Hle].
        - destruct w1 as [[j1 e1]|]; [|exact Hle].
          destruct (N.eqb_spec j1 i) as [->|Hn1]; [exfalso; exact (Hnw _ Hw1 i e1 eq_refl eq_refl)|exact Hle]. }
      exact (inv_hidden s HI t0 p0 i e Hl0 Ho Hle0).
  - intros t0 p0 Hl0. rewrite Hlk in Hl0. destruct (N.eqb_spec t t0) as [<-|Hne].
    + injection Hl0 as <-. exact Hwf.
    + exact (inv_wf s HI t0 p0 Hl0).
  - intros t0 v idx Hl0. rewrite Hlk in Hl0. destruct (N.eqb_spec t t0) as [<-|Hne].
    + injection Hl0 as ->. apply (Hpub v idx). reflexivity.
    + apply Hal. exact (inv_pub s HI t0 v idx Hl0).
Qed.

Lemma Inv_step s t s' o : Inv s -> step_thread s t = (s', o) -> Inv s'.
Proof.
  intros HI Hs. destruct (lookup t (threads s)) as [p|] eqn:Hl.
  - destruct (step_norm s t p s' o Hl Hs) as (k & w1 & w2 & p' & (Htr & Hwr & Hown & Hpub) & _).
    destruct (Hwr (inv_wf s HI t p Hl)) as (Hw1 & Hw2 & Hwf).
    exact (inv_trans s s' t (Some p) k w1 w2 p' HI Hl Htr Hw1 Hw2 Hwf Hown Hpub).
  - unfold step_thread in Hs. rewrite Hl in Hs. injection Hs as <- <-. exact HI.
Qed.

Lemma is_start_owns p i : is_start p = true -> owns p i = false.
Proof. destruct p; cbn [is_start owns]; intros H; try discriminate; reflexivity. Qed.

Lemma Inv_spawn s t p : Inv s -> is_start p = true -> Inv (set_thread s t p).
Proof.
  intros HI Hst.
  apply (inv_trans s (set_thread s t p) t (lookup t (threads s)) 0 None None p HI eq_refl).
  - unfold trans. cbn [inflight ents threads set_thread upd_opt]. rewrite N.add_0_r. auto.
  - exact I.
  - exact I.
  - destruct p; cbn [is_start pc_wf] in *; try exact I; discriminate.
  - intros i Hi. rewrite is_start_owns in Hi by exact Hst. discriminate.
  - intros v idx ->. discriminate.
Qed.

Lemma Inv_drop s : Inv s -> Inv (fst (drop_vec s)).
Proof. intros [H1 H2 H3 H4 H5 H6 H7]. constructor; assumption. Qed.

Definition ev_ok (e : event) : Prop := forall t p, e = Spawn t p -> is_start p = true.

Lemma Inv_event s e : Inv s -> ev_ok e -> Inv (fst (do_event s e)).
Proof.
  intros HI Hok. destruct e as [t p|t|i| |st|]; cbn [do_event fst]; try exact HI.
  - apply Inv_spawn; [exact HI|]. apply (Hok t p). reflexivity.
  - destruct (step_thread s t) as [s' o] eqn:Hs. exact (Inv_step s t s' o HI Hs).
  - apply Inv_drop. exact HI.
Qed.

Lemma run_events_cons s e es :
  fst (run_events s (e :: es)) = fst (run_events (fst (do_event s e)) es).
Proof.
  cbn [run_events]. destruct (do_event s e) as [s1 o]. cbn [fst].
  destruct (run_events s1 es) as [s2 os]. reflexivity.
Qed.

Lemma Inv_run es : forall s, Inv s -> (forall e, In e es -> ev_ok e) -> Inv (fst (run_events s es)).
Proof.
  induction es as [|e es IH]; intros s HI Hok; [exact HI|].
  rewrite run_events_cons. apply IH.
  - apply Inv_event; [exact HI|]. apply Hok. left; reflexivity.
  - intros e' Hin. apply Hok. right; exact Hin.
Qed.

Lemma reachable_Inv s : reachable s -> Inv s.
Proof.
  intros (cap & es & (Hst & _) & ->). apply Inv_run; [apply Inv_init|].
  intros e Hin t p ->. exact (Hst t p Hin).
Qed.

(* ================================================================================================== *)
(* 6. the C08 statements                                                                                *)
(* ================================================================================================== *)

Lemma C08_count_mono : C08_count_mono_stmt.
Proof.
  intros s e. destruct e as [t p|t|i| |st|]; cbn [do_event fst drop_vec inflight set_thread]; try lia.
  destruct (step_thread s t) as [s' o] eqn:Hs. cbn [fst].
  destruct (lookup t (threads s)) as [p|] eqn:Hl.
  - destruct (step_norm s t p s' o Hl Hs) as (k & w1 & w2 & p' & ((Hinf & _) & _) & _). lia.
  - unfold step_thread in Hs. rewrite Hl in Hs. injection Hs as <- <-. lia.
Qed.

Lemma C08_reserve : C08_reserve_stmt.
Proof.
  intros s t s' site a Hr Hs Hsite. apply reachable_Inv in Hr.
  destruct (lookup t (threads s)) as [p|] eqn:Hl.
  - destruct (step_norm s t p s' _ Hl Hs) as (k & w1 & w2 & p' & ((Hinf & _) & _) & Ho).
    cbn [obs_spec] in Ho. destruct (Ho Hsite) as [-> Hk]. split; [reflexivity|]. split; [lia|].
    intros i e Hin. apply (inv_ents s Hr i e Hin).
  - unfold step_thread in Hs. rewrite Hl in Hs. discriminate.
Qed.

Lemma C08_no_phantom : C08_no_phantom_stmt.
Proof.
  intros s i v c Hr Hg. apply reachable_Inv in Hr. unfold get in Hg.
  destruct (is_alloc s (l_bucket (location_of i))); [|discriminate].
  destruct (lookup i (ents s)) as [e|] eqn:Hl; [|discriminate].
  destruct (e_active e); [|discriminate]. injection Hg as <- <-.
  apply lookup_In in Hl. exact (inv_ents s Hr i e Hl).
Qed.

Lemma C08_push_visible : C08_push_visible_stmt.
Proof.
  intros s t s' idx Hr Hs. apply reachable_Inv in Hr.
  destruct (lookup t (threads s)) as [p|] eqn:Hl.
  - destruct (step_norm s t p s' _ Hl Hs) as (k & w1 & w2 & p' & _ & Ho).
    cbn [obs_spec] in Ho. destruct Ho as [v ->]. exists v. split; [reflexivity|].
    pose proof (inv_pub s Hr t v idx Hl) as Hal.
    unfold step_thread in Hs. rewrite Hl in Hs. injection Hs as <-.
    unfold get. unfold is_alloc in *. cbn [allocated ents set_thread set_entry]. rewrite Hal.
    rewrite lookup_update, N.eqb_refl. reflexivity.
  - unfold step_thread in Hs. rewrite Hl in Hs. discriminate.
Qed.

Lemma get_Some s i x :
  get s i = Some x <->
  is_alloc s (l_bucket (location_of i)) = true /\
  exists e, lookup i (ents s) = Some e /\ e_active e = true /\ x = (e_val e, e_cols e).
Proof.
  unfold get. destruct (is_alloc s (l_bucket (location_of i))).
  - destruct (lookup i (ents s)) as [e|].
    + destruct (e_active e) eqn:Ea.
      * split.
        -- intros H; injection H as <-. split; [reflexivity|]. exists e. auto.
        -- intros (_ & e' & He & _ & ->). injection He as <-. reflexivity.
      * split; [discriminate|]. intros (_ & e' & He & Ha & _). injection He as <-. congruence.
    + split; [discriminate|]. intros (_ & e' & He & _). discriminate.
  - split; [discriminate|]. intros [H _]. discriminate.
Qed.

Lemma get_step s t s' o i x : Inv s -> step_thread s t = (s', o) -> get s i = Some x -> get s' i = Some x.
Proof.
  intros HI Hs Hg. destruct (lookup t (threads s)) as [p|] eqn:Hl.
  - destruct (step_norm s t p s' o Hl Hs) as (k & w1 & w2 & p' & ((_ & Hal & Hents & _) & Hwr & _) & _).
    destruct (Hwr (inv_wf s HI t p Hl)) as (Hw1 & Hw2 & _).
    apply get_Some in Hg. destruct Hg as (Hb & e & Hle & Ha & ->).
    apply get_Some. split; [apply Hal; exact Hb|]. exists e. split; [|auto].
    assert (Hnw : forall w, wr_ok (owns p) p' w -> forall j e', w = Some (j, e') -> j <> i).
    { intros w Hw j e' -> ->. destruct Hw as (Ho & _).
      pose proof (inv_hidden s HI t p i e Hl Ho Hle). congruence. }
    rewrite Hents, !lookup_upd_opt.
    destruct w2 as [[j2 e2]|].
    + destruct (N.eqb_spec j2 i) as [->|Hn2]; [exfalso; exact (Hnw _ Hw2 i e2 eq_refl eq_refl)|].
      destruct w1 as [[j1 e1]|]; [|exact Hle].
      destruct (N.eqb_spec j1 i) as [->|Hn1]; [exfalso; exact (Hnw _ Hw1 i e1 eq_refl eq_refl)|exact Hle].
    + destruct w1 as [[j1 e1]|]; [|exact Hle].
      destruct (N.eqb_spec j1 i) as [->|Hn1]; [exfalso; exact (Hnw _ Hw1 i e1 eq_refl eq_refl)|exact Hle].
  - unfold step_thread in Hs. rewrite Hl in Hs. injection Hs as <- <-. exact Hg.
Qed.

Lemma get_event s e i x : Inv s -> get s i = Some x -> get (fst (do_event s e)) i = Some x.
Proof.
  intros HI Hg. destruct e as [t p|t|j| |st|]; cbn [do_event fst]; try exact Hg.
  - destruct (step_thread s t) as [s' o] eqn:Hs. exact (get_step s t s' o i x HI Hs Hg).
Qed.

Lemma C08_stable : C08_stable_stmt.
Proof.
  intros s es i x Hr Hsp _ Hg. apply reachable_Inv in Hr.
  assert (Hok : forall e, In e es -> ev_ok e).
  { intros e Hin t p ->. exact (proj1 (Hsp t p Hin)). }
  clear Hsp. revert s Hr Hg Hok. induction es as [|e es IH]; intros s HI Hg Hok; [exact Hg|].
  rewrite run_events_cons. apply IH.
  - apply Inv_event; [exact HI|]. apply Hok. left; reflexivity.
  - apply get_event; assumption.
  - intros e' Hin. apply Hok. right; exact Hin.
Qed.

Lemma C08_exclusive : C08_exclusive_stmt.
Proof.
  intros s t1 p1 t2 p2 i Hr Hin1 Hin2 Ho1 Ho2. apply reachable_Inv in Hr.
  destruct (N.eq_dec t1 t2) as [Heq|Hne]; [exact Heq|exfalso].
  apply (In_lookup _ _ _ (inv_keys s Hr)) in Hin1, Hin2.
  exact (inv_disj s Hr t1 t2 p1 p2 i Hne Hin1 Hin2 Ho1 Ho2).
Qed.

Lemma C08_owned_invisible : C08_owned_invisible_stmt.
Proof.
  intros s t p i Hr Hin Ho. apply reachable_Inv in Hr.
  apply (In_lookup _ _ _ (inv_keys s Hr)) in Hin.
  destruct (get s i) as [x|] eqn:Hg; [|reflexivity]. exfalso.
  apply get_Some in Hg. destruct Hg as (_ & e & Hle & Ha & _).
  pose proof (inv_hidden s Hr t p i e Hin Ho Hle). congruence.
Qed.

Print Assumptions C08_location.
Print Assumptions C08_location_inj.
Print Assumptions C08_count_mono.
Print Assumptions C08_reserve.
Print Assumptions C08_no_phantom.
Print Assumptions C08_push_visible.
Print Assumptions C08_stable.
Print Assumptions C08_exclusive.
Print Assumptions C08_owned_invisible.
