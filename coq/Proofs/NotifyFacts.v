(* C13: notification facts for the worker / tick protocol model (Model/Nucleo.v).

   Method: the control fields of the state that matter for the notification protocol are collected in a
   `view`; every event is shown to act on the view through an abstract step function (the data the step
   reads outside the view - scores, item counts, the worker's `running` bit, the pc the scan/sort phase
   ends in - enter as parameters); the invariant is a predicate on views, proved preserved by the abstract
   steps by case analysis. *)
From Coq Require Import NArith List Bool Lia.
From NV Require Import Model.Nucleo Spec.NucleoStatements.
Import ListNotations.
Import Nucleo.
Local Open Scope N_scope.

Record view := { v_owed : bool; v_tpc : tickpc; v_lock : lockst; v_canc : bool; v_sn : bool;
                 v_post : postpc; v_us : ustate; v_nf : N }.
Definition view_of (s : nstate) : view :=
  {| v_owed := g_owed s; v_tpc := tpc s; v_lock := lock s; v_canc := canceled s; v_sn := should_notify s;
     v_post := post s; v_us := ui_state s; v_nf := notifies s |}.

Definition mk := Build_view.

(* ---- tick_body on views ------------------------------------------------------------------------- *)
Definition vtick_body (v : view) (b wr : bool) (cflag : bool) (status : pstatus) (second changed1 t0 : bool) : view :=
  if cflag || b then
    mk (v_owed v)
       (TBeforeSpawn cflag status (match v_us v with SFresh => false | _ => true end) wr second changed1 t0)
       HeldTick false (if cflag then v_sn v else true) (v_post v) (v_us v) (v_nf v)
  else
    mk false TIdle Free (v_canc v) (v_sn v) (v_post v) (v_us v) (v_nf v).

Definition more_items (s : nstate) : bool := item_count (wk s) <? count_of s (cur s).

Lemma tick_body_view : forall s cflag status second changed1 t0,
  view_of (tick_body s cflag status second changed1 t0) =
  vtick_body (view_of s) (more_items s) (w_running (wk s)) cflag status second changed1 t0.
Proof.
  intros s cflag status second changed1 t0.
  destruct s as [st cu ns us up ust sn w lk ca sno tp lt nf inj po gs gp go].
  destruct w as [wr wc wl wi wm wp ws].
  destruct wr; destruct wc; destruct us; destruct cflag; destruct second;
    cbv -[item_count count_of N.ltb];
    try reflexivity;
    match goal with |- context [N.ltb ?a ?b] => destruct (N.ltb a b); reflexivity end.
Qed.

(* ---- step_tick on views ------------------------------------------------------------------------- *)
Definition vstep_tick (v : view) (ust : pstatus) (b wr : bool) : view :=
  match v_tpc v with
  | TIdle => v
  | TBegun t0 =>
    let cflag := negb (pstatus_rank ust =? 0) || (match v_us v with SFresh => false | _ => true end) in
    if cflag then mk (v_owed v) (TBeforeLock ust t0) (v_lock v) true (v_sn v) (v_post v) (v_us v) (v_nf v)
    else mk (v_owed v) (TBeforeTry false false t0) (v_lock v) (v_canc v) (v_sn v) (v_post v) (v_us v) (v_nf v)
  | TBeforeLock status t0 =>
    vtick_body (mk (v_owed v) (v_tpc v) HeldTick (v_canc v) (v_sn v) (v_post v) (v_us v) (v_nf v))
               b wr true status false false t0
  | TBeforeTry second changed1 t0 =>
    match v_lock v with
    | Free => vtick_body (mk (v_owed v) (v_tpc v) HeldTick (v_canc v) (v_sn v) (v_post v) (v_us v) (v_nf v))
                         b wr false Unchanged second changed1 t0
    | _ => mk (v_owed v) (TTryFailed second changed1) (v_lock v) (v_canc v) (v_sn v) (v_post v) (v_us v) (v_nf v)
    end
  | TTryFailed second changed1 =>
    mk (v_owed v) (TAfterRearm second changed1) (v_lock v) (v_canc v) true (v_post v) (v_us v) (v_nf v)
  | TAfterRearm second changed1 =>
    match v_lock v with
    | Free => vtick_body (mk (v_owed v) (v_tpc v) HeldTick (v_canc v) (v_sn v) (v_post v) (v_us v) (v_nf v))
                         b wr false Unchanged second changed1 true
    | _ => mk true TIdle (v_lock v) (v_canc v) (v_sn v) (v_post v) (v_us v) (v_nf v)
    end
  | TBeforeSpawn cflag status cleared changed second changed1 t0 =>
    if second then mk true TIdle (HeldRun RStart status cleared) (v_canc v) (v_sn v) (v_post v) (v_us v) (v_nf v)
    else if cflag then
      mk (v_owed v) (TBeforeTry true changed t0) (HeldRun RStart status cleared) (v_canc v) (v_sn v) (v_post v) SFresh (v_nf v)
    else mk true TIdle (HeldRun RStart status cleared) (v_canc v) (v_sn v) (v_post v) (v_us v) (v_nf v)
  end.

Lemma step_tick_view : forall s,
  view_of (step_tick s) = vstep_tick (view_of s) (ui_status s) (more_items s) (w_running (wk s)).
Proof.
  intros s. unfold step_tick, vstep_tick.
  change (v_tpc (view_of s)) with (tpc s). change (v_lock (view_of s)) with (lock s).
  destruct (tpc s) eqn:Et.
  - reflexivity.
  - change (v_us (view_of s)) with (ui_state s).
    destruct (negb (pstatus_rank (ui_status s) =? 0) || match ui_state s with SFresh => false | _ => true end);
      destruct s; cbv in Et |- *; rewrite ?Et; reflexivity.
  - rewrite tick_body_view. destruct s; cbv in Et |- *; rewrite ?Et; reflexivity.
  - destruct (lock s) eqn:El.
    + rewrite tick_body_view. destruct s; reflexivity.
    + destruct s; cbv in Et, El |- *; rewrite ?Et, ?El; reflexivity.
    + destruct s; cbv in Et, El |- *; rewrite ?Et, ?El; reflexivity.
  - destruct s; reflexivity.
  - destruct (lock s) eqn:El.
    + rewrite tick_body_view. destruct s; reflexivity.
    + destruct s; cbv in Et, El |- *; rewrite ?Et, ?El; reflexivity.
    + destruct s; cbv in Et, El |- *; rewrite ?Et, ?El; reflexivity.
  - destruct second; [|destruct cflag]; destruct s; reflexivity.
Qed.

(* ---- step_run on views -------------------------------------------------------------------------- *)
Section Run.
Variable sc : N -> N -> N -> option N.
Variable ln : N -> N -> N.

Lemma run_work_pc : forall seen e canc status cleared w,
  snd (run_work sc seen e canc status cleared w) <> REnd false.
Proof.
  intros. unfold run_work.
  destruct (pat_is_empty _); [cbn; discriminate|].
  destruct status;
    repeat match goal with
           | |- context [match ?x with _ => _ end] => destruct x; cbn [snd]
           end; discriminate.
Qed.

Lemma run_sort_pc : forall canc unm w, snd (run_sort ln canc unm w) = REnd (negb canc).
Proof. intros. unfold run_sort. destruct canc; reflexivity. Qed.

(* pc' : the pc the scan phase ends in (only used at RStart) *)
Definition vstep_run (v : view) (pc' : runpc) : view :=
  match v_post v with
  | PUnlocked completed =>
    mk (v_owed v) (v_tpc v) (v_lock v) (v_canc v) (v_sn v) (if completed && v_sn v then PNotify else PDone) (v_us v) (v_nf v)
  | PNotify => mk false (v_tpc v) (v_lock v) (v_canc v) (v_sn v) PDone (v_us v) (v_nf v + 1)
  | PDone => mk (v_owed v) (v_tpc v) (v_lock v) (v_canc v) (v_sn v) PNone (v_us v) (v_nf v)
  | PNone =>
    match v_lock v with
    | HeldRun RStart status cleared =>
      mk (v_owed v) (v_tpc v) (HeldRun pc' status cleared) (v_canc v) (v_sn v) (v_post v) (v_us v) (v_nf v)
    | HeldRun (RSort _) status cleared =>
      mk (v_owed v) (v_tpc v) (HeldRun (REnd (negb (v_canc v))) status cleared) (v_canc v) (v_sn v) (v_post v) (v_us v) (v_nf v)
    | HeldRun (REnd completed) _ _ =>
      mk (v_owed v) (v_tpc v) Free (v_canc v) (v_sn v) (PUnlocked completed) (v_us v) (v_nf v)
    | _ => v
    end
  end.

Lemma step_run_view : forall s seen e,
  exists pc', pc' <> REnd false /\ view_of (step_run sc ln s seen e) = vstep_run (view_of s) pc'.
Proof.
  intros s seen e. unfold step_run, vstep_run.
  change (v_post (view_of s)) with (post s). change (v_lock (view_of s)) with (lock s).
  destruct (post s) eqn:Ep.
  - destruct (lock s) as [| |pc status cleared] eqn:El.
    + exists RStart. split; [discriminate|reflexivity].
    + exists RStart. split; [discriminate|reflexivity].
    + destruct pc as [|unm|completed].
      * match goal with |- context [run_work sc ?a ?b ?c ?d ?f ?g] =>
          pose proof (run_work_pc a b c d f g) as Hpc; destruct (run_work sc a b c d f g) as [w' pc'] end.
        exists pc'. split; [exact Hpc|]. destruct s; cbv in Ep |- *; rewrite Ep; reflexivity.
      * exists RStart. split; [discriminate|].
        pose proof (run_sort_pc (canceled s) unm (wk s)) as Hpc.
        destruct (run_sort ln (canceled s) unm (wk s)) as [w' pc']. cbn [snd] in Hpc. subst pc'.
        destruct s; cbv in Ep |- *; rewrite Ep; reflexivity.
      * exists RStart. split; [discriminate|]. destruct s; reflexivity.
  - exists RStart. split; [discriminate|].
    change (v_sn (view_of s)) with (should_notify s).
    destruct (completed && should_notify s); destruct s; reflexivity.
  - exists RStart. split; [discriminate|]. destruct s; reflexivity.
  - exists RStart. split; [discriminate|]. destruct s; reflexivity.
Qed.
End Run.

(* ---- do_event on views -------------------------------------------------------------------------- *)
Definition venabled (v : view) : bool :=
  match v_tpc v with
  | TIdle => false
  | TBeforeLock _ _ => match v_lock v with Free => true | _ => false end
  | TBeforeTry _ _ t0 => if t0 then true else match v_lock v with Free => true | _ => false end
  | _ => true
  end.

Inductive vstep (v : view) : view -> Prop :=
| VS_stutter : vstep v v
| VS_restart : v_tpc v = TIdle ->
    vstep v (mk false TIdle (v_lock v) true (v_sn v) (v_post v) SCleared (v_nf v))
| VS_begin : forall t0, v_tpc v = TIdle ->
    vstep v (mk false (TBegun t0) (v_lock v) (v_canc v) false (v_post v) (v_us v) (v_nf v))
| VS_tick : forall ust b wr, venabled v = true -> vstep v (vstep_tick v ust b wr)
| VS_run : forall pc', pc' <> REnd false -> vstep v (vstep_run v pc').

Section Events.
Variable sc : N -> N -> N -> option N.
Variable ln : N -> N -> N.

Lemma do_event_view : forall s e, vstep (view_of s) (view_of (do_event sc ln s e)).
Proof.
  intros s e. destruct e; cbn [do_event].
  - destruct s; apply VS_stutter.
  - destruct s; apply VS_stutter.
  - destruct (tpc s); destruct s; apply VS_stutter.
  - destruct (find _ _) as [[? ?]|]; destruct s; apply VS_stutter.
  - destruct s; apply VS_stutter.
  - destruct (tpc s); destruct s; apply VS_stutter.
  - destruct (tpc s) eqn:Et; try apply VS_stutter.
    destruct clear; destruct s; cbv in Et; subst; apply (VS_restart (mk _ _ _ _ _ _ _ _)); reflexivity.
  - destruct (tpc s) eqn:Et; try apply VS_stutter.
    destruct s; cbv in Et; subst; apply (VS_begin (mk _ _ _ _ _ _ _ _)); reflexivity.
  - destruct (enabled_tick s) eqn:Een; [|apply VS_stutter].
    rewrite step_tick_view. apply VS_tick. exact Een.
  - destruct (step_run_view sc ln s seen end_) as [pc' [Hpc Hv]]. rewrite Hv. apply VS_run. exact Hpc.
  - apply VS_stutter.
Qed.
End Events.

(* ---- the invariant ------------------------------------------------------------------------------ *)
Definition invV (v : view) : Prop :=
  (* I1: a pending obligation: no tick in progress, the flag is armed, the cancel flag is clear, and a run
     holds the lock or its closure is about to notify *)
  (v_owed v = true ->
     v_tpc v = TIdle /\ v_sn v = true /\ v_canc v = false /\
     match v_lock v with
     | HeldRun _ _ _ => True
     | Free => v_post v = PUnlocked true \/ v_post v = PNotify
     | HeldTick => False
     end) /\
  (* I2: the UI thread holds the guard only at tick.before_spawn *)
  (v_lock v = HeldTick -> match v_tpc v with TBeforeSpawn _ _ _ _ _ _ _ => True | _ => False end) /\
  (* I3: where the cancel flag can be set *)
  (match v_tpc v with
   | TIdle | TBegun _ => v_canc v = true -> v_us v <> SFresh
   | TBeforeLock _ _ => True
   | _ => v_canc v = false
   end) /\
  (* I4: the notify flag is armed where a `running` answer is about to be given *)
  (match v_tpc v with
   | TAfterRearm _ _ => v_sn v = true
   | TBeforeSpawn cflag _ _ _ second _ _ => (cflag = false -> v_sn v = true) /\ (second = true -> cflag = false)
   | _ => True
   end) /\
  (* I5: a cancelled run that has not released the lock yet: the cancel flag is still set *)
  (forall st cl, v_lock v = HeldRun (REnd false) st cl -> v_canc v = true).

Lemma invV_init : invV (view_of init_nstate).
Proof.
  unfold invV; cbn. repeat split; try discriminate. 
Qed.

Ltac vproj := cbn [v_owed v_tpc v_lock v_canc v_sn v_post v_us v_nf mk] in *.
Ltac spec5 := try match goal with H : forall st cl, HeldRun ?a ?b ?c = HeldRun _ st cl -> _ |- _ => pose proof (H _ _ eq_refl) end.
Ltac fin := spec5; repeat split; intros; subst; try discriminate; try congruence; try tauto; intuition (try discriminate; try congruence; eauto).

Lemma invV_restart : forall v, invV v -> v_tpc v = TIdle ->
  invV (mk false TIdle (v_lock v) true (v_sn v) (v_post v) SCleared (v_nf v)).
Proof.
  intros [ow t l c n p u nf]. unfold invV. vproj. intros (I1&I2&I3&I4&I5) Ht. subst t. fin.
Qed.

Lemma invV_begin : forall v t0, invV v -> v_tpc v = TIdle ->
  invV (mk false (TBegun t0) (v_lock v) (v_canc v) false (v_post v) (v_us v) (v_nf v)).
Proof.
  intros [ow t l c n p u nf] t0. unfold invV. vproj. intros (I1&I2&I3&I4&I5) Ht. subst t. fin.
Qed.

Lemma invV_run : forall v pc', invV v -> pc' <> REnd false -> invV (vstep_run v pc').
Proof.
  intros [ow t l c n p u nf] pc'. unfold invV, vstep_run. vproj. intros (I1&I2&I3&I4&I5) Hpc.
  destruct p as [|completed| |].
  - destruct l as [| |pc st cl]; vproj; [fin|fin|].
    destruct pc as [|unm|completed]; vproj.
    + fin.
    + destruct c; cbn [negb]; fin.
    + destruct completed; fin.
  - destruct completed, n; cbn [andb]; vproj; destruct l; fin.
  - destruct l; fin.
  - destruct l; fin.
Qed.

Lemma invV_tick : forall v ust b wr, invV v -> venabled v = true -> invV (vstep_tick v ust b wr).
Proof.
  intros [ow t l c n p u nf] ust b wr. unfold invV, vstep_tick, venabled, vtick_body. vproj.
  intros (I1&I2&I3&I4&I5) Hen.
  destruct t as [|t0|status t0|second changed1 t0|second changed1|second changed1|cflag status cleared changed second changed1 t0]; vproj.
  - discriminate.
  - destruct (negb (pstatus_rank ust =? 0) || match u with SFresh => false | _ => true end) eqn:Ec; vproj.
    + destruct l; fin.
    + apply orb_false_elim in Ec. destruct Ec as [_ Ec]. destruct u; try discriminate. destruct l; destruct c; fin.
  - destruct l; try discriminate. cbn [orb]. vproj. fin.
  - destruct l; vproj.
    + destruct b; cbn [orb]; vproj; fin.
    + fin.
    + fin.
  - destruct l; fin.
  - destruct l; vproj.
    + destruct b; cbn [orb]; vproj; fin.
    + fin.
    + destruct pc as [| |[|]]; fin.
  - destruct second; [|destruct cflag]; vproj; fin.
Qed.

Lemma invV_step : forall v v', invV v -> vstep v v' -> invV v'.
Proof.
  intros v v' Hi Hs. destruct Hs.
  - exact Hi.
  - apply invV_restart; assumption.
  - apply invV_begin; assumption.
  - apply invV_tick; assumption.
  - apply invV_run; assumption.
Qed.

(* a notification is issued only from run.before_notify *)
Lemma vstep_notifies : forall v v', vstep v v' -> v_nf v' <> v_nf v -> v_post v = PNotify.
Proof.
  intros [ow t l c n p u nf] v' Hs. destruct Hs; vproj; intros Hn; try (exfalso; apply Hn; reflexivity).
  - exfalso; apply Hn. unfold vstep_tick, vtick_body. vproj.
    destruct t; vproj; try reflexivity;
      repeat match goal with |- context [if ?x then _ else _] => destruct x; vproj end;
      try reflexivity; destruct l; vproj; try reflexivity;
      repeat match goal with |- context [if ?x then _ else _] => destruct x; vproj end; reflexivity.
  - unfold vstep_run in Hn. vproj. destruct p; vproj; try reflexivity; exfalso; apply Hn.
    + destruct l as [| |[| |] ? ?]; reflexivity.
    + reflexivity.
    + reflexivity.
Qed.

(* ---- lifting to reachable states ---------------------------------------------------------------- *)
Section Statements.
Variable sc : N -> N -> N -> option N.
Variable ln : N -> N -> N.

Definition inv (s : nstate) : Prop := invV (view_of s).

Lemma inv_do_event : forall s e, inv s -> inv (do_event sc ln s e).
Proof. intros s e Hi. exact (invV_step _ _ Hi (do_event_view sc ln s e)). Qed.

Lemma inv_run_events : forall es s, inv s -> inv (run_events sc ln s es).
Proof.
  induction es as [|e es IH]; intros s Hi; cbn [run_events]; [exact Hi|].
  apply IH. apply inv_do_event. exact Hi.
Qed.

Lemma inv_reachable : forall s, reachable sc ln s -> inv s.
Proof.
  intros s [es [_ ->]]. apply inv_run_events. exact invV_init.
Qed.

Lemma C13_notify_after_unlock0 : C13_notify_after_unlock_stmt sc ln.
Proof.
  intros s e _ Hn. exact (vstep_notifies _ _ (do_event_view sc ln s e) Hn).
Qed.

Lemma C13_no_lost_wakeup0 : C13_no_lost_wakeup_stmt sc ln.
Proof.
  intros s Hr Ho [Hl [Hp Ht]]. destruct (inv_reachable s Hr) as (I1&_).
  change (g_owed s = true -> tpc s = TIdle /\ should_notify s = true /\ canceled s = false /\
          match lock s with HeldRun _ _ _ => True | Free => post s = PUnlocked true \/ post s = PNotify | HeldTick => False end) in I1.
  destruct (I1 Ho) as (_&_&_&H). rewrite Hl, Hp in H. destruct H; discriminate.
Qed.

Lemma C13_will_notify0 : C13_will_notify_stmt sc ln.
Proof.
  intros s completed Hr Ho Ht Hp Hl. destruct (inv_reachable s Hr) as (I1&_).
  change (g_owed s = true -> tpc s = TIdle /\ should_notify s = true /\ canceled s = false /\
          match lock s with HeldRun _ _ _ => True | Free => post s = PUnlocked true \/ post s = PNotify | HeldTick => False end) in I1.
  destruct (I1 Ho) as (_&Hsn&_&H). split; [|exact Hsn].
  destruct (lock s); [|contradiction|contradiction].
  rewrite Hp in H. destruct H as [H|H]; [injection H; auto|discriminate].
Qed.
End Statements.

Lemma C13_notify_after_unlock : forall sc ln, C13_notify_after_unlock_stmt sc ln.
Proof. exact C13_notify_after_unlock0. Qed.
Lemma C13_no_lost_wakeup : forall sc ln, C13_no_lost_wakeup_stmt sc ln.
Proof. exact C13_no_lost_wakeup0. Qed.
Lemma C13_will_notify : forall sc ln, C13_will_notify_stmt sc ln.
Proof. exact C13_will_notify0. Qed.

Print Assumptions C13_notify_after_unlock.
Print Assumptions C13_no_lost_wakeup.
Print Assumptions C13_will_notify.
