(* C04_prefix: effect of Config::prefer_prefix on the scores. *)
From Coq Require Import ZArith NArith List Bool Lia ZifyBool ZifyN ZifyNat.
From NV Require Import Base.Util Model.Matcher Spec.Matching Spec.Statements Proofs.CharsFacts Proofs.ScoreFacts.
Import ListNotations.
Local Open Scope N_scope.

(* ================================================================================================= *)
(* 1. nothing but calculate_score / prefix_bonus_dp looks at prefer_prefix                            *)
(* ================================================================================================= *)
Lemma class_norm_wp cfg b r c : class_norm (with_prefix cfg b) r c = class_norm cfg r c.
Proof. reflexivity. Qed.
Lemma norm_wp cfg b r c : norm (with_prefix cfg b) r c = norm cfg r c.
Proof. reflexivity. Qed.
Lemma class_wp cfg b r c : class (with_prefix cfg b) r c = class cfg r c.
Proof. reflexivity. Qed.
Lemma bonus_for_wp cfg b p c : bonus_for (with_prefix cfg b) p c = bonus_for cfg p c.
Proof. reflexivity. Qed.
Lemma prev_class_wp cfg b r h s : prev_class (with_prefix cfg b) r h s = prev_class cfg r h s.
Proof. reflexivity. Qed.
Lemma max_bonus_wp cfg b : max_bonus (with_prefix cfg b) = max_bonus cfg.
Proof. reflexivity. Qed.
Lemma prefilter_ascii_wp cfg b h n g : prefilter_ascii (with_prefix cfg b) h n g = prefilter_ascii cfg h n g.
Proof. reflexivity. Qed.
Lemma prefilter_non_ascii_wp cfg b h n g : prefilter_non_ascii (with_prefix cfg b) h n g = prefilter_non_ascii cfg h n g.
Proof. reflexivity. Qed.

Lemma cs_loop_wp cfg b hr hs : forall i nrest nc prev in_gap in_run fb score acc,
  cs_loop (with_prefix cfg b) hr hs i nrest nc prev in_gap in_run fb score acc =
  cs_loop cfg hr hs i nrest nc prev in_gap in_run fb score acc.
Proof.
  induction hs as [|c0 hs IH]; intros; cbn [cs_loop]; [reflexivity|].
  rewrite class_norm_wp. destruct (class_norm cfg hr c0) as [c k].
  rewrite bonus_for_wp. destruct (c =? nc).
  - destruct (if in_run then _ else _) as [fb' b'].
    destruct (match nrest with [] => (nc, []) | x :: r => (x, r) end) as [nc' nrest'].
    apply IH.
  - apply IH.
Qed.

Lemma scan_bwd_wp cfg b hr : forall hrev nrev i,
  scan_bwd (with_prefix cfg b) hr nrev hrev i = scan_bwd cfg hr nrev hrev i.
Proof.
  induction hrev as [|c hrev IH]; intros; cbn [scan_bwd]; [reflexivity|].
  destruct nrev as [|nc nrev']; [reflexivity|].
  rewrite norm_wp. destruct (norm cfg hr c =? nc).
  - destruct nrev'; [reflexivity | apply IH].
  - apply IH.
Qed.

Lemma prefix_match_wp cfg b hr : forall n hs,
  prefix_match (with_prefix cfg b) hr n hs = prefix_match cfg hr n hs.
Proof.
  induction n as [|x n IH]; intros; cbn [prefix_match]; [reflexivity|].
  destruct hs as [|c hs]; [reflexivity|]. rewrite norm_wp, IH. reflexivity.
Qed.

Lemma scan_cands_wp cfg b hr p p' (Hp : forall l, p l = p' l) : forall hs i prev,
  scan_cands (with_prefix cfg b) hr p hs i prev = scan_cands cfg hr p' hs i prev.
Proof.
  induction hs as [|c hs IH]; intros; cbn [scan_cands]; [reflexivity|].
  rewrite class_wp, bonus_for_wp, IH, Hp. reflexivity.
Qed.

Lemma best_pos_wp cfg b : forall cands best,
  best_pos (with_prefix cfg b) cands best = best_pos cfg cands best.
Proof.
  induction cands as [|[i x] cands IH]; intros; cbn [best_pos]; [reflexivity|].
  rewrite max_bonus_wp, !IH. reflexivity.
Qed.

(* ================================================================================================= *)
(* 2. the relation between the outcome without and with prefix preference                             *)
(* ================================================================================================= *)
Definition prel (o0 o1 : outcome) : Prop :=
  match o0, o1 with
  | Match s0 i0, Match s1 i1 => i1 = i0 /\ s0 <= s1 /\ s1 <= s0 + 8
  | NoMatch, NoMatch => True
  | Panicked a, Panicked b => a = b
  | _, _ => False
  end.

Lemma prel_refl o : prel o o.
Proof. destruct o; cbn; auto. split; [reflexivity|lia]. Qed.

Lemma bonus_bounded_wp cfg b : bonus_bounded cfg -> bonus_bounded (with_prefix cfg b).
Proof. intros H; exact H. Qed.

Lemma calculate_score_prel cfg hr h n start end_ : bonus_bounded cfg ->
  prel (calculate_score (with_prefix cfg false) hr h n start end_)
       (calculate_score (with_prefix cfg true) hr h n start end_).
Proof.
  intros Hb.
  pose proof (calculate_score_le (with_prefix cfg false) hr h n start end_ (bonus_bounded_wp cfg false Hb)) as Hle.
  revert Hle. unfold calculate_score. destruct n as [|n0 nrest]; [intros _; reflexivity|].
  change (lenN h <=? start) with (lenN h <=? start).
  destruct (lenN h <=? start); [intros _; reflexivity|].
  destruct (match nrest with [] => (n0, []) | x :: r => (x, r) end) as [nc nrest'].
  rewrite !prev_class_wp, !class_wp, !bonus_for_wp, !cs_loop_wp.
  destruct (cs_loop _ _ _ _ _ _ _ _ _ _ _ _) as [sc idx].
  cbn [prefer_prefix with_prefix outcome_le prel]. intros Hle.
  pose proof (C04_prefix_linear start) as Hp. unfold sadd16, U16MAX.
  split; [reflexivity|]. lia.
Qed.

Lemma exact_impl_prel cfg hs ns start end_ : bonus_bounded cfg ->
  prel (exact_impl (with_prefix cfg false) hs ns start end_) (exact_impl (with_prefix cfg true) hs ns start end_).
Proof.
  intros Hb. unfold exact_impl. destruct (negb _); [exact I|].
  cbn [ignore_case with_prefix].
  destruct (rp hs), (rp ns); try exact I.
  - destruct (ignore_case cfg).
    + change (fun p : N * N => norm (with_prefix cfg true) Ascii (fst p) =? norm (with_prefix cfg true) Ascii (snd p))
        with (fun p : N * N => norm (with_prefix cfg false) Ascii (fst p) =? norm (with_prefix cfg false) Ascii (snd p)).
      destruct (_ && _); [apply calculate_score_prel; exact Hb | exact I].
    + destruct (_ && _); [apply calculate_score_prel; exact Hb | exact I].
  - change (fun p : N * N => norm (with_prefix cfg true) Unicode (fst p) =? norm (with_prefix cfg true) Ascii (snd p))
      with (fun p : N * N => norm (with_prefix cfg false) Unicode (fst p) =? norm (with_prefix cfg false) Ascii (snd p)).
    destruct (_ && _); [apply calculate_score_prel; exact Hb | exact I].
  - change (fun p : N * N => norm (with_prefix cfg true) Unicode (fst p) =? norm (with_prefix cfg true) Unicode (snd p))
      with (fun p : N * N => norm (with_prefix cfg false) Unicode (fst p) =? norm (with_prefix cfg false) Unicode (snd p)).
    destruct (_ && _); [apply calculate_score_prel; exact Hb | exact I].
Qed.

Lemma fuzzy_greedy__prel cfg hr nr h n start end_ : bonus_bounded cfg ->
  prel (fuzzy_greedy_ (with_prefix cfg false) hr nr h n start end_)
       (fuzzy_greedy_ (with_prefix cfg true) hr nr h n start end_).
Proof.
  intros Hb. unfold fuzzy_greedy_.
  change (fun nc c : N => norm (with_prefix cfg true) hr c =? nc)
    with (fun nc c : N => norm (with_prefix cfg false) hr c =? nc).
  match goal with |- prel (match ?e with Some _ => _ | None => _ end) _ => destruct e as [e1|]; [|exact I] end.
  rewrite !scan_bwd_wp. apply calculate_score_prel; exact Hb.
Qed.

Lemma substring_1_ascii_wp cfg b h c : substring_1_ascii (with_prefix cfg b) h c = substring_1_ascii cfg h c.
Proof.
  unfold substring_1_ascii. rewrite best_pos_wp. cbn [ignore_case init_class with_prefix].
  rewrite (scan_cands_wp cfg b Ascii _ _ (fun l => eq_refl)). reflexivity.
Qed.

Lemma substring_1_non_ascii_wp cfg b h c st :
  substring_1_non_ascii (with_prefix cfg b) h c st = substring_1_non_ascii cfg h c st.
Proof.
  unfold substring_1_non_ascii. rewrite best_pos_wp, prev_class_wp.
  rewrite (scan_cands_wp cfg b Unicode _ (head_is (fun x => fst (class_norm cfg Unicode x) =? c)) (fun l => eq_refl)).
  reflexivity.
Qed.

Lemma substring_ascii_prel cfg h n : bonus_bounded cfg ->
  prel (substring_ascii (with_prefix cfg false) h n) (substring_ascii (with_prefix cfg true) h n).
Proof.
  intros Hb. unfold substring_ascii. rewrite !best_pos_wp. cbn [init_class with_prefix].
  rewrite !(scan_cands_wp cfg _ Ascii _ (prefix_match cfg Ascii n) (prefix_match_wp cfg _ Ascii n)).
  destruct (best_pos _ _ _) as [[i s]|]; [|exact I]. apply calculate_score_prel; exact Hb.
Qed.

Lemma substring_non_ascii_prel cfg nr h n st : bonus_bounded cfg ->
  prel (substring_non_ascii (with_prefix cfg false) nr h n st) (substring_non_ascii (with_prefix cfg true) nr h n st).
Proof.
  intros Hb. unfold substring_non_ascii. rewrite !best_pos_wp, !prev_class_wp.
  rewrite !(scan_cands_wp cfg _ Unicode _ (prefix_match cfg Unicode n) (prefix_match_wp cfg _ Unicode n)).
  destruct (best_pos _ _ _) as [[i s]|]; [|exact I]. apply calculate_score_prel; exact Hb.
Qed.

(* ================================================================================================= *)
(* 3. the five linear algorithms                                                                      *)
(* ================================================================================================= *)
Lemma run_prel cfg a hs ns : a <> Fuzzy -> bonus_bounded cfg ->
  prel (run (with_prefix cfg false) a hs ns) (run (with_prefix cfg true) a hs ns).
Proof.
  intros Ha Hb. destruct a; [congruence| | | | |]; cbn [run].
  - unfold fuzzy_greedy_impl. destruct (_ <? _); [exact I|].
    destruct (cs ns) as [|n0 nrest] eqn:En; [apply prel_refl|].
    destruct (_ =? _); [apply exact_impl_prel; exact Hb|].
    rewrite ?prefilter_ascii_wp, ?prefilter_non_ascii_wp.
    destruct (rp hs), (rp ns); try exact I.
    + destruct (prefilter_ascii _ _ _ _) as [[[st ge] e]|]; [|exact I].
      destruct (_ =? _); [apply calculate_score_prel | apply fuzzy_greedy__prel]; exact Hb.
    + destruct (prefilter_non_ascii _ _ _ _) as [[st e]|]; [|exact I]. apply fuzzy_greedy__prel; exact Hb.
    + destruct (prefilter_non_ascii _ _ _ _) as [[st e]|]; [|exact I]. apply fuzzy_greedy__prel; exact Hb.
  - unfold substring_impl. destruct (_ <? _); [exact I|].
    destruct (cs ns) as [|n0 nrest] eqn:En; [apply prel_refl|].
    destruct (_ =? _); [apply exact_impl_prel; exact Hb|].
    rewrite ?prefilter_non_ascii_wp, ?substring_1_ascii_wp.
    destruct (rp hs), (rp ns); try exact I.
    + destruct nrest; [apply prel_refl | apply substring_ascii_prel; exact Hb].
    + destruct nrest; (destruct (prefilter_non_ascii _ _ _ _) as [[st e]|]; [|exact I]);
        [rewrite !substring_1_non_ascii_wp; apply prel_refl | apply substring_non_ascii_prel; exact Hb].
    + destruct nrest; (destruct (prefilter_non_ascii _ _ _ _) as [[st e]|]; [|exact I]);
        [rewrite !substring_1_non_ascii_wp; apply prel_refl | apply substring_non_ascii_prel; exact Hb].
  - unfold prefix_entry. destruct (cs ns); [apply prel_refl|].
    destruct (_ <? _); [exact I | apply exact_impl_prel; exact Hb].
  - unfold postfix_entry. destruct (cs ns); [apply prel_refl|].
    destruct (_ <? _); [exact I | apply exact_impl_prel; exact Hb].
  - unfold exact_entry. destruct (cs ns); [apply prel_refl|].
    destruct (_ =? _); [exact I|]. destruct (_ <? _); [apply prel_refl | apply exact_impl_prel; exact Hb].
Qed.

(* C04_prefix for the five algorithms that score through calculate_score; neither the length bound nor
   needle_ok is needed; the reported indices are the same *)
Lemma C04_prefix_linear_algos : forall cfg a hs ns s0 i0 s1 i1, a <> Fuzzy -> bonus_bounded cfg ->
  run (with_prefix cfg false) a hs ns = Match s0 i0 -> run (with_prefix cfg true) a hs ns = Match s1 i1 ->
  s0 <= s1 /\ s1 <= s0 + 8 /\ i1 = i0.
Proof.
  intros cfg a hs ns s0 i0 s1 i1 Ha Hb H0 H1.
  pose proof (run_prel cfg a hs ns Ha Hb) as R. rewrite H0, H1 in R. cbn in R. tauto.
Qed.

(* switching prefer_prefix never changes whether a linear algorithm matches *)
Lemma prefix_same_decision : forall cfg a hs ns, a <> Fuzzy -> bonus_bounded cfg ->
  is_some_match (run (with_prefix cfg false) a hs ns) = is_some_match (run (with_prefix cfg true) a hs ns).
Proof.
  intros cfg a hs ns Ha Hb. pose proof (run_prel cfg a hs ns Ha Hb) as R.
  destruct (run (with_prefix cfg false) a hs ns), (run (with_prefix cfg true) a hs ns); cbn in *; tauto.
Qed.

(* ================================================================================================= *)
(* 4. C04_prefix_stmt is FALSE for the optimal matcher (DP path): both bounds fail                    *)
(* ================================================================================================= *)
(* The DP keeps ONE M-cell per (row, column).  The prefix bonus added to the first-row cells decreases
   with the column, so it can turn "match wins by one" into "skip wins (tie)" in next_m_cell; the two
   branches carry different consecutive bonuses (cb), which changes every later character of the run. *)
Definition cx_cfg : config := config_of preset_default true true false.

(* "xxxxxxxxxxx/axAbc" / "abc": 68 without, 67 with prefix preference *)
Definition cx_low_h : ustr := {| rp := Ascii; cs := repeat 120 11 ++ [47; 97; 120; 65; 98; 99] |}.
Definition cx_low_n : ustr := {| rp := Ascii; cs := [97; 98; 99] |}.
Lemma cx_low_runs :
  run (with_prefix cx_cfg false) Fuzzy cx_low_h cx_low_n = Match 68 [14; 15; 16] /\
  run (with_prefix cx_cfg true) Fuzzy cx_low_h cx_low_n = Match 67 [12; 15; 16].
Proof. split; vm_compute; reflexivity. Qed.

(* "a" ++ 18 * "x" ++ "aBcd" / "abcd": 77 without, 86 with prefix preference *)
Definition cx_up_h : ustr := {| rp := Ascii; cs := [97] ++ repeat 120 18 ++ [97; 66; 99; 100] |}.
Definition cx_up_n : ustr := {| rp := Ascii; cs := [97; 98; 99; 100] |}.
Lemma cx_up_runs :
  run (with_prefix cx_cfg false) Fuzzy cx_up_h cx_up_n = Match 77 [19; 20; 21; 22] /\
  run (with_prefix cx_cfg true) Fuzzy cx_up_h cx_up_n = Match 86 [0; 20; 21; 22].
Proof. split; vm_compute; reflexivity. Qed.

Lemma cx_cfg_bounded : bonus_bounded cx_cfg.
Proof. split; vm_compute; discriminate. Qed.

(* the lower bound alone is refuted *)
Lemma C04_prefix_lower_counterexample :
  ~ (forall cfg a hs ns s0 i0 s1 i1, bonus_bounded cfg -> lenN (cs ns) <= 2400 ->
       needle_ok cfg (rp ns) (cs ns) = true ->
       run (with_prefix cfg false) a hs ns = Match s0 i0 -> run (with_prefix cfg true) a hs ns = Match s1 i1 ->
       s0 <= s1).
Proof.
  intros H. destruct cx_low_runs as [H0 H1].
  assert (G : 68 <= 67) by (apply (H cx_cfg Fuzzy cx_low_h cx_low_n 68 [14; 15; 16] 67 [12; 15; 16] cx_cfg_bounded);
    [vm_compute; discriminate | vm_compute; reflexivity | exact H0 | exact H1]).
  vm_compute in G. apply G. reflexivity.
Qed.

(* the upper bound alone is refuted *)
Lemma C04_prefix_upper_counterexample :
  ~ (forall cfg a hs ns s0 i0 s1 i1, bonus_bounded cfg -> lenN (cs ns) <= 2400 ->
       needle_ok cfg (rp ns) (cs ns) = true ->
       run (with_prefix cfg false) a hs ns = Match s0 i0 -> run (with_prefix cfg true) a hs ns = Match s1 i1 ->
       s1 <= s0 + 8).
Proof.
  intros H. destruct cx_up_runs as [H0 H1].
  assert (G : 86 <= 77 + 8) by (apply (H cx_cfg Fuzzy cx_up_h cx_up_n 77 [19; 20; 21; 22] 86 [0; 20; 21; 22] cx_cfg_bounded);
    [vm_compute; discriminate | vm_compute; reflexivity | exact H0 | exact H1]).
  vm_compute in G. apply G. reflexivity.
Qed.

Lemma C04_prefix_counterexample : ~ C04_prefix_stmt.
Proof.
  intros H. apply C04_prefix_lower_counterexample.
  intros cfg a hs ns s0 i0 s1 i1 Hb Hl Hn H0 H1. exact (proj1 (H cfg a hs ns s0 i0 s1 i1 Hb Hl Hn H0 H1)).
Qed.

(* ================================================================================================= *)
(* 5. the optimal matcher: what does hold                                                             *)
(* ================================================================================================= *)
Lemma setup_loop_wp cfg b hr : forall hs i prev nc nrest matched,
  setup_loop (with_prefix cfg b) hr hs i prev nc nrest matched = setup_loop cfg hr hs i prev nc nrest matched.
Proof.
  induction hs as [|c0 hs IH]; intros; cbn [setup_loop]; [reflexivity|].
  rewrite class_norm_wp. destruct (class_norm cfg hr c0) as [c k]. rewrite bonus_for_wp.
  destruct (c =? nc); [destruct nrest|]; rewrite IH; reflexivity.
Qed.

(* scores only *)
Definition srel (o0 o1 : outcome) : Prop :=
  match o0, o1 with Match s0 _, Match s1 _ => s0 <= s1 /\ s1 <= s0 + 8 | _, _ => True end.
Lemma prel_srel o0 o1 : prel o0 o1 -> srel o0 o1.
Proof. destruct o0, o1; cbn; tauto. Qed.

Definition nrel (x0 x1 : N) : Prop := x0 <= x1 /\ x1 <= x0 + 8.
Definition crel (c0 c1 : cell) : Prop := nrel (sc c0) (sc c1).
Lemma crel_refl c : crel c c.
Proof. unfold crel, nrel. lia. Qed.
Lemma Forall2_crel_refl l : Forall2 crel l l.
Proof. induction l; constructor; auto using crel_refl. Qed.

Lemma p_score_rel pp0 pm0 pp1 pm1 : nrel pp0 pp1 -> nrel pm0 pm1 ->
  nrel (fst (p_score pp0 pm0)) (fst (p_score pp1 pm1)).
Proof.
  unfold nrel, p_score, PENALTY_GAP_START, PENALTY_GAP_EXTENSION. intros [A B] [C D].
  destruct (pp0 - 1 <? pm0 - 3) eqn:E0, (pp1 - 1 <? pm1 - 3) eqn:E1; cbn [fst]; lia.
Qed.

(* a first-row cell: unmatched in both runs, or matched with the prefix bonus added *)
Definition frel (m0 m1 : cell) : Prop :=
  (m0 = UNMATCHED /\ m1 = UNMATCHED) \/
  (mt m0 = false /\ mt m1 = false /\ cb m0 = cb m1 /\ nrel (sc m0) (sc m1)).

Lemma frel_sc m0 m1 : frel m0 m1 -> nrel (sc m0) (sc m1).
Proof. intros [[-> ->]|[_ [_ [_ H]]]]; [unfold nrel; cbn; lia | exact H]. Qed.

Lemma next_m_cell_rel p0 p1 b m0 m1 : nrel p0 p1 -> frel m0 m1 ->
  crel (next_m_cell p0 b m0) (next_m_cell p1 b m1).
Proof.
  intros [A B] [[-> ->]|[M0 [M1 [Ecb [C D]]]]]; unfold crel, nrel, next_m_cell.
  - change (cell_eqb UNMATCHED UNMATCHED) with true. cbn [sc]. lia.
  - assert (F0 : cell_eqb m0 UNMATCHED = false).
    { unfold cell_eqb, UNMATCHED; cbn [mt sc cb]. rewrite M0. cbn. apply andb_false_r. }
    assert (F1 : cell_eqb m1 UNMATCHED = false).
    { unfold cell_eqb, UNMATCHED; cbn [mt sc cb]. rewrite M1. cbn. apply andb_false_r. }
    rewrite F0, F1, <- Ecb.
    set (cb0 := N.max (cb m0) BONUS_CONSECUTIVE).
    set (cb1 := if (BONUS_BOUNDARY <=? b) && (cb0 <? b) then b else cb0).
    destruct (p0 + b <? sc m0 + N.max cb1 b) eqn:E0, (p1 + b <? sc m1 + N.max cb1 b) eqn:E1; cbn [sc]; lia.
Qed.

Definition first_cell (c nc b pfx : N) : cell :=
  if c =? nc then {| sc := b * BONUS_FIRST_CHAR_MULTIPLIER + SCORE_MATCH + pfx / PREFIX_BONUS_SCALE; cb := b; mt := false |}
  else UNMATCHED.

Lemma first_cell_rel c nc b pfx : pfx <= 16 -> frel (first_cell c nc b 0) (first_cell c nc b pfx).
Proof.
  intros H. unfold first_cell. destruct (c =? nc); [right | left; auto].
  assert (pfx / 2 <= 8) by (apply N.div_le_upper_bound; lia).
  cbn [mt cb sc]. unfold nrel, PREFIX_BONUS_SCALE. change (0 / 2) with 0. repeat split; lia.
Qed.

Lemma skip_pass_first_rel nc : forall hs bs rs pp0 pm0 pp1 pm1 pfx,
  nrel pp0 pp1 -> nrel pm0 pm1 -> pfx <= 16 ->
  match skip_pass true nc hs bs rs pp0 pm0 0, skip_pass true nc hs bs rs pp1 pm1 pfx with
  | (a0, m0, f0, _), (a1, m1, f1, _) => nrel a0 a1 /\ nrel m0 m1 /\ f0 = 0 /\ f1 <= 16
  end.
Proof.
  induction hs as [|c hs IH]; intros bs rs pp0 pm0 pp1 pm1 pfx Hp Hm Hf; cbn [skip_pass]; [auto|].
  destruct bs as [|b bs]; [auto|]. destruct rs as [|r rs]; [auto|].
  pose proof (p_score_rel pp0 pm0 pp1 pm1 Hp Hm) as Hps.
  destruct (p_score pp0 pm0) as [q0 f0], (p_score pp1 pm1) as [q1 f1]. cbn [fst] in Hps.
  fold (first_cell c nc b 0). fold (first_cell c nc b pfx).
  pose proof (frel_sc _ _ (first_cell_rel c nc b pfx Hf)) as Hc.
  assert (Hf' : pfx - PENALTY_GAP_EXTENSION <= 16) by lia.
  specialize (IH bs rs q0 (sc (first_cell c nc b 0)) q1 (sc (first_cell c nc b pfx)) (pfx - PENALTY_GAP_EXTENSION) Hps Hc Hf').
  change (0 - PENALTY_GAP_EXTENSION) with 0.
  destruct (skip_pass true nc hs bs rs q0 _ 0) as [[[a0 m0] g0] l0].
  destruct (skip_pass true nc hs bs rs q1 _ _) as [[[a1 m1] g1] l1]. exact IH.
Qed.

Lemma main_pass_first_rel nc nnc : forall hs bs rs pp0 pm0 pp1 pm1 pfx,
  nrel pp0 pp1 -> nrel pm0 pm1 -> pfx <= 16 ->
  Forall2 crel (fst (main_pass true nc nnc hs bs rs pp0 pm0 0)) (fst (main_pass true nc nnc hs bs rs pp1 pm1 pfx)).
Proof.
  induction hs as [|c0 hs IH]; intros bs rs pp0 pm0 pp1 pm1 pfx Hp Hm Hf; cbn [main_pass fst];
    [apply Forall2_crel_refl|].
  destruct hs as [|c1 hs']; [apply Forall2_crel_refl|].
  destruct bs as [|b0 bs]; [apply Forall2_crel_refl|]. destruct bs as [|b1 bs']; [apply Forall2_crel_refl|].
  destruct rs as [|r rs]; [apply Forall2_crel_refl|].
  pose proof (p_score_rel pp0 pm0 pp1 pm1 Hp Hm) as Hps.
  destruct (p_score pp0 pm0) as [q0 f0], (p_score pp1 pm1) as [q1 f1]. cbn [fst] in Hps.
  fold (first_cell c0 nc b0 0). fold (first_cell c0 nc b0 pfx).
  pose proof (first_cell_rel c0 nc b0 pfx Hf) as Hfc. pose proof (frel_sc _ _ Hfc) as Hc.
  assert (Hf' : pfx - PENALTY_GAP_EXTENSION <= 16) by lia.
  specialize (IH (b1 :: bs') rs q0 (sc (first_cell c0 nc b0 0)) q1 (sc (first_cell c0 nc b0 pfx))
                 (pfx - PENALTY_GAP_EXTENSION) Hps Hc Hf').
  change (0 - PENALTY_GAP_EXTENSION) with 0.
  destruct (main_pass true nc nnc (c1 :: hs') (b1 :: bs') rs q0 _ 0) as [t0 l0].
  destruct (main_pass true nc nnc (c1 :: hs') (b1 :: bs') rs q1 _ _) as [t1 l1].
  cbn [fst] in *. constructor; [|exact IH].
  destruct (c1 =? nnc); [apply next_m_cell_rel; assumption | apply crel_refl].
Qed.

Lemma score_row_first_rel row hw bs ro nro ni nc nnc pfx : pfx <= 16 ->
  match score_row true row hw bs ro nro ni nc nnc 0, score_row true row hw bs ro nro ni nc nnc pfx with
  | Some (r0, _), Some (r1, _) => Forall2 crel r0 r1
  | None, None => True
  | _, _ => False
  end.
Proof.
  intros Hf. unfold score_row. destruct (_ || _); [exact I|].
  assert (Z : nrel 0 0) by (unfold nrel; lia).
  pose proof (skip_pass_first_rel nc (sliceN ro (nro - 1) hw) (sliceN ro (nro - 1) bs)
                (sliceN (ro - ni) (nro - 1 - ni) row) 0 0 0 0 pfx Z Z Hf) as Hs.
  destruct (skip_pass true nc _ _ _ 0 0 0) as [[[a0 m0] g0] l0].
  destruct (skip_pass true nc _ _ _ 0 0 pfx) as [[[a1 m1] g1] l1].
  destruct Hs as [Ha [Hm [-> Hg]]].
  pose proof (main_pass_first_rel nc nnc (dropN (nro - 1) hw) (dropN (nro - 1) bs) (dropN (nro - 1 - ni) row)
                a0 m0 a1 m1 g1 Ha Hm Hg) as Hmp.
  destruct (main_pass true nc nnc _ _ _ a0 m0 0) as [t0 c0].
  destruct (main_pass true nc nnc _ _ _ a1 m1 g1) as [t1 c1]. cbn [fst] in Hmp.
  apply Forall2_app; [apply Forall2_crel_refl | exact Hmp].
Qed.

Lemma Forall2_skipn {A B} (R : A -> B -> Prop) : forall k l0 l1, Forall2 R l0 l1 -> Forall2 R (skipn k l0) (skipn k l1).
Proof.
  induction k as [|k IH]; intros l0 l1 H; [exact H|].
  destruct H; cbn [skipn]; [constructor | apply IH; assumption].
Qed.

Definition orel (o0 o1 : option (N * cell)) : Prop :=
  match o0, o1 with
  | Some (_, c0), Some (_, c1) => crel c0 c1
  | None, None => True
  | _, _ => False
  end.

Lemma argmax_last_rel : forall l0 l1, Forall2 crel l0 l1 -> forall i0 i1 b0 b1, orel b0 b1 ->
  orel (argmax_last l0 i0 b0) (argmax_last l1 i1 b1).
Proof.
  induction 1 as [|c0 c1 l0 l1 Hc Hl IH]; intros i0 i1 b0 b1 Hb; cbn [argmax_last]; [exact Hb|].
  apply IH. destruct b0 as [[j0 d0]|], b1 as [[j1 d1]|]; cbn [orel] in *; try contradiction; [|exact Hc].
  unfold crel, nrel in *.
  destruct (sc c0 <? sc d0) eqn:E0, (sc c1 <? sc d1) eqn:E1; cbn [orel]; unfold crel, nrel; lia.
Qed.

Lemma prefix_bonus_dp_le cfg start : prefix_bonus_dp cfg start <= 16.
Proof.
  unfold prefix_bonus_dp, MAX_PREFIX_BONUS, PREFIX_BONUS_SCALE, PENALTY_GAP_START.
  destruct (prefer_prefix cfg); [|lia]. destruct (start =? 0); lia.
Qed.

(* needle too large for the slab: the greedy fallback, a linear scorer *)
Lemma fuzzy_optimal_noslab cfg hr nr h n start ge end_ row : bonus_bounded cfg ->
  slab_alloc_ok hr (lenN (sliceN start end_ h)) (lenN n) = false ->
  prel (fuzzy_optimal (with_prefix cfg false) hr nr h n start ge end_ row)
       (fuzzy_optimal (with_prefix cfg true) hr nr h n start ge end_ row).
Proof.
  intros Hb Hs. unfold fuzzy_optimal. rewrite Hs. cbn [negb]. apply fuzzy_greedy__prel; exact Hb.
Qed.

(* a two-character needle: one scored row, the maximum of monotone cells *)
Lemma fuzzy_optimal_len2 cfg hr nr h n0 n1 start ge end_ row : bonus_bounded cfg ->
  srel (fuzzy_optimal (with_prefix cfg false) hr nr h [n0; n1] start ge end_ row)
       (fuzzy_optimal (with_prefix cfg true) hr nr h [n0; n1] start ge end_ row).
Proof.
  intros Hb. unfold fuzzy_optimal.
  destruct (negb _); [apply prel_srel, fuzzy_greedy__prel; exact Hb|].
  rewrite !prev_class_wp, !setup_loop_wp.
  destruct (setup_loop _ _ _ _ _ _ _ _) as [[[hw bs] ro] matched].
  destruct (negb matched); [destruct hr, nr; exact I|].
  set (W := lenN (sliceN start end_ h)). set (m := lenN [n0; n1]).
  set (row0 := takeN (W + 1 - m) (row ++ repeat ZERO_CELL (N.to_nat (W + 1 - m)))).
  change (prefix_bonus_dp (with_prefix cfg false) start) with 0.
  pose proof (score_row_first_rel row0 hw bs 0 (nthN ro 1 0) 0 n0 n1 (prefix_bonus_dp (with_prefix cfg true) start)
                (prefix_bonus_dp_le _ _)) as Hr.
  destruct (score_row true row0 hw bs 0 (nthN ro 1 0) 0 n0 n1 0) as [[r0 c0]|];
  destruct (score_row true row0 hw bs 0 (nthN ro 1 0) 0 n0 n1 _) as [[r1 c1]|]; try contradiction; [|exact I].
  cbn [populate].
  destruct (nthN ro (m - 1) 0 + 1 <? m); [exact I|].
  pose proof (argmax_last_rel _ _ (Forall2_skipn crel (N.to_nat (nthN ro (m - 1) 0 + 1 - m)) r0 r1 Hr) 0 0 None None I) as Ha.
  unfold dropN.
  destruct (argmax_last (skipn _ r0) 0 None) as [[e0 b0]|], (argmax_last (skipn _ r1) 0 None) as [[e1 b1]|];
    cbn [orel] in Ha; try contradiction; [|exact I].
  repeat match goal with
  | |- srel (Match _ _) (Match _ _) => exact Ha
  | |- srel (Panicked _) _ => exact I
  | |- srel NoMatch _ => exact I
  | |- srel _ (Panicked _) => destruct (_ : outcome); exact I
  | |- srel (match ?x with _ => _ end) _ => destruct x
  | |- srel (if ?x then _ else _) _ => destruct x
  | |- srel (Match ?s ?i) (match ?x with _ => _ end) => destruct x
  | |- srel (Match ?s ?i) (if ?x then _ else _) => destruct x
  | |- srel (Match ?s ?i) _ => exact I
  end.
Qed.

Lemma fuzzy_impl_srel cfg hs ns row : bonus_bounded cfg ->
  (length (cs ns) <= 2)%nat \/ dp_taken cfg hs ns = false ->
  srel (fuzzy_impl (with_prefix cfg false) hs ns row) (fuzzy_impl (with_prefix cfg true) hs ns row).
Proof.
  intros Hb Hc. unfold dp_taken, dp_window in Hc. unfold fuzzy_impl.
  destruct (lenN (cs hs) <? lenN (cs ns)); [exact I|].
  destruct (cs ns) as [|n0 nrest] eqn:En; [apply prel_srel, prel_refl|].
  destruct (lenN (n0 :: nrest) =? lenN (cs hs)); [apply prel_srel, exact_impl_prel; exact Hb|].
  rewrite ?prefilter_ascii_wp, ?prefilter_non_ascii_wp, ?substring_1_ascii_wp.
  destruct nrest as [|n1 nrest].
  - destruct (rp hs), (rp ns); try exact I; [apply prel_srel, prel_refl|..];
      (destruct (prefilter_non_ascii _ _ _ _) as [[st e]|]; [|exact I]);
      rewrite !substring_1_non_ascii_wp; apply prel_srel, prel_refl.
  - assert (Hopt : forall hr nr st ge e, rp hs = hr ->
              ((length (n0 :: n1 :: nrest) <= 2)%nat \/
               slab_alloc_ok hr (lenN (sliceN st e (cs hs))) (lenN (n0 :: n1 :: nrest)) = false) ->
              srel (fuzzy_optimal (with_prefix cfg false) hr nr (cs hs) (n0 :: n1 :: nrest) st ge e row)
                   (fuzzy_optimal (with_prefix cfg true) hr nr (cs hs) (n0 :: n1 :: nrest) st ge e row)).
    { intros hr nr st ge e Ehr [Hl|Hs].
      - destruct nrest; [apply fuzzy_optimal_len2; exact Hb | cbn in Hl; lia].
      - apply prel_srel, fuzzy_optimal_noslab; assumption. }
    destruct (rp hs) eqn:Ehs, (rp ns) eqn:Ens; try exact I.
    + destruct (prefilter_ascii _ _ _ _) as [[[st ge] e]|]; [|exact I].
      destruct (_ =? _); [apply prel_srel, calculate_score_prel; exact Hb|].
      apply Hopt; [reflexivity | exact Hc].
    + destruct (prefilter_non_ascii _ _ _ _) as [[st e]|]; [|exact I].
      destruct (_ =? _); [apply prel_srel, exact_impl_prel; exact Hb|].
      apply Hopt; [reflexivity | exact Hc].
    + destruct (prefilter_non_ascii _ _ _ _) as [[st e]|]; [|exact I].
      destruct (_ =? _); [apply prel_srel, exact_impl_prel; exact Hb|].
      apply Hopt; [reflexivity | exact Hc].
Qed.

(* ================================================================================================= *)
(* 6. corrected statement                                                                             *)
(* ================================================================================================= *)
(* C04_prefix_stmt restricted, for the optimal matcher, to the calls that do not reach a score matrix
   with three or more rows: needle of at most two characters, or any call that is answered by the
   exact / single-character / tight-window / greedy-fallback paths (dp_taken = false).  The length bound
   and needle_ok are not needed.  For a needle of >= 3 characters on the matrix path both inequalities
   fail (C04_prefix_lower_counterexample, C04_prefix_upper_counterexample). *)
Definition C04_prefix_weak_stmt : Prop :=
  forall cfg a hs ns s0 i0 s1 i1, bonus_bounded cfg ->
    (a = Fuzzy -> (length (cs ns) <= 2)%nat \/ dp_taken cfg hs ns = false) ->
    run (with_prefix cfg false) a hs ns = Match s0 i0 -> run (with_prefix cfg true) a hs ns = Match s1 i1 ->
    s0 <= s1 /\ s1 <= s0 + 8.

Lemma algo_eq_dec_fuzzy (a : algo) : {a = Fuzzy} + {a <> Fuzzy}.
Proof. destruct a; [left; reflexivity | right; discriminate ..]. Qed.

Lemma C04_prefix_weak : C04_prefix_weak_stmt.
Proof.
  intros cfg a hs ns s0 i0 s1 i1 Hb Hf H0 H1.
  destruct (algo_eq_dec_fuzzy a) as [->|Ha].
  - pose proof (fuzzy_impl_srel cfg hs ns [] Hb (Hf eq_refl)) as R. cbn [run] in H0, H1.
    rewrite H0, H1 in R. exact R.
  - pose proof (C04_prefix_linear_algos cfg a hs ns s0 i0 s1 i1 Ha Hb H0 H1). tauto.
Qed.

(* the counterexamples do take the matrix path with a needle of 3 resp. 4 characters *)
Lemma cx_dp_taken : dp_taken cx_cfg cx_low_h cx_low_n = true /\ dp_taken cx_cfg cx_up_h cx_up_n = true.
Proof. split; vm_compute; reflexivity. Qed.

Print Assumptions C04_prefix_linear_algos.
Print Assumptions C04_prefix_weak.
Print Assumptions C04_prefix_counterexample.
Print Assumptions C04_prefix_lower_counterexample.
Print Assumptions C04_prefix_upper_counterexample.
Print Assumptions fuzzy_optimal_len2.
