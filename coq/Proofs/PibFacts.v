(* The block-partition model Model.ParSort.partition_in_blocks satisfies its contract pib_ok
   (Spec/SortSpec.v), for every comparator; hence the `_partial` theorems of Props/C18.v hold
   unconditionally for the executable model par_quicksort_model. *)
From Coq Require Import List Bool Arith Lia Permutation Sorted.
From NV Require Import Model.ParSort Spec.SortSpec Proofs.C18Facts.
Import ListNotations.

(* ---- generic facts about nth / upd / swap ------------------------------------------------------------ *)
Lemma nth_nth_error {A} (l : list A) i d : nth i l d = match nth_error l i with Some x => x | None => d end.
Proof. revert i. induction l as [|x t IH]; intros [|i]; cbn; auto. Qed.

Lemma nth_upd {A} i (x : A) l k d : i < length l ->
  nth k (upd i x l) d = if k =? i then x else nth k l d.
Proof.
  intros Hi. rewrite !nth_nth_error, nth_error_upd. apply Nat.ltb_lt in Hi. rewrite Hi.
  destruct (k =? i); reflexivity.
Qed.

Lemma nth_swap {A} i j (l : list A) k d : i < length l -> j < length l ->
  nth k (swap i j l) d = if k =? j then nth i l d else if k =? i then nth j l d else nth k l d.
Proof.
  intros Hi Hj. rewrite !nth_nth_error, nth_error_swap by assumption.
  destruct (k =? j); [reflexivity|]. destruct (k =? i); reflexivity.
Qed.

Lemma nth_firstn {A} n (l : list A) k d : k < n -> nth k (firstn n l) d = nth k l d.
Proof.
  intros Hk. rewrite !nth_nth_error, nth_error_firstn. apply Nat.ltb_lt in Hk. now rewrite Hk.
Qed.

Lemma Forall_nth_iff {A} (P : A -> Prop) l d : Forall P l <-> (forall i, i < length l -> P (nth i l d)).
Proof.
  split.
  - intros H i Hi. rewrite Forall_forall in H. apply H, nth_In, Hi.
  - intros H. apply Forall_forall. intros x Hx. destruct (In_nth _ _ d Hx) as (i & Hi & <-). auto.
Qed.

Lemma upd_all_length {A} ps (l : list A) : length (upd_all ps l) = length l.
Proof.
  revert l. induction ps as [|[i x] t IH]; intros l; cbn [upd_all]; [reflexivity|].
  now rewrite IH, upd_length.
Qed.

Lemma nth_upd_all_other {A} ps (l : list A) k d :
  ~ In k (map fst ps) -> nth k (upd_all ps l) d = nth k l d.
Proof.
  revert l. induction ps as [|[i x] t IH]; intros l Hk; cbn [upd_all]; [reflexivity|].
  cbn [map fst In] in Hk. rewrite IH by tauto.
  destruct (Nat.lt_ge_cases i (length l)) as [Hi|Hi].
  - rewrite nth_upd by assumption. destruct (Nat.eqb_spec k i); [subst; tauto | reflexivity].
  - rewrite !nth_nth_error, nth_error_upd. destruct (Nat.eqb_spec k i); [subst; tauto | reflexivity].
Qed.

Lemma map_fst_combine {B C} (l1 : list B) (l2 : list C) : length l1 = length l2 ->
  map fst (combine l1 l2) = l1.
Proof.
  revert l2. induction l1 as [|a t IH]; intros [|b l2] H; cbn in *; try discriminate; auto.
  f_equal. apply IH. lia.
Qed.

(* positions written by upd_all hold one of the written values *)
Lemma nth_upd_all_in {A} ol vals (l : list A) k d :
  NoDup ol -> length vals = length ol -> (forall i, In i ol -> i < length l) ->
  In k ol -> In (nth k (upd_all (combine ol vals) l) d) vals.
Proof.
  revert vals l. induction ol as [|i t IH]; intros vals l Hnd Hlen Hb Hk; [destruct Hk|].
  destruct vals as [|x vals]; [discriminate|]. cbn [combine upd_all].
  inversion Hnd as [|? ? Hni Hnd']; subst.
  destruct (Nat.eq_dec k i) as [->|Hne].
  - left. rewrite nth_upd_all_other.
    + rewrite nth_upd by (apply Hb; now left). now rewrite Nat.eqb_refl.
    + rewrite map_fst_combine by (cbn in Hlen; lia). assumption.
  - right. apply IH; [assumption | cbn in Hlen; lia | | destruct Hk; [congruence | assumption]].
    intros j Hj. rewrite upd_length. apply Hb. now right.
Qed.

(* upd_all on distinct valid positions: the written values go in, the old values come out *)
Lemma upd_all_perm {A} ol vals (l : list A) d :
  NoDup ol -> length vals = length ol -> (forall i, In i ol -> i < length l) ->
  Permutation (upd_all (combine ol vals) l ++ map (fun i => nth i l d) ol) (l ++ vals).
Proof.
  revert vals l. induction ol as [|i t IH]; intros vals l Hnd Hlen Hb.
  - destruct vals; [|discriminate]. cbn. reflexivity.
  - destruct vals as [|x vals]; [discriminate|]. cbn [combine upd_all map].
    inversion Hnd as [|? ? Hni Hnd']; subst.
    assert (Hi : i < length l) by (apply Hb; now left).
    assert (Hm : map (fun j => nth j l d) t = map (fun j => nth j (upd i x l) d) t).
    { apply map_ext_in. intros j Hj. rewrite nth_upd by assumption.
      destruct (Nat.eqb_spec j i); [subst; tauto | reflexivity]. }
    rewrite Hm. rewrite <- Permutation_middle.
    rewrite (IH vals (upd i x l)); [ | assumption | cbn in Hlen; lia | ].
    + rewrite <- Permutation_middle.
      assert (Hn : nth_error l i = Some (nth i l d)).
      { rewrite nth_nth_error. destruct (nth_error l i) eqn:E; [reflexivity|].
        apply nth_error_None in E. lia. }
      change (Permutation ((nth i l d :: upd i x l) ++ vals) ((x :: l) ++ vals)).
      apply Permutation_app_tail. symmetry. apply upd_perm, Hn.
    + intros j Hj. rewrite upd_length. apply Hb. now right.
Qed.

(* ---- strictly ascending index lists -------------------------------------------------------------------- *)
Lemma SS_lt_NoDup l : StronglySorted lt l -> NoDup l.
Proof.
  induction 1 as [|a l Hs IH Hf]; constructor; auto.
  intros Hin. rewrite Forall_forall in Hf. specialize (Hf a Hin). lia.
Qed.

Lemma SS_lt_split c l : StronglySorted lt l ->
  StronglySorted lt (firstn c l) /\ StronglySorted lt (skipn c l) /\
  (forall a b, In a (firstn c l) -> In b (skipn c l) -> a < b).
Proof. intros H. rewrite <- (firstn_skipn c l) in H. apply SS_app in H. exact H. Qed.

Lemma in_split_fs {B} c (l : list B) x : In x l <-> In x (firstn c l) \/ In x (skipn c l).
Proof. rewrite <- (firstn_skipn c l) at 1. apply in_app_iff. Qed.

(* ---- marks: the offsets of a block are exactly the positions of the elements satisfying f ----------------- *)
Section Marks.
Context {A : Type}.
Variable d : A.

Definition marks (f : A -> bool) (blk : list A) (offs : list nat) : Prop :=
  StronglySorted lt offs /\
  (forall i, In i offs -> i < length blk) /\
  (forall i, i < length blk -> (In i offs <-> f (nth i blk d) = true)).

Lemma trace_block_gen f blk : forall k,
  StronglySorted lt (trace_block f blk k) /\
  (forall i, In i (trace_block f blk k) -> k <= i < k + length blk) /\
  (forall i, k <= i < k + length blk -> (In i (trace_block f blk k) <-> f (nth (i - k) blk d) = true)).
Proof.
  induction blk as [|x t IH]; intros k; cbn [trace_block length].
  - split; [constructor|]. split; [intros i []|]. intros i Hi. lia.
  - destruct (IH (S k)) as (S1 & B1 & M1).
    assert (HM : forall i, k <= i < k + S (length t) ->
                 (i = k /\ f x = true) \/ In i (trace_block f t (S k)) <-> f (nth (i - k) (x :: t) d) = true).
    { intros i Hi. destruct (Nat.eq_dec i k) as [->|Hne].
      - rewrite Nat.sub_diag. cbn [nth]. split; [|tauto].
        intros [[_ H]|H]; [assumption | apply B1 in H; lia].
      - replace (i - k) with (S (i - S k)) by lia. cbn [nth]. rewrite <- M1 by lia. split; [|tauto].
        intros [[H _]|H]; [congruence | assumption]. }
    destruct (f x) eqn:Fx.
    + split; [|split].
      * constructor; [assumption|]. apply Forall_forall. intros i Hi. apply B1 in Hi. lia.
      * intros i [<-|H]; [lia | apply B1 in H; lia].
      * intros i Hi. rewrite <- (HM i Hi). cbn [In]. split.
        -- intros [<-|Hin]; auto.
        -- intros [[-> _]|Hin]; auto.
    + split; [|split].
      * assumption.
      * intros i H. apply B1 in H; lia.
      * intros i Hi. rewrite <- (HM i Hi). split; [auto|].
        intros [[_ Hf]|Hf]; [discriminate | assumption].
Qed.

Lemma trace_block_marks f blk : marks f blk (trace_block f blk 0).
Proof.
  destruct (trace_block_gen f blk 0) as (S1 & B1 & M1). split; [assumption|]. split.
  - intros i Hi. apply B1 in Hi. lia.
  - intros i Hi. rewrite M1 by lia. now rewrite Nat.sub_0_r.
Qed.

Lemma marks_nil f blk : marks f blk [] -> Forall (fun x => f x = false) blk.
Proof.
  intros (_ & _ & M). apply (Forall_nth_iff _ _ d). intros i Hi.
  destruct (f (nth i blk d)) eqn:E; [|reflexivity]. apply M in E; [destruct E | assumption].
Qed.

Lemma marks_in f blk offs i : marks f blk offs -> In i offs -> f (nth i blk d) = true.
Proof. intros (_ & B & M) Hi. apply M; auto. Qed.

(* overwrite the first c marked positions by values that do not satisfy f: the remaining marks are the
   remaining offsets *)
Lemma marks_upd_all f blk offs c vals :
  marks f blk offs -> length vals = length (firstn c offs) -> Forall (fun x => f x = false) vals ->
  marks f (upd_all (combine (firstn c offs) vals) blk) (skipn c offs).
Proof.
  intros (S0 & B & M) Hlen Hv.
  destruct (SS_lt_split c offs S0) as (S1 & S2 & S12).
  pose proof (SS_lt_NoDup _ S1) as ND.
  split; [assumption|]. split.
  - intros i Hi. rewrite upd_all_length. apply B. apply (in_split_fs c). now right.
  - intros i H. rewrite upd_all_length in H. split.
    + intros Hin. rewrite nth_upd_all_other.
      * apply M; [assumption|]. apply (in_split_fs c). now right.
      * rewrite map_fst_combine by (symmetry; assumption). intros Hin'.
        specialize (S12 _ _ Hin' Hin). lia.
    + intros Hf.
      destruct (in_dec Nat.eq_dec i (firstn c offs)) as [Hin|Hnin].
      * exfalso. pose proof (nth_upd_all_in (firstn c offs) vals blk i d ND Hlen) as Hv'.
        rewrite Forall_forall in Hv. rewrite Hv in Hf; [discriminate|].
        apply Hv'; [|assumption]. intros j Hj. apply B. apply (in_split_fs c). now left.
      * rewrite nth_upd_all_other in Hf by (rewrite map_fst_combine by (symmetry; assumption); assumption).
        apply M in Hf; [|assumption]. apply (in_split_fs c) in Hf. tauto.
Qed.
End Marks.

Lemma perm4 {B} (a b x y : list B) : Permutation (a ++ b ++ x ++ y) ((a ++ x) ++ (b ++ y)).
Proof.
  rewrite <- app_assoc. apply Permutation_app_head. rewrite !app_assoc. apply Permutation_app_tail.
  apply Permutation_app_comm.
Qed.

(* ---- the block partition ------------------------------------------------------------------------------ *)
Section Pib.
Context {A : Type}.
Variable less : A -> A -> bool.
Variable p : A.

Definition fL (x : A) : bool := negb (less x p).   (* misplaced in the left block *)
Definition fR (x : A) : bool := less x p.          (* misplaced in the right block *)

Lemma fL_fR x : fL x = true -> fR x = false.
Proof. unfold fL, fR. now destruct (less x p). Qed.
Lemma fR_fL x : fR x = true -> fL x = false.
Proof. unfold fL, fR. now destruct (less x p). Qed.

Lemma cyclic_spec lb rb offsL offsR c :
  marks p fL lb offsL -> marks p fR rb offsR -> c = Nat.min (length offsL) (length offsR) ->
  length (fst (cyclic p lb rb (firstn c offsL) (firstn c offsR))) = length lb /\
  length (snd (cyclic p lb rb (firstn c offsL) (firstn c offsR))) = length rb /\
  Permutation (fst (cyclic p lb rb (firstn c offsL) (firstn c offsR)) ++
               snd (cyclic p lb rb (firstn c offsL) (firstn c offsR))) (lb ++ rb) /\
  marks p fL (fst (cyclic p lb rb (firstn c offsL) (firstn c offsR))) (skipn c offsL) /\
  marks p fR (snd (cyclic p lb rb (firstn c offsL) (firstn c offsR))) (skipn c offsR).
Proof.
  intros ML MR Hc. unfold cyclic. cbn [fst snd].
  set (ol := firstn c offsL). set (or := firstn c offsR).
  set (lvals := map (fun i => nth i lb p) ol). set (rvals := map (fun i => nth i rb p) or).
  set (lrot := match lvals with [] => [] | x :: t => t ++ [x] end).
  assert (Lol : length ol = c) by (unfold ol; rewrite firstn_length; lia).
  assert (Lor : length or = c) by (unfold or; rewrite firstn_length; lia).
  assert (Hrot : Permutation lrot lvals).
  { unfold lrot. destruct lvals as [|x t]; [reflexivity|]. symmetry. apply Permutation_cons_append. }
  assert (Llv : length lvals = c) by (unfold lvals; now rewrite map_length).
  assert (Lrv : length rvals = c) by (unfold rvals; now rewrite map_length).
  assert (Llr : length lrot = c) by (rewrite (Permutation_length Hrot); assumption).
  assert (FL : Forall (fun x => fL x = true) lvals).
  { unfold lvals. apply Forall_forall. intros x Hx. apply in_map_iff in Hx as (i & <- & Hi).
    apply (marks_in p fL lb offsL); [assumption|]. apply (in_split_fs c). now left. }
  assert (FR : Forall (fun x => fR x = true) rvals).
  { unfold rvals. apply Forall_forall. intros x Hx. apply in_map_iff in Hx as (i & <- & Hi).
    apply (marks_in p fR rb offsR); [assumption|]. apply (in_split_fs c). now left. }
  assert (FR' : Forall (fun x => fL x = false) rvals).
  { eapply Forall_impl; [|exact FR]. intros x. apply fR_fL. }
  assert (FL' : Forall (fun x => fR x = false) lrot).
  { eapply SS_perm_Forall; [symmetry; exact Hrot|]. eapply Forall_impl; [|exact FL]. intros x. apply fL_fR. }
  destruct ML as (SL & BL & ML0). destruct MR as (SR & BR & MR0).
  assert (ML : marks p fL lb offsL) by (split; [|split]; assumption).
  assert (MR : marks p fR rb offsR) by (split; [|split]; assumption).
  destruct (SS_lt_split c offsL SL) as (SL1 & _ & _). destruct (SS_lt_split c offsR SR) as (SR1 & _ & _).
  assert (BL1 : forall i, In i ol -> i < length lb) by (intros i Hi; apply BL, (in_split_fs c); now left).
  assert (BR1 : forall i, In i or -> i < length rb) by (intros i Hi; apply BR, (in_split_fs c); now left).
  split; [apply upd_all_length|]. split; [apply upd_all_length|]. split; [|split].
  - pose proof (upd_all_perm ol rvals lb p (SS_lt_NoDup _ SL1) ltac:(lia) BL1) as P1.
    pose proof (upd_all_perm or lrot rb p (SS_lt_NoDup _ SR1) ltac:(lia) BR1) as P2.
    fold lvals in P1. fold rvals in P2.
    apply Permutation_app_inv_r with (l := lvals ++ rvals). rewrite <- !app_assoc.
    rewrite (perm4 _ _ lvals rvals). rewrite P1, P2, Hrot.
    rewrite (perm4 lb rb lvals rvals). rewrite <- (perm4 lb rb rvals lvals). rewrite <- (perm4 lb rb lvals rvals).
    do 2 apply Permutation_app_head. apply Permutation_app_comm.
  - apply marks_upd_all; [assumption | fold ol; lia | assumption].
  - apply marks_upd_all; [assumption | fold or; lia | assumption].
Qed.

Lemma skipn_last {B} n (l : list B) d : length l = S n -> skipn n l = [nth n l d].
Proof.
  revert l. induction n as [|n IH]; intros [|x t] H; cbn in H; try discriminate.
  - destruct t; [reflexivity | discriminate].
  - cbn [skipn nth]. apply IH. lia.
Qed.

Lemma finish_left_spec : forall roffs w rdone,
  StronglySorted (fun a b => b < a) roffs ->
  (forall i, In i roffs -> i < length w) ->
  (forall i, i < length w -> (In i roffs <-> fL (nth i w p) = true)) ->
  Forall (fun x => fL x = true) rdone ->
  Permutation (fst (finish_left roffs w rdone) ++ snd (finish_left roffs w rdone)) (w ++ rdone) /\
  Forall (fun x => fL x = false) (fst (finish_left roffs w rdone)) /\
  Forall (fun x => fL x = true) (snd (finish_left roffs w rdone)).
Proof.
  induction roffs as [|e t IH]; intros w rdone Hs Hb Hm Hr; cbn [finish_left].
  - cbn [fst snd]. split; [reflexivity|]. split; [|assumption].
    apply (Forall_nth_iff _ _ p). intros i Hi. destruct (fL (nth i w p)) eqn:E; [|reflexivity].
    apply Hm in E; [destruct E | assumption].
  - apply StronglySorted_inv in Hs as [Hs He]. rewrite Forall_forall in He.
    assert (Hew : e < length w) by (apply Hb; now left).
    set (n := length w - 1). assert (Hn : length w = S n) by lia.
    set (w1 := swap e n w).
    assert (Lw1 : length w1 = S n) by (unfold w1; rewrite swap_length; assumption).
    assert (Hlast : skipn n w1 = [nth e w p]).
    { rewrite (skipn_last n w1 p Lw1). unfold w1. rewrite nth_swap by lia. now rewrite Nat.eqb_refl. }
    assert (Hfe : fL (nth e w p) = true) by (apply Hm; [assumption | now left]).
    destruct (IH (firstn n w1) (skipn n w1 ++ rdone)) as (P & F1 & F2).
    + assumption.
    + intros i Hi. rewrite firstn_length, Lw1. specialize (He i Hi). lia.
    + intros i Hi. rewrite firstn_length, Lw1 in Hi. assert (Hin : i < n) by lia.
      rewrite nth_firstn by assumption. unfold w1. rewrite nth_swap by lia.
      destruct (Nat.eqb_spec i n); [lia|].
      destruct (Nat.eqb_spec i e) as [->|Hne].
      * split; [intros Hi'; specialize (He e Hi'); lia|].
        intros Hf. apply Hm in Hf; [|lia]. destruct Hf as [Hf|Hf]; [lia | specialize (He n Hf); lia].
      * rewrite <- Hm by lia. cbn [In]. split; [auto | intros [?|?]; [congruence | assumption]].
    + rewrite Hlast. constructor; assumption.
    + split; [|split; assumption].
      rewrite P. rewrite app_assoc, firstn_skipn. apply Permutation_app_tail. apply swap_perm.
Qed.

Lemma finish_right_spec : forall roffs ldone w,
  StronglySorted (fun a b => b < a) roffs ->
  (forall i, In i roffs -> i < length w) ->
  (forall i, i < length w -> (In i roffs <-> fR (nth (length w - 1 - i) w p) = true)) ->
  Forall (fun x => fR x = true) ldone ->
  Permutation (fst (finish_right roffs ldone w) ++ snd (finish_right roffs ldone w)) (ldone ++ w) /\
  Forall (fun x => fR x = true) (fst (finish_right roffs ldone w)) /\
  Forall (fun x => fR x = false) (snd (finish_right roffs ldone w)).
Proof.
  induction roffs as [|e t IH]; intros ldone w Hs Hb Hm Hr; cbn [finish_right].
  - cbn [fst snd]. split; [reflexivity|]. split; [assumption|].
    apply (Forall_nth_iff _ _ p). intros i Hi. destruct (fR (nth i w p)) eqn:E; [|reflexivity].
    replace i with (length w - 1 - (length w - 1 - i)) in E by lia.
    apply Hm in E; [destruct E | lia].
  - apply StronglySorted_inv in Hs as [Hs He]. rewrite Forall_forall in He.
    assert (Hew : e < length w) by (apply Hb; now left).
    set (n := length w - 1). assert (Hn : length w = S n) by lia.
    set (w1 := swap 0 (n - e) w).
    assert (Lw1 : length w1 = S n) by (unfold w1; rewrite swap_length; assumption).
    assert (Pw1 : Permutation w1 w) by apply swap_perm.
    assert (Nw1 : forall k, nth k w1 p = if k =? n - e then nth 0 w p else if k =? 0 then nth (n - e) w p else nth k w p).
    { intros k. unfold w1. apply nth_swap; lia. }
    clearbody w1. destruct w1 as [|x w2]; [discriminate|]. cbn [length] in Lw1.
    assert (Hx : fR x = true).
    { specialize (Nw1 0). cbn [nth] in Nw1. rewrite Nw1.
      destruct (Nat.eqb_spec 0 (n - e)) as [E0|E0]; [rewrite E0|cbn [Nat.eqb]];
        (replace (n - e) with (length w - 1 - e) by lia); (apply Hm; [assumption | now left]). }
    destruct (IH (x :: ldone) w2) as (P & F1 & F2).
    + assumption.
    + intros i Hi. specialize (He i Hi). lia.
    + intros i Hi. assert (Hin : i < n) by lia.
      replace (length w2 - 1 - i) with (n - 1 - i) by lia.
      specialize (Nw1 (S (n - 1 - i))). cbn [nth] in Nw1. rewrite Nw1.
      destruct (Nat.eqb_spec (S (n - 1 - i)) 0); [lia|].
      destruct (Nat.eqb_spec (S (n - 1 - i)) (n - e)) as [Ee|Ee].
      * assert (i = e) by lia. subst i.
        split; [intros Hi'; specialize (He e Hi'); lia|].
        intros Hf. replace 0 with (length w - 1 - n) in Hf by lia.
        apply Hm in Hf; [|lia]. destruct Hf as [Hf|Hf]; [lia | specialize (He n Hf); lia].
      * replace (S (n - 1 - i)) with (length w - 1 - i) by lia.
        rewrite <- Hm by lia. cbn [In]. split; [auto | intros [?|?]; [lia | assumption]].
    + constructor; assumption.
    + split; [|split; assumption].
      rewrite P. rewrite <- Pw1. cbn [app]. apply Permutation_middle.
Qed.

Lemma fL_false x : fL x = false -> fR x = true.
Proof. unfold fL, fR. now destruct (less x p). Qed.
Lemma fR_false x : fR x = false -> fL x = true.
Proof. unfold fL, fR. now destruct (less x p). Qed.

Lemma BLOCK_pos : 0 < BLOCK.
Proof. unfold BLOCK. lia. Qed.

(* the part of the loop body after the blocks have been cut out of w *)
Definition tail_body (f : nat) (is_done : bool) (ldone rdone lb mid rb : list A) (offs_l offs_r : list nat)
           (block_l block_r : nat) : list A * nat :=
    let offs_l := if is_nil offs_l then trace_block (fun x => negb (less x p)) lb 0 else offs_l in
    let offs_r := if is_nil offs_r then trace_block (fun x => less x p) rb 0 else offs_r in
    let count := Nat.min (length offs_l) (length offs_r) in
    let '(lb, rb) := if 0 <? count then cyclic p lb rb (firstn count offs_l) (firstn count offs_r)
                     else (lb, rb) in
    let offs_l := skipn count offs_l in
    let offs_r := skipn count offs_r in
    let '(ldone, wl) := if is_nil offs_l then (rev_append lb ldone, []) else (ldone, lb) in
    let '(rdone, wr) := if is_nil offs_r then (lrev rb ++ rdone, []) else (rdone, lrev rb) in
    let w := wl ++ mid ++ wr in
    if is_done then
      if negb (is_nil offs_l) then
        let '(w', rdone') := finish_left (lrev offs_l) w rdone in
        (lrev ldone ++ w' ++ rdone', length ldone + length w')
      else if negb (is_nil offs_r) then
        let '(ldone', w') := finish_right (lrev offs_r) ldone w in
        (lrev ldone' ++ w' ++ rdone, length ldone')
      else (lrev ldone ++ w ++ rdone, length ldone)
    else pib_loop less f p ldone w rdone block_l block_r offs_l offs_r.

Lemma pib_loop_S f ldone w rdone bl0 br0 ol or :
  pib_loop less (S f) p ldone w rdone bl0 br0 ol or =
    let width := length w in
    let is_done := width <=? 2 * BLOCK in
    let '(block_l, block_r) :=
      if is_done then
        let rem := if negb (is_nil ol) || negb (is_nil or) then width - BLOCK else width in
        if negb (is_nil ol) then (bl0, rem)
        else if negb (is_nil or) then (rem, br0)
        else (rem / 2, rem - rem / 2)
      else (bl0, br0) in
    let rest := skipn block_l w in
    tail_body f is_done ldone rdone (firstn block_l w) (firstn (length rest - block_r) rest)
              (lrev (skipn (length rest - block_r) rest)) ol or block_l block_r.
Proof. reflexivity. Qed.

Definition good (res : list A * nat) (orig : list A) : Prop :=
  exists L R, fst res = L ++ R /\ snd res = length L /\
              Forall (fun x => fR x = true) L /\ Forall (fun x => fL x = true) R /\
              Permutation (L ++ R) orig.

Lemma good_perm res o1 o2 : good res o1 -> Permutation o1 o2 -> good res o2.
Proof.
  intros (L & R & H1 & H2 & H3 & H4 & H5) P. exists L, R. repeat (split; [assumption|]).
  now rewrite H5.
Qed.

Definition Inv (ldone w rdone : list A) (ol or : list nat) : Prop :=
  Forall (fun x => fR x = true) ldone /\ Forall (fun x => fL x = true) rdone /\
  (ol = [] \/ or = []) /\
  (ol <> [] -> BLOCK <= length w /\ marks p fL (firstn BLOCK w) ol) /\
  (or <> [] -> BLOCK <= length w /\ marks p fR (rev (skipn (length w - BLOCK) w)) or).

Lemma skipn_min_nil (l1 l2 : list nat) :
  skipn (Nat.min (length l1) (length l2)) l1 = [] \/ skipn (Nat.min (length l1) (length l2)) l2 = [].
Proof.
  destruct (Nat.le_ge_cases (length l1) (length l2)) as [H|H].
  - left. apply skipn_all2. lia.
  - right. apply skipn_all2. lia.
Qed.

Lemma is_nil_true {B} (l : list B) : is_nil l = true <-> l = [].
Proof. destruct l; cbn; split; congruence. Qed.

Lemma tail_body_spec f is_done ldone rdone lb mid rbr ol or bl br :
  (forall ldone w rdone ol or, Inv ldone w rdone ol or -> length w < f ->
     good (pib_loop less f p ldone w rdone BLOCK BLOCK ol or) (rev ldone ++ w ++ rdone)) ->
  Forall (fun x => fR x = true) ldone -> Forall (fun x => fL x = true) rdone ->
  (ol = [] \/ or = []) ->
  (ol <> [] -> marks p fL lb ol) -> (or <> [] -> marks p fR (rev rbr) or) ->
  (is_done = true -> mid = []) ->
  (is_done = false ->
   bl = BLOCK /\ br = BLOCK /\ length lb = BLOCK /\ length rbr = BLOCK /\ length (lb ++ mid ++ rbr) <= f) ->
  good (tail_body f is_done ldone rdone lb mid (lrev rbr) ol or bl br)
       (rev ldone ++ (lb ++ mid ++ rbr) ++ rdone).
Proof.
  intros IH Fl Fr Hex HL HR Hd Hnd. unfold tail_body. rewrite lrev_rev.
  fold fL. change (fun x => less x p) with fR.
  set (ol1 := if is_nil ol then trace_block fL lb 0 else ol).
  set (or1 := if is_nil or then trace_block fR (rev rbr) 0 else or).
  assert (ML1 : marks p fL lb ol1).
  { unfold ol1. destruct ol; cbn [is_nil]; [apply trace_block_marks | apply HL; discriminate]. }
  assert (MR1 : marks p fR (rev rbr) or1).
  { unfold or1. destruct or; cbn [is_nil]; [apply trace_block_marks | apply HR; discriminate]. }
  clearbody ol1 or1. clear HL HR Hex ol or.
  set (c := Nat.min (length ol1) (length or1)).
  destruct (cyclic_spec lb (rev rbr) ol1 or1 c ML1 MR1 eq_refl) as (L1 & L2 & P & ML2 & MR2).
  assert (Hex : skipn c ol1 = [] \/ skipn c or1 = []) by apply skipn_min_nil.
  assert (E : exists lb' rb', (if 0 <? c then cyclic p lb (rev rbr) (firstn c ol1) (firstn c or1) else (lb, rev rbr)) = (lb', rb')
           /\ length lb' = length lb /\ length rb' = length rbr /\ Permutation (lb' ++ rb') (lb ++ rev rbr) /\
           marks p fL lb' (skipn c ol1) /\ marks p fR rb' (skipn c or1)).
  { destruct (Nat.ltb_spec 0 c) as [Hc|Hc].
    - destruct (cyclic p lb (rev rbr) (firstn c ol1) (firstn c or1)) as [lb' rb']. cbn [fst snd] in *.
      exists lb', rb'. rewrite rev_length in L2. auto 10.
    - assert (c = 0) by lia. exists lb, (rev rbr). rewrite H. cbn [skipn]. rewrite rev_length. auto 10. }
  destruct E as (lb' & rb' & -> & L1' & L2' & P' & ML & MR).
  clear L1 L2 P ML2 MR2 ML1 MR1.
  set (ol2 := skipn c ol1) in *. set (or2 := skipn c or1) in *. clearbody ol2 or2. clear c ol1 or1.
  assert (Horig : Permutation (lb ++ mid ++ rbr) (lb' ++ mid ++ rev rb')).
  { rewrite <- (Permutation_rev rb'). rewrite <- (Permutation_rev rbr) in P'.
    rewrite (Permutation_app_comm mid rbr), (Permutation_app_comm mid rb'), !app_assoc.
    apply Permutation_app_tail. symmetry. exact P'. }
  apply good_perm with (o1 := rev ldone ++ (lb' ++ mid ++ rev rb') ++ rdone);
    [|apply Permutation_app_head, Permutation_app_tail; symmetry; exact Horig].
  clear Horig P'.
  destruct ol2 as [|o1 ol2]; [destruct or2 as [|o2 or2] | destruct Hex as [Hex|Hex]; [discriminate|subst or2]];
    cbn [is_nil negb]; cbv beta iota zeta.
  - (* both buffers used up *)
    apply marks_nil in ML, MR.
    assert (FL' : Forall (fun x => fR x = true) (rev_append lb' ldone)).
    { rewrite rev_append_rev. apply Forall_app. split; [apply Forall_rev|assumption].
      eapply Forall_impl; [|exact ML]. apply fL_false. }
    assert (FR' : Forall (fun x => fL x = true) (lrev rb' ++ rdone)).
    { rewrite lrev_rev. apply Forall_app. split; [apply Forall_rev|assumption].
      eapply Forall_impl; [|exact MR]. apply fR_false. }
    destruct is_done.
    + rewrite (Hd eq_refl). exists (lrev (rev_append lb' ldone)), (lrev rb' ++ rdone). cbn [fst snd app].
      split; [reflexivity|]. split; [now rewrite lrev_rev, rev_length|].
      split; [rewrite lrev_rev; now apply Forall_rev|]. split; [assumption|].
      rewrite !lrev_rev, rev_append_rev, rev_app_distr, rev_involutive, <- !app_assoc. reflexivity.
    + destruct (Hnd eq_refl) as (-> & -> & Hlb & Hrbr & Hlen). cbn [app]. rewrite app_nil_r.
      eapply good_perm.
      * apply IH.
        -- split; [exact FL'|]. split; [exact FR'|]. split; [now left|]. split; intros H; now contradiction H.
        -- rewrite !app_length in Hlen. pose proof BLOCK_pos. lia.
      * rewrite !lrev_rev, rev_append_rev, rev_app_distr, rev_involutive, <- !app_assoc. reflexivity.
  - (* the right buffer remains *)
    apply marks_nil in ML.
    assert (FL' : Forall (fun x => fR x = true) (rev_append lb' ldone)).
    { rewrite rev_append_rev. apply Forall_app. split; [apply Forall_rev|assumption].
      eapply Forall_impl; [|exact ML]. apply fL_false. }
    cbn [app]. rewrite !lrev_rev.
    destruct is_done.
    + rewrite (Hd eq_refl). cbn [app]. destruct MR as (SR & BR & MR).
      destruct (finish_right_spec (rev (o2 :: or2)) (rev_append lb' ldone) (rev rb')) as (P & F1 & F2).
      * apply SS_rev. exact SR.
      * intros i Hi. apply in_rev in Hi. rewrite rev_length. auto.
      * intros i Hi. rewrite rev_length in Hi |- *. rewrite <- in_rev.
        rewrite rev_nth by lia. replace (length rb' - S (length rb' - 1 - i)) with i by lia. auto.
      * exact FL'.
      * destruct (finish_right (rev (o2 :: or2)) (rev_append lb' ldone) (rev rb')) as [ldone' w'].
        cbn [fst snd] in *. rewrite ?lrev_rev. exists (rev ldone'), (w' ++ rdone). cbn [fst snd].
        split; [reflexivity|]. split; [now rewrite rev_length|].
        split; [now apply Forall_rev|]. split.
        { apply Forall_app. split; [|assumption]. eapply Forall_impl; [|exact F2]. apply fR_false. }
        rewrite app_assoc. rewrite <- (Permutation_rev ldone'). rewrite P.
        rewrite rev_append_rev. rewrite <- (Permutation_rev lb'). rewrite <- (Permutation_rev ldone).
        rewrite (Permutation_app_comm lb' ldone). rewrite <- !app_assoc. reflexivity.
    + destruct (Hnd eq_refl) as (-> & -> & Hlb & Hrbr & Hlen).
      eapply good_perm.
      * apply IH.
        -- split; [exact FL'|]. split; [exact Fr|]. split; [now left|]. split; [intros H; now contradiction H|].
           intros _. rewrite app_length, rev_length, L2', Hrbr. split; [lia|].
           replace (length mid + BLOCK - BLOCK) with (length mid) by lia.
           rewrite skipn_app_exact, rev_involutive. exact MR.
        -- rewrite !app_length in Hlen. rewrite app_length, rev_length. pose proof BLOCK_pos. lia.
      * rewrite rev_append_rev, rev_app_distr, rev_involutive, <- !app_assoc. reflexivity.
  - (* the left buffer remains *)
    apply marks_nil in MR.
    assert (FR' : Forall (fun x => fL x = true) (rev rb' ++ rdone)).
    { apply Forall_app. split; [apply Forall_rev|assumption].
      eapply Forall_impl; [|exact MR]. apply fR_false. }
    rewrite !app_nil_r, !lrev_rev.
    destruct is_done.
    + rewrite (Hd eq_refl), !app_nil_r. destruct ML as (SL & BL & ML).
      destruct (finish_left_spec (rev (o1 :: ol2)) lb' (rev rb' ++ rdone)) as (P & F1 & F2).
      * apply SS_rev. exact SL.
      * intros i Hi. apply in_rev in Hi. auto.
      * intros i Hi. rewrite <- in_rev. auto.
      * exact FR'.
      * destruct (finish_left (rev (o1 :: ol2)) lb' (rev rb' ++ rdone)) as [w' rdone'].
        cbn [fst snd] in *. rewrite ?lrev_rev. exists (rev ldone ++ w'), rdone'. cbn [fst snd].
        split; [now rewrite app_assoc|]. split; [now rewrite app_length, rev_length|].
        split.
        { apply Forall_app. split; [now apply Forall_rev|]. eapply Forall_impl; [|exact F1]. apply fL_false. }
        split; [assumption|].
        rewrite <- !app_assoc. apply Permutation_app_head. cbn [app]. exact P.
    + destruct (Hnd eq_refl) as (-> & -> & Hlb & Hrbr & Hlen).
      eapply good_perm.
      * apply IH.
        -- split; [exact Fl|]. split; [exact FR'|]. split; [now right|]. split; [|intros H; now contradiction H].
           intros _. rewrite app_length, L1', Hlb. split; [lia|].
           rewrite <- Hlb, <- L1', firstn_app_exact. exact ML.
        -- rewrite !app_length in Hlen. rewrite app_length. pose proof BLOCK_pos. lia.
      * rewrite <- !app_assoc. reflexivity.
Qed.

Lemma skipn_skipn' {B} a b (l : list B) : skipn a (skipn b l) = skipn (b + a) l.
Proof.
  revert l. induction b as [|b IH]; intros l; [reflexivity|].
  destruct l as [|x t]; cbn [skipn Nat.add]; [now rewrite skipn_nil | apply IH].
Qed.

Lemma body_spec f is_done ldone w rdone ol or bl br :
  (forall ldone w rdone ol or, Inv ldone w rdone ol or -> length w < f ->
     good (pib_loop less f p ldone w rdone BLOCK BLOCK ol or) (rev ldone ++ w ++ rdone)) ->
  Forall (fun x => fR x = true) ldone -> Forall (fun x => fL x = true) rdone ->
  (ol = [] \/ or = []) -> bl + br <= length w ->
  (ol <> [] -> marks p fL (firstn bl w) ol) ->
  (or <> [] -> marks p fR (rev (skipn (length w - br) w)) or) ->
  (is_done = true -> bl + br = length w) ->
  (is_done = false -> bl = BLOCK /\ br = BLOCK /\ length w <= f) ->
  good (let rest := skipn bl w in
        tail_body f is_done ldone rdone (firstn bl w) (firstn (length rest - br) rest)
                  (lrev (skipn (length rest - br) rest)) ol or bl br)
       (rev ldone ++ w ++ rdone).
Proof.
  intros IH Fl Fr Hex Hsum HL HR Hd Hnd. cbv zeta.
  set (lb := firstn bl w). set (rest := skipn bl w).
  set (mid := firstn (length rest - br) rest). set (rbr := skipn (length rest - br) rest).
  assert (Lrest : length rest = length w - bl) by (unfold rest; apply skipn_length).
  assert (Ew : w = lb ++ mid ++ rbr).
  { unfold lb, mid, rbr, rest. now rewrite !firstn_skipn. }
  assert (Llb : length lb = bl) by (unfold lb; rewrite firstn_length; lia).
  assert (Lrbr : length rbr = br) by (unfold rbr; rewrite skipn_length; lia).
  assert (Erbr : rbr = skipn (length w - br) w).
  { unfold rbr, rest. rewrite skipn_skipn'. f_equal. fold rest. lia. }
  replace (rev ldone ++ w ++ rdone) with (rev ldone ++ (lb ++ mid ++ rbr) ++ rdone) by (now rewrite <- Ew).
  apply tail_body_spec; try assumption.
  - rewrite Erbr. exact HR.
  - intros H. specialize (Hd H). unfold mid. replace (length rest - br) with 0 by lia. reflexivity.
  - intros H. destruct (Hnd H) as (-> & -> & Hf). rewrite <- Ew. auto.
Qed.

Lemma pib_loop_spec : forall fuel ldone w rdone ol or,
  Inv ldone w rdone ol or -> length w < fuel ->
  good (pib_loop less fuel p ldone w rdone BLOCK BLOCK ol or) (rev ldone ++ w ++ rdone).
Proof.
  induction fuel as [|f IH]; intros ldone w rdone ol or HI Hlen; [lia|].
  rewrite pib_loop_S. cbv zeta.
  destruct HI as (Fl & Fr & Hex & HL & HR).
  pose proof BLOCK_pos as HB.
  destruct (Nat.leb_spec (length w) (2 * BLOCK)) as [Hd|Hd].
  - destruct ol as [|o1 ol].
    + destruct or as [|o2 or]; cbn [is_nil negb orb].
      * apply body_spec; try assumption.
        -- pose proof (Nat.div_lt_upper_bound (length w) 2 (S (length w))). lia.
        -- intros H; now contradiction H.
        -- intros H; now contradiction H.
        -- intros _. pose proof (Nat.mul_div_le (length w) 2). lia.
        -- discriminate.
      * destruct HR as [HR1 HR2]; [discriminate|].
        apply body_spec; try assumption.
        -- lia.
        -- intros H; now contradiction H.
        -- intros _. exact HR2.
        -- intros _. lia.
        -- discriminate.
    + destruct HL as [HL1 HL2]; [discriminate|]. cbn [is_nil negb orb].
      apply body_spec; try assumption.
      * lia.
      * intros _. exact HL2.
      * destruct Hex as [Hex|Hex]; [discriminate|]. subst or. intros H; now contradiction H.
      * intros _. lia.
      * discriminate.
  - apply body_spec; try assumption.
    + lia.
    + intros H. apply HL, H.
    + intros H. apply HR, H.
    + discriminate.
    + intros _. split; [reflexivity|]. split; [reflexivity|]. lia.
Qed.

Lemma partition_in_blocks_good v :
  good (partition_in_blocks less v p) v.
Proof.
  unfold partition_in_blocks.
  eapply good_perm.
  - apply (pib_loop_spec (S (length v)) [] v [] [] []); [|lia].
    split; [constructor|]. split; [constructor|]. split; [now left|].
    split; intros H; now contradiction H.
  - cbn [rev app]. now rewrite app_nil_r.
Qed.
End Pib.

(* ---- the contract ------------------------------------------------------------------------------------ *)
(* Spec/Statements.v has no entry for this statement; it is `pib_ok` (Spec/SortSpec.v) instantiated with the
   executable block partition, for every element type and every comparator *)
Definition pib_contract_stmt : Prop :=
  forall (A : Type) (less : A -> A -> bool), pib_ok less (partition_in_blocks less).

Lemma pib_contract : pib_contract_stmt.
Proof.
  intros A less v p.
  destruct (partition_in_blocks_good less p v) as (L & R & H1 & H2 & F1 & F2 & P).
  rewrite H1, H2. split; [exact P|]. split.
  - rewrite <- (Permutation_length P), app_length. lia.
  - rewrite firstn_app_exact, skipn_app_exact. split; [exact F1|].
    eapply Forall_impl; [|exact F2]. intros x. unfold fL. now destruct (less x p).
Qed.

(* partial results under their own names *)
Lemma pib_contract_perm : forall (A : Type) (less : A -> A -> bool), pib_perm (partition_in_blocks less).
Proof. intros A less v p. apply pib_contract. Qed.

(* ---- unconditional versions of the `_partial` theorems of Props/C18.v ------------------------------------ *)
Theorem C18_perm : forall (A : Type) (less : A -> A -> bool) oracle (v : list A),
  Permutation (r_list (par_quicksort_model less oracle v)) v.
Proof.
  intros A less oracle v. unfold par_quicksort_model.
  apply par_quicksort_perm. apply pib_contract_perm.
Qed.

Theorem C18_sorted : forall (A : Type) (less : A -> A -> bool) oracle (v : list A),
  strict_weak_order less -> (forall k, oracle k = false) ->
  r_flag (par_quicksort_model less oracle v) = false /\ sorted less (r_list (par_quicksort_model less oracle v)).
Proof.
  intros A less oracle v Hs Ho. unfold par_quicksort_model.
  exact (par_quicksort_sorted less (partition_in_blocks less) oracle Hs (pib_contract A less) v Ho).
Qed.

Theorem C18_cancel : forall (A : Type) (less : A -> A -> bool) oracle (v : list A),
  strict_weak_order less ->
  (r_flag (par_quicksort_model less oracle v) = true -> exists k, oracle k = true) /\
  (r_flag (par_quicksort_model less oracle v) = false -> sorted less (r_list (par_quicksort_model less oracle v))).
Proof.
  intros A less oracle v Hs. unfold par_quicksort_model.
  exact (par_quicksort_cancel less (partition_in_blocks less) oracle Hs (pib_contract A less) v).
Qed.

Theorem C18_no_panic : forall (A : Type) (less : A -> A -> bool) oracle (v : list A),
  forallb ev_ok (r_trace (par_quicksort_model less oracle v)) = true.
Proof.
  intros A less oracle v. unfold par_quicksort_model.
  exact (par_quicksort_clean less (partition_in_blocks less) oracle v (pib_contract A less)).
Qed.

(* two completed sorts of the same input by the executable model agree, whatever the cancel oracles were;
   and the executable model agrees with any other procedure satisfying the contract *)
Theorem C18_schedule_independent :
  forall (A : Type) (less : A -> A -> bool) oracle1 oracle2 (v : list A),
  strict_weak_order less -> total_on less v ->
  r_flag (par_quicksort_model less oracle1 v) = false -> r_flag (par_quicksort_model less oracle2 v) = false ->
  r_list (par_quicksort_model less oracle1 v) = r_list (par_quicksort_model less oracle2 v).
Proof.
  intros A less oracle1 oracle2 v Hs Ht H1 H2. unfold par_quicksort_model in *.
  exact (par_quicksort_schedule_independent less _ _ oracle1 oracle2 v Hs Ht
           (pib_contract A less) (pib_contract A less) H1 H2).
Qed.

Theorem C18_schedule_independent_any_pib :
  forall (A : Type) (less : A -> A -> bool) pib2 oracle1 oracle2 (v : list A),
  strict_weak_order less -> total_on less v -> pib_ok less pib2 ->
  r_flag (par_quicksort_model less oracle1 v) = false -> r_flag (par_quicksort less pib2 oracle2 v) = false ->
  r_list (par_quicksort_model less oracle1 v) = r_list (par_quicksort less pib2 oracle2 v).
Proof.
  intros A less pib2 oracle1 oracle2 v Hs Ht Hp H1 H2. unfold par_quicksort_model in *.
  exact (par_quicksort_schedule_independent less _ pib2 oracle1 oracle2 v Hs Ht (pib_contract A less) Hp H1 H2).
Qed.

Print Assumptions pib_contract.
Print Assumptions pib_contract_perm.
Print Assumptions C18_perm.
Print Assumptions C18_sorted.
Print Assumptions C18_cancel.
Print Assumptions C18_no_panic.
Print Assumptions C18_schedule_independent.
Print Assumptions C18_schedule_independent_any_pib.
