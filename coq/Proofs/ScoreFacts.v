(* Facts about the linear scorers (calculate_score and the entry points that use it): C03 / C04. *)
From Coq Require Import ZArith NArith List Bool Lia ZifyBool ZifyN ZifyNat.
From NV Require Import Base.Util Model.Matcher Spec.Matching Spec.Statements Proofs.CharsFacts.
Import ListNotations.
Local Open Scope N_scope.

(* ================================================================================================= *)
(* 1. finite case analyses                                                                            *)
(* ================================================================================================= *)
Lemma C03_bonus_table : C03_bonus_table_stmt.
Proof. intros cfg prev cur. destruct prev, cur; reflexivity. Qed.

Lemma C03_presets : C03_presets_stmt.
Proof. repeat split. Qed.

Lemma C04_prefix_linear : C04_prefix_linear_stmt.
Proof.
  intros start. unfold prefix_bonus_linear, MAX_PREFIX_BONUS.
  destruct (start =? 0); [lia|]. apply N.le_sub_l.
Qed.

(* NOTE: with the earlier model definition  max_bonus cfg = max (bonus_white cfg) (bonus_delim cfg)  this
   statement was false (bonus_white = bonus_delim = 0, prev = CNonWord, cur = CLower: bonus 8 > 0); the
   model now follows Config::max_bonus and includes BONUS_BOUNDARY. *)
Lemma C04_max_bonus : C04_max_bonus_stmt.
Proof.
  intros cfg prev cur. unfold max_bonus, BONUS_BOUNDARY.
  destruct prev, cur; cbv [bonus_for cls_rank cls_eqb N.ltb N.eqb N.compare Pos.compare Pos.compare_cont
    Pos.eqb andb orb negb BONUS_BOUNDARY BONUS_CAMEL123 BONUS_NON_WORD]; lia.
Qed.

(* ================================================================================================= *)
(* 2. no wrap-around                                                                                  *)
(* ================================================================================================= *)
(* C03_no_wrap_stmt is FALSE for unconstrained configurations: the first-character score
   SCORE_MATCH + bonus * 2 is not a saturating operation in the model, and the bonus is configurable. *)
Definition cx_cfg_huge : config :=
  {| ignore_case := true; normalize_on := true; prefer_prefix := false; delims := [47];
     bonus_white := 40000; bonus_delim := 9; init_class := CWhitespace |}.
Lemma C03_no_wrap_counterexample : ~ C03_no_wrap_naive_stmt.
Proof.
  intros H.
  specialize (H cx_cfg_huge Substring {| rp := Ascii; cs := [32; 98] |} {| rp := Ascii; cs := [98] |}
                80016 [1]).
  assert (G : 80016 <= 65535) by (apply H; [discriminate | vm_compute; reflexivity]).
  vm_compute in G. apply G. reflexivity.
Qed.

Definition outcome_le (o : outcome) : Prop :=
  match o with Match s _ => s <= 65535 | _ => True end.

Lemma bonus_le10 cfg p c : bonus_bounded cfg -> bonus_for cfg p c <= 10.
Proof.
  intros [Hw Hd]. rewrite C03_bonus_table. destruct p, c; cbn; lia.
Qed.

Lemma sadd16_le a b : sadd16 a b <= 65535.
Proof. unfold sadd16, U16MAX. lia. Qed.

Lemma cs_loop_le cfg hr hs : forall i nrest nc prev in_gap in_run fb score acc,
  score <= 65535 -> fst (cs_loop cfg hr hs i nrest nc prev in_gap in_run fb score acc) <= 65535.
Proof.
  induction hs as [|c0 hs IH]; intros i nrest nc prev in_gap in_run fb score acc Hs; cbn [cs_loop].
  - exact Hs.
  - destruct (class_norm cfg hr c0) as [c k]. destruct (c =? nc).
    + destruct (if in_run then _ else _) as [fb' b'].
      destruct (match nrest with [] => (nc, []) | x :: r => (x, r) end) as [nc' nrest'].
      apply IH. apply sadd16_le.
    + apply IH. lia.
Qed.

Lemma calculate_score_le cfg hr h n start end_ :
  bonus_bounded cfg -> outcome_le (calculate_score cfg hr h n start end_).
Proof.
  intros Hb. unfold calculate_score. destruct n as [|n0 nrest]; [exact I|].
  destruct (lenN h <=? start); [exact I|].
  destruct (match nrest with [] => (n0, []) | x :: r => (x, r) end) as [nc nrest'].
  match goal with |- context [cs_loop ?a ?b ?c ?d ?e ?f ?g ?h1 ?i ?j ?k ?l] =>
    pose proof (cs_loop_le a b c d e f g h1 i j k l) as H; destruct (cs_loop a b c d e f g h1 i j k l) as [sc idx] end.
  cbn [fst] in H. cbn [outcome_le].
  destruct (prefer_prefix cfg); [apply sadd16_le|]. apply H.
  pose proof (bonus_le10 cfg (prev_class cfg hr h start) (class cfg hr (nthN h start 0)) Hb).
  unfold SCORE_MATCH, BONUS_FIRST_CHAR_MULTIPLIER. lia.
Qed.

(* best_pos returns either the carried best or a candidate with its first-character score *)
Lemma best_pos_src cfg cands : forall best i s,
  best_pos cfg cands best = Some (i, s) ->
  best = Some (i, s) \/ exists b, In (i, b) cands /\ s = b * 2 + 16.
Proof.
  induction cands as [|[p b] cands IH]; intros best i s H; cbn [best_pos] in H.
  - left; exact H.
  - destruct (match best with Some (_, s0) => s0 <? _ | None => _ end).
    + destruct (max_bonus cfg <=? b).
      * injection H as <- <-. right. exists b. split; [left; reflexivity | reflexivity].
      * apply IH in H. destruct H as [H | [b0 [Hin Hs]]].
        -- injection H as <- <-. right. exists b. split; [left; reflexivity | reflexivity].
        -- right. exists b0. split; [right; exact Hin | exact Hs].
    + apply IH in H. destruct H as [H | [b0 [Hin Hs]]]; [left; exact H|].
      right. exists b0. split; [right; exact Hin | exact Hs].
Qed.

Lemma scan_cands_bonus cfg hr P hs : forall i prev p b,
  In (p, b) (scan_cands cfg hr P hs i prev) -> exists x y, b = bonus_for cfg x y.
Proof.
  induction hs as [|c hs IH]; intros i prev p b H; cbn [scan_cands] in H; [destruct H|].
  destruct (P (c :: hs)).
  - destruct H as [H|H]; [injection H as _ <-; eauto | eapply IH; eauto].
  - eapply IH; eauto.
Qed.

Lemma best_scan_le cfg hr P hs i prev p s :
  bonus_bounded cfg -> best_pos cfg (scan_cands cfg hr P hs i prev) None = Some (p, s) -> s <= 65535.
Proof.
  intros Hb H. apply best_pos_src in H. destruct H as [H | [b [Hin ->]]]; [discriminate|].
  apply scan_cands_bonus in Hin. destruct Hin as [x [y ->]].
  pose proof (bonus_le10 cfg x y Hb). lia.
Qed.

Lemma exact_impl_le cfg hs ns start end_ : bonus_bounded cfg -> outcome_le (exact_impl cfg hs ns start end_).
Proof.
  intros Hb. unfold exact_impl. destruct (negb _); [exact I|].
  destruct (rp hs), (rp ns); try exact I;
    match goal with |- outcome_le (if ?b then _ else _) => destruct b; [apply calculate_score_le; exact Hb | exact I] end.
Qed.

Lemma fuzzy_greedy__le cfg hr nr h n start end_ :
  bonus_bounded cfg -> outcome_le (fuzzy_greedy_ cfg hr nr h n start end_).
Proof.
  intros Hb. unfold fuzzy_greedy_.
  match goal with |- outcome_le (match ?e with Some _ => _ | None => _ end) => destruct e; [|exact I] end.
  apply calculate_score_le; exact Hb.
Qed.

Lemma substring_1_ascii_le cfg h c : bonus_bounded cfg -> outcome_le (substring_1_ascii cfg h c).
Proof.
  intros Hb. unfold substring_1_ascii.
  destruct (best_pos _ _ _) as [[i s]|] eqn:E; [|exact I]. cbn. eapply best_scan_le; eauto.
Qed.

Lemma substring_1_non_ascii_le cfg h c st : bonus_bounded cfg -> outcome_le (substring_1_non_ascii cfg h c st).
Proof.
  intros Hb. unfold substring_1_non_ascii.
  destruct (best_pos _ _ _) as [[i s]|] eqn:E; [|cbn; lia]. cbn. eapply best_scan_le; eauto.
Qed.

Lemma substring_ascii_le cfg h n : bonus_bounded cfg -> outcome_le (substring_ascii cfg h n).
Proof.
  intros Hb. unfold substring_ascii.
  destruct (best_pos _ _ _) as [[i s]|]; [|exact I]. apply calculate_score_le; exact Hb.
Qed.

Lemma substring_non_ascii_le cfg nr h n st : bonus_bounded cfg -> outcome_le (substring_non_ascii cfg nr h n st).
Proof.
  intros Hb. unfold substring_non_ascii.
  destruct (best_pos _ _ _) as [[i s]|]; [|exact I]. apply calculate_score_le; exact Hb.
Qed.

Lemma run_le cfg a hs ns : a <> Fuzzy -> bonus_bounded cfg -> outcome_le (run cfg a hs ns).
Proof.
  intros Ha Hb. destruct a; [congruence| | | | |]; cbn [run].
  - unfold fuzzy_greedy_impl. destruct (_ <? _); [exact I|].
    destruct (cs ns) as [|n0 nrest] eqn:En; [cbn; lia|].
    destruct (_ =? _); [apply exact_impl_le; exact Hb|].
    destruct (rp hs), (rp ns); try exact I.
    + destruct (prefilter_ascii _ _ _ _) as [[[st ge] e]|]; [|exact I].
      destruct (_ =? _); [apply calculate_score_le | apply fuzzy_greedy__le]; exact Hb.
    + destruct (prefilter_non_ascii _ _ _ _) as [[st e]|]; [|exact I]. apply fuzzy_greedy__le; exact Hb.
    + destruct (prefilter_non_ascii _ _ _ _) as [[st e]|]; [|exact I]. apply fuzzy_greedy__le; exact Hb.
  - unfold substring_impl. destruct (_ <? _); [exact I|].
    destruct (cs ns) as [|n0 nrest] eqn:En; [cbn; lia|].
    destruct (_ =? _); [apply exact_impl_le; exact Hb|].
    destruct (rp hs), (rp ns); try exact I.
    + destruct nrest; [apply substring_1_ascii_le | apply substring_ascii_le]; exact Hb.
    + destruct nrest; (destruct (prefilter_non_ascii _ _ _ _) as [[st e]|]; [|exact I]);
        [apply substring_1_non_ascii_le | apply substring_non_ascii_le]; exact Hb.
    + destruct nrest; (destruct (prefilter_non_ascii _ _ _ _) as [[st e]|]; [|exact I]);
        [apply substring_1_non_ascii_le | apply substring_non_ascii_le]; exact Hb.
  - unfold prefix_entry. destruct (cs ns); [cbn; lia|].
    destruct (_ <? _); [exact I | apply exact_impl_le; exact Hb].
  - unfold postfix_entry. destruct (cs ns); [cbn; lia|].
    destruct (_ <? _); [exact I | apply exact_impl_le; exact Hb].
  - unfold exact_entry. destruct (cs ns); [cbn; lia|].
    destruct (_ =? _); [exact I|]. destruct (_ <? _); [exact I | apply exact_impl_le; exact Hb].
Qed.

(* corrected variant: C03_no_wrap_stmt with the extra hypothesis bonus_bounded cfg *)
Definition C03_no_wrap_weak_stmt : Prop :=
  forall cfg a hs ns s idx, a <> Fuzzy -> bonus_bounded cfg -> run cfg a hs ns = Match s idx -> s <= 65535.
Lemma C03_no_wrap_weak : C03_no_wrap_weak_stmt.
Proof.
  intros cfg a hs ns s idx Ha Hb H. pose proof (run_le cfg a hs ns Ha Hb) as G. rewrite H in G. exact G.
Qed.

(* ================================================================================================= *)
(* 3. calculate_score evaluates the fzf scheme                                                        *)
(* ================================================================================================= *)
(* the character test of cs_loop / scan_bwd / the non-ASCII forward scan *)
Definition mn (cfg : config) (hr : repr) (nc c : N) : bool := norm cfg hr c =? nc.

Lemma scan_fwd_cons {A} (m : N -> A -> bool) nc n' x hs' :
  scan_fwd m (nc :: n') (x :: hs') =
  if m nc x then match scan_fwd m n' hs' with Some k => Some (k + 1) | None => None end
  else match scan_fwd m (nc :: n') hs' with Some k => Some (k + 1) | None => None end.
Proof. reflexivity. Qed.

Lemma scan_fwd_nil_hs {A} (m : N -> A -> bool) nc n' : scan_fwd m (nc :: n') [] = None.
Proof. reflexivity. Qed.

Lemma scan_fwd_nil_n {A} (m : N -> A -> bool) hs : scan_fwd m [] hs = Some 0.
Proof. destruct hs; reflexivity. Qed.

Definition pen (g : N) : N := if g =? 0 then 0 else g + 2.

Lemma frev_rev {A} (l : list A) : frev l = rev l.
Proof. unfold frev. symmetry. apply rev_alt. Qed.

Lemma lenN_cons {A} (x : A) l : lenN (x :: l) = lenN l + 1.
Proof. unfold lenN. cbn [length]. lia. Qed.

Lemma lenN_nil_inv {A} (l : list A) : lenN l = 0 -> l = [].
Proof. destruct l; [reflexivity|]. rewrite lenN_cons. lia. Qed.

Lemma bonus_at_eq cfg hr h i prev :
  i <> 0 -> prev = class cfg hr (nth (N.to_nat (i - 1)) h 0) ->
  bonus_for cfg prev (class cfg hr (nth (N.to_nat i) h 0)) = spec_bonus_at cfg hr h i.
Proof.
  intros Hi ->. rewrite C03_bonus_table. unfold spec_bonus_at, spec_bonus_cfg, class_before.
  destruct (N.eqb_spec i 0); [contradiction | reflexivity].
Qed.

Lemma spec_bonus_at_le10 cfg hr h i : bonus_bounded cfg -> spec_bonus_at cfg hr h i <= 10.
Proof.
  intros Hb. unfold spec_bonus_at, spec_bonus_cfg. rewrite <- C03_bonus_table. apply bonus_le10, Hb.
Qed.

Lemma sadd16_exact a b : a + b <= 65535 -> sadd16 a b = a + b.
Proof. unfold sadd16, U16MAX. lia. Qed.

Theorem cs_loop_ok cfg hr h (Hb : bonus_bounded cfg) :
  forall hs i nrest nc prev in_gap in_run fb score acc pm Sc,
  (forall j, (j < length hs)%nat -> nth j hs 0 = nth (N.to_nat i + j) h 0) ->
  pm < i ->
  in_gap = (0 <? i - pm - 1) -> in_run = (i - pm - 1 =? 0) ->
  score = Sc - pen (i - pm - 1) ->
  prev = class cfg hr (nth (N.to_nat (i - 1)) h 0) ->
  fb <= 10 -> Sc <= 10 + 26 * lenN acc ->
  ((hs = [] /\ i - pm - 1 = 0) \/
   (scan_fwd (mn cfg hr) (nc :: nrest) hs = Some (lenN hs) /\ lenN acc + 1 + lenN nrest <= 2520)) ->
  exists new,
    cs_loop cfg hr hs i nrest nc prev in_gap in_run fb score acc
    = (fzf_rest cfg hr h new pm fb Sc, rev acc ++ new).
Proof.
  induction hs as [|c0 hs IH]; intros i nrest nc prev in_gap in_run fb score acc pm Sc
    Hwin Hpm Hgap Hrun Hsc Hprev Hfb HS Hinv.
  - destruct Hinv as [[_ Hg] | [Hsf _]]; [|rewrite scan_fwd_nil_hs in Hsf; discriminate].
    exists []. cbn [cs_loop fzf_rest]. rewrite frev_rev, app_nil_r. f_equal.
    rewrite Hsc, Hg. unfold pen. cbn. lia.
  - destruct Hinv as [[Hnil _] | [Hsf Hcnt]]; [discriminate|].
    assert (Hc0 : c0 = nth (N.to_nat i) h 0).
    { specialize (Hwin 0%nat). cbn [length nth] in Hwin. rewrite Nat.add_0_r in Hwin. apply Hwin. lia. }
    assert (Hwin' : forall j, (j < length hs)%nat -> nth j hs 0 = nth (N.to_nat (i + 1) + j) h 0).
    { intros j Hj. specialize (Hwin (Datatypes.S j)). cbn [length nth] in Hwin.
      rewrite Hwin by lia. f_equal. lia. }
    cbn [cs_loop]. destruct (class_norm cfg hr c0) as [c k] eqn:E.
    assert (Hc : c = norm cfg hr c0) by (rewrite <- class_norm_fst, E; reflexivity).
    assert (Hk : k = class cfg hr c0) by (rewrite <- class_norm_snd, E; reflexivity).
    rewrite scan_fwd_cons in Hsf. unfold mn at 1 in Hsf. rewrite <- Hc in Hsf.
    rewrite lenN_cons in Hsf.
    assert (Hb_eq : bonus_for cfg prev k = spec_bonus_at cfg hr h i).
    { rewrite Hk, Hc0. apply bonus_at_eq; [lia | exact Hprev]. }
    pose proof (spec_bonus_at_le10 cfg hr h i Hb) as Hble.
    assert (Hprev' : k = class cfg hr (nth (N.to_nat (i + 1 - 1)) h 0)).
    { rewrite Hk, Hc0. do 2 f_equal. lia. }
    destruct (c =? nc) eqn:Ecn.
    + (* matched *)
      rewrite Hb_eq. set (b := spec_bonus_at cfg hr h i) in *.
      assert (Hinv' : forall nc' nrest',
                 (nc', nrest') = match nrest with [] => (nc, []) | x :: r => (x, r) end ->
                 (hs = [] /\ i + 1 - i - 1 = 0) \/
                 (scan_fwd (mn cfg hr) (nc' :: nrest') hs = Some (lenN hs) /\
                  lenN (i :: acc) + 1 + lenN nrest' <= 2520)).
      { intros nc' nrest' Heq. destruct nrest as [|x r].
        - rewrite scan_fwd_nil_n in Hsf. left. split; [apply lenN_nil_inv; injection Hsf; lia | lia].
        - injection Heq as -> ->. right.
          destruct (scan_fwd (mn cfg hr) (x :: r) hs) as [k0|]; [|discriminate].
          injection Hsf as Hsf. split; [f_equal; lia|]. rewrite !lenN_cons in *. lia. }
      destruct (match nrest with [] => (nc, []) | x :: r => (x, r) end) as [nc' nrest'] eqn:En.
      specialize (Hinv' nc' nrest' eq_refl).
      assert (Hacc : lenN acc + 1 <= 2520) by lia.
      destruct (N.eqb_spec (i - pm - 1) 0) as [Hg|Hg]; subst in_run.
      * (* consecutive *)
        set (rf' := if (BONUS_BOUNDARY <=? b) && (fb <? b) then b else fb).
        set (b' := N.max (N.max b rf') BONUS_CONSECUTIVE).
        assert (Hrf : rf' <= 10) by (unfold rf'; destruct (_ && _); lia).
        assert (Hb' : b' <= 10) by (unfold b', BONUS_CONSECUTIVE; lia).
        assert (Hscore : score = Sc) by (rewrite Hsc, Hg; unfold pen; cbn; lia).
        destruct (IH (i + 1) nrest' nc' k false true rf' (sadd16 score (SCORE_MATCH + b')) (i :: acc) i
                     (Sc + 16 + b')) as [new Hnew];
          [exact Hwin' | lia | symmetry; apply N.ltb_ge; lia | symmetry; apply N.eqb_eq; lia
          | | exact Hprev' | exact Hrf | rewrite lenN_cons; lia | exact Hinv' |].
        -- rewrite sadd16_exact; unfold SCORE_MATCH; [|lia].
           replace (i + 1 - i - 1) with 0 by lia. unfold pen. cbn [N.eqb]. lia.
        -- exists (i :: new). rewrite Hnew. cbn [fzf_rest rev]. fold b.
           replace (i =? pm + 1) with true by (symmetry; apply N.eqb_eq; lia).
           unfold BONUS_BOUNDARY, BONUS_CONSECUTIVE in *. fold rf'. fold b'.
           rewrite <- app_assoc. reflexivity.
      * (* after a gap *)
        assert (Hpen : pen (i - pm - 1) = 3 + (i - pm - 1 - 1)).
        { unfold pen. destruct (N.eqb_spec (i - pm - 1) 0); lia. }
        destruct (IH (i + 1) nrest' nc' k false true b (sadd16 score (SCORE_MATCH + b)) (i :: acc) i
                     (Sc - (3 + (i - pm - 1 - 1)) + 16 + b)) as [new Hnew];
          [exact Hwin' | lia | symmetry; apply N.ltb_ge; lia | symmetry; apply N.eqb_eq; lia
          | | exact Hprev' | exact Hble | rewrite lenN_cons; lia | exact Hinv' |].
        -- rewrite sadd16_exact; unfold SCORE_MATCH; [|lia].
           replace (i + 1 - i - 1) with 0 by lia. unfold pen at 1. cbn [N.eqb]. lia.
        -- exists (i :: new). rewrite Hnew. cbn [fzf_rest rev]. fold b.
           replace (i =? pm + 1) with false by (symmetry; apply N.eqb_neq; lia).
           rewrite <- app_assoc. reflexivity.
    + (* skipped *)
      destruct (IH (i + 1) nrest nc k true false fb
                   (score - (if in_gap then PENALTY_GAP_EXTENSION else PENALTY_GAP_START)) acc pm Sc)
        as [new Hnew];
        [exact Hwin' | lia | symmetry; apply N.ltb_lt; lia | symmetry; apply N.eqb_neq; lia
        | | exact Hprev' | exact Hfb | exact HS | | ].
      * subst in_gap score. unfold pen, PENALTY_GAP_EXTENSION, PENALTY_GAP_START.
        destruct (N.ltb_spec 0 (i - pm - 1)); destruct (N.eqb_spec (i - pm - 1) 0);
          destruct (N.eqb_spec (i + 1 - pm - 1) 0); lia.
      * right. destruct (scan_fwd (mn cfg hr) (nc :: nrest) hs) as [k0|]; [|discriminate].
        injection Hsf as Hsf. split; [f_equal; lia | exact Hcnt].
      * exists new. exact Hnew.
Qed.

Definition outcome_ok (cfg : config) (hr : repr) (h : list N) (o : outcome) : Prop :=
  match o with Match s idx => s = fzf_score cfg hr h idx | _ => True end.

(* ---- list plumbing -------------------------------------------------------------------------------- *)
Lemma nth_firstn_lt {A} (d : A) : forall n l j, (j < n)%nat -> nth j (firstn n l) d = nth j l d.
Proof.
  induction n as [|n IH]; intros l j Hj; [lia|]. destruct l as [|x l]; [reflexivity|].
  destruct j as [|j]; [reflexivity|]. cbn [firstn nth]. apply IH. lia.
Qed.

Lemma nth_skipn_add {A} (d : A) : forall a l j, nth j (skipn a l) d = nth (a + j) l d.
Proof.
  induction a as [|a IH]; intros l j; [reflexivity|]. destruct l as [|x l]; [destruct j; reflexivity|].
  cbn [skipn Nat.add nth]. apply IH.
Qed.

Lemma nth_slice a b (h : list N) j :
  (j < length (sliceN a b h))%nat -> nth j (sliceN a b h) 0 = nth (N.to_nat a + j) h 0.
Proof.
  unfold sliceN, takeN, dropN. intros Hj. rewrite firstn_length in Hj.
  rewrite nth_firstn_lt by lia. apply nth_skipn_add.
Qed.

Lemma skipn_S_cons {A} : forall a (l : list A) y t, skipn a l = y :: t -> skipn (S a) l = t.
Proof.
  induction a as [|a IH]; intros l y t H.
  - cbn in H. subst l. reflexivity.
  - destruct l as [|x l]; [discriminate|]. cbn [skipn] in H. cbn [skipn]. eapply IH; eauto.
Qed.

Lemma slice_tl {A} a b (h : list A) x t : sliceN a b h = x :: t -> t = sliceN (a + 1) b h.
Proof.
  unfold sliceN, takeN, dropN. intros H.
  destruct (skipn (N.to_nat a) h) as [|y l] eqn:El; [rewrite firstn_nil in H; discriminate|].
  destruct (N.to_nat (b - a)) as [|m] eqn:Em; [discriminate|].
  cbn [firstn] in H. injection H as _ <-.
  replace (N.to_nat (a + 1)) with (S (N.to_nat a)) by lia. rewrite (skipn_S_cons _ _ _ _ El).
  f_equal. lia.
Qed.

Lemma calculate_score_ok cfg hr h n0 nrest start end_ :
  bonus_bounded cfg -> prefer_prefix cfg = false -> lenN (n0 :: nrest) <= 2500 ->
  scan_fwd (mn cfg hr) nrest (sliceN (start + 1) end_ h) = Some (lenN (sliceN (start + 1) end_ h)) ->
  outcome_ok cfg hr h (calculate_score cfg hr h (n0 :: nrest) start end_).
Proof.
  intros Hb Hpp Hlen Hsf. unfold calculate_score. destruct (lenN h <=? start); [exact I|].
  rewrite Hpp. set (w := sliceN (start + 1) end_ h) in *.
  set (fb := bonus_for cfg (prev_class cfg hr h start) (class cfg hr (nthN h start 0))).
  assert (Hfb_eq : fb = spec_bonus_at cfg hr h start).
  { unfold fb. rewrite C03_bonus_table. reflexivity. }
  assert (Hfb : fb <= 10) by (rewrite Hfb_eq; apply spec_bonus_at_le10, Hb).
  rewrite lenN_cons in Hlen.
  destruct (match nrest with [] => (n0, []) | x :: r => (x, r) end) as [nc nrest'] eqn:En.
  destruct (cs_loop_ok cfg hr h Hb w (start + 1) nrest' nc (class cfg hr (nthN h start 0)) false true fb
              (SCORE_MATCH + fb * BONUS_FIRST_CHAR_MULTIPLIER) [start] start (16 + 2 * fb)) as [new Hnew].
  - intros j Hj. apply nth_slice. exact Hj.
  - lia.
  - symmetry. apply N.ltb_ge. lia.
  - symmetry. apply N.eqb_eq. lia.
  - replace (start + 1 - start - 1) with 0 by lia. unfold pen, SCORE_MATCH, BONUS_FIRST_CHAR_MULTIPLIER.
    cbn [N.eqb]. lia.
  - unfold nthN. do 3 f_equal. lia.
  - exact Hfb.
  - unfold lenN. cbn [length]. lia.
  - destruct nrest as [|x r]; injection En as <- <-.
    + left. rewrite scan_fwd_nil_n in Hsf. split; [apply lenN_nil_inv; injection Hsf; lia | lia].
    + right. split; [exact Hsf|]. rewrite lenN_cons in Hlen. unfold lenN at 1. cbn [length]. lia.
  - rewrite Hnew. cbn [outcome_ok rev app fzf_score]. rewrite <- Hfb_eq. reflexivity.
Qed.

(* a window whose characters all match consumes the needle exactly *)
Lemma scan_fwd_all cfg hr : forall w n,
  length w = length n -> (forall p, In p (combine w n) -> norm cfg hr (fst p) = snd p) ->
  scan_fwd (mn cfg hr) n w = Some (lenN w).
Proof.
  induction w as [|c w IH]; intros n Hl Hp; destruct n as [|x n]; try discriminate; [reflexivity|].
  rewrite scan_fwd_cons. unfold mn at 1.
  pose proof (Hp (c, x) (or_introl eq_refl)) as Hcx. cbn [fst snd] in Hcx. rewrite Hcx, N.eqb_refl.
  rewrite IH; [rewrite lenN_cons; reflexivity | cbn in Hl; lia |].
  intros p Hin. apply Hp. right. exact Hin.
Qed.

Lemma needle_ok_in cfg nr n x : needle_ok cfg nr n = true -> In x n -> norm cfg nr x = x.
Proof. unfold needle_ok. rewrite forallb_forall. intros H Hin. apply N.eqb_eq, H, Hin. Qed.

Lemma norm_ascii_cs cfg c : ignore_case cfg = false -> norm cfg Ascii c = c.
Proof. intros H. cbn [norm]. unfold norm_ascii. rewrite H. reflexivity. Qed.

Lemma exact_impl_ok cfg hs ns start end_ :
  bonus_bounded cfg -> prefer_prefix cfg = false -> lenN (cs ns) <= 2500 ->
  needle_ok cfg (rp ns) (cs ns) = true ->
  outcome_ok cfg (rp hs) (cs hs) (exact_impl cfg hs ns start end_).
Proof.
  intros Hb Hpp Hlen Hok. unfold exact_impl. destruct (negb _); [exact I|].
  set (w := sliceN start end_ (cs hs)).
  assert (G : forall P : N * N -> bool,
             (forall p, In p (combine w (cs ns)) -> P p = true -> norm cfg (rp hs) (fst p) = snd p) ->
             outcome_ok cfg (rp hs) (cs hs)
               (if forallb P (combine w (cs ns)) && (lenN w =? lenN (cs ns))
                then calculate_score cfg (rp hs) (cs hs) (cs ns) start end_ else NoMatch)).
  { intros P HP. destruct (forallb P (combine w (cs ns))) eqn:Ef; [|exact I].
    destruct (N.eqb_spec (lenN w) (lenN (cs ns))) as [El|]; [|exact I]. cbn [andb].
    destruct (cs ns) as [|n0 nrest] eqn:En; [exact I|].
    destruct w as [|w0 w'] eqn:Ew; [unfold lenN in El; cbn in El; lia|].
    apply calculate_score_ok; try assumption.
    rewrite <- (slice_tl _ _ _ _ _ Ew). apply scan_fwd_all.
    - unfold lenN in El. cbn [length] in El. lia.
    - intros p Hin. rewrite forallb_forall in Ef. apply HP; [right; exact Hin | apply Ef; right; exact Hin]. }
  assert (Hsnd : forall p, In p (combine w (cs ns)) -> norm cfg (rp ns) (snd p) = snd p).
  { intros [a b] Hin. cbn [snd]. eapply needle_ok_in; [exact Hok|]. eapply in_combine_r; eauto. }
  destruct (rp hs) eqn:Ehr, (rp ns) eqn:Enr; try exact I.
  - destruct (ignore_case cfg) eqn:Eic; apply G; intros p Hin HP; apply N.eqb_eq in HP.
    + rewrite HP. apply Hsnd, Hin.
    + rewrite norm_ascii_cs by exact Eic. exact HP.
  - apply G. intros p Hin HP. apply N.eqb_eq in HP. rewrite HP. apply Hsnd, Hin.
  - apply G. intros p Hin HP. apply N.eqb_eq in HP. rewrite HP. apply Hsnd, Hin.
Qed.

(* ---- substring paths ------------------------------------------------------------------------------ *)
Lemma class_before_succ cfg hr h i :
  class_before cfg hr h (i + 1) = class cfg hr (nth (N.to_nat i) h 0).
Proof.
  unfold class_before. destruct (N.eqb_spec (i + 1) 0); [lia|]. do 3 f_equal. lia.
Qed.

Lemma scan_cands_in cfg hr P h : forall hs i prev p b,
  hs = skipn (N.to_nat i) h -> prev = class_before cfg hr h i ->
  In (p, b) (scan_cands cfg hr P hs i prev) ->
  b = spec_bonus_at cfg hr h p /\ P (skipn (N.to_nat p) h) = true.
Proof.
  induction hs as [|c hs IH]; intros i prev p b Hhs Hprev Hin; cbn [scan_cands] in Hin; [destruct Hin|].
  assert (Hc : c = nth (N.to_nat i) h 0).
  { pose proof (nth_skipn_add 0 (N.to_nat i) h 0%nat) as H. rewrite <- Hhs in H. cbn [nth] in H.
    rewrite Nat.add_0_r in H. exact H. }
  assert (Hrec : In (p, b) (scan_cands cfg hr P hs (i + 1) (class cfg hr c)) ->
                 b = spec_bonus_at cfg hr h p /\ P (skipn (N.to_nat p) h) = true).
  { apply IH.
    - replace (N.to_nat (i + 1)) with (S (N.to_nat i)) by lia. symmetry. eapply skipn_S_cons. eauto.
    - rewrite class_before_succ, Hc. reflexivity. }
  destruct (P (c :: hs)) eqn:EP; [|exact (Hrec Hin)].
  destruct Hin as [Heq | Hin]; [|exact (Hrec Hin)].
  injection Heq as <- <-. split; [|rewrite <- Hhs; exact EP].
  rewrite C03_bonus_table, Hprev, Hc. reflexivity.
Qed.

Lemma fzf_score_single cfg hr h i : fzf_score cfg hr h [i] = spec_bonus_at cfg hr h i * 2 + 16.
Proof. cbn [fzf_score fzf_rest]. lia. Qed.

Lemma substring_1_ascii_ok cfg h c : outcome_ok cfg Ascii h (substring_1_ascii cfg h c).
Proof.
  unfold substring_1_ascii. destruct (best_pos _ _ _) as [[i s]|] eqn:E; [|exact I].
  apply best_pos_src in E. destruct E as [E | [b [Hin ->]]]; [discriminate|].
  apply (scan_cands_in cfg Ascii _ h) in Hin; [|reflexivity|reflexivity].
  destruct Hin as [-> _]. cbn [outcome_ok]. rewrite fzf_score_single. reflexivity.
Qed.

Lemma best_pos_some cfg cands : forall x, best_pos cfg cands (Some x) <> None.
Proof.
  induction cands as [|[i b] cands IH]; intros [i0 s0]; cbn [best_pos]; [discriminate|].
  destruct (s0 <? _); [|apply IH]. destruct (max_bonus cfg <=? b); [discriminate | apply IH].
Qed.

Lemma best_pos_none cfg cands : best_pos cfg cands None = None -> cands = [].
Proof.
  destruct cands as [|[i b] cands]; [reflexivity|]. cbn [best_pos].
  destruct (0 <? _) eqn:E; [|unfold BONUS_FIRST_CHAR_MULTIPLIER, SCORE_MATCH in E; lia].
  destruct (max_bonus cfg <=? b); [discriminate|]. intros H. exfalso. exact (best_pos_some _ _ _ H).
Qed.

Lemma substring_1_non_ascii_ok cfg h c start :
  (exists c0 rest, dropN start h = c0 :: rest /\ norm cfg Unicode c0 = c) ->
  outcome_ok cfg Unicode h (substring_1_non_ascii cfg h c start).
Proof.
  intros [c0 [rest [Hd Hn]]]. unfold substring_1_non_ascii.
  destruct (best_pos _ _ _) as [[i s]|] eqn:E.
  - apply best_pos_src in E. destruct E as [E | [b [Hin ->]]]; [discriminate|].
    apply (scan_cands_in cfg Unicode _ h) in Hin; [|reflexivity|reflexivity].
    destruct Hin as [-> _]. cbn [outcome_ok]. rewrite fzf_score_single. reflexivity.
  - exfalso. apply best_pos_none in E. rewrite Hd in E. cbn [scan_cands head_is] in E.
    rewrite class_norm_fst, Hn, N.eqb_refl in E. discriminate.
Qed.

Lemma prefix_match_scan cfg hr : forall n hs,
  prefix_match cfg hr n hs = true ->
  scan_fwd (mn cfg hr) n (firstn (length n) hs) = Some (lenN (firstn (length n) hs)).
Proof.
  induction n as [|x n IH]; intros hs H; [reflexivity|].
  destruct hs as [|c hs]; [discriminate|]. cbn [prefix_match] in H.
  apply andb_true_iff in H. destruct H as [H1 H2]. cbn [length firstn].
  rewrite scan_fwd_cons. unfold mn at 1. rewrite H1, (IH _ H2), lenN_cons. reflexivity.
Qed.

Lemma substring_calc_ok cfg hr h n i :
  bonus_bounded cfg -> prefer_prefix cfg = false -> lenN n <= 2500 ->
  prefix_match cfg hr n (skipn (N.to_nat i) h) = true ->
  outcome_ok cfg hr h (calculate_score cfg hr h n i (i + lenN n)).
Proof.
  intros Hb Hpp Hlen Hpm. destruct n as [|n0 nrest]; [exact I|].
  destruct (skipn (N.to_nat i) h) as [|c rest] eqn:Es; [discriminate|].
  cbn [prefix_match] in Hpm. apply andb_true_iff in Hpm. destruct Hpm as [_ Hpm].
  apply calculate_score_ok; try assumption.
  assert (Hw : sliceN (i + 1) (i + lenN (n0 :: nrest)) h = firstn (length nrest) rest).
  { unfold sliceN, takeN, dropN. replace (N.to_nat (i + 1)) with (S (N.to_nat i)) by lia.
    rewrite (skipn_S_cons _ _ _ _ Es). f_equal. rewrite lenN_cons. unfold lenN. lia. }
  rewrite Hw. apply prefix_match_scan. exact Hpm.
Qed.

Lemma substring_ascii_ok cfg h n :
  bonus_bounded cfg -> prefer_prefix cfg = false -> lenN n <= 2500 ->
  outcome_ok cfg Ascii h (substring_ascii cfg h n).
Proof.
  intros Hb Hpp Hlen. unfold substring_ascii. destruct (best_pos _ _ _) as [[i s]|] eqn:E; [|exact I].
  apply best_pos_src in E. destruct E as [E | [b [Hin _]]]; [discriminate|].
  apply (scan_cands_in cfg Ascii _ h) in Hin; [|reflexivity|reflexivity].
  destruct Hin as [_ Hpm]. apply substring_calc_ok; assumption.
Qed.

Lemma substring_non_ascii_ok cfg nr h n start :
  bonus_bounded cfg -> prefer_prefix cfg = false -> lenN n <= 2500 ->
  outcome_ok cfg Unicode h (substring_non_ascii cfg nr h n start).
Proof.
  intros Hb Hpp Hlen. unfold substring_non_ascii. destruct (best_pos _ _ _) as [[i s]|] eqn:E; [|exact I].
  apply best_pos_src in E. destruct E as [E | [b [Hin _]]]; [discriminate|].
  apply (scan_cands_in cfg Unicode _ h) in Hin; [|reflexivity|reflexivity].
  destruct Hin as [_ Hpm]. apply substring_calc_ok; assumption.
Qed.

(* a position found in a prefix of l is a position of l *)
Lemma position_firstn {A} (p : A -> bool) : forall l m k,
  position p (firstn m l) = Some k -> exists c rest, skipn (N.to_nat k) l = c :: rest /\ p c = true.
Proof.
  induction l as [|x l IH]; intros m k H.
  - rewrite firstn_nil in H. discriminate.
  - destruct m as [|m]; [discriminate|]. cbn [firstn position] in H. destruct (p x) eqn:Ep.
    + injection H as <-. exists x, l. split; [reflexivity | exact Ep].
    + destruct (position p (firstn m l)) as [k'|] eqn:E; [|discriminate]. injection H as <-.
      destruct (IH _ _ E) as [c [rest [Hs Hc]]]. exists c, rest. split; [|exact Hc].
      replace (N.to_nat (k' + 1)) with (S (N.to_nat k')) by lia. exact Hs.
Qed.

Lemma prefilter_non_ascii_start cfg h n0 nrest og start e :
  prefilter_non_ascii cfg h (n0 :: nrest) og = Some (start, e) ->
  exists c0 rest, dropN start h = c0 :: rest /\ norm cfg Unicode c0 = n0.
Proof.
  unfold prefilter_non_ascii, takeN. intros H.
  destruct (position _ _) as [st|] eqn:Ep; [|discriminate].
  assert (st = start).
  { destruct og.
    - destruct (_ <? _); [discriminate | injection H as <- _; reflexivity].
    - destruct (position _ (frev _)); [|discriminate].
      destruct (_ <? _); [discriminate | injection H as <- _; reflexivity]. }
  subst st. apply position_firstn in Ep. destruct Ep as [c [rest [Hs Hc]]].
  exists c, rest. split; [exact Hs | apply N.eqb_eq, Hc].
Qed.

(* ---- the greedy forward scan: monotonicity and minimality ------------------------------------------ *)
Section ScanFwd.
  Context {A : Type} (m : N -> A -> bool).

  Lemma scan_fwd_le : forall hs n k, scan_fwd m n hs = Some k -> k <= lenN hs.
  Proof.
    induction hs as [|c hs IH]; intros n k H; destruct n as [|x n].
    - cbn in H. injection H as <-. unfold lenN; lia.
    - discriminate.
    - rewrite scan_fwd_nil_n in H. injection H as <-. lia.
    - rewrite scan_fwd_cons in H. rewrite lenN_cons. destruct (m x c).
      + destruct (scan_fwd m n hs) as [k'|] eqn:E; [|discriminate]. injection H as <-.
        apply IH in E. lia.
      + destruct (scan_fwd m (x :: n) hs) as [k'|] eqn:E; [|discriminate]. injection H as <-.
        apply IH in E. lia.
  Qed.

  (* dropping the first needle character / prepending a haystack character never delays the scan *)
  Lemma scan_fwd_mono : forall hs,
    (forall n x k, scan_fwd m (x :: n) hs = Some k -> exists k', scan_fwd m n hs = Some k' /\ k' <= k) /\
    (forall n c k, scan_fwd m n hs = Some k -> exists k', scan_fwd m n (c :: hs) = Some k' /\ k' <= k + 1).
  Proof.
    induction hs as [|c0 hs [IHT IHD]].
    - split.
      + intros n x k H. discriminate.
      + intros n c k H. destruct n as [|x n]; [|discriminate]. exists 0. split; [reflexivity | lia].
    - assert (T : forall n x k, scan_fwd m (x :: n) (c0 :: hs) = Some k ->
                               exists k', scan_fwd m n (c0 :: hs) = Some k' /\ k' <= k).
      { intros n x k H. rewrite scan_fwd_cons in H. destruct (m x c0).
        - destruct (scan_fwd m n hs) as [k1|] eqn:E; [|discriminate]. injection H as <-.
          destruct (IHD n c0 k1 E) as [k' [H1 H2]]. exists k'. split; [exact H1 | lia].
        - destruct (scan_fwd m (x :: n) hs) as [k1|] eqn:E; [|discriminate]. injection H as <-.
          destruct (IHT n x k1 E) as [k2 [H1 H2]]. destruct (IHD n c0 k2 H1) as [k' [H3 H4]].
          exists k'. split; [exact H3 | lia]. }
      split; [exact T|].
      intros n c k H. destruct n as [|x n].
      + exists 0. split; [reflexivity | lia].
      + rewrite (scan_fwd_cons m x n c (c0 :: hs)). destruct (m x c).
        * destruct (T n x k H) as [k' [H1 H2]]. rewrite H1. exists (k' + 1). split; [reflexivity | lia].
        * rewrite H. exists (k + 1). split; [reflexivity | lia].
  Qed.

  Lemma scan_fwd_skipn : forall j hs n k2,
    scan_fwd m n (skipn j hs) = Some k2 -> exists k1, scan_fwd m n hs = Some k1 /\ k1 <= N.of_nat j + k2.
  Proof.
    induction j as [|j IH]; intros hs n k2 H.
    - exists k2. split; [exact H | lia].
    - destruct hs as [|c hs]; [exists k2; split; [exact H | lia]|].
      cbn [skipn] in H. destruct (IH hs n k2 H) as [k1 [H1 H2]].
      destruct (proj2 (scan_fwd_mono hs) n c k1 H1) as [k' [H3 H4]]. exists k'. split; [exact H3 | lia].
  Qed.

  Lemma scan_fwd_firstn : forall hs n k,
    scan_fwd m n hs = Some k -> scan_fwd m n (firstn (N.to_nat k) hs) = Some k.
  Proof.
    induction hs as [|c hs IH]; intros n k H; destruct n as [|x n].
    - cbn in H. injection H as <-. reflexivity.
    - discriminate.
    - rewrite scan_fwd_nil_n in H. injection H as <-. reflexivity.
    - rewrite scan_fwd_cons in H. destruct (m x c) eqn:Em.
      + destruct (scan_fwd m n hs) as [k'|] eqn:E; [|discriminate]. injection H as <-.
        replace (N.to_nat (k' + 1)) with (S (N.to_nat k')) by lia. cbn [firstn].
        rewrite scan_fwd_cons, Em, (IH _ _ E). reflexivity.
      + destruct (scan_fwd m (x :: n) hs) as [k'|] eqn:E; [|discriminate]. injection H as <-.
        replace (N.to_nat (k' + 1)) with (S (N.to_nat k')) by lia. cbn [firstn].
        rewrite scan_fwd_cons, Em, (IH _ _ E). reflexivity.
  Qed.

  Lemma scan_fwd_app : forall hs n k t, scan_fwd m n hs = Some k -> scan_fwd m n (hs ++ t) = Some k.
  Proof.
    induction hs as [|c hs IH]; intros n k t H; destruct n as [|x n].
    - rewrite scan_fwd_nil_n. exact H.
    - discriminate.
    - rewrite scan_fwd_nil_n in *. exact H.
    - cbn [app]. rewrite scan_fwd_cons in *. destruct (m x c).
      + destruct (scan_fwd m n hs) as [k'|] eqn:E; [|discriminate]. rewrite (IH _ _ t E). exact H.
      + destruct (scan_fwd m (x :: n) hs) as [k'|] eqn:E; [|discriminate]. rewrite (IH _ _ t E). exact H.
  Qed.

  (* an in-order embedding of the needle *)
  Inductive emb : list N -> list A -> Prop :=
  | emb_nil : forall hs, emb [] hs
  | emb_skip : forall n c hs, emb n hs -> emb n (c :: hs)
  | emb_take : forall x n c hs, m x c = true -> emb n hs -> emb (x :: n) (c :: hs).

  Lemma emb_scan n hs : emb n hs -> exists k, scan_fwd m n hs = Some k.
  Proof.
    induction 1 as [hs | n c hs _ [k IH] | x n c hs Hm _ [k IH]].
    - exists 0. apply scan_fwd_nil_n.
    - destruct (proj2 (scan_fwd_mono hs) n c k IH) as [k' [H1 _]]. exists k'. exact H1.
    - exists (k + 1). rewrite scan_fwd_cons, Hm, IH. reflexivity.
  Qed.

  Lemma emb_app_r n hs t : emb n hs -> emb n (hs ++ t).
  Proof. induction 1; cbn [app]; constructor; assumption. Qed.

  Lemma emb_snoc n hs x c : emb n hs -> m x c = true -> emb (n ++ [x]) (hs ++ [c]).
  Proof.
    intros H Hm. induction H as [hs | n c0 hs _ IH | x0 n c0 hs Hm0 _ IH]; cbn [app].
    - induction hs as [|c0 hs IH]; cbn [app]; [apply emb_take; [exact Hm | apply emb_nil] | apply emb_skip, IH].
    - apply emb_skip, IH.
    - apply emb_take; [exact Hm0 | exact IH].
  Qed.

  (* minimality: inside the greedy window every later start needs the whole rest of the window *)
  Lemma scan_fwd_window hs n k j k2 :
    scan_fwd m n hs = Some k ->
    scan_fwd m n (skipn j (firstn (N.to_nat k) hs)) = Some k2 ->
    k2 = lenN (skipn j (firstn (N.to_nat k) hs)).
  Proof.
    intros Hk H2. pose proof (scan_fwd_le _ _ _ H2) as Hle.
    pose proof (scan_fwd_le _ _ _ Hk) as Hkle.
    destruct (scan_fwd_skipn _ _ _ _ H2) as [k1 [H1 Hk1]].
    rewrite (scan_fwd_firstn _ _ _ Hk) in H1. injection H1 as <-.
    unfold lenN in *. rewrite skipn_length, firstn_length in *. lia.
  Qed.
End ScanFwd.

Lemma scan_fwd_ext {A} (m1 m2 : N -> A -> bool) : forall n hs,
  (forall x, In x n -> forall c, m1 x c = m2 x c) -> scan_fwd m1 n hs = scan_fwd m2 n hs.
Proof.
  induction n as [|x n IHn]; intros hs Hext; [rewrite !scan_fwd_nil_n; reflexivity|].
  induction hs as [|c hs IHhs]; [reflexivity|].
  rewrite !scan_fwd_cons, IHhs, (Hext x (or_introl eq_refl) c), (IHn hs); [reflexivity|].
  intros y Hy. apply Hext. right. exact Hy.
Qed.

(* ---- the backward minimisation of fuzzy_greedy_ --------------------------------------------------- *)
Lemma scan_bwd_sound cfg hr : forall hrev nrev i i0,
  scan_bwd cfg hr nrev hrev i = Some i0 -> lenN hrev = i + 1 ->
  exists c rest n0 n', skipn (N.to_nat i0) (rev hrev) = c :: rest /\ rev nrev = n0 :: n' /\
                       emb (mn cfg hr) n' rest.
Proof.
  induction hrev as [|c hrev IH]; intros nrev i i0 H Hlen; [discriminate|].
  cbn [scan_bwd] in H. destruct nrev as [|nc nrev']; [discriminate|].
  rewrite lenN_cons in Hlen. cbn [rev].
  assert (Hrec : forall nr, scan_bwd cfg hr nr hrev (i - 1) = Some i0 ->
            exists c1 rest1 n0 n', skipn (N.to_nat i0) (rev hrev) = c1 :: rest1 /\ rev nr = n0 :: n' /\
                                   emb (mn cfg hr) n' rest1).
  { intros nr Hr. apply (IH nr (i - 1) i0 Hr). destruct hrev; [discriminate|]. rewrite lenN_cons in *. lia. }
  assert (Hskip : forall c1 rest1, skipn (N.to_nat i0) (rev hrev) = c1 :: rest1 ->
                                   skipn (N.to_nat i0) (rev hrev ++ [c]) = c1 :: rest1 ++ [c]).
  { intros c1 rest1 Hs. rewrite skipn_app, Hs.
    assert (N.to_nat i0 < length (rev hrev))%nat.
    { destruct (Nat.lt_ge_cases (N.to_nat i0) (length (rev hrev))) as [Hl|Hl]; [exact Hl|].
      rewrite skipn_all2 in Hs by exact Hl. discriminate. }
    replace (N.to_nat i0 - length (rev hrev))%nat with 0%nat by lia. reflexivity. }
  destruct (norm cfg hr c =? nc) eqn:Em.
  - destruct nrev' as [|y z].
    + injection H as <-. exists c, [], nc, []. split; [|split; [reflexivity | apply emb_nil]].
      rewrite skipn_app. rewrite skipn_all2 by (rewrite rev_length; unfold lenN in Hlen; lia).
      rewrite rev_length. replace (N.to_nat i - length hrev)%nat with 0%nat by (unfold lenN in Hlen; lia).
      reflexivity.
    + destruct (Hrec _ H) as [c1 [rest1 [n0 [n' [Hs [Hn He]]]]]].
      exists c1, (rest1 ++ [c]), n0, (n' ++ [nc]). split; [apply Hskip, Hs | split].
      * change (rev (nc :: y :: z)) with (rev (y :: z) ++ [nc]). rewrite Hn. reflexivity.
      * apply emb_snoc; [exact He | exact Em].
  - destruct (Hrec _ H) as [c1 [rest1 [n0 [n' [Hs [Hn He]]]]]].
    exists c1, (rest1 ++ [c]), n0, n'. split; [apply Hskip, Hs | split; [exact Hn | apply emb_app_r, He]].
Qed.

Lemma skipn_skipn_add {A} : forall a j (l : list A), skipn j (skipn a l) = skipn (a + j) l.
Proof.
  induction a as [|a IH]; intros j l; [reflexivity|]. destruct l as [|x l]; [rewrite !skipn_nil; reflexivity|].
  cbn [skipn Nat.add]. apply IH.
Qed.

Lemma skipn_slice {A} j a b (h : list A) : skipn (N.to_nat j) (sliceN a b h) = sliceN (a + j) b h.
Proof.
  unfold sliceN, takeN, dropN. rewrite skipn_firstn_comm, skipn_skipn_add. f_equal; [lia | f_equal; lia].
Qed.

(* the common tail of fuzzy_greedy_: forward scan result k, window [start, start+1+k) *)
Lemma greedy_core cfg hr h n0 nrest start k :
  bonus_bounded cfg -> prefer_prefix cfg = false -> lenN (n0 :: nrest) <= 2500 ->
  scan_fwd (mn cfg hr) nrest (dropN (start + 1) h) = Some k ->
  let e := start + 1 + k in
  let w := sliceN start e h in
  outcome_ok cfg hr h
    (calculate_score cfg hr h (n0 :: nrest)
       (match scan_bwd cfg hr (frev (n0 :: nrest)) (frev w) (lenN w - 1) with
        | Some i => start + i | None => start end) e).
Proof.
  intros Hb Hpp Hlen Hk e w.
  assert (Hwin : forall j, sliceN (start + j + 1) e h
                           = skipn (N.to_nat j) (firstn (N.to_nat k) (dropN (start + 1) h))).
  { intros j. replace (start + j + 1) with (start + 1 + j) by lia. rewrite <- skipn_slice.
    unfold sliceN, takeN, e. do 2 f_equal. lia. }
  assert (Hgoal : forall j, (exists k2, scan_fwd (mn cfg hr) nrest (sliceN (start + j + 1) e h) = Some k2) ->
                            outcome_ok cfg hr h (calculate_score cfg hr h (n0 :: nrest) (start + j) e)).
  { intros j [k2 H2]. apply calculate_score_ok; try assumption.
    rewrite H2. f_equal. rewrite Hwin in *. eapply scan_fwd_window; eauto. }
  destruct (scan_bwd _ _ _ _ _) as [i0|] eqn:Eb.
  - apply Hgoal. rewrite !frev_rev in Eb.
    destruct w as [|w0 w'] eqn:Ew; [discriminate|].
    apply scan_bwd_sound in Eb.
    2:{ unfold lenN. rewrite rev_length. unfold lenN. cbn [length]. lia. }
    destruct Eb as [c [rest [m0 [n' [Hs [Hn He]]]]]]. rewrite !rev_involutive in *.
    injection Hn as _ <-. rewrite <- Ew in Hs. unfold w in Hs. rewrite skipn_slice in Hs.
    apply slice_tl in Hs. rewrite <- Hs. apply emb_scan. exact He.
  - replace start with (start + 0) at 1 by lia. apply Hgoal. exists k.
    rewrite Hwin. cbn [N.to_nat skipn]. apply scan_fwd_firstn. exact Hk.
Qed.

(* for a normalised needle character the ASCII prefilter's byte test is cs_loop's test *)
Lemma byte_matches_norm cfg nc b :
  norm cfg Ascii nc = nc -> byte_matches (ignore_case cfg) nc b = mn cfg Ascii nc b.
Proof.
  unfold mn. cbn [norm]. unfold norm_ascii, byte_matches, in_range. destruct (ignore_case cfg); cbn [andb].
  - intros H.
    destruct ((65 <=? nc) && (nc <=? 90)) eqn:E1; [lia|].
    destruct ((97 <=? nc) && (nc <=? 122)) eqn:E2; destruct ((65 <=? b) && (b <=? 90)) eqn:E3; lia.
  - reflexivity.
Qed.

Lemma fuzzy_greedy__ok cfg hr nr h n start end_ :
  bonus_bounded cfg -> prefer_prefix cfg = false -> lenN n <= 2500 ->
  (forall x, In x n -> norm cfg nr x = x) ->
  match hr, nr with
  | Ascii, Ascii => exists k, scan_fwd (byte_matches (ignore_case cfg)) (tl n) (dropN (start + 1) h) = Some k /\
                              end_ = start + 1 + k
  | _, _ => end_ = start + 1
  end ->
  outcome_ok cfg hr h (fuzzy_greedy_ cfg hr nr h n start end_).
Proof.
  intros Hb Hpp Hlen Hn Hpre. destruct n as [|n0 nrest].
  { unfold fuzzy_greedy_. destruct hr, nr; exact I. }
  assert (Hone : end_ = start + 1 -> nrest = [] ->
            outcome_ok cfg hr h
              (calculate_score cfg hr h [n0]
                 (match scan_bwd cfg hr (frev [n0]) (frev (sliceN start end_ h)) (lenN (sliceN start end_ h) - 1) with
                  | Some i => start + i | None => start end) end_)).
  { intros -> ->. replace (start + 1) with (start + 1 + 0) by lia.
    apply (greedy_core cfg hr h n0 [] start 0); try assumption. apply scan_fwd_nil_n. }
  assert (Hmany : end_ = start + 1 -> forall x r, nrest = x :: r ->
            outcome_ok cfg hr h
              (match match scan_fwd (fun nc c => norm cfg hr c =? nc) nrest (dropN end_ h) with
                     | Some k => Some (end_ + k) | None => None end with
               | None => NoMatch
               | Some e =>
                 calculate_score cfg hr h (n0 :: nrest)
                   (match scan_bwd cfg hr (frev (n0 :: nrest)) (frev (sliceN start e h)) (lenN (sliceN start e h) - 1) with
                    | Some i => start + i | None => start end) e
               end)).
  { intros -> x r Er. destruct (scan_fwd _ nrest _) as [k|] eqn:Ek; [|exact I].
    apply (greedy_core cfg hr h n0 nrest start k); try assumption. }
  unfold fuzzy_greedy_. destruct hr, nr; cbv beta iota zeta.
  - destruct Hpre as [k [Hk ->]]. cbn [tl] in Hk.
    apply (greedy_core cfg Ascii h n0 nrest start k); try assumption.
    rewrite <- Hk. symmetry. apply scan_fwd_ext. intros x Hx c. apply byte_matches_norm.
    apply Hn. right. exact Hx.
  - destruct nrest as [|x r]; [apply Hone; [exact Hpre | reflexivity] | apply (Hmany Hpre x r eq_refl)].
  - destruct nrest as [|x r]; [apply Hone; [exact Hpre | reflexivity] | apply (Hmany Hpre x r eq_refl)].
  - destruct nrest as [|x r]; [apply Hone; [exact Hpre | reflexivity] | apply (Hmany Hpre x r eq_refl)].
Qed.

Lemma prefilter_ascii_greedy cfg h n start ge e' :
  prefilter_ascii cfg h n true = Some (start, ge, e') ->
  exists k, scan_fwd (byte_matches (ignore_case cfg)) (tl n) (dropN (start + 1) h) = Some k /\
            ge = start + 1 + k.
Proof.
  unfold prefilter_ascii. destruct n as [|n0 nrest]; [discriminate|].
  destruct (position _ _) as [st|]; [|discriminate].
  destruct (scan_fwd _ _ _) as [k|] eqn:Ek; [|discriminate].
  intros H. injection H as <- <- _. exists k. split; [exact Ek | reflexivity].
Qed.

Lemma fuzzy_greedy_impl_ok cfg hs ns :
  bonus_bounded cfg -> prefer_prefix cfg = false -> lenN (cs ns) <= 2500 ->
  needle_ok cfg (rp ns) (cs ns) = true ->
  outcome_ok cfg (rp hs) (cs hs) (fuzzy_greedy_impl cfg hs ns).
Proof.
  intros Hb Hpp Hlen Hok. unfold fuzzy_greedy_impl. destruct (_ <? _); [exact I|].
  pose proof (exact_impl_ok cfg hs ns 0 (lenN (cs hs)) Hb Hpp Hlen Hok) as Hex.
  assert (Hn : forall x, In x (cs ns) -> norm cfg (rp ns) x = x) by (intros x; apply needle_ok_in, Hok).
  destruct (cs ns) as [|n0 nrest] eqn:En; [reflexivity|].
  destruct (_ =? _); [exact Hex|].
  destruct (rp hs) eqn:Ehr, (rp ns) eqn:Enr; try exact I.
  - destruct (prefilter_ascii _ _ _ _) as [[[st ge] e']|] eqn:Ep; [|exact I].
    destruct (prefilter_ascii_greedy _ _ _ _ _ _ Ep) as [k [Hk Hge]]. cbn [tl] in Hk.
    destruct (N.eqb_spec (lenN (n0 :: nrest)) (ge - st)) as [El|_].
    + apply calculate_score_ok; try assumption.
      assert (Hk' : scan_fwd (mn cfg Ascii) nrest (dropN (st + 1) (cs hs)) = Some k).
      { rewrite <- Hk. symmetry. apply scan_fwd_ext. intros x Hx c. apply byte_matches_norm.
        apply Hn. right. exact Hx. }
      assert (Hw : sliceN (st + 1) ge (cs hs) = firstn (N.to_nat k) (dropN (st + 1) (cs hs))).
      { unfold sliceN, takeN. f_equal. lia. }
      rewrite Hw, (scan_fwd_firstn _ _ _ _ Hk'). f_equal.
      pose proof (scan_fwd_le _ _ _ _ Hk') as Hle. unfold lenN in *. rewrite firstn_length. lia.
    + apply fuzzy_greedy__ok; try assumption. exists k. split; [exact Hk | exact Hge].
  - destruct (prefilter_non_ascii _ _ _ _) as [[st e]|]; [|exact I].
    apply fuzzy_greedy__ok; try assumption. reflexivity.
  - destruct (prefilter_non_ascii _ _ _ _) as [[st e]|]; [|exact I].
    apply fuzzy_greedy__ok; try assumption. reflexivity.
Qed.

Lemma substring_impl_ok cfg hs ns :
  bonus_bounded cfg -> prefer_prefix cfg = false -> lenN (cs ns) <= 2500 ->
  needle_ok cfg (rp ns) (cs ns) = true ->
  outcome_ok cfg (rp hs) (cs hs) (substring_impl cfg hs ns).
Proof.
  intros Hb Hpp Hlen Hok. unfold substring_impl. destruct (_ <? _); [exact I|].
  pose proof (exact_impl_ok cfg hs ns 0 (lenN (cs hs)) Hb Hpp Hlen Hok) as Hex.
  destruct (cs ns) as [|n0 nrest] eqn:En; [reflexivity|].
  destruct (_ =? _); [exact Hex|].
  destruct (rp hs) eqn:Ehr, (rp ns) eqn:Enr; try exact I.
  - destruct nrest; [apply substring_1_ascii_ok | apply substring_ascii_ok; assumption].
  - destruct nrest.
    + destruct (prefilter_non_ascii _ _ _ _) as [[st e]|] eqn:Ep; [|exact I].
      apply substring_1_non_ascii_ok. eapply prefilter_non_ascii_start; eauto.
    + destruct (prefilter_non_ascii _ _ _ _) as [[st e]|] eqn:Ep; [|exact I].
      apply substring_non_ascii_ok; assumption.
  - destruct nrest.
    + destruct (prefilter_non_ascii _ _ _ _) as [[st e]|] eqn:Ep; [|exact I].
      apply substring_1_non_ascii_ok. eapply prefilter_non_ascii_start; eauto.
    + destruct (prefilter_non_ascii _ _ _ _) as [[st e]|] eqn:Ep; [|exact I].
      apply substring_non_ascii_ok; assumption.
Qed.

Lemma run_ok cfg a hs ns :
  a <> Fuzzy -> bonus_bounded cfg -> prefer_prefix cfg = false -> lenN (cs ns) <= 2500 ->
  needle_ok cfg (rp ns) (cs ns) = true ->
  outcome_ok cfg (rp hs) (cs hs) (run cfg a hs ns).
Proof.
  intros Ha Hb Hpp Hlen Hok.
  assert (Hex : forall st e, outcome_ok cfg (rp hs) (cs hs) (exact_impl cfg hs ns st e))
    by (intros; apply exact_impl_ok; assumption).
  destruct a; [congruence| | | | |]; cbn [run].
  - apply fuzzy_greedy_impl_ok; assumption.
  - apply substring_impl_ok; assumption.
  - unfold prefix_entry. destruct (cs ns); [reflexivity|]. destruct (_ <? _); [exact I | apply Hex].
  - unfold postfix_entry. destruct (cs ns); [reflexivity|]. destruct (_ <? _); [exact I | apply Hex].
  - unfold exact_entry. destruct (cs ns); [reflexivity|].
    destruct (_ =? _); [exact I|]. destruct (_ <? _); [exact I | apply Hex].
Qed.

(* C03_linear_score_stmt is FALSE as stated: it does not require the needle to be normalised.  With
   ignore_case, the needle "aA" is accepted against "aa" by exact_impl (which normalises both sides),
   but calculate_score compares the normalised haystack with the raw needle, stops matching after the
   first character and charges a gap penalty: score 33, indices [0], whereas fzf_score [0] = 36. *)
Lemma C03_linear_score_counterexample : ~ C03_linear_score_naive_stmt.
Proof.
  intros H.
  specialize (H (config_of preset_default true true false) Exact
                {| rp := Ascii; cs := [97; 97] |} {| rp := Ascii; cs := [97; 65] |} 33 [0]).
  assert (G : 33 = 36).
  { apply H; [discriminate | reflexivity | split; vm_compute; discriminate | vm_compute; discriminate
             | vm_compute; reflexivity]. }
  discriminate G.
Qed.

(* corrected variant: C03_linear_score_stmt with the extra hypothesis that the needle is normalised
   (needle_ok, the hypothesis every other matcher statement carries) *)
Definition C03_linear_score_weak_stmt : Prop :=
  forall cfg a hs ns s idx, a <> Fuzzy -> prefer_prefix cfg = false -> bonus_bounded cfg ->
    lenN (cs ns) <= 2500 -> needle_ok cfg (rp ns) (cs ns) = true ->
    run cfg a hs ns = Match s idx -> s = fzf_score cfg (rp hs) (cs hs) idx.
Lemma C03_linear_score_weak : C03_linear_score_weak_stmt.
Proof.
  intros cfg a hs ns s idx Ha Hpp Hb Hlen Hok H.
  pose proof (run_ok cfg a hs ns Ha Hb Hpp Hlen Hok) as G. rewrite H in G. exact G.
Qed.

Print Assumptions C03_bonus_table.
Print Assumptions C03_presets.
Print Assumptions C04_prefix_linear.
Print Assumptions C04_max_bonus.
Print Assumptions C03_no_wrap_counterexample.
Print Assumptions C03_no_wrap_weak.
Print Assumptions C03_linear_score_counterexample.
Print Assumptions C03_linear_score_weak.
