(* The row invariant of the DP: score_row / populate. *)
From Coq Require Import ZArith NArith List Bool Lia ZifyBool ZifyN ZifyNat.
From NV Require Import Base.Util Model.Chars Model.Matcher Spec.Matching Spec.Statements Proofs.CharsFacts
  Proofs.DPBase Proofs.DPRow.
Import ListNotations.
Local Open Scope N_scope.

Lemma sliceN_same {A} a (l : list A) : sliceN a a l = [].
Proof. unfold sliceN. rewrite N.sub_diag. reflexivity. Qed.

Section Inv.
  Variables (hw bs n ro : list N).
  Definition R (k : nat) : nat := N.to_nat (nth k ro 0).
  Hypothesis Gbs : length bs = length hw.
  Hypothesis Gm : (2 <= length n)%nat.
  Hypothesis G : forall k, (k < length n)%nat ->
    (k <= R k)%nat /\ (R k + (length n - k) <= length hw)%nat /\ nth (R k) hw 0 = nth k n 0 /\
    ((S k < length n)%nat -> (R k < R (S k))%nat).
  Hypothesis G0 : R 0 = 0%nat.

  Definition width : nat := (length hw + 1 - length n)%nat.

  Definition RowInv (i : nat) (row : list cell) : Prop :=
    (1 <= i)%nat /\ (i < length n)%nat /\ length row = width /\
    forall k, (R i - i <= k)%nat -> (k < width)%nat ->
      (nth (k + i) hw 0 = nth i n 0 ->
         16 <= sc (nth k row UNMATCHED) /\
         (mt (nth k row UNMATCHED) = true -> nth (k + i - 1) hw 0 = nth (i - 1) n 0)) /\
      (nth (k + i) hw 0 <> nth i n 0 -> nth k row UNMATCHED = UNMATCHED) /\
      (k = (R i - i)%nat -> R i = S (R (i - 1)) -> mt (nth k row UNMATCHED) = true).

  Definition CellsP (i : nat) (cells : list mcell) : Prop :=
    length cells = (length hw + 1 - length n + i - R i)%nat /\
    (forall c, fst (nth c cells (false, false)) = true ->
               (1 <= c)%nat /\ nth (R i + c - 1) hw 0 = nth i n 0) /\
    ((1 < length cells)%nat -> fst (nth 1 cells (false, false)) = true) /\
    ((1 <= i)%nat -> forall c, (c < length cells)%nat -> nth (R i + c) hw 0 = nth i n 0 ->
               snd (nth c cells (false, false)) = true -> nth (R i + c - 1) hw 0 = nth (i - 1) n 0) /\
    ((1 <= i)%nat -> R i = S (R (i - 1)) -> snd (nth 0 cells (false, false)) = true).

  Lemma score_row_inv (first : bool) i row pfx : (S i < length n)%nat ->
    (if first then i = 0%nat /\ length row = width else RowInv i row) ->
    exists row' cells,
      score_row first row hw bs (nth i ro 0) (nth (S i) ro 0) (N.of_nat i) (nth i n 0) (nth (S i) n 0) pfx
        = Some (row', cells) /\
      RowInv (S i) row' /\ CellsP i cells.
  Proof.
    intros Hi Hrow.
    destruct (G i ltac:(lia)) as (A1 & A2 & A3 & A4). destruct (G (S i) ltac:(lia)) as (B1 & B2 & B3 & _).
    specialize (A4 Hi).
    assert (Lrow : length row = width) by (destruct first; [tauto|apply Hrow]).
    assert (Ei : nth i ro 0 = N.of_nat (R i)) by (unfold R; lia).
    assert (ESi : nth (S i) ro 0 = N.of_nat (R (S i))) by (unfold R; lia).
    rewrite Ei, ESi.
    set (nc := nth i n 0) in *. set (nnc := nth (S i) n 0) in *.
    pose proof (score_row_some first row hw bs (N.of_nat (R i)) (N.of_nat (R (S i))) (N.of_nat i) nc nnc pfx) as E.
    cbv zeta in E.
    replace (N.of_nat (R (S i)) - 1) with (N.of_nat (R (S i) - 1)) in E by lia.
    replace (N.of_nat (R i) - N.of_nat i) with (N.of_nat (R i - i)) in E by lia.
    replace (N.of_nat (R (S i) - 1) - N.of_nat i) with (N.of_nat (R (S i) - 1 - i)) in E by lia.
    rewrite E; unfold lenN, width in *; try lia. clear E.
    set (nro := (R (S i) - 1)%nat) in *. set (rel := (R i - i)%nat) in *. set (nrel := (nro - i)%nat) in *.
    (* the m_cell at the row's first column is a real match *)
    assert (Hreal0 : 16 <= sc (mcell_of first nc (nth 0 (dropN (N.of_nat (R i)) hw) 0)
                                  (nth 0 (dropN (N.of_nat (R i)) bs) 0)
                                  (nth 0 (dropN (N.of_nat rel) row) UNMATCHED) pfx)).
    { rewrite !nth_dropN. replace (N.to_nat (N.of_nat (R i)) + 0)%nat with (R i) by lia. rewrite A3.
      destruct first; [apply mcell_of_first_real|]. unfold mcell_of.
      destruct Hrow as (_ & _ & _ & HR).
      destruct (HR rel ltac:(lia) ltac:(unfold width; lia)) as (C1 & _).
      replace (N.to_nat (N.of_nat rel) + 0)%nat with rel by lia. apply C1.
      replace (rel + i)%nat with (R i) by lia. exact A3. }
    eexists. eexists. split; [reflexivity|]. split.
    - (* the new row *)
      set (st := state_of _).
      assert (Hok : first = false -> forall t, (t < length (dropN (N.of_nat nrel) row))%nat ->
                nth t (dropN (N.of_nat nro) hw) 0 <> nc ->
                nth t (dropN (N.of_nat nrel) row) UNMATCHED = UNMATCHED).
      { intros F t Lt Hn. subst first. destruct Hrow as (_ & _ & _ & HR).
        rewrite length_dropN in Lt. rewrite nth_dropN in Hn. rewrite nth_dropN.
        destruct (HR (N.to_nat (N.of_nat nrel) + t)%nat ltac:(lia) ltac:(unfold width; lia)) as (_ & C2 & _).
        apply C2. replace (N.to_nat (N.of_nat nrel) + t + i)%nat with (N.to_nat (N.of_nat nro) + t)%nat by lia.
        exact Hn. }
      destruct (main_out first nc nnc (dropN (N.of_nat nro) hw) (dropN (N.of_nat nro) bs) (dropN (N.of_nat nrel) row)
                  (fst (fst st)) (snd (fst st)) (snd st)) as [ML MP].
      { rewrite !length_dropN. lia. }
      { exact Hok. }
      split; [lia|]. split; [lia|]. split.
      { rewrite app_length, length_takeN, ML, length_dropN. unfold width. lia. }
      intros k Hk1 Hk2.
      assert (Ek : forall d, nth k (takeN (N.of_nat nrel) row ++ d) UNMATCHED = nth (k - nrel) d UNMATCHED).
      { intros d. rewrite app_nth2; rewrite length_takeN; [f_equal; lia|lia]. }
      rewrite Ek.
      specialize (MP (k - nrel)%nat). rewrite !length_dropN, !nth_dropN in MP.
      replace (N.to_nat (N.of_nat nro) + S (k - nrel))%nat with (k + S i)%nat in MP by lia.
      replace (N.to_nat (N.of_nat nro) + (k - nrel))%nat with (k + S i - 1)%nat in MP by lia.
      destruct MP as [M1 M2]; [unfold width in *; lia|unfold width in *; lia|].
      replace (S i - 1)%nat with i by lia.
      split; [exact M1|]. split; [exact M2|].
      intros Hk3 HR1. replace (S i - 1)%nat with i in HR1 by lia.
      assert (Enro : nro = R i) by lia. assert (Enrel : nrel = rel) by lia.
      replace (k - nrel)%nat with 0%nat by lia.
      subst st. rewrite Enro, Enrel. rewrite !sliceN_same. cbn [skip_pass state_of fst snd].
      apply main_out_first'.
      + rewrite length_dropN. lia.
      + rewrite !length_dropN. lia.
      + rewrite length_dropN. unfold width in *. lia.
      + lia.
      + rewrite nth_dropN. replace (N.to_nat (N.of_nat (R i)) + 1)%nat with (R (S i)) by lia. exact B3.
    - (* the back-pointer cells *)
      set (H := removelast (dropN (N.of_nat (R i)) hw)).
      set (B := removelast (dropN (N.of_nat (R i)) bs)).
      set (Rr := dropN (N.of_nat rel) row).
      assert (LH : length H = (length hw - R i - 1)%nat) by (unfold H; rewrite length_removelast, length_dropN; lia).
      assert (LB : length B = (length hw - R i - 1)%nat) by (unfold B; rewrite length_removelast, length_dropN; lia).
      assert (LR : length Rr = (length hw + 1 - length n + i - R i)%nat) by (unfold Rr; rewrite length_dropN; unfold width in *; lia).
      assert (NH : forall t, (t < length Rr)%nat -> nth t H 0 = nth (R i + t) hw 0).
      { intros t Lt. unfold H. rewrite nth_removelast, nth_dropN; [f_equal; lia|]. rewrite length_dropN. lia. }
      assert (NR : forall t, nth t Rr UNMATCHED = nth (rel + t) row UNMATCHED).
      { intros t. unfold Rr. rewrite nth_dropN. f_equal. lia. }
      assert (LC : length (cells_of (skip_pass first nc H B Rr 0 0 pfx)) = (length hw + 1 - length n + i - R i)%nat).
      { rewrite skip_pass_len. lia. }
      split; [exact LC|]. split; [|split; [|split]].
      + intros c Hc.
        destruct (lt_dec c (length (cells_of (skip_pass first nc H B Rr 0 0 pfx)))) as [Lc|Lc].
        2:{ rewrite nth_overflow in Hc by lia. discriminate. }
        apply skip_cells_fst in Hc.
        * destruct Hc as [[_ Hc]|[Hc1 Hc2]]; [lia|]. split; [exact Hc1|].
          rewrite NH in Hc2 by lia. replace (R i + c - 1)%nat with (R i + (c - 1))%nat by lia. exact Hc2.
        * intros F t Lt Hs. subst first. destruct Hrow as (_ & _ & _ & HR).
          rewrite NH by lia. rewrite NR in Hs.
          destruct (HR (rel + t)%nat ltac:(lia) ltac:(unfold width; lia)) as (_ & C2 & _).
          replace (rel + t + i)%nat with (R i + t)%nat in C2 by lia.
          destruct (N.eq_dec (nth (R i + t) hw 0) nc) as [|Hne]; [assumption|].
          rewrite (C2 Hne) in Hs. cbn [sc UNMATCHED] in Hs. lia.
      + intros L1. rewrite LC in L1. apply skip_cells_second'; try lia.
        unfold H, B, Rr. fold rel. 
        rewrite nth_removelast by (rewrite length_dropN; lia).
        rewrite (nth_removelast 0 (dropN (N.of_nat (R i)) bs)) by (rewrite length_dropN; lia).
        lia.
      + intros I1 c Lc Hc Hs. destruct first; [lia|]. destruct Hrow as (_ & _ & _ & HR).
        rewrite skip_cells_snd in Hs by exact Lc. rewrite NR in Hs. rewrite LC in Lc.
        destruct (HR (rel + c)%nat ltac:(lia) ltac:(unfold width; lia)) as (C1 & _).
        replace (rel + c + i)%nat with (R i + c)%nat in C1 by lia.
        apply (C1 Hc). exact Hs.
      + intros I1 HR1. destruct first; [lia|]. destruct Hrow as (_ & _ & _ & HR).
        rewrite skip_cells_snd by lia. rewrite NR.
        destruct (HR (rel + 0)%nat ltac:(lia) ltac:(unfold width; lia)) as (_ & _ & C3).
        apply C3; [lia|exact HR1].
  Qed.

  Hypothesis Gro : length ro = length n.

  Lemma skipn_nth_cons {A} (d : A) : forall i l, (i < length l)%nat -> skipn i l = nth i l d :: skipn (S i) l.
  Proof.
    induction i as [|i IH]; intros l H; destruct l as [|x l]; cbn [length] in H; try lia; [reflexivity|].
    cbn [skipn nth]. rewrite (IH l) by lia. reflexivity.
  Qed.

  Lemma populate_single row idx x ro' : populate row hw bs idx [x] ro' = Some (row, []).
  Proof. destruct ro'; reflexivity. Qed.

  Lemma populate_inv : forall d i row, d = (length n - 1 - i)%nat -> RowInv i row ->
    exists rowf rest,
      populate row hw bs (N.of_nat i) (skipn i n) (skipn i ro) = Some (rowf, rest) /\
      RowInv (length n - 1) rowf /\ length rest = (length n - 1 - i)%nat /\
      forall t, (t < length n - 1 - i)%nat -> CellsP (i + t) (nth t rest []).
  Proof.
    induction d as [|d IH]; intros i row Hd Hrow; pose proof Hrow as (I1 & I2 & _).
    - assert (Ei : i = (length n - 1)%nat) by lia.
      rewrite (skipn_nth_cons 0 i n) by lia.
      rewrite (skipn_all2 n) by lia. rewrite populate_single.
      exists row, []. split; [reflexivity|]. split; [rewrite <- Ei; exact Hrow|]. split; [cbn [length]; lia|].
      intros t Ht. lia.
    - rewrite (skipn_nth_cons 0 i n), (skipn_nth_cons 0 (S i) n) by lia.
      rewrite (skipn_nth_cons 0 i ro), (skipn_nth_cons 0 (S i) ro) by lia.
      rewrite populate_cons.
      destruct (score_row_inv false i row 0 ltac:(lia) Hrow) as (row' & cells & E & HR' & HC).
      rewrite E.
      destruct (IH (S i) row' ltac:(lia) HR') as (rowf & rest & E' & HRf & Lr & HCr).
      rewrite (skipn_nth_cons 0 (S i) n), (skipn_nth_cons 0 (S i) ro) in E' by lia.
      replace (N.of_nat i + 1) with (N.of_nat (S i)) by lia. rewrite E'.
      exists rowf, (cells :: rest). split; [reflexivity|]. split; [exact HRf|]. split; [cbn [length]; lia|].
      intros t Ht. destruct t as [|t].
      + cbn [nth]. replace (i + 0)%nat with i by lia. exact HC.
      + cbn [nth]. replace (i + S t)%nat with (S i + t)%nat by lia. apply HCr. lia.
  Qed.
End Inv.
