(* Obligation C16/nfkd: every character of the documented blocks whose compatibility decomposition is an
   ASCII letter or digit followed only by combining marks is normalised to exactly that letter or digit.
   A computation over the rows of the reference table against the translated tables. *)
From Coq Require Import NArith List Bool.
From NV Require Import Base.Util Model.Chars Gen.GenUnicodeRef.
Local Open Scope N_scope.

Lemma normalize_nfkd_tbl : forallb (fun ca => normalize (fst ca) =? snd ca) ref_nfkd_ascii_base = true.
Proof. vm_compute. reflexivity. Qed.

Lemma normalize_nfkd c a : In (c, a) ref_nfkd_ascii_base -> normalize c = a.
Proof.
  intros H. pose proof normalize_nfkd_tbl as T. rewrite forallb_forall in T.
  apply N.eqb_eq. exact (T (c, a) H).
Qed.

