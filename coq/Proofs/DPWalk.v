(* argmax_last, the row list handed to reconstruct, and the backward walk. *)
From Coq Require Import ZArith NArith List Bool Lia ZifyBool ZifyN ZifyNat.
From NV Require Import Base.Util Model.Chars Model.Matcher Spec.Matching Spec.Statements Proofs.CharsFacts
  Proofs.DPBase Proofs.DPRow Proofs.DPInv.
Import ListNotations.
Local Open Scope N_scope.

(* ---- argmax_last ------------------------------------------------------------------------------------ *)
Lemma argmax_gen : forall l i best,
  (best = None -> l <> []) ->
  exists k c, argmax_last l i best = Some (k, c) /\
    (best = Some (k, c) \/ (i <= k /\ (N.to_nat (k - i) < length l)%nat /\ nth (N.to_nat (k - i)) l UNMATCHED = c)) /\
    (forall j, (j < length l)%nat -> sc (nth j l UNMATCHED) <= sc c) /\
    (forall kb cb, best = Some (kb, cb) -> sc cb <= sc c).
Proof.
  induction l as [|x l IH]; intros i best Hb.
  - destruct best as [[kb cb]|]; [|exfalso; apply Hb; reflexivity].
    exists kb, cb. cbn [argmax_last]. split; [reflexivity|]. split; [left; reflexivity|].
    split; [intros j Hj; cbn [length] in Hj; lia|]. intros kb' cb' E. injection E as <- <-. lia.
  - cbn [argmax_last].
    set (best' := match best with Some (_, bc) => if sc x <? sc bc then best else Some (i, x) | None => Some (i, x) end).
    destruct (IH (i + 1) best') as (k & c & E & Hk & Hmax & Hbest).
    { unfold best'. destruct best as [[kb cb]|]; [destruct (sc x <? sc cb)|]; discriminate. }
    exists k, c. split; [exact E|].
    assert (Hx : sc x <= sc c).
    { unfold best' in Hbest. destruct best as [[kb cb]|].
      - destruct (N.ltb_spec (sc x) (sc cb)).
        + specialize (Hbest kb cb eq_refl). lia.
        + apply (Hbest i x eq_refl).
      - apply (Hbest i x eq_refl). }
    split; [|split].
    + destruct Hk as [Hk|(K1 & K2 & K3)].
      * unfold best' in Hk. destruct best as [[kb cb]|].
        -- destruct (sc x <? sc cb); [left; exact Hk|].
           injection Hk as <- <-. right. rewrite N.sub_diag. cbn [N.to_nat nth length]. repeat split; lia.
        -- injection Hk as <- <-. right. rewrite N.sub_diag. cbn [N.to_nat nth length]. repeat split; lia.
      * right. split; [lia|]. replace (N.to_nat (k - i)) with (S (N.to_nat (k - (i + 1)))) by lia.
        cbn [length nth]. split; [lia|exact K3].
    + intros j Hj. destruct j as [|j]; [exact Hx|]. cbn [nth]. apply Hmax. cbn [length] in Hj. lia.
    + intros kb cb Eb. subst best. unfold best' in Hbest.
      destruct (N.ltb_spec (sc x) (sc cb)); [apply (Hbest kb cb eq_refl)|]. specialize (Hbest i x eq_refl). lia.
Qed.

Lemma argmax_spec l : l <> [] ->
  exists k c, argmax_last l 0 None = Some (k, c) /\ (N.to_nat k < length l)%nat /\
    nth (N.to_nat k) l UNMATCHED = c /\ forall j, (j < length l)%nat -> sc (nth j l UNMATCHED) <= sc c.
Proof.
  intros H. destruct (argmax_gen l 0 None (fun _ => H)) as (k & c & E & [Hk|(K1 & K2 & K3)] & Hmax & _); [discriminate|].
  rewrite N.sub_0_r in *. exists k, c. auto.
Qed.

(* ---- zip3 ------------------------------------------------------------------------------------------- *)
Lemma zip3_length {A B C} : forall (a : list A) (b : list B) (c : list C),
  length (zip3 a b c) = Nat.min (length a) (Nat.min (length b) (length c)).
Proof.
  induction a as [|x a IH]; intros b c; [reflexivity|].
  destruct b as [|y b]; [reflexivity|]. destruct c as [|z c]; [cbn [zip3 length]; lia|].
  cbn [zip3 length]. rewrite IH. lia.
Qed.

Lemma zip3_nth {A B C} (da : A) (db : B) (dc : C) : forall a b c t,
  (t < length (zip3 a b c))%nat -> nth t (zip3 a b c) (da, db, dc) = (nth t a da, nth t b db, nth t c dc).
Proof.
  induction a as [|x a IH]; intros b c t H; [cbn [zip3 length] in H; lia|].
  destruct b as [|y b]; [cbn [zip3 length] in H; lia|]. destruct c as [|z c]; [cbn [zip3 length] in H; lia|].
  cbn [zip3 length] in H. destruct t as [|t]; [reflexivity|]. cbn [zip3 nth]. apply IH. lia.
Qed.

Lemma frev_rev' {A} (l : list A) : frev l = rev l.
Proof. unfold frev. rewrite rev_append_rev, app_nil_r. reflexivity. Qed.

Lemma frev_take_S {A} (d : A) col (l : list A) : (col < length l)%nat ->
  frev (takeN (N.of_nat col + 1) l) = nth col l d :: frev (takeN (N.of_nat col) l).
Proof.
  intros H. rewrite !frev_rev'. unfold takeN.
  replace (N.to_nat (N.of_nat col + 1)) with (S col) by lia. rewrite Nat2N.id.
  revert l H. induction col as [|col IH]; intros l H; destruct l as [|x l]; cbn [length] in H; try lia.
  - reflexivity.
  - change (firstn (S (S col)) (x :: l)) with (x :: firstn (S col) l).
    change (firstn (S col) (x :: l)) with (x :: firstn col l).
    cbn [rev nth]. rewrite (IH l) by lia. reflexivity.
Qed.

(* ---- the backward walk -------------------------------------------------------------------------------- *)
Section Walk.
  Variables (hw n ro : list N) (start : N).
  Hypothesis G : forall k, (k < length n)%nat ->
    (k <= R ro k)%nat /\ (R ro k + (length n - k) <= length hw)%nat /\ nth (R ro k) hw 0 = nth k n 0 /\
    ((S k < length n)%nat -> (R ro k < R ro (S k))%nat).

  (* rows i-1, ..., 0 as reconstruct receives them *)
  Fixpoint desc (i : nat) (rows : list (N * N * list mcell)) : Prop :=
    match i, rows with
    | O, [] => True
    | S i', (ri, off, cells) :: rows' =>
      ri = N.of_nat i' /\ off = nth i' ro 0 /\ CellsP hw n ro i' cells /\ desc i' rows'
    | _, _ => False
    end.

  (* the (row, index) pairs for rows 0..i, ascending, at strictly increasing matching columns; q = last column *)
  Inductive Pre : nat -> nat -> list (N * N) -> Prop :=
  | Pre0 p : nth p hw 0 = nth 0 n 0 -> (p < length hw)%nat -> Pre 0 p [(0, start + N.of_nat p)]
  | PreS i p q pre : Pre i p pre -> (p < q)%nat -> (q < length hw)%nat -> nth q hw 0 = nth (S i) n 0 ->
      Pre (S i) q (pre ++ [(N.of_nat (S i), start + N.of_nat q)]).

  Lemma reconstruct_ok : forall fuel i cells rows col matched acc,
    (S i < length n)%nat ->
    CellsP hw n ro i cells -> desc i rows -> (col < length cells)%nat ->
    (matched = false -> (1 <= col)%nat) ->
    (matched = true -> nth (R ro i + col) hw 0 = nth i n 0) ->
    (R ro i + col < fuel)%nat ->
    exists set pre q,
      reconstruct fuel start (N.of_nat i) (nth i ro 0) (frev (takeN (N.of_nat col + 1) cells)) rows
                  (N.of_nat col) matched acc = Some set /\
      set = pre ++ acc /\ Pre i q pre /\ (q <= R ro i + col)%nat.
  Proof.
    induction fuel as [|fuel IH]; intros i cells rows col matched acc Hi HC Hd Hcol Hm0 Hm1 Hf; [lia|].
    pose proof HC as (CL & P2 & P1 & P4 & P5).
    assert (Hq : (R ro i + col < length hw)%nat).
    { destruct (G i ltac:(lia)) as (A1 & A2 & _). lia. }
    rewrite (@frev_take_S mcell (false, false)) by exact Hcol. cbn [reconstruct].
    destruct matched.
    - (* matched state *)
      specialize (Hm1 eq_refl). cbn [mcell_get].
      destruct i as [|i'].
      + destruct rows as [|[[ri off] cells'] rows']; [|cbn [desc] in Hd; contradiction].
        eexists. exists [(0, start + N.of_nat (R ro 0 + col))], (R ro 0 + col)%nat.
        split; [reflexivity|]. split.
        * cbn [app N.of_nat]. f_equal. f_equal. unfold R. lia.
        * split; [|lia]. apply Pre0; [exact Hm1|exact Hq].
      + destruct rows as [|[[ri off] cells'] rows']; [cbn [desc] in Hd; contradiction|].
        cbn [desc] in Hd. destruct Hd as (-> & -> & HC' & Hd').
        pose proof HC' as (CL' & _).
        destruct (G i' ltac:(lia)) as (A1 & A2 & A3 & A4). specialize (A4 ltac:(lia)).
        assert (E1 : nth (S i') ro 0 = N.of_nat (R ro (S i'))) by (unfold R; lia).
        assert (E2 : nth i' ro 0 = N.of_nat (R ro i')) by (unfold R; lia).
        rewrite E1, E2.
        replace ((N.of_nat (R ro (S i')) <? N.of_nat (R ro i')) ||
                 (N.of_nat col + (N.of_nat (R ro (S i')) - N.of_nat (R ro i')) =? 0)) with false by lia.
        set (col' := (col + (R ro (S i') - R ro i') - 1)%nat).
        replace (N.of_nat col + (N.of_nat (R ro (S i')) - N.of_nat (R ro i')) - 1) with (N.of_nat col') by lia.
        replace (lenN cells' <=? N.of_nat col') with false by (unfold lenN; lia).
        rewrite <- E2.
        destruct (IH i' cells' rows' col' (snd (nth col cells (false, false)))
                     ((N.of_nat (S i'), start + N.of_nat col + N.of_nat (R ro (S i'))) :: acc))
          as (set & pre & q & E & Es & HP & Hq').
        * lia.
        * exact HC'.
        * exact Hd'.
        * lia.
        * intros Hs. destruct (Nat.eq_dec col' 0) as [Z|]; [|lia]. exfalso.
          assert (col = 0%nat) by lia. subst col.
          rewrite P5 in Hs; [discriminate|lia|]. replace (S i' - 1)%nat with i' by lia. lia.
        * intros Hs. replace (R ro i' + col')%nat with (R ro (S i') + col - 1)%nat by lia.
          replace i' with (S i' - 1)%nat at 2 by lia. apply P4; [lia|exact Hcol|exact Hm1|exact Hs].
        * lia.
        * exists set, (pre ++ [(N.of_nat (S i'), start + N.of_nat (R ro (S i') + col))]), (R ro (S i') + col)%nat.
          split; [exact E|]. split.
          -- rewrite Es, <- app_assoc. cbn [app]. do 3 f_equal. lia.
          -- split; [|lia]. apply (PreS i' q); [exact HP|lia|exact Hq|exact Hm1].
    - (* skipping state *)
      specialize (Hm0 eq_refl). cbn [mcell_get].
      replace (N.of_nat col =? 0) with false by lia.
      replace (N.of_nat col - 1) with (N.of_nat (col - 1)) by lia.
      assert (ET : takeN (N.of_nat col) cells = takeN (N.of_nat (col - 1) + 1) cells) by (f_equal; lia).
      rewrite ET.
      destruct (IH i cells rows (col - 1)%nat (fst (nth col cells (false, false))) acc)
        as (set & pre & q & E & Es & HP & Hq').
      + exact Hi.
      + exact HC.
      + exact Hd.
      + lia.
      + intros Hs. destruct (Nat.eq_dec col 1) as [Z|]; [|lia]. exfalso. subst col.
        rewrite P1 in Hs by lia. discriminate.
      + intros Hs. destruct (P2 col Hs) as [_ Hc]. replace (R ro i + (col - 1))%nat with (R ro i + col - 1)%nat by lia.
        exact Hc.
      + lia.
      + exists set, pre, q. split; [exact E|]. split; [exact Es|]. split; [exact HP|lia].
  Qed.

  Lemma desc_rev : forall k l, length l = k ->
    (forall t, (t < k)%nat -> exists cells, nth t l (0, 0, []) = (N.of_nat t, nth t ro 0, cells) /\ CellsP hw n ro t cells) ->
    desc k (rev l).
  Proof.
    clear G. induction k as [|k IH]; intros l L H.
    - destruct l; [exact I|discriminate].
    - destruct (exists_last (l := l)) as (l' & x & ->); [intros ->; discriminate|].
      rewrite app_length in L. cbn [length] in L.
      rewrite rev_app_distr. cbn [rev app].
      destruct (H k ltac:(lia)) as (cells & E & HC).
      rewrite app_nth2 in E by lia. replace (k - length l')%nat with 0%nat in E by lia. cbn [nth] in E. subst x.
      cbn [desc]. split; [reflexivity|]. split; [reflexivity|]. split; [exact HC|].
      apply IH; [lia|]. intros t Ht. destruct (H t ltac:(lia)) as (c' & E' & HC').
      rewrite app_nth1 in E' by lia. exists c'. auto.
  Qed.

  (* pointwise reading of Pre *)
  Lemma Pre_facts i q pre : Pre i q pre ->
    length pre = S i /\
    exists ps : nat -> nat, ps i = q /\
      forall r, (r <= i)%nat ->
        nth r pre (0, 0) = (N.of_nat r, start + N.of_nat (ps r)) /\ (ps r < length hw)%nat /\
        nth (ps r) hw 0 = nth r n 0 /\ ((r < i)%nat -> (ps r < ps (S r))%nat).
  Proof.
    clear G. induction 1 as [p Hp Lp|i p q pre HP IH Hpq Lq Hq].
    - split; [reflexivity|]. exists (fun _ => p). split; [reflexivity|].
      intros r Hr. replace r with 0%nat by lia. cbn [nth N.of_nat]. repeat split; try assumption. lia.
    - destruct IH as (L & ps & Ep & F). split; [rewrite app_length; cbn [length]; lia|].
      exists (fun r => if Nat.eqb r (S i) then q else ps r). split; [rewrite Nat.eqb_refl; reflexivity|].
      intros r Hr. destruct (Nat.eqb_spec r (S i)) as [->|Hne].
      + rewrite app_nth2 by lia. replace (S i - length pre)%nat with 0%nat by lia. cbn [nth].
        repeat split; try assumption. lia.
      + destruct (F r ltac:(lia)) as (F1 & F2 & F3 & F4).
        rewrite app_nth1 by lia. split; [exact F1|]. split; [exact F2|]. split; [exact F3|].
        intros Hlt. destruct (Nat.eqb_spec (S r) (S i)) as [E|E].
        * assert (r = i) by lia. subst r. lia.
        * apply F4. lia.
  Qed.
End Walk.

Lemma find_indexed {B} (d : N * B) : forall (l : list (N * B)) base,
  (forall t, (t < length l)%nat -> fst (nth t l d) = N.of_nat (base + t)) ->
  forall r, (r < length l)%nat -> find (fun p => fst p =? N.of_nat (base + r)) l = Some (nth r l d).
Proof.
  induction l as [|x l IH]; intros base H r Hr; [cbn [length] in Hr; lia|].
  cbn [find]. pose proof (H 0%nat ltac:(cbn [length]; lia)) as H0. cbn [nth] in H0.
  destruct r as [|r].
  - rewrite H0. replace (base + 0)%nat with base by lia. rewrite N.eqb_refl. reflexivity.
  - rewrite H0. replace (N.of_nat (base + 0) =? N.of_nat (base + S r)) with false by lia.
    cbn [nth]. replace (base + S r)%nat with (S base + r)%nat by lia. apply IH.
    + intros t Ht. specialize (H (S t) ltac:(cbn [length]; lia)). cbn [nth] in H. rewrite H. f_equal. lia.
    + cbn [length] in Hr. lia.
Qed.

Lemma embedding_b_intro (H : list N) : forall idxs needle lo,
  length idxs = length needle ->
  (forall k, (k < length needle)%nat ->
     nth k idxs 0 < N.of_nat (length H) /\ nth (N.to_nat (nth k idxs 0)) H 0 = nth k needle 0 /\
     ((S k < length needle)%nat -> nth k idxs 0 < nth (S k) idxs 0)) ->
  (forall x, hd_error idxs = Some x -> lo <= x) ->
  embedding_b idxs needle H lo = true.
Proof.
  induction idxs as [|i idxs IH]; intros needle lo L F Hlo; destruct needle as [|x needle]; try discriminate; [reflexivity|].
  cbn [embedding_b]. destruct (F 0%nat ltac:(cbn [length]; lia)) as (F1 & F2 & F3). cbn [nth] in F1, F2, F3.
  specialize (Hlo i eq_refl).
  replace (lo <=? i) with true by lia. replace (i <? N.of_nat (length H)) with true by lia.
  rewrite F2, N.eqb_refl. cbn [andb]. apply IH.
  - cbn [length] in L. lia.
  - intros k Hk. specialize (F (S k) ltac:(cbn [length]; lia)). cbn [nth length] in F.
    destruct F as (G1 & G2 & G3). split; [exact G1|]. split; [exact G2|]. intros Hk'. apply G3. lia.
  - intros y Hy. destruct idxs as [|j idxs']; [discriminate|]. injection Hy as <-.
    destruct needle as [|x' needle']; [discriminate|]. specialize (F3 ltac:(cbn [length]; lia)). cbn [nth] in F3. lia.
Qed.

Lemma nth_sliceN {A} (d : A) a b (l : list A) p : (p < length (sliceN a b l))%nat ->
  nth p (sliceN a b l) d = nth (N.to_nat a + p) l d /\ (N.to_nat a + p < length l)%nat.
Proof.
  intros H. rewrite length_sliceN in H. unfold sliceN, takeN.
  rewrite nth_firstn_low by lia. rewrite nth_dropN. split; [reflexivity|lia].
Qed.
