(* C04_recurrence: the windowed, offset-compressed single-row DP of fuzzy_optimal computes at least (in fact
   exactly, cell by cell) the value of Spec/Matching.naive_score, the documented two-matrix recurrence
   evaluated on the full matrix with option cells.

   Part A: list algebra of the naive recurrence (one fused pass per row, prefix/suffix decomposition,
           restriction to the prefilter window).
   Part B: cell-by-cell correspondence between score_row / populate and the naive rows on the window
           (slot k of needle row i = window column k + i; UNMATCHED = None; P value 0 = None).
   Part C: greedy row offsets of setup_loop, window facts of the two prefilters, the contiguous
           fallback (window of exactly needle length), slab-guard monotonicity, assembly. *)
From Coq Require Import ZArith NArith List Bool Lia ZifyBool ZifyN ZifyNat.
From NV Require Import Base.Util Model.Chars Model.Matcher Spec.Matching Spec.Statements Proofs.CharsFacts.
From NV Require Import Proofs.DPCore Proofs.DPSetup.
From NV Require Proofs.C01Facts Proofs.ScoreFacts Proofs.DPScoreFacts.
Import ListNotations.
Local Open Scope N_scope.

(* ==== Part A ============================================================================================ *)
Notation ocell := (option (N * N)).

(* one left-to-right pass computing the next M row from the previous one; (md, pd) = M and P of the
   previous row at the previous column *)
Fixpoint nfused (x : N) (hs bs : list N) (ms : list ocell) (md : ocell) (pd : option N) : list ocell :=
  match hs, bs, ms with
  | c :: hs', b :: bs', m :: ms' =>
    (if c =? x then naive_m md pd b else None) :: nfused x hs' bs' ms' m (naive_p md pd)
  | _, _, _ => []
  end.

Lemma naive_next_fused x : forall hs bs ms md pd,
  naive_next_row x hs bs ms (naive_p_row ms md pd) md pd = nfused x hs bs ms md pd.
Proof.
  induction hs as [|c hs IH]; intros bs ms md pd; [reflexivity|].
  destruct bs as [|b bs]; [reflexivity|]. destruct ms as [|m ms]; [reflexivity|].
  cbn [naive_p_row naive_next_row nfused]. rewrite IH. reflexivity.
Qed.

Fixpoint nrows (n : list N) (hs bs : list N) (ms : list ocell) : list ocell :=
  match n with
  | [] => ms
  | x :: n' => nrows n' hs bs (nfused x hs bs ms None None)
  end.

Lemma naive_rows_eq hs bs : forall n ms, naive_rows n hs bs ms = nrows n hs bs ms.
Proof.
  induction n as [|x n IH]; intros ms; [reflexivity|].
  cbn [naive_rows nrows]. rewrite naive_next_fused. apply IH.
Qed.

(* the state after a stretch of the previous row *)
Fixpoint nstate (ms : list ocell) (md : ocell) (pd : option N) : ocell * option N :=
  match ms with
  | [] => (md, pd)
  | m :: ms' => nstate ms' m (naive_p md pd)
  end.

Lemma nstate_app : forall l1 l2 md pd,
  nstate (l1 ++ l2) md pd = nstate l2 (fst (nstate l1 md pd)) (snd (nstate l1 md pd)).
Proof.
  induction l1 as [|m l1 IH]; intros l2 md pd; [reflexivity|]. cbn [app nstate]. apply IH.
Qed.

Lemma nfused_length x : forall hs bs ms md pd, length hs = length ms -> length bs = length ms ->
  length (nfused x hs bs ms md pd) = length ms.
Proof.
  induction hs as [|c hs IH]; intros bs ms md pd H1 H2.
  - destruct ms; [reflexivity|discriminate].
  - destruct ms as [|m ms]; [discriminate|]. destruct bs as [|b bs]; [discriminate|].
    cbn [nfused length]. rewrite IH; cbn [length] in *; lia.
Qed.

Lemma nfused_app x : forall h1 b1 m1 h2 b2 m2 md pd, length h1 = length m1 -> length b1 = length m1 ->
  nfused x (h1 ++ h2) (b1 ++ b2) (m1 ++ m2) md pd =
  nfused x h1 b1 m1 md pd ++ nfused x h2 b2 m2 (fst (nstate m1 md pd)) (snd (nstate m1 md pd)).
Proof.
  induction h1 as [|c h1 IH]; intros b1 m1 h2 b2 m2 md pd H1 H2.
  - destruct m1; [|discriminate]. destruct b1; [|discriminate]. reflexivity.
  - destruct m1 as [|m m1]; [discriminate|]. destruct b1 as [|b b1]; [discriminate|].
    cbn [app nfused nstate]. rewrite IH by (cbn [length] in *; lia). reflexivity.
Qed.

Lemma nstate_none : forall k, nstate (repeat None k) None None = (None, None).
Proof. induction k as [|k IH]; [reflexivity|]. cbn [repeat nstate naive_p]. exact IH. Qed.

Lemma nfused_none x : forall k hs bs, length hs = k -> length bs = k ->
  nfused x hs bs (repeat None k) None None = repeat None k.
Proof.
  induction k as [|k IH]; intros hs bs H1 H2.
  - destruct hs; [reflexivity|discriminate].
  - destruct hs as [|c hs]; [discriminate|]. destruct bs as [|b bs]; [discriminate|].
    cbn [repeat nfused naive_p naive_m]. rewrite IH by (cbn [length] in *; lia).
    destruct (c =? x); reflexivity.
Qed.

Lemma nfused_ne x : forall hs bs ms md pd, length hs = length ms -> length bs = length ms ->
  (forall c, In c hs -> c <> x) -> nfused x hs bs ms md pd = repeat None (length ms).
Proof.
  induction hs as [|c hs IH]; intros bs ms md pd H1 H2 Hne.
  - destruct ms; [reflexivity|discriminate].
  - destruct ms as [|m ms]; [discriminate|]. destruct bs as [|b bs]; [discriminate|].
    cbn [nfused length repeat]. rewrite IH.
    + replace (c =? x) with false; [reflexivity|]. symmetry. apply N.eqb_neq. apply Hne. left. reflexivity.
    + cbn [length] in *; lia.
    + cbn [length] in *; lia.
    + intros c' Hc'. apply Hne. right. exact Hc'.
Qed.

(* ---- pointwise description ------------------------------------------------------------------------- *)
Lemma nth_nfused x : forall ms hs bs md pd c, (c < length ms)%nat -> length hs = length ms -> length bs = length ms ->
  nth c (nfused x hs bs ms md pd) None =
  (if nth c hs 0 =? x
   then naive_m (fst (nstate (firstn c ms) md pd)) (snd (nstate (firstn c ms) md pd)) (nth c bs 0)
   else None).
Proof.
  induction ms as [|m ms IH]; intros hs bs md pd c Hc H1 H2; [cbn [length] in Hc; lia|].
  destruct hs as [|c0 hs]; [discriminate|]. destruct bs as [|b bs]; [discriminate|].
  cbn [nfused]. destruct c as [|c].
  - reflexivity.
  - cbn [nth firstn nstate]. apply IH; cbn [length] in *; lia.
Qed.

Definition st (ms : list ocell) (c : N) : ocell * option N := nstate (takeN c ms) None None.

Lemma st_0 ms : st ms 0 = (None, None).
Proof. reflexivity. Qed.

Lemma firstn_snoc_gen {A} (d : A) : forall k (l : list A), (k < length l)%nat ->
  firstn (S k) l = firstn k l ++ [nth k l d].
Proof.
  induction k as [|k IH]; intros [|x l] Hk; cbn [length] in Hk; try lia; [reflexivity|].
  cbn [firstn nth app]. rewrite <- IH by lia. reflexivity.
Qed.

Lemma st_succ (ms : list ocell) c : c < lenN ms ->
  st ms (c + 1) = (nthN ms c None, naive_p (fst (st ms c)) (snd (st ms c))).
Proof.
  intros Hc. unfold st, takeN, nthN, lenN in *.
  replace (N.to_nat (c + 1)) with (S (N.to_nat c)) by lia.
  rewrite (firstn_snoc_gen (None : ocell)) by lia. rewrite nstate_app. reflexivity.
Qed.

Lemma nthN_nfused x hs bs ms c : c < lenN ms -> lenN hs = lenN ms -> lenN bs = lenN ms ->
  nthN (nfused x hs bs ms None None) c None =
  (if nthN hs c 0 =? x then naive_m (fst (st ms c)) (snd (st ms c)) (nthN bs c 0) else None).
Proof.
  intros Hc H1 H2. unfold nthN, st, takeN, lenN in *. apply nth_nfused; lia.
Qed.

Lemma lenN_nfused x hs bs ms md pd : lenN hs = lenN ms -> lenN bs = lenN ms ->
  lenN (nfused x hs bs ms md pd) = lenN ms.
Proof. unfold lenN. intros H1 H2. rewrite nfused_length; lia. Qed.

Lemma st_none (ms : list ocell) : forall c, c <= lenN ms -> (forall j, j < c -> nthN ms j None = None) -> st ms c = (None, None).
Proof.
  intros c. induction c as [|c IH] using N.peano_ind; intros Hc Hn; [reflexivity|].
  assert (Hc' : c < lenN ms) by lia.
  assert (IH' : st ms c = (None, None)) by (apply IH; [lia|intros j Hj; apply Hn; lia]).
  replace (N.succ c) with (c + 1) by lia. rewrite st_succ by exact Hc'. rewrite IH'.
  rewrite Hn by lia. reflexivity.
Qed.

Lemma naive_p_some_l m cbm pd : naive_p (Some (m, cbm)) pd <> None.
Proof. destruct pd; cbn; discriminate. Qed.

Lemma naive_p_some_r md p : naive_p md (Some p) <> None.
Proof. destruct md as [[m c]|]; cbn; discriminate. Qed.

Lemma naive_p_live md pd : md <> None \/ pd <> None -> naive_p md pd <> None.
Proof.
  intros [H|H].
  - destruct md as [[m c]|]; [apply naive_p_some_l|congruence].
  - destruct pd as [p|]; [apply naive_p_some_r|congruence].
Qed.

Lemma naive_m_live md pd b : md <> None \/ pd <> None -> naive_m md pd b <> None.
Proof.
  intros H. destruct md as [[m c]|]; cbn.
  - destruct pd as [p|]; [destruct (_ <? _)|]; discriminate.
  - destruct pd as [p|]; [discriminate|]. destruct H; congruence.
Qed.

(* once a cell of the previous row is alive, P stays alive from two columns later on *)
Lemma st_snd_live (ms : list ocell) j : nthN ms j None <> None -> forall d : nat,
  j + 2 + N.of_nat d <= lenN ms -> snd (st ms (j + 2 + N.of_nat d)) <> None.
Proof.
  intros Hj. induction d as [|d IH]; intros Hle.
  - replace (j + 2 + N.of_nat 0) with (j + 1 + 1) by lia.
    rewrite st_succ by lia. cbn [snd]. apply naive_p_live. left.
    rewrite st_succ by lia. cbn [fst]. exact Hj.
  - replace (j + 2 + N.of_nat (S d)) with (j + 2 + N.of_nat d + 1) by lia.
    rewrite st_succ by lia. cbn [snd]. apply naive_p_live. right. apply IH. lia.
Qed.

Lemma st_live (ms : list ocell) j c : nthN ms j None <> None -> j < c -> c <= lenN ms ->
  fst (st ms c) <> None \/ snd (st ms c) <> None.
Proof.
  intros Hj Hlt Hle. destruct (N.eq_dec c (j + 1)) as [->|Hne].
  - left. rewrite st_succ by lia. exact Hj.
  - right. replace c with (j + 2 + N.of_nat (N.to_nat (c - j - 2))) by lia. apply st_snd_live; [exact Hj|lia].
Qed.

(* ---- restriction to a window ------------------------------------------------------------------------ *)
Fixpoint xrows (n : list N) (hw bw hpost bpost : list N) (ms X : list ocell) : list ocell :=
  match n with
  | [] => X
  | x :: n' =>
    xrows n' hw bw hpost bpost (nfused x hw bw ms None None)
          (nfused x hpost bpost X (fst (nstate ms None None)) (snd (nstate ms None None)))
  end.

Lemma nrows_window hpre bpre hw bw hpost bpost k : length hpre = k -> length bpre = k ->
  length bw = length hw -> length bpost = length hpost ->
  forall n (ms X : list ocell), length ms = length hw -> length X = length hpost ->
  nrows n (hpre ++ hw ++ hpost) (bpre ++ bw ++ bpost) (repeat None k ++ ms ++ X)
  = repeat None k ++ nrows n hw bw ms ++ xrows n hw bw hpost bpost ms X.
Proof.
  intros Hk1 Hk2 Hbw Hbp. induction n as [|x n IH]; intros ms X Hms HX; [reflexivity|].
  cbn [nrows xrows].
  rewrite nfused_app by (rewrite repeat_length; lia).
  rewrite nfused_none by assumption. rewrite nstate_none. cbn [fst snd].
  rewrite nfused_app by lia.
  apply IH.
  - rewrite nfused_length; lia.
  - rewrite nfused_length; lia.
Qed.

Lemma xrows_length hw bw hpost bpost : length bw = length hw -> length bpost = length hpost ->
  forall n (ms X : list ocell), length ms = length hw -> length X = length hpost ->
  length (xrows n hw bw hpost bpost ms X) = length hpost.
Proof.
  intros Hbw Hbp. induction n as [|x n IH]; intros ms X Hms HX; [exact HX|].
  cbn [xrows]. apply IH; rewrite nfused_length; lia.
Qed.

Lemma xrows_none hw bw hpost bpost : length bw = length hw -> length bpost = length hpost ->
  forall n (ms X : list ocell), n <> [] -> length ms = length hw -> length X = length hpost ->
  (forall c, In c hpost -> c <> last n 0) ->
  xrows n hw bw hpost bpost ms X = repeat None (length hpost).
Proof.
  intros Hbw Hbp. induction n as [|x n IH]; intros ms X Hne Hms HX Hc; [congruence|].
  destruct n as [|y n'].
  - cbn [xrows last] in *. rewrite nfused_ne by (try lia; exact Hc). rewrite HX. reflexivity.
  - cbn [xrows]. apply IH; [discriminate| | |exact Hc]; rewrite nfused_length; lia.
Qed.

Lemma nrows_length hw bw : length bw = length hw -> forall n ms, length ms = length hw ->
  length (nrows n hw bw ms) = length hw.
Proof.
  intros Hbw. induction n as [|x n IH]; intros ms Hms; [exact Hms|].
  cbn [nrows]. apply IH. rewrite nfused_length; lia.
Qed.

(* the final maximum is attained by some cell *)
Definition mxstep (best : option N) (c : ocell) : option N :=
  match c, best with
  | Some (s, _), Some b => Some (N.max s b)
  | Some (s, _), None => Some s
  | None, _ => best
  end.

Lemma fold_mxstep_in : forall l init r, fold_left mxstep l init = Some r ->
  init = Some r \/ exists cb, In (Some (r, cb)) l.
Proof.
  induction l as [|c l IH]; intros init r H; [left; exact H|].
  cbn [fold_left] in H. apply IH in H. destruct H as [H|[cb H]]; [|right; exists cb; right; exact H].
  destruct c as [[s cb]|]; cbn [mxstep] in H.
  - destruct init as [b|].
    + injection H as H. destruct (N.max_spec s b) as [[_ E]|[_ E]]; rewrite E in H.
      * left. congruence.
      * right. exists cb. left. congruence.
    + injection H as H. right. exists cb. left. congruence.
  - left. exact H.
Qed.

Lemma in_repeat_none (r cb : N) k : ~ In (Some (r, cb)) (repeat (@None (N * N)) k).
Proof. intros H. apply repeat_spec in H. discriminate. Qed.

Definition row0_of (x : N) (hs bs : list N) : list ocell :=
  map (fun cb : N * N => if fst cb =? x then Some (16 + 2 * snd cb, snd cb) else None) (combine hs bs).

Lemma combine_app {A B} : forall (a1 : list A) (b1 : list B) a2 b2, length a1 = length b1 ->
  combine (a1 ++ a2) (b1 ++ b2) = combine a1 b1 ++ combine a2 b2.
Proof.
  induction a1 as [|x a1 IH]; intros [|y b1] a2 b2 H; try discriminate; [reflexivity|].
  cbn [app combine]. rewrite IH by (cbn in H; lia). reflexivity.
Qed.

Lemma row0_app x h1 b1 h2 b2 : length h1 = length b1 ->
  row0_of x (h1 ++ h2) (b1 ++ b2) = row0_of x h1 b1 ++ row0_of x h2 b2.
Proof. intros H. unfold row0_of. rewrite combine_app by exact H. apply map_app. Qed.

Lemma row0_ne x : forall hs bs, length bs = length hs -> (forall c, In c hs -> c <> x) ->
  row0_of x hs bs = repeat None (length hs).
Proof.
  induction hs as [|c hs IH]; intros [|b bs] H Hne; try discriminate; [reflexivity|].
  unfold row0_of in *. cbn [combine map fst snd length repeat].
  replace (c =? x) with false by (symmetry; apply N.eqb_neq, Hne; left; reflexivity).
  rewrite IH; [reflexivity|cbn in H; lia|]. intros c' Hc'. apply Hne. right. exact Hc'.
Qed.

Lemma row0_length x hs bs : length bs = length hs -> length (row0_of x hs bs) = length hs.
Proof. intros H. unfold row0_of. rewrite map_length, combine_length. lia. Qed.

Lemma nthN_row0 x hs bs c : c < lenN hs -> lenN bs = lenN hs ->
  nthN (row0_of x hs bs) c None =
  (if nthN hs c 0 =? x then Some (16 + 2 * nthN bs c 0, nthN bs c 0) else None).
Proof.
  intros Hc Hl. unfold nthN, row0_of, lenN in *.
  set (f := fun cb : N * N => if fst cb =? x then Some (16 + 2 * snd cb, snd cb) else None).
  rewrite (nth_indep _ None (f (0, 0))) by (rewrite map_length, combine_length; lia).
  rewrite map_nth, combine_nth by lia. reflexivity.
Qed.

(* naive_score only sees the window *)
Lemma naive_score_window cfg hr pre w post x n' bw r :
  n' <> [] ->
  (forall c, In c pre -> norm cfg hr c <> x) ->
  (forall c, In c post -> norm cfg hr c <> last n' 0) ->
  length bw = length w ->
  (forall j, (j < length w)%nat -> nth j bw 0 = spec_bonus_at cfg hr (pre ++ w ++ post) (N.of_nat (length pre + j))) ->
  naive_score cfg hr (pre ++ w ++ post) (x :: n') = Some r ->
  exists cb, In (Some (r, cb)) (nrows n' (map (norm cfg hr) w) bw (row0_of x (map (norm cfg hr) w) bw)).
Proof.
  intros Hne Hpre Hpost Hbw Hb H. unfold naive_score in H.
  set (h := pre ++ w ++ post) in *.
  set (f := norm cfg hr) in *.
  set (B := fun i : nat => spec_bonus_at cfg hr h (N.of_nat i)) in *.
  assert (Ehs : nh cfg hr h = map f pre ++ map f w ++ map f post) by (unfold nh, h; rewrite !map_app; reflexivity).
  assert (Ebs : map B (seq 0 (length h)) = map B (seq 0 (length pre)) ++ bw ++ map B (seq (length pre + length w) (length post))).
  { unfold h. rewrite !app_length. rewrite seq_app, map_app. f_equal. rewrite seq_app, map_app. cbn [Nat.add]. f_equal.
    apply (nth_ext _ _ 0 0).
    - rewrite map_length, seq_length. lia.
    - intros j Hj. rewrite map_length, seq_length in Hj.
      rewrite (nth_indep _ 0 (B 0%nat)) by (rewrite map_length, seq_length; lia).
      rewrite map_nth, seq_nth by lia. rewrite Hb by lia. reflexivity. }
  fold (row0_of x (nh cfg hr h) (map B (seq 0 (length h)))) in H.
  rewrite naive_rows_eq in H. rewrite Ehs, Ebs in H.
  rewrite row0_app in H by (rewrite !map_length, seq_length; reflexivity).
  rewrite row0_app in H by (rewrite map_length; lia).
  rewrite (row0_ne x (map f pre)) in H.
  2:{ rewrite !map_length, seq_length. reflexivity. }
  2:{ intros c Hc. apply in_map_iff in Hc. destruct Hc as (c' & <- & Hc'). apply Hpre. exact Hc'. }
  rewrite map_length in H.
  set (bpost := map B (seq (length pre + length w) (length post))) in *.
  assert (L1 : length (map f pre) = length pre) by apply map_length.
  assert (L2 : length (map B (seq 0 (length pre))) = length pre) by (rewrite map_length, seq_length; reflexivity).
  assert (L3 : length bw = length (map f w)) by (rewrite map_length; exact Hbw).
  assert (L4 : length bpost = length (map f post)) by (unfold bpost; rewrite !map_length, seq_length; reflexivity).
  assert (L5 : length (row0_of x (map f w) bw) = length (map f w)) by (apply row0_length; exact L3).
  assert (L6 : length (row0_of x (map f post) bpost) = length (map f post)) by (apply row0_length; exact L4).
  rewrite (nrows_window _ _ _ _ _ _ (length pre) L1 L2 L3 L4 n' _ _ L5 L6) in H.
  rewrite (xrows_none _ _ _ _ L3 L4 n' _ _ Hne L5 L6) in H.
  2:{ intros c Hc. apply in_map_iff in Hc. destruct Hc as (c' & <- & Hc'). apply Hpost. exact Hc'. }
  change (fun (best : option N) (c : option (N * N)) =>
            match c with
            | Some (s, _) => match best with Some b => Some (N.max s b) | None => Some s end
            | None => best
            end) with mxstep in H.
  apply fold_mxstep_in in H. destruct H as [H|[cb H]]; [discriminate|].
  exists cb. apply in_app_or in H. destruct H as [H|H]; [exfalso; exact (in_repeat_none _ _ _ H)|].
  apply in_app_or in H. destruct H as [H|H]; [exact H|exfalso; exact (in_repeat_none _ _ _ H)].
Qed.

(* ==== Part B ============================================================================================ *)
(* a score cell of the model against an option cell of the naive matrix *)
Definition crel (x : cell) (o : ocell) : Prop :=
  match o with
  | None => x = UNMATCHED
  | Some (s, b) => sc x = s /\ cb x = b /\ 16 <= s
  end.
Definition valm (o : ocell) : N := match o with Some (s, _) => s | None => 0 end.
Definition valp (o : option N) : N := match o with Some p => p | None => 0 end.

Lemma crel_sc x o : crel x o -> sc x = valm o.
Proof. destruct o as [[s b]|]; cbn; [tauto|]. intros ->. reflexivity. Qed.

Lemma p_score_rel md pd : fst (p_score (valp pd) (valm md)) = valp (naive_p md pd).
Proof.
  unfold p_score, PENALTY_GAP_START, PENALTY_GAP_EXTENSION.
  destruct md as [[m c]|], pd as [p|]; cbn [valp valm naive_p].
  - destruct (p - 1 <? m - 3); reflexivity.
  - destruct (N.ltb_spec (0 - 1) (m - 3)); cbn [fst]; lia.
  - destruct (N.ltb_spec (p - 1) (0 - 3)); cbn [fst]; lia.
  - reflexivity.
Qed.

Lemma next_m_cell_rel x md pd b : crel x md -> (md <> None \/ pd <> None) ->
  crel (next_m_cell (valp pd) b x) (naive_m md pd b).
Proof.
  intros Hx Hl. unfold next_m_cell. destruct md as [[m cbm]|].
  - destruct Hx as (Hs & Hc & H16).
    assert (E : cell_eqb x UNMATCHED = false).
    { destruct (cell_eqb x UNMATCHED) eqn:E; [|reflexivity]. apply cell_eqb_spec in E. subst x. cbn in Hs. lia. }
    rewrite E, Hs, Hc. unfold BONUS_CONSECUTIVE, BONUS_BOUNDARY, SCORE_MATCH. cbn [naive_m].
    set (cb0 := N.max cbm 4). set (cb1 := if (8 <=? b) && (cb0 <? b) then b else cb0).
    destruct pd as [p|]; cbn [valp].
    + destruct (p + b <? m + N.max cb1 b); cbn [crel sc cb]; repeat split; lia.
    + replace (0 + b <? m + N.max cb1 b) with true by lia. cbn [crel sc cb]. repeat split; lia.
  - cbn in Hx. subst x. change (cell_eqb UNMATCHED UNMATCHED) with true. cbv iota.
    destruct pd as [p|]; [|destruct Hl; congruence]. cbn [valp naive_m crel sc cb]. unfold SCORE_MATCH.
    repeat split; lia.
Qed.

Lemma skip_pass_false_pfx nc : forall hs bsl rl pp pm pfx pp' pm' pfx' cells,
  skip_pass false nc hs bsl rl pp pm pfx = (pp', pm', pfx', cells) -> pfx' = pfx.
Proof.
  induction hs as [|c hs IH]; intros bsl rl pp pm pfx pp' pm' pfx' cells H; [cbn in H; congruence|].
  destruct bsl as [|b0 bsl]; [cbn in H; congruence|]. destruct rl as [|r rl]; [cbn in H; congruence|].
  cbn [skip_pass] in H. destruct (p_score pp pm) as [p pb].
  destruct (skip_pass false nc hs bsl rl p (sc r) pfx) as [[[a' b'] c'] d'] eqn:E.
  apply IH in E. congruence.
Qed.

Section RDP.
  Variables hw bs : list N.
  Let W := lenN hw.
  Hypothesis Hbs : lenN bs = W.

  Fixpoint RN (ms : list ocell) (c : N) (l : list cell) : Prop :=
    match l with
    | [] => True
    | x :: l' => crel x (nthN ms c None) /\ RN ms (c + 1) l'
    end.

  Lemma RN_app ms l1 : forall c l2, RN ms c (l1 ++ l2) <-> RN ms c l1 /\ RN ms (c + lenN l1) l2.
  Proof.
    induction l1 as [|x l1 IH]; intros c l2; cbn [app RN].
    - rewrite lenN_nil, N.add_0_r. tauto.
    - rewrite IH, lenN_cons. replace (c + 1 + lenN l1) with (c + (lenN l1 + 1)) by lia. tauto.
  Qed.

  Lemma RN_nth ms : forall l c k d, RN ms c l -> k < lenN l -> crel (nthN l k d) (nthN ms (c + k) None).
  Proof.
    induction l as [|x l IH]; intros c k d H Hk; [rewrite lenN_nil in Hk; lia|].
    cbn [RN] in H. destruct H as (H1 & H3). rewrite lenN_cons in Hk.
    destruct (N.eqb_spec k 0) as [->|Hne].
    - rewrite nthN_cons_0, N.add_0_r. exact H1.
    - replace k with (k - 1 + 1) by lia. rewrite nthN_cons_succ.
      replace (c + (k - 1 + 1)) with (c + 1 + (k - 1)) by lia. apply IH; [exact H3|lia].
  Qed.

  Definition LSn (ms : list ocell) (c pp pm : N) : Prop :=
    pp = valp (snd (st ms c)) /\ pm = valm (fst (st ms c)).

  Lemma step_n (ms : list ocell) c pp pm x : c < lenN ms -> LSn ms c pp pm -> crel x (nthN ms c None) ->
    LSn ms (c + 1) (fst (p_score pp pm)) (sc x).
  Proof.
    intros Hc [-> ->] Hx. unfold LSn. rewrite st_succ by exact Hc. cbn [fst snd].
    split; [apply p_score_rel|apply crel_sc; exact Hx].
  Qed.

  Lemma skip_ok_n (ms : list ocell) nc : forall rl hs bsl c pp pm pfx,
    length hs = length rl -> length bsl = length rl -> c + lenN rl <= lenN ms ->
    RN ms c rl -> LSn ms c pp pm ->
    exists pp' pm' pfx' cells,
      skip_pass false nc hs bsl rl pp pm pfx = (pp', pm', pfx', cells) /\ LSn ms (c + lenN rl) pp' pm'.
  Proof.
    induction rl as [|x rl IH]; intros hs bsl c pp pm pfx Hl1 Hl2 Hc HRN HLS.
    - destruct hs; [|discriminate]. exists pp, pm, pfx, []. cbn [skip_pass].
      rewrite lenN_nil, N.add_0_r. auto.
    - destruct hs as [|c0 hs]; [discriminate|]. destruct bsl as [|b0 bsl]; [discriminate|].
      cbn [RN] in HRN. destruct HRN as (Hx & HRN). rewrite lenN_cons in Hc.
      cbn [skip_pass]. destruct (p_score pp pm) as [p pb] eqn:Ep.
      assert (HLS' : LSn ms (c + 1) p (sc x)).
      { replace p with (fst (p_score pp pm)) by (rewrite Ep; reflexivity). apply step_n; [lia|exact HLS|exact Hx]. }
      destruct (IH hs bsl (c + 1) p (sc x) pfx) as (pp' & pm' & pfx' & cells & Hsk & HLS'');
        [cbn in Hl1; lia | cbn in Hl2; lia | lia | exact HRN | exact HLS' |].
      rewrite Hsk. eexists _, _, _, _. split; [reflexivity|].
      rewrite lenN_cons. replace (c + (lenN rl + 1)) with (c + 1 + lenN rl) by lia. exact HLS''.
  Qed.

  Lemma main_ok_n (ms : list ocell) nc nnc : lenN ms = W ->
    forall rl c pp pm pfx,
    c + lenN rl < W -> RN ms c rl -> LSn ms c pp pm ->
    (exists j, j <= c /\ nthN ms j None <> None) ->
    exists newrow cells,
      main_pass false nc nnc (dropN c hw) (dropN c bs) rl pp pm pfx = (newrow, cells) /\
      RN (nfused nnc hw bs ms None None) (c + 1) newrow /\ lenN newrow = lenN rl.
  Proof.
    intros Hms. induction rl as [|x rl IH]; intros c pp pm pfx HW HRN HLS Hlive.
    - exists [], []. split; [|split; [exact I|reflexivity]].
      destruct (dropN c hw) as [|? [|? ?]]; destruct (dropN c bs) as [|? [|? ?]]; reflexivity.
    - rewrite lenN_cons in HW.
      rewrite (dropN_cons hw c 0) by (fold W; lia). rewrite (dropN_cons hw (c + 1) 0) by (fold W; lia).
      rewrite (dropN_cons bs c 0) by lia. rewrite (dropN_cons bs (c + 1) 0) by lia.
      rewrite main_pass_cons. cbv zeta.
      rewrite <- (dropN_cons hw (c + 1) 0) by (fold W; lia). rewrite <- (dropN_cons bs (c + 1) 0) by lia.
      cbn [RN] in HRN. destruct HRN as (Hx & HRN).
      destruct (p_score pp pm) as [p pb] eqn:Ep.
      assert (Ep' : p = fst (p_score pp pm)) by (rewrite Ep; reflexivity).
      assert (HLS' : LSn ms (c + 1) p (sc x)).
      { rewrite Ep'. apply step_n; [lia|exact HLS|exact Hx]. }
      destruct (IH (c + 1) p (sc x) pfx) as (newrow & cells & Hm & HNR & Hlen);
        [lia | exact HRN | exact HLS' | |].
      { destruct Hlive as (j & Hj1 & Hj2). exists j. split; [lia|exact Hj2]. }
      rewrite Hm. eexists _, _. split; [reflexivity|]. split; [|rewrite !lenN_cons; lia].
      cbn [RN]. split; [|exact HNR].
      rewrite nthN_nfused by (fold W; lia). rewrite st_succ by lia. cbn [fst snd].
      destruct (nthN hw (c + 1) 0 =? nnc); [|reflexivity].
      destruct HLS as [Hpp Hpm]. rewrite Ep', Hpp, Hpm, p_score_rel.
      apply next_m_cell_rel; [exact Hx|].
      destruct Hlive as (j & Hj1 & Hj2).
      destruct (N.eq_dec j c) as [->|Hne]; [left; exact Hj2|].
      right. apply naive_p_live. apply (st_live ms j c); [exact Hj2|lia|lia].
  Qed.

  (* what is known about a naive row: nothing before the greedy offset, a live cell there *)
  Definition NPre (ms : list ocell) (roff : N) : Prop :=
    lenN ms = W /\ (forall j, j < roff -> nthN ms j None = None) /\ nthN ms roff None <> None.

  Lemma next_row_prefix (ms : list ocell) roff noff nnc : NPre ms roff -> roff < noff -> noff < W ->
    (forall j, roff < j -> j < noff -> nthN hw j 0 <> nnc) -> nthN hw noff 0 = nnc ->
    NPre (nfused nnc hw bs ms None None) noff.
  Proof.
    intros (Hms & Hnone & Hlive) Hlt HnW Hg Hnoff. unfold NPre.
    split; [rewrite lenN_nfused by (fold W; lia); exact Hms|]. split.
    - intros j Hj. rewrite nthN_nfused by (fold W; lia).
      destruct (N.eqb_spec (nthN hw j 0) nnc) as [E|E]; [|reflexivity].
      destruct (N.le_gt_cases j roff) as [Hle|Hgt]; [|exfalso; exact (Hg j Hgt Hj E)].
      rewrite st_none; [reflexivity|lia|]. intros j' Hj'. apply Hnone. lia.
    - rewrite nthN_nfused by (fold W; lia). rewrite Hnoff, N.eqb_refl.
      apply naive_m_live. apply (st_live ms roff noff); [exact Hlive|exact Hlt|lia].
  Qed.

  (* both passes of one row, on the effective cell lists *)
  Lemma row_core_n (ms : list ocell) roff noff nc nnc rl1 rl2 pfx :
    NPre ms roff -> roff < noff -> noff <= W ->
    lenN rl1 = noff - 1 - roff -> noff - 1 + lenN rl2 < W ->
    RN ms roff (rl1 ++ rl2) ->
    exists pp pm pfx' cells1 newrow cells2,
      skip_pass false nc (sliceN roff (noff - 1) hw) (sliceN roff (noff - 1) bs) rl1 0 0 pfx = (pp, pm, pfx', cells1) /\
      main_pass false nc nnc (dropN (noff - 1) hw) (dropN (noff - 1) bs) rl2 pp pm pfx' = (newrow, cells2) /\
      lenN newrow = lenN rl2 /\ RN (nfused nnc hw bs ms None None) noff newrow.
  Proof.
    intros (Hms & Hnone & Hlive) Hlt HnW Hl1 Hl2 HRN.
    apply RN_app in HRN. destruct HRN as [HRN1 HRN2].
    destruct (skip_ok_n ms nc rl1 (sliceN roff (noff - 1) hw) (sliceN roff (noff - 1) bs) roff 0 0 pfx)
      as (pp & pm & pfx' & cells1 & Hsk & HLS).
    - pose proof (lenN_sliceN hw roff (noff - 1)) as H. fold W in H. unfold lenN in *. lia.
    - pose proof (lenN_sliceN bs roff (noff - 1)) as H. unfold lenN in *. lia.
    - lia.
    - exact HRN1.
    - unfold LSn. rewrite st_none by (try lia; exact Hnone). split; reflexivity.
    - replace (roff + lenN rl1) with (noff - 1) in * by lia.
      destruct (main_ok_n ms nc nnc Hms rl2 (noff - 1) pp pm pfx')
        as (newrow & cells2 & Hm & HNR & Hlen2); [exact Hl2 | exact HRN2 | exact HLS | |].
      { exists roff. split; [lia|exact Hlive]. }
      exists pp, pm, pfx', cells1, newrow, cells2. split; [exact Hsk|]. split; [exact Hm|]. split; [exact Hlen2|].
      replace (noff - 1 + 1) with noff in HNR by lia. exact HNR.
  Qed.

  Variable m : N.

  Lemma score_row_ok_n (ms : list ocell) roff noff i nc nnc row :
    NPre ms roff -> i <= roff -> roff < noff -> i + 2 <= m -> noff + m <= W + i + 1 ->
    lenN row = W + 1 - m -> RN ms roff (dropN (roff - i) row) ->
    exists row' cells, score_row false row hw bs roff noff i nc nnc 0 = Some (row', cells) /\
      lenN row' = lenN row /\ RN (nfused nnc hw bs ms None None) noff (dropN (noff - (i + 1)) row').
  Proof.
    intros HP Hir Hlt Him Hnm Hrow HRN.
    unfold score_row.
    replace ((noff =? 0) || (roff <? i) || (noff - 1 <? i) || (noff - 1 <? roff)) with false by lia.
    cbv zeta.
    destruct (row_core_n ms roff noff nc nnc (sliceN (roff - i) (noff - 1 - i) row) (dropN (noff - 1 - i) row) 0)
      as (pp & pm & pfx' & cells1 & newrow & cells2 & Hsk & Hm & Hlen & HRN'); try assumption.
    - lia.
    - rewrite lenN_sliceN. lia.
    - rewrite lenN_dropN. lia.
    - rewrite slice_drop_app by lia. exact HRN.
    - rewrite Hsk, Hm. eexists _, _. split; [reflexivity|].
      split; [rewrite lenN_app, lenN_takeN, Hlen, lenN_dropN; lia|].
      replace (noff - (i + 1)) with (noff - 1 - i) by lia.
      rewrite dropN_app_exact by (rewrite lenN_takeN; lia). exact HRN'.
  Qed.

  Lemma crel_first_cell nc c : c < W ->
    crel (first_cell nc (nthN hw c 0) (nthN bs c 0)) (nthN (row0_of nc hw bs) c None).
  Proof.
    intros Hc. rewrite nthN_row0 by (fold W; lia). unfold first_cell.
    destruct (nthN hw c 0 =? nc); [|reflexivity].
    cbn [crel sc cb]. unfold BONUS_FIRST_CHAR_MULTIPLIER, SCORE_MATCH, PREFIX_BONUS_SCALE. change (0 / 2) with 0.
    repeat split; lia.
  Qed.

  Lemma RN_frow nc : forall hs bsl rl c,
    (forall k, k < lenN hs -> nthN hs k 0 = nthN hw (c + k) 0) ->
    (forall k, k < lenN bsl -> nthN bsl k 0 = nthN bs (c + k) 0) ->
    c + lenN hs <= W -> RN (row0_of nc hw bs) c (frow nc hs bsl rl).
  Proof.
    induction hs as [|x hs IH]; intros bsl rl c Hh Hb HW; [exact I|].
    destruct bsl as [|b bsl]; [exact I|]. destruct rl as [|r rl]; [exact I|].
    cbn [frow RN]. rewrite lenN_cons in HW.
    assert (Hx : x = nthN hw c 0).
    { specialize (Hh 0). rewrite nthN_cons_0, N.add_0_r in Hh. apply Hh. rewrite lenN_cons. lia. }
    assert (Hbb : b = nthN bs c 0).
    { specialize (Hb 0). rewrite nthN_cons_0, N.add_0_r in Hb. apply Hb. rewrite lenN_cons. lia. }
    subst x b. split.
    - apply crel_first_cell. lia.
    - apply IH.
      + intros k Hk. specialize (Hh (k + 1)). rewrite nthN_cons_succ in Hh. rewrite Hh by (rewrite lenN_cons; lia).
        f_equal. lia.
      + intros k Hk. specialize (Hb (k + 1)). rewrite nthN_cons_succ in Hb. rewrite Hb by (rewrite lenN_cons; lia).
        f_equal. lia.
      + lia.
  Qed.

  Lemma NPre_row0 nc : 0 < W -> nthN hw 0 0 = nc -> NPre (row0_of nc hw bs) 0.
  Proof.
    intros HW H0. unfold NPre. split; [|split].
    - unfold lenN. rewrite row0_length; [reflexivity|]. unfold lenN in *. lia.
    - intros j Hj. lia.
    - rewrite nthN_row0 by (fold W; lia). rewrite H0, N.eqb_refl. discriminate.
  Qed.

  Lemma score_row_first_n noff nc nnc row0 :
    0 < noff -> 2 <= m -> noff + m <= W + 1 -> lenN row0 = W + 1 - m ->
    nthN hw 0 0 = nc ->
    exists row' cells, score_row true row0 hw bs 0 noff 0 nc nnc 0 = Some (row', cells) /\
      lenN row' = lenN row0 /\
      RN (nfused nnc hw bs (row0_of nc hw bs) None None) noff (dropN (noff - 1) row').
  Proof.
    intros Hlt Hm Hnm Hrow H0.
    unfold score_row.
    replace ((noff =? 0) || (0 <? 0) || (noff - 1 <? 0) || (noff - 1 <? 0)) with false by lia.
    cbv zeta. rewrite !N.sub_0_r.
    rewrite skip_first.
    destruct (row_core_n (row0_of nc hw bs) 0 noff nc nnc
                (frow nc (sliceN 0 (noff - 1) hw) (sliceN 0 (noff - 1) bs) (sliceN 0 (noff - 1) row0))
                (frow nc (dropN (noff - 1) hw) (dropN (noff - 1) bs) (dropN (noff - 1) row0)) 0)
      as (pp & pm & pfx' & cells1 & newrow & cells2 & Hsk & Hmn & Hlen & HRN').
    - apply NPre_row0; [lia|exact H0].
    - exact Hlt.
    - lia.
    - rewrite frow_len, !lenN_sliceN. fold W. lia.
    - rewrite frow_len, !lenN_dropN. fold W. lia.
    - apply RN_app. split.
      + apply RN_frow.
        * intros k Hk. rewrite lenN_sliceN in Hk. apply nthN_sliceN. lia.
        * intros k Hk. rewrite lenN_sliceN in Hk. apply nthN_sliceN. lia.
        * rewrite lenN_sliceN. fold W. lia.
      + rewrite frow_len, !lenN_sliceN. fold W.
        replace (0 + N.min (N.min (noff - 1 - 0) (W - 0)) (N.min (N.min (noff - 1 - 0) (lenN bs - 0)) (N.min (noff - 1 - 0) (lenN row0 - 0))))
          with (noff - 1) by lia.
        apply RN_frow.
        * intros k Hk. apply nthN_dropN.
        * intros k Hk. apply nthN_dropN.
        * rewrite lenN_dropN. fold W. lia.
    - rewrite Hsk.
      assert (Epfx : pfx' = 0) by (eapply skip_pass_false_pfx; exact Hsk).
      subst pfx'.
      rewrite main_first by (rewrite !lenN_dropN; fold W; lia).
      rewrite Hmn. eexists _, _. split; [reflexivity|].
      rewrite frow_len, !lenN_dropN in Hlen. fold W in Hlen.
      split; [rewrite lenN_app, lenN_takeN, Hlen; lia|].
      rewrite dropN_app_exact by (rewrite lenN_takeN; lia). exact HRN'.
  Qed.

  (* ---- greedy row offsets ----------------------------------------------------------------------------- *)
  Fixpoint GRD (lb : N) (n' ro' : list N) : Prop :=
    match n', ro' with
    | [], [] => True
    | x :: n'', off :: ro'' => (forall j, lb <= j -> j < off -> nthN hw j 0 <> x) /\ GRD (off + 1) n'' ro''
    | _, _ => False
    end.

  Lemma populate_ok_n : forall n' ro' lb (ms : list ocell) row idx,
    n' <> [] -> ROK hw lb n' ro' -> GRD lb n' ro' -> idx <= hd 0 ro' ->
    NPre ms (hd 0 ro') -> RN ms (hd 0 ro') (dropN (hd 0 ro' - idx) row) ->
    lenN row = W + 1 - m -> idx + lenN n' = m ->
    exists rowf rest, populate row hw bs idx n' ro' = Some (rowf, rest) /\
      let lo := last ro' 0 in
      let msf := nrows (tl n') hw bs ms in
      lenN rowf = W + 1 - m /\ m - 1 <= lo /\ lo < W /\ NPre msf lo /\ RN msf lo (dropN (lo + 1 - m) rowf).
  Proof.
    induction n' as [|nc n' IH]; intros ro' lb ms row idx Hne HROK HG Hidx HP HRN Hrow Hm; [congruence|].
    destruct ro' as [|off ro']; [destruct HROK|]. cbn [ROK] in HROK. destruct HROK as (Hlb & Hoff & HoffW & HROK).
    cbn [GRD] in HG. destruct HG as (_ & HG).
    cbn [hd] in *.
    destruct n' as [|nnc n''].
    - destruct ro' as [|? ?]; [|destruct HROK]. exists row, []. split; [reflexivity|].
      cbv zeta. cbn [last tl nrows]. rewrite lenN_cons in Hm.
      change (lenN (@nil N)) with 0 in *.
      split; [exact Hrow|]. split; [lia|]. split; [lia|]. split; [exact HP|].
      replace (off + 1 - m) with (off - idx) by lia. exact HRN.
    - destruct ro' as [|noff ro'']; [destruct HROK|]. pose proof HROK as HROK'. pose proof HG as HG'.
      cbn [ROK] in HROK. destruct HROK as (Hlb' & Hnoff & HnoffW & _).
      cbn [GRD] in HG. destruct HG as (Hgr & _).
      rewrite !lenN_cons in *.
      destruct (score_row_ok_n ms off noff idx nc nnc row) as (row' & cells & Hsr & Hlen' & HRN');
        try assumption; try lia.
      change (populate row hw bs idx (nc :: nnc :: n'') (off :: noff :: ro''))
        with (match score_row false row hw bs off noff idx nc nnc 0 with
              | None => None
              | Some (row', cells) =>
                match populate row' hw bs (idx + 1) (nnc :: n'') (noff :: ro'') with
                | None => None
                | Some (rowf, rest) => Some (rowf, cells :: rest)
                end
              end).
      rewrite Hsr.
      assert (HP' : NPre (nfused nnc hw bs ms None None) noff).
      { apply (next_row_prefix ms off noff nnc); [exact HP|lia|lia| |exact Hnoff].
        intros j Hj1 Hj2. apply Hgr; lia. }
      destruct (IH (noff :: ro'') (off + 1) (nfused nnc hw bs ms None None) row' (idx + 1))
        as (rowf & rest & Hpop & H1 & H2 & H3 & H4 & H5).
      + discriminate.
      + exact HROK'.
      + exact HG'.
      + cbn [hd]. lia.
      + exact HP'.
      + cbn [hd]. exact HRN'.
      + lia.
      + rewrite ?lenN_cons. lia.
      + rewrite Hpop. exists rowf, (cells :: rest). split; [reflexivity|].
        change (last (off :: noff :: ro'') 0) with (last (noff :: ro'') 0).
        cbv zeta in *. cbn [tl nrows] in *.
        split; [exact H1|]. split; [exact H2|]. split; [exact H3|]. split; [exact H4|exact H5].
  Qed.
End RDP.

(* ---- the tail of fuzzy_optimal against the naive rows on the window ------------------------------------ *)
Lemma in_nthN {A} (d : A) : forall (l : list A) x, In x l -> exists j, j < lenN l /\ nthN l j d = x.
Proof.
  induction l as [|y l IH]; intros x H; [destruct H|]. destruct H as [<-|H].
  - exists 0. split; [rewrite lenN_cons; lia|reflexivity].
  - destruct (IH x H) as (j & Hj & E). exists (j + 1). split; [rewrite lenN_cons; lia|].
    rewrite nthN_cons_succ. exact E.
Qed.

Lemma nthN_in {A} (d : A) (l : list A) j : j < lenN l -> In (nthN l j d) l.
Proof. intros H. unfold nthN, lenN in *. apply nth_In. lia. Qed.

Lemma dp_final_n start hw bs n0 n1 nr' ro row0 s idx :
  lenN bs = lenN hw ->
  ROK hw 0 (n0 :: n1 :: nr') ro -> GRD hw 0 (n0 :: n1 :: nr') ro -> hd 0 ro = 0 ->
  lenN row0 = lenN hw + 1 - lenN (n0 :: n1 :: nr') ->
  dp_tail start n0 n1 (n1 :: nr') hw bs ro (lenN hw) (lenN (n0 :: n1 :: nr')) row0 0 = Match s idx ->
  forall r cb, In (Some (r, cb)) (nrows (n1 :: nr') hw bs (row0_of n0 hw bs)) -> r <= s.
Proof.
  intros Hbs HROK HG Hro0 Hrow0 Htail r cb Hin.
  set (W := lenN hw) in *. set (m := lenN (n0 :: n1 :: nr')) in *.
  pose proof (ROK_len _ _ _ _ HROK) as Hrolen. fold m in Hrolen.
  assert (Hm : m = lenN nr' + 2) by (unfold m; rewrite !lenN_cons; lia).
  destruct ro as [|off0 [|off1 ro'']]; cbn [ROK] in HROK; try tauto.
  destruct HROK as (_ & Hh0 & Hoff0W & Hlb1 & Hh1 & Hoff1W & HROK'').
  cbn [hd] in Hro0. subst off0.
  cbn [GRD] in HG. destruct HG as (_ & Hg1 & HG'').
  unfold dp_tail in Htail. change (nthN (0 :: off1 :: ro'') 1 0) with off1 in Htail. cbn [tl] in Htail.
  destruct (score_row_first_n hw bs Hbs m off1 n0 n1 row0) as (row1 & cells0 & Hsr & Hlen1 & HRN1);
    try assumption; try (fold W; lia).
  rewrite Hsr in Htail.
  assert (HROK1 : ROK hw (0 + 1) (n1 :: nr') (off1 :: ro'')) by (cbn [ROK]; auto).
  assert (HG1 : GRD hw (0 + 1) (n1 :: nr') (off1 :: ro'')) by (cbn [GRD]; auto).
  assert (HP1 : NPre hw (nfused n1 hw bs (row0_of n0 hw bs) None None) off1).
  { apply (next_row_prefix hw bs Hbs _ 0 off1 n1); [apply NPre_row0; [exact Hbs|fold W; lia|exact Hh0]|lia|fold W; lia| |exact Hh1].
    intros j Hj1 Hj2. apply Hg1; lia. }
  destruct (populate_ok_n hw bs Hbs m (n1 :: nr') (off1 :: ro'') (0 + 1) (nfused n1 hw bs (row0_of n0 hw bs) None None) row1 1)
    as (rowf & rest & Hpop & H1 & H2 & H3 & H4 & H5).
  - discriminate.
  - exact HROK1.
  - exact HG1.
  - cbn [hd]. lia.
  - exact HP1.
  - cbn [hd]. exact HRN1.
  - fold W. lia.
  - rewrite lenN_cons. lia.
  - rewrite Hpop in Htail. cbv zeta in H4, H5. cbn [tl] in H4, H5.
    set (lo := last (off1 :: ro'') 0) in *.
    change (nrows (n1 :: nr') hw bs (row0_of n0 hw bs))
      with (nrows nr' hw bs (nfused n1 hw bs (row0_of n0 hw bs) None None)) in Hin.
    set (msf := nrows nr' hw bs (nfused n1 hw bs (row0_of n0 hw bs) None None)) in *.
    assert (Hlast : nthN (0 :: off1 :: ro'') (m - 1) 0 = lo).
    { unfold lo. change (last (off1 :: ro'') 0) with (last (0 :: off1 :: ro'') 0).
      rewrite last_nthN by discriminate. rewrite Hrolen. reflexivity. }
    cbv zeta in Htail. rewrite Hlast in Htail.
    replace (lo + 1 <? m) with false in Htail by lia.
    destruct (argmax_last (dropN (lo + 1 - m) rowf) 0 None) as [[me best]|] eqn:Earg; [|discriminate].
    assert (Hs : s = sc best).
    { revert Htail. clear.
      destruct (frev _) as [|[[ridx roff] rowc] rows']; [discriminate|].
      destruct (_ <=? _); [discriminate|]. destruct (_ <=? _); [discriminate|].
      destruct (reconstruct _ _ _ _ _ _ _ _ _); [|discriminate]. intros H. injection H as <- _. reflexivity. }
    apply argmax_spec in Earg. destruct Earg as (Hall & _ & _).
    destruct H4 as (HmsW & Hnone & _).
    destruct (in_nthN None _ _ Hin) as (j & Hj & Ej).
    assert (Hjlo : lo <= j).
    { destruct (N.le_gt_cases lo j) as [Hle|Hgt]; [exact Hle|]. rewrite (Hnone j Hgt) in Ej. discriminate. }
    assert (Hk : j - lo < lenN (dropN (lo + 1 - m) rowf)) by (rewrite lenN_dropN; fold W in HmsW; lia).
    pose proof (RN_nth hw bs Hbs msf (dropN (lo + 1 - m) rowf) lo (j - lo) ZERO_CELL H5 Hk) as Hc.
    replace (lo + (j - lo)) with j in Hc by lia. rewrite Ej in Hc. cbn [crel] in Hc. destruct Hc as (Hc & _).
    rewrite Hs, <- Hc. apply Hall. apply nthN_in. exact Hk.
Qed.

(* ==== Part C ============================================================================================ *)
(* ---- the row offsets computed by setup_loop are the greedy (leftmost) ones ---------------------------- *)
Lemma GRD_weaken G : forall n' ro' lb lb', lb' <= lb ->
  (forall j, lb' <= j -> j < lb -> nthN G j 0 <> hd 0 n') -> GRD G lb n' ro' -> GRD G lb' n' ro'.
Proof.
  intros [|x n'] [|off ro'] lb lb' Hle Hn H; cbn [GRD] in *; try assumption.
  destruct H as [H1 H2]. split; [|exact H2]. intros j Hj1 Hj2.
  destruct (N.lt_ge_cases j lb); [apply Hn; assumption | apply H1; assumption].
Qed.

Lemma setup_grd cfg hr : forall hs i prev nc nrest matched hw bs ro mt',
  setup_loop cfg hr hs i prev nc nrest matched = (hw, bs, ro, mt') ->
  matched = false -> mt' = true ->
  forall G pre, G = pre ++ hw -> lenN pre = i -> GRD G i (nc :: nrest) ro.
Proof.
  induction hs as [|c0 hs IH]; intros i prev nc nrest matched hw bs ro mt' H Hm Hmt G pre HG Hpre.
  - cbn [setup_loop] in H. injection H as <- <- <- <-. subst. discriminate.
  - cbn [setup_loop] in H.
    pose proof (class_norm_fst cfg hr c0) as Hf. destruct (class_norm cfg hr c0) as [c k]. cbn [fst] in Hf. subst c.
    destruct (norm cfg hr c0 =? nc) eqn:Ec.
    + destruct nrest as [|x r].
      * destruct (setup_loop cfg hr hs (i + 1) k nc [] true) as [[[cs' bs'] ro'] m] eqn:E.
        injection H as <- <- <- <-.
        destruct (setup_spec _ _ _ _ _ _ _ _ _ _ _ _ E) as (_ & _ & _ & Hro). specialize (Hro eq_refl eq_refl). subst ro'.
        subst matched. cbn [GRD]. split; [intros j Hj1 Hj2; lia|exact I].
      * destruct (setup_loop cfg hr hs (i + 1) k x r matched) as [[[cs' bs'] ro'] m] eqn:E.
        injection H as <- <- <- <-.
        cbn [GRD]. split; [intros j Hj1 Hj2; lia|].
        apply (IH _ _ _ _ _ _ _ _ _ E Hm Hmt G (pre ++ [norm cfg hr c0])); [rewrite <- app_assoc; exact HG|].
        rewrite lenN_app, lenN_cons, lenN_nil. lia.
    + destruct (setup_loop cfg hr hs (i + 1) k nc nrest matched) as [[[cs' bs'] ro'] m] eqn:E.
      injection H as <- <- <- <-.
      apply (GRD_weaken G _ _ (i + 1)); [lia| |].
      * intros j Hj1 Hj2. assert (j = i) by lia. subst j. cbn [hd]. rewrite HG, <- Hpre.
        replace (lenN pre) with (lenN pre + 0) by lia. rewrite nthN_app_r, nthN_cons_0.
        apply N.eqb_neq. exact Ec.
      * apply (IH _ _ _ _ _ _ _ _ _ E Hm Hmt G (pre ++ [norm cfg hr c0])); [rewrite <- app_assoc; exact HG|].
        rewrite lenN_app, lenN_cons, lenN_nil. lia.
Qed.

(* ---- the DP branch ------------------------------------------------------------------------------------- *)
Lemma dp_branch_n cfg hr nr h n0 n1 nr' start ge e init_row c0 rest s idx :
  prefer_prefix cfg = false ->
  slab_alloc_ok hr (lenN (sliceN start e h)) (lenN (n0 :: n1 :: nr')) = true ->
  dropN start h = c0 :: rest -> norm cfg hr c0 = n0 -> start < e ->
  fuzzy_optimal cfg hr nr h (n0 :: n1 :: nr') start ge e init_row = Match s idx ->
  forall r cb,
    In (Some (r, cb))
       (nrows (n1 :: nr') (map (norm cfg hr) (sliceN start e h))
              (blist cfg hr (prev_class cfg hr h start) (sliceN start e h))
              (row0_of n0 (map (norm cfg hr) (sliceN start e h))
                       (blist cfg hr (prev_class cfg hr h start) (sliceN start e h)))) ->
    r <= s.
Proof.
  intros Hpp Hslab Hdrop Hn0 Hse Hopt r cb Hin.
  rewrite fuzzy_optimal_eq in Hopt. cbv zeta in Hopt. rewrite Hslab in Hopt. cbn [negb] in Hopt.
  set (n := n0 :: n1 :: nr') in *. set (w := sliceN start e h) in *.
  destruct (setup_loop cfg hr w 0 (prev_class cfg hr h start) n0 (n1 :: nr') false) as [[[hw bs] ro] matched] eqn:Es.
  destruct matched; [|destruct hr, nr; discriminate]. cbn [negb] in Hopt.
  destruct (setup_spec _ _ _ _ _ _ _ _ _ _ _ _ Es) as (Hhw & Hbs & HROK & _).
  specialize (HROK eq_refl eq_refl hw [] eq_refl eq_refl).
  pose proof (setup_grd _ _ _ _ _ _ _ _ _ _ _ _ Es eq_refl eq_refl hw [] eq_refl eq_refl) as HG.
  assert (Hlw : lenN hw = lenN w) by (rewrite Hhw; unfold lenN; rewrite map_length; reflexivity).
  assert (Hlb : lenN bs = lenN hw) by (rewrite Hbs, blist_len, Hlw; reflexivity).
  assert (Hw : exists w', w = c0 :: w').
  { unfold w, sliceN. rewrite Hdrop. unfold takeN. destruct (N.to_nat (e - start)) as [|k] eqn:Ek; [lia|].
    cbn [firstn]. eexists. reflexivity. }
  destruct Hw as [w' Hw]. pose proof Es as Es'. rewrite Hw in Es'.
  pose proof (setup_hd _ _ _ _ _ _ _ _ _ _ _ _ Es' Hn0) as Hro0.
  unfold prefix_bonus_dp in Hopt. rewrite Hpp in Hopt. rewrite <- Hlw in Hopt.
  rewrite <- Hhw, <- Hbs in Hin. subst n.
  refine (dp_final_n start hw bs n0 n1 nr' ro _ s idx Hlb HROK HG Hro0 _ Hopt r cb Hin).
  rewrite lenN_takeN, lenN_app.
  assert (Hr : forall k, lenN (repeat ZERO_CELL k) = N.of_nat k) by (intros k; unfold lenN; rewrite repeat_length; reflexivity).
  rewrite Hr. lia.
Qed.

(* ---- positions ------------------------------------------------------------------------------------------ *)
Lemma position_first {A} (p : A -> bool) (d : A) : forall l k, position p l = Some k ->
  k < lenN l /\ p (nthN l k d) = true /\ forall j, j < k -> p (nthN l j d) = false.
Proof.
  induction l as [|x l IH]; intros k H; [discriminate|].
  rewrite C01Facts.position_cons in H. destruct (p x) eqn:Px.
  - injection H as <-. split; [rewrite lenN_cons; lia|]. split; [exact Px|]. intros j Hj. lia.
  - destruct (position p l) as [k'|] eqn:E; [|discriminate]. injection H as <-.
    destruct (IH k' eq_refl) as (I1 & I2 & I3). split; [rewrite lenN_cons; lia|].
    split; [rewrite nthN_cons_succ; exact I2|].
    intros j Hj. destruct (N.eqb_spec j 0) as [->|Hne]; [exact Px|].
    replace j with (j - 1 + 1) by lia. rewrite nthN_cons_succ. apply I3. lia.
Qed.

Lemma nthN_rev {A} (d : A) (l : list A) i : i < lenN l -> nthN (rev l) i d = nthN l (lenN l - 1 - i) d.
Proof.
  intros H. unfold nthN, lenN in *. rewrite rev_nth by lia. f_equal. lia.
Qed.

Lemma position_last {A} (p : A -> bool) (d : A) (l : list A) :
  match position p (frev l) with
  | None => forall j, j < lenN l -> p (nthN l j d) = false
  | Some k => k < lenN l /\ p (nthN l (lenN l - 1 - k) d) = true /\
              forall j, lenN l - 1 - k < j -> j < lenN l -> p (nthN l j d) = false
  end.
Proof.
  rewrite frev_rev. destruct (position p (rev l)) as [k|] eqn:E.
  - destruct (position_first p d _ _ E) as (H1 & H2 & H3). rewrite lenN_rev in H1.
    split; [exact H1|]. split; [rewrite <- nthN_rev by exact H1; exact H2|].
    intros j Hj1 Hj2. specialize (H3 (lenN l - 1 - j) ltac:(lia)).
    rewrite nthN_rev in H3 by lia. replace (lenN l - 1 - (lenN l - 1 - j)) with j in H3 by lia. exact H3.
  - intros j Hj. apply (C01Facts.position_none p _ E). apply in_rev. rewrite rev_involutive.
    apply nthN_in. exact Hj.
Qed.

(* what the two prefilters guarantee about the window [start, e) *)
Definition WinOK (cfg : config) (hr : repr) (h : list N) (n0 nlast start e : N) : Prop :=
  start < e /\ e <= lenN h /\
  (forall j, j < start -> norm cfg hr (nthN h j 0) <> n0) /\
  (forall j, e <= j -> j < lenN h -> norm cfg hr (nthN h j 0) <> nlast).

Lemma prefilter_ascii_win cfg h n0 n1 nr' start ge e :
  needle_ok cfg Ascii (n0 :: n1 :: nr') = true ->
  prefilter_ascii cfg h (n0 :: n1 :: nr') false = Some (start, ge, e) ->
  WinOK cfg Ascii h n0 (last (n1 :: nr') 0) start e.
Proof.
  intros Hok H. unfold prefilter_ascii in H.
  assert (Hn : forall x, In x (n0 :: n1 :: nr') -> norm cfg Ascii x = x) by (intros x; apply ScoreFacts.needle_ok_in, Hok).
  destruct (position _ _) as [st|] eqn:Ep; [|discriminate].
  destruct (scan_fwd _ _ _) as [k|] eqn:Ek; [|discriminate].
  change (lastN (n0 :: n1 :: nr')) with (last (n1 :: nr') 0) in H.
  set (nl := last (n1 :: nr') 0) in *.
  assert (Hnl : norm cfg Ascii nl = nl).
  { apply Hn. right. unfold nl. clear. generalize n1. induction nr' as [|y nr' IH]; intros z; [left; reflexivity|].
    right. apply IH. }
  pose proof (ScoreFacts.scan_fwd_le _ _ _ _ Ek) as Hk. rewrite lenN_dropN in Hk.
  unfold takeN in Ep. apply C01Facts.position_take_some in Ep.
  destruct (position_first _ 0 _ _ Ep) as (P1 & P2 & P3).
  pose proof (position_last (byte_matches (ignore_case cfg) nl) 0 (dropN (st + 1 + k) h)) as PL.
  unfold rposition in H. rewrite lenN_dropN in PL.
  destruct (position (byte_matches (ignore_case cfg) nl) (frev (dropN (st + 1 + k) h))) as [k'|].
  - injection H as <- <- <-. destruct PL as (L1 & L2 & L3).
    split; [lia|]. split; [rewrite lenN_dropN; lia|]. split.
    + intros j Hj E. specialize (P3 j Hj). rewrite ScoreFacts.byte_matches_norm in P3 by (apply Hn; left; reflexivity).
      unfold ScoreFacts.mn in P3. rewrite E, N.eqb_refl in P3. discriminate.
    + intros j Hj1 Hj2 E. rewrite lenN_dropN in Hj1.
      specialize (L3 (j - (st + 1 + k)) ltac:(lia) ltac:(lia)). rewrite nthN_dropN in L3.
      replace (st + 1 + k + (j - (st + 1 + k))) with j in L3 by lia.
      rewrite ScoreFacts.byte_matches_norm in L3 by exact Hnl.
      unfold ScoreFacts.mn in L3. rewrite E, N.eqb_refl in L3. discriminate.
  - injection H as <- <- <-.
    split; [lia|]. split; [lia|]. split.
    + intros j Hj E. specialize (P3 j Hj). rewrite ScoreFacts.byte_matches_norm in P3 by (apply Hn; left; reflexivity).
      unfold ScoreFacts.mn in P3. rewrite E, N.eqb_refl in P3. discriminate.
    + intros j Hj1 Hj2 E.
      specialize (PL (j - (st + 1 + k)) ltac:(lia)). rewrite nthN_dropN in PL.
      replace (st + 1 + k + (j - (st + 1 + k))) with j in PL by lia.
      rewrite ScoreFacts.byte_matches_norm in PL by exact Hnl.
      unfold ScoreFacts.mn in PL. rewrite E, N.eqb_refl in PL. discriminate.
Qed.

Lemma prefilter_non_ascii_win cfg h n0 n1 nr' start e :
  prefilter_non_ascii cfg h (n0 :: n1 :: nr') false = Some (start, e) ->
  WinOK cfg Unicode h n0 (last (n1 :: nr') 0) start e /\ lenN (n0 :: n1 :: nr') <= e - start.
Proof.
  intros H. unfold prefilter_non_ascii in H.
  destruct (position _ (takeN _ _)) as [st|] eqn:Ep; [|discriminate].
  change (lastN (n0 :: n1 :: nr')) with (last (n1 :: nr') 0) in H.
  set (nl := last (n1 :: nr') 0) in *.
  unfold takeN in Ep. apply C01Facts.position_take_some in Ep.
  destruct (position_first _ 0 _ _ Ep) as (P1 & P2 & P3).
  pose proof (position_last (fun c => norm cfg Unicode c =? nl) 0 (dropN (st + 1) h)) as PL.
  rewrite lenN_dropN in PL.
  destruct (position (fun c => norm cfg Unicode c =? nl) (frev (dropN (st + 1) h))) as [k'|]; [|discriminate].
  destruct (N.ltb_spec (lenN h - k' - st) (lenN (n0 :: n1 :: nr'))) as [C|C]; [discriminate|].
  injection H as <- <-. destruct PL as (L1 & L2 & L3).
  rewrite !lenN_cons in C.
  split; [|rewrite !lenN_cons; lia].
  split; [lia|]. split; [lia|]. split.
  - intros j Hj E. specialize (P3 j Hj). cbv beta in P3. rewrite E, N.eqb_refl in P3. discriminate.
  - intros j Hj1 Hj2 E.
    specialize (L3 (j - (st + 1)) ltac:(lia) ltac:(lia)). cbv beta in L3. rewrite nthN_dropN in L3.
    replace (st + 1 + (j - (st + 1))) with j in L3 by lia. rewrite E, N.eqb_refl in L3. discriminate.
Qed.

(* ---- the window decomposition of the haystack ------------------------------------------------------------ *)
Lemma split3 {A} (h : list A) a b : a <= b -> h = takeN a h ++ sliceN a b h ++ dropN b h.
Proof.
  intros H. rewrite slice_drop_app by exact H. unfold takeN, dropN. symmetry. apply firstn_skipn.
Qed.

Lemma in_takeN {A} (d : A) (l : list A) a x : In x (takeN a l) -> exists j, j < a /\ j < lenN l /\ nthN l j d = x.
Proof.
  intros H. destruct (in_nthN d _ _ H) as (j & Hj & E). rewrite lenN_takeN in Hj.
  exists j. split; [lia|]. split; [lia|]. rewrite nthN_takeN in E by lia. exact E.
Qed.

Lemma in_dropN {A} (d : A) (l : list A) a x : In x (dropN a l) -> exists j, a <= j /\ j < lenN l /\ nthN l j d = x.
Proof.
  intros H. destruct (in_nthN d _ _ H) as (j & Hj & E). rewrite lenN_dropN in Hj.
  exists (a + j). split; [lia|]. split; [lia|]. rewrite nthN_dropN in E. exact E.
Qed.

Lemma naive_window cfg hr h n0 n1 nr' start e r :
  WinOK cfg hr h n0 (last (n1 :: nr') 0) start e ->
  naive_score cfg hr h (n0 :: n1 :: nr') = Some r ->
  exists cb,
    In (Some (r, cb))
       (nrows (n1 :: nr') (map (norm cfg hr) (sliceN start e h))
              (blist cfg hr (prev_class cfg hr h start) (sliceN start e h))
              (row0_of n0 (map (norm cfg hr) (sliceN start e h))
                       (blist cfg hr (prev_class cfg hr h start) (sliceN start e h)))).
Proof.
  intros (Hse & Heh & Hpre & Hpost) Hnaive.
  set (pre := takeN start h). set (w := sliceN start e h). set (post := dropN e h).
  assert (Hh : h = pre ++ w ++ post) by (apply split3; lia).
  set (bw := blist cfg hr (prev_class cfg hr h start) w).
  assert (Lpre : lenN pre = start) by (unfold pre; rewrite lenN_takeN; lia).
  assert (Lw : lenN w = e - start) by (unfold w; rewrite lenN_sliceN; lia).
  pose proof (naive_score_window cfg hr pre w post n0 (n1 :: nr') bw r) as K.
  rewrite <- Hh in K. apply K; clear K.
  - discriminate.
  - intros c Hc. destruct (in_takeN 0 _ _ _ Hc) as (j & Hj1 & Hj2 & <-). apply Hpre. exact Hj1.
  - intros c Hc. destruct (in_dropN 0 _ _ _ Hc) as (j & Hj1 & Hj2 & <-). apply Hpost; assumption.
  - pose proof (blist_len cfg hr w (prev_class cfg hr h start)) as B. unfold lenN in B. unfold bw. lia.
  - intros j Hj.
    pose proof (blist_nth cfg hr h w start (prev_class cfg hr h start) eq_refl) as B.
    specialize (B ltac:(intros j' Hj'; unfold w; apply nthN_sliceN; lia) (N.of_nat j) ltac:(unfold lenN; lia)).
    unfold nthN in B. rewrite Nat2N.id in B. fold bw in B. rewrite B. f_equal. unfold lenN in Lpre. lia.
  - exact Hnaive.
Qed.

(* ---- the contiguous fallback: window of exactly needle length ------------------------------------------- *)
Definition iota (k : nat) : list N := map N.of_nat (seq 0 k).

Lemma iota_S k : iota (S k) = iota k ++ [N.of_nat k].
Proof. unfold iota. rewrite seq_S, map_app. reflexivity. Qed.

Lemma iota_ne k : iota (S k) <> [].
Proof. unfold iota. cbn. discriminate. Qed.

Lemma in_iota k c : In c (iota k) -> c < N.of_nat k.
Proof. unfold iota. intros H. apply in_map_iff in H. destruct H as (a & <- & Ha). apply in_seq in Ha. lia. Qed.

Section Diag.
  Variables hw bs : list N.
  Hypothesis Hbs : lenN bs = lenN hw.

  Definition DG (i : nat) (ms : list ocell) : Prop :=
    lenN ms = lenN hw /\ (forall j, j < N.of_nat i -> nthN ms j None = None) /\
    (nthN ms (N.of_nat i) None = None \/
     exists s cb rf, nthN ms (N.of_nat i) None = Some (s, cb) /\
       pstate bs (iota (S i)) = (N.of_nat i, rf, s) /\ N.max cb 4 = N.max rf 4).

  Lemma DG_0 x : 0 < lenN hw -> DG 0 (row0_of x hw bs).
  Proof.
    intros HW. unfold DG. split; [|split].
    - unfold lenN. rewrite row0_length; [reflexivity|]. unfold lenN in Hbs. lia.
    - intros j Hj. lia.
    - rewrite nthN_row0 by lia. cbn [N.of_nat]. destruct (nthN hw 0 0 =? x); [|left; reflexivity].
      right. exists (16 + 2 * nthN bs 0 0), (nthN bs 0 0), (nthN bs 0 0). split; [reflexivity|].
      split; reflexivity.
  Qed.

  Lemma DG_step x i ms : N.of_nat (S i) < lenN hw -> DG i ms -> DG (S i) (nfused x hw bs ms None None).
  Proof.
    intros HW (Hms & Hnone & Hd). unfold DG.
    assert (Hst : forall j, j <= N.of_nat i -> st ms j = (None, None)).
    { intros j Hj. apply st_none; [lia|]. intros j' Hj'. apply Hnone. lia. }
    split; [rewrite lenN_nfused by lia; exact Hms|]. split.
    - intros j Hj. rewrite nthN_nfused by lia. rewrite Hst by lia. cbn [fst snd naive_m].
      destruct (_ =? _); reflexivity.
    - rewrite nthN_nfused by lia.
      replace (N.of_nat (S i)) with (N.of_nat i + 1) by lia. rewrite st_succ by lia.
      rewrite Hst by lia. cbn [fst snd naive_p].
      destruct (nthN hw (N.of_nat i + 1) 0 =? x); [|left; reflexivity].
      destruct Hd as [E|(s & cb & rf & E & Hps & Hcb)]; rewrite E; [left; reflexivity|].
      right. cbn [naive_m].
      set (b := nthN bs (N.of_nat i + 1) 0).
      set (cb0 := N.max cb 4). set (cb1 := if (8 <=? b) && (cb0 <? b) then b else cb0).
      set (rf' := if (8 <=? b) && (rf <? b) then b else rf).
      exists (s + N.max cb1 b + 16), cb1, rf'. split; [reflexivity|].
      assert (Hcb1 : cb1 = N.max rf' 4).
      { unfold cb1, cb0, rf'.
        destruct (N.leb_spec 8 b); destruct (N.ltb_spec (N.max cb 4) b); destruct (N.ltb_spec rf b);
          cbn [andb]; lia. }
      split.
      + rewrite (iota_S (S i)). rewrite pstate_snoc by apply iota_ne. rewrite Hps. unfold fstep, bon.
        replace (N.of_nat (S i) =? N.of_nat i + 1) with true by lia.
        replace (N.of_nat (S i)) with (N.of_nat i + 1) by lia. fold b. fold rf'.
        f_equal. rewrite Hcb1. lia.
      + rewrite Hcb1. lia.
  Qed.

  Lemma DG_rows : forall n' i ms, N.of_nat i + lenN n' < lenN hw -> DG i ms ->
    DG (i + length n') (nrows n' hw bs ms).
  Proof.
    induction n' as [|x n' IH]; intros i ms HW HD.
    - cbn [nrows length]. rewrite Nat.add_0_r. exact HD.
    - cbn [nrows length]. rewrite lenN_cons in HW.
      replace (i + S (length n'))%nat with (S i + length n')%nat by lia.
      apply IH; [lia|]. apply DG_step; [lia|exact HD].
  Qed.
End Diag.

Lemma emb_contig H : forall idx n lo, embedding_b idx n H lo = true -> idx <> [] ->
  last idx 0 < lo + lenN idx -> idx = map (N.add lo) (iota (length idx)).
Proof.
  induction idx as [|i idx IH]; intros n lo He Hne Hl; [congruence|].
  destruct n as [|x n]; [discriminate|].
  cbn [embedding_b] in He. apply andb_prop in He. destruct He as [He He4].
  apply andb_prop in He. destruct He as [He He3]. apply andb_prop in He. destruct He as [He1 He2].
  rewrite lenN_cons in Hl.
  destruct idx as [|i' idx'].
  - cbn [last] in Hl. cbn. f_equal. unfold lenN in Hl. cbn in Hl. lia.
  - assert (Hl' : last (i' :: idx') 0 < i + 1 + lenN (i' :: idx')).
    { change (last (i :: i' :: idx') 0) with (last (i' :: idx') 0) in Hl. lia. }
    pose proof (IH n (i + 1) He4 ltac:(discriminate) Hl') as E.
    assert (Hi' : i + 1 <= i').
    { destruct n as [|y n]; [discriminate|]. cbn [embedding_b] in He4.
      apply andb_prop in He4. destruct He4 as [He4 _]. apply andb_prop in He4. destruct He4 as [He4 _].
      apply andb_prop in He4. destruct He4 as [He4 _]. lia. }
    assert (Hlast : i + lenN (i' :: idx') <= last (i' :: idx') 0).
    { rewrite E at 2. rewrite last_map by (apply iota_ne). cbn [length]. rewrite iota_S, last_last.
      rewrite lenN_cons. unfold lenN. lia. }
    change (last (i :: i' :: idx') 0) with (last (i' :: idx') 0) in Hl.
    assert (i = lo) by lia. subst i.
    change (length (lo :: i' :: idx')) with (S (length (i' :: idx'))).
    rewrite E at 1. unfold iota. cbn [seq map]. f_equal. rewrite N.add_0_r. reflexivity.
    rewrite <- seq_shift, !map_map. apply map_ext. intros a. lia.
Qed.

Lemma emb_len H : forall idx n lo, embedding_b idx n H lo = true -> length idx = length n.
Proof.
  induction idx as [|i idx IH]; intros [|x n] lo He; try discriminate; [reflexivity|].
  cbn [embedding_b] in He. apply andb_prop in He. destruct He as [_ He]. cbn [length]. f_equal. eapply IH. exact He.
Qed.

Lemma emb_last H : forall idx n lo, embedding_b idx n H lo = true -> n <> [] ->
  last idx 0 < N.of_nat (length H) /\ nth (N.to_nat (last idx 0)) H 0 = last n 0.
Proof.
  induction idx as [|i idx IH]; intros [|x n] lo He Hne; try discriminate; [congruence|].
  cbn [embedding_b] in He. apply andb_prop in He. destruct He as [He He4].
  apply andb_prop in He. destruct He as [He He3]. apply andb_prop in He. destruct He as [He1 He2].
  destruct idx as [|i' idx'].
  - destruct n; [|discriminate]. cbn [last]. split; [lia|]. apply N.eqb_eq. exact He3.
  - destruct n as [|y n]; [discriminate|].
    change (last (i :: i' :: idx') 0) with (last (i' :: idx') 0).
    change (last (x :: y :: n) 0) with (last (y :: n) 0).
    apply (IH (y :: n) (i + 1) He4). discriminate.
Qed.

Lemma nth_nh cfg hr h j : j < lenN h -> nth (N.to_nat j) (nh cfg hr h) 0 = norm cfg hr (nthN h j 0).
Proof.
  intros Hj. unfold nh, nthN, lenN in *.
  rewrite (nth_indep (map (norm cfg hr) h) 0 (norm cfg hr 0)) by (rewrite map_length; lia).
  apply map_nth.
Qed.

Lemma contiguous_case cfg hr h n0 n1 nr' start e s idx r :
  WinOK cfg hr h n0 (last (n1 :: nr') 0) start e ->
  lenN (n0 :: n1 :: nr') = e - start ->
  s = fzf_score cfg hr h idx ->
  embedding_b idx (n0 :: n1 :: nr') (nh cfg hr h) 0 = true ->
  naive_score cfg hr h (n0 :: n1 :: nr') = Some r -> r <= s.
Proof.
  intros HW Hlen Hs Hemb Hnaive.
  destruct (naive_window cfg hr h n0 n1 nr' start e r HW Hnaive) as (cb & Hin).
  destruct HW as (Hse & Heh & Hpre & Hpost).
  set (n := n0 :: n1 :: nr') in *.
  set (w := sliceN start e h) in *. set (hw := map (norm cfg hr) w) in *.
  set (bw := blist cfg hr (prev_class cfg hr h start) w) in *.
  assert (Lw : lenN w = e - start) by (unfold w; rewrite lenN_sliceN; lia).
  assert (Lhw : lenN hw = lenN w) by (unfold hw, lenN; rewrite map_length; reflexivity).
  assert (Lbw : lenN bw = lenN hw) by (unfold bw; rewrite blist_len; lia).
  assert (Hm : lenN n = lenN nr' + 2) by (unfold n; rewrite !lenN_cons; lia).
  (* the naive side: only the diagonal survives *)
  pose proof (DG_rows hw bw Lbw (n1 :: nr') 0 (row0_of n0 hw bw)) as HD.
  specialize (HD ltac:(rewrite lenN_cons; cbn [N.of_nat]; lia) (DG_0 hw bw Lbw n0 ltac:(lia))).
  cbn [Nat.add] in HD. destruct HD as (HmsW & Hnone & Hd).
  destruct (in_nthN None _ _ Hin) as (j & Hj & Ej).
  assert (Hlenn : N.of_nat (length (n1 :: nr')) = lenN n - 1) by (unfold n, lenN; cbn [length]; lia).
  assert (Ej' : j = N.of_nat (length (n1 :: nr'))).
  { destruct (N.lt_ge_cases j (N.of_nat (length (n1 :: nr')))) as [Hlt|Hge]; [rewrite (Hnone j Hlt) in Ej; discriminate|]. lia. }
  subst j. destruct Hd as [E|(s' & cb' & rf & E & Hps & _)]; rewrite E in Ej; [discriminate|].
  injection Ej as -> ->.
  (* the reported alignment is the diagonal *)
  pose proof (emb_len _ _ _ _ Hemb) as Hli.
  destruct idx as [|i0 idx']; [discriminate|].
  assert (Hi0 : start <= i0).
  { cbn [embedding_b] in Hemb. apply andb_prop in Hemb. destruct Hemb as [He _].
    apply andb_prop in He. destruct He as [He He3]. apply andb_prop in He. destruct He as [_ He2].
    unfold nh in He2. rewrite map_length in He2.
    destruct (N.le_gt_cases start i0) as [Hle|Hgt]; [exact Hle|]. exfalso.
    apply (Hpre i0 Hgt). rewrite <- nth_nh by (unfold lenN; lia). apply N.eqb_eq. exact He3. }
  assert (Hemb' : embedding_b (i0 :: idx') n (nh cfg hr h) start = true).
  { unfold n in *. cbn [embedding_b] in *. replace (start <=? i0) with true by lia.
    replace (0 <=? i0) with true in Hemb by lia. exact Hemb. }
  destruct (emb_last _ _ _ _ Hemb' ltac:(discriminate)) as (Hl1 & Hl2).
  unfold nh in Hl1. rewrite map_length in Hl1.
  assert (Hlast : last (i0 :: idx') 0 < start + lenN (i0 :: idx')).
  { destruct (N.lt_ge_cases (last (i0 :: idx') 0) e) as [Hlt|Hge].
    - unfold lenN. rewrite Hli. fold (lenN n). lia.
    - exfalso. apply (Hpost _ Hge ltac:(unfold lenN; lia)). rewrite <- nth_nh by (unfold lenN; lia). exact Hl2. }
  pose proof (emb_contig _ _ _ _ Hemb' ltac:(discriminate) Hlast) as Eidx.
  rewrite Hs, Eidx, Hli.
  rewrite (fzf_score_window cfg hr h start bw).
  - unfold n. cbn [length]. cbn [length] in Hps. rewrite Hps. cbn [snd]. lia.
  - intros c Hc. apply in_iota in Hc. unfold bw.
    apply (blist_nth cfg hr h w start (prev_class cfg hr h start) eq_refl).
    + intros j' Hj'. unfold w. apply nthN_sliceN. lia.
    + unfold n, lenN in *. cbn [length] in *. lia.
Qed.

(* ---- the slab guard is monotone in the haystack length -------------------------------------------------- *)
Lemma round_up_mono x y a : a <> 0 -> x <= y -> round_up x a <= round_up y a.
Proof.
  intros Ha H. unfold round_up. apply N.mul_le_mono_r. apply N.div_le_mono; [exact Ha|lia].
Qed.

Lemma slab_alloc_mono hr hl hl' nl : hl' <= hl -> slab_alloc_ok hr hl nl = true -> slab_alloc_ok hr hl' nl = true.
Proof.
  intros Hle H. unfold slab_alloc_ok in *. apply andb_prop in H. destruct H as [H1 H2].
  apply andb_true_intro. split.
  - unfold alloc_refuses in *.
    assert (hl' * nl <= hl * nl) by (apply N.mul_le_mono_r; exact Hle). lia.
  - apply N.leb_le in H2. apply N.leb_le. eapply N.le_trans; [|exact H2].
    unfold layout_size, layout_count_haystack, layout_count_bonus, layout_count_rows, layout_count_score, layout_count_matrix.
    assert (A1 : hl' * char_size hr + hl' <= hl * char_size hr + hl).
    { assert (hl' * char_size hr <= hl * char_size hr) by (apply N.mul_le_mono_r; exact Hle). lia. }
    assert (A2 : round_up (hl' * char_size hr + hl') 2 + 2 * nl <= round_up (hl * char_size hr + hl) 2 + 2 * nl).
    { pose proof (round_up_mono _ _ 2 ltac:(lia) A1). lia. }
    assert (A3 : round_up (round_up (hl' * char_size hr + hl') 2 + 2 * nl) 8 <= round_up (round_up (hl * char_size hr + hl) 2 + 2 * nl) 8).
    { apply round_up_mono; [lia|exact A2]. }
    assert (A4 : (hl' + 1 - nl) * nl <= (hl + 1 - nl) * nl) by (apply N.mul_le_mono_r; lia).
    lia.
Qed.

Lemma slab_needle_len hr hl nl : slab_alloc_ok hr hl nl = true -> nl <= 2048.
Proof.
  unfold slab_alloc_ok, alloc_refuses. intros H. apply andb_prop in H. destruct H as [H _]. lia.
Qed.

(* ---- assembly ---------------------------------------------------------------------------------------------- *)
Lemma C04_recurrence : C04_recurrence_stmt.
Proof.
  intros cfg hs ns s idx r Hpp Hb Hok HK Hn2 Hnh Hslab Hrun Hnaive.
  assert (Hlen : lenN (cs ns) <= 2500) by (pose proof (slab_needle_len _ _ _ Hslab); lia).
  pose proof (DPScoreFacts.DP_score cfg hs ns s idx Hpp Hb Hlen Hok Hrun) as Hs.
  pose proof (DPScoreFacts.DP_witness_weak cfg hs ns s idx Hpp Hok Hrun) as Hemb.
  cbn [run] in Hrun. unfold fuzzy_impl in Hrun. cbv zeta in Hrun.
  destruct hs as [hr h]. destruct ns as [nr n]. cbn [rp cs] in *.
  replace (lenN h <? lenN n) with false in Hrun by (unfold lenN; lia).
  destruct n as [|n0 [|n1 nr']]; cbn [length] in Hn2; try lia.
  replace (lenN (n0 :: n1 :: nr') =? lenN h) with false in Hrun by (unfold lenN; cbn [length] in *; lia).
  assert (Hn : forall x, In x (n0 :: n1 :: nr') -> norm cfg nr x = x) by (intros x; apply ScoreFacts.needle_ok_in, Hok).
  assert (Hslab' : forall st e, slab_alloc_ok hr (lenN (sliceN st e h)) (lenN (n0 :: n1 :: nr')) = true).
  { intros st e. apply (slab_alloc_mono hr (lenN h)); [rewrite lenN_sliceN; lia|exact Hslab]. }
  destruct hr, nr.
  - (* Ascii / Ascii *)
    destruct (prefilter_ascii cfg h (n0 :: n1 :: nr') false) as [[[st ge] e]|] eqn:Ep; [|discriminate].
    pose proof (prefilter_ascii_win _ _ _ _ _ _ _ _ Hok Ep) as HW.
    destruct (DPScoreFacts.prefilter_ascii_parts _ _ _ _ _ _ _ _ Ep) as (_ & (c0 & rest & Hdrop & Hbm) & _).
    assert (Hc0 : norm cfg Ascii c0 = n0).
    { rewrite ScoreFacts.byte_matches_norm in Hbm by (apply Hn; left; reflexivity).
      unfold ScoreFacts.mn in Hbm. apply N.eqb_eq in Hbm. exact Hbm. }
    destruct (N.eqb_spec (lenN (n0 :: n1 :: nr')) (e - st)) as [El|El].
    + eapply contiguous_case; eauto.
    + destruct (naive_window _ _ _ _ _ _ _ _ _ HW Hnaive) as (cb & Hin).
      exact (dp_branch_n cfg _ _ h n0 n1 nr' st _ e [] c0 rest s idx Hpp (Hslab' st e) Hdrop Hc0 (proj1 HW) Hrun r cb Hin).
  - exfalso. apply HK. split; reflexivity.
  - (* Unicode / Ascii *)
    destruct (prefilter_non_ascii cfg h (n0 :: n1 :: nr') false) as [[st e]|] eqn:Ep; [|discriminate].
    destruct (prefilter_non_ascii_win _ _ _ _ _ _ _ Ep) as (HW & Hwl).
    destruct (ScoreFacts.prefilter_non_ascii_start _ _ _ _ _ _ _ Ep) as (c0 & rest & Hdrop & Hc0).
    destruct (N.eqb_spec (lenN (n0 :: n1 :: nr')) (e - st)) as [El|El].
    + eapply contiguous_case; eauto.
    + destruct (naive_window _ _ _ _ _ _ _ _ _ HW Hnaive) as (cb & Hin).
      exact (dp_branch_n cfg _ _ h n0 n1 nr' st _ e [] c0 rest s idx Hpp (Hslab' st e) Hdrop Hc0 (proj1 HW) Hrun r cb Hin).
  - (* Unicode / Unicode *)
    destruct (prefilter_non_ascii cfg h (n0 :: n1 :: nr') false) as [[st e]|] eqn:Ep; [|discriminate].
    destruct (prefilter_non_ascii_win _ _ _ _ _ _ _ Ep) as (HW & Hwl).
    destruct (ScoreFacts.prefilter_non_ascii_start _ _ _ _ _ _ _ Ep) as (c0 & rest & Hdrop & Hc0).
    destruct (N.eqb_spec (lenN (n0 :: n1 :: nr')) (e - st)) as [El|El].
    + eapply contiguous_case; eauto.
    + destruct (naive_window _ _ _ _ _ _ _ _ _ HW Hnaive) as (cb & Hin).
      exact (dp_branch_n cfg _ _ h n0 n1 nr' st _ e [] c0 rest s idx Hpp (Hslab' st e) Hdrop Hc0 (proj1 HW) Hrun r cb Hin).
Qed.

Print Assumptions C04_recurrence.
