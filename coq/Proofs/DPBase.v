(* Basic list plumbing for the DP proofs and the history-independence core (relational argument). *)
From Coq Require Import ZArith NArith List Bool Lia ZifyBool ZifyN ZifyNat.
From NV Require Import Base.Util Model.Chars Model.Matcher Spec.Matching Spec.Statements Proofs.CharsFacts.
Import ListNotations.
Local Open Scope N_scope.

(* ---- lenN / takeN / dropN ------------------------------------------------------------------------ *)
Lemma lenN_nil {A} : lenN (@nil A) = 0.
Proof. reflexivity. Qed.

Lemma lenN_cons' {A} (x : A) l : lenN (x :: l) = lenN l + 1.
Proof. unfold lenN. cbn [length]. lia. Qed.

Lemma lenN_app {A} (a b : list A) : lenN (a ++ b) = lenN a + lenN b.
Proof. unfold lenN. rewrite app_length. lia. Qed.

Lemma lenN_takeN {A} n (l : list A) : lenN (takeN n l) = N.min n (lenN l).
Proof. unfold lenN, takeN. rewrite firstn_length. lia. Qed.

Lemma lenN_dropN {A} n (l : list A) : lenN (dropN n l) = lenN l - n.
Proof. unfold lenN, dropN. rewrite skipn_length. lia. Qed.

Lemma skipn_skipn_plus {A} : forall b a (l : list A), skipn a (skipn b l) = skipn (b + a) l.
Proof.
  induction b as [|b IH]; intros a l; [reflexivity|].
  destruct l as [|x l]; [rewrite !skipn_nil; reflexivity|]. cbn [skipn Nat.add]. apply IH.
Qed.

Lemma dropN_dropN {A} a b (l : list A) : dropN a (dropN b l) = dropN (b + a) l.
Proof.
  unfold dropN. rewrite skipn_skipn_plus. f_equal. lia.
Qed.

Lemma dropN_0 {A} (l : list A) : dropN 0 l = l.
Proof. reflexivity. Qed.

Lemma takeN_dropN {A} n (l : list A) : takeN n l ++ dropN n l = l.
Proof. unfold takeN, dropN. apply firstn_skipn. Qed.

Lemma dropN_app_take {A} n (l t : list A) : n <= lenN l -> dropN n (takeN n l ++ t) = t.
Proof.
  intros H. unfold dropN, takeN, lenN in *.
  rewrite skipn_app, firstn_length, skipn_all2 by (rewrite firstn_length; lia).
  replace (N.to_nat n - Nat.min (N.to_nat n) (length l))%nat with 0%nat by lia. reflexivity.
Qed.

Lemma sliceN_as_drop {A} a b (l : list A) : sliceN a b l = takeN (b - a) (dropN a l).
Proof. reflexivity. Qed.

(* ---- unfolding equations for the two loops of score_row ------------------------------------------ *)
Definition mcell_of (first : bool) (nc c b : N) (r : cell) (pfx : N) : cell :=
  if first then
    if c =? nc then {| sc := b * BONUS_FIRST_CHAR_MULTIPLIER + SCORE_MATCH + pfx / PREFIX_BONUS_SCALE; cb := b; mt := false |}
    else UNMATCHED
  else r.
Definition pfx_next (first : bool) (pfx : N) : N := if first then pfx - PENALTY_GAP_EXTENSION else pfx.

Lemma skip_pass_cons first nc c hs b bs r rs pp pm pfx :
  skip_pass first nc (c :: hs) (b :: bs) (r :: rs) pp pm pfx =
  let '(pp', pm', pfx'', cells) :=
    skip_pass first nc hs bs rs (fst (p_score pp pm)) (sc (mcell_of first nc c b r pfx)) (pfx_next first pfx) in
  (pp', pm', pfx'', (snd (p_score pp pm), mt (mcell_of first nc c b r pfx)) :: cells).
Proof. cbn [skip_pass]. destruct (p_score pp pm) as [p pmatched]. reflexivity. Qed.

Lemma main_pass_cons first nc nnc c0 c1 hs b0 b1 bs r rs pp pm pfx :
  main_pass first nc nnc (c0 :: c1 :: hs) (b0 :: b1 :: bs) (r :: rs) pp pm pfx =
  let '(rs'', cells) :=
    main_pass first nc nnc (c1 :: hs) (b1 :: bs) rs (fst (p_score pp pm)) (sc (mcell_of first nc c0 b0 r pfx))
              (pfx_next first pfx) in
  ((if c1 =? nnc then next_m_cell (fst (p_score pp pm)) b1 (mcell_of first nc c0 b0 r pfx) else UNMATCHED) :: rs'',
   (snd (p_score pp pm), mt (mcell_of first nc c0 b0 r pfx)) :: cells).
Proof.
  change (main_pass first nc nnc (c0 :: c1 :: hs) (b0 :: b1 :: bs) (r :: rs) pp pm pfx) with
    (let '(p, pmatched) := p_score pp pm in
     let '(rs'', cells) := main_pass first nc nnc (c1 :: hs) (b1 :: bs) rs p (sc (mcell_of first nc c0 b0 r pfx))
                                     (pfx_next first pfx) in
     ((if c1 =? nnc then next_m_cell p b1 (mcell_of first nc c0 b0 r pfx) else UNMATCHED) :: rs'',
      (pmatched, mt (mcell_of first nc c0 b0 r pfx)) :: cells)).
  destruct (p_score pp pm) as [p pmatched]. reflexivity.
Qed.

Lemma main_pass_short1 first nc nnc c0 bs rs pp pm pfx :
  main_pass first nc nnc [c0] bs rs pp pm pfx = (rs, []).
Proof. destruct bs as [|b0 [|b1 bs]]; reflexivity. Qed.

Lemma main_pass_nil_rs first nc nnc hs bs pp pm pfx :
  main_pass first nc nnc hs bs [] pp pm pfx = ([], []).
Proof. destruct hs as [|c0 [|c1 hs]]; [reflexivity..|]. destruct bs as [|b0 [|b1 bs]]; reflexivity. Qed.

(* ---- history independence: score_row only reads the slots from relative_row_off on --------------- *)
(* in first-row mode the row content is never read, only its length matters *)
Lemma skip_pass_first nc : forall hs bs rs rs' pp pm pfx, length rs = length rs' ->
  skip_pass true nc hs bs rs pp pm pfx = skip_pass true nc hs bs rs' pp pm pfx.
Proof.
  induction hs as [|c hs IH]; intros bs rs rs' pp pm pfx L; [reflexivity|].
  destruct bs as [|b bs]; [reflexivity|].
  destruct rs as [|r rs], rs' as [|r' rs']; try discriminate; [reflexivity|].
  rewrite !skip_pass_cons. unfold mcell_of.
  rewrite (IH bs rs rs') by (cbn [length] in L; lia). reflexivity.
Qed.

Lemma main_pass_first nc nnc : forall hs bs rs rs' pp pm pfx, length rs = length rs' ->
  (length rs < length hs)%nat -> length bs = length hs ->
  main_pass true nc nnc hs bs rs pp pm pfx = main_pass true nc nnc hs bs rs' pp pm pfx.
Proof.
  induction hs as [|c0 hs IH]; intros bs rs rs' pp pm pfx L L1 L2; [cbn [length] in L1; lia|].
  destruct rs as [|r rs], rs' as [|r' rs']; try discriminate.
  { rewrite !main_pass_nil_rs. reflexivity. }
  destruct hs as [|c1 hs']; [cbn [length] in L1; lia|].
  destruct bs as [|b0 [|b1 bs']]; try discriminate.
  rewrite !main_pass_cons. unfold mcell_of.
  rewrite (IH (b1 :: bs') rs rs') by (cbn [length] in *; lia). reflexivity.
Qed.

Lemma drop_take_len {A} n (l1 l2 t : list A) : length l1 = length l2 ->
  dropN n (takeN n l1 ++ t) = dropN n (takeN n l2 ++ t).
Proof.
  intros L. unfold dropN, takeN. rewrite !skipn_app, !firstn_length, L.
  rewrite (skipn_all2 (firstn (N.to_nat n) l1)) by (rewrite firstn_length; lia).
  rewrite (skipn_all2 (firstn (N.to_nat n) l2)) by (rewrite firstn_length; lia). reflexivity.
Qed.

(* score_row on two rows of the same length that agree from relative_row_off on *)
Lemma score_row_hist (first : bool) (r1 r2 : list cell) (hw bs : list N) off noff idx nc nnc pfx :
  length r1 = length r2 ->
  (if first then ((length r1 < length hw)%nat /\ (N.to_nat (noff - 1) < length hw)%nat) /\ length bs = length hw /\ off = 0 /\ idx = 0
   else dropN (off - idx) r1 = dropN (off - idx) r2) ->
  match score_row first r1 hw bs off noff idx nc nnc pfx, score_row first r2 hw bs off noff idx nc nnc pfx with
  | None, None => True
  | Some (n1, c1), Some (n2, c2) =>
      c1 = c2 /\ length n1 = length n2 /\ dropN (noff - 1 - idx) n1 = dropN (noff - 1 - idx) n2
  | _, _ => False
  end.
Proof.
  intros L H. unfold score_row.
  destruct ((noff =? 0) || (off <? idx) || (noff - 1 <? idx) || (noff - 1 <? off)) eqn:G; [exact I|].
  assert (G1 : off - idx <= noff - 1 - idx) by lia.
  assert (E1 : forall r : list cell, sliceN (off - idx) (noff - 1 - idx) r = takeN (noff - 1 - idx - (off - idx)) (dropN (off - idx) r))
    by reflexivity.
  assert (E2 : forall r : list cell, dropN (noff - 1 - idx) r = dropN (noff - 1 - idx - (off - idx)) (dropN (off - idx) r)).
  { intros r. rewrite dropN_dropN. f_equal. lia. }
  destruct first.
  - destruct H as ((H1 & H1') & H2 & -> & ->).
    rewrite (skip_pass_first nc _ _ (sliceN (0 - 0) (noff - 1 - 0) r1) (sliceN (0 - 0) (noff - 1 - 0) r2)).
    2:{ unfold sliceN, takeN, dropN. rewrite !firstn_length, !skipn_length. lia. }
    destruct (skip_pass _ _ _ _ _ _ _ _) as [[[pp pm] pfx'] cells1].
    rewrite (main_pass_first nc nnc _ _ (dropN (noff - 1 - 0) r1) (dropN (noff - 1 - 0) r2)).
    2:{ unfold dropN. rewrite !skipn_length. lia. }
    2:{ unfold dropN. rewrite !skipn_length. lia. }
    2:{ unfold dropN. rewrite !skipn_length. lia. }
    destruct (main_pass _ _ _ _ _ _ _ _ _) as [tail' cells2].
    split; [reflexivity|]. split.
    + unfold takeN. rewrite !app_length, !firstn_length. lia.
    + apply drop_take_len. exact L.
  - rewrite !E1, (E2 r1), (E2 r2), H.
    destruct (skip_pass _ _ _ _ _ _ _ _) as [[[pp pm] pfx'] cells1].
    destruct (main_pass _ _ _ _ _ _ _ _ _) as [tail' cells2].
    split; [reflexivity|]. split.
    + unfold takeN. rewrite !app_length, !firstn_length. lia.
    + apply drop_take_len. exact L.
Qed.

Lemma populate_cons row hw bs idx nc nnc n' off noff ro' :
  populate row hw bs idx (nc :: nnc :: n') (off :: noff :: ro') =
  match score_row false row hw bs off noff idx nc nnc 0 with
  | None => None
  | Some (row', cells) =>
    match populate row' hw bs (idx + 1) (nnc :: n') (noff :: ro') with
    | None => None
    | Some (rowf, rest) => Some (rowf, cells :: rest)
    end
  end.
Proof. reflexivity. Qed.

Lemma populate_hist hw bs : forall n ro idx r1 r2,
  length r1 = length r2 -> length n = length ro ->
  dropN (hd 0 ro - idx) r1 = dropN (hd 0 ro - idx) r2 ->
  match populate r1 hw bs idx n ro, populate r2 hw bs idx n ro with
  | None, None => True
  | Some (f1, c1), Some (f2, c2) =>
      c1 = c2 /\ length f1 = length f2 /\
      (dropN (last ro 0 - (idx + lenN ro - 1)) f1 = dropN (last ro 0 - (idx + lenN ro - 1)) f2)
  | _, _ => False
  end.
Proof.
  induction n as [|nc n IH]; intros ro idx r1 r2 L Ln H.
  { destruct ro; [|discriminate]. cbn [populate]. repeat split; [exact L|]. cbn [last lenN length].
    unfold dropN. cbn [N.to_nat]. cbn in H. exact H. }
  destruct ro as [|off ro]; [discriminate|].
  destruct n as [|nnc n'].
  { destruct ro; [|discriminate]. cbn [populate]. repeat split; [exact L|].
    cbn [last hd] in *. rewrite lenN_cons', lenN_nil. replace (idx + (0 + 1) - 1) with idx by lia. exact H. }
  destruct ro as [|noff ro']; [discriminate|].
  rewrite !populate_cons. cbn [hd] in H.
  pose proof (score_row_hist false r1 r2 hw bs off noff idx nc nnc 0 L H) as S.
  destruct (score_row false r1 hw bs off noff idx nc nnc 0) as [[n1 c1]|],
           (score_row false r2 hw bs off noff idx nc nnc 0) as [[n2 c2]|]; try contradiction; [|exact I].
  destruct S as (-> & L' & D).
  specialize (IH (noff :: ro') (idx + 1) n1 n2 L' ltac:(cbn [length] in *; lia)).
  cbn [hd] in IH. replace (noff - (idx + 1)) with (noff - 1 - idx) in IH by lia. specialize (IH D).
  destruct (populate n1 hw bs (idx + 1) (nnc :: n') (noff :: ro')) as [[f1 cc1]|],
           (populate n2 hw bs (idx + 1) (nnc :: n') (noff :: ro')) as [[f2 cc2]|]; try contradiction; [|exact I].
  destruct IH as (-> & L'' & D'). split; [reflexivity|]. split; [exact L''|].
  change (last (off :: noff :: ro') 0) with (last (noff :: ro') 0).
  rewrite (lenN_cons' off). replace (idx + (lenN (noff :: ro') + 1) - 1) with (idx + 1 + lenN (noff :: ro') - 1) by lia.
  exact D'.
Qed.

(* ---- setup_loop: window, bonuses, greedy row offsets ---------------------------------------------- *)
(* ro embeds the needle into hw (positions are absolute, the head of hw has index i) *)
Fixpoint embP (i lo : N) (needle ro hw : list N) : Prop :=
  match needle, ro with
  | [], [] => True
  | x :: n', o :: r' =>
    lo <= o /\ i <= o /\ o - i < lenN hw /\ nthN hw (o - i) 0 = x /\ embP i (o + 1) n' r' hw
  | _, _ => False
  end.

Lemma embP_lo i lo lo' needle ro hw : lo' <= lo -> embP i lo needle ro hw -> embP i lo' needle ro hw.
Proof.
  intros Hle. destruct needle as [|x n'], ro as [|o r']; cbn [embP]; try (intros; assumption).
  intros (H1 & H2 & H3 & H4 & H5). repeat split; try assumption. lia.
Qed.

Lemma embP_shift c hw : forall needle ro i lo, i + 1 <= lo ->
  embP (i + 1) lo needle ro hw -> embP i lo needle ro (c :: hw).
Proof.
  induction needle as [|x n' IH]; intros ro i lo Hlo H; destruct ro as [|o r']; cbn [embP] in *; try assumption.
  destruct H as (H1 & H2 & H3 & H4 & H5). split; [exact H1|]. split; [lia|].
  split; [rewrite lenN_cons'; lia|]. split.
  - unfold nthN in *. replace (N.to_nat (o - i)) with (S (N.to_nat (o - (i + 1)))) by lia. exact H4.
  - apply IH; [lia|exact H5].
Qed.

Lemma embP_cons_intro i lo x n' o r' hw :
  lo <= o -> i <= o -> o - i < lenN hw -> nthN hw (o - i) 0 = x -> embP i (o + 1) n' r' hw ->
  embP i lo (x :: n') (o :: r') hw.
Proof. intros. cbn [embP]. auto. Qed.

Lemma nthN_0 {A} (x : A) l d : nthN (x :: l) 0 d = x.
Proof. reflexivity. Qed.

Lemma setup_loop_spec cfg hr : forall hs i prev nc nrest matched hw bs ro m,
  setup_loop cfg hr hs i prev nc nrest matched = (hw, bs, ro, m) ->
  hw = map (norm cfg hr) hs /\ length bs = length hs /\
  (matched = true -> nrest = [] -> ro = [] /\ m = true) /\
  (matched = false -> m = true -> embP i i (nc :: nrest) ro hw) /\
  (matched = false -> forall c0 hs', hs = c0 :: hs' -> norm cfg hr c0 = nc -> hd 0 ro = i).
Proof.
  induction hs as [|c0 hs IH]; intros i prev nc nrest matched hw bs ro m H.
  - cbn [setup_loop] in H. injection H as <- <- <- <-. cbn [map length].
    repeat split; try reflexivity; try assumption.
    + intros -> Hm. discriminate.
    + intros _ c0 hs' E. discriminate.
  - cbn [setup_loop] in H. pose proof (class_norm_fst cfg hr c0) as F.
    destruct (class_norm cfg hr c0) as [c k]. cbn [fst] in F. subst c.
    destruct (N.eqb_spec (norm cfg hr c0) nc) as [Ec|Ec].
    + destruct nrest as [|x r].
      * destruct (setup_loop cfg hr hs (i + 1) k nc [] true) as [[[cs' bs'] ro'] m'] eqn:E.
        injection H as <- <- <- <-.
        destruct (IH _ _ _ _ _ _ _ _ _ E) as (I1 & I2 & I3 & I4 & I5).
        destruct (I3 eq_refl eq_refl) as [-> ->].
        cbn [map length]. split; [rewrite I1; reflexivity|]. split; [lia|].
        split; [intros -> _; auto|]. split.
        -- intros -> _. apply embP_cons_intro; rewrite ?lenN_cons', ?N.sub_diag, ?nthN_0; try lia.
           exact I.
        -- intros -> c1 hs' _ _. reflexivity.
      * destruct (setup_loop cfg hr hs (i + 1) k x r matched) as [[[cs' bs'] ro'] m'] eqn:E.
        injection H as <- <- <- <-.
        destruct (IH _ _ _ _ _ _ _ _ _ E) as (I1 & I2 & I3 & I4 & I5).
        cbn [map length]. split; [rewrite I1; reflexivity|]. split; [lia|].
        split; [intros _ X; discriminate|]. split.
        -- intros Hm Hm'. specialize (I4 Hm Hm').
           apply embP_cons_intro; rewrite ?lenN_cons', ?N.sub_diag, ?nthN_0; try lia.
           apply (embP_shift (norm cfg hr c0) cs' (x :: r) ro' i (i + 1)); [lia|exact I4].
        -- intros _ c1 hs' _ _. reflexivity.
    + destruct (setup_loop cfg hr hs (i + 1) k nc nrest matched) as [[[cs' bs'] ro'] m'] eqn:E.
      injection H as <- <- <- <-.
      destruct (IH _ _ _ _ _ _ _ _ _ E) as (I1 & I2 & I3 & I4 & I5).
      cbn [map length]. split; [rewrite I1; reflexivity|]. split; [lia|].
      split; [exact I3|]. split.
      * intros Hm Hm'. specialize (I4 Hm Hm').
        apply (embP_lo i (i + 1)); [lia|].
        apply (embP_shift (norm cfg hr c0) cs' (nc :: nrest) ro' i (i + 1)); [lia|exact I4].
      * intros Hm c1 hs' E1 E2. injection E1 as -> _. contradiction.
Qed.

Lemma embP_facts hw : forall needle ro lo, embP 0 lo needle ro hw ->
  length ro = length needle /\
  forall k, (k < length needle)%nat ->
    lo + N.of_nat k <= nth k ro 0 /\
    nth k ro 0 + N.of_nat (length needle - k) <= lenN hw /\
    nth (N.to_nat (nth k ro 0)) hw 0 = nth k needle 0 /\
    ((S k < length needle)%nat -> nth k ro 0 < nth (S k) ro 0).
Proof.
  induction needle as [|x n' IH]; intros ro lo H; destruct ro as [|o r']; cbn [embP] in H; try contradiction.
  - split; [reflexivity|]. intros k Hk. cbn [length] in Hk. lia.
  - destruct H as (H1 & _ & H3 & H4 & H5). rewrite N.sub_0_r in H3, H4.
    destruct (IH _ _ H5) as [L F]. split; [cbn [length]; lia|].
    intros k Hk. destruct k as [|k].
    + cbn [nth length]. split; [lia|]. split.
      * destruct n' as [|y n'']; [cbn [length]; lia|].
        destruct (F 0%nat ltac:(cbn [length]; lia)) as (F1 & F2 & _). cbn [length] in *. lia.
      * split; [exact H4|]. intros Hk'. destruct (F 0%nat ltac:(cbn [length] in *; lia)) as (F1 & _). lia.
    + cbn [nth length] in *. destruct (F k ltac:(lia)) as (F1 & F2 & F3 & F4).
      split; [lia|]. split; [replace (S (length n') - S k)%nat with (length n' - k)%nat by lia; exact F2|].
      split; [exact F3|]. intros Hk'. apply F4. lia.
Qed.

(* ---- nth through the slicing operators -------------------------------------------------------------- *)
Lemma nth_skipn_plus {A} (d : A) : forall a l j, nth j (skipn a l) d = nth (a + j) l d.
Proof.
  induction a as [|a IH]; intros l j; [reflexivity|].
  destruct l as [|x l]; [destruct j; reflexivity|]. cbn [skipn Nat.add nth]. apply IH.
Qed.

Lemma nth_dropN {A} (d : A) a l j : nth j (dropN a l) d = nth (N.to_nat a + j) l d.
Proof. unfold dropN. apply nth_skipn_plus. Qed.

Lemma nth_firstn_low {A} (d : A) : forall n l j, (j < n)%nat -> nth j (firstn n l) d = nth j l d.
Proof.
  induction n as [|n IH]; intros l j H; [lia|].
  destruct l as [|x l]; [reflexivity|]. destruct j as [|j]; [reflexivity|]. cbn [firstn nth]. apply IH. lia.
Qed.

Lemma nth_removelast {A} (d : A) l j : (S j < length l)%nat -> nth j (removelast l) d = nth j l d.
Proof. intros H. rewrite removelast_firstn_len. apply nth_firstn_low. lia. Qed.

Lemma length_removelast {A} (l : list A) : length (removelast l) = (length l - 1)%nat.
Proof. rewrite removelast_firstn_len, firstn_length. lia. Qed.

Lemma length_dropN {A} a (l : list A) : length (dropN a l) = (length l - N.to_nat a)%nat.
Proof. unfold dropN. apply skipn_length. Qed.

Lemma length_takeN {A} a (l : list A) : length (takeN a l) = Nat.min (N.to_nat a) (length l).
Proof. unfold takeN. apply firstn_length. Qed.

Lemma length_sliceN {A} a b (l : list A) : length (sliceN a b l) = Nat.min (N.to_nat (b - a)) (length l - N.to_nat a).
Proof. unfold sliceN. rewrite length_takeN, length_dropN. reflexivity. Qed.

Lemma slice_drop_split {A} a b (l : list A) : a <= b -> dropN a l = sliceN a b l ++ dropN b l.
Proof.
  intros H. unfold sliceN. rewrite <- (takeN_dropN (b - a) (dropN a l)) at 1. f_equal.
  rewrite dropN_dropN. f_equal. lia.
Qed.

Lemma dropN_nonnil {A} a (l : list A) : a < lenN l -> dropN a l <> [].
Proof.
  intros H E. apply (f_equal (@length A)) in E. rewrite length_dropN in E. unfold lenN in H. cbn [length] in E. lia.
Qed.
