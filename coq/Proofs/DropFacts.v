(* C11: drop accounting for the boxcar vector model (Model/Boxcar.v).
   One inductive invariant Inv over the states of well-formed histories, then the C11 statements. *)
From Coq Require Import ZArith NArith List Bool Lia ZifyBool ZifyN ZifyNat Arith Permutation.
From NV Require Import Model.Boxcar Spec.BoxcarStatements.
Import ListNotations.
Local Open Scope N_scope.

(* ---- lookup / update -------------------------------------------------------------------------------- *)
Lemma lookup_update {A} k k' (a : A) l :
  lookup k' (update k a l) = if k =? k' then Some a else lookup k' l.
Proof.
  induction l as [|[k0 a0] l IH]; cbn [update lookup].
  - reflexivity.
  - destruct (k0 =? k) eqn:E; cbn [lookup].
    + destruct (k =? k') eqn:E1; destruct (k0 =? k') eqn:E2; try reflexivity; lia.
    + rewrite IH. destruct (k =? k') eqn:E1; destruct (k0 =? k') eqn:E2; try reflexivity; lia.
Qed.

Lemma update_update {A} k (a b : A) l : update k b (update k a l) = update k b l.
Proof.
  induction l as [|[k0 a0] l IH]; cbn [update].
  - rewrite N.eqb_refl. reflexivity.
  - destruct (k0 =? k) eqn:E; cbn [update].
    + rewrite N.eqb_refl. reflexivity.
    + rewrite E, IH. reflexivity.
Qed.

Lemma lookup_In {A} k (a : A) l : lookup k l = Some a -> In (k, a) l.
Proof.
  induction l as [|[k0 a0] l IH]; cbn [lookup]; intros H; [discriminate|].
  destruct (k0 =? k) eqn:E.
  - injection H as ->. left. f_equal. lia.
  - right. auto.
Qed.

Lemma lookup_None_keys {A} k (l : list (N * A)) : lookup k l = None -> ~ In k (map fst l).
Proof.
  induction l as [|[k0 a0] l IH]; cbn [lookup map fst]; intros H; [intros []|].
  destruct (k0 =? k) eqn:E; [discriminate|].
  intros [H1|H1]; [lia|]. apply IH; assumption.
Qed.

Lemma In_lookup {A} k (a : A) l : NoDup (map fst l) -> In (k, a) l -> lookup k l = Some a.
Proof.
  induction l as [|[k0 a0] l IH]; cbn [lookup map fst]; intros ND H; [destruct H|].
  inversion ND as [|? ? Hn ND']; subst.
  destruct H as [H|H].
  - injection H as -> ->. rewrite N.eqb_refl. reflexivity.
  - destruct (k0 =? k) eqn:E.
    + exfalso. apply Hn. assert (k0 = k) by lia. subst. change k with (fst (k, a)). apply in_map. assumption.
    + auto.
Qed.

Lemma update_keys {A} k (a : A) l : NoDup (map fst l) -> NoDup (map fst (update k a l)).
Proof.
  induction l as [|[k0 a0] l IH]; cbn [update map fst]; intros ND.
  - constructor; [intros []|constructor].
  - inversion ND as [|? ? Hn ND']; subst.
    destruct (k0 =? k) eqn:E; cbn [map fst].
    + assert (k0 = k) by lia. subst. constructor; assumption.
    + constructor; [|auto].
      intros Hin. apply in_map_iff in Hin. destruct Hin as [[k1 a1] [E1 Hin]]. cbn [fst] in E1. subst k1.
      destruct (lookup k0 (update k a l)) eqn:L.
      * rewrite lookup_update in L.
        assert (E' : (k =? k0) = false) by lia. rewrite E' in L.
        apply lookup_In in L. apply Hn. change k0 with (fst (k0, a2)). apply in_map. assumption.
      * apply lookup_None_keys in L. apply L. change k0 with (fst (k0, a1)). apply in_map. assumption.
Qed.

(* ---- counting ----------------------------------------------------------------------------------------- *)
Definition cnt (l : list N) (x : N) : nat := count_occ N.eq_dec l x.
Lemma cnt_app l1 l2 x : cnt (l1 ++ l2) x = (cnt l1 x + cnt l2 x)%nat.
Proof. apply count_occ_app. Qed.
Lemma cnt_nil x : cnt [] x = 0%nat.
Proof. reflexivity. Qed.
Lemma cnt_cons a l x : cnt (a :: l) x = (cnt [a] x + cnt l x)%nat.
Proof. change (a :: l) with ([a] ++ l). apply cnt_app. Qed.
Lemma cnt_rev l x : cnt (rev l) x = cnt l x.
Proof. unfold cnt. apply count_occ_rev. Qed.

Section FM.
  Context {A : Type} (f : A -> list N).
  Definition fm (l : list (N * A)) : list N := flat_map (fun ka => f (snd ka)) l.
  Lemma cnt_fm_update k a l x :
    (cnt (fm (update k a l)) x + match lookup k l with Some a' => cnt (f a') x | None => 0 end
     = cnt (fm l) x + cnt (f a) x)%nat.
  Proof.
    induction l as [|[k0 a0] l IH]; cbn [update lookup].
    - unfold fm. cbn [flat_map snd]. rewrite app_nil_r. cbn. lia.
    - destruct (k0 =? k) eqn:E.
      + unfold fm. cbn [flat_map snd]. rewrite !cnt_app. lia.
      + unfold fm in *. cbn [flat_map snd]. rewrite !cnt_app. lia.
  Qed.
  Lemma cnt_fm_lookup k a l x : lookup k l = Some a -> (cnt (f a) x <= cnt (fm l) x)%nat.
  Proof.
    induction l as [|[k0 a0] l IH]; cbn [lookup]; intros H; [discriminate|].
    unfold fm in *. cbn [flat_map snd]. rewrite cnt_app.
    destruct (k0 =? k).
    - injection H as ->. lia.
    - specialize (IH H). lia.
  Qed.
End FM.

(* ---- the invariant ------------------------------------------------------------------------------------ *)
(* values still inside an operation (not yet written to an entry, not yet dropped) *)
Definition pending (p : pc) : list N :=
  match p with
  | PushStart v _ | PushReserved v _ _ | PushEagerCas v _ _ | PushOwnCas v _ _ => [v]
  | PushPublish _ _ => []
  | ExtStart _ vals _ | ExtReserved _ _ vals _ | ExtEagerCas _ _ vals _ | ExtBucketCas _ _ _ vals _ => vals
  | ExtPublish _ _ _ _ vals _ => vals
  | Done _ | TPanicked => []
  end.
(* the entry an operation has written but not yet published *)
Definition pub (p : pc) : option (N * N) :=
  match p with
  | PushPublish v idx => Some (idx, v)
  | ExtPublish st c k v _ _ => Some (st + k, v)
  | _ => None
  end.
Definition pendings (ths : list (N * pc)) : list N := fm pending ths.
Definition entvals (l : list (N * entry)) : list N := fm (fun e => [e_val e]) l.
Definition mk_entry (v : N) (a : bool) : entry := {| e_val := v; e_cols := cols_of v; e_active := a |}.

Record Inv (tids vals : list N) (s : vstate) : Prop := {
  I_keys : NoDup (map fst (ents s));
  I_ent : forall i e, lookup i (ents s) = Some e ->
            i < inflight s /\ e_cols e = cols_of (e_val e) /\ is_alloc s (l_bucket (location_of i)) = true;
  I_own_lt : forall t p i, lookup t (threads s) = Some p -> owns p i = true -> i < inflight s;
  I_disj : forall t1 p1 t2 p2 i, lookup t1 (threads s) = Some p1 -> lookup t2 (threads s) = Some p2 ->
            owns p1 i = true -> owns p2 i = true -> t1 = t2;
  I_pub : forall t p i v, lookup t (threads s) = Some p -> pub p = Some (i, v) ->
            owns p i = true /\ lookup i (ents s) = Some (mk_entry v false);
  I_owned : forall t p i e, lookup t (threads s) = Some p -> owns p i = true -> lookup i (ents s) = Some e ->
            exists v, pub p = Some (i, v);
  I_inactive : forall i e, lookup i (ents s) = Some e -> e_active e = false ->
            exists t p v, lookup t (threads s) = Some p /\ pub p = Some (i, v);
  I_tids : forall t p, lookup t (threads s) = Some p -> In t tids;
  I_cons : forall x, cnt vals x = (cnt (pendings (threads s)) x + cnt (entvals (ents s)) x + cnt (drops s) x)%nat
}.

Lemma is_alloc_ext s s' b : allocated s' = allocated s -> is_alloc s' b = is_alloc s b.
Proof. unfold is_alloc. intros ->. reflexivity. Qed.

Ltac upd H := rewrite lookup_update in H;
  match type of H with (if ?t =? ?t0 then _ else _) = _ =>
    let E := fresh "E" in destruct (t =? t0) eqn:E;
    [ assert (t0 = t) by lia; subst t0; injection H as <- | ] end.

(* thread t moves from p to p' without touching an entry: reservation (k > 0), plain retagging,
   and unwinding (the values vs are dropped) *)
Lemma L_retag tids vals s s' t p p' k vs :
  Inv tids vals s -> lookup t (threads s) = Some p ->
  inflight s' = inflight s + k -> allocated s' = allocated s -> ents s' = ents s ->
  threads s' = update t p' (threads s) ->
  (forall x, cnt (drops s') x = cnt vs x + cnt (drops s) x)%nat ->
  pub p = None -> pub p' = None ->
  (forall i, owns p' i = true -> owns p i = true \/ (inflight s <= i < inflight s + k)) ->
  (forall x, cnt (pending p) x = cnt (pending p') x + cnt vs x)%nat ->
  Inv tids vals s'.
Proof.
  intros [Ik Ie Iol Id Ip Io Ii It Ic] Hl Hinf Hal Hen Hth Hdr Hp Hp' Hown Hpend.
  constructor.
  - rewrite Hen. assumption.
  - intros i e H. rewrite Hen in H. rewrite (is_alloc_ext s s') by assumption.
    destruct (Ie i e H) as (H1 & H2 & H3). repeat split; try assumption. lia.
  - intros t0 p0 i H Ho. rewrite Hth in H. upd H.
    + destruct (Hown i Ho) as [H1|H1]; [specialize (Iol t p i Hl H1)|]; lia.
    + specialize (Iol t0 p0 i H Ho). lia.
  - intros t1 p1 t2 p2 i H1 H2 O1 O2. rewrite Hth in H1, H2. upd H1; upd H2.
    + reflexivity.
    + destruct (Hown i O1) as [H3|H3]; [apply (Id t p t2 p2 i); assumption|].
      specialize (Iol t2 p2 i H2 O2). lia.
    + destruct (Hown i O2) as [H3|H3]; [apply (Id t1 p1 t p i); assumption|].
      specialize (Iol t1 p1 i H1 O1). lia.
    + apply (Id t1 p1 t2 p2 i); assumption.
  - intros t0 p0 i v H Hpu. rewrite Hth in H. rewrite Hen. upd H.
    + congruence.
    + apply (Ip t0 p0 i v); assumption.
  - intros t0 p0 i e H Ho Hle. rewrite Hth in H. rewrite Hen in Hle. upd H.
    + destruct (Hown i Ho) as [H1|H1].
      * destruct (Io t p i e Hl H1 Hle) as [v Hv]. congruence.
      * destruct (Ie i e Hle) as (H2 & _). lia.
    + apply (Io t0 p0 i e); assumption.
  - intros i e Hle Ha. rewrite Hen in Hle. destruct (Ii i e Hle Ha) as (t0 & p0 & v & H1 & H2).
    exists t0, p0, v. split; [|assumption]. rewrite Hth, lookup_update.
    destruct (t =? t0) eqn:E; [|assumption]. assert (t0 = t) by lia. subst. congruence.
  - intros t0 p0 H. rewrite Hth in H. upd H.
    + apply (It t p Hl).
    + apply (It t0 p0 H).
  - intros x. rewrite Hth, Hen, Hdr, Ic. unfold pendings.
    pose proof (cnt_fm_update pending t p' (threads s) x) as H. rewrite Hl in H.
    specialize (Hpend x). lia.
Qed.

(* thread t writes the (inactive) entry i it owns *)
Lemma L_write tids vals s s' t p p' i v :
  Inv tids vals s -> lookup t (threads s) = Some p ->
  inflight s' = inflight s -> allocated s' = allocated s ->
  ents s' = update i (mk_entry v false) (ents s) ->
  threads s' = update t p' (threads s) -> drops s' = drops s ->
  pub p = None -> owns p i = true -> is_alloc s (l_bucket (location_of i)) = true ->
  pub p' = Some (i, v) -> (forall j, owns p' j = true -> owns p j = true) -> owns p' i = true ->
  (forall x, cnt (pending p) x = cnt (pending p') x + cnt [v] x)%nat ->
  Inv tids vals s'.
Proof.
  intros [Ik Ie Iol Id Ip Io Ii It Ic] Hl Hinf Hal Hen Hth Hdr Hp Hoi Hai Hp' Hown Hoi' Hpend.
  assert (Hnone : lookup i (ents s) = None).
  { destruct (lookup i (ents s)) eqn:L; [|reflexivity].
    destruct (Io t p i e Hl Hoi L) as [v0 Hv0]. congruence. }
  constructor.
  - rewrite Hen. apply update_keys. assumption.
  - intros j e H. rewrite Hen in H. rewrite (is_alloc_ext s s') by assumption. rewrite Hinf. upd H.
    + cbn [mk_entry e_cols e_val]. repeat split; [|assumption]. apply (Iol t p i Hl Hoi).
    + apply Ie. assumption.
  - intros t0 p0 j H Ho. rewrite Hth in H. rewrite Hinf. upd H.
    + apply (Iol t p j Hl). auto.
    + apply (Iol t0 p0 j H Ho).
  - intros t1 p1 t2 p2 j H1 H2 O1 O2. rewrite Hth in H1, H2. upd H1; upd H2.
    + reflexivity.
    + apply (Id t p t2 p2 j); auto.
    + apply (Id t1 p1 t p j); auto.
    + apply (Id t1 p1 t2 p2 j); assumption.
  - intros t0 p0 j w H Hpu. rewrite Hth in H. rewrite Hen. upd H.
    + rewrite Hp' in Hpu. injection Hpu as <- <-. split; [assumption|].
      rewrite lookup_update, N.eqb_refl. reflexivity.
    + destruct (Ip t0 p0 j w H Hpu) as [H1 H2]. split; [assumption|].
      rewrite lookup_update. destruct (i =? j) eqn:E1; [|assumption].
      assert (j = i) by lia. subst j. specialize (Id t p t0 p0 i Hl H Hoi H1). lia.
  - intros t0 p0 j e H Ho Hle. rewrite Hth in H. rewrite Hen in Hle. upd H.
    + upd Hle.
      * exists v. assumption.
      * destruct (Io t p j e Hl (Hown j Ho) Hle) as [w Hw]. congruence.
    + upd Hle.
      * specialize (Id t p t0 p0 i Hl H Hoi Ho). lia.
      * apply (Io t0 p0 j e); assumption.
  - intros j e Hle Ha. rewrite Hen in Hle. rewrite Hth. upd Hle.
    + exists t, p', v. split; [|assumption]. rewrite lookup_update, N.eqb_refl. reflexivity.
    + destruct (Ii j e Hle Ha) as (t0 & p0 & w & H1 & H2).
      exists t0, p0, w. split; [|assumption]. rewrite lookup_update.
      destruct (t =? t0) eqn:E1; [|assumption]. assert (t0 = t) by lia. subst. congruence.
  - intros t0 p0 H. rewrite Hth in H. upd H.
    + apply (It t p Hl).
    + apply (It t0 p0 H).
  - intros x. rewrite Hth, Hen, Hdr, Ic. unfold pendings, entvals.
    pose proof (cnt_fm_update pending t p' (threads s) x) as H. rewrite Hl in H.
    pose proof (cnt_fm_update (fun e => [e_val e]) i (mk_entry v false) (ents s) x) as H'. rewrite Hnone in H'.
    cbn [mk_entry e_val] in H'.
    specialize (Hpend x). lia.
Qed.

(* thread t publishes the entry it has written *)
Lemma L_publish tids vals s s' t p p' i v :
  Inv tids vals s -> lookup t (threads s) = Some p ->
  inflight s' = inflight s -> allocated s' = allocated s ->
  ents s' = update i (mk_entry v true) (ents s) ->
  threads s' = update t p' (threads s) -> drops s' = drops s ->
  pub p = Some (i, v) -> pub p' = None ->
  (forall j, owns p' j = true -> owns p j = true /\ j <> i) ->
  (forall x, cnt (pending p) x = cnt (pending p') x)%nat ->
  Inv tids vals s'.
Proof.
  intros [Ik Ie Iol Id Ip Io Ii It Ic] Hl Hinf Hal Hen Hth Hdr Hp Hp' Hown Hpend.
  destruct (Ip t p i v Hl Hp) as [Hoi Hcur].
  constructor.
  - rewrite Hen. apply update_keys. assumption.
  - intros j e H. rewrite Hen in H. rewrite (is_alloc_ext s s') by assumption. rewrite Hinf. upd H.
    + cbn [mk_entry e_cols e_val]. destruct (Ie i _ Hcur) as (H1 & H2 & H3). repeat split; assumption.
    + apply Ie. assumption.
  - intros t0 p0 j H Ho. rewrite Hth in H. rewrite Hinf. upd H.
    + apply (Iol t p j Hl). apply Hown. assumption.
    + apply (Iol t0 p0 j H Ho).
  - intros t1 p1 t2 p2 j H1 H2 O1 O2. rewrite Hth in H1, H2. upd H1; upd H2.
    + reflexivity.
    + apply (Id t p t2 p2 j); auto. apply Hown. assumption.
    + apply (Id t1 p1 t p j); auto. apply Hown. assumption.
    + apply (Id t1 p1 t2 p2 j); assumption.
  - intros t0 p0 j w H Hpu. rewrite Hth in H. rewrite Hen. upd H.
    + congruence.
    + destruct (Ip t0 p0 j w H Hpu) as [H1 H2]. split; [assumption|].
      rewrite lookup_update. destruct (i =? j) eqn:E1; [|assumption].
      assert (j = i) by lia. subst j. specialize (Id t p t0 p0 i Hl H Hoi H1). lia.
  - intros t0 p0 j e H Ho Hle. rewrite Hth in H. rewrite Hen in Hle. upd H.
    + destruct (Hown j Ho) as [H1 H2]. upd Hle; [congruence|].
      destruct (Io t p j e Hl H1 Hle) as [w Hw]. congruence.
    + upd Hle.
      * specialize (Id t p t0 p0 i Hl H Hoi Ho). lia.
      * apply (Io t0 p0 j e); assumption.
  - intros j e Hle Ha. rewrite Hen in Hle. rewrite Hth. upd Hle.
    + cbn [mk_entry e_active] in Ha. discriminate.
    + destruct (Ii j e Hle Ha) as (t0 & p0 & w & H1 & H2).
      exists t0, p0, w. split; [|assumption]. rewrite lookup_update.
      destruct (t =? t0) eqn:E1; [|assumption]. assert (t0 = t) by lia. subst.
      rewrite Hl in H1. injection H1 as <-. rewrite Hp in H2. injection H2 as -> ->. lia.
  - intros t0 p0 H. rewrite Hth in H. upd H.
    + apply (It t p Hl).
    + apply (It t0 p0 H).
  - intros x. rewrite Hth, Hen, Hdr, Ic. unfold pendings, entvals.
    pose proof (cnt_fm_update pending t p' (threads s) x) as H. rewrite Hl in H.
    pose proof (cnt_fm_update (fun e => [e_val e]) i (mk_entry v true) (ents s) x) as H'. rewrite Hcur in H'.
    cbn [mk_entry e_val] in H'.
    specialize (Hpend x). lia.
Qed.

Lemma is_alloc_set_alloc s b x : is_alloc (set_alloc s b) x = (x =? b) || is_alloc s x.
Proof.
  unfold set_alloc. destruct (is_alloc s b) eqn:E.
  - destruct (x =? b) eqn:E1; [|reflexivity]. assert (x = b) by lia. subst. rewrite E. reflexivity.
  - reflexivity.
Qed.
Lemma set_alloc_fields s b :
  inflight (set_alloc s b) = inflight s /\ ents (set_alloc s b) = ents s /\
  threads (set_alloc s b) = threads s /\ drops (set_alloc s b) = drops s.
Proof. unfold set_alloc. destruct (is_alloc s b); repeat split. Qed.

Lemma L_alloc tids vals s b : Inv tids vals s -> Inv tids vals (set_alloc s b).
Proof.
  intros [Ik Ie Iol Id Ip Io Ii It Ic].
  destruct (set_alloc_fields s b) as (F1 & F2 & F3 & F4).
  constructor; rewrite ?F1, ?F2, ?F3, ?F4; try assumption.
  intros i e H. destruct (Ie i e H) as (H1 & H2 & H3). repeat split; try assumption.
  rewrite is_alloc_set_alloc, H3. apply orb_true_r.
Qed.

Lemma L_spawn tids vals s t p :
  Inv tids vals s -> ~ In t tids -> is_start p = true ->
  Inv (tids ++ [t]) (vals ++ spawn_values p) (set_thread s t p).
Proof.
  intros [Ik Ie Iol Id Ip Io Ii It Ic] Hfresh Hst.
  assert (Hl : lookup t (threads s) = None).
  { destruct (lookup t (threads s)) eqn:L; [|reflexivity]. exfalso. apply Hfresh. apply (It t p0 L). }
  assert (Hown : forall i, owns p i = false) by (destruct p; try discriminate; reflexivity).
  assert (Hpub : pub p = None) by (destruct p; try discriminate; reflexivity).
  assert (Hpend : pending p = spawn_values p) by (destruct p; try discriminate; reflexivity).
  constructor; cbn [set_thread ents inflight threads drops allocated].
  - assumption.
  - intros i e H. apply (Ie i e H).
  - intros t0 p0 i H Ho. upd H.
    + rewrite Hown in Ho. discriminate.
    + apply (Iol t0 p0 i H Ho).
  - intros t1 p1 t2 p2 i H1 H2 O1 O2. upd H1; upd H2; try (rewrite Hown in *; discriminate).
    apply (Id t1 p1 t2 p2 i); assumption.
  - intros t0 p0 i v H Hpu. upd H; [congruence|]. apply (Ip t0 p0 i v); assumption.
  - intros t0 p0 i e H Ho Hle. upd H; [rewrite Hown in Ho; discriminate|]. apply (Io t0 p0 i e); assumption.
  - intros i e Hle Ha. destruct (Ii i e Hle Ha) as (t0 & p0 & v & H1 & H2).
    exists t0, p0, v. split; [|assumption]. rewrite lookup_update.
    destruct (t =? t0) eqn:E; [|assumption]. assert (t0 = t) by lia. subst. congruence.
  - intros t0 p0 H. apply in_or_app. upd H.
    + right. left. reflexivity.
    + left. apply (It t0 p0 H).
  - intros x. rewrite cnt_app, Ic. unfold pendings.
    pose proof (cnt_fm_update pending t p (threads s) x) as H. rewrite Hl in H. rewrite <- Hpend. lia.
Qed.

(* ---- add_drops ---------------------------------------------------------------------------------------- *)
Lemma add_drops_fields vs : forall s,
  inflight (add_drops s vs) = inflight s /\ allocated (add_drops s vs) = allocated s /\
  ents (add_drops s vs) = ents s /\ threads (add_drops s vs) = threads s /\
  drops (add_drops s vs) = rev vs ++ drops s.
Proof.
  unfold add_drops. induction vs as [|v vs IH]; intros s; cbn [fold_left rev].
  - repeat split.
  - destruct (IH (add_drop s v)) as (H1 & H2 & H3 & H4 & H5). rewrite H1, H2, H3, H4, H5.
    cbn [add_drop inflight allocated ents threads drops]. rewrite <- app_assoc. repeat split.
Qed.
Lemma add_drops_cnt s vs x : (cnt (drops (add_drops s vs)) x = cnt vs x + cnt (drops s) x)%nat.
Proof. destruct (add_drops_fields vs s) as (_ & _ & _ & _ & H). rewrite H, cnt_app, cnt_rev. reflexivity. Qed.

(* ---- Location::of --------------------------------------------------------------------------------------- *)
Lemma bucket_lt i : index_ok i = true -> l_bucket (location_of i) < BUCKETS.
Proof.
  unfold index_ok, location_of, bits, MAX_ENTRIES, SKIP, SKIP_BUCKET, BUCKETS. cbn [l_bucket]. intros H.
  assert (H1 : N.log2 (i + 32) < 32).
  { apply N.log2_lt_pow2; [lia|]. change (2 ^ 32) with 4294967296. lia. }
  lia.
Qed.

(* an index that is not the first entry of its bucket lies in the bucket of its predecessor *)
Lemma bucket_pred j : j <> 0 -> l_entry (location_of j) <> 0 ->
  l_bucket (location_of (j - 1)) = l_bucket (location_of j).
Proof.
  unfold location_of, bits, bucket_len, SKIP, SKIP_BUCKET. cbn [l_bucket l_entry]. intros Hj He.
  assert (H5 : 5 <= N.log2 (j + 32)).
  { change 5 with (N.log2 32). apply N.log2_le_mono. lia. }
  replace (N.log2 (j + 32) + 1 - (5 + 1) + 5) with (N.log2 (j + 32)) in He by lia.
  rewrite N.shiftl_1_l in He.
  assert (Hne : j + 32 <> 2 ^ N.log2 (j + 32)).
  { intros Heq. apply He. rewrite <- Heq. apply N.lxor_nilpotent. }
  destruct (N.log2_spec (j + 32)) as [Hlo Hhi]; [lia|].
  assert (Hlog : N.log2 (j - 1 + 32) = N.log2 (j + 32)).
  { apply N.log2_unique; lia. }
  rewrite Hlog. reflexivity.
Qed.

(* ---- preservation by a thread step ------------------------------------------------------------------------ *)
Ltac fields := cbn [fst add_drop set_thread set_entry add_inflight inflight allocated ents threads drops].
Ltac cnt_tac := intros; cbn [pending]; rewrite ?cnt_nil;
  repeat match goal with |- context [cnt (?a :: ?l) _] =>
    lazymatch l with nil => fail | _ => rewrite (cnt_cons a l) end end; lia.

Lemma push_fill_inv tids vals s t v fp idx p :
  Inv tids vals s -> lookup t (threads s) = Some p ->
  pending p = [v] -> pub p = None -> owns p idx = true ->
  is_alloc s (l_bucket (location_of idx)) = true ->
  Inv tids vals (fst (push_fill s t v fp idx)).
Proof.
  intros HI Hl Hpe Hpu Ho Ha. unfold push_fill. destruct fp.
  - apply (L_retag tids vals s _ t p TPanicked 0 [v] HI Hl); fields; try reflexivity; try assumption.
    + lia.
    + intros x. rewrite (cnt_cons v (drops s)). reflexivity.
    + intros i H. discriminate.
    + rewrite Hpe. cnt_tac.
  - apply (L_write tids vals s _ t p (PushPublish v idx) idx v HI Hl); fields; try reflexivity; try assumption.
    + cbn [owns]. intros j H. assert (j = idx) by lia. subst. assumption.
    + cbn [owns]. lia.
    + rewrite Hpe. cnt_tac.
Qed.

Lemma push_after_eager_inv tids vals s t v fp idx p :
  Inv tids vals s -> lookup t (threads s) = Some p ->
  pending p = [v] -> pub p = None -> owns p idx = true ->
  Inv tids vals (fst (push_after_eager s t v fp idx)).
Proof.
  intros HI Hl Hpe Hpu Ho. unfold push_after_eager.
  destruct (is_alloc s (l_bucket (location_of idx))) eqn:Ha.
  - apply (push_fill_inv tids vals s t v fp idx p); assumption.
  - apply (L_retag tids vals s _ t p (PushOwnCas v fp idx) 0 [] HI Hl); fields; try reflexivity; try assumption.
    + lia.
    + cbn [owns]. intros j H. assert (j = idx) by lia. subst. left. assumption.
    + rewrite Hpe. cnt_tac.
Qed.

Lemma set_alloc_threads s b : threads (set_alloc s b) = threads s.
Proof. apply set_alloc_fields. Qed.

Lemma ext_item_inv tids vals s t st c i vs pa skip p :
  Inv tids vals s -> lookup t (threads s) = Some p ->
  pending p = vs -> pub p = None -> (forall j, st + i <= j < st + c -> owns p j = true) ->
  (skip = true -> is_alloc s (l_bucket (location_of (st + i))) = true) ->
  (skip = false -> i <> 0 -> is_alloc s (l_bucket (location_of (st + i - 1))) = true) ->
  Inv tids vals (fst (ext_item s t st c i vs pa skip)).
Proof.
  intros HI Hl Hpe Hpu Ho Hskip Hprev. unfold ext_item.
  assert (Hpanic : forall vs', pending p = vs' -> Inv tids vals (add_drops (set_thread s t TPanicked) vs')).
  { intros vs' Hpe'.
    destruct (add_drops_fields vs' (set_thread s t TPanicked)) as (F1 & F2 & F3 & F4 & F5).
    apply (L_retag tids vals s _ t p TPanicked 0 vs' HI Hl); rewrite ?F1, ?F2, ?F3, ?F4; fields;
      try reflexivity; try assumption.
    + lia.
    + intros x. apply (add_drops_cnt (set_thread s t TPanicked) vs' x).
    + intros j H. discriminate.
    + rewrite Hpe'. cnt_tac. }
  destruct vs as [|v vs'].
  - fields. apply (L_retag tids vals s _ t p (Done None) 0 [] HI Hl); fields; try reflexivity; try assumption.
    + lia.
    + intros j H. discriminate.
    + rewrite Hpe. cnt_tac.
  - destruct (c <=? i) eqn:Eci; [fields; apply Hpanic; assumption|].
    assert (Hwrite : is_alloc s (l_bucket (location_of (st + i))) = true ->
              Inv tids vals (set_thread (set_entry s (st + i) {| e_val := v; e_cols := cols_of v; e_active := false |})
                                          t (ExtPublish st c i v vs' pa))).
    { intros Ha.
      apply (L_write tids vals s _ t p (ExtPublish st c i v vs' pa) (st + i) v HI Hl); fields;
        try reflexivity; try assumption.
      + apply Ho. lia.
      + cbn [owns]. intros j H. apply Ho. lia.
      + cbn [owns]. lia.
      + rewrite Hpe. cnt_tac. }
    match goal with |- context [if ?b then _ else _] => destruct b eqn:Econd end.
    + fields.
      apply (L_retag tids vals s _ t p (ExtBucketCas st c i (v :: vs') pa) 0 [] HI Hl); fields;
        try reflexivity; try assumption.
      * lia.
      * cbn [owns]. intros j H. left. apply Ho. lia.
      * rewrite Hpe. cnt_tac.
    + assert (Ha : is_alloc s (l_bucket (location_of (st + i))) = true).
      { destruct skip; [auto|].
        destruct (is_alloc s (l_bucket (location_of (st + i)))) eqn:Ha; [reflexivity|].
        cbn [negb] in Econd. rewrite andb_true_l, andb_true_r in Econd.
        assert (Hi0 : i <> 0) by lia.
        assert (He0 : l_entry (location_of (st + i)) <> 0) by lia.
        rewrite <- (bucket_pred (st + i)) in Ha by (try assumption; lia).
        rewrite (Hprev eq_refl Hi0) in Ha. discriminate. }
      destruct pa as [k|]; [destruct (k =? i)|]; fields; auto.
Qed.

Lemma set_thread_twice s t a b : set_thread (set_thread s t a) t b = set_thread s t b.
Proof. unfold set_thread. cbn [inflight allocated ents threads drops col_drops alive]. rewrite update_update. reflexivity. Qed.

Lemma ext_item_set_thread s t q st c i vs pa skip :
  ext_item (set_thread s t q) t st c i vs pa skip = ext_item s t st c i vs pa skip.
Proof.
  unfold ext_item.
  change (is_alloc (set_thread s t q)) with (is_alloc s).
  change (set_entry (set_thread s t q) (st + i)) with (fun e => set_thread (set_entry s (st + i) e) t q).
  cbv beta. destruct vs as [|v vs']; [rewrite set_thread_twice; reflexivity|].
  destruct (c <=? i); [rewrite set_thread_twice; reflexivity|].
  match goal with |- context [if ?b then _ else _] => destruct b end; [rewrite set_thread_twice; reflexivity|].
  destruct pa as [k|]; [destruct (k =? i)|]; rewrite set_thread_twice; reflexivity.
Qed.

Ltac side := fields; first
  [ reflexivity | assumption | lia
  | (intros ? ?; discriminate)
  | (cbn [owns]; intros; first [lia | (left; assumption) | (right; lia) | (left; lia)])
  | (intros ?; rewrite (cnt_cons _ (drops _)); reflexivity)
  | (intros ?; exact (add_drops_cnt _ _ _))
  | cnt_tac
  | (rewrite lookup_update, N.eqb_refl; reflexivity)
  | (rewrite is_alloc_set_alloc, N.eqb_refl; reflexivity)
  | (rewrite set_alloc_threads; assumption)
  | (apply L_alloc; assumption)
  | discriminate
  | (intros; congruence) ].

Lemma step_inv tids vals s t : Inv tids vals s -> Inv tids vals (fst (step_thread s t)).
Proof.
  intros HI. unfold step_thread. destruct (lookup t (threads s)) as [p|] eqn:Hl; [|assumption].
  destruct p as [v fp|v fp idx|v fp idx|v fp idx|v idx|c vs pa|st c vs pa|st c vs pa|st c i vs pa|st c i v vs pa|r|].
  - (* PushStart *)
    destruct (negb (index_ok (inflight s))).
    + apply (L_retag tids vals s _ t _ TPanicked 1 [v] HI Hl); side.
    + apply (L_retag tids vals s _ t _ (PushReserved v fp (inflight s)) 1 [] HI Hl); side.
  - (* PushReserved *)
    match goal with |- context [if ?b then _ else _] => destruct b end.
    + apply (L_retag tids vals s _ t _ (PushEagerCas v fp idx) 0 [] HI Hl); side.
    + apply (push_after_eager_inv tids vals s t v fp idx _ HI Hl); side.
  - (* PushEagerCas *)
    apply (push_after_eager_inv tids vals _ t v fp idx (PushEagerCas v fp idx)); side.
  - (* PushOwnCas *)
    apply (push_fill_inv tids vals _ t v fp idx (PushOwnCas v fp idx)); side.
  - (* PushPublish *)
    apply (L_publish tids vals s _ t _ (Done (Some idx)) idx v HI Hl); side.
  - (* ExtStart *)
    destruct (c =? 0).
    + destruct vs as [|v vs'].
      * apply (L_retag tids vals s _ t _ (Done None) 0 [] HI Hl); side.
      * set (vs := v :: vs') in *.
        destruct (add_drops_fields vs (set_thread s t TPanicked)) as (F1 & F2 & F3 & F4 & F5).
        apply (L_retag tids vals s _ t _ TPanicked 0 vs HI Hl); fields; rewrite ?F1, ?F2, ?F3, ?F4; side.
    + apply (L_retag tids vals s _ t _ (ExtReserved (inflight s) c vs pa) c [] HI Hl); side.
  - (* ExtReserved *)
    match goal with |- context [if ?b then _ else _] => destruct b end.
    + apply (L_retag tids vals s _ t _ (ExtEagerCas st c vs pa) 0 [] HI Hl); side.
    + apply (ext_item_inv tids vals s t st c 0 vs pa false _ HI Hl); side.
  - (* ExtEagerCas *)
    apply (ext_item_inv tids vals _ t st c 0 vs pa false (ExtEagerCas st c vs pa)); side.
  - (* ExtBucketCas *)
    apply (ext_item_inv tids vals _ t st c i vs pa true (ExtBucketCas st c i vs pa)); side.
  - (* ExtPublish *)
    set (s0 := set_entry s (st + i) {| e_val := v; e_cols := cols_of v; e_active := true |}).
    rewrite <- (ext_item_set_thread s0 t (ExtBucketCas st c (i + 1) vs pa)).
    assert (HI1 : Inv tids vals (set_thread s0 t (ExtBucketCas st c (i + 1) vs pa))).
    { apply (L_publish tids vals s _ t _ (ExtBucketCas st c (i + 1) vs pa) (st + i) v HI Hl); side. }
    apply (ext_item_inv tids vals _ t st c (i + 1) vs pa false (ExtBucketCas st c (i + 1) vs pa) HI1); try solve [side].
    intros _ _. replace (st + (i + 1) - 1) with (st + i) by lia.
    destruct HI1 as [_ Ie _ _ _ _ _ _ _].
    apply (Ie (st + i) (mk_entry v true)). unfold s0. side.
  - assumption.
  - assumption.
Qed.

(* ---- histories ------------------------------------------------------------------------------------------------ *)
Lemma run_events_app s es1 es2 :
  fst (run_events s (es1 ++ es2)) = fst (run_events (fst (run_events s es1)) es2).
Proof.
  revert s. induction es1 as [|e es1 IH]; intros s; cbn [run_events app fst]; [reflexivity|].
  destruct (do_event s e) as [s1 o] eqn:E1.
  specialize (IH s1).
  destruct (run_events s1 (es1 ++ es2)) as [s2 os] eqn:E2.
  destruct (run_events s1 es1) as [s3 os3] eqn:E3.
  cbn [fst] in *. assumption.
Qed.
Lemma run_events_snoc s es e :
  fst (run_events s (es ++ [e])) = fst (do_event (fst (run_events s es)) e).
Proof.
  rewrite run_events_app. cbn [run_events]. destruct (do_event (fst (run_events s es)) e). reflexivity.
Qed.

Lemma spawned_tids_snoc es e :
  spawned_tids (es ++ [e]) = spawned_tids es ++ match e with Spawn t _ => [t] | _ => [] end.
Proof. unfold spawned_tids. rewrite flat_map_app. cbn [flat_map]. rewrite app_nil_r. reflexivity. Qed.
Lemma all_values_snoc es e : all_values (es ++ [e]) = all_values es ++ event_values e.
Proof. unfold all_values. rewrite flat_map_app. cbn [flat_map]. rewrite app_nil_r. reflexivity. Qed.

Lemma NoDup_app_l {A} (l l' : list A) : NoDup (l ++ l') -> NoDup l.
Proof.
  induction l as [|a l IH]; cbn [app]; intros H; [constructor|].
  inversion H as [|? ? Hn H']; subst. constructor; [|auto].
  intros Hin. apply Hn. apply in_or_app. left. assumption.
Qed.

Lemma wf_history_prefix es e : wf_history (es ++ [e]) -> wf_history es.
Proof.
  intros (H1 & H2 & H3 & H4). rewrite spawned_tids_snoc in H2. rewrite all_values_snoc in H3.
  repeat split.
  - intros t p H. apply (H1 t p). apply in_or_app. left. assumption.
  - apply NoDup_app_l in H2. assumption.
  - apply NoDup_app_l in H3. assumption.
  - intros e0 H. apply H4. apply in_or_app. left. assumption.
Qed.

Lemma init_inv cap : Inv [] [] (init_state cap).
Proof.
  unfold init_state. constructor; cbn [ents threads drops inflight lookup map].
  - constructor.
  - intros i e H. discriminate.
  - intros t p i H. discriminate.
  - intros t1 p1 t2 p2 i H. discriminate.
  - intros t p i v H. discriminate.
  - intros t p i e H. discriminate.
  - intros i e H. discriminate.
  - intros t p H. discriminate.
  - intros x. reflexivity.
Qed.

Lemma drop_vec_not_in_wf es : wf_history es -> ~ In DropVec es.
Proof. intros (_ & _ & _ & H) Hin. apply (H DropVec Hin). reflexivity. Qed.

Lemma run_inv cap es : wf_history es ->
  Inv (spawned_tids es) (all_values es) (fst (run_events (init_state cap) es)).
Proof.
  induction es as [|e es IH] using rev_ind; intros Hwf.
  - cbn. apply init_inv.
  - specialize (IH (wf_history_prefix es e Hwf)).
    rewrite run_events_snoc, spawned_tids_snoc, all_values_snoc.
    set (s := fst (run_events (init_state cap) es)) in *.
    destruct e as [t p|t|i| |st|]; cbn [do_event fst event_values]; rewrite ?app_nil_r; try assumption.
    + destruct Hwf as (H1 & H2 & _ & _).
      apply L_spawn; [assumption| |].
      * rewrite spawned_tids_snoc in H2. intros Hin.
        apply NoDup_remove_2 with (l' := []) in H2. rewrite app_nil_r in H2. contradiction.
      * apply (H1 t p). apply in_or_app. right. left. reflexivity.
    + apply step_inv. assumption.
    + exfalso. apply (drop_vec_not_in_wf _ Hwf). apply in_or_app. right. left. reflexivity.
Qed.

(* ---- the C11 statements ------------------------------------------------------------------------------------------ *)
Lemma cnt_single v : cnt [v] v = 1%nat.
Proof. unfold cnt. cbn [count_occ]. destruct (N.eq_dec v v); [reflexivity|contradiction]. Qed.

Lemma wf_cnt_le es x : wf_history es -> (cnt (all_values es) x <= 1)%nat.
Proof. intros (_ & _ & H & _). unfold cnt. apply (proj1 (NoDup_count_occ N.eq_dec (all_values es))). assumption. Qed.

Lemma C11_never_twice : C11_never_twice_stmt.
Proof.
  unfold C11_never_twice_stmt. intros s v (cap & es & Hwf & ->).
  pose proof (run_inv cap es Hwf) as HI. pose proof (I_cons _ _ _ HI v) as Hc.
  pose proof (wf_cnt_le es v Hwf). unfold cnt in *. lia.
Qed.

Lemma C11_not_early : C11_not_early_stmt.
Proof.
  unfold C11_not_early_stmt. intros s i v c (cap & es & Hwf & ->) Hget.
  pose proof (run_inv cap es Hwf) as HI. pose proof (I_cons _ _ _ HI v) as Hc.
  pose proof (wf_cnt_le es v Hwf) as Hle.
  set (s := fst (run_events (init_state cap) es)) in *.
  unfold get in Hget. destruct (is_alloc s (l_bucket (location_of i))); [|discriminate].
  destruct (lookup i (ents s)) as [e|] eqn:L; [|discriminate].
  destruct (e_active e); [|discriminate]. injection Hget as Hv _.
  pose proof (cnt_fm_lookup (fun e => [e_val e]) i e (ents s) v L) as H1. cbv beta in H1.
  rewrite Hv, cnt_single in H1. fold (entvals (ents s)) in H1.
  apply (count_occ_not_In N.eq_dec). unfold cnt in *. lia.
Qed.

Lemma visited_all alloc b bs : In b bs -> alloc b = true -> In b (visited_buckets false alloc bs).
Proof.
  induction bs as [|b0 bs IH]; cbn [visited_buckets]; intros Hin Ha; [destruct Hin|].
  destruct Hin as [->|Hin].
  - rewrite Ha. left. reflexivity.
  - destruct (alloc b0); [right|]; auto.
Qed.

Lemma in_buckets b : b < BUCKETS -> In b (map N.of_nat (seq 0 (N.to_nat BUCKETS))).
Proof.
  intros H. apply in_map_iff. exists (N.to_nat b). split; [lia|]. apply in_seq. lia.
Qed.

Lemma existsb_eqb_In b l : In b l -> existsb (N.eqb b) l = true.
Proof. intros H. apply existsb_exists. exists b. split; [assumption|apply N.eqb_refl]. Qed.

Lemma filter_all {A} (f : A -> bool) l : (forall a, In a l -> f a = true) -> filter f l = l.
Proof.
  induction l as [|a l IH]; cbn [filter]; intros H; [reflexivity|].
  rewrite (H a (or_introl eq_refl)). f_equal. apply IH. intros a0 H0. apply H. right. assumption.
Qed.

Lemma fm_nil {A} (f : A -> list N) l : (forall k a, In (k, a) l -> f a = []) -> fm f l = [].
Proof.
  induction l as [|[k a] l IH]; intros H; unfold fm in *; cbn [flat_map snd]; [reflexivity|].
  rewrite (H k a (or_introl eq_refl)). cbn [app]. apply IH. intros k0 a0 H0. apply (H k0 a0). right. assumption.
Qed.

Lemma entvals_map l : entvals l = map (fun ie : N * entry => e_val (snd ie)) l.
Proof. unfold entvals, fm. induction l as [|a l IH]; cbn [flat_map map app]; [reflexivity|]. rewrite IH. reflexivity. Qed.

Lemma C11_exactly_once : C11_exactly_once_stmt.
Proof.
  unfold C11_exactly_once_stmt. intros cap es s Hwf -> Hfin Hsmall Hstop. cbv zeta. intros v Hv.
  pose proof (run_inv cap es Hwf) as HI. pose proof (I_cons _ _ _ HI v) as Hc.
  pose proof (wf_cnt_le es v Hwf) as Hle.
  set (s := fst (run_events (init_state cap) es)) in *.
  assert (Hpend : pendings (threads s) = []).
  { apply fm_nil. intros t p Hin. specialize (Hfin t p Hin). destruct p; try discriminate; reflexivity. }
  rewrite Hpend, cnt_nil in Hc.
  assert (Hv1 : (1 <= cnt (all_values es) v)%nat).
  { unfold cnt. apply (count_occ_In N.eq_dec). assumption. }
  unfold drop_vec. rewrite Hstop. cbn [fst drops].
  rewrite filter_all.
  - rewrite <- entvals_map. change (count_occ N.eq_dec) with cnt. rewrite cnt_app. lia.
  - intros [i e] Hin. cbn [fst snd].
    pose proof (In_lookup i e (ents s) (I_keys _ _ _ HI) Hin) as L.
    destruct (I_ent _ _ _ HI i e L) as (Hlt & _ & Hal).
    apply andb_true_intro. split.
    + destruct (e_active e) eqn:Ea; [reflexivity|].
      destruct (I_inactive _ _ _ HI i e L Ea) as (t & p & w & Hl & Hp).
      specialize (Hfin t p (lookup_In _ _ _ Hl)). destruct p; discriminate.
    + apply existsb_eqb_In. apply visited_all; [|assumption].
      apply in_buckets. apply bucket_lt. unfold small in Hsmall. unfold index_ok. lia.
Qed.

(* witness for the `break` variant: an extend reserves 20000 indices but its iterator yields one item,
   so buckets 1..8 stay null; the next push lands in bucket 9, which a walk stopping at the first null
   bucket never reaches *)
Definition leak_history : list event :=
  [Spawn 1 (ExtStart 20000 [7] None); Step 1; Step 1; Step 1;
   Spawn 2 (PushStart 9 false); Step 2; Step 2; Step 2; Step 2].

Lemma C11_break_leaks : C11_break_leaks_stmt.
Proof.
  unfold C11_break_leaks_stmt. exists 0, leak_history, 9.
  split; [|split; [|split]].
  - unfold wf_history. repeat split.
    + intros t p H. cbn in H.
      repeat (destruct H as [H|H]; [try discriminate; injection H as <- <-; reflexivity|]). destruct H.
    + cbn. constructor; [intros [H|[]]; discriminate|]. constructor; [intros []|constructor].
    + cbn. constructor; [intros [H|[]]; discriminate|]. constructor; [intros []|constructor].
    + intros e H. cbn in H. repeat (destruct H as [H|H]; [subst e; discriminate|]). destruct H.
  - unfold all_finished. intros t p H. vm_compute in H.
    repeat (destruct H as [H|H]; [injection H as <- <-; reflexivity|]). destruct H.
  - vm_compute. right. left. reflexivity.
  - cbv zeta. exists 20000, {| e_val := 9; e_cols := cols_of 9; e_active := true |}.
    split; [|split; [|split]].
    + vm_compute. right. left. reflexivity.
    + reflexivity.
    + reflexivity.
    + vm_compute. reflexivity.
Qed.

Print Assumptions C11_never_twice.
Print Assumptions C11_not_early.
Print Assumptions C11_exactly_once.
Print Assumptions C11_break_leaks.
