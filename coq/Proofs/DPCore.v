(* The DP of fuzzy_optimal: row invariant tying every score cell to the fzf value of the path that
   reconstruct would back-track from it. *)
From Coq Require Import ZArith NArith List Bool Lia ZifyBool ZifyN ZifyNat.
From NV Require Import Base.Util Model.Chars Model.Matcher Spec.Matching Spec.Statements Proofs.CharsFacts.
Import ListNotations.
Local Open Scope N_scope.

(* ---- small helpers --------------------------------------------------------------------------------- *)
Lemma frev_rev {A} (l : list A) : frev l = rev l.
Proof. unfold frev. symmetry. apply rev_alt. Qed.

Lemma lenN_cons {A} (x : A) l : lenN (x :: l) = lenN l + 1.
Proof. unfold lenN. cbn [length]. lia. Qed.

Lemma lenN_app {A} (l1 l2 : list A) : lenN (l1 ++ l2) = lenN l1 + lenN l2.
Proof. unfold lenN. rewrite app_length. lia. Qed.

Lemma lenN_rev {A} (l : list A) : lenN (rev l) = lenN l.
Proof. unfold lenN. rewrite rev_length. reflexivity. Qed.

Lemma lenN_nil {A} : lenN (@nil A) = 0.
Proof. reflexivity. Qed.

Lemma cell_eqb_spec x : cell_eqb x UNMATCHED = true <-> x = UNMATCHED.
Proof.
  destruct x as [s c m]. unfold cell_eqb, UNMATCHED. cbn [sc cb mt]. split.
  - intros H. apply andb_prop in H. destruct H as [H H3]. apply andb_prop in H. destruct H as [H1 H2].
    apply N.eqb_eq in H1, H2. apply eqb_prop in H3. subst. reflexivity.
  - intros H. injection H as -> -> ->. reflexivity.
Qed.


Lemma lenN_dropN {A} (l : list A) k : lenN (dropN k l) = lenN l - k.
Proof. unfold lenN, dropN. rewrite skipn_length. lia. Qed.

Lemma lenN_takeN {A} (l : list A) k : lenN (takeN k l) = N.min k (lenN l).
Proof. unfold lenN, takeN. rewrite firstn_length. lia. Qed.

Lemma lenN_sliceN {A} (l : list A) a b : lenN (sliceN a b l) = N.min (b - a) (lenN l - a).
Proof. unfold sliceN. rewrite lenN_takeN, lenN_dropN. reflexivity. Qed.

Lemma dropN_cons {A} (l : list A) k d : k < lenN l -> dropN k l = nthN l k d :: dropN (k + 1) l.
Proof.
  intros Hk. unfold lenN in Hk. unfold dropN, nthN.
  replace (N.to_nat (k + 1)) with (S (N.to_nat k)) by lia.
  assert (Hj : (N.to_nat k < length l)%nat) by lia. clear Hk.
  revert l Hj. generalize (N.to_nat k) as j. clear k.
  induction j as [|j IH]; intros [|x l] Hj; cbn [length] in Hj; try lia; cbn [skipn nth].
  - reflexivity.
  - apply IH. lia.
Qed.

Lemma dropN_nil {A} (l : list A) k : lenN l <= k -> dropN k l = [].
Proof. unfold lenN, dropN. intros H. apply skipn_all2. lia. Qed.

Lemma skipn_skipn_add {A} : forall a j (l : list A), skipn j (skipn a l) = skipn (a + j) l.
Proof.
  induction a as [|a IH]; intros j l; [reflexivity|]. destruct l as [|x l]; [rewrite !skipn_nil; reflexivity|].
  cbn [skipn Nat.add]. apply IH.
Qed.

Lemma slice_drop_app {A} (l : list A) a b : a <= b -> sliceN a b l ++ dropN b l = dropN a l.
Proof.
  intros H. unfold sliceN, takeN, dropN.
  replace (N.to_nat b) with (N.to_nat a + N.to_nat (b - a))%nat by lia.
  rewrite <- skipn_skipn_add. apply firstn_skipn.
Qed.

Lemma nthN_cons_succ {A} (x : A) l k d : nthN (x :: l) (k + 1) d = nthN l k d.
Proof. unfold nthN. replace (N.to_nat (k + 1)) with (S (N.to_nat k)) by lia. reflexivity. Qed.

Lemma nthN_cons_0 {A} (x : A) l d : nthN (x :: l) 0 d = x.
Proof. reflexivity. Qed.

(* tagging a list with consecutive row numbers *)
Fixpoint tagN (k : N) (l : list N) : list (N * N) :=
  match l with [] => [] | x :: l' => (k, x) :: tagN (k + 1) l' end.

Lemma tagN_app k l1 l2 : tagN k (l1 ++ l2) = tagN k l1 ++ tagN (k + lenN l1) l2.
Proof.
  revert k; induction l1 as [|x l1 IH]; intros k; cbn [app tagN].
  - rewrite lenN_nil, N.add_0_r. reflexivity.
  - rewrite IH, lenN_cons. f_equal. f_equal. f_equal. lia.
Qed.

(* completed rows, most recent first, with their row number *)
Fixpoint trows (rs : list (N * list mcell)) : list (N * N * list mcell) :=
  match rs with [] => [] | (ro, cl) :: r => (lenN r, ro, cl) :: trows r end.

(* ---- unfolding reconstruct ------------------------------------------------------------------------- *)
Lemma rec_P f start ridx roff c rc' rows col acc :
  (col =? 0) = false ->
  reconstruct (S f) start ridx roff (c :: rc') rows col false acc
  = reconstruct f start ridx roff rc' rows (col - 1) (fst c) acc.
Proof. intros H. cbn [reconstruct mcell_get]. rewrite H. reflexivity. Qed.

Lemma rec_M_nil f start ridx roff c rc' col acc :
  reconstruct (S f) start ridx roff (c :: rc') [] col true acc = Some ((ridx, start + col + roff) :: acc).
Proof. reflexivity. Qed.

Lemma rec_M_cons f start ridx roff c rc' ridx' roff' rowc' rows' col acc :
  reconstruct (S f) start ridx roff (c :: rc') ((ridx', roff', rowc') :: rows') col true acc
  = if (roff <? roff') || (col + (roff - roff') =? 0) then None else
    if lenN rowc' <=? col + (roff - roff') - 1 then None else
    reconstruct f start ridx' roff' (frev (takeN (col + (roff - roff') - 1 + 1) rowc')) rows'
      (col + (roff - roff') - 1) (snd c) ((ridx, start + col + roff) :: acc).
Proof. reflexivity. Qed.

Lemma main_pass_cons first nc nnc c0 c1 hs'' b0 b1 bs'' r rs' pp pm pfx :
  main_pass first nc nnc (c0 :: c1 :: hs'') (b0 :: b1 :: bs'') (r :: rs') pp pm pfx =
  let '(p, pmatched) := p_score pp pm in
  let m_cell :=
    if first then
      if c0 =? nc then {| sc := b0 * BONUS_FIRST_CHAR_MULTIPLIER + SCORE_MATCH + pfx / PREFIX_BONUS_SCALE; cb := b0; mt := false |}
      else UNMATCHED
    else r in
  let pfx' := if first then pfx - PENALTY_GAP_EXTENSION else pfx in
  let r' := if c1 =? nnc then next_m_cell p b1 m_cell else UNMATCHED in
  let '(rs'', cells) := main_pass first nc nnc (c1 :: hs'') (b1 :: bs'') rs' p (sc m_cell) pfx' in
  (r' :: rs'', (pmatched, mt m_cell) :: cells).
Proof. reflexivity. Qed.

(* ---- the first row: its M cells are computed on the fly --------------------------------------------- *)
Definition first_cell (nc c b : N) : cell :=
  if c =? nc then {| sc := b * BONUS_FIRST_CHAR_MULTIPLIER + SCORE_MATCH + 0 / PREFIX_BONUS_SCALE; cb := b; mt := false |}
  else UNMATCHED.

Fixpoint frow (nc : N) (hs bsl : list N) (rl : list cell) : list cell :=
  match hs, bsl, rl with
  | c :: hs', b :: bs', _ :: rl' => first_cell nc c b :: frow nc hs' bs' rl'
  | _, _, _ => []
  end.

Lemma frow_len nc : forall hs bsl rl, lenN (frow nc hs bsl rl) = N.min (lenN hs) (N.min (lenN bsl) (lenN rl)).
Proof.
  induction hs as [|c hs IH]; intros [|b bsl] [|r rl]; cbn [frow]; try (unfold lenN; cbn [length]; lia).
  rewrite !lenN_cons, IH. lia.
Qed.

Lemma skip_first nc : forall hs bsl rl pp pm,
  skip_pass true nc hs bsl rl pp pm 0 = skip_pass false nc hs bsl (frow nc hs bsl rl) pp pm 0.
Proof.
  induction hs as [|c hs IH]; intros [|b bsl] [|r rl] pp pm; cbn [frow skip_pass]; try reflexivity.
  destruct (p_score pp pm) as [p pb]. change (0 - PENALTY_GAP_EXTENSION) with 0. rewrite IH. reflexivity.
Qed.

Lemma main_first nc nnc : forall rl hs bsl pp pm,
  lenN rl + 1 <= lenN hs -> lenN rl + 1 <= lenN bsl ->
  main_pass true nc nnc hs bsl rl pp pm 0 = main_pass false nc nnc hs bsl (frow nc hs bsl rl) pp pm 0.
Proof.
  induction rl as [|r rl IH]; intros hs bsl pp pm H1 H2.
  - destruct hs as [|? [|? ?]]; destruct bsl as [|? [|? ?]]; reflexivity.
  - destruct hs as [|c0 [|c1 hs]]; rewrite ?lenN_cons, ?lenN_nil in H1; try lia.
    destruct bsl as [|b0 [|b1 bsl]]; rewrite ?lenN_cons, ?lenN_nil in H2; try lia.
    change (frow nc (c0 :: c1 :: hs) (b0 :: b1 :: bsl) (r :: rl))
      with (first_cell nc c0 b0 :: frow nc (c1 :: hs) (b1 :: bsl) rl).
    rewrite !main_pass_cons. cbv beta iota zeta. change (0 - PENALTY_GAP_EXTENSION) with 0.
    destruct (p_score pp pm) as [p pb]. rewrite IH by (rewrite ?lenN_cons; lia). reflexivity.
Qed.

Lemma nthN_dropN {A} (l : list A) a k d : nthN (dropN a l) k d = nthN l (a + k) d.
Proof.
  unfold nthN, dropN. replace (N.to_nat (a + k)) with (N.to_nat a + N.to_nat k)%nat by lia.
  generalize (N.to_nat a) as j. intros j. revert l. induction j as [|j IH]; intros l; [reflexivity|].
  destruct l as [|x l]; [destruct (N.to_nat k); reflexivity|]. cbn [skipn Nat.add nth]. apply IH.
Qed.

Lemma nthN_takeN {A} (l : list A) t k d : k < t -> nthN (takeN t l) k d = nthN l k d.
Proof.
  unfold nthN, takeN. intros H. assert (Hj : (N.to_nat k < N.to_nat t)%nat) by lia. clear H.
  revert Hj. generalize (N.to_nat k) as j. generalize (N.to_nat t) as u. intros u. revert l.
  induction u as [|u IH]; intros l j Hj; [lia|]. destruct l as [|x l]; [reflexivity|].
  destruct j as [|j]; [reflexivity|]. cbn [firstn nth]. apply IH. lia.
Qed.

Lemma nthN_sliceN {A} (l : list A) a b k d : k < b - a -> nthN (sliceN a b l) k d = nthN l (a + k) d.
Proof. intros H. unfold sliceN. rewrite nthN_takeN by exact H. apply nthN_dropN. Qed.

Lemma dropN_app_exact {A} (l1 l2 : list A) k : lenN l1 = k -> dropN k (l1 ++ l2) = l2.
Proof.
  intros H. unfold dropN. replace (N.to_nat k) with (length l1) by (unfold lenN in H; lia).
  rewrite skipn_app, Nat.sub_diag, skipn_all. reflexivity.
Qed.

(* ---- argmax_last ------------------------------------------------------------------------------------ *)
Lemma argmax_spec : forall l i best k x, argmax_last l i best = Some (k, x) ->
  (forall y, In y l -> sc y <= sc x) /\ (forall j bc, best = Some (j, bc) -> sc bc <= sc x) /\
  (best = Some (k, x) \/ (i <= k /\ k - i < lenN l /\ nthN l (k - i) ZERO_CELL = x)).
Proof.
  induction l as [|c l IH]; intros i best k x H; cbn [argmax_last] in H.
  - subst best. split; [intros y []|]. split; [|left; reflexivity]. intros j bc E. injection E as <- <-. lia.
  - apply IH in H. destruct H as (Hall & Hbest & Hpos).
    assert (Hshift : i + 1 <= k /\ k - (i + 1) < lenN l /\ nthN l (k - (i + 1)) ZERO_CELL = x ->
                     i <= k /\ k - i < lenN (c :: l) /\ nthN (c :: l) (k - i) ZERO_CELL = x).
    { intros (H1 & H2 & H3). split; [lia|]. split; [rewrite lenN_cons; lia|].
      replace (k - i) with (k - (i + 1) + 1) by lia. rewrite nthN_cons_succ. exact H3. }
    destruct best as [[j bc]|].
    + destruct (N.ltb_spec (sc c) (sc bc)) as [Hlt|Hge].
      * pose proof (Hbest j bc eq_refl) as Hb. split; [intros y [<-|Hy]; [lia|exact (Hall y Hy)]|].
        split; [intros j' bc' E; injection E as <- <-; exact Hb|].
        destruct Hpos as [Hp|Hp]; [left; exact Hp|right; exact (Hshift Hp)].
      * pose proof (Hbest i c eq_refl) as Hb. split; [intros y [<-|Hy]; [lia|exact (Hall y Hy)]|].
        split; [intros j' bc' E; injection E as <- <-; lia|].
        right. destruct Hpos as [Hp|Hp]; [|exact (Hshift Hp)]. injection Hp as <- <-.
        split; [lia|]. split; [rewrite lenN_cons; lia|]. replace (i - i) with 0 by lia. reflexivity.
    + pose proof (Hbest i c eq_refl) as Hb. split; [intros y [<-|Hy]; [lia|exact (Hall y Hy)]|].
      split; [intros j' bc' E; discriminate|].
      right. destruct Hpos as [Hp|Hp]; [|exact (Hshift Hp)]. injection Hp as <- <-.
      split; [lia|]. split; [rewrite lenN_cons; lia|]. replace (i - i) with 0 by lia. reflexivity.
Qed.

Lemma argmax_some : forall l i b, argmax_last l i (Some b) <> None.
Proof.
  induction l as [|c l IH]; intros i [j bc]; cbn [argmax_last]; [discriminate|].
  destruct (sc c <? sc bc); apply IH.
Qed.

Lemma argmax_none l : argmax_last l 0 None = None -> l = [].
Proof. destruct l as [|c l]; [reflexivity|]. cbn [argmax_last]. intros H. exfalso. exact (argmax_some _ _ _ H). Qed.

(* ---- assemble --------------------------------------------------------------------------------------- *)
Lemma find_tag : forall l k r, k <= r -> r < k + lenN l ->
  find (fun p : N * N => fst p =? r) (tagN k l) = Some (r, nthN l (r - k) 0).
Proof.
  induction l as [|x l IH]; intros k r H1 H2; [rewrite lenN_nil in H2; lia|].
  rewrite lenN_cons in H2. cbn [tagN find fst]. destruct (N.eqb_spec k r) as [->|Hne].
  - replace (r - r) with 0 by lia. reflexivity.
  - rewrite IH by lia. replace (r - k) with (r - (k + 1) + 1) by lia. rewrite nthN_cons_succ. reflexivity.
Qed.

Lemma map_nthN_seq (l : list N) : map (fun r => nthN l r 0) (map N.of_nat (seq 0 (length l))) = l.
Proof.
  induction l as [|x l IH] using rev_ind; [reflexivity|].
  rewrite app_length. cbn [length]. rewrite Nat.add_1_r, seq_S, !map_app. cbn [map Nat.add]. f_equal.
  - rewrite <- IH at 2. rewrite !map_map. apply map_ext_in. intros a Ha. apply in_seq in Ha.
    unfold nthN. rewrite Nat2N.id. apply app_nth1. lia.
  - unfold nthN. rewrite Nat2N.id. rewrite app_nth2 by lia. rewrite Nat.sub_diag. reflexivity.
Qed.

Lemma assemble_tag l last : assemble (lenN l + 1) last (tagN 0 l) = l ++ [last].
Proof.
  unfold assemble. replace (N.to_nat (lenN l + 1)) with (S (length l)) by (unfold lenN; lia).
  rewrite seq_S, !map_app. cbn [map Nat.add]. f_equal.
  - etransitivity; [|apply map_nthN_seq]. rewrite !map_map. apply map_ext_in. intros a Ha. apply in_seq in Ha.
    replace (N.of_nat a =? lenN l + 1 - 1) with false by (unfold lenN; lia).
    rewrite find_tag by (unfold lenN; lia). cbn [snd]. rewrite N.sub_0_r. reflexivity.
  - replace (N.of_nat (length l) =? lenN l + 1 - 1) with true by (unfold lenN; lia). reflexivity.
Qed.

(* ---- zip3 / trows ----------------------------------------------------------------------------------- *)
Lemma zip3_app {A B C} : forall (a1 : list A) (b1 : list B) (c1 : list C) a2 b2 c2,
  length a1 = length b1 -> length b1 = length c1 ->
  zip3 (a1 ++ a2) (b1 ++ b2) (c1 ++ c2) = zip3 a1 b1 c1 ++ zip3 a2 b2 c2.
Proof.
  induction a1 as [|x a1 IH]; intros [|y b1] [|z c1] a2 b2 c2 H1 H2; try discriminate; [reflexivity|].
  cbn [app zip3]. rewrite IH by (cbn in *; lia). reflexivity.
Qed.

Lemma zip3_trows : forall (l : list (N * list mcell)),
  rev (zip3 (map N.of_nat (seq 0 (length l))) (map fst l) (map snd l)) = trows (rev l).
Proof.
  induction l as [|[ro cl] l IH] using rev_ind; [reflexivity|].
  rewrite app_length. cbn [length]. rewrite Nat.add_1_r, seq_S, !map_app. cbn [map Nat.add fst snd].
  rewrite zip3_app by (rewrite ?map_length, ?seq_length; reflexivity).
  cbn [zip3]. rewrite rev_app_distr. cbn [rev app]. rewrite rev_app_distr. cbn [rev app trows].
  rewrite IH. unfold lenN. rewrite rev_length. reflexivity.
Qed.

(* the part of fuzzy_optimal after the setup loop *)
Definition dp_tail (start n0 n1 : N) (nrest hw bs ro : list N) (W m : N) (row0 : list cell) (pfx : N) : outcome :=
  match score_row true row0 hw bs 0 (nthN ro 1 0) 0 n0 n1 pfx with
  | None => Panicked 3
  | Some (row1, cells0) =>
    match populate row1 hw bs 1 nrest (tl ro) with
    | None => Panicked 3
    | Some (rowf, cells_rest) =>
      let last_off := nthN ro (m - 1) 0 in
      if last_off + 1 <? m then Panicked 3 else
      let rel_last := last_off + 1 - m in
      match argmax_last (dropN rel_last rowf) 0 None with
      | None => Panicked 2
      | Some (match_end, best) =>
        let all_cells := cells0 :: cells_rest in
        let rows := frev (zip3 (map N.of_nat (seq 0 (N.to_nat (m - 1)))) (takeN (m - 1) ro) all_cells) in
        match rows with
        | [] => Panicked 2
        | (ridx, roff, rowc) :: rows' =>
          if last_off <=? roff then Panicked 3 else
          let col := match_end + (last_off - roff - 1) in
          if lenN rowc <=? col then Panicked 3 else
          match reconstruct (S (N.to_nat (W + m))) start ridx roff (frev (takeN (col + 1) rowc)) rows' col (mt best) [] with
          | None => Panicked 3
          | Some set => Match (sc best) (assemble m (start + match_end + last_off) set)
          end
        end
      end
    end
  end.

Lemma fuzzy_optimal_eq cfg hr nr h n0 n1 nr' start ge e init_row :
  fuzzy_optimal cfg hr nr h (n0 :: n1 :: nr') start ge e init_row =
  let n := n0 :: n1 :: nr' in
  let w := sliceN start e h in
  if negb (slab_alloc_ok hr (lenN w) (lenN n)) then fuzzy_greedy_ cfg hr nr h n start ge else
  let '(hw, bs, ro, matched) := setup_loop cfg hr w 0 (prev_class cfg hr h start) n0 (n1 :: nr') false in
  if negb matched then match hr, nr with Ascii, Ascii => Panicked 1 | _, _ => NoMatch end
  else dp_tail start n0 n1 (n1 :: nr') hw bs ro (lenN w) (lenN n)
         (takeN (lenN w + 1 - lenN n) (init_row ++ repeat ZERO_CELL (N.to_nat (lenN w + 1 - lenN n))))
         (prefix_bonus_dp cfg start).
Proof. reflexivity. Qed.

Lemma combine_fst_firstn {A B} : forall (a : list A) (b : list B), (length b <= length a)%nat ->
  map fst (combine a b) = firstn (length b) a.
Proof.
  induction a as [|x a IH]; intros [|y b] H; cbn [combine map length firstn fst] in *; try reflexivity; try lia.
  rewrite IH by lia. reflexivity.
Qed.

Lemma combine_snd {A B} : forall (a : list A) (b : list B), (length b <= length a)%nat ->
  map snd (combine a b) = b.
Proof.
  induction a as [|x a IH]; intros [|y b] H; cbn [combine map length snd] in *; try reflexivity; try lia.
  rewrite IH by lia. reflexivity.
Qed.

Lemma last_nthN (l : list N) : l <> [] -> last l 0 = nthN l (lenN l - 1) 0.
Proof.
  induction l as [|x l IH]; intros H; [congruence|]. destruct l as [|y l]; [reflexivity|].
  change (last (x :: y :: l) 0) with (last (y :: l) 0). rewrite IH by discriminate.
  rewrite (lenN_cons x). replace (lenN (y :: l) + 1 - 1) with (lenN (y :: l) - 1 + 1) by (rewrite lenN_cons; lia).
  rewrite nthN_cons_succ. reflexivity.
Qed.

(* ---- the setting ----------------------------------------------------------------------------------- *)
Section DP.
  Variable start : N.
  Variables hw bs n : list N.      (* normalised window, bonus per column, needle *)
  Let W := lenN hw.

  Definition bon (c : N) : N := nthN bs c 0.

  (* one step of fzf_rest, in window coordinates *)
  Definition fstep (st : N * N * N) (c : N) : N * N * N :=
    let '(prev, rf, score) := st in
    let b := bon c in
    if c =? prev + 1 then
      let rf' := if (8 <=? b) && (rf <? b) then b else rf in
      (c, rf', score + 16 + N.max (N.max b rf') 4)
    else (c, b, (score - (3 + (c - prev - 1 - 1))) + 16 + b).

  Definition pstate (p : list N) : N * N * N :=
    match p with
    | [] => (0, 0, 0)
    | c0 :: r => fold_left fstep r (c0, bon c0, 16 + 2 * bon c0)
    end.

  Lemma pstate_snoc p c : p <> [] -> pstate (p ++ [c]) = fstep (pstate p) c.
  Proof.
    destruct p as [|c0 r]; [congruence|]. intros _. cbn [app pstate]. rewrite fold_left_app. reflexivity.
  Qed.

  Lemma fstep_fst st c : fst (fst (fstep st c)) = c.
  Proof. destruct st as [[prev rf] score]. unfold fstep. destruct (c =? prev + 1); reflexivity. Qed.

  Lemma pstate_last p : p <> [] -> fst (fst (pstate p)) = last p 0.
  Proof.
    induction p as [|c r IH] using rev_ind; [congruence|]. intros _.
    rewrite last_last. destruct r as [|c0 r0].
    - reflexivity.
    - rewrite pstate_snoc by discriminate. apply fstep_fst.
  Qed.

  (* a valid partial embedding of the needle: columns strictly increasing, characters agree *)
  Inductive vpath : list N -> Prop :=
  | vp1 c : c < W -> nthN hw c 0 = nthN n 0 0 -> vpath [c]
  | vpS p c : vpath p -> last p 0 < c -> c < W -> nthN hw c 0 = nthN n (lenN p) 0 -> vpath (p ++ [c]).

  Lemma vpath_ne p : vpath p -> p <> [].
  Proof. intros H; inversion H; [discriminate|]. destruct p0; discriminate. Qed.

  (* reconstruct, started in the row under construction (row number lenN rs, offset roff, rc = its cells
     from column col down to its first column), returns the path p tagged with row numbers *)
  Definition RW (rs : list (N * list mcell)) (roff : N) (rc : list mcell) (col : N) (matched : bool)
             (p : list N) : Prop :=
    forall fuel acc, (N.to_nat (col + roff) < fuel)%nat ->
      reconstruct fuel start (lenN rs) roff rc (trows rs) col matched acc
      = Some (tagN 0 (map (N.add start) p) ++ acc).

  (* walk to absolute column c of the most recent completed row *)
  Definition WT (rs : list (N * list mcell)) (c : N) (b : bool) (p : list N) : Prop :=
    match rs with
    | [] => False
    | (ro, cl) :: rs' =>
      ro <= c /\ c - ro < lenN cl /\ RW rs' ro (frev (takeN (c - ro + 1) cl)) (c - ro) b p
    end.

  (* x is a genuine M cell for needle row lenN rs at column c *)
  Definition MV (rs : list (N * list mcell)) (c : N) (x : cell) : Prop :=
    exists p rf, vpath p /\ lenN p = lenN rs + 1 /\ pstate p = (c, rf, sc x) /\
      N.max (cb x) 4 = N.max rf 4 /\ 16 <= sc x /\
      match rs with
      | [] => p = [c]
      | _ => exists p', p = p' ++ [c] /\ 1 <= c /\ WT rs (c - 1) (mt x) p'
      end.

  (* v is a genuine P value at column c of the row under construction *)
  Definition PV (rs : list (N * list mcell)) (roff : N) (rc : list mcell) (c v : N) : Prop :=
    exists p j rf sco, vpath p /\ lenN p = lenN rs + 1 /\ pstate p = (j, rf, sco) /\
      roff <= j /\ j < c /\ v = sco - (c - j + 2) /\ RW rs roff rc (c - roff) false p.

  (* loop state before column c: pp, pm are P and M of column c - 1, rc the cells of columns roff .. c-1 *)
  Definition LS (rs : list (N * list mcell)) (roff c pp pm : N) (rc : list mcell) : Prop :=
    (c = roff /\ pp = 0 /\ pm = 0 /\ rc = []) \/
    (roff < c /\ lenN rc = c - roff /\
     (pm = 0 \/ exists p rf, vpath p /\ lenN p = lenN rs + 1 /\ pstate p = (c - 1, rf, pm) /\ 16 <= pm /\
                             RW rs roff rc (c - 1 - roff) true p) /\
     ((c - 1 = roff /\ pp = 0 /\ 16 <= pm) \/ (roff < c - 1 /\ PV rs roff rc (c - 1) pp))).

  Definition prev_ok (rs : list (N * list mcell)) (roff : N) : Prop :=
    match rs with [] => True | (ro', _) :: _ => ro' <= roff end.

  Lemma MV_not_unmatched rs c x : MV rs c x -> x <> UNMATCHED.
  Proof.
    intros (p & rf & _ & _ & _ & _ & H16 & _) ->. cbn [UNMATCHED sc] in H16. lia.
  Qed.

  (* walking from an M cell of the row under construction *)
  Lemma RW_M rs roff rc cl c x :
    MV rs c x -> roff <= c -> prev_ok rs roff -> snd cl = mt x ->
    forall p rf, vpath p -> lenN p = lenN rs + 1 -> pstate p = (c, rf, sc x) ->
      match rs with [] => p = [c] | _ => exists p', p = p' ++ [c] /\ 1 <= c /\ WT rs (c - 1) (mt x) p' end ->
      RW rs roff (cl :: rc) (c - roff) true p.
  Proof.
    intros _ Hc Hprev Hsnd p rf Hv Hlen Hps Hpred fuel acc Hfuel.
    destruct fuel as [|f]; [lia|].
    destruct rs as [|[ro' cl'] rs'].
    - subst p. cbn [trows]. rewrite rec_M_nil. cbn [map tagN app]. rewrite lenN_nil.
      do 3 f_equal. lia.
    - destruct Hpred as (p' & -> & H1c & Hro' & Hcl' & Hrw). cbn [prev_ok] in Hprev.
      cbn [trows]. rewrite rec_M_cons.
      replace (roff <? ro') with false by lia.
      replace (c - roff + (roff - ro') =? 0) with false by lia. cbn [orb].
      replace (c - roff + (roff - ro') - 1) with (c - 1 - ro') by lia.
      replace (lenN cl' <=? c - 1 - ro') with false by lia.
      rewrite Hsnd. rewrite Hrw by lia.
      rewrite map_app, tagN_app. cbn [map tagN]. rewrite <- app_assoc. cbn [app].
      do 4 f_equal.
      + unfold lenN in *. rewrite map_length. rewrite app_length in Hlen. cbn [length] in *. lia.
      + lia.
  Qed.

  Lemma takeN_all_rev {A} (l : list A) k : lenN l <= k -> frev (takeN k (rev l)) = l.
  Proof.
    intros H. unfold takeN. rewrite firstn_all2 by (rewrite rev_length; unfold lenN in H; lia).
    rewrite frev_rev. apply rev_involutive.
  Qed.

  (* one column of a pass: the P value and the back-pointer cell *)
  Lemma step_ok rs roff c pp pm rc x :
    prev_ok rs roff -> roff <= c -> LS rs roff c pp pm rc ->
    (x = UNMATCHED \/ MV rs c x) -> (c = roff -> MV rs c x) ->
    forall p pb, p_score pp pm = (p, pb) ->
    LS rs roff (c + 1) p (sc x) ((pb, mt x) :: rc) /\
    ((c = roff /\ p = 0) \/ (roff < c /\ PV rs roff ((pb, mt x) :: rc) c p)).
  Proof.
    intros Hprev Hc HLS Hx Hx0 p pb Hp.
    assert (HRWx : forall pb', MV rs c x ->
              exists p0 rf, vpath p0 /\ lenN p0 = lenN rs + 1 /\ pstate p0 = (c, rf, sc x) /\ 16 <= sc x /\
                            RW rs roff ((pb', mt x) :: rc) (c - roff) true p0).
    { intros pb' HM. pose proof HM as (p0 & rf & Hv & Hl & Hps & _ & H16 & Hpred). exists p0, rf.
      repeat split; auto. eapply RW_M; eauto. }
    assert (HMpart : forall pb', sc x = 0 \/
              exists p0 rf, vpath p0 /\ lenN p0 = lenN rs + 1 /\ pstate p0 = (c + 1 - 1, rf, sc x) /\ 16 <= sc x /\
                            RW rs roff ((pb', mt x) :: rc) (c + 1 - 1 - roff) true p0).
    { intros pb'. replace (c + 1 - 1) with c by lia. destruct Hx as [-> | HM]; [left; reflexivity|].
      right. exact (HRWx pb' HM). }
    unfold p_score, PENALTY_GAP_START, PENALTY_GAP_EXTENSION in Hp.
    destruct HLS as [(-> & -> & -> & ->) | (Hlt & Hlen & HM & HP)].
    - cbn in Hp. injection Hp as <- <-. split; [|left; auto].
      right. split; [lia|]. split; [rewrite lenN_cons, lenN_nil; lia|]. split; [apply HMpart|].
      left. split; [lia|]. split; [reflexivity|].
      destruct (Hx0 eq_refl) as (p0 & rf & _ & _ & _ & _ & H16 & _). exact H16.
    - destruct (pp - 1 <? pm - 3) eqn:E; injection Hp as <- <-.
      + destruct HM as [-> | (p0 & rf & Hv & Hl & Hps & H16 & Hrw)]; [lia|].
        assert (HPV : PV rs roff ((true, mt x) :: rc) c (pm - 3)).
        { exists p0, (c - 1), rf, pm. split; [exact Hv|]. split; [exact Hl|]. split; [exact Hps|].
          split; [lia|]. split; [lia|]. split; [lia|].
          intros fuel acc Hf. destruct fuel as [|f]; [lia|]. rewrite rec_P by lia. cbn [fst].
          replace (c - roff - 1) with (c - 1 - roff) by lia. apply Hrw. lia. }
        split; [|right; split; [exact Hlt|exact HPV]].
        right. split; [lia|]. split; [rewrite lenN_cons; lia|]. split; [apply HMpart|].
        right. split; [lia|]. replace (c + 1 - 1) with c by lia. exact HPV.
      + destruct HP as [(H1 & -> & H16) | (Hlt2 & (p0 & j & rf & sco & Hv & Hl & Hps & Hj1 & Hj2 & Hpp & Hrw))]; [lia|].
        assert (HPV : PV rs roff ((false, mt x) :: rc) c (pp - 1)).
        { exists p0, j, rf, sco. split; [exact Hv|]. split; [exact Hl|]. split; [exact Hps|].
          split; [lia|]. split; [lia|]. split; [lia|].
          intros fuel acc Hf. destruct fuel as [|f]; [lia|]. rewrite rec_P by lia. cbn [fst].
          replace (c - roff - 1) with (c - 1 - roff) by lia. apply Hrw. lia. }
        split; [|right; split; [exact Hlt|exact HPV]].
        right. split; [lia|]. split; [rewrite lenN_cons; lia|]. split; [apply HMpart|].
        right. split; [lia|]. replace (c + 1 - 1) with c by lia. exact HPV.
  Qed.

  (* a cell reached by skipping from a genuine P value *)
  Lemma skip_cell rs roff cl rc c p y :
    PV rs roff (cl :: rc) c p -> roff <= c -> lenN rc = c - roff ->
    c + 1 < W -> nthN hw (c + 1) 0 = nthN n (lenN rs + 1) 0 ->
    sc y = p + bon (c + 1) + 16 -> cb y = bon (c + 1) -> mt y = false ->
    MV ((roff, rev (cl :: rc)) :: rs) (c + 1) y.
  Proof.
    intros (p0 & j & rf & sco & Hv & Hl & Hps & Hj1 & Hj2 & Hp & Hrw) Hc Hlen HW Hch Hsc Hcb Hmt.
    pose proof (vpath_ne _ Hv) as Hne.
    pose proof (pstate_last _ Hne) as Hlast. rewrite Hps in Hlast. cbn [fst] in Hlast.
    exists (p0 ++ [c + 1]), (bon (c + 1)).
    split; [apply vpS; [exact Hv|lia|exact HW|rewrite Hl; exact Hch]|].
    split; [rewrite lenN_app, !lenN_cons, lenN_nil; lia|].
    split.
    { rewrite pstate_snoc by exact Hne. rewrite Hps. unfold fstep.
      replace (c + 1 =? j + 1) with false by lia. rewrite Hsc. f_equal. lia. }
    split; [rewrite Hcb; reflexivity|]. split; [lia|].
    exists p0. split; [reflexivity|]. split; [lia|].
    cbn [WT]. replace (c + 1 - 1) with c by lia.
    split; [exact Hc|]. split; [rewrite lenN_rev, lenN_cons; lia|].
    rewrite takeN_all_rev by (rewrite lenN_cons; lia). rewrite Hmt. exact Hrw.
  Qed.

  Lemma next_ok rs roff c p x cl rc :
    prev_ok rs roff -> roff <= c -> lenN rc = c - roff -> snd cl = mt x ->
    (x = UNMATCHED \/ MV rs c x) -> (c = roff -> MV rs c x) ->
    ((c = roff /\ p = 0) \/ (roff < c /\ PV rs roff (cl :: rc) c p)) ->
    c + 1 < W -> nthN hw (c + 1) 0 = nthN n (lenN rs + 1) 0 ->
    MV ((roff, rev (cl :: rc)) :: rs) (c + 1) (next_m_cell p (bon (c + 1)) x).
  Proof.
    intros Hprev Hc Hlen Hsnd Hx Hx0 HP HW Hch. unfold next_m_cell.
    destruct (cell_eqb x UNMATCHED) eqn:Ecell.
    - apply cell_eqb_spec in Ecell.
      destruct HP as [(-> & _) | (Hlt & HPV)].
      + exfalso. exact (MV_not_unmatched _ _ _ (Hx0 eq_refl) Ecell).
      + eapply skip_cell; eauto.
    - assert (HM : MV rs c x).
      { destruct Hx as [-> | HM]; [|exact HM]. cbn in Ecell. discriminate. }
      pose proof HM as (p0 & rf & Hv & Hl & Hps & Hcbx & H16 & Hpred).
      set (b := bon (c + 1)).
      set (cb0 := N.max (cb x) BONUS_CONSECUTIVE).
      set (cb1 := if (BONUS_BOUNDARY <=? b) && (cb0 <? b) then b else cb0).
      destruct (p + b <? sc x + N.max cb1 b) eqn:E.
      + pose proof (vpath_ne _ Hv) as Hne.
        pose proof (pstate_last _ Hne) as Hlast. rewrite Hps in Hlast. cbn [fst] in Hlast.
        set (rf' := if (8 <=? b) && (rf <? b) then b else rf).
        exists (p0 ++ [c + 1]), rf'.
        split; [apply vpS; [exact Hv|lia|exact HW|rewrite Hl; exact Hch]|].
        split; [rewrite lenN_app, !lenN_cons, lenN_nil; lia|].
        assert (Hcb1 : cb1 = N.max rf' 4).
        { unfold cb1, cb0, rf', BONUS_BOUNDARY, BONUS_CONSECUTIVE.
          destruct (N.leb_spec 8 b); destruct (N.ltb_spec (N.max (cb x) 4) b); destruct (N.ltb_spec rf b);
            cbn [andb]; lia. }
        split.
        { rewrite pstate_snoc by exact Hne. rewrite Hps. unfold fstep.
          replace (c + 1 =? c + 1) with true by lia. fold b. fold rf'. cbn [sc].
          f_equal. unfold SCORE_MATCH. rewrite Hcb1. lia. }
        cbn [cb sc mt]. split; [rewrite Hcb1; lia|]. split; [unfold SCORE_MATCH; lia|].
        exists p0. split; [reflexivity|]. split; [lia|].
        cbn [WT]. replace (c + 1 - 1) with c by lia.
        split; [exact Hc|]. split; [rewrite lenN_rev, lenN_cons; unfold mcell in *; lia|].
        rewrite takeN_all_rev by (rewrite lenN_cons; unfold mcell in *; lia).
        eapply RW_M; eauto.
      + destruct HP as [(-> & ->) | (Hlt & HPV)].
        * exfalso. unfold cb1, cb0, BONUS_BOUNDARY, BONUS_CONSECUTIVE in E. lia.
        * eapply skip_cell; eauto.
  Qed.

  (* ---- the two passes of score_row ----------------------------------------------------------------- *)
  Fixpoint RI (rs : list (N * list mcell)) (roff c : N) (l : list cell) : Prop :=
    match l with
    | [] => True
    | x :: l' => (x = UNMATCHED \/ MV rs c x) /\ (c = roff -> MV rs c x) /\ RI rs roff (c + 1) l'
    end.

  Lemma RI_app rs roff l1 : forall c l2,
    RI rs roff c (l1 ++ l2) <-> RI rs roff c l1 /\ RI rs roff (c + lenN l1) l2.
  Proof.
    induction l1 as [|x l1 IH]; intros c l2; cbn [app RI].
    - rewrite lenN_nil, N.add_0_r. tauto.
    - rewrite IH, lenN_cons. replace (c + 1 + lenN l1) with (c + (lenN l1 + 1)) by lia. tauto.
  Qed.

  Lemma LS_len rs roff c pp pm rc : LS rs roff c pp pm rc -> lenN rc = c - roff.
  Proof. intros [(-> & _ & _ & ->) | (_ & H & _)]; [rewrite lenN_nil; lia|exact H]. Qed.

  Lemma skip_ok rs roff nc : prev_ok rs roff ->
    forall rl hs bsl c pp pm rc pfx,
    length hs = length rl -> length bsl = length rl -> roff <= c ->
    RI rs roff c rl -> LS rs roff c pp pm rc ->
    exists pp' pm' cells,
      skip_pass false nc hs bsl rl pp pm pfx = (pp', pm', pfx, cells) /\
      LS rs roff (c + lenN rl) pp' pm' (rev cells ++ rc) /\ lenN cells = lenN rl.
  Proof.
    intros Hprev. induction rl as [|x rl IH]; intros hs bsl c pp pm rc pfx Hl1 Hl2 Hc HRI HLS.
    - destruct hs; [|discriminate]. exists pp, pm, []. cbn [skip_pass rev app].
      rewrite lenN_nil, N.add_0_r. auto.
    - destruct hs as [|c0 hs]; [discriminate|]. destruct bsl as [|b0 bsl]; [discriminate|].
      cbn [RI] in HRI. destruct HRI as (Hx & Hx0 & HRI).
      cbn [skip_pass]. destruct (p_score pp pm) as [p pb] eqn:Ep.
      destruct (step_ok rs roff c pp pm rc x Hprev Hc HLS Hx Hx0 p pb Ep) as [HLS' _].
      destruct (IH hs bsl (c + 1) p (sc x) ((pb, mt x) :: rc) pfx) as (pp' & pm' & cells & Hsk & HLS'' & Hlen);
        [cbn in Hl1; lia | cbn in Hl2; lia | lia | exact HRI | exact HLS' |].
      rewrite Hsk. exists pp', pm', ((pb, mt x) :: cells). split; [reflexivity|].
      cbn [rev]. rewrite <- app_assoc. cbn [app]. rewrite !lenN_cons.
      replace (c + (lenN rl + 1)) with (c + 1 + lenN rl) by lia. split; [exact HLS''|lia].
  Qed.

  Fixpoint NR (rs : list (N * list mcell)) (roff nnc c : N) (rc : list mcell) (newrow : list cell)
           (cells : list mcell) : Prop :=
    match newrow, cells with
    | [], [] => True
    | r :: nr', cl :: cells' =>
      (r = UNMATCHED \/ MV ((roff, rev (cl :: rc)) :: rs) (c + 1) r) /\
      (nthN hw (c + 1) 0 = nnc -> MV ((roff, rev (cl :: rc)) :: rs) (c + 1) r) /\
      NR rs roff nnc (c + 1) (cl :: rc) nr' cells'
    | _, _ => False
    end.

  Lemma main_ok rs roff nc nnc : prev_ok rs roff -> nnc = nthN n (lenN rs + 1) 0 -> lenN bs = W ->
    forall rl c pp pm rc pfx,
    c + lenN rl < W -> roff <= c ->
    RI rs roff c rl -> LS rs roff c pp pm rc ->
    exists newrow cells,
      main_pass false nc nnc (dropN c hw) (dropN c bs) rl pp pm pfx = (newrow, cells) /\
      NR rs roff nnc c rc newrow cells /\ lenN newrow = lenN rl.
  Proof.
    intros Hprev Hnnc Hbs. induction rl as [|x rl IH]; intros c pp pm rc pfx HW Hc HRI HLS.
    - exists [], []. split; [|split; [exact I|reflexivity]].
      destruct (dropN c hw) as [|? [|? ?]]; destruct (dropN c bs) as [|? [|? ?]]; reflexivity.
    - rewrite lenN_cons in HW. fold W in Hbs.
      rewrite (dropN_cons hw c 0) by (fold W; lia). rewrite (dropN_cons hw (c + 1) 0) by (fold W; lia).
      rewrite (dropN_cons bs c 0) by lia. rewrite (dropN_cons bs (c + 1) 0) by lia.
      rewrite main_pass_cons. cbv zeta.
      rewrite <- (dropN_cons hw (c + 1) 0) by (fold W; lia). rewrite <- (dropN_cons bs (c + 1) 0) by lia.
      cbn [RI] in HRI. destruct HRI as (Hx & Hx0 & HRI).
      destruct (p_score pp pm) as [p pb] eqn:Ep.
      destruct (step_ok rs roff c pp pm rc x Hprev Hc HLS Hx Hx0 p pb Ep) as [HLS' HP].
      destruct (IH (c + 1) p (sc x) ((pb, mt x) :: rc) pfx) as (newrow & cells & Hm & HNR & Hlen);
        [lia | lia | exact HRI | exact HLS' |].
      rewrite Hm. eexists _, _. split; [reflexivity|]. split; [|rewrite !lenN_cons; lia].
      cbn [NR]. pose proof (LS_len _ _ _ _ _ _ HLS) as Hrc.
      assert (HMV : nthN hw (c + 1) 0 = nnc ->
                    MV ((roff, rev ((pb, mt x) :: rc)) :: rs) (c + 1) (next_m_cell p (nthN bs (c + 1) 0) x)).
      { intros Hch. apply next_ok; try assumption; [reflexivity | fold W; lia | rewrite Hch; exact Hnnc]. }
      split; [|split; [|exact HNR]].
      + destruct (N.eqb_spec (nthN hw (c + 1) 0) nnc) as [Hch|Hch]; [right; exact (HMV Hch)|left; reflexivity].
      + intros Hch. rewrite Hch, N.eqb_refl. exact (HMV Hch).
  Qed.

  Lemma MV_mono rs roff pre suf c x : MV ((roff, pre) :: rs) c x -> MV ((roff, pre ++ suf) :: rs) c x.
  Proof.
    intros (p & rf & Hv & Hl & Hps & Hcb & H16 & (p' & Hp' & H1 & Hro & Hcl & Hrw)).
    exists p, rf. split; [exact Hv|]. split; [rewrite lenN_cons in *; exact Hl|]. split; [exact Hps|].
    split; [exact Hcb|]. split; [exact H16|]. exists p'. split; [exact Hp'|]. split; [exact H1|].
    cbn [WT]. split; [exact Hro|]. split; [rewrite lenN_app; lia|].
    replace (takeN (c - 1 - roff + 1) (pre ++ suf)) with (takeN (c - 1 - roff + 1) pre); [exact Hrw|].
    unfold takeN. rewrite firstn_app.
    replace (N.to_nat (c - 1 - roff + 1) - length pre)%nat with 0%nat by (unfold lenN in Hcl; lia).
    cbn [firstn]. rewrite app_nil_r. reflexivity.
  Qed.

  Lemma NR_RI rs roff nnc noff : nthN hw noff 0 = nnc ->
    forall newrow cells c rc, NR rs roff nnc c rc newrow cells ->
    RI ((roff, rev rc ++ cells) :: rs) noff (c + 1) newrow.
  Proof.
    intros Hnoff. induction newrow as [|r nr IH]; intros cells c rc HNR; [exact I|].
    destruct cells as [|cl cells]; [destruct HNR|]. cbn [NR] in HNR. destruct HNR as (H1 & H2 & H3).
    specialize (IH cells (c + 1) (cl :: rc) H3). cbn [rev] in IH. rewrite <- app_assoc in IH. cbn [app] in IH.
    cbn [RI]. split; [|split; [|exact IH]].
    - destruct H1 as [H1|H1]; [left; exact H1|right].
      replace (rev rc ++ cl :: cells) with (rev (cl :: rc) ++ cells) by (cbn [rev]; rewrite <- app_assoc; reflexivity).
      apply MV_mono. exact H1.
    - intros Hc. replace (rev rc ++ cl :: cells) with (rev (cl :: rc) ++ cells) by (cbn [rev]; rewrite <- app_assoc; reflexivity).
      apply MV_mono. apply H2. rewrite Hc. exact Hnoff.
  Qed.

  (* both passes of one row, on the effective cell lists *)
  Lemma row_core rs roff noff i nc nnc rl1 rl2 :
    prev_ok rs roff -> lenN rs = i -> roff < noff -> noff <= W ->
    lenN rl1 = noff - 1 - roff -> noff - 1 + lenN rl2 < W -> lenN bs = W ->
    nnc = nthN n (i + 1) 0 -> nthN hw noff 0 = nnc -> RI rs roff roff (rl1 ++ rl2) ->
    exists pp pm cells1 newrow cells2,
      skip_pass false nc (sliceN roff (noff - 1) hw) (sliceN roff (noff - 1) bs) rl1 0 0 0 = (pp, pm, 0, cells1) /\
      main_pass false nc nnc (dropN (noff - 1) hw) (dropN (noff - 1) bs) rl2 pp pm 0 = (newrow, cells2) /\
      lenN newrow = lenN rl2 /\ RI ((roff, cells1 ++ cells2) :: rs) noff noff newrow.
  Proof.
    intros Hprev Hi Hlt HnW Hl1 Hl2 Hbs Hnnc Hnoff HRI.
    apply RI_app in HRI. destruct HRI as [HRI1 HRI2].
    destruct (skip_ok rs roff nc Hprev rl1 (sliceN roff (noff - 1) hw) (sliceN roff (noff - 1) bs) roff 0 0 [] 0)
      as (pp & pm & cells1 & Hsk & HLS & Hlen1).
    - pose proof (lenN_sliceN hw roff (noff - 1)) as H. fold W in H. unfold lenN in *. lia.
    - pose proof (lenN_sliceN bs roff (noff - 1)) as H. unfold lenN in *. lia.
    - lia.
    - exact HRI1.
    - left. auto.
    - rewrite app_nil_r in HLS. replace (roff + lenN rl1) with (noff - 1) in * by lia.
      destruct (main_ok rs roff nc nnc Hprev ltac:(rewrite Hi; exact Hnnc) Hbs rl2 (noff - 1) pp pm (rev cells1) 0)
        as (newrow & cells2 & Hm & HNR & Hlen2); [exact Hl2 | lia | exact HRI2 | exact HLS |].
      exists pp, pm, cells1, newrow, cells2. split; [exact Hsk|]. split; [exact Hm|]. split; [exact Hlen2|].
      pose proof (NR_RI rs roff nnc noff Hnoff newrow cells2 (noff - 1) (rev cells1) HNR) as H.
      rewrite rev_involutive in H. replace (noff - 1 + 1) with noff in H by lia. exact H.
  Qed.

  (* ---- score_row ----------------------------------------------------------------------------------- *)
  Let m := lenN n.

  Lemma score_row_ok rs roff noff i nc nnc row :
    prev_ok rs roff -> lenN rs = i -> i <= roff -> roff < noff -> i + 2 <= m -> noff + m <= W + i + 1 ->
    lenN row = W + 1 - m -> lenN bs = W -> nnc = nthN n (i + 1) 0 -> nthN hw noff 0 = nnc ->
    RI rs roff roff (dropN (roff - i) row) ->
    exists row' cells, score_row false row hw bs roff noff i nc nnc 0 = Some (row', cells) /\
      lenN row' = lenN row /\ RI ((roff, cells) :: rs) noff noff (dropN (noff - (i + 1)) row').
  Proof.
    intros Hprev Hi Hir Hlt Him Hnm Hrow Hbs Hnnc Hnoff HRI.
    unfold score_row.
    replace ((noff =? 0) || (roff <? i) || (noff - 1 <? i) || (noff - 1 <? roff)) with false by lia.
    cbv zeta.
    destruct (row_core rs roff noff i nc nnc (sliceN (roff - i) (noff - 1 - i) row) (dropN (noff - 1 - i) row))
      as (pp & pm & cells1 & newrow & cells2 & Hsk & Hm & Hlen & HRI'); try assumption.
    - lia.
    - rewrite lenN_sliceN. lia.
    - rewrite lenN_dropN. lia.
    - rewrite slice_drop_app by lia. exact HRI.
    - rewrite Hsk, Hm. eexists _, _. split; [reflexivity|].
      split; [rewrite lenN_app, lenN_takeN, Hlen, lenN_dropN; lia|].
      replace (noff - (i + 1)) with (noff - 1 - i) by lia.
      rewrite dropN_app_exact by (rewrite lenN_takeN; lia). exact HRI'.
  Qed.

  Lemma first_cell_MV nc c : nc = nthN n 0 0 -> c < W -> nthN hw c 0 = nc ->
    MV [] c (first_cell nc (nthN hw c 0) (bon c)).
  Proof.
    intros Hnc Hc Hch. unfold first_cell. rewrite Hch, N.eqb_refl.
    exists [c], (bon c). split; [apply vp1; [exact Hc|rewrite Hch; exact Hnc]|].
    split; [reflexivity|]. cbn [sc cb mt pstate fold_left]. unfold BONUS_FIRST_CHAR_MULTIPLIER, SCORE_MATCH, PREFIX_BONUS_SCALE.
    change (0 / 2) with 0.
    split; [f_equal; lia|]. split; [reflexivity|]. split; [lia|reflexivity].
  Qed.

  Lemma RI_frow nc : nc = nthN n 0 0 -> nthN hw 0 0 = nc ->
    forall hs bsl rl c,
    (forall k, k < lenN hs -> nthN hs k 0 = nthN hw (c + k) 0) ->
    (forall k, k < lenN bsl -> nthN bsl k 0 = nthN bs (c + k) 0) ->
    c + lenN hs <= W -> RI [] 0 c (frow nc hs bsl rl).
  Proof.
    intros Hnc H0. induction hs as [|x hs IH]; intros bsl rl c Hh Hb HW; [exact I|].
    destruct bsl as [|b bsl]; [exact I|]. destruct rl as [|r rl]; [exact I|].
    cbn [frow RI]. rewrite lenN_cons in HW.
    assert (Hx : x = nthN hw c 0).
    { specialize (Hh 0). rewrite nthN_cons_0, N.add_0_r in Hh. apply Hh. rewrite lenN_cons. lia. }
    assert (Hbb : b = bon c).
    { specialize (Hb 0). rewrite nthN_cons_0, N.add_0_r in Hb. apply Hb. rewrite lenN_cons. lia. }
    subst x b. split; [|split].
    - destruct (N.eqb_spec (nthN hw c 0) nc) as [E|E].
      + right. apply first_cell_MV; [exact Hnc|lia|exact E].
      + left. unfold first_cell. replace (nthN hw c 0 =? nc) with false by lia. reflexivity.
    - intros ->. apply first_cell_MV; [exact Hnc|lia|exact H0].
    - apply IH.
      + intros k Hk. specialize (Hh (k + 1)). rewrite nthN_cons_succ in Hh. rewrite Hh by (rewrite lenN_cons; lia).
        f_equal. lia.
      + intros k Hk. specialize (Hb (k + 1)). rewrite nthN_cons_succ in Hb. rewrite Hb by (rewrite lenN_cons; lia).
        f_equal. lia.
      + lia.
  Qed.

  Lemma score_row_first noff nc nnc row0 :
    0 < noff -> 2 <= m -> noff + m <= W + 1 -> lenN row0 = W + 1 - m -> lenN bs = W ->
    nc = nthN n 0 0 -> nthN hw 0 0 = nc -> nnc = nthN n 1 0 -> nthN hw noff 0 = nnc ->
    exists row' cells, score_row true row0 hw bs 0 noff 0 nc nnc 0 = Some (row', cells) /\
      lenN row' = lenN row0 /\ RI [(0, cells)] noff noff (dropN (noff - 1) row').
  Proof.
    intros Hlt Hm Hnm Hrow Hbs Hnc H0 Hnnc Hnoff.
    unfold score_row.
    replace ((noff =? 0) || (0 <? 0) || (noff - 1 <? 0) || (noff - 1 <? 0)) with false by lia.
    cbv zeta. rewrite !N.sub_0_r.
    rewrite skip_first.
    destruct (row_core [] 0 noff 0 nc nnc
                (frow nc (sliceN 0 (noff - 1) hw) (sliceN 0 (noff - 1) bs) (sliceN 0 (noff - 1) row0))
                (frow nc (dropN (noff - 1) hw) (dropN (noff - 1) bs) (dropN (noff - 1) row0)))
      as (pp & pm & cells1 & newrow & cells2 & Hsk & Hmn & Hlen & HRI'); try assumption; try reflexivity; try exact I.
    - lia.
    - rewrite frow_len, !lenN_sliceN. fold W. lia.
    - rewrite frow_len, !lenN_dropN. fold W. lia.
    - apply RI_app. split.
      + apply (RI_frow nc Hnc H0).
        * intros k Hk. rewrite lenN_sliceN in Hk. apply nthN_sliceN. lia.
        * intros k Hk. rewrite lenN_sliceN in Hk. apply nthN_sliceN. lia.
        * rewrite lenN_sliceN. fold W. lia.
      + rewrite frow_len, !lenN_sliceN. fold W.
        replace (0 + N.min (N.min (noff - 1 - 0) (W - 0)) (N.min (N.min (noff - 1 - 0) (lenN bs - 0)) (N.min (noff - 1 - 0) (lenN row0 - 0))))
          with (noff - 1) by lia.
        apply (RI_frow nc Hnc H0).
        * intros k Hk. apply nthN_dropN.
        * intros k Hk. apply nthN_dropN.
        * rewrite lenN_dropN. fold W. lia.
    - rewrite Hsk. rewrite main_first by (rewrite !lenN_dropN; fold W; lia).
      rewrite Hmn. eexists _, _. split; [reflexivity|].
      rewrite frow_len, !lenN_dropN in Hlen. fold W in Hlen.
      split; [rewrite lenN_app, lenN_takeN, Hlen; lia|].
      rewrite dropN_app_exact by (rewrite lenN_takeN; lia). exact HRI'.
  Qed.

  (* ---- row offsets, populate ----------------------------------------------------------------------- *)
  Fixpoint ROK (lb : N) (n' ro' : list N) : Prop :=
    match n', ro' with
    | [], [] => True
    | x :: n'', off :: ro'' => lb <= off /\ nthN hw off 0 = x /\ off + lenN n'' < W /\ ROK (off + 1) n'' ro''
    | _, _ => False
    end.

  Definition sprev_ok (rs : list (N * list mcell)) (roff : N) : Prop :=
    match rs with [] => True | (ro', _) :: _ => ro' < roff end.

  Lemma sprev_prev rs roff : sprev_ok rs roff -> prev_ok rs roff.
  Proof. destruct rs as [|[ro' ?] ?]; cbn; [auto|lia]. Qed.

  Lemma populate_ok : forall n' ro' lb rs row idx,
    (forall k, nthN n' k 0 = nthN n (idx + k) 0) -> n' <> [] -> ROK lb n' ro' ->
    sprev_ok rs (hd 0 ro') -> idx <= hd 0 ro' -> RI rs (hd 0 ro') (hd 0 ro') (dropN (hd 0 ro' - idx) row) ->
    lenN rs = idx -> lenN row = W + 1 - m -> lenN bs = W -> idx + lenN n' = m ->
    exists rowf rest, populate row hw bs idx n' ro' = Some (rowf, rest) /\
      let rsf := rev (combine ro' rest) ++ rs in
      let lo := last ro' 0 in
      lenN rsf = m - 1 /\ lenN rest + 1 = lenN n' /\ lenN rowf = W + 1 - m /\ m - 1 <= lo /\ lo < W /\
      sprev_ok rsf lo /\ RI rsf lo lo (dropN (lo + 1 - m) rowf).
  Proof.
    induction n' as [|nc n' IH]; intros ro' lb rs row idx Hn Hne HROK Hsp Hidx HRI Hrs Hrow Hbs Hm; [congruence|].
    destruct ro' as [|off ro']; [destruct HROK|]. cbn [ROK] in HROK. destruct HROK as (Hlb & Hoff & HoffW & HROK).
    cbn [hd] in *.
    destruct n' as [|nnc n''].
    - destruct ro' as [|? ?]; [|destruct HROK]. exists row, []. split; [reflexivity|].
      cbv zeta. cbn [combine rev app last]. rewrite lenN_cons in Hm.
      change (lenN (@nil N)) with 0 in *. change (lenN (@nil (list mcell))) with 0 in *.
      split; [lia|]. split; [reflexivity|]. split; [exact Hrow|]. split; [lia|]. split; [lia|].
      split; [exact Hsp|]. replace (off + 1 - m) with (off - idx) by lia. exact HRI.
    - destruct ro' as [|noff ro'']; [destruct HROK|]. pose proof HROK as HROK'.
      cbn [ROK] in HROK. destruct HROK as (Hlb' & Hnoff & HnoffW & _).
      rewrite !lenN_cons in *.
      destruct (score_row_ok rs off noff idx nc nnc row) as (row' & cells & Hsr & Hlen' & HRI');
        try assumption; try lia.
      + apply sprev_prev. exact Hsp.
      + specialize (Hn 1). rewrite <- Hn. reflexivity.
      + change (populate row hw bs idx (nc :: nnc :: n'') (off :: noff :: ro''))
          with (match score_row false row hw bs off noff idx nc nnc 0 with
                | None => None
                | Some (row', cells) =>
                  match populate row' hw bs (idx + 1) (nnc :: n'') (noff :: ro'') with
                  | None => None
                  | Some (rowf, rest) => Some (rowf, cells :: rest)
                  end
                end).
        rewrite Hsr.
        assert (A1 : forall k, nthN (nnc :: n'') k 0 = nthN n (idx + 1 + k) 0).
        { intros k. specialize (Hn (k + 1)). rewrite nthN_cons_succ in Hn. rewrite Hn. f_equal. lia. }
        assert (A4 : sprev_ok ((off, cells) :: rs) (hd 0 (noff :: ro''))) by (cbn [hd sprev_ok]; lia).
        assert (A5 : idx + 1 <= hd 0 (noff :: ro'')) by (cbn [hd]; lia).
        assert (A7 : lenN ((off, cells) :: rs) = idx + 1) by (rewrite lenN_cons; lia).
        assert (A8 : lenN row' = W + 1 - m) by lia.
        assert (A10 : idx + 1 + (lenN n'' + 1) = m) by lia.
        destruct (IH (noff :: ro'') (off + 1) ((off, cells) :: rs) row' (idx + 1) A1 ltac:(discriminate) HROK'
                     A4 A5 HRI' A7 A8 Hbs A10)
          as (rowf & rest & Hpop & H1 & H2 & H3 & H4 & H5 & H6 & H7).
        * rewrite Hpop. exists rowf, (cells :: rest). split; [reflexivity|].
          cbn [combine rev]. rewrite <- app_assoc. cbn [app].
          change (last (off :: noff :: ro'') 0) with (last (noff :: ro'') 0).
          cbv zeta in *. rewrite !lenN_cons in *.
          split; [exact H1|]. split; [lia|]. split; [exact H3|]. split; [exact H4|]. split; [exact H5|].
          split; [exact H6|exact H7].
  Qed.

  Lemma ROK_len : forall n' ro' lb, ROK lb n' ro' -> lenN ro' = lenN n'.
  Proof.
    induction n' as [|x n' IH]; intros [|off ro'] lb H; cbn [ROK] in H; try contradiction; [reflexivity|].
    destruct H as (_ & _ & _ & H). rewrite !lenN_cons, (IH _ _ H). reflexivity.
  Qed.

  Lemma RI_nth rs roff : forall l c k d, RI rs roff c l -> k < lenN l ->
    nthN l k d = UNMATCHED \/ MV rs (c + k) (nthN l k d).
  Proof.
    induction l as [|x l IH]; intros c k d H Hk; [rewrite lenN_nil in Hk; lia|].
    cbn [RI] in H. destruct H as (H1 & _ & H3). rewrite lenN_cons in Hk.
    destruct (N.eqb_spec k 0) as [->|Hne].
    - rewrite nthN_cons_0, N.add_0_r. exact H1.
    - replace k with (k - 1 + 1) by lia. rewrite nthN_cons_succ.
      replace (c + (k - 1 + 1)) with (c + 1 + (k - 1)) by lia. apply IH; [exact H3|lia].
  Qed.

  Lemma dp_final n0 n1 nr' ro row0 :
    n = n0 :: n1 :: nr' -> ROK 0 n ro -> hd 0 ro = 0 -> lenN bs = W -> lenN row0 = W + 1 - m ->
    exists p, vpath p /\ lenN p = m /\
      dp_tail start n0 n1 (n1 :: nr') hw bs ro W m row0 0 = Match (snd (pstate p)) (map (N.add start) p).
  Proof.
    intros Hn HROK Hro0 Hbs Hrow0.
    pose proof (ROK_len _ _ _ HROK) as Hrolen. fold m in Hrolen.
    assert (Hm : m = lenN nr' + 2) by (unfold m; rewrite Hn, !lenN_cons; lia).
    rewrite Hn in HROK.
    destruct ro as [|off0 [|off1 ro'']]; cbn [ROK] in HROK; try tauto.
    destruct HROK as (_ & Hh0 & _ & Hlb1 & Hh1 & Hoff1W & HROK'').
    cbn [hd] in Hro0. subst off0.
    unfold dp_tail. change (nthN (0 :: off1 :: ro'') 1 0) with off1. cbn [tl].
    destruct (score_row_first off1 n0 n1 row0) as (row1 & cells0 & Hsr & Hlen1 & HRI1); try assumption; try lia.
    { rewrite Hn. reflexivity. }
    { rewrite Hn. reflexivity. }
    rewrite Hsr.
    assert (HROK1 : ROK (0 + 1) (n1 :: nr') (off1 :: ro'')) by (cbn [ROK]; auto).
    assert (A1 : forall k, nthN (n1 :: nr') k 0 = nthN n (1 + k) 0).
    { intros k. rewrite Hn. replace (1 + k) with (k + 1) by lia. rewrite nthN_cons_succ. reflexivity. }
    assert (A4 : sprev_ok [(0, cells0)] (hd 0 (off1 :: ro''))) by (cbn [hd sprev_ok]; lia).
    assert (A5 : 1 <= hd 0 (off1 :: ro'')) by (cbn [hd]; lia).
    assert (A8 : lenN row1 = W + 1 - m) by lia.
    assert (A10 : 1 + lenN (n1 :: nr') = m) by (rewrite lenN_cons; lia).
    destruct (populate_ok (n1 :: nr') (off1 :: ro'') (0 + 1) [(0, cells0)] row1 1 A1 ltac:(discriminate) HROK1
                A4 A5 HRI1 eq_refl A8 Hbs A10)
      as (rowf & rest & Hpop & H1 & H2 & H3 & H4 & H5 & H6 & H7).
    rewrite Hpop. cbv zeta in H1, H6, H7.
    set (lo := last (off1 :: ro'') 0) in *.
    set (rsf := rev (combine (off1 :: ro'') rest) ++ [(0, cells0)]) in *.
    assert (Hlast : nthN (0 :: off1 :: ro'') (m - 1) 0 = lo).
    { unfold lo. change (last (off1 :: ro'') 0) with (last (0 :: off1 :: ro'') 0).
      rewrite last_nthN by discriminate. rewrite Hrolen. reflexivity. }
    cbv zeta. rewrite Hlast.
    replace (lo + 1 <? m) with false by lia.
    assert (Hll : 0 < lenN (dropN (lo + 1 - m) rowf)) by (rewrite lenN_dropN; lia).
    assert (Hlub : lo + lenN (dropN (lo + 1 - m) rowf) <= W) by (rewrite lenN_dropN; lia).
    remember (dropN (lo + 1 - m) rowf) as l eqn:El0.
    destruct (argmax_last l 0 None) as [[me best]|] eqn:Earg.
    2:{ apply argmax_none in Earg. assert (Hl0 : lenN l = 0) by (rewrite Earg; reflexivity). lia. }
    apply argmax_spec in Earg. destruct Earg as (Hall & _ & [Hbad | (_ & Hme & Hbest)]); [discriminate|].
    rewrite N.sub_0_r in Hme, Hbest.
    (* the best cell is genuine *)
    assert (HMV : MV rsf (lo + me) best).
    { destruct l as [|x0 l0] eqn:El; [unfold lenN in Hll; cbn [length] in Hll; lia|].
      pose proof H7 as H7'. cbn [RI] in H7'. destruct H7' as (_ & Hx0 & _).
      destruct (Hx0 eq_refl) as (_ & _ & _ & _ & _ & _ & H16 & _).
      pose proof (Hall x0 (or_introl eq_refl)) as Hge.
      destruct (RI_nth rsf lo (x0 :: l0) lo me ZERO_CELL H7 Hme) as [Hu|HM].
      - rewrite Hbest in Hu. rewrite Hu in Hge. cbn [UNMATCHED sc] in Hge. lia.
      - rewrite Hbest in HM. exact HM. }
    (* the rows handed to reconstruct *)
    assert (Hrows : frev (zip3 (map N.of_nat (seq 0 (N.to_nat (m - 1)))) (takeN (m - 1) (0 :: off1 :: ro'')) (cells0 :: rest))
                    = trows rsf).
    { assert (Hlc : length (cells0 :: rest) = N.to_nat (m - 1)).
      { rewrite lenN_cons in H2. unfold lenN in H2. cbn [length]. unfold lenN in Hm. lia. }
      assert (Hle : (length (cells0 :: rest) <= length (0%N :: off1 :: ro''))%nat).
      { rewrite Hlc. unfold lenN in Hrolen. lia. }
      pose proof (zip3_trows (combine (0 :: off1 :: ro'') (cells0 :: rest))) as Z.
      rewrite combine_fst_firstn, combine_snd in Z by exact Hle.
      rewrite combine_length, Nat.min_r in Z by exact Hle.
      rewrite Hlc in Z. rewrite frev_rev. unfold takeN. rewrite Z. reflexivity. }
    rewrite Hrows.
    destruct HMV as (p & rf & Hv & Hlp & Hps & _ & _ & Hpred).
    destruct rsf as [|[ro' cl] rsf'] eqn:Ersf; [rewrite lenN_nil in H1; lia|].
    destruct Hpred as (p' & Hp' & _ & Hro' & Hcl & Hrw).
    cbn [sprev_ok] in H6. cbn [trows].
    replace (lo <=? ro') with false by lia.
    replace (me + (lo - ro' - 1)) with (lo + me - 1 - ro') by lia.
    replace (lenN cl <=? lo + me - 1 - ro') with false by lia.
    assert (Hlt : lo + me < W).
    { lia. }
    rewrite Hrw by lia. rewrite app_nil_r.
    exists p. split; [exact Hv|]. split; [rewrite Hlp, H1; lia|].
    rewrite Hps. cbn [snd]. f_equal.
    replace m with (lenN (map (N.add start) p') + 1).
    2:{ rewrite Hp', lenN_app, lenN_cons, lenN_nil in Hlp. unfold lenN in *. rewrite map_length. lia. }
    rewrite assemble_tag, Hp', map_app. cbn [map]. do 2 f_equal. lia.
  Qed.

End DP.
