(* C06 (snapshot correctness) and C07 (convergence) for the worker / tick protocol model Model/Nucleo.v.

   RESULT.  The statements C06_snapshot_stmt and C07_converges_stmt of Spec/NucleoStatements.v are FALSE for
   the model as written (C06_snapshot_false, C07_converges_false below, both machine-checked): the model's
   streams are unbounded, so after 2^32 reservations there is a real item with index u32::MAX = PLACEHOLDER,
   which the worker cannot tell from a placeholder entry.  The Rust boxcar never hands out such an index
   (count <= MAX_ENTRIES = u32::MAX - 32), so this is a gap of the protocol model, not a defect of the crate.
   PROVED: C06_snapshot_weak and C07_converges_weak - the original statements, verbatim, under the one extra
   hypothesis `forall sid, count_of s sid <= PLACEHOLDER` on the state s.

   Structure: A list facts; B comparator / reference sort; C the worker's data invariants through the phases
   of Worker::run; D streams; E how tick_body changes the relevant fields; F the invariant; G preservation;
   H the theorems; I, J, K the refutations of the original statements. *)
From Coq Require Import ZArith NArith List Bool Lia ZifyBool ZifyN ZifyNat Sorting.Sorted Permutation.
From NV Require Import Model.Nucleo Spec.NucleoStatements.
Import ListNotations.
Import Nucleo.
Local Open Scope N_scope.

(* ================================================================================================== *)
(* Part A: generic list facts                                                                          *)
(* ================================================================================================== *)

Lemma filter_map_comm {A B} (f : B -> bool) (g : A -> B) l :
  filter f (map g l) = map g (filter (fun x => f (g x)) l).
Proof. induction l as [|a l IH]; cbn; [reflexivity|]. destruct (f (g a)); cbn; now rewrite IH. Qed.

Lemma filter_length_le {A} (f : A -> bool) l : (length (filter f l) <= length l)%nat.
Proof. induction l as [|a l IH]; cbn; [lia|]. destruct (f a); cbn; lia. Qed.

Lemma filter_length_split {A} (f : A -> bool) l :
  (length (filter f l) + length (filter (fun x => negb (f x)) l) = length l)%nat.
Proof. induction l as [|a l IH]; cbn; [lia|]. destruct (f a); cbn; lia. Qed.

Lemma filter_all {A} (f : A -> bool) l : (forall x, In x l -> f x = true) -> filter f l = l.
Proof.
  induction l as [|a l IH]; cbn; intros H; [reflexivity|].
  rewrite (H a (or_introl eq_refl)). f_equal. apply IH. intros x Hx. apply H. now right.
Qed.

Lemma filter_none {A} (f : A -> bool) l : (forall x, In x l -> f x = false) -> filter f l = [].
Proof.
  induction l as [|a l IH]; cbn; intros H; [reflexivity|].
  rewrite (H a (or_introl eq_refl)). apply IH. intros x Hx. apply H. now right.
Qed.

Lemma filter_idem {A} (f : A -> bool) l : filter f (filter f l) = filter f l.
Proof. apply filter_all. intros x Hx. apply filter_In in Hx. tauto. Qed.

Lemma StronglySorted_filter {A} (R : A -> A -> Prop) (f : A -> bool) l :
  StronglySorted R l -> StronglySorted R (filter f l).
Proof.
  induction 1 as [|a l Hs IH Hf]; cbn; [constructor|].
  destruct (f a); [|assumption]. constructor; [assumption|].
  rewrite Forall_forall in *. intros x Hx. apply filter_In in Hx. apply Hf. tauto.
Qed.

Lemma StronglySorted_app {A} (R : A -> A -> Prop) l1 l2 :
  StronglySorted R l1 -> StronglySorted R l2 -> (forall x y, In x l1 -> In y l2 -> R x y) ->
  StronglySorted R (l1 ++ l2).
Proof.
  induction 1 as [|a l Hs IH Hf]; cbn; intros H2 H12; [assumption|].
  constructor.
  - apply IH; [assumption|]. intros x y Hx Hy. apply H12; [now right|assumption].
  - rewrite Forall_forall in *. intros x Hx. apply in_app_or in Hx as [Hx|Hx]; [now apply Hf|].
    apply H12; [now left|assumption].
Qed.

Lemma StronglySorted_map {A B} (R : A -> A -> Prop) (S : B -> B -> Prop) (g : A -> B) l :
  (forall x y, In x l -> In y l -> R x y -> S (g x) (g y)) -> StronglySorted R l -> StronglySorted S (map g l).
Proof.
  intros HRS Hs. induction Hs as [|a l Hs IH Hf]; cbn; [constructor|].
  constructor.
  - apply IH. intros x y Hx Hy. apply HRS; now right.
  - rewrite Forall_forall in *. intros y Hy. apply in_map_iff in Hy as (x & <- & Hx).
    apply HRS; [now left|now right|now apply Hf].
Qed.

Lemma StronglySorted_weaken {A} (R S : A -> A -> Prop) l :
  (forall x y, In x l -> In y l -> R x y -> S x y) -> StronglySorted R l -> StronglySorted S l.
Proof.
  intros H Hs. rewrite <- (map_id l). apply StronglySorted_map with (R := R); [|assumption].
  intros x y Hx Hy. now apply H.
Qed.

Lemma StronglySorted_lt_NoDup (l : list N) : StronglySorted N.lt l -> NoDup l.
Proof.
  induction 1 as [|a l Hs IH Hf]; constructor; [|assumption].
  intros Hin. rewrite Forall_forall in Hf. specialize (Hf a Hin). lia.
Qed.

Lemma NoDup_app_intro {A} (l1 l2 : list A) :
  NoDup l1 -> NoDup l2 -> (forall x, In x l1 -> In x l2 -> False) -> NoDup (l1 ++ l2).
Proof.
  induction 1 as [|a l Hn Hd IH]; cbn; intros H2 H12; [assumption|].
  constructor.
  - intros Hin. apply in_app_or in Hin as [Hin|Hin]; [contradiction|]. apply (H12 a); [now left|assumption].
  - apply IH; [assumption|]. intros x Hx. apply H12. now right.
Qed.

Lemma lenN_app {A} (l1 l2 : list A) : lenN (l1 ++ l2) = lenN l1 + lenN l2.
Proof. unfold lenN. rewrite app_length. lia. Qed.

Lemma existsb_eqb_In (i : N) l : existsb (N.eqb i) l = true <-> In i l.
Proof.
  rewrite existsb_exists. split.
  - intros (x & Hx & E). apply N.eqb_eq in E. now subst.
  - intros H. exists i. split; [assumption|apply N.eqb_refl].
Qed.

Lemma existsb_eqb_false (i : N) l : existsb (N.eqb i) l = false <-> ~ In i l.
Proof.
  rewrite <- existsb_eqb_In. destruct (existsb (N.eqb i) l); intuition congruence.
Qed.

(* [lo; lo+1; ...; lo+n-1] *)
Definition nrange (lo : N) (n : nat) : list N := map (fun k => lo + N.of_nat k) (seq 0 n).

Lemma in_nrange lo n i : In i (nrange lo n) <-> lo <= i /\ i < lo + N.of_nat n.
Proof.
  unfold nrange. rewrite in_map_iff. split.
  - intros (k & <- & Hk). apply in_seq in Hk. lia.
  - intros [H1 H2]. exists (N.to_nat (i - lo)). split; [lia|]. apply in_seq. lia.
Qed.

Lemma nrange_sorted lo n : StronglySorted N.lt (nrange lo n).
Proof.
  unfold nrange. generalize 0%nat as a. induction n as [|n IH]; intros a; cbn; [constructor|].
  constructor; [apply IH|]. rewrite Forall_forall. intros x Hx.
  apply in_map_iff in Hx as (k & <- & Hk). apply in_seq in Hk. lia.
Qed.

Lemma nrange_NoDup lo n : NoDup (nrange lo n).
Proof. apply StronglySorted_lt_NoDup, nrange_sorted. Qed.

(* counting: the complement of a duplicate-free sublist of a range *)
Lemma count_complement (L : list N) (n : nat) :
  NoDup L -> (forall i, In i L -> i < N.of_nat n) ->
  (length (filter (fun i => negb (existsb (N.eqb i) L)) (nrange 0 n)) + length L = n)%nat.
Proof.
  intros Hnd Hlt.
  pose proof (filter_length_split (fun i => existsb (N.eqb i) L) (nrange 0 n)) as Hs.
  assert (Hp : Permutation (filter (fun i => existsb (N.eqb i) L) (nrange 0 n)) L).
  { apply NoDup_Permutation; [apply NoDup_filter, nrange_NoDup|assumption|].
    intros x. rewrite filter_In, existsb_eqb_In, in_nrange. split; [tauto|].
    intros Hx. specialize (Hlt x Hx). repeat split; try assumption; lia. }
  apply Permutation_length in Hp.
  assert (Hl : length (nrange 0 n) = n) by (unfold nrange; now rewrite map_length, seq_length).
  lia.
Qed.

(* ================================================================================================== *)
(* Part B: the comparator and the reference sort                                                       *)
(* ================================================================================================== *)
Definition isph (m : mtch) : bool := m_idx m =? PLACEHOLDER.
Definition real (l : list mtch) : list mtch := filter (fun m => negb (isph m)) l.
Definition phs (l : list mtch) : list mtch := filter isph l.
Definition mk0 (i : N) : mtch := {| m_score := 0; m_idx := i |}.

Lemma real_app l1 l2 : real (l1 ++ l2) = real l1 ++ real l2.
Proof. apply filter_app. Qed.
Lemma phs_app l1 l2 : phs (l1 ++ l2) = phs l1 ++ phs l2.
Proof. apply filter_app. Qed.
Lemma in_real m l : In m (real l) <-> In m l /\ isph m = false.
Proof. unfold real. rewrite filter_In. destruct (isph m); cbn; intuition congruence. Qed.
Lemma real_idem l : real (real l) = real l.
Proof. apply filter_idem. Qed.
Lemma real_all l : (forall m, In m l -> isph m = false) -> real l = l.
Proof. intros H. apply filter_all. intros m Hm. now rewrite (H m Hm). Qed.

Section Sort.
Variable ln : N -> N -> N.
Variable sid : N.

(* a <= b in the worker's order: b is not strictly before a *)
Definition mle (a b : mtch) : Prop := match_less ln sid b a = false.

Lemma match_less_asym a b : match_less ln sid a b = true -> match_less ln sid b a = false.
Proof.
  unfold match_less. destruct a as [sa ia], b as [sb ib]; cbn [m_score m_idx].
  destruct (N.eqb_spec sa sb), (N.eqb_spec sb sa), (N.eqb_spec ia PLACEHOLDER), (N.eqb_spec ib PLACEHOLDER),
    (N.eqb_spec (ln sid ia) (ln sid ib)), (N.eqb_spec (ln sid ib) (ln sid ia)); cbn [negb]; try lia.
Qed.

Lemma mle_trans a b c : mle a b -> mle b c -> mle a c.
Proof.
  unfold mle, match_less. destruct a as [sa ia], b as [sb ib], c as [sc' ic]; cbn [m_score m_idx].
  destruct (N.eqb_spec sb sa), (N.eqb_spec sc' sb), (N.eqb_spec sc' sa); cbn [negb]; try lia;
  destruct (N.eqb_spec ia PLACEHOLDER), (N.eqb_spec ib PLACEHOLDER), (N.eqb_spec ic PLACEHOLDER); try lia;
  destruct (N.eqb_spec (ln sid ib) (ln sid ia)), (N.eqb_spec (ln sid ic) (ln sid ib)), (N.eqb_spec (ln sid ic) (ln sid ia)); try lia.
Qed.

Lemma insert_by_perm less x l : Permutation (insert_by less x l) (x :: l).
Proof.
  induction l as [|y l IH]; cbn; [reflexivity|].
  destruct (less y x); [|reflexivity].
  rewrite IH. apply perm_swap.
Qed.

Lemma insert_by_sorted x l :
  StronglySorted mle l -> StronglySorted mle (insert_by (match_less ln sid) x l).
Proof.
  induction 1 as [|y l Hs IH Hf]; cbn; [repeat constructor|].
  destruct (match_less ln sid y x) eqn:E.
  - constructor; [assumption|].
    eapply Permutation_Forall; [symmetry; apply insert_by_perm|].
    constructor; [|assumption]. unfold mle. now apply match_less_asym.
  - constructor; [constructor; assumption|].
    constructor; [exact E|].
    rewrite Forall_forall in *. intros z Hz. eapply mle_trans; [exact E|]. now apply Hf.
Qed.

Lemma sort_matches_perm l : Permutation (sort_matches ln sid l) l.
Proof.
  unfold sort_matches. induction l as [|x l IH]; cbn; [reflexivity|].
  rewrite insert_by_perm. now constructor.
Qed.

Lemma sort_matches_sorted l : StronglySorted mle (sort_matches ln sid l).
Proof.
  unfold sort_matches. induction l as [|x l IH]; cbn; [constructor|]. now apply insert_by_sorted.
Qed.

(* placeholders of score 0 are never before a real entry *)
Lemma ph_not_before x y : isph x = true -> m_score x = 0 -> isph y = false -> mle x y -> False.
Proof.
  unfold mle, match_less, isph. destruct x as [sx ix], y as [sy iy]; cbn [m_score m_idx].
  intros Hx -> Hy. rewrite Hx, Hy.
  destruct (N.eqb_spec sy 0); cbn [negb]; [discriminate|]. lia.
Qed.

Lemma sorted_split l :
  StronglySorted mle l -> (forall m, In m l -> isph m = true -> m_score m = 0) ->
  l = real l ++ phs l.
Proof.
  induction 1 as [|a l Hs IH Hf]; intros Hz; [reflexivity|].
  unfold real, phs in *. cbn [filter].
  assert (Hz' : forall m, In m l -> isph m = true -> m_score m = 0) by (intros m Hm; apply Hz; now right).
  destruct (isph a) eqn:Ea; cbn [negb].
  - assert (Hall : forall m, In m l -> isph m = true).
    { intros m Hm. destruct (isph m) eqn:Em; [reflexivity|]. exfalso.
      rewrite Forall_forall in Hf. eapply (ph_not_before a m); eauto. apply Hz; [now left|assumption]. }
    rewrite (filter_none (fun m => negb (isph m)) l) by (intros m Hm; now rewrite (Hall m Hm)).
    rewrite (filter_all isph l Hall). reflexivity.
  - cbn [app]. f_equal. now apply IH.
Qed.

Lemma firstn_drop_phs l k :
  StronglySorted mle l -> (forall m, In m l -> isph m = true -> m_score m = 0) ->
  length (phs l) = k -> firstn (length l - k) l = real l.
Proof.
  intros Hs Hz Hk. rewrite (sorted_split l Hs Hz) at 2.
  assert (Hl : (length l - k = length (real l) + 0)%nat).
  { pose proof (filter_length_split isph l). unfold real, phs in *. lia. }
  rewrite Hl, firstn_app_2. cbn. apply app_nil_r.
Qed.

Lemma mle_key_le a b : isph a = false -> isph b = false -> mle a b -> key_le ln sid a b.
Proof.
  unfold mle, match_less, key_le, isph. destruct a as [sa ia], b as [sb ib]; cbn [m_score m_idx].
  intros Ha Hb. rewrite Ha, Hb.
  destruct (N.eqb_spec sb sa); cbn [negb]; [|lia].
  destruct (N.eqb_spec (ln sid ib) (ln sid ia)); lia.
Qed.

End Sort.

(* ================================================================================================== *)
(* Part C: the worker's data invariants and the phases of Worker::run                                  *)
(* ================================================================================================== *)
Ltac wprj := cbn [w_running w_was_canceled w_last w_in_flight w_matches w_pat w_sid w_upd m_idx m_score fst snd] in *.

Lemma in_new last e i : In i (nrange last (N.to_nat (e - last))) <-> last <= i /\ i < e.
Proof. rewrite in_nrange. lia. Qed.

Section Worker.
Variable sc : N -> N -> N -> option N.
Variable ln : N -> N -> N.
Variable pub : N -> bool.      (* published flags of the worker's stream *)
Variable cnt : N.              (* its count *)
Hypothesis Hcnt : cnt <= PLACEHOLDER.

Definition matchb (p sid i : N) : bool := match score_of sc p sid i with Some _ => true | None => false end.

Definition inproc (W : worker) (i : N) : Prop := i < w_last W /\ ~ In i (w_in_flight W).

Definition base (W : worker) : Prop :=
  NoDup (w_in_flight W) /\ (forall i, In i (w_in_flight W) -> i < w_last W) /\ w_last W <= cnt /\
  (forall i, inproc W i -> pub i = true).

Definition sup (W : worker) : Prop :=
  NoDup (map m_idx (real (w_matches W))) /\
  (forall i, In i (map m_idx (real (w_matches W))) -> inproc W i) /\
  (forall i, inproc W i -> matchb (w_pat W) (w_sid W) i = true -> In i (map m_idx (real (w_matches W)))) /\
  (forall m, In m (w_matches W) -> isph m = true -> m_score m = 0).

Definition scored (W : worker) : Prop :=
  forall m, In m (real (w_matches W)) -> score_of sc (w_pat W) (w_sid W) (m_idx m) = Some (m_score m).

Definition presort (W : worker) (unm : N) : Prop :=
  sup W /\ scored W /\ lenN (phs (w_matches W)) = unm.

Definition sortedp (W : worker) : Prop :=
  if pat_is_empty (w_pat W) then StronglySorted (fun a b => m_idx a <= m_idx b) (w_matches W)
  else StronglySorted (key_le ln (w_sid W)) (w_matches W).

Definition clean (W : worker) : Prop :=
  sup W /\ scored W /\ (forall m, In m (w_matches W) -> isph m = false) /\ sortedp W.

(* the matches are Match{0, i} for exactly the processed items, ascending *)
Definition trivm (W : worker) : Prop :=
  exists L, w_matches W = map mk0 L /\ StronglySorted N.lt L /\ (forall i, In i L <-> inproc W i).

Definition same_meta (W W' : worker) : Prop :=
  w_pat W' = w_pat W /\ w_sid W' = w_sid W /\ w_running W' = w_running W /\ w_was_canceled W' = w_was_canceled W.

Lemma same_meta_refl W : same_meta W W.
Proof. repeat split. Qed.
Lemma same_meta_trans W1 W2 W3 : same_meta W1 W2 -> same_meta W2 W3 -> same_meta W1 W3.
Proof. unfold same_meta. intuition congruence. Qed.

Lemma inproc_lt W i : base W -> inproc W i -> i < PLACEHOLDER.
Proof. intros (_ & _ & Hl & _) [Hi _]. lia. Qed.

Lemma mk0_real L : (forall i, In i L -> i < PLACEHOLDER) -> real (map mk0 L) = map mk0 L.
Proof.
  intros H. apply real_all. intros m Hm. apply in_map_iff in Hm as (i & <- & Hi).
  unfold isph, mk0; cbn. specialize (H i Hi). lia.
Qed.

Lemma map_idx_mk0 L : map m_idx (map mk0 L) = L.
Proof. rewrite map_map. cbn. apply map_id. Qed.

Lemma clean_presort W : clean W -> presort W 0.
Proof.
  intros (Hs & Hsc & Hn & _). split; [assumption|split; [assumption|]].
  unfold phs. rewrite filter_none; [reflexivity|assumption].
Qed.

(* ---- trivm gives sup (for any pattern) and, for the empty pattern, clean ---- *)
Lemma trivm_sup W : base W -> trivm W -> sup W.
Proof.
  intros Hb (L & HL & Hs & Hin).
  assert (Hlt : forall i, In i L -> i < PLACEHOLDER).
  { intros i Hi. apply Hin in Hi. eapply inproc_lt; eauto. }
  unfold sup. rewrite HL, (mk0_real L Hlt), map_idx_mk0.
  split; [|split; [|split]].
  - now apply StronglySorted_lt_NoDup.
  - intros i Hi. now apply Hin.
  - intros i Hi _. now apply Hin.
  - intros m Hm Hp. apply in_map_iff in Hm as (i & <- & Hi). reflexivity.
Qed.

Lemma trivm_noph W : base W -> trivm W -> forall m, In m (w_matches W) -> isph m = false.
Proof.
  intros Hb (L & HL & Hs & Hin) m Hm. rewrite HL in Hm. apply in_map_iff in Hm as (i & <- & Hi).
  apply Hin in Hi. pose proof (inproc_lt W i Hb Hi). unfold isph, mk0; cbn. lia.
Qed.

Lemma trivm_clean W : base W -> trivm W -> pat_is_empty (w_pat W) = true -> clean W.
Proof.
  intros Hb Ht He. pose proof (trivm_sup W Hb Ht) as Hs. pose proof (trivm_noph W Hb Ht) as Hn.
  destruct Ht as (L & HL & Hsl & Hin).
  split; [assumption|split; [|split; [assumption|]]].
  - intros m Hm. apply in_real in Hm as [Hm _]. rewrite HL in Hm. apply in_map_iff in Hm as (i & <- & Hi).
    unfold score_of. rewrite He. reflexivity.
  - unfold sortedp. rewrite He, HL. eapply StronglySorted_map; [|exact Hsl]. cbn. intros; lia.
Qed.

(* ---- reset_matches ---- *)
Lemma reset_meta seen W : same_meta W (reset_matches seen W).
Proof. repeat split. Qed.

Lemma reset_spec seen W :
  (forall i, seen i = true -> pub i = true) -> base W ->
  base (reset_matches seen W) /\ trivm (reset_matches seen W).
Proof.
  intros Hseen (Hnd & Hlt & Hle & Hpub).
  assert (Hb' : base (reset_matches seen W)).
  { unfold base, inproc, reset_matches; wprj. repeat split.
    - now apply NoDup_filter.
    - intros i Hi. apply filter_In in Hi. now apply Hlt.
    - assumption.
    - intros i [Hi Hni]. rewrite filter_In in Hni.
      destruct (in_dec N.eq_dec i (w_in_flight W)) as [Hin|Hnin].
      + apply Hseen. destruct (seen i); [reflexivity|]. exfalso. apply Hni. now split.
      + apply Hpub. now split. }
  split; [assumption|].
  unfold trivm, inproc, reset_matches; wprj.
  set (inf' := filter (fun i => negb (seen i)) (w_in_flight W)).
  exists (filter (fun i => negb (existsb (N.eqb i) inf')) (nrange 0 (N.to_nat (w_last W)))).
  split; [|split; [|intros i; split]].
  - unfold nrange. rewrite filter_map_comm, filter_map_comm, !map_map. reflexivity.
  - apply StronglySorted_filter, nrange_sorted.
  - intros H. apply filter_In in H as [H1 H2]. apply in_nrange in H1.
    apply negb_true_iff, existsb_eqb_false in H2. split; [lia|exact H2].
  - intros [Hi Hni]. apply filter_In. split; [apply in_nrange; lia|].
    apply negb_true_iff, existsb_eqb_false. exact Hni.
Qed.

(* ---- scan_trivial ---- *)
Lemma scan_trivial_meta seen e W : same_meta W (scan_trivial seen e W).
Proof. repeat split. Qed.

Lemma scan_trivial_inproc seen e W i :
  base W ->
  (inproc (scan_trivial seen e W) i <-> inproc W i \/ (w_last W <= i /\ i < e /\ seen i = true)).
Proof.
  intros (Hnd & Hlt & Hle & Hpub). unfold inproc, scan_trivial; wprj.
  fold (nrange (w_last W) (N.to_nat (e - w_last W))).
  rewrite in_app_iff, filter_In, in_new. split.
  - intros [Hi Hni]. destruct (N.ltb_spec i (w_last W)) as [Hl|Hl].
    + left. split; [assumption|]. tauto.
    + right. destruct (seen i); [lia|]. exfalso. apply Hni. right. cbn. lia.
  - intros [[Hi Hni]|(H1 & H2 & H3)].
    + split; [lia|]. intros [Hin|[Hin _]]; [contradiction|lia].
    + split; [lia|]. intros [Hin|[_ Hs]]; [apply Hlt in Hin; lia|]. rewrite H3 in Hs. discriminate.
Qed.

Lemma scan_trivial_base seen e W :
  (forall i, seen i = true -> pub i = true) -> e <= cnt -> base W -> base (scan_trivial seen e W).
Proof.
  intros Hseen He Hb. pose proof Hb as (Hnd & Hlt & Hle & Hpub).
  unfold base. split; [|split; [|split]].
  - unfold scan_trivial; wprj. fold (nrange (w_last W) (N.to_nat (e - w_last W))).
    apply NoDup_app_intro; [assumption|apply NoDup_filter, nrange_NoDup|].
    intros x Hx Hx'. apply filter_In in Hx' as [Hx' _]. apply in_new in Hx'. apply Hlt in Hx. lia.
  - unfold scan_trivial; wprj. fold (nrange (w_last W) (N.to_nat (e - w_last W))).
    intros i Hi. apply in_app_or in Hi as [Hi|Hi]; [apply Hlt in Hi; lia|].
    apply filter_In in Hi as [Hi _]. apply in_new in Hi. lia.
  - unfold scan_trivial; wprj. lia.
  - intros i Hi. apply (scan_trivial_inproc seen e W i Hb) in Hi as [Hi|(_ & _ & Hi)]; auto.
Qed.

Lemma scan_trivial_trivm seen e W : e <= cnt -> base W -> trivm W -> trivm (scan_trivial seen e W).
Proof.
  intros He Hb (L & HL & Hs & Hin).
  exists (L ++ filter seen (nrange (w_last W) (N.to_nat (e - w_last W)))). split; [|split].
  - unfold scan_trivial; wprj. rewrite HL, map_app. reflexivity.
  - apply StronglySorted_app; [assumption|apply StronglySorted_filter, nrange_sorted|].
    intros x y Hx Hy. apply Hin in Hx as [Hx _]. apply filter_In in Hy as [Hy _]. apply in_new in Hy. lia.
  - intros i. rewrite (scan_trivial_inproc seen e W i Hb), in_app_iff, filter_In, in_new, Hin. tauto.
Qed.

Lemma scan_trivial_sup seen e W : e <= cnt -> base W -> sup W -> sup (scan_trivial seen e W).
Proof.
  intros He Hb (Hnd & Hsub & Hsup & Hz).
  set (F := filter seen (nrange (w_last W) (N.to_nat (e - w_last W)))).
  assert (HF : forall i, In i F <-> w_last W <= i /\ i < e /\ seen i = true).
  { intros i. unfold F. rewrite filter_In, in_new. tauto. }
  assert (Hm : map m_idx (real (w_matches (scan_trivial seen e W))) = map m_idx (real (w_matches W)) ++ F).
  { unfold scan_trivial; wprj. fold (nrange (w_last W) (N.to_nat (e - w_last W))). fold F.
    rewrite real_app, map_app, mk0_real, map_idx_mk0; [reflexivity|].
    intros i Hi. apply HF in Hi. lia. }
  unfold sup. rewrite Hm. split; [|split; [|split]].
  - apply NoDup_app_intro; [assumption|apply NoDup_filter, nrange_NoDup|].
    intros x Hx Hx'. apply Hsub in Hx as [Hx _]. apply HF in Hx'. lia.
  - intros i H. rewrite (scan_trivial_inproc seen e W i Hb). apply in_app_or in H as [H|H]; [left; now apply Hsub|].
    right. now apply HF.
  - intros i. rewrite (scan_trivial_inproc seen e W i Hb). intros [[Hi Hni]|Hi].
    + intros Hmb. apply in_or_app. left. apply Hsup; [now split|exact Hmb].
    + intros _. apply in_or_app. right. now apply HF.
  - intros m Hm' Hp. unfold scan_trivial in Hm'; wprj. apply in_app_or in Hm' as [Hm'|Hm']; [now apply Hz|].
    apply in_map_iff in Hm' as (i & <- & _). reflexivity.
Qed.

(* ---- scan_score ---- *)
Definition sentry (seen : N -> bool) (canc : bool) (p sid i : N) : mtch * N :=
  if negb (seen i) then ({| m_score := 0; m_idx := PLACEHOLDER |}, 1)
  else if canc then ({| m_score := 0; m_idx := i |}, 0)
  else match sc p sid i with
       | Some s => ({| m_score := s; m_idx := i |}, 0)
       | None => ({| m_score := 0; m_idx := PLACEHOLDER |}, 1)
       end.
Definition sold (p sid : N) (l : list N) : list mtch :=
  flat_map (fun i => match sc p sid i with Some s => [{| m_score := s; m_idx := i |}] | None => [] end) l.

Lemma scan_score_eq seen e canc W :
  scan_score sc seen e canc W =
  let new := nrange (w_last W) (N.to_nat (e - w_last W)) in
  let es := map (sentry seen canc (w_pat W) (w_sid W)) new in
  (w_upd W (w_running W) (w_was_canceled W) (N.max e (w_last W))
     (filter (fun i => negb (seen i)) (w_in_flight W) ++ filter (fun i => negb (seen i)) new)
     (w_matches W ++ sold (w_pat W) (w_sid W) (filter seen (w_in_flight W)) ++ map fst es) (w_pat W) (w_sid W),
   fold_left (fun a e => a + snd e) es 0).
Proof. reflexivity. Qed.

Definition somb (o : option N) : bool := match o with Some _ => true | None => false end.

Lemma sold_idx p sid l :
  (forall i, In i l -> i < PLACEHOLDER) ->
  map m_idx (real (sold p sid l)) = filter (fun i => somb (sc p sid i)) l.
Proof.
  induction l as [|i l IH]; intros H; [reflexivity|].
  unfold sold in *. cbn [flat_map filter]. rewrite real_app, map_app, IH by (intros j Hj; apply H; now right).
  assert (Hi : i < PLACEHOLDER) by (apply H; now left).
  destruct (sc p sid i) as [s|]; cbn [somb]; [|reflexivity].
  unfold real, isph. cbn [filter m_idx]. destruct (N.eqb_spec i PLACEHOLDER); [lia|]. reflexivity.
Qed.

Lemma sold_in p sid l m : In m (sold p sid l) -> In (m_idx m) l /\ sc p sid (m_idx m) = Some (m_score m).
Proof.
  unfold sold. rewrite in_flat_map. intros (i & Hi & Hm).
  destruct (sc p sid i) as [s|] eqn:E; [|contradiction]. destruct Hm as [<-|[]]. cbn. now split.
Qed.

Lemma sentry_cases seen canc p sid i :
  i < PLACEHOLDER ->
  if seen i && (canc || somb (sc p sid i))
  then isph (fst (sentry seen canc p sid i)) = false /\ m_idx (fst (sentry seen canc p sid i)) = i /\
       snd (sentry seen canc p sid i) = 0
  else isph (fst (sentry seen canc p sid i)) = true /\ snd (sentry seen canc p sid i) = 1.
Proof.
  intros Hi. unfold sentry, isph.
  destruct (seen i); cbn [negb andb fst snd m_idx]; [|rewrite N.eqb_refl; now split].
  destruct canc; cbn [orb fst snd m_idx].
  - destruct (N.eqb_spec i PLACEHOLDER); [lia|]. now repeat split.
  - destruct (sc p sid i); cbn [fst snd m_idx somb]; [|rewrite N.eqb_refl; now split].
    destruct (N.eqb_spec i PLACEHOLDER); [lia|]. now repeat split.
Qed.

Lemma sentry_idx seen canc p sid l :
  (forall i, In i l -> i < PLACEHOLDER) ->
  map m_idx (real (map fst (map (sentry seen canc p sid) l))) =
  filter (fun i => seen i && (canc || somb (sc p sid i))) l.
Proof.
  induction l as [|i l IH]; intros H; [reflexivity|].
  cbn [map filter]. assert (Hi : i < PLACEHOLDER) by (apply H; now left).
  unfold real in *. cbn [filter]. rewrite <- IH by (intros j Hj; apply H; now right).
  pose proof (sentry_cases seen canc p sid i Hi) as Hc.
  destruct (seen i && (canc || somb (sc p sid i))).
  - destruct Hc as (-> & Hc & _). cbn [negb map]. now rewrite Hc.
  - destruct Hc as (-> & _). reflexivity.
Qed.

Lemma sentry_in seen canc p sid l m :
  In m (map fst (map (sentry seen canc p sid) l)) ->
  (isph m = true /\ m_score m = 0) \/
  (In (m_idx m) l /\ seen (m_idx m) = true /\ (canc = false -> sc p sid (m_idx m) = Some (m_score m))).
Proof.
  rewrite map_map, in_map_iff. intros (i & <- & Hi). unfold sentry.
  destruct (seen i) eqn:Es; cbn [negb fst]; [|left; split; [apply N.eqb_refl|reflexivity]].
  destruct canc; cbn [fst m_idx]; [right; repeat split; [assumption|assumption|discriminate]|].
  destruct (sc p sid i) eqn:E; cbn [fst m_idx m_score]; [right; now repeat split|].
  left; split; [apply N.eqb_refl|reflexivity].
Qed.

Lemma sentry_count seen canc p sid l a :
  (forall i, In i l -> i < PLACEHOLDER) ->
  fold_left (fun a e => a + snd e) (map (sentry seen canc p sid) l) a =
  a + lenN (phs (map fst (map (sentry seen canc p sid) l))).
Proof.
  revert a. induction l as [|i l IH]; intros a H; [cbn; unfold lenN; cbn; lia|].
  cbn [map fold_left]. rewrite IH by (intros j Hj; apply H; now right).
  assert (Hi : i < PLACEHOLDER) by (apply H; now left).
  unfold phs. cbn [filter].
  pose proof (sentry_cases seen canc p sid i Hi) as Hc.
  destruct (seen i && (canc || somb (sc p sid i))).
  - destruct Hc as (-> & _ & ->). lia.
  - destruct Hc as (-> & ->). unfold lenN. cbn [length]. lia.
Qed.

Lemma scan_score_meta seen e canc W : same_meta W (fst (scan_score sc seen e canc W)).
Proof. repeat split. Qed.

Lemma scan_score_inproc seen e canc W i :
  base W ->
  (inproc (fst (scan_score sc seen e canc W)) i <->
   inproc W i \/ (In i (w_in_flight W) /\ seen i = true) \/ (w_last W <= i /\ i < e /\ seen i = true)).
Proof.
  intros (Hnd & Hlt & Hle & Hpub). rewrite scan_score_eq. unfold inproc; wprj.
  rewrite in_app_iff, !filter_In, in_new. split.
  - intros [Hi Hni]. destruct (N.ltb_spec i (w_last W)) as [Hl|Hl].
    + destruct (in_dec N.eq_dec i (w_in_flight W)) as [Hin|Hnin].
      * right; left. split; [assumption|]. destruct (seen i); [reflexivity|]. exfalso. apply Hni. left. now split.
      * left. now split.
    + right; right. destruct (seen i); [lia|]. exfalso. apply Hni. right. cbn. lia.
  - intros [[Hi Hni]|[[Hin Hs]|(H1 & H2 & H3)]].
    + split; [lia|]. intros [[Hin _]|[Hin _]]; [contradiction|lia].
    + split; [apply Hlt in Hin; lia|]. rewrite Hs. cbn. intros [[_ ?]|[_ ?]]; discriminate.
    + split; [lia|]. rewrite H3. cbn. intros [[_ ?]|[_ ?]]; discriminate.
Qed.

Lemma scan_score_base seen e canc W :
  (forall i, seen i = true -> pub i = true) -> e <= cnt -> base W -> base (fst (scan_score sc seen e canc W)).
Proof.
  intros Hseen He Hb. pose proof Hb as (Hnd & Hlt & Hle & Hpub).
  unfold base. split; [|split; [|split]].
  - rewrite scan_score_eq; wprj.
    apply NoDup_app_intro; [now apply NoDup_filter|apply NoDup_filter, nrange_NoDup|].
    intros x Hx Hx'. apply filter_In in Hx as [Hx _]. apply filter_In in Hx' as [Hx' _]. apply in_new in Hx'. apply Hlt in Hx. lia.
  - rewrite scan_score_eq; wprj.
    intros i Hi. apply in_app_or in Hi as [Hi|Hi]; apply filter_In in Hi as [Hi _]; [apply Hlt in Hi; lia|].
    apply in_new in Hi. lia.
  - rewrite scan_score_eq; wprj. lia.
  - intros i Hi. apply (scan_score_inproc seen e canc W i Hb) in Hi as [Hi|[[_ Hi]|(_ & _ & Hi)]]; auto.
Qed.

Lemma matchb_nonempty p sid i : pat_is_empty p = false -> matchb p sid i = somb (sc p sid i).
Proof. intros H. unfold matchb, score_of. rewrite H. reflexivity. Qed.

Lemma scan_score_idx seen e canc W :
  e <= cnt -> base W ->
  map m_idx (real (w_matches (fst (scan_score sc seen e canc W)))) =
  map m_idx (real (w_matches W)) ++
  filter (fun i => somb (sc (w_pat W) (w_sid W) i)) (filter seen (w_in_flight W)) ++
  filter (fun i => seen i && (canc || somb (sc (w_pat W) (w_sid W) i))) (nrange (w_last W) (N.to_nat (e - w_last W))).
Proof.
  intros He (Hnd & Hlt & Hle & Hpub). rewrite scan_score_eq; wprj.
  rewrite !real_app, !map_app, sold_idx, sentry_idx; [reflexivity| |].
  - intros i Hi. apply in_new in Hi. lia.
  - intros i Hi. apply filter_In in Hi as [Hi _]. apply Hlt in Hi. lia.
Qed.

Lemma scan_score_sup seen e canc W :
  e <= cnt -> pat_is_empty (w_pat W) = false -> base W -> sup W -> sup (fst (scan_score sc seen e canc W)).
Proof.
  intros He Hne Hb (Hnd & Hsub & Hsup & Hz). pose proof Hb as (Hndi & Hlt & Hle & Hpub).
  unfold sup. rewrite (scan_score_idx seen e canc W He Hb).
  split; [|split; [|split]].
  - apply NoDup_app_intro; [assumption| |].
    + apply NoDup_app_intro; [now apply NoDup_filter, NoDup_filter|apply NoDup_filter, nrange_NoDup|].
      intros x Hx Hx'. apply filter_In in Hx as [Hx _]. apply filter_In in Hx as [Hx _].
      apply filter_In in Hx' as [Hx' _]. apply in_new in Hx'. apply Hlt in Hx. lia.
    + intros x Hx Hx'. apply Hsub in Hx as [Hx Hxn]. apply in_app_or in Hx' as [Hx'|Hx'].
      * apply filter_In in Hx' as [Hx' _]. apply filter_In in Hx' as [Hx' _]. contradiction.
      * apply filter_In in Hx' as [Hx' _]. apply in_new in Hx'. lia.
  - intros i Hi. rewrite (scan_score_inproc seen e canc W i Hb).
    apply in_app_or in Hi as [Hi|Hi]; [left; now apply Hsub|].
    apply in_app_or in Hi as [Hi|Hi].
    + apply filter_In in Hi as [Hi _]. apply filter_In in Hi. right; left. exact Hi.
    + apply filter_In in Hi as [Hi Hs]. apply in_new in Hi. apply andb_true_iff in Hs as [Hs _]. right; right. tauto.
  - intros i. rewrite (scan_score_inproc seen e canc W i Hb).
    change (w_pat (fst (scan_score sc seen e canc W))) with (w_pat W).
    change (w_sid (fst (scan_score sc seen e canc W))) with (w_sid W).
    rewrite (matchb_nonempty _ _ _ Hne). intros Hi Hm. rewrite !in_app_iff.
    destruct Hi as [Hi|[[Hi Hs]|(H1 & H2 & H3)]].
    + left. apply Hsup; [assumption|]. now rewrite (matchb_nonempty _ _ _ Hne).
    + right; left. rewrite !filter_In. tauto.
    + right; right. rewrite filter_In, in_new, H3, Hm, orb_true_r. cbn. tauto.
  - intros m Hm Hp. rewrite scan_score_eq in Hm; wprj.
    apply in_app_or in Hm as [Hm|Hm]; [now apply Hz|].
    apply in_app_or in Hm as [Hm|Hm].
    + apply sold_in in Hm as [Hm _]. apply filter_In in Hm as [Hm _]. apply Hlt in Hm.
      unfold isph in Hp. lia.
    + apply sentry_in in Hm as [[_ Hm]|(Hm & _ & _)]; [assumption|].
      apply in_new in Hm. unfold isph in Hp. lia.
Qed.

Lemma scan_score_presort seen e W :
  e <= cnt -> pat_is_empty (w_pat W) = false -> base W -> presort W 0 ->
  presort (fst (scan_score sc seen e false W)) (snd (scan_score sc seen e false W)).
Proof.
  intros He Hne Hb (Hs & Hsc & Hph). pose proof Hb as (Hndi & Hlt & Hle & Hpub).
  split; [now apply scan_score_sup|]. split.
  - intros m Hm. apply in_real in Hm as [Hm Hp].
    change (w_pat (fst (scan_score sc seen e false W))) with (w_pat W).
    change (w_sid (fst (scan_score sc seen e false W))) with (w_sid W).
    rewrite scan_score_eq in Hm; wprj.
    apply in_app_or in Hm as [Hm|Hm]; [apply Hsc; apply in_real; now split|].
    unfold score_of. rewrite Hne.
    apply in_app_or in Hm as [Hm|Hm].
    + now apply sold_in in Hm as [_ Hm].
    + apply sentry_in in Hm as [[Hm _]|(_ & _ & Hm)]; [congruence|now apply Hm].
  - rewrite scan_score_eq; wprj. rewrite sentry_count by (intros i Hi; apply in_new in Hi; lia).
    rewrite !phs_app, !lenN_app, Hph.
    assert (Hso : phs (sold (w_pat W) (w_sid W) (filter seen (w_in_flight W))) = []).
    { apply filter_none. intros m Hm. apply sold_in in Hm as [Hm _]. apply filter_In in Hm as [Hm _].
      apply Hlt in Hm. unfold isph. lia. }
    rewrite Hso. unfold lenN at 1. cbn [length]. lia.
Qed.

(* ---- rescore ---- *)
Definition rentry (p sid : N) (m : mtch) : mtch * N :=
  if m_idx m =? PLACEHOLDER then (m, 1)
  else match sc p sid (m_idx m) with
       | Some s => ({| m_score := s; m_idx := m_idx m |}, 0)
       | None => ({| m_score := 0; m_idx := PLACEHOLDER |}, 1)
       end.

Lemma rescore_eq W :
  rescore sc false W =
  (w_upd W (w_running W) (w_was_canceled W) (w_last W) (w_in_flight W)
     (map fst (map (rentry (w_pat W) (w_sid W)) (w_matches W))) (w_pat W) (w_sid W),
   fold_left (fun a e => a + snd e) (map (rentry (w_pat W) (w_sid W)) (w_matches W)) 0).
Proof. reflexivity. Qed.

Lemma rentry_cases p sid m :
  if negb (isph m) && somb (sc p sid (m_idx m))
  then isph (fst (rentry p sid m)) = false /\ m_idx (fst (rentry p sid m)) = m_idx m /\
       sc p sid (m_idx m) = Some (m_score (fst (rentry p sid m))) /\ snd (rentry p sid m) = 0
  else isph (fst (rentry p sid m)) = true /\ snd (rentry p sid m) = 1 /\
       (isph m = true -> fst (rentry p sid m) = m) /\ (isph m = false -> m_score (fst (rentry p sid m)) = 0).
Proof.
  unfold rentry. unfold isph at 1. destruct (m_idx m =? PLACEHOLDER) eqn:E; cbn [negb andb fst snd].
  - unfold isph. rewrite E. repeat split. discriminate.
  - destruct (sc p sid (m_idx m)) eqn:Es; cbn [somb fst snd m_idx m_score].
    + unfold isph. cbn [m_idx]. rewrite E. now repeat split.
    + unfold isph at 1. cbn [m_idx]. rewrite N.eqb_refl. repeat split. unfold isph. rewrite E. discriminate.
Qed.

Lemma rescore_idx p sid ms :
  map m_idx (real (map fst (map (rentry p sid) ms))) = filter (fun i => somb (sc p sid i)) (map m_idx (real ms)).
Proof.
  induction ms as [|m ms IH]; [reflexivity|].
  cbn [map]. unfold real in *. cbn [filter].
  pose proof (rentry_cases p sid m) as Hc.
  destruct (isph m) eqn:Em; cbn [negb andb] in *.
  - destruct Hc as (-> & _). cbn [negb]. exact IH.
  - cbn [map filter]. destruct (somb (sc p sid (m_idx m))).
    + destruct Hc as (-> & Hc & _). cbn [negb map]. rewrite Hc, IH. reflexivity.
    + destruct Hc as (-> & _). cbn [negb]. exact IH.
Qed.

Lemma rescore_count p sid ms a :
  fold_left (fun a e => a + snd e) (map (rentry p sid) ms) a = a + lenN (phs (map fst (map (rentry p sid) ms))).
Proof.
  clear Hcnt cnt pub ln. revert a. induction ms as [|m ms IH]; intros a; [cbn; unfold lenN; cbn; lia|].
  cbn [map fold_left]. rewrite IH. unfold phs. cbn [filter].
  pose proof (rentry_cases p sid m) as Hc.
  destruct (negb (isph m) && somb (sc p sid (m_idx m))).
  - destruct Hc as (-> & _ & _ & ->). lia.
  - destruct Hc as (-> & -> & _). unfold lenN. cbn [length]. lia.
Qed.

Lemma base_ext W W' : w_last W' = w_last W -> w_in_flight W' = w_in_flight W -> base W -> base W'.
Proof. unfold base, inproc. intros -> ->. tauto. Qed.

Lemma rescore_meta canc W : same_meta W (fst (rescore sc canc W)).
Proof. destruct canc; repeat split. Qed.

Lemma rescore_base canc W : base W -> base (fst (rescore sc canc W)).
Proof. destruct canc; [exact (fun H => H)|]. apply base_ext; reflexivity. Qed.

Lemma rescore_presort W :
  pat_is_empty (w_pat W) = false -> sup W ->
  presort (fst (rescore sc false W)) (snd (rescore sc false W)).
Proof.
  intros Hne (Hnd & Hsub & Hsup & Hz). rewrite rescore_eq. cbn [fst snd].
  split; [|split].
  - unfold sup, inproc in *; wprj. rewrite rescore_idx. split; [|split; [|split]].
    + now apply NoDup_filter.
    + intros i Hi. apply filter_In in Hi as [Hi _]. now apply Hsub.
    + intros i Hi Hm. apply filter_In. split; [now apply Hsup|]. now rewrite <- (matchb_nonempty _ _ _ Hne).
    + intros m' Hm' Hp. rewrite map_map in Hm'. apply in_map_iff in Hm' as (m & <- & Hm).
      pose proof (rentry_cases (w_pat W) (w_sid W) m) as Hc.
      destruct (negb (isph m) && somb (sc (w_pat W) (w_sid W) (m_idx m))); [destruct Hc; congruence|].
      destruct Hc as (_ & _ & H1 & H2). destruct (isph m) eqn:Em.
      * rewrite (H1 eq_refl). now apply Hz.
      * now apply H2.
  - unfold scored; wprj. intros m' Hm'. apply in_real in Hm' as [Hm' Hp].
    rewrite map_map in Hm'. apply in_map_iff in Hm' as (m & <- & Hm).
    pose proof (rentry_cases (w_pat W) (w_sid W) m) as Hc.
    destruct (negb (isph m) && somb (sc (w_pat W) (w_sid W) (m_idx m))); [|destruct Hc; congruence].
    destruct Hc as (_ & Hi & Hs & _). unfold score_of. rewrite Hne, Hi. exact Hs.
  - wprj. rewrite rescore_count. lia.
Qed.

(* ---- run_sort ---- *)
Lemma Permutation_filter' {A} (f : A -> bool) l l' : Permutation l l' -> Permutation (filter f l) (filter f l').
Proof.
  induction 1 as [|x l l' HP IH|x y l|l l' l'' HP1 IH1 HP2 IH2]; cbn.
  - constructor.
  - destruct (f x); [now constructor|assumption].
  - destruct (f x), (f y); try reflexivity. apply perm_swap.
  - now transitivity (filter f l').
Qed.

Lemma run_sort_meta canc unm W :
  let W' := fst (run_sort ln canc unm W) in
  w_pat W' = w_pat W /\ w_sid W' = w_sid W /\ w_running W' = w_running W /\
  w_was_canceled W' = (if canc then true else w_was_canceled W) /\
  w_last W' = w_last W /\ w_in_flight W' = w_in_flight W /\
  snd (run_sort ln canc unm W) = REnd (negb canc) /\
  (canc = true -> w_matches W' = w_matches W).
Proof. destruct canc; cbn; repeat split; discriminate. Qed.

Lemma run_sort_clean unm W :
  pat_is_empty (w_pat W) = false -> presort W unm -> clean (fst (run_sort ln false unm W)).
Proof.
  intros Hne ((Hnd & Hsub & Hsup & Hz) & Hsc & Hph).
  unfold run_sort. cbn [fst].
  set (sorted := sort_matches ln (w_sid W) (w_matches W)).
  assert (HP : Permutation sorted (w_matches W)) by apply sort_matches_perm.
  assert (HS : StronglySorted (mle ln (w_sid W)) sorted) by apply sort_matches_sorted.
  assert (Hz' : forall m, In m sorted -> isph m = true -> m_score m = 0).
  { intros m Hm. apply Hz. eapply Permutation_in; eauto. }
  assert (Hk : length (phs sorted) = N.to_nat unm).
  { unfold phs. rewrite (Permutation_length (Permutation_filter' isph _ _ HP)).
    unfold lenN, phs in Hph. lia. }
  rewrite (firstn_drop_phs ln (w_sid W) sorted (N.to_nat unm) HS Hz' Hk).
  assert (HPr : Permutation (real sorted) (real (w_matches W))) by (apply Permutation_filter'; exact HP).
  assert (HPi : Permutation (map m_idx (real sorted)) (map m_idx (real (w_matches W)))) by (now apply Permutation_map).
  unfold clean, sup, scored, sortedp, inproc in *; wprj. rewrite real_idem.
  split; [split; [|split; [|split]]|split; [|split]].
  - eapply Permutation_NoDup; [symmetry; exact HPi|assumption].
  - intros i Hi. apply Hsub. eapply Permutation_in; eauto.
  - intros i Hi Hm. eapply Permutation_in; [symmetry; exact HPi|]. now apply Hsup.
  - intros m Hm Hp. apply in_real in Hm. destruct Hm; congruence.
  - intros m Hm. apply Hsc. eapply Permutation_in; eauto.
  - intros m Hm. now apply in_real in Hm.
  - rewrite Hne. apply StronglySorted_weaken with (R := mle ln (w_sid W)).
    + intros x y Hx Hy. apply in_real in Hx as [_ Hx]. apply in_real in Hy as [_ Hy]. now apply mle_key_le.
    + now apply StronglySorted_filter.
Qed.

(* ---- run_work ---- *)
Definition startinv (status : pstatus) (cleared : bool) (W : worker) : Prop :=
  cleared = true \/
  (base W /\ match status with Unchanged => clean W | Update => sup W | Rescore => True end).

Definition empty_worker (W : worker) : worker := w_upd W (w_running W) (w_was_canceled W) 0 [] [] (w_pat W) (w_sid W).

Lemma empty_worker_ok W : base (empty_worker W) /\ clean (empty_worker W) /\ sup (empty_worker W).
Proof.
  assert (Hs : sup (empty_worker W)).
  { unfold sup, inproc; cbn. repeat split; try constructor; try contradiction; try lia. }
  split; [|split; [|assumption]].
  - unfold base, inproc; cbn. repeat split; try constructor; try contradiction; try lia.
  - split; [assumption|]. unfold scored, sortedp; cbn. repeat split; try contradiction.
    destruct (pat_is_empty (w_pat W)); constructor.
Qed.

Lemma sup_nil_presort W : w_matches W = [] -> sup W -> presort W 0.
Proof.
  intros He Hs. split; [assumption|]. unfold scored. rewrite He. cbn. split; [contradiction|reflexivity].
Qed.

Lemma run_work_spec seen e canc status cleared W :
  (forall i, seen i = true -> pub i = true) -> e <= cnt -> startinv status cleared W ->
  let r := run_work sc seen e canc status cleared W in
  base (fst r) /\ same_meta W (fst r) /\
  match snd r with
  | RStart => False
  | RSort unm => pat_is_empty (w_pat W) = false /\ sup (fst r) /\ (canc = false -> presort (fst r) unm)
  | REnd c => c = true /\ clean (fst r)
  end.
Proof.
  intros Hseen He Hst. unfold run_work. fold (empty_worker W).
  set (W0 := if cleared then empty_worker W else W).
  assert (H0 : base W0 /\ match status with Unchanged => clean W0 | Update => sup W0 | Rescore => True end /\ same_meta W W0).
  { unfold W0. destruct cleared.
    - pose proof (empty_worker_ok W) as (Hb & Hc & Hs). split; [assumption|]. split; [destruct status; auto|repeat split].
    - destruct Hst as [Hst|[Hb Hst]]; [discriminate|]. split; [assumption|]. split; [assumption|apply same_meta_refl]. }
  clearbody W0. clear Hst. destruct H0 as (Hb0 & Hst0 & Hm0).
  assert (Hpat : w_pat W0 = w_pat W) by apply Hm0.
  destruct (pat_is_empty (w_pat W0)) eqn:Hpe; cbn zeta.
  - (* empty pattern *)
    cbn [fst snd]. destruct (reset_spec seen W0 Hseen Hb0) as [Hb1 Ht1].
    pose proof (scan_trivial_base seen e _ Hseen He Hb1) as Hb2.
    pose proof (scan_trivial_trivm seen e _ He Hb1 Ht1) as Ht2.
    split; [assumption|]. split.
    + eapply same_meta_trans; [exact Hm0|]. eapply same_meta_trans; [apply reset_meta|apply scan_trivial_meta].
    + split; [reflexivity|]. apply trivm_clean; assumption.
  - set (W1 := match status with Rescore => reset_matches seen W0 | _ => W0 end).
    assert (H1 : base W1 /\ sup W1 /\ (status = Unchanged -> clean W1) /\ same_meta W0 W1).
    { unfold W1. destruct status.
      - split; [assumption|]. split; [apply Hst0|]. split; [intros _; assumption|apply same_meta_refl].
      - split; [assumption|]. split; [assumption|]. split; [discriminate|apply same_meta_refl].
      - destruct (reset_spec seen W0 Hseen Hb0) as [Hb1 Ht1]. split; [assumption|].
        split; [now apply trivm_sup|]. split; [discriminate|apply reset_meta]. }
    clearbody W1. destruct H1 as (Hb1 & Hs1 & Hc1 & Hm1).
    assert (Hm01 : same_meta W W1) by (eapply same_meta_trans; eassumption).
    assert (Hpe1 : pat_is_empty (w_pat W1) = false) by (destruct Hm1 as (-> & _); assumption).
    assert (Hpe' : pat_is_empty (w_pat W) = false) by (rewrite <- Hpat; assumption).
    assert (HA : let r := (let '(w2, unm) := scan_score sc seen e canc W1 in (w2, RSort unm)) in
                 (w_matches W1 = [] \/ status = Unchanged) ->
                 base (fst r) /\ same_meta W (fst r) /\
                 match snd r with RStart => False
                 | RSort unm => pat_is_empty (w_pat W) = false /\ sup (fst r) /\ (canc = false -> presort (fst r) unm)
                 | REnd c => c = true /\ clean (fst r) end).
    { intros r Hor. unfold r. rewrite (surjective_pairing (scan_score sc seen e canc W1)). cbn [fst snd].
      split; [now apply scan_score_base|]. split.
      - eapply same_meta_trans; [exact Hm01|apply scan_score_meta].
      - split; [assumption|]. split; [now apply scan_score_sup|].
        intros ->. apply scan_score_presort; try assumption.
        destruct Hor as [Hnil| ->]; [now apply sup_nil_presort|now apply clean_presort, Hc1]. }
    assert (HB : let r := (let '(w2, unm) := rescore sc canc (scan_trivial seen e W1) in (w2, RSort unm)) in
                 base (fst r) /\ same_meta W (fst r) /\
                 match snd r with RStart => False
                 | RSort unm => pat_is_empty (w_pat W) = false /\ sup (fst r) /\ (canc = false -> presort (fst r) unm)
                 | REnd c => c = true /\ clean (fst r) end).
    { intros r. unfold r. rewrite (surjective_pairing (rescore sc canc (scan_trivial seen e W1))). cbn [fst snd].
      pose proof (scan_trivial_base seen e _ Hseen He Hb1) as Hb2.
      pose proof (scan_trivial_sup seen e _ He Hb1 Hs1) as Hs2.
      split; [now apply rescore_base|]. split.
      - eapply same_meta_trans; [exact Hm01|]. eapply same_meta_trans; [apply scan_trivial_meta|apply rescore_meta].
      - split; [assumption|]. destruct canc.
        + split; [exact Hs2|discriminate].
        + assert (Hp : presort (fst (rescore sc false (scan_trivial seen e W1))) (snd (rescore sc false (scan_trivial seen e W1)))).
          { apply rescore_presort; [exact Hpe1|exact Hs2]. }
          split; [apply Hp|intros _; exact Hp]. }
    destruct status.
    + apply HA. now right.
    + destruct (w_matches W1) eqn:Ems; [apply HA; now left|apply HB].
    + destruct (w_matches W1) eqn:Ems; [apply HA; now left|apply HB].
Qed.

End Worker.

(* ================================================================================================== *)
(* Part D: streams                                                                                     *)
(* ================================================================================================== *)
Definition cntS (st : list (N * list bool)) (sid : N) : N := lenN (stream_of sid st).
Definition pubS (st : list (N * list bool)) (sid i : N) : bool := nth (N.to_nat i) (stream_of sid st) false.
Definition pcS (st : list (N * list bool)) (sid : N) : N := lenN (filter (fun b : bool => b) (stream_of sid st)).

Lemma stream_of_set_same sid v l : stream_of sid (set_stream sid v l) = v.
Proof.
  induction l as [|[k v'] l IH]; cbn; [now rewrite N.eqb_refl|].
  destruct (N.eqb_spec k sid) as [->|Hne]; cbn; [now rewrite N.eqb_refl|].
  destruct (N.eqb_spec k sid); [contradiction|assumption].
Qed.

Lemma stream_of_set_other sid sid' v l : sid' <> sid -> stream_of sid' (set_stream sid v l) = stream_of sid' l.
Proof.
  intros Hne. induction l as [|[k v'] l IH]; cbn.
  - destruct (N.eqb_spec sid sid'); [congruence|reflexivity].
  - destruct (N.eqb_spec k sid) as [->|Hne']; cbn.
    + destruct (N.eqb_spec sid sid'); [congruence|reflexivity].
    + destruct (N.eqb_spec k sid'); [reflexivity|assumption].
Qed.

(* streams only grow: counts, published flags and published counts are monotone *)
Definition sgrow (st st' : list (N * list bool)) : Prop :=
  forall sid, cntS st sid <= cntS st' sid /\ (forall i, pubS st sid i = true -> pubS st' sid i = true) /\
              pcS st sid <= pcS st' sid.

Lemma sgrow_refl st : sgrow st st.
Proof. intros sid. repeat split; auto; lia. Qed.

Lemma sgrow_same st st' : (forall sid, stream_of sid st' = stream_of sid st) -> sgrow st st'.
Proof. intros H sid. unfold cntS, pubS, pcS. rewrite H. repeat split; auto; lia. Qed.

Lemma sgrow_set st sid v :
  (length (stream_of sid st) <= length v)%nat ->
  (forall n, nth n (stream_of sid st) false = true -> nth n v false = true) ->
  (length (filter (fun b : bool => b) (stream_of sid st)) <= length (filter (fun b : bool => b) v))%nat ->
  sgrow st (set_stream sid v st).
Proof.
  intros H1 H2 H3 sid'. unfold cntS, pubS, pcS. destruct (N.eq_dec sid' sid) as [->|Hne].
  - rewrite stream_of_set_same. unfold lenN. repeat split; auto; lia.
  - rewrite stream_of_set_other by assumption. repeat split; auto; lia.
Qed.

Lemma set_nth_length {A} n (v : A) l : length (set_nth n v l) = length l.
Proof. revert n. induction l as [|x l IH]; intros [|n]; cbn; auto. Qed.

Lemma set_nth_true n l k : nth k l false = true -> nth k (set_nth n true l) false = true.
Proof.
  revert n k. induction l as [|x l IH]; intros [|n] [|k]; cbn; auto.
Qed.

Lemma set_nth_count n l :
  (length (filter (fun b : bool => b) l) <= length (filter (fun b : bool => b) (set_nth n true l)))%nat.
Proof.
  revert n. induction l as [|x l IH]; intros [|n]; cbn; auto.
  - destruct x; cbn; lia.
  - specialize (IH n). destruct x; cbn; lia.
Qed.

Lemma sgrow_reserve st sid : sgrow st (set_stream sid (stream_of sid st ++ [false]) st).
Proof.
  apply sgrow_set.
  - rewrite app_length. lia.
  - intros n Hn. destruct (Nat.lt_ge_cases n (length (stream_of sid st))) as [Hl|Hl].
    + now rewrite app_nth1.
    + rewrite nth_overflow in Hn by assumption. discriminate.
  - rewrite filter_app. cbn. rewrite app_nil_r. lia.
Qed.

Lemma sgrow_publish st sid i : sgrow st (set_stream sid (set_nth i true (stream_of sid st)) st).
Proof.
  apply sgrow_set.
  - now rewrite set_nth_length.
  - intros n. apply set_nth_true.
  - apply set_nth_count.
Qed.

Lemma pcS_le_cntS st sid : pcS st sid <= cntS st sid.
Proof. unfold pcS, cntS, lenN. pose proof (filter_length_le (fun b : bool => b) (stream_of sid st)). lia. Qed.

Definition fresh_streams (st : list (N * list bool)) (ns : N) : Prop :=
  forall sid, ns <= sid -> stream_of sid st = [].

Lemma sgrow_restart st ns : fresh_streams st ns -> sgrow st (set_stream ns [] st).
Proof.
  intros Hf. apply sgrow_same. intros sid. destruct (N.eq_dec sid ns) as [->|Hne].
  - rewrite stream_of_set_same. symmetry. apply Hf. lia.
  - now apply stream_of_set_other.
Qed.

Lemma fresh_set st ns ns' sid v : fresh_streams st ns -> sid < ns' -> ns <= ns' -> fresh_streams (set_stream sid v st) ns'.
Proof.
  intros Hf Hs Hn sid' Hsid'. rewrite stream_of_set_other by lia. apply Hf. lia.
Qed.

(* ================================================================================================== *)
(* Part E: the fields of the state the invariant talks about, and how each step changes them           *)
(* ================================================================================================== *)
Ltac sprj := cbn [streams cur next_sid ui_state ui_pat ui_status snap wk lock canceled should_notify tpc
  last_tick notifies injectors post g_snap_begin g_pub_begin g_owed
  upd_ghost upd_streams upd_cur upd_ui_state upd_pat upd_snap upd_wk upd_lock upd_canceled upd_notify upd_tpc
  upd_last_tick0 upd_last_tick upd_notifies upd_injectors upd_post
  w_running w_was_canceled w_last w_in_flight w_matches w_pat w_sid w_upd
  sn_count sn_matches sn_pat sn_sid fst snd] in *.

Definition core (s : nstate) :=
  (streams s, cur s, next_sid s, ui_state s, ui_pat s, ui_status s, snap s, wk s, lock s, canceled s, tpc s,
   last_tick s, g_pub_begin s).

Definition isfresh (u : ustate) : bool := match u with SFresh => true | _ => false end.
Definition wsnap (w : worker) : snapshot :=
  {| sn_count := item_count w; sn_matches := w_matches w; sn_pat := w_pat w; sn_sid := w_sid w |}.

Definition tick_body' (b : bool) (s : nstate) (cflag : bool) (status : pstatus) (second : bool) (changed1 : bool) (t0 : bool) : nstate :=
  let w := wk s in
  let changed := w_running w in
  let running := cflag || b in
  let s1 :=
    if w_running w then
      let w' := w_upd w false (w_was_canceled w) (w_last w) (w_in_flight w) (w_matches w) (w_pat w) (w_sid w) in
      let s' := upd_wk s w' in
      if negb (w_was_canceled w) && (match ui_state s with SFresh => true | _ => false end)
      then upd_snap s' {| sn_count := item_count w; sn_matches := w_matches w; sn_pat := w_pat w; sn_sid := w_sid w |}
      else s'
    else s in
  if running then
    let w1 := wk s1 in
    let s2 := upd_wk s1 (w_upd w1 (w_running w1) (w_was_canceled w1) (w_last w1) (w_in_flight w1) (w_matches w1) (ui_pat s1) (w_sid w1)) in
    let s3 := upd_canceled s2 false in
    let s4 := if cflag then s3 else upd_notify s3 true in
    let cleared := match ui_state s4 with SFresh => false | _ => true end in
    let w4 := wk s4 in
    let s5 := if cleared then upd_wk s4 (w_upd w4 (w_running w4) (w_was_canceled w4) (w_last w4) (w_in_flight w4) (w_matches w4) (w_pat w4) (cur s4)) else s4 in
    upd_tpc (upd_lock s5 HeldTick) (TBeforeSpawn cflag status cleared changed second changed1 t0)
  else
    let s2 := upd_lock s1 Free in
    if second then upd_last_tick s2 (changed1 || changed, false)
    else if cflag then upd_last_tick s2 (changed, false)
    else upd_last_tick s2 (changed, false).

Lemma tick_body_eq s cflag status second changed1 t0 :
  tick_body s cflag status second changed1 t0 =
  tick_body' (item_count (wk s) <? count_of s (cur s)) s cflag status second changed1 t0.
Proof. reflexivity. Qed.

Lemma core_tick_body' b s cflag status second changed1 t0 :
  let w := wk s in
  let running := cflag || b in
  let pick := w_running w && negb (w_was_canceled w) && isfresh (ui_state s) in
  core (tick_body' b s cflag status second changed1 t0) =
  (streams s, cur s, next_sid s, ui_state s, ui_pat s, ui_status s,
   (if pick then wsnap w else snap s),
   w_upd w false (w_was_canceled w) (w_last w) (w_in_flight w) (w_matches w)
        (if running then ui_pat s else w_pat w)
        (if running && negb (isfresh (ui_state s)) then cur s else w_sid w),
   (if running then HeldTick else Free),
   (if running then false else canceled s),
   (if running then TBeforeSpawn cflag status (negb (isfresh (ui_state s))) (w_running w) second changed1 t0 else TIdle),
   (if running then last_tick s else Some ((if second then changed1 || w_running w else w_running w), false)),
   g_pub_begin s).
Proof.
  destruct s as [st cu ns us up ust sn w lk cn sno tp lt nts inj po gsb gpb go].
  destruct w as [wr wc wl wi wm wp ws].
  destruct b, cflag, wr, wc, us, second; reflexivity.
Qed.

Lemma core_tick_body s cflag status second changed1 t0 :
  let w := wk s in
  let running := cflag || (item_count w <? cntS (streams s) (cur s)) in
  let pick := w_running w && negb (w_was_canceled w) && isfresh (ui_state s) in
  core (tick_body s cflag status second changed1 t0) =
  (streams s, cur s, next_sid s, ui_state s, ui_pat s, ui_status s,
   (if pick then wsnap w else snap s),
   w_upd w false (w_was_canceled w) (w_last w) (w_in_flight w) (w_matches w)
        (if running then ui_pat s else w_pat w)
        (if running && negb (isfresh (ui_state s)) then cur s else w_sid w),
   (if running then HeldTick else Free),
   (if running then false else canceled s),
   (if running then TBeforeSpawn cflag status (negb (isfresh (ui_state s))) (w_running w) second changed1 t0 else TIdle),
   (if running then last_tick s else Some ((if second then changed1 || w_running w else w_running w), false)),
   g_pub_begin s).
Proof. rewrite tick_body_eq. apply core_tick_body'. Qed.

(* ================================================================================================== *)
(* Part F: the invariant                                                                               *)
(* ================================================================================================== *)
Definition same_data (W W' : worker) : Prop :=
  w_last W' = w_last W /\ w_in_flight W' = w_in_flight W /\ w_matches W' = w_matches W /\
  w_pat W' = w_pat W /\ w_sid W' = w_sid W.

Lemma same_data_refl W : same_data W W.
Proof. repeat split. Qed.

Section Inv.
Variable sc : N -> N -> N -> option N.
Variable ln : N -> N -> N.

Lemma base_mono pub cnt pub' cnt' W :
  (forall i, pub i = true -> pub' i = true) -> cnt <= cnt' -> base pub cnt W -> base pub' cnt' W.
Proof. intros Hp Hc (H1 & H2 & H3 & H4). repeat split; auto. lia. Qed.

Lemma base_data pub cnt W W' : same_data W W' -> base pub cnt W -> base pub cnt W'.
Proof. intros (E1 & E2 & _). now apply base_ext. Qed.

Lemma sup_data W W' : same_data W W' -> sup sc W -> sup sc W'.
Proof. unfold sup, inproc. intros (-> & -> & -> & -> & ->). tauto. Qed.

Lemma scored_data W W' : same_data W W' -> scored sc W -> scored sc W'.
Proof. unfold scored. intros (_ & _ & -> & -> & ->). tauto. Qed.

Lemma presort_data W W' u : same_data W W' -> presort sc W u -> presort sc W' u.
Proof.
  intros Hd (H1 & H2 & H3). split; [eapply sup_data; eauto|]. split; [eapply scored_data; eauto|].
  destruct Hd as (_ & _ & -> & _). exact H3.
Qed.

Lemma clean_data W W' : same_data W W' -> clean sc ln W -> clean sc ln W'.
Proof.
  intros Hd (H1 & H2 & H3 & H4). split; [eapply sup_data; eauto|]. split; [eapply scored_data; eauto|].
  destruct Hd as (_ & _ & Em & Ep & Es). unfold sortedp. rewrite Em, Ep, Es. now split.
Qed.

Lemma startinv_data pub cnt status cleared W W' :
  same_data W W' -> startinv sc ln pub cnt status cleared W -> startinv sc ln pub cnt status cleared W'.
Proof.
  intros Hd [H|[Hb H]]; [now left|right]. split; [eapply base_data; eauto|].
  destruct status; [eapply clean_data; eauto|eapply sup_data; eauto|exact I].
Qed.

Lemma startinv_mono pub cnt pub' cnt' status cleared W :
  (forall i, pub i = true -> pub' i = true) -> cnt <= cnt' ->
  startinv sc ln pub cnt status cleared W -> startinv sc ln pub' cnt' status cleared W.
Proof. intros Hp Hc [H|[Hb H]]; [now left|right]. split; [eapply base_mono; eauto|exact H]. Qed.

(* a refinement of the pattern keeps the superset property *)
Lemma sup_refine W W' :
  w_last W' = w_last W -> w_in_flight W' = w_in_flight W -> w_matches W' = w_matches W -> w_sid W' = w_sid W ->
  refines sc (w_pat W') (w_pat W) -> sup sc W -> sup sc W'.
Proof.
  unfold sup, inproc. intros -> -> -> -> Hr (H1 & H2 & H3 & H4). split; [assumption|]. split; [assumption|]. split; [|assumption].
  intros i Hi Hm. apply H3; [assumption|]. unfold matchb in *.
  specialize (Hr (w_sid W) i). destruct (score_of sc (w_pat W') (w_sid W) i); [|discriminate].
  destruct (score_of sc (w_pat W) (w_sid W) i); [reflexivity|]. exfalso. apply Hr; [discriminate|reflexivity].
Qed.

Lemma clean_sup W : clean sc ln W -> sup sc W.
Proof. now intros (H & _). Qed.

(* ---- the snapshot clause (the body of C06) ---- *)
Definition snap_okF (st : list (N * list bool)) (sn : snapshot) : Prop :=
  NoDup (map m_idx (sn_matches sn)) /\
  (forall m, In m (sn_matches sn) ->
     m_idx m <> PLACEHOLDER /\ pubS st (sn_sid sn) (m_idx m) = true /\
     score_of sc (sn_pat sn) (sn_sid sn) (m_idx m) = Some (m_score m)) /\
  (exists proc : list N,
     NoDup proc /\ lenN proc = sn_count sn /\
     (forall i, In i proc -> pubS st (sn_sid sn) i = true) /\
     (forall m, In m (sn_matches sn) -> In (m_idx m) proc) /\
     (forall i, In i proc -> score_of sc (sn_pat sn) (sn_sid sn) i <> None -> In i (map m_idx (sn_matches sn)))) /\
  (if pat_is_empty (sn_pat sn) then StronglySorted (fun a b => m_idx a <= m_idx b) (sn_matches sn)
   else StronglySorted (key_le ln (sn_sid sn)) (sn_matches sn)).

Lemma snap_ok_mono st st' sn : sgrow st st' -> snap_okF st sn -> snap_okF st' sn.
Proof.
  intros Hg (H1 & H2 & (proc & P1 & P2 & P3 & P4 & P5) & H4).
  split; [assumption|]. split; [|split; [|assumption]].
  - intros m Hm. destruct (H2 m Hm) as (A & B & C). repeat split; auto. now apply (Hg (sn_sid sn)).
  - exists proc. repeat split; auto. intros i Hi. apply (Hg (sn_sid sn)). now apply P3.
Qed.

Lemma snap_ok_empty st p sid : snap_okF st {| sn_count := 0; sn_matches := []; sn_pat := p; sn_sid := sid |}.
Proof.
  unfold snap_okF; cbn. split; [constructor|]. split; [contradiction|]. split.
  - exists []. repeat split; try constructor; try contradiction.
  - destruct (pat_is_empty p); constructor.
Qed.

Lemma clean_snap_ok st W :
  cntS st (w_sid W) <= PLACEHOLDER ->
  base (pubS st (w_sid W)) (cntS st (w_sid W)) W -> clean sc ln W -> snap_okF st (wsnap W).
Proof.
  intros Hcnt Hb ((Hnd & Hsub & Hsup & Hz) & Hsc & Hn & Hso). pose proof Hb as (Hndi & Hlt & Hle & Hpub).
  rewrite (real_all _ Hn) in *.
  unfold snap_okF, wsnap; cbn [sn_count sn_matches sn_pat sn_sid].
  split; [assumption|]. split; [|split; [|exact Hso]].
  - intros m Hm. assert (Hi : inproc W (m_idx m)) by (apply Hsub; now apply in_map).
    split; [|split].
    + specialize (Hn m Hm). unfold isph in Hn. now apply N.eqb_neq in Hn.
    + now apply Hpub.
    + apply Hsc. now rewrite (real_all _ Hn).
  - exists (filter (fun i => negb (existsb (N.eqb i) (w_in_flight W))) (nrange 0 (N.to_nat (w_last W)))).
    assert (Hin : forall i, In i (filter (fun i => negb (existsb (N.eqb i) (w_in_flight W))) (nrange 0 (N.to_nat (w_last W)))) <-> inproc W i).
    { intros i. rewrite filter_In, in_nrange, negb_true_iff, existsb_eqb_false. unfold inproc. intuition lia. }
    split; [apply NoDup_filter, nrange_NoDup|]. split; [|split; [|split]].
    + unfold item_count, lenN.
      assert (Hc := count_complement (w_in_flight W) (N.to_nat (w_last W)) Hndi).
      assert (Hc' : forall i, In i (w_in_flight W) -> i < N.of_nat (N.to_nat (w_last W))).
      { intros i Hi. apply Hlt in Hi. lia. }
      specialize (Hc Hc'). lia.
    + intros i Hi. apply Hpub. now apply Hin.
    + intros m Hm. apply Hin. apply Hsub. now apply in_map.
    + intros i Hi Hm. apply Hsup; [now apply Hin|]. unfold matchb.
      destruct (score_of sc (w_pat W) (w_sid W) i); [reflexivity|congruence].
Qed.

(* ---- the worker clause ---- *)
Definition wk_inv (st : list (N * list bool)) (W : worker) (lk : lockst) (tp : tickpc) (cn : bool) : Prop :=
  let pub := pubS st (w_sid W) in let cnt := cntS st (w_sid W) in
  match lk with
  | Free => base pub cnt W /\ sup sc W /\ (w_was_canceled W = false -> clean sc ln W)
  | HeldTick =>
    match tp with
    | TBeforeSpawn _ status cleared _ _ _ _ => startinv sc ln pub cnt status cleared W
    | _ => False
    end
  | HeldRun RStart status cleared =>
    startinv sc ln pub cnt status cleared W /\ w_was_canceled W = false /\ w_running W = true
  | HeldRun (RSort unm) _ _ =>
    base pub cnt W /\ sup sc W /\ pat_is_empty (w_pat W) = false /\ (cn = false -> presort sc W unm) /\
    w_was_canceled W = false /\ w_running W = true
  | HeldRun (REnd c) _ _ =>
    base pub cnt W /\ sup sc W /\ (c = true -> clean sc ln W) /\ w_was_canceled W = negb c /\ w_running W = true
  end.

(* ---- the UI-side clause ---- *)
Definition patrel (status : pstatus) (p' p : N) : Prop :=
  match status with Unchanged => p' = p | Update => refines sc p' p | Rescore => True end.
Definition is_beforelock (t : tickpc) : bool := match t with TBeforeLock _ _ => true | _ => false end.
Definition is_spawn (t : tickpc) : bool := match t with TBeforeSpawn _ _ _ _ _ _ _ => true | _ => false end.

Definition ui_inv (cu : N) (us : ustate) (up : N) (ust : pstatus) (W : worker) (lk : lockst) (cn : bool) (tp : tickpc) : Prop :=
  (match tp with
   | TIdle | TBegun _ => patrel ust up (w_pat W)
   | TBeforeLock status _ => patrel status up (w_pat W) /\ ust = Unchanged /\ (status = Unchanged -> us <> SFresh)
   | TBeforeTry _ _ _ | TTryFailed _ _ | TAfterRearm _ _ => up = w_pat W /\ ust = Unchanged /\ us = SFresh
   | TBeforeSpawn _ _ _ _ _ _ _ => w_pat W = up /\ lk = HeldTick /\ ust = Unchanged /\ cn = false /\ w_sid W = cu
   end) /\
  (cn = true -> is_beforelock tp = true \/ us <> SFresh) /\
  (w_was_canceled W = true -> cn = true \/ is_spawn tp = true) /\
  (us = SFresh -> w_sid W = cu).

(* ---- the extra bookkeeping for C07 ---- *)
Definition c07_inv (st : list (N * list bool)) (cu : N) (us : ustate) (sn : snapshot) (W : worker) (lk : lockst)
  (tp : tickpc) (lt : option (bool * bool)) (gpb : N) : Prop :=
  (lk = Free -> w_running W = false -> us = SFresh -> sn = wsnap W /\ w_was_canceled W = false) /\
  (tp = TIdle -> (exists c, lt = Some (c, false)) -> w_running W = false) /\
  (tp <> TIdle \/ us = SFresh -> gpb <= pcS st cu) /\
  (tp = TIdle -> (exists c, lt = Some (c, false)) -> us = SFresh -> lk = Free -> gpb <= item_count W).

Definition InvF st cu ns us up ust sn W lk cn tp lt gpb : Prop :=
  fresh_streams st ns /\ snap_okF st sn /\ wk_inv st W lk tp cn /\ ui_inv cu us up ust W lk cn tp /\
  c07_inv st cu us sn W lk tp lt gpb.

Definition Inv (s : nstate) : Prop :=
  let '(st, cu, ns, us, up, ust, sn, W, lk, cn, tp, lt, gpb) := core s in
  InvF st cu ns us up ust sn W lk cn tp lt gpb.

Definition boundedS (st : list (N * list bool)) : Prop := forall sid, cntS st sid <= PLACEHOLDER.

Lemma inv_init : Inv init_nstate.
Proof.
  unfold Inv, core, init_nstate; sprj. unfold InvF. split; [|split; [|split; [|split]]].
  - intros sid Hs. cbn [stream_of]. destruct (0 =? sid); reflexivity.
  - apply snap_ok_empty.
  - unfold wk_inv. fold (empty_worker init_worker).
    assert (H0 : cntS [(0, [])] 0 <= PLACEHOLDER) by (cbv; discriminate).
    destruct (empty_worker_ok sc ln (pubS [(0, [])] 0) (cntS [(0, [])] 0) H0 init_worker) as (Hb & Hc & Hs).
    split; [exact Hb|]. split; [exact Hs|]. intros _. exact Hc.
  - unfold ui_inv; cbn. repeat split; try discriminate.
  - unfold c07_inv; cbn. repeat split; try discriminate.
Qed.


(* ================================================================================================== *)
(* Part G: preservation, event by event                                                                *)
(* ================================================================================================== *)
Lemma wk_inv_mono st st' W lk tp cn : sgrow st st' -> wk_inv st W lk tp cn -> wk_inv st' W lk tp cn.
Proof.
  intros Hg. unfold wk_inv.
  assert (Hp : forall i, pubS st (w_sid W) i = true -> pubS st' (w_sid W) i = true) by apply (Hg (w_sid W)).
  assert (Hc : cntS st (w_sid W) <= cntS st' (w_sid W)) by apply (Hg (w_sid W)).
  destruct lk as [| |[|unm|c] status cleared].
  - intros (H1 & H2). split; [eapply base_mono; eauto|exact H2].
  - destruct tp; auto. eapply startinv_mono; eauto.
  - intros (H1 & H2). split; [eapply startinv_mono; eauto|exact H2].
  - intros (H1 & H2). split; [eapply base_mono; eauto|exact H2].
  - intros (H1 & H2). split; [eapply base_mono; eauto|exact H2].
Qed.

Lemma c07_inv_mono st st' cu us sn W lk tp lt gpb :
  sgrow st st' -> c07_inv st cu us sn W lk tp lt gpb -> c07_inv st' cu us sn W lk tp lt gpb.
Proof.
  intros Hg (H1 & H2 & H3 & H4). split; [assumption|]. split; [assumption|]. split; [|assumption].
  intros H. specialize (H3 H). destruct (Hg cu) as (_ & _ & Hpc). lia.
Qed.

Lemma invF_streams st st' cu ns us up ust sn W lk cn tp lt gpb :
  sgrow st st' -> fresh_streams st' ns ->
  InvF st cu ns us up ust sn W lk cn tp lt gpb -> InvF st' cu ns us up ust sn W lk cn tp lt gpb.
Proof.
  intros Hg Hf (H1 & H2 & H3 & H4 & H5). split; [assumption|]. split; [eapply snap_ok_mono; eauto|].
  split; [eapply wk_inv_mono; eauto|]. split; [assumption|eapply c07_inv_mono; eauto].
Qed.

Lemma inv_reserve s sid : Inv s -> sid < next_sid s -> Inv (do_event sc ln s (EReserve sid)).
Proof.
  unfold Inv, core. cbn [do_event]. sprj. intros H Hs. eapply invF_streams; [apply sgrow_reserve| |exact H].
  destruct H as (Hf & _). eapply fresh_set; eauto. lia.
Qed.

Lemma inv_publish s sid i : Inv s -> sid < next_sid s -> Inv (do_event sc ln s (EPublish sid i)).
Proof.
  unfold Inv, core. cbn [do_event]. sprj. intros H Hs. eapply invF_streams; [apply sgrow_publish| |exact H].
  destruct H as (Hf & _). eapply fresh_set; eauto. lia.
Qed.

Lemma inv_injectors s v : Inv s -> Inv (upd_injectors s v).
Proof. exact (fun H => H). Qed.

Lemma inv_new_injector s h : Inv s -> Inv (do_event sc ln s (ENewInjector h)).
Proof. cbn [do_event]. destruct (tpc s); auto. Qed.
Lemma inv_clone_injector s h h' : Inv s -> Inv (do_event sc ln s (ECloneInjector h h')).
Proof. cbn [do_event]. destruct (find _ _) as [[? ?]|]; auto. Qed.
Lemma inv_drop_injector s h : Inv s -> Inv (do_event sc ln s (EDropInjector h)).
Proof. cbn [do_event]. auto. Qed.

(* ---- EEdit ---- *)
Lemma refines_trans p3 p2 p1 : refines sc p3 p2 -> refines sc p2 p1 -> refines sc p3 p1.
Proof. unfold refines. auto. Qed.

Lemma inv_edit s p app lastneg :
  Inv s -> (app = true -> refines sc p (ui_pat s)) -> Inv (do_event sc ln s (EEdit p app lastneg)).
Proof.
  cbn [do_event]. destruct (tpc s) eqn:Etp; auto.
  unfold Inv, core. sprj. rewrite Etp. intros (H1 & H2 & H3 & H4 & H5) Hr.
  split; [assumption|]. split; [assumption|]. split; [assumption|]. split; [|assumption].
  destruct H4 as (U1 & U2 & U3 & U4). split; [|auto].
  cbn in U1 |- *. destruct app; cbn [andb]; [|exact I].
  destruct (ui_status s); cbn; try exact I; destruct lastneg; cbn; try exact I.
  - cbn in U1. rewrite <- U1. now apply Hr.
  - cbn in U1. eapply refines_trans; [now apply Hr|exact U1].
Qed.

(* ---- ERestart ---- *)
Lemma wk_inv_cancel st W lk tp cn : wk_inv st W lk tp cn -> wk_inv st W lk tp true.
Proof.
  unfold wk_inv. destruct lk as [| |[|unm|c] status cleared]; auto.
  intros (A & B & C & D & E). split; [assumption|]. split; [assumption|]. split; [assumption|]. split; [discriminate|assumption].
Qed.

Lemma inv_restart s clear : Inv s -> Inv (do_event sc ln s (ERestart clear)).
Proof.
  cbn [do_event]. destruct (tpc s) eqn:Etp; auto.
  unfold Inv, core. intros (H1 & H2 & H3 & H4 & H5).
  assert (Hg : sgrow (streams s) (set_stream (next_sid s) [] (streams s))) by now apply sgrow_restart.
  destruct clear; sprj; rewrite Etp in *.
  all: split; [eapply fresh_set; eauto; lia|].
  all: split; [first [apply snap_ok_empty | eapply snap_ok_mono; eauto]|].
  all: split; [eapply wk_inv_mono; eauto; eapply wk_inv_cancel; eauto|].
  all: destruct H4 as (U1 & U2 & U3 & U4); destruct H5 as (C1 & C2 & C3 & C4).
  all: split; [split; [exact U1|]; split; [intros _; right; discriminate|]; split; [intros _; now left|discriminate]|].
  all: split; [discriminate|]; split; [assumption|]; split; [intros [?|?]; congruence|discriminate].
Qed.

(* ---- ETickBegin ---- *)
Lemma inv_tick_begin s t0 : Inv s -> Inv (do_event sc ln s (ETickBegin t0)).
Proof.
  cbn [do_event]. destruct (tpc s) eqn:Etp; auto.
  unfold Inv, core. sprj. rewrite Etp. intros (H1 & H2 & H3 & H4 & H5).
  split; [assumption|]. split; [assumption|]. split; [|split].
  - unfold wk_inv in *. destruct (lock s) as [| |[|unm|c] status cleared]; auto.
  - exact H4.
  - destruct H5 as (C1 & C2 & C3 & C4). split; [assumption|]. split; [discriminate|]. split; [|discriminate].
    intros _. unfold pcS. lia.
Qed.

(* ---- ETick: the small steps ---- *)
Definition is_mid (t : tickpc) : bool :=
  match t with TBeforeTry _ _ _ | TTryFailed _ _ | TAfterRearm _ _ => true | _ => false end.

Lemma wk_inv_tp st W lk tp tp' cn :
  is_spawn tp = false -> wk_inv st W lk tp cn -> wk_inv st W lk tp' cn.
Proof.
  unfold wk_inv. destruct lk as [| |[|unm|c] status cleared]; auto. destruct tp; try contradiction; discriminate.
Qed.

Lemma invF_begun_cancel st cu ns us up ust sn W lk cn t0 lt gpb :
  InvF st cu ns us up ust sn W lk cn (TBegun t0) lt gpb ->
  negb (pstatus_rank ust =? 0) || negb (isfresh us) = true ->
  InvF st cu ns us up Unchanged sn W lk true (TBeforeLock ust t0) lt gpb.
Proof.
  intros (H1 & H2 & H3 & H4 & H5) Hc. split; [assumption|]. split; [assumption|].
  split; [|split].
  - eapply wk_inv_tp with (tp := TBegun t0); [reflexivity|]. eapply wk_inv_cancel; eauto.
  - destruct H4 as (U1 & U2 & U3 & U4). split; [|split; [|split]].
    + split; [exact U1|]. split; [reflexivity|]. intros ->. cbn in Hc. intros ->. discriminate.
    + intros _. now left.
    + intros _. now left.
    + assumption.
  - destruct H5 as (C1 & C2 & C3 & C4). split; [assumption|]. split; [discriminate|]. split; [|discriminate].
    intros _. apply C3. left. discriminate.
Qed.

Lemma invF_begun_nocancel st cu ns us up ust sn W lk cn t0 lt gpb :
  InvF st cu ns us up ust sn W lk cn (TBegun t0) lt gpb ->
  negb (pstatus_rank ust =? 0) || negb (isfresh us) = false ->
  InvF st cu ns us up ust sn W lk cn (TBeforeTry false false t0) lt gpb.
Proof.
  intros (H1 & H2 & H3 & H4 & H5) Hc. apply orb_false_iff in Hc as [Hc1 Hc2].
  assert (Hust : ust = Unchanged) by (destruct ust; [reflexivity|discriminate|discriminate]).
  assert (Hus : us = SFresh) by (destruct us; [discriminate|discriminate|reflexivity]).
  split; [assumption|]. split; [assumption|].
  split; [|split].
  - eapply wk_inv_tp with (tp := TBegun t0); [reflexivity|eauto].
  - destruct H4 as (U1 & U2 & U3 & U4). split; [|split; [|split]].
    + subst ust. cbn in U1. now repeat split.
    + intros Hcn. destruct (U2 Hcn) as [?|?]; [discriminate|contradiction].
    + intros Hwc. destruct (U3 Hwc) as [Hcn|?]; [|discriminate]. left. exact Hcn.
    + assumption.
  - destruct H5 as (C1 & C2 & C3 & C4). split; [assumption|]. split; [discriminate|]. split; [|discriminate].
    intros _. apply C3. left. discriminate.
Qed.

Lemma invF_mid_mid st cu ns us up ust sn W lk cn tp tp' lt gpb :
  is_mid tp = true -> is_mid tp' = true ->
  InvF st cu ns us up ust sn W lk cn tp lt gpb -> InvF st cu ns us up ust sn W lk cn tp' lt gpb.
Proof.
  intros Hm Hm' (H1 & H2 & H3 & H4 & H5). split; [assumption|]. split; [assumption|].
  split; [|split].
  - eapply wk_inv_tp; [|eauto]. destruct tp; try discriminate; reflexivity.
  - destruct H4 as (U1 & U2 & U3 & U4).
    assert (U1' : up = w_pat W /\ ust = Unchanged /\ us = SFresh) by (destruct tp; try discriminate; exact U1).
    split; [destruct tp'; try discriminate; exact U1'|]. split; [|split; [|assumption]].
    + intros Hcn. destruct (U2 Hcn) as [?|?]; [destruct tp; discriminate|now right].
    + intros Hwc. destruct (U3 Hwc) as [Hcn|?]; [now left|destruct tp; discriminate].
  - destruct H5 as (C1 & C2 & C3 & C4). split; [assumption|].
    split; [intros ->; discriminate|]. split; [|intros ->; discriminate].
    intros _. apply C3. left. intros ->. discriminate.
Qed.

Lemma invF_rearm_fail st cu ns us up ust sn W lk cn tp lt gpb c1 :
  is_mid tp = true ->
  InvF st cu ns us up ust sn W lk cn tp lt gpb -> InvF st cu ns us up ust sn W lk cn TIdle (Some (c1, true)) gpb.
Proof.
  intros Hm (H1 & H2 & H3 & H4 & H5). split; [assumption|]. split; [assumption|].
  split; [|split].
  - eapply wk_inv_tp; [|eauto]. destruct tp; try discriminate; reflexivity.
  - destruct H4 as (U1 & U2 & U3 & U4).
    assert (U1' : up = w_pat W /\ ust = Unchanged /\ us = SFresh) by (destruct tp; try discriminate; exact U1).
    destruct U1' as (Hup & Hust & Hus).
    assert (Hcn : cn = false).
    { destruct cn; [|reflexivity]. destruct (U2 eq_refl) as [?|?]; [destruct tp; discriminate|contradiction]. }
    split; [subst ust; exact Hup|]. split; [|split; [|assumption]].
    + intros Hcn'. congruence.
    + intros Hwc. destruct (U3 Hwc) as [?|?]; [congruence|destruct tp; discriminate].
  - destruct H5 as (C1 & C2 & C3 & C4). split; [assumption|].
    split; [intros _ (c & Hc); discriminate|]. split; [|intros _ (c & Hc); discriminate].
    intros _. apply C3. left. intros ->. discriminate.
Qed.

(* ---- ETick: spawning the run ---- *)
Lemma invF_spawn st cu ns us up ust sn W lk cn lt gpb cflag status cleared changed second changed1 t0 :
  InvF st cu ns us up ust sn W lk cn (TBeforeSpawn cflag status cleared changed second changed1 t0) lt gpb ->
  let W' := w_upd W true false (w_last W) (w_in_flight W) (w_matches W) (w_pat W) (w_sid W) in
  let lk' := HeldRun RStart status cleared in
  (forall c, InvF st cu ns us up ust sn W' lk' cn TIdle (Some (c, true)) gpb) /\
  InvF st cu ns SFresh up ust sn W' lk' cn (TBeforeTry true changed t0) lt gpb.
Proof.
  intros (H1 & H2 & H3 & H4 & H5) W' lk'.
  destruct H4 as ((Hp & Hlk & Hust & Hcn & Hsid) & U2 & U3 & U4). subst lk.
  assert (Hd : same_data W W') by (repeat split).
  assert (Hw : wk_inv st W' lk' TIdle cn /\ wk_inv st W' lk' (TBeforeTry true changed t0) cn).
  { unfold wk_inv in *. unfold lk'. cbn [w_was_canceled w_running W' w_upd w_sid].
    split; (split; [eapply startinv_data; eauto|now split]). }
  destruct Hw as [Hw1 Hw2]. destruct H5 as (C1 & C2 & C3 & C4).
  split; [intros c|].
  - split; [assumption|]. split; [assumption|]. split; [assumption|]. split.
    + split; [subst ust; cbn; now rewrite <- Hp|]. split; [congruence|]. split; [discriminate|]. intros _. exact Hsid.
    + split; [discriminate|]. split; [intros _ (c' & Hc'); discriminate|]. split; [|intros _ (c' & Hc'); discriminate].
      intros _. apply C3. left. discriminate.
  - split; [assumption|]. split; [assumption|]. split; [assumption|]. split.
    + split; [now repeat split|]. split; [congruence|]. split; [discriminate|]. intros _. exact Hsid.
    + split; [discriminate|]. split; [discriminate|]. split; [|discriminate].
      intros _. apply C3. left. discriminate.
Qed.

(* ---- ETick: tick_inner's body ---- *)
Lemma wsnap_data W W' : same_data W W' -> wsnap W' = wsnap W.
Proof. intros (E1 & E2 & E3 & E4 & E5). unfold wsnap, item_count. now rewrite E1, E2, E3, E4, E5. Qed.

Lemma invF_tick_body st cu ns us up ust sn W cn tp lt gpb cflag status second changed1 t0 :
  InvF st cu ns us up ust sn W Free cn tp lt gpb ->
  boundedS st ->
  ((tp = TBeforeLock status t0 /\ cflag = true) \/ (is_mid tp = true /\ cflag = false /\ status = Unchanged)) ->
  let b := item_count W <? cntS st cu in
  let running := cflag || b in
  let pick := w_running W && negb (w_was_canceled W) && isfresh us in
  InvF st cu ns us up ust (if pick then wsnap W else sn)
    (w_upd W false (w_was_canceled W) (w_last W) (w_in_flight W) (w_matches W)
       (if running then up else w_pat W) (if running && negb (isfresh us) then cu else w_sid W))
    (if running then HeldTick else Free) (if running then false else cn)
    (if running then TBeforeSpawn cflag status (negb (isfresh us)) (w_running W) second changed1 t0 else TIdle)
    (if running then lt else Some ((if second then changed1 || w_running W else w_running W), false)) gpb.
Proof.
  intros (H1 & H2 & H3 & H4 & H5) Hbd Hcase b running pick.
  destruct H3 as (Hb & Hs & Hcl). destruct H4 as (U1 & U2 & U3 & U4). destruct H5 as (C1 & C2 & C3 & C4).
  (* facts common to both entry points *)
  assert (Fpat : patrel status up (w_pat W)).
  { destruct Hcase as [[-> _]|(Hm & _ & ->)]; [apply U1|]. destruct tp; try discriminate; cbn; apply U1. }
  assert (Fust : ust = Unchanged).
  { destruct Hcase as [[-> _]|(Hm & _ & _)]; [apply U1|]. destruct tp; try discriminate; apply U1. }
  assert (Fst : cflag = true -> status = Unchanged -> us <> SFresh).
  { intros Hc. destruct Hcase as [[-> _]|(_ & Hc' & _)]; [apply U1|congruence]. }
  assert (Ftp : tp <> TIdle /\ is_spawn tp = false).
  { destruct Hcase as [[-> _]|(Hm & _ & _)]; [split; [discriminate|reflexivity]|]. destruct tp; try discriminate; split; try discriminate; reflexivity. }
  assert (Fmid : cflag = false -> status = Unchanged /\ us = SFresh /\ cn = false /\ w_was_canceled W = false).
  { intros Hc. destruct Hcase as [[_ Hc']|(Hm & _ & ->)]; [congruence|].
    assert (Hus : us = SFresh) by (destruct tp; try discriminate; apply U1).
    assert (Hcn : cn = false).
    { destruct cn; [|reflexivity]. destruct (U2 eq_refl) as [?|?]; [destruct tp; discriminate|contradiction]. }
    repeat split; try assumption.
    destruct (w_was_canceled W); [|reflexivity]. destruct (U3 eq_refl) as [?|?]; [congruence|destruct tp; discriminate]. }
  clear Hcase U1.
  set (W' := w_upd W false (w_was_canceled W) (w_last W) (w_in_flight W) (w_matches W)
       (if running then up else w_pat W) (if running && negb (isfresh us) then cu else w_sid W)).
  (* the snapshot *)
  assert (Hsn : snap_okF st (if pick then wsnap W else sn)).
  { destruct pick eqn:Ep; [|assumption]. unfold pick in Ep.
    apply andb_true_iff in Ep as [Ep _]. apply andb_true_iff in Ep as [_ Ep]. apply negb_true_iff in Ep.
    apply clean_snap_ok; [apply Hbd|assumption|now apply Hcl]. }
  split; [assumption|]. split; [assumption|].
  destruct running eqn:Erun.
  - (* a run is spawned *)
    assert (Hsid' : w_sid W' = cu).
    { unfold W'; cbn. destruct (isfresh us) eqn:Ef; cbn; [|reflexivity]. apply U4. destruct us; try discriminate; reflexivity. }
    split; [|split].
    + unfold wk_inv. destruct (isfresh us) eqn:Ef; cbn [negb]; [|now left].
      assert (Hus : us = SFresh) by (destruct us; try discriminate; reflexivity).
      right. assert (Hsd : w_sid W' = w_sid W) by (unfold W'; cbn; reflexivity).
      rewrite Hsd. split; [exact (base_ext sc ln _ _ W W' eq_refl eq_refl Hb)|].
      destruct status.
      * assert (Hc : cflag = false) by (destruct cflag; [exfalso; now apply (Fst eq_refl eq_refl)|reflexivity]).
        destruct (Fmid Hc) as (_ & _ & _ & Hwc). cbn in Fpat.
        eapply clean_data; [|apply (Hcl Hwc)]. unfold W'. repeat split. cbn. congruence.
      * eapply sup_refine; [..|exact Hs]; try reflexivity. exact Fpat.
      * exact I.
    + split; [|split; [|split]].
      * unfold W'. now repeat split.
      * discriminate.
      * intros _. now right.
      * intros _. exact Hsid'.
    + split; [discriminate|]. split; [discriminate|]. split; [|discriminate].
      intros _. apply C3. left. apply Ftp.
  - (* no run: the guard is dropped and the tick returns *)
    apply orb_false_iff in Erun as [Ec Eb]. destruct (Fmid Ec) as (-> & Hus & Hcn & Hwc). cbn in Fpat.
    assert (Hd : same_data W W') by (unfold W'; repeat split).
    assert (Hsd : w_sid W' = w_sid W) by reflexivity.
    split; [|split].
    + unfold wk_inv. rewrite Hsd. split; [eapply base_data; eauto|]. split; [eapply sup_data; eauto|].
      intros _. eapply clean_data; eauto.
    + split; [|split; [|split]].
      * subst ust. cbn. exact Fpat.
      * congruence.
      * unfold W'; cbn. congruence.
      * intros _. unfold W'; cbn. now apply U4.
    + split; [|split; [|split]].
      * intros _ _ _. split; [|exact Hwc]. rewrite (wsnap_data _ _ Hd).
        unfold pick. rewrite Hwc, Hus. cbn. destruct (w_running W) eqn:Er; cbn; [reflexivity|].
        now apply C1.
      * intros _ _. reflexivity.
      * intros _. apply C3. left. apply Ftp.
      * intros _ _ _ _. assert (Hg : gpb <= pcS st cu) by (apply C3; left; apply Ftp).
        pose proof (pcS_le_cntS st cu). unfold b in Eb.
        replace (item_count W') with (item_count W) by reflexivity. lia.
Qed.

(* ---- ERun: the phases of the background run ---- *)
Lemma ui_inv_wk cu us up ust W W' lk lk' cn tp :
  ui_inv cu us up ust W lk cn tp -> lk <> HeldTick ->
  w_pat W' = w_pat W -> w_sid W' = w_sid W -> (w_was_canceled W' = true -> w_was_canceled W = true \/ cn = true) ->
  ui_inv cu us up ust W' lk' cn tp.
Proof.
  intros (U1 & U2 & U3 & U4) Hlk Ep Es Hwc. rewrite <- Ep, <- Es in *.
  split; [|split; [assumption|split; [|assumption]]].
  - destruct tp; try exact U1. destruct U1 as (_ & U1 & _). contradiction.
  - intros H. destruct (Hwc H) as [H'|H']; [now apply U3|now left].
Qed.

Lemma invF_run_start st cu ns us up ust sn W cn tp lt gpb status cleared seen e :
  InvF st cu ns us up ust sn W (HeldRun RStart status cleared) cn tp lt gpb -> boundedS st ->
  (forall i, seen i = true -> pubS st (w_sid W) i = true) -> e <= cntS st (w_sid W) ->
  let r := run_work sc seen e cn status cleared W in
  InvF st cu ns us up ust sn (fst r) (HeldRun (snd r) status cleared) cn tp lt gpb.
Proof.
  intros (H1 & H2 & H3 & H4 & H5) Hbd Hseen He r.
  destruct H3 as (Hst & Hwc & Hrun).
  pose proof (run_work_spec sc ln (pubS st (w_sid W)) (cntS st (w_sid W)) (Hbd _) seen e cn status cleared W Hseen He Hst)
    as (Hb & (Ep & Es & Er & Ec) & Hpc).
  fold r in Hb, Ep, Es, Er, Ec, Hpc.
  split; [assumption|]. split; [assumption|]. split; [|split].
  - unfold wk_inv. rewrite Es. destruct (snd r) as [|unm|c]; [contradiction| |].
    + destruct Hpc as (Hne & Hs & Hp). rewrite Ep, Er, Ec. split; [assumption|]. split; [assumption|]. split; [assumption|]. split; [assumption|]. now split.
    + destruct Hpc as (-> & Hcl). rewrite Er, Ec. split; [assumption|]. split; [now apply clean_sup|]. split; [intros _; exact Hcl|]. split; [exact Hwc|exact Hrun].
  - apply ui_inv_wk with (W := W) (lk := HeldRun RStart status cleared); [exact H4|discriminate|exact Ep|exact Es|]. rewrite Ec. now left.
  - destruct H5 as (C1 & C2 & C3 & C4). split; [discriminate|]. split; [now rewrite Er|]. split; [assumption|discriminate].
Qed.

Lemma invF_run_sort st cu ns us up ust sn W cn tp lt gpb status cleared unm :
  InvF st cu ns us up ust sn W (HeldRun (RSort unm) status cleared) cn tp lt gpb -> boundedS st ->
  let r := run_sort ln cn unm W in
  InvF st cu ns us up ust sn (fst r) (HeldRun (snd r) status cleared) cn tp lt gpb.
Proof.
  intros (H1 & H2 & H3 & H4 & H5) Hbd r.
  destruct H3 as (Hb & Hs & Hne & Hp & Hwc & Hrun).
  pose proof (run_sort_meta ln cn unm W) as (Ep & Es & Er & Ec & El & Ei & Epc & Em). fold r in Ep, Es, Er, Ec, El, Ei, Epc, Em.
  split; [assumption|]. split; [assumption|]. split; [|split].
  - unfold wk_inv. rewrite Es, Epc, Er, Ec.
    split; [exact (base_ext sc ln _ _ W (fst r) El Ei Hb)|].
    destruct cn; cbn [negb].
    + split; [|split; [discriminate|now split]].
      eapply sup_data; [|exact Hs]. repeat split; auto.
    + assert (Hc : clean sc ln (fst r)).
      { unfold r. eapply (run_sort_clean sc ln (pubS st (w_sid W)) (cntS st (w_sid W)) (Hbd _)); [assumption|now apply Hp]. }
      split; [now apply clean_sup|]. split; [intros _; exact Hc|now split].
  - apply ui_inv_wk with (W := W) (lk := HeldRun (RSort unm) status cleared); [exact H4|discriminate|exact Ep|exact Es|]. rewrite Ec. destruct cn; [now right|now left].
  - destruct H5 as (C1 & C2 & C3 & C4). split; [discriminate|]. split; [now rewrite Er|]. split; [assumption|discriminate].
Qed.

Lemma invF_run_end st cu ns us up ust sn W cn tp lt gpb status cleared c :
  InvF st cu ns us up ust sn W (HeldRun (REnd c) status cleared) cn tp lt gpb ->
  InvF st cu ns us up ust sn W Free cn tp lt gpb.
Proof.
  intros (H1 & H2 & H3 & H4 & H5).
  destruct H3 as (Hb & Hs & Hcl & Hwc & Hrun).
  split; [assumption|]. split; [assumption|]. split; [|split].
  - unfold wk_inv. split; [assumption|]. split; [assumption|]. intros Hw. apply Hcl. rewrite Hw in Hwc. now destruct c.
  - apply ui_inv_wk with (W := W) (lk := HeldRun (REnd c) status cleared); [exact H4|discriminate|reflexivity|reflexivity|now left].
  - destruct H5 as (C1 & C2 & C3 & C4). split; [congruence|]. split; [assumption|]. split; [assumption|].
    intros Ht Hl. specialize (C2 Ht Hl). congruence.
Qed.

(* ---- ETick and ERun at the level of states ---- *)
Lemma Inv_unfold s :
  Inv s = InvF (streams s) (cur s) (next_sid s) (ui_state s) (ui_pat s) (ui_status s) (snap s) (wk s) (lock s)
               (canceled s) (tpc s) (last_tick s) (g_pub_begin s).
Proof. reflexivity. Qed.

Lemma Inv_core s st cu ns us up ust sn W lk cn tp lt gpb :
  core s = (st, cu, ns, us, up, ust, sn, W, lk, cn, tp, lt, gpb) ->
  InvF st cu ns us up ust sn W lk cn tp lt gpb -> Inv s.
Proof. unfold Inv. intros ->. exact (fun H => H). Qed.

Lemma inv_tick_body s cflag status second changed1 t0 :
  Inv s -> boundedS (streams s) -> lock s = Free ->
  ((tpc s = TBeforeLock status t0 /\ cflag = true) \/ (is_mid (tpc s) = true /\ cflag = false /\ status = Unchanged)) ->
  Inv (tick_body (upd_lock s HeldTick) cflag status second changed1 t0).
Proof.
  intros H Hbd Hlk Hcase. rewrite Inv_unfold, Hlk in H.
  eapply Inv_core; [apply core_tick_body|]. sprj.
  apply invF_tick_body with (tp := tpc s) (cn := canceled s) (lt := last_tick s); assumption.
Qed.

Lemma inv_tick s : Inv s -> boundedS (streams s) -> Inv (do_event sc ln s ETick).
Proof.
  intros H Hbd. cbn [do_event]. destruct (enabled_tick s) eqn:En; [|assumption].
  unfold enabled_tick in En. unfold step_tick. destruct (tpc s) eqn:Etp.
  - assumption.
  - cbv zeta.
    destruct (negb (pstatus_rank (ui_status s) =? 0) || match ui_state s with SFresh => false | _ => true end) eqn:Ec.
    + rewrite Inv_unfold in *. sprj. rewrite Etp in H. eapply invF_begun_cancel; [exact H|].
      rewrite <- Ec. destruct (ui_state s); reflexivity.
    + rewrite Inv_unfold in *. sprj. rewrite Etp in H. eapply invF_begun_nocancel; [exact H|].
      rewrite <- Ec. destruct (ui_state s); reflexivity.
  - destruct (lock s) eqn:Elk; try discriminate.
    apply inv_tick_body; try assumption. left. rewrite Etp. now split.
  - destruct (lock s) eqn:Elk.
    + apply inv_tick_body; try assumption. right. rewrite Etp. now repeat split.
    + rewrite Inv_unfold in *. sprj. rewrite Etp in H. eapply invF_mid_mid; [| |exact H]; reflexivity.
    + rewrite Inv_unfold in *. sprj. rewrite Etp in H. eapply invF_mid_mid; [| |exact H]; reflexivity.
  - rewrite Inv_unfold in *. sprj. rewrite Etp in H. eapply invF_mid_mid; [| |exact H]; reflexivity.
  - destruct (lock s) eqn:Elk.
    + apply inv_tick_body; try assumption. right. rewrite Etp. now repeat split.
    + rewrite Inv_unfold in *. sprj. rewrite Etp in H. eapply invF_rearm_fail; [|exact H]; reflexivity.
    + rewrite Inv_unfold in *. sprj. rewrite Etp in H. eapply invF_rearm_fail; [|exact H]; reflexivity.
  - rewrite Inv_unfold in H. rewrite Etp in H.
    pose proof (invF_spawn _ _ _ _ _ _ _ _ _ _ _ _ _ _ _ _ _ _ _ H) as [HA HB].
    destruct second; [rewrite Inv_unfold; sprj; apply HA|].
    destruct cflag; [rewrite Inv_unfold; sprj; apply HB|rewrite Inv_unfold; sprj; apply HA].
Qed.

Lemma inv_run s seen end_ : Inv s -> boundedS (streams s) -> Inv (do_event sc ln s (ERun seen end_)).
Proof.
  intros H Hbd. cbn [do_event]. unfold step_run. destruct (post s) eqn:Epo.
  - destruct (lock s) as [| |pc status cleared] eqn:Elk; try assumption.
    destruct pc as [|unm|c].
    + cbv zeta.
      rewrite (surjective_pairing (run_work sc _ _ (canceled s) status cleared (wk s))).
      rewrite Inv_unfold in *. sprj. rewrite Elk in H.
      apply invF_run_start; try assumption.
      * intros i Hi. apply andb_true_iff in Hi as [_ Hi]. exact Hi.
      * apply N.le_min_r.
    + rewrite (surjective_pairing (run_sort ln (canceled s) unm (wk s))).
      rewrite Inv_unfold in *. sprj. rewrite Elk in H. apply invF_run_sort; assumption.
    + rewrite Inv_unfold in *. sprj. rewrite Elk in H. eapply invF_run_end; eauto.
  - exact H.
  - exact H.
  - exact H.
Qed.

(* ---- streams and next_sid are only touched by injector events and restart ---- *)
Lemma sn_tick_body s cflag status second changed1 t0 :
  streams (tick_body s cflag status second changed1 t0) = streams s /\
  next_sid (tick_body s cflag status second changed1 t0) = next_sid s.
Proof.
  pose proof (core_tick_body s cflag status second changed1 t0) as H. cbv zeta in H. unfold core in H.
  split; congruence.
Qed.

Lemma sn_step_tick s : streams (step_tick s) = streams s /\ next_sid (step_tick s) = next_sid s.
Proof.
  unfold step_tick. destruct (tpc s); try (split; reflexivity).
  - cbv zeta. destruct (_ || _); split; reflexivity.
  - exact (sn_tick_body (upd_lock s HeldTick) _ _ _ _ _).
  - destruct (lock s); try (split; reflexivity). exact (sn_tick_body (upd_lock s HeldTick) _ _ _ _ _).
  - destruct (lock s); try (split; reflexivity). exact (sn_tick_body (upd_lock s HeldTick) _ _ _ _ _).
  - destruct second; [split; reflexivity|]. destruct cflag; split; reflexivity.
Qed.

Lemma sn_step_run s seen e : streams (step_run sc ln s seen e) = streams s /\ next_sid (step_run sc ln s seen e) = next_sid s.
Proof.
  unfold step_run. destruct (post s); try (split; reflexivity).
  destruct (lock s) as [| |[|unm|c] status cleared]; try (split; reflexivity).
  - cbv zeta. destruct (run_work _ _ _ _ _ _ _). split; reflexivity.
  - destruct (run_sort _ _ _ _). split; reflexivity.
Qed.

Definition wf1 (s : nstate) (e : event) : Prop :=
  match e with EReserve sid => sid < next_sid s | EPublish sid _ => sid < next_sid s | _ => True end.
Definition tr1 (s : nstate) (e : event) : Prop :=
  match e with EEdit p true _ => refines sc p (ui_pat s) | _ => True end.

Lemma fresh_step s e :
  fresh_streams (streams s) (next_sid s) -> wf1 s e ->
  fresh_streams (streams (do_event sc ln s e)) (next_sid (do_event sc ln s e)) /\
  sgrow (streams s) (streams (do_event sc ln s e)).
Proof.
  intros Hf Hwf. destruct e; cbn [do_event wf1] in *.
  - sprj. split; [eapply fresh_set; eauto; lia|apply sgrow_reserve].
  - sprj. split; [eapply fresh_set; eauto; lia|apply sgrow_publish].
  - destruct (tpc s); split; try assumption; apply sgrow_refl.
  - destruct (find _ _) as [[? ?]|]; split; try assumption; apply sgrow_refl.
  - split; [assumption|apply sgrow_refl].
  - destruct (tpc s); split; try assumption; apply sgrow_refl.
  - destruct (tpc s); try (split; [assumption|apply sgrow_refl]).
    destruct clear; sprj; (split; [eapply fresh_set; eauto; lia|now apply sgrow_restart]).
  - destruct (tpc s); split; try assumption; apply sgrow_refl.
  - destruct (enabled_tick s); [|split; [assumption|apply sgrow_refl]].
    destruct (sn_step_tick s) as [-> ->]. split; [assumption|apply sgrow_refl].
  - destruct (sn_step_run s seen end_) as [-> ->]. split; [assumption|apply sgrow_refl].
  - split; [assumption|apply sgrow_refl].
Qed.

Lemma bounded_back st st' : sgrow st st' -> boundedS st' -> boundedS st.
Proof. intros Hg Hb sid. specialize (Hb sid). destruct (Hg sid) as (H & _). lia. Qed.

Lemma inv_fresh s : Inv s -> fresh_streams (streams s) (next_sid s).
Proof. rewrite Inv_unfold. now intros (H & _). Qed.

Lemma inv_step s e :
  Inv s -> wf1 s e -> tr1 s e -> boundedS (streams (do_event sc ln s e)) -> Inv (do_event sc ln s e).
Proof.
  intros H Hwf Htr Hbd.
  assert (Hbd0 : boundedS (streams s)).
  { eapply bounded_back; [|exact Hbd]. apply fresh_step; [now apply inv_fresh|assumption]. }
  destruct e; cbn [wf1 tr1] in *.
  - now apply inv_reserve.
  - now apply inv_publish.
  - now apply inv_new_injector.
  - now apply inv_clone_injector.
  - now apply inv_drop_injector.
  - apply inv_edit; [assumption|]. intros ->. exact Htr.
  - now apply inv_restart.
  - now apply inv_tick_begin.
  - now apply inv_tick.
  - now apply inv_run.
  - exact H.
Qed.

Lemma wf_events_wf1 s e es : wf_events sc ln s (e :: es) -> wf1 s e /\ wf_events sc ln (do_event sc ln s e) es.
Proof. cbn [wf_events]. intros [H1 H2]. split; [|assumption]. destruct e; cbn; try exact I; tauto. Qed.

Lemma truthful_tr1 s e es : truthful sc ln s (e :: es) -> tr1 s e /\ truthful sc ln (do_event sc ln s e) es.
Proof. cbn [truthful]. intros [H1 H2]. split; [|assumption]. destruct e; cbn; try exact I. exact H1. Qed.

Lemma count_mono_run es : forall s,
  fresh_streams (streams s) (next_sid s) -> wf_events sc ln s es ->
  sgrow (streams s) (streams (run_events sc ln s es)).
Proof.
  induction es as [|e es IH]; intros s Hf Hwf; [apply sgrow_refl|].
  apply wf_events_wf1 in Hwf as [Hw1 Hwf]. destruct (fresh_step s e Hf Hw1) as [Hf' Hg].
  cbn [run_events]. specialize (IH _ Hf' Hwf).
  intros sid. destruct (Hg sid) as (A1 & A2 & A3). destruct (IH sid) as (B1 & B2 & B3).
  split; [lia|]. split; [auto|lia].
Qed.

Lemma inv_run_events es : forall s,
  Inv s -> wf_events sc ln s es -> truthful sc ln s es -> boundedS (streams (run_events sc ln s es)) ->
  Inv (run_events sc ln s es).
Proof.
  induction es as [|e es IH]; intros s H Hwf Htr Hbd; [exact H|].
  apply wf_events_wf1 in Hwf as [Hw1 Hwf]. apply truthful_tr1 in Htr as [Ht1 Htr].
  cbn [run_events] in *. apply IH; try assumption.
  apply inv_step; try assumption.
  eapply bounded_back; [|exact Hbd]. apply count_mono_run; [|assumption].
  apply fresh_step; [now apply inv_fresh|assumption].
Qed.

Lemma reachable_inv s :
  reachable_truthful sc ln s -> (forall sid, count_of s sid <= PLACEHOLDER) -> Inv s.
Proof.
  intros (es & Hwf & Htr & ->) Hbd. apply inv_run_events; try assumption. apply inv_init.
Qed.

End Inv.

(* ================================================================================================== *)
(* Part H: the theorems                                                                                *)
(* ================================================================================================== *)

(* C06 and C07 as stated in Spec/NucleoStatements.v do not hold for the model as written: the model's item
   indices are unbounded naturals, so after 2^32 reservations a stream contains a real item whose index
   is u32::MAX = PLACEHOLDER, and that item is indistinguishable from a placeholder entry (see the report).
   The Rust boxcar refuses to hand out such an index.  The variants below add exactly that hypothesis:
   no stream of the state has more than PLACEHOLDER reserved indices (so every item index is < u32::MAX).
   Everything else is verbatim the original statement. *)
Lemma C06_snapshot_weak : forall sc ln, C06_snapshot_weak_stmt sc ln.
Proof.
  intros sc ln s Hr Hbd. pose proof (reachable_inv sc ln s Hr Hbd) as H.
  rewrite Inv_unfold in H. destruct H as (_ & H & _). exact H.
Qed.

(* the variant is the original statement with one more hypothesis, nothing else changed *)
Lemma C06_snapshot_implies_weak sc ln : C06_snapshot_stmt sc ln -> C06_snapshot_weak_stmt sc ln.
Proof. intros H s Hr _. exact (H s Hr). Qed.

Lemma C07_converges_weak : forall sc ln, C07_converges_weak_stmt sc ln.
Proof.
  intros sc ln s Hr Hbd (Hidle & Hlk & Hlt & Hus & Hust & Hgpb).
  pose proof (reachable_inv sc ln s Hr Hbd) as H. rewrite Inv_unfold in H.
  unfold ui_idle in Hidle. rewrite Hidle, Hlk, Hus, Hust in H.
  destruct H as (_ & _ & (Hb & Hs & Hcl) & (U1 & _ & _ & U4) & (C1 & C2 & _ & C4)).
  cbn in U1. specialize (U4 eq_refl). specialize (C2 eq_refl Hlt).
  destruct (C1 eq_refl C2 eq_refl) as [Hsn Hwc]. specialize (C4 eq_refl Hlt eq_refl eq_refl).
  specialize (Hcl Hwc). cbv zeta. rewrite Hsn. unfold wsnap; cbn [sn_sid sn_pat sn_count sn_matches].
  rewrite U4 in Hb. destruct Hb as (Hnd & Hlti & Hle & Hpub).
  change (count_of s (cur s)) with (cntS (streams s) (cur s)) in *.
  assert (Hinf : w_in_flight (wk s) = []).
  { destruct (w_in_flight (wk s)) as [|x l] eqn:E; [reflexivity|]. exfalso.
    assert (Hx : x < w_last (wk s)) by (apply Hlti; now left).
    unfold item_count in C4. rewrite E in C4. unfold lenN in C4. cbn [length] in C4. lia. }
  assert (Hlast : w_last (wk s) = cntS (streams s) (cur s)).
  { unfold item_count in C4. rewrite Hinf in C4. unfold lenN in C4. cbn [length] in C4. lia. }
  split; [assumption|]. split; [now symmetry|]. split.
  - unfold item_count. rewrite Hinf. unfold lenN at 1. cbn [length]. lia.
  - destruct Hcl as ((_ & Hsub & Hsup & _) & Hsc & Hn & _). rewrite (real_all _ Hn) in *.
    intros i. unfold from_scratch_idx. rewrite filter_In.
    fold (matchb sc (ui_pat s) (cur s) i). rewrite U1, <- U4. split.
    + intros Hi. pose proof (Hsub i Hi) as [Hl _]. split.
      * apply in_map_iff. exists (N.to_nat i). split; [lia|]. apply in_seq. rewrite U4 in *. unfold cntS, lenN in Hlast. lia.
      * apply in_map_iff in Hi as (m & <- & Hm). unfold matchb. rewrite (Hsc m); [reflexivity|]. now rewrite (real_all _ Hn).
    + intros [Hk Hm]. apply in_map_iff in Hk as (k & <- & Hk). apply in_seq in Hk. apply Hsup; [|exact Hm].
      split; [|rewrite Hinf; intros []]. rewrite U4 in *. unfold cntS, lenN in Hlast. lia.
Qed.

Lemma C07_converges_implies_weak sc ln : C07_converges_stmt sc ln -> C07_converges_weak_stmt sc ln.
Proof. intros H s Hr _. exact (H s Hr). Qed.

(* ================================================================================================== *)
(* Part I: the original statement of C06 is false for the model as written                             *)
(* ================================================================================================== *)
(* After n reservations on stream 0, publish index i, tick (the first tick is a cleared restart with the
   empty pattern), let the run see index i, and tick again: the snapshot contains Match{0, i}.
   With i = PLACEHOLDER (possible because the model's streams are unbounded) this contradicts the clause
   `m_idx m <> PLACEHOLDER` of C06. *)
Section Refute.
Variable sc : N -> N -> N -> option N.
Variable ln : N -> N -> N.

Lemma run_events_app s es1 es2 : run_events sc ln s (es1 ++ es2) = run_events sc ln (run_events sc ln s es1) es2.
Proof. revert s. induction es1 as [|e es1 IH]; intros s; cbn [app run_events]; [reflexivity|apply IH]. Qed.

Lemma wf_events_app s es1 es2 :
  wf_events sc ln s es1 -> wf_events sc ln (run_events sc ln s es1) es2 -> wf_events sc ln s (es1 ++ es2).
Proof.
  revert s. induction es1 as [|e es1 IH]; intros s H1 H2; cbn [app run_events wf_events] in *; [assumption|].
  destruct H1 as [H1 H1']. split; [assumption|]. now apply IH.
Qed.

Lemma truthful_app s es1 es2 :
  truthful sc ln s es1 -> truthful sc ln (run_events sc ln s es1) es2 -> truthful sc ln s (es1 ++ es2).
Proof.
  revert s. induction es1 as [|e es1 IH]; intros s H1 H2; cbn [app run_events truthful] in *; [assumption|].
  destruct H1 as [H1 H1']. split; [assumption|]. now apply IH.
Qed.

Definition st_with (l : list bool) : nstate := upd_streams init_nstate [(0, l)].

Lemma run_reserves n : forall l,
  run_events sc ln (st_with l) (repeat (EReserve 0) n) = st_with (l ++ repeat false n) /\
  wf_events sc ln (st_with l) (repeat (EReserve 0) n) /\ truthful sc ln (st_with l) (repeat (EReserve 0) n).
Proof.
  induction n as [|n IH]; intros l; cbn [repeat run_events wf_events truthful].
  - rewrite app_nil_r. now repeat split.
  - change (do_event sc ln (st_with l) (EReserve 0)) with (st_with (l ++ [false])).
    destruct (IH (l ++ [false])) as (E & Hw & Ht). rewrite <- app_assoc in E. cbn [app] in E.
    split; [exact E|]. split; (split; [|assumption]); [reflexivity|exact I].
Qed.

Definition tail_events (i : N) : list event :=
  [EPublish 0 i; ETickBegin true; ETick; ETick; ETick; ERun [i] (i + 1); ERun [] 0; ETick].

Lemma set_nth_same {A} n (v d : A) l : (n < length l)%nat -> nth n (set_nth n v l) d = v.
Proof. revert n. induction l as [|x l IH]; intros [|n] H; cbn in *; try lia; [reflexivity|]. apply IH. lia. Qed.

Lemma step_run_start s seen e st cl :
  post s = PNone -> lock s = HeldRun RStart st cl ->
  step_run sc ln s seen e =
  (let sid := w_sid (wk s) in
   let seenf i := existsb (N.eqb i) seen && published s sid i in
   let e' := N.min e (count_of s sid) in
   let '(w', pc') := run_work sc seenf e' (canceled s) st cl (wk s) in
   upd_lock (upd_wk s w') (HeldRun pc' st cl)).
Proof. unfold step_run. intros -> ->. reflexivity. Qed.

Lemma step_run_end s seen e c st cl :
  post s = PNone -> lock s = HeldRun (REnd c) st cl ->
  step_run sc ln s seen e = upd_post (upd_lock s Free) (PUnlocked c).
Proof. unfold step_run. intros -> ->. reflexivity. Qed.

Lemma run_work_cleared_empty seen e canc st w :
  pat_is_empty (w_pat w) = true ->
  run_work sc seen e canc st true w = (scan_trivial seen e (reset_matches seen (empty_worker w)), REnd true).
Proof. intros H. unfold run_work. fold (empty_worker w). cbn [w_pat empty_worker w_upd]. rewrite H. reflexivity. Qed.

Definition ui_events : list event := [ETickBegin true; ETick; ETick; ETick].
Definition run_tail (i : N) : list event := [ERun [i] (i + 1); ERun [] 0; ETick].

Lemma ui_events_state (L : list bool) :
  let s5 := run_events sc ln (st_with L) ui_events in
  post s5 = PNone /\ lock s5 = HeldRun RStart Unchanged true /\
  wk s5 = {| w_running := true; w_was_canceled := false; w_last := 0; w_in_flight := []; w_matches := [];
             w_pat := 0; w_sid := 0 |} /\
  streams s5 = [(0, L)] /\ ui_state s5 = SFresh /\ tpc s5 = TBeforeTry true false true.
Proof. cbv zeta. repeat split. Qed.

Lemma run_tail_snapshot (L : list bool) (i : N) (s5 : nstate) :
  i < lenN L -> nth (N.to_nat i) L false = true ->
  post s5 = PNone -> lock s5 = HeldRun RStart Unchanged true ->
  wk s5 = {| w_running := true; w_was_canceled := false; w_last := 0; w_in_flight := []; w_matches := [];
             w_pat := 0; w_sid := 0 |} ->
  streams s5 = [(0, L)] -> ui_state s5 = SFresh -> tpc s5 = TBeforeTry true false true ->
  In (mk0 i) (sn_matches (snap (run_events sc ln s5 (run_tail i)))).
Proof.
  intros Hi Hp F1 F2 F3 F4 F5 F6. unfold run_tail. cbn [run_events].
  cbn [do_event]. rewrite (step_run_start s5 _ _ _ _ F1 F2). cbv zeta.
  rewrite run_work_cleared_empty by (rewrite F3; reflexivity).
  set (seenf := fun j : N => existsb (N.eqb j) [i] && published s5 (w_sid (wk s5)) j).
  set (e' := N.min (i + 1) (count_of s5 (w_sid (wk s5)))).
  set (w' := scan_trivial seenf e' (reset_matches seenf (empty_worker (wk s5)))).
  set (s6 := upd_lock (upd_wk s5 w') (HeldRun (REnd true) Unchanged true)).
  rewrite (step_run_end s6 [] 0 true Unchanged true) by (unfold s6; sprj; first [exact F1|reflexivity]).
  set (s7 := upd_post (upd_lock s6 Free) (PUnlocked true)).
  assert (En : enabled_tick s7 = true) by (unfold enabled_tick, s7, s6; sprj; rewrite F6; reflexivity).
  rewrite En. unfold step_tick.
  assert (Et : tpc s7 = TBeforeTry true false true) by (unfold s7, s6; sprj; exact F6).
  assert (El : lock s7 = Free) by reflexivity.
  rewrite Et, El.
  pose proof (core_tick_body (upd_lock s7 HeldTick) false Unchanged true false true) as Hc. cbv zeta in Hc.
  unfold core in Hc.
  assert (Hsn : snap (tick_body (upd_lock s7 HeldTick) false Unchanged true false true) =
                (if w_running (wk (upd_lock s7 HeldTick)) && negb (w_was_canceled (wk (upd_lock s7 HeldTick))) &&
                    isfresh (ui_state (upd_lock s7 HeldTick)) then wsnap (wk (upd_lock s7 HeldTick)) else snap (upd_lock s7 HeldTick)))
    by congruence.
  rewrite Hsn. unfold s7, s6. sprj. rewrite F5.
  assert (Er : w_running w' = true /\ w_was_canceled w' = false) by (unfold w'; cbn; rewrite F3; split; reflexivity).
  destruct Er as [-> ->]. cbn [andb negb isfresh]. unfold wsnap. cbn [sn_matches].
  assert (Em : w_matches w' = map mk0 (filter seenf (nrange 0 (N.to_nat (e' - 0))))).
  { unfold w', scan_trivial, reset_matches, empty_worker. wprj. reflexivity. }
  rewrite Em. apply in_map. apply filter_In.
  assert (Ec : count_of s5 (w_sid (wk s5)) = lenN L).
  { unfold count_of. rewrite F3, F4. cbn [w_sid stream_of]. rewrite N.eqb_refl. reflexivity. }
  split.
  - apply in_nrange. unfold e'. rewrite Ec. lia.
  - unfold seenf. cbn [existsb]. rewrite N.eqb_refl. cbn [orb andb]. unfold published. rewrite F3, F4. cbn [w_sid stream_of].
    rewrite N.eqb_refl. exact Hp.
Qed.

Lemma tail_snapshot (R : list bool) (i : N) :
  i < lenN R ->
  In (mk0 i) (sn_matches (snap (run_events sc ln (st_with R) (tail_events i)))).
Proof.
  intros Hi.
  change (tail_events i) with ([EPublish 0 i] ++ ui_events ++ run_tail i). rewrite !run_events_app.
  change (run_events sc ln (st_with R) [EPublish 0 i]) with (st_with (set_nth (N.to_nat i) true R)).
  set (L := set_nth (N.to_nat i) true R).
  assert (HL : lenN L = lenN R) by (unfold L, lenN; now rewrite set_nth_length).
  assert (Hp : nth (N.to_nat i) L false = true) by (unfold L; apply set_nth_same; unfold lenN in Hi; lia).
  clearbody L.
  destruct (ui_events_state L) as (F1 & F2 & F3 & F4 & F5 & F6).
  apply (run_tail_snapshot L); try assumption. lia.
Qed.

Lemma tail_wf (R : list bool) (i : N) :
  i < lenN R -> wf_events sc ln (st_with R) (tail_events i) /\ truthful sc ln (st_with R) (tail_events i).
Proof.
  intros Hi. unfold tail_events. cbn [wf_events truthful]. repeat split; try exact I.
  unfold count_of, st_with; cbn [streams upd_streams stream_of]. rewrite N.eqb_refl. exact Hi.
Qed.

Lemma reachable_with_index (n : nat) (i : N) :
  i < N.of_nat n ->
  exists s, reachable_truthful sc ln s /\ In (mk0 i) (sn_matches (snap s)).
Proof.
  intros Hi.
  destruct (run_reserves n []) as (E & Hw & Ht). cbn [app] in E.
  assert (Hl : i < lenN (repeat false n)) by (unfold lenN; now rewrite repeat_length).
  destruct (tail_wf (repeat false n) i Hl) as [Hw2 Ht2].
  exists (run_events sc ln init_nstate (repeat (EReserve 0) n ++ tail_events i)). split.
  - exists (repeat (EReserve 0) n ++ tail_events i). split; [|split; [|reflexivity]].
    + apply wf_events_app; [exact Hw|]. change init_nstate with (st_with []). rewrite E. exact Hw2.
    + apply truthful_app; [exact Ht|]. change init_nstate with (st_with []). rewrite E. exact Ht2.
  - rewrite run_events_app. change init_nstate with (st_with []). rewrite E. now apply tail_snapshot.
Qed.

Theorem C06_snapshot_false : ~ C06_snapshot_stmt sc ln.
Proof.
  intros H.
  assert (Hi : PLACEHOLDER < N.of_nat (N.to_nat (N.succ PLACEHOLDER))) by (rewrite N2Nat.id; apply N.lt_succ_diag_r).
  destruct (reachable_with_index _ _ Hi) as (s & Hr & Hin).
  destruct (H s Hr) as (_ & H2 & _). destruct (H2 _ Hin) as (Hne & _). apply Hne. reflexivity.
Qed.

End Refute.

(* ================================================================================================== *)
(* Part J: the same modelling gap breaks the original C07 (not a full refutation: the mechanism only)  *)
(* ================================================================================================== *)
(* A Rescore / Update run treats a real entry whose index is PLACEHOLDER as a placeholder: rescore counts
   it in `unmatched` and keeps it, and the truncation after the sort then removes it (it sorts together with
   the genuine placeholders).  So after such a run no match has index PLACEHOLDER, although the item with
   that index may well match the pattern; the snapshot then differs from the from-scratch result. *)
Lemma rescore_sort_no_ph sc ln W :
  (forall m, In m (w_matches W) -> isph m = true -> m_score m = 0) ->
  let r := rescore sc false W in
  forall m, In m (w_matches (fst (run_sort ln false (snd r) (fst r)))) -> m_idx m <> PLACEHOLDER.
Proof.
  intros Hz r m Hm. unfold r in Hm. rewrite rescore_eq in Hm. cbn [fst snd] in Hm.
  unfold run_sort in Hm. cbn [fst w_matches w_upd w_sid] in Hm.
  set (ms' := map fst (map (rentry sc (w_pat W) (w_sid W)) (w_matches W))) in *.
  set (sorted := sort_matches ln (w_sid W) ms') in *.
  assert (Hz' : forall m, In m ms' -> isph m = true -> m_score m = 0).
  { intros m' Hm' Hp. unfold ms' in Hm'. rewrite map_map in Hm'. apply in_map_iff in Hm' as (m0 & <- & Hm0).
    pose proof (rentry_cases sc (w_pat W) (w_sid W) m0) as Hc.
    destruct (negb (isph m0) && somb (sc (w_pat W) (w_sid W) (m_idx m0))); [destruct Hc; congruence|].
    destruct Hc as (_ & _ & H1 & H2). destruct (isph m0) eqn:Em.
    - rewrite (H1 eq_refl). now apply Hz.
    - now apply H2. }
  assert (HP : Permutation sorted ms') by apply sort_matches_perm.
  assert (HS : StronglySorted (mle ln (w_sid W)) sorted) by apply sort_matches_sorted.
  assert (Hz'' : forall m, In m sorted -> isph m = true -> m_score m = 0).
  { intros m' Hm'. apply Hz'. eapply Permutation_in; eauto. }
  assert (Hk : length (phs sorted) = N.to_nat (fold_left (fun a e => a + snd e) (map (rentry sc (w_pat W) (w_sid W)) (w_matches W)) 0)).
  { rewrite rescore_count. fold ms'. unfold phs. rewrite (Permutation_length (Permutation_filter' isph _ _ HP)).
    unfold lenN, phs. lia. }
  rewrite (firstn_drop_phs ln (w_sid W) sorted _ HS Hz'' Hk) in Hm.
  apply in_real in Hm as [_ Hm]. unfold isph in Hm. now apply N.eqb_neq in Hm.
Qed.


(* ================================================================================================== *)
(* Part K: the original statement of C07 is false as well (same gap), for every scoring function under *)
(* which the item with index PLACEHOLDER matches pattern 1                                              *)
(* ================================================================================================== *)
(* n = 2^32 reservations and publications on stream 0; a first tick and run with the empty pattern
   processes all of them; then a non-append edit to pattern 1 (status Rescore) and a second tick: the
   Rescore run resets the matches to Match{0, i} for all i, rescoring counts the entry with index
   u32::MAX as unmatched, and the truncation after the sort removes it.  The final tick picks the result
   up and reports `not running`: the state is quiescent, but index PLACEHOLDER is missing from the
   snapshot although the from-scratch result contains it. *)
Section Refute07.
Variable sc : N -> N -> N -> option N.
Variable ln : N -> N -> N.

Definition mkst (L : list bool) us up ust sn W lk cn sno tp lt po gsb gpb go : nstate :=
  {| streams := [(0, L)]; cur := 0; next_sid := 1; ui_state := us; ui_pat := up; ui_status := ust; snap := sn;
     wk := W; lock := lk; canceled := cn; should_notify := sno; tpc := tp; last_tick := lt; notifies := 0;
     injectors := []; post := po; g_snap_begin := gsb; g_pub_begin := gpb; g_owed := go |}.

Definition W0 : worker :=
  {| w_running := true; w_was_canceled := false; w_last := 0; w_in_flight := []; w_matches := []; w_pat := 0; w_sid := 0 |}.

Lemma st_with_mkst L : st_with L = mkst L SInit 0 Unchanged init_snapshot init_worker Free false false TIdle None PNone init_snapshot 0 false.
Proof. reflexivity. Qed.

Lemma segB L :
  run_events sc ln (st_with L) ui_events =
  mkst L SFresh 0 Unchanged init_snapshot W0 (HeldRun RStart Unchanged true) false false (TBeforeTry true false true) None PNone
       init_snapshot (pcS [(0, L)] 0) false.
Proof. reflexivity. Qed.

Definition seenf1 (L : list bool) (seen : list N) : N -> bool := fun i => existsb (N.eqb i) seen && nth (N.to_nat i) L false.
Definition run1_events (seen : list N) (e : N) : list event := [ERun seen e; ERun [] 0; ERun [] 0; ERun [] 0].
Definition W1 (L : list bool) (seen : list N) (e : N) : worker :=
  scan_trivial (seenf1 L seen) (N.min e (lenN L)) (reset_matches (seenf1 L seen) (empty_worker W0)).

Lemma segC L seen e gpb :
  run_events sc ln (mkst L SFresh 0 Unchanged init_snapshot W0 (HeldRun RStart Unchanged true) false false
                         (TBeforeTry true false true) None PNone init_snapshot gpb false) (run1_events seen e) =
  mkst L SFresh 0 Unchanged init_snapshot (W1 L seen e) Free false false (TBeforeTry true false true) None PNone
       init_snapshot gpb false.
Proof. reflexivity. Qed.

Definition Wdone (n : nat) (r : bool) (p : N) : worker :=
  {| w_running := r; w_was_canceled := false; w_last := N.of_nat n; w_in_flight := [];
     w_matches := map mk0 (nrange 0 n); w_pat := p; w_sid := 0 |}.

Definition all_pub (L : list bool) (n : nat) : Prop :=
  lenN L = N.of_nat n /\ (forall i, i < N.of_nat n -> nth (N.to_nat i) L false = true).

Lemma W1_eq L n : all_pub L n -> W1 L (nrange 0 n) (N.of_nat n) = Wdone n true 0.
Proof.
  intros [HL Hall]. unfold W1, Wdone, scan_trivial, reset_matches, empty_worker, W0. wprj. unfold w_upd.
  rewrite HL. replace (N.to_nat (N.min (N.of_nat n) (N.of_nat n) - 0)) with n by lia.
  fold (nrange 0 n).
  assert (Hs : forall i, In i (nrange 0 n) -> seenf1 L (nrange 0 n) i = true).
  { intros i Hi. unfold seenf1. apply andb_true_iff. split; [now apply existsb_eqb_In|].
    apply Hall. apply in_nrange in Hi. lia. }
  f_equal.
  - lia.
  - cbn [filter app]. apply filter_none. intros i Hi. now rewrite (Hs i Hi).
  - cbn [N.to_nat seq map filter app]. f_equal. now apply filter_all.
Qed.

Lemma segD L n gpb :
  lenN L = N.of_nat n ->
  run_events sc ln (mkst L SFresh 0 Unchanged init_snapshot (Wdone n true 0) Free false false (TBeforeTry true false true) None PNone
                         init_snapshot gpb false) [ETick] =
  mkst L SFresh 0 Unchanged (wsnap (Wdone n true 0)) (Wdone n false 0) Free false false TIdle (Some (true, false)) PNone
       init_snapshot gpb false.
Proof.
  intros HL. cbn [run_events].
  set (S := mkst L SFresh 0 Unchanged init_snapshot (Wdone n true 0) Free false false (TBeforeTry true false true) None PNone init_snapshot gpb false).
  change (do_event sc ln S ETick) with (tick_body (upd_lock S HeldTick) false Unchanged true false true).
  rewrite tick_body_eq.
  assert (Hb : (item_count (wk (upd_lock S HeldTick)) <? count_of (upd_lock S HeldTick) (cur (upd_lock S HeldTick))) = false).
  { unfold S, item_count, count_of, mkst, Wdone. sprj. cbn [stream_of]. rewrite N.eqb_refl, HL. apply N.ltb_ge. unfold lenN. cbn [length]. lia. }
  rewrite Hb. reflexivity.
Qed.

Definition edit_events : list event := [EEdit 1 false false; ETickBegin true; ETick; ETick; ETick].

Lemma segE L n gpb :
  run_events sc ln (mkst L SFresh 0 Unchanged (wsnap (Wdone n true 0)) (Wdone n false 0) Free false false TIdle (Some (true, false)) PNone
                         init_snapshot gpb false) edit_events =
  mkst L SFresh 1 Unchanged (wsnap (Wdone n true 0)) (Wdone n true 1) (HeldRun RStart Rescore false) false false
       (TBeforeTry true false true) (Some (true, false)) PNone (wsnap (Wdone n true 0)) (pcS [(0, L)] 0) false.
Proof. reflexivity. Qed.

Lemma run_work_rescore seen e canc w :
  pat_is_empty (w_pat w) = false -> w_matches (reset_matches seen w) <> [] ->
  run_work sc seen e canc Rescore false w =
  (let '(w2, unm) := rescore sc canc (scan_trivial seen e (reset_matches seen w)) in (w2, RSort unm)).
Proof.
  intros Hpe Hne. unfold run_work. cbv zeta. rewrite Hpe.
  destruct (w_matches (reset_matches seen w)) eqn:E; [congruence|reflexivity].
Qed.

Definition X2 (L : list bool) (seen : list N) (e : N) (n : nat) : worker :=
  scan_trivial (seenf1 L seen) (N.min e (lenN L)) (reset_matches (seenf1 L seen) (Wdone n true 1)).
Definition W2 L seen e n : worker := fst (rescore sc false (X2 L seen e n)).
Definition U2 L seen e n : N := snd (rescore sc false (X2 L seen e n)).
Definition W3 L seen e n : worker := fst (run_sort ln false (U2 L seen e n) (W2 L seen e n)).

Lemma segF1 L seen e n sn lt gsb gpb :
  (0 < n)%nat ->
  run_events sc ln (mkst L SFresh 1 Unchanged sn (Wdone n true 1) (HeldRun RStart Rescore false) false false
                         (TBeforeTry true false true) lt PNone gsb gpb false) [ERun seen e] =
  mkst L SFresh 1 Unchanged sn (W2 L seen e n) (HeldRun (RSort (U2 L seen e n)) Rescore false) false false
       (TBeforeTry true false true) lt PNone gsb gpb false.
Proof.
  intros Hn. cbn [run_events do_event].
  rewrite (step_run_start sc ln _ seen e Rescore false) by reflexivity. cbv zeta.
  rewrite run_work_rescore; [reflexivity|reflexivity|].
  unfold reset_matches, Wdone, mkst. sprj. cbn [filter existsb]. rewrite Nat2N.id.
  destruct n as [|n]; [lia|]. cbn. discriminate.
Qed.

Lemma segF2 L seen e n sn lt gsb gpb :
  run_events sc ln (mkst L SFresh 1 Unchanged sn (W2 L seen e n) (HeldRun (RSort (U2 L seen e n)) Rescore false) false false
                         (TBeforeTry true false true) lt PNone gsb gpb false) [ERun [] 0; ERun [] 0; ERun [] 0; ERun [] 0] =
  mkst L SFresh 1 Unchanged sn (W3 L seen e n) Free false false (TBeforeTry true false true) lt PNone gsb gpb false.
Proof. reflexivity. Qed.

Lemma segG L n W sn lt gsb gpb :
  lenN L = N.of_nat n -> w_last W = N.of_nat n -> w_in_flight W = [] -> w_running W = true -> w_was_canceled W = false ->
  run_events sc ln (mkst L SFresh 1 Unchanged sn W Free false false (TBeforeTry true false true) lt PNone gsb gpb false) [ETick] =
  mkst L SFresh 1 Unchanged (wsnap W)
       (w_upd W false (w_was_canceled W) (w_last W) (w_in_flight W) (w_matches W) (w_pat W) (w_sid W))
       Free false false TIdle (Some (true, false)) PNone gsb gpb false.
Proof.
  intros HL. destruct W as [wr wc wl wi wm wp ws]. cbn [w_last w_in_flight w_running w_was_canceled]. intros -> -> -> ->.
  cbn [run_events].
  set (S := mkst L SFresh 1 Unchanged sn _ Free false false (TBeforeTry true false true) lt PNone gsb gpb false).
  change (do_event sc ln S ETick) with (tick_body (upd_lock S HeldTick) false Unchanged true false true).
  rewrite tick_body_eq.
  assert (Hb : (item_count (wk (upd_lock S HeldTick)) <? count_of (upd_lock S HeldTick) (cur (upd_lock S HeldTick))) = false).
  { unfold S, item_count, count_of, mkst. sprj. cbn [stream_of]. rewrite N.eqb_refl, HL. apply N.ltb_ge. unfold lenN. cbn [length]. lia. }
  rewrite Hb. reflexivity.
Qed.

Lemma W3_facts L seen e n :
  lenN L = N.of_nat n ->
  w_last (W3 L seen e n) = N.of_nat n /\ w_in_flight (W3 L seen e n) = [] /\ w_running (W3 L seen e n) = true /\
  w_was_canceled (W3 L seen e n) = false /\
  (forall m, In m (w_matches (W3 L seen e n)) -> m_idx m <> PLACEHOLDER).
Proof.
  intros HL. split; [|split; [|split; [|split]]].
  - unfold W3, W2, X2. cbn. rewrite HL. lia.
  - unfold W3, W2, X2. cbn [run_sort fst w_in_flight w_upd rescore scan_trivial reset_matches Wdone w_last filter app].
    rewrite HL. replace (N.to_nat (N.min e (N.of_nat n) - N.of_nat n)) with 0%nat by lia. reflexivity.
  - reflexivity.
  - reflexivity.
  - unfold W3, U2, W2. apply rescore_sort_no_ph.
    intros m Hm _. unfold X2, scan_trivial, reset_matches, Wdone in Hm. wprj.
    apply in_app_or in Hm as [Hm|Hm].
    + apply filter_In in Hm as [Hm _]. apply in_map_iff in Hm as (k & <- & _). reflexivity.
    + apply in_map_iff in Hm as (k & <- & _). reflexivity.
Qed.

(* publishing every reserved index *)
Lemma nrange_S lo m : nrange lo (S m) = lo :: nrange (lo + 1) m.
Proof.
  unfold nrange. cbn [seq map]. f_equal; [lia|]. rewrite <- seq_shift, map_map. apply map_ext. intros k. lia.
Qed.

Lemma set_nth_app {A} (l1 l2 : list A) x v : set_nth (length l1) v (l1 ++ x :: l2) = l1 ++ v :: l2.
Proof. induction l1 as [|y l1 IH]; cbn; [reflexivity|]. now rewrite IH. Qed.

Lemma run_publishes m : forall l1,
  run_events sc ln (st_with (l1 ++ repeat false m)) (map (EPublish 0) (nrange (lenN l1) m)) = st_with (l1 ++ repeat true m) /\
  wf_events sc ln (st_with (l1 ++ repeat false m)) (map (EPublish 0) (nrange (lenN l1) m)) /\
  truthful sc ln (st_with (l1 ++ repeat false m)) (map (EPublish 0) (nrange (lenN l1) m)).
Proof.
  induction m as [|m IH]; intros l1.
  - cbn. now repeat split.
  - rewrite nrange_S. cbn [map repeat run_events wf_events truthful].
    assert (Ed : do_event sc ln (st_with (l1 ++ false :: repeat false m)) (EPublish 0 (lenN l1)) =
                 st_with (l1 ++ true :: repeat false m)).
    { change (do_event sc ln (st_with (l1 ++ false :: repeat false m)) (EPublish 0 (lenN l1)))
        with (st_with (set_nth (N.to_nat (lenN l1)) true (l1 ++ false :: repeat false m))).
      unfold lenN. rewrite Nat2N.id, set_nth_app. reflexivity. }
    rewrite Ed.
    destruct (IH (l1 ++ [true])) as (E & Hw & Ht).
    rewrite <- (app_assoc l1 [true] (repeat false m)) in E, Hw, Ht.
    rewrite <- (app_assoc l1 [true] (repeat true m)) in E. cbn [app] in E, Hw, Ht.
    assert (El : lenN (l1 ++ [true]) = lenN l1 + 1) by (unfold lenN; rewrite app_length; cbn; lia).
    rewrite El in E, Hw, Ht.
    split; [exact E|]. split; [|split; [exact I|exact Ht]].
    split; [|exact Hw].
    split; [reflexivity|]. unfold count_of, st_with; cbn [streams upd_streams stream_of]. rewrite N.eqb_refl.
    unfold lenN. rewrite app_length. cbn [length]. lia.
Qed.

Lemma nth_repeat_true n k : (k < n)%nat -> nth k (repeat true n) false = true.
Proof. revert k. induction n as [|n IH]; intros k H; [lia|]. destruct k; cbn; [reflexivity|apply IH; lia]. Qed.

Lemma filter_repeat_true n : filter (fun b : bool => b) (repeat true n) = repeat true n.
Proof. induction n as [|n IH]; cbn; [reflexivity|]. now rewrite IH. Qed.

Lemma all_pub_repeat n : all_pub (repeat true n) n.
Proof.
  split; [unfold lenN; now rewrite repeat_length|]. intros i Hi. apply nth_repeat_true. lia.
Qed.

Definition trivial_ev (e : event) : Prop :=
  match e with ETick | ERun _ _ | ETickBegin _ | EEdit _ false _ => True | _ => False end.

Lemma wf_triv es : forall s, Forall trivial_ev es -> wf_events sc ln s es /\ truthful sc ln s es.
Proof.
  induction es as [|e es IH]; intros s H; cbn [wf_events truthful]; [now split|].
  inversion H as [|? ? He Hes]; subst. destruct (IH (do_event sc ln s e) Hes) as [Hw Ht].
  split; (split; [|assumption]); destruct e; cbn in He; try contradiction; try exact I.
  destruct append; [contradiction|exact I].
Qed.

Definition rest_events (n : nat) : list event :=
  ui_events ++ run1_events (nrange 0 n) (N.of_nat n) ++ [ETick] ++ edit_events ++
  [ERun (nrange 0 n) (N.of_nat n)] ++ [ERun [] 0; ERun [] 0; ERun [] 0; ERun [] 0] ++ [ETick].

Lemma rest_events_triv n : Forall trivial_ev (rest_events n).
Proof. unfold rest_events, ui_events, run1_events, edit_events. cbn [app]. repeat constructor. Qed.

Lemma rest_final n :
  (0 < n)%nat ->
  let L := repeat true n in
  let W := W3 L (nrange 0 n) (N.of_nat n) n in
  run_events sc ln (st_with L) (rest_events n) =
  mkst L SFresh 1 Unchanged (wsnap W)
       (w_upd W false (w_was_canceled W) (w_last W) (w_in_flight W) (w_matches W) (w_pat W) (w_sid W))
       Free false false TIdle (Some (true, false)) PNone (wsnap (Wdone n true 0)) (pcS [(0, L)] 0) false.
Proof.
  intros Hn L W. pose proof (all_pub_repeat n) as Hap. fold L in Hap. pose proof Hap as [HL _].
  unfold rest_events. rewrite !run_events_app.
  rewrite segB, segC, (W1_eq L n Hap), (segD L n _ HL), segE, (segF1 L _ _ n _ _ _ _ Hn), segF2.
  destruct (W3_facts L (nrange 0 n) (N.of_nat n) n HL) as (F1 & F2 & F3 & F4 & _).
  apply (segG L n); assumption.
Qed.

Lemma reachable_quiescent_noph (n : nat) :
  (0 < n)%nat ->
  exists s, reachable_truthful sc ln s /\ quiescent s /\ cur s = 0 /\ ui_pat s = 1 /\
            length (stream_of 0 (streams s)) = n /\
            (forall m, In m (sn_matches (snap s)) -> m_idx m <> PLACEHOLDER).
Proof.
  intros Hn.
  destruct (run_reserves sc ln n []) as (E1 & Hw1 & Ht1). cbn [app] in E1.
  destruct (run_publishes n []) as (E2 & Hw2 & Ht2). cbn [app] in E2, Hw2, Ht2.
  change (lenN (@nil bool)) with 0 in E2, Hw2, Ht2.
  destruct (wf_triv (rest_events n) (st_with (repeat true n)) (rest_events_triv n)) as [Hw3 Ht3].
  pose proof (rest_final n Hn) as E3. cbv zeta in E3.
  set (es := repeat (EReserve 0) n ++ map (EPublish 0) (nrange 0 n) ++ rest_events n).
  assert (Efin : run_events sc ln init_nstate es = run_events sc ln (st_with (repeat true n)) (rest_events n)).
  { unfold es. rewrite !run_events_app. change init_nstate with (st_with []). now rewrite E1, E2. }
  exists (run_events sc ln init_nstate es). split; [|rewrite Efin, E3; split; [|split; [|split; [|split]]]].
  - exists es. split; [|split; [|reflexivity]].
    + unfold es. change init_nstate with (st_with []). apply wf_events_app; [exact Hw1|]. rewrite E1.
      apply wf_events_app; [exact Hw2|]. rewrite E2. exact Hw3.
    + unfold es. change init_nstate with (st_with []). apply truthful_app; [exact Ht1|]. rewrite E1.
      apply truthful_app; [exact Ht2|]. rewrite E2. exact Ht3.
  - unfold quiescent, ui_idle, mkst; sprj. repeat split; try reflexivity; [now exists true|].
    unfold count_of, pcS; sprj. cbn [stream_of]. rewrite N.eqb_refl, filter_repeat_true. reflexivity.
  - reflexivity.
  - reflexivity.
  - unfold mkst; sprj. cbn [stream_of]. rewrite N.eqb_refl. apply repeat_length.
  - unfold mkst; sprj. unfold wsnap; cbn [sn_matches].
    assert (HL : lenN (repeat true n) = N.of_nat n) by (unfold lenN; now rewrite repeat_length).
    apply (W3_facts (repeat true n) (nrange 0 n) (N.of_nat n) n HL).
Qed.

Theorem C07_converges_false : sc 1 0 PLACEHOLDER <> None -> ~ C07_converges_stmt sc ln.
Proof.
  intros Hm H.
  assert (Hn : N.to_nat (N.succ PLACEHOLDER) = S (N.to_nat PLACEHOLDER)) by apply N2Nat.inj_succ.
  assert (Hpos : (0 < N.to_nat (N.succ PLACEHOLDER))%nat) by (rewrite Hn; apply Nat.lt_0_succ).
  destruct (reachable_quiescent_noph _ Hpos) as (s & Hr & Hq & Hcur & Hpat & Hlen & Hno).
  destruct (H s Hr Hq) as (_ & _ & _ & Hset).
  assert (Hin : In PLACEHOLDER (from_scratch_idx sc s (ui_pat s) (cur s))).
  { unfold from_scratch_idx. rewrite Hcur, Hpat, Hlen, Hn. apply filter_In. split.
    - apply in_map_iff. exists (N.to_nat PLACEHOLDER). split; [apply N2Nat.id|]. apply in_seq. split; [apply Nat.le_0_l|].
      cbn [plus]. apply Nat.lt_succ_diag_r.
    - unfold score_of. change (pat_is_empty 1) with false. cbv iota.
      destruct (sc 1 0 PLACEHOLDER); [reflexivity|contradiction]. }
  apply Hset in Hin. apply in_map_iff in Hin as (m & Hidx & Hm'). exact (Hno m Hm' Hidx).
Qed.
End Refute07.

Corollary C06_snapshot_not_valid : ~ (forall sc ln, C06_snapshot_stmt sc ln).
Proof. intros H. exact (C06_snapshot_false (fun _ _ _ => None) (fun _ _ => 0) (H _ _)). Qed.

Corollary C07_converges_not_valid : ~ (forall sc ln, C07_converges_stmt sc ln).
Proof.
  intros H. apply (C07_converges_false (fun _ _ _ => Some 0) (fun _ _ => 0)); [discriminate|apply H].
Qed.

Print Assumptions C06_snapshot_weak.
Print Assumptions C07_converges_weak.
Print Assumptions C06_snapshot_false.
Print Assumptions C07_converges_false.
Print Assumptions C06_snapshot_not_valid.
Print Assumptions C07_converges_not_valid.
